import Lemmas.Conv128AsFloatUlp2
import Lemmas.Conv128FloatBack
import Lemmas.Conv128RatValue
import Lemmas.Conv128Misc
import Lemmas.Conv128Words
import Lemmas.Conv128Fmt
import Lemmas.Conv128Source
import Model.Conv128Load
import Generated.C02Facts
/-! # C02 — 128-bit integers convert and print losslessly and saturate when out of range

Property theorems only.  The executable model is `Model/Conv128.lean` (namespace `Conv`) over the binary64 model
`GoSem/F64.lean`; it is the code the driver `drv_c02` runs against the Go functions on every check.  Helper lemmas:
`Lemmas/Conv128*.lean`, `Lemmas/F64*.lean` (the grammar of integer literals is in `Lemmas/Conv128Grammar.lean`
(plain), `Lemmas/Conv128RatGrammar.lean` and `Lemmas/Conv128RatValue.lean` (exponent form; the only Mathlib user, for
`ℚ`); the rounding facts of `roundRatN` in `Lemmas/F64Nearest.lean`).  `U128.toNat` / `I128.toInt` are the mathematical values of the two words.
`big.Int` is `Int`; a `float64` is a `GoSem.F64` (`WF` = decoded from a 64-bit pattern, `decode_wf`). -/
namespace C02
open Conv GoSem GoSem.F64

/-! ## text: `String` = `MarshalText` = `MarshalJSON` = `MarshalYAML` denotes the exact value and parses back -/

/-- the decimal text of a `Uint128` is the digit string of its exact value … -/
theorem toString_denotes_u (u : U128) : u.toString = natDigits u.toNat ∧ decVal u.toString = u.toNat := by
  rw [U128.toString_eq]; exact ⟨rfl, decVal_natDigits _⟩

/-- … and of an `Int128` the digit string of its exact value with a leading `-` for negative values; the integer the
    text denotes (`signedDecVal`: decimal value of the digits, negated after a leading `-`) is the exact value -/
theorem toString_denotes_i (i : I128) : i.toString = intDigits i.toInt ∧ signedDecVal i.toString = i.toInt := by
  rw [I128.toString_eq]; exact ⟨rfl, signedDecVal_intDigits _⟩

/-- `string_parse_roundtrip` (Uint128): parsing the rendered text yields the identical value -/
theorem string_parse_roundtrip_u (u : U128) : U128.fromString u.toString = some u := by
  have h := parseToBigInt_intDigits (u.toNat : Int)
  have e : intDigits (u.toNat : Int) = natDigits u.toNat := by
    unfold intDigits; rw [if_neg (by omega)]; simp
  rw [e] at h
  unfold U128.fromString
  rw [U128.toString_eq, h]
  show some (U128.fromBigInt u.asBigInt) = some u
  rw [U128.fromBigInt_asBigInt]

/-- `string_parse_roundtrip` (Int128) -/
theorem string_parse_roundtrip_i (i : I128) : I128.fromString i.toString = some i := by
  unfold I128.fromString
  rw [I128.toString_eq, parseToBigInt_intDigits]
  show some (I128.fromBigInt i.toInt) = some i
  rw [← I128.asBigInt_eq, I128.fromBigInt_asBigInt]

/-- **the loader never writes on failure** — about `loadGen .checkThenStore`, the order of the statements in the code
    (`v, err := FromString(text); if err != nil { return err }; *u = v`), for EVERY receiver and EVERY text: the loader
    reports success exactly when the text parses; on success the receiver holds the parsed value; on failure the receiver
    is the one it was.  (`U128.unmarshal`, `unmarshalYAML`, `scanInto` are this loader; the same definition with the other
    order is the CONTRAST `load_store_before_check_writes`.) -/
theorem load_failure_never_writes (r : U128) (q : I128) (s : List Char) :
    ((U128.loadGen .checkThenStore r s).2 = (parseToBigInt s).isSome ∧
      (∀ z, parseToBigInt s = some z → U128.loadGen .checkThenStore r s = (U128.fromBigInt z, true)) ∧
      ((U128.loadGen .checkThenStore r s).2 = false → (U128.loadGen .checkThenStore r s).1 = r)) ∧
    ((I128.loadGen .checkThenStore q s).2 = (parseToBigInt s).isSome ∧
      (∀ z, parseToBigInt s = some z → I128.loadGen .checkThenStore q s = (I128.fromBigInt z, true)) ∧
      ((I128.loadGen .checkThenStore q s).2 = false → (I128.loadGen .checkThenStore q s).1 = q)) := by
  unfold U128.loadGen I128.loadGen U128.fromStringGo I128.fromStringGo U128.fromString I128.fromString
  cases h : parseToBigInt s with
  | none => exact ⟨⟨rfl, fun z hz => (by cases hz), fun _ => rfl⟩, ⟨rfl, fun z hz => (by cases hz), fun _ => rfl⟩⟩
  | some z =>
    refine ⟨⟨rfl, fun z' hz => (by injection hz with hz; subst hz; rfl), fun hf => ?_⟩,
      ⟨rfl, fun z' hz => (by injection hz with hz; subst hz; rfl), fun hf => ?_⟩⟩
    · exact absurd hf (by simp)
    · exact absurd hf (by simp)

/-- CONTRAST (the variant `*u = v; return err` of the same loader — the seeded change `own-c02-19`): with the store before
    the check, EVERY text that is not an integer literal overwrites the receiver with the zero value that accompanies the
    error; so every non-zero receiver is destroyed, whereas the code's order keeps it (`load_failure_never_writes`) -/
theorem load_store_before_check_writes (r : U128) (q : I128) (s : List Char) (h : parseToBigInt s = none) :
    U128.loadGen .storeThenCheck r s = (U128.zero, false) ∧ I128.loadGen .storeThenCheck q s = (I128.zero, false) ∧
    (r ≠ U128.zero → (U128.loadGen .storeThenCheck r s).1 ≠ r ∧ (U128.loadGen .checkThenStore r s).1 = r) := by
  have hz : U128.loadGen .storeThenCheck r s = (U128.zero, false) := by
    unfold U128.loadGen U128.fromStringGo U128.fromString; rw [h]; rfl
  refine ⟨hz, ?_, fun hr => ⟨?_, ?_⟩⟩
  · unfold I128.loadGen I128.fromStringGo I128.fromString; rw [h]; rfl
  · rw [hz]; exact fun e => hr e.symm
  · have := (load_failure_never_writes r q s).1
    apply this.2.2
    rw [this.1, h]; rfl

/-- the two orders agree whenever the text parses: the order matters only on failure -/
example (r : U128) (s : List Char) (z : Int) (h : parseToBigInt s = some z) :
    U128.loadGen .storeThenCheck r s = U128.loadGen .checkThenStore r s := by
  unfold U128.loadGen U128.fromStringGo U128.fromString; rw [h]; rfl

/-- `UnmarshalText` / `UnmarshalJSON` / `UnmarshalYAML` of the rendered text overwrite any receiver with the value -/
theorem unmarshal_roundtrip (u r : U128) (i q : I128) :
    U128.unmarshal r u.toString = (u, true) ∧ I128.unmarshal q i.toString = (i, true) := by
  unfold U128.unmarshal I128.unmarshal U128.loadGen I128.loadGen U128.fromStringGo I128.fromStringGo
  rw [string_parse_roundtrip_u, string_parse_roundtrip_i]; exact ⟨rfl, rfl⟩

/-- a failed load leaves the receiver untouched (instance of `load_failure_never_writes` for `Unmarshal*`), and
    `FromStringNoCheck` then gives 0 -/
theorem unmarshal_error_keeps_receiver (r : U128) (q : I128) (s : List Char) (h : parseToBigInt s = none) :
    U128.unmarshal r s = (r, false) ∧ I128.unmarshal q s = (q, false) ∧
      U128.fromStringNoCheck s = U128.zero ∧ I128.fromStringNoCheck s = I128.zero := by
  obtain ⟨⟨a1, _, a3⟩, ⟨b1, _, b3⟩⟩ := load_failure_never_writes r q s
  rw [h] at a1 b1
  refine ⟨Prod.ext (a3 a1) a1, Prod.ext (b3 b1) b1, ?_, ?_⟩
  · unfold U128.fromStringNoCheck U128.fromString; rw [h]; rfl
  · unfold I128.fromStringNoCheck I128.fromString; rw [h]; rfl

/-- constructor from string: whenever the text denotes the integer `z` (is accepted), the result is `z` when it lies in
    the type's range and the nearest bound when it does not -/
theorem fromString_exact_or_saturates (s : List Char) (z : Int) (h : parseToBigInt s = some z) :
    (∃ u, U128.fromString s = some u ∧ (u.toNat : Int) = if z < 0 then 0 else if z < 2^128 then z else 2^128 - 1) ∧
    (∃ i, I128.fromString s = some i ∧
      i.toInt = if z < -(2^127) then -(2^127) else if z < 2^127 then z else 2^127 - 1) := by
  unfold U128.fromString I128.fromString
  rw [h]
  exact ⟨⟨_, rfl, U128.fromBigInt_spec z⟩, ⟨_, rfl, I128.fromBigInt_spec z⟩⟩

/-- `fromString_rejects`, texts without `e`/`E` (the `big.Int.SetString(s, 0)` branch), **both directions**: the text
    is accepted with value `z` exactly when it is an integer literal of the grammar denoting `z` —
    `Conv.IsPlainIntLiteral` (`Lemmas/Conv128Grammar.lean`): an optional sign, then `0`, or a decimal literal not
    starting with `0`, or `0b`/`0o`/`0x` (either case) followed by digits of that base, or `0` followed by octal
    digits; single underscores are allowed between digits and directly after a prefix, never leading (without prefix),
    trailing or doubled; the value is the Horner value of the digits.  Everything else is rejected. -/
theorem fromString_rejects_plain (s : List Char) (z : Int) (h : hasExpChar s = false) :
    parseToBigInt s = some z ↔ IsPlainIntLiteral s z := by
  unfold parseToBigInt
  rw [h]
  exact bigIntSetString_iff s z

/-- `fromString_rejects`, texts containing `e`/`E` (the `big.Rat.SetString` branch), **both directions**: the text is
    accepted with value `z` exactly when it contains no `/` and is an exponent-form literal whose exact value is the
    integer `z` — `Conv.IsExpIntLiteral` (`Lemmas/Conv128RatValue.lean`, `Lemmas/Conv128RatGrammar.lean`): an optional
    sign; a mantissa = optional `0b`/`0o`/`0x`, digits of that base with single underscores between digits (or after
    the prefix) and at most one radix point not next to an underscore, at least one digit; an optional exponent =
    `e`/`E` (power of 10, not after a hexadecimal mantissa) or `p`/`P` (power of 2), optional sign, decimal digits with
    single inner underscores, fitting an `int64`; the collected powers of 5 and 2 within `math/big`'s limits
    (10^6 and 10^7); and `z = ± mantissa · base^(−fraction digits) · (10|2)^exponent` as rational numbers.
    So a non-integral value (`1.55e1`), a fraction `a/b`, and any malformed text are rejected. -/
theorem fromString_rejects_exp (s : List Char) (z : Int) (h : hasExpChar s = true) :
    parseToBigInt s = some z ↔ hasSlash s = false ∧ IsExpIntLiteral s z := by
  have := parseToBigInt_iff s z
  unfold IsIntLiteral at this
  rw [h] at this
  simpa using this

/-- **`fromString_rejects`, complete**: for every text, `FromString` (both types) accepts it with the big-integer value
    `z` exactly when the text is an integer literal of the grammar denoting `z` (`Conv.IsIntLiteral`: a plain literal
    when there is no `e`/`E`, an exponent-form literal without `/` otherwise); every other text gives the error -/
theorem fromString_rejects (s : List Char) (z : Int) : parseToBigInt s = some z ↔ IsIntLiteral s z :=
  parseToBigInt_iff s z

/-- constructor from string, complete specification over the grammar: a literal denoting `z` is converted to `z`
    saturated to the type's range (`fromBigInt_exact_or_saturates_*`), and a text that is not a literal is an error
    (`none`), after which `FromStringNoCheck` gives 0 -/
theorem fromString_spec (s : List Char) :
    (∀ z, IsIntLiteral s z →
      U128.fromString s = some (U128.fromBigInt z) ∧ I128.fromString s = some (I128.fromBigInt z)) ∧
    ((¬ ∃ z, IsIntLiteral s z) →
      U128.fromString s = none ∧ I128.fromString s = none ∧
      U128.fromStringNoCheck s = U128.zero ∧ I128.fromStringNoCheck s = I128.zero) := by
  constructor
  · intro z hz
    have := (fromString_rejects s z).mpr hz
    unfold U128.fromString I128.fromString
    rw [this]; exact ⟨rfl, rfl⟩
  · intro hn
    have : parseToBigInt s = none := by
      cases hp : parseToBigInt s with
      | none => rfl
      | some z => exact absurd ⟨z, (fromString_rejects s z).mp hp⟩ hn
    unfold U128.fromStringNoCheck I128.fromStringNoCheck U128.fromString I128.fromString
    rw [this]; exact ⟨rfl, rfl, rfl, rfl⟩

/-- `fromString_rejects`, character-class corollaries: the empty text is rejected; a text with an exponent character
    and a `/` is rejected (the fraction syntax of `big.Rat` is excluded); and a text without `e`/`E` is rejected unless it is an
    optional sign followed by a non-empty run of ASCII letters, digits and underscores — so blanks, quotes (a JSON
    string), radix points, a second sign, control characters and non-ASCII bytes are never accepted there. -/
theorem fromString_rejects_charclass (s : List Char) :
    parseToBigInt [] = none ∧
    (hasExpChar s = true → hasSlash s = true → parseToBigInt s = none) ∧
    (hasExpChar s = false → ∀ z, parseToBigInt s = some z →
      ∃ sg body, s = sg ++ body ∧ (sg = [] ∨ sg = ['-'] ∨ sg = ['+']) ∧ body ≠ [] ∧ ∀ c ∈ body, WordChar c) := by
  refine ⟨rfl, ?_, ?_⟩
  · intro h1 h2; unfold parseToBigInt; rw [h1, h2]; rfl
  · intro h1 z h
    unfold parseToBigInt at h
    rw [h1] at h
    exact bigIntSetString_sound s z h

/-! ## fmt.Scanner: text printed with a base verb reads back with the same verb

`U128.scan tok verb` / `I128.scan tok verb` = `fromString (scanText tok verb)` is what the driver runs against
`Sscanf` / `Fscanf` (area `scan`).  A rendering is `sign ++ zero padding ++ digits of |value| in the base`
(`baseDigits b n`, lower case; `natDigits` for base 10), with the sign `SignFor`: `-` for a negative value, nothing or
`+` otherwise; `zeros k` is any amount of zero padding (flag `0`, or a precision). -/

/-- `scan_reads_back`, decimal: `%d` text with any sign form and zero padding reads back with `%d` (both types) -/
theorem scan_reads_back_dec (u : U128) (i : I128) (k : Nat) (sgu sgi : List Char)
    (hu : SignFor (u.toNat : Int) sgu) (hi : SignFor i.toInt sgi) :
    U128.scan (sgu ++ (zeros k ++ natDigits u.toNat)) 'd' = some u ∧
    I128.scan (sgi ++ (zeros k ++ natDigits i.toInt.natAbs)) 'd' = some i := by
  constructor
  · apply scan_of_parse_u
    have := scan_parse_dec sgu (signFor_isSign hu) k u.toNat
    rw [this]; congr 1; exact signFor_value hu
  · apply scan_of_parse_i
    rw [scan_parse_dec sgi (signFor_isSign hi) k i.toInt.natAbs]; congr 1; exact signFor_value hi

/-- `scan_reads_back`, binary: `%b` text reads back with `%b` -/
theorem scan_reads_back_bin (u : U128) (i : I128) (k : Nat) (sgu sgi : List Char)
    (hu : SignFor (u.toNat : Int) sgu) (hi : SignFor i.toInt sgi) :
    U128.scan (sgu ++ (zeros k ++ baseDigits 2 u.toNat)) 'b' = some u ∧
    I128.scan (sgi ++ (zeros k ++ baseDigits 2 i.toInt.natAbs)) 'b' = some i := by
  constructor
  · apply scan_of_parse_u
    have := scan_parse_bin sgu (signFor_isSign hu) k u.toNat
    rw [this]; congr 1; exact signFor_value hu
  · apply scan_of_parse_i
    rw [scan_parse_bin sgi (signFor_isSign hi) k i.toInt.natAbs]; congr 1; exact signFor_value hi

/-- `scan_reads_back`, octal: `%o` text (no prefix) reads back with `%o` and with `%O` -/
theorem scan_reads_back_oct (verb : Char) (hv : verb = 'o' ∨ verb = 'O') (u : U128) (i : I128) (k : Nat)
    (sgu sgi : List Char) (hu : SignFor (u.toNat : Int) sgu) (hi : SignFor i.toInt sgi) :
    U128.scan (sgu ++ (zeros k ++ baseDigits 8 u.toNat)) verb = some u ∧
    I128.scan (sgi ++ (zeros k ++ baseDigits 8 i.toInt.natAbs)) verb = some i := by
  constructor
  · apply scan_of_parse_u
    have := scan_parse_oct verb hv sgu (signFor_isSign hu) k u.toNat
    rw [this]; congr 1; exact signFor_value hu
  · apply scan_of_parse_i
    rw [scan_parse_oct verb hv sgi (signFor_isSign hi) k i.toInt.natAbs]; congr 1; exact signFor_value hi

/-- `scan_reads_back`, hexadecimal, **every value of both types**: `%x` text (lower-case digits) with any sign form and
    any zero padding — including the single padding zero in front of a leading digit `b` (`%03x` of 177 = `0b1`), which is
    not taken for a binary prefix — reads back with `%x` and with `%X`.  No hypothesis on the digits: a text containing the
    digit `e` takes the `big.Rat` branch of `parseToBigInt`, where `0x…` is a hexadecimal mantissa without radix point and
    without exponent (`e` is a digit of the base) and denotes the fraction value/1 (`Conv.parse_hex_body`). -/
theorem scan_reads_back_hex (verb : Char) (hv : verb = 'x' ∨ verb = 'X') (u : U128) (i : I128) (k : Nat)
    (sgu sgi : List Char) (hu : SignFor (u.toNat : Int) sgu) (hi : SignFor i.toInt sgi) :
    U128.scan (sgu ++ (zeros k ++ baseDigits 16 u.toNat)) verb = some u ∧
    I128.scan (sgi ++ (zeros k ++ baseDigits 16 i.toInt.natAbs)) verb = some i := by
  constructor
  · apply scan_of_parse_u
    rw [scan_parse_hex_all verb hv sgu (signFor_isSign hu) k u.toNat]; congr 1; exact signFor_value hu
  · apply scan_of_parse_i
    rw [scan_parse_hex_all verb hv sgi (signFor_isSign hi) k i.toInt.natAbs]; congr 1; exact signFor_value hi

/-- `scan_reads_back`, hexadecimal, upper case: `%X` text (`baseDigitsU`, digits `A`–`F`) with any sign form and zero
    padding reads back with `%X` and with `%x`, for every value of both types -/
theorem scan_reads_back_hex_upper (verb : Char) (hv : verb = 'x' ∨ verb = 'X') (u : U128) (i : I128) (k : Nat)
    (sgu sgi : List Char) (hu : SignFor (u.toNat : Int) sgu) (hi : SignFor i.toInt sgi) :
    U128.scan (sgu ++ (zeros k ++ baseDigitsU 16 u.toNat)) verb = some u ∧
    I128.scan (sgi ++ (zeros k ++ baseDigitsU 16 i.toInt.natAbs)) verb = some i := by
  constructor
  · apply scan_of_parse_u
    rw [scan_parse_hexU_all verb hv sgu (signFor_isSign hu) k u.toNat]; congr 1; exact signFor_value hu
  · apply scan_of_parse_i
    rw [scan_parse_hexU_all verb hv sgi (signFor_isSign hi) k i.toInt.natAbs]; congr 1; exact signFor_value hi

/-- hexadecimal text of ANY shape of digits (mixed case, any length, any padding) denotes its Horner value under
    `%x` / `%X`, saturated to the type's range like every other constructor from text -/
theorem scan_hex_digits_value (verb : Char) (hv : verb = 'x' ∨ verb = 'X') (body : List Char) (hne : body ≠ [])
    (hall : ∀ c ∈ body, digitVal c < 16) :
    U128.scan body verb = some (U128.fromBigInt (digitsVal 16 body : Int)) ∧
    I128.scan ('-' :: body) verb = some (I128.fromBigInt (-(digitsVal 16 body : Int))) := by
  have h1 := scan_parse_hex_body verb hv [] (Or.inl rfl) body hne hall
  have h2 := scan_parse_hex_body verb hv ['-'] (Or.inr (Or.inr rfl)) body hne hall
  simp only [List.nil_append, List.cons_append, reduceCtorEq, if_false, if_true] at h1 h2
  unfold U128.scan I128.scan U128.fromString I128.fromString
  rw [h1, h2]; exact ⟨rfl, rfl⟩

/-- every verb other than `b o O d x X` leaves the token alone: `Scan` is `FromString` of the token -/
theorem scan_other_verbs (verb : Char) (h : verbPrefix verb = none) (t : List Char) :
    U128.scan t verb = U128.fromString t ∧ I128.scan t verb = I128.fromString t := by
  unfold U128.scan I128.scan scanText
  rw [h]; exact ⟨rfl, rfl⟩

/-- non-vacuity: `0b1` under `%x` is 177, `000123` under `%d` is 123, `10` under `%x` is 16 -/
example : U128.scan ['0', 'b', '1'] 'x' = some ⟨0#64, 177#64⟩ ∧ U128.scan ['0', '0', '0', '1', '2', '3'] 'd' = some ⟨0#64, 123#64⟩ ∧
    U128.scan ['1', '0'] 'x' = some ⟨0#64, 16#64⟩ := by decide

/-- … and the `big.Rat` branch: `1e` under `%x` and `1E` under `%X` are 0x1e = 30; `baseDigitsU 16 0x1ebe` is `1EBE` -/
example : U128.scan ['1', 'e'] 'x' = some ⟨0#64, 30#64⟩ ∧ U128.scan ['1', 'E'] 'X' = some ⟨0#64, 30#64⟩ ∧
    hasExpChar ['0', 'x', '1', 'e'] = true := by decide

/-! ## big.Int -/

/-- `AsBigInt` is the exact value -/
theorem asBigInt_exact (u : U128) (i : I128) : u.asBigInt = (u.toNat : Int) ∧ i.asBigInt = i.toInt :=
  ⟨U128.asBigInt_eq u, I128.asBigInt_eq i⟩

/-- `fromBigInt_exact_or_saturates` (Uint128): exact in `[0, 2^128)`, 0 below, `MaxUint128` above -/
theorem fromBigInt_exact_or_saturates_u (z : Int) :
    ((U128.fromBigInt z).toNat : Int) = if z < 0 then 0 else if z < 2^128 then z else 2^128 - 1 :=
  U128.fromBigInt_spec z

/-- `fromBigInt_exact_or_saturates` (Int128): exact in `[-2^127, 2^127)`, `MinInt128` below, `MaxInt128` above -/
theorem fromBigInt_exact_or_saturates_i (z : Int) :
    (I128.fromBigInt z).toInt = if z < -(2^127) then -(2^127) else if z < 2^127 then z else 2^127 - 1 :=
  I128.fromBigInt_spec z

/-- `asBigInt_fromBigInt`: loading the big.Int rendering back yields the identical value -/
theorem asBigInt_fromBigInt (u : U128) (i : I128) :
    U128.fromBigInt u.asBigInt = u ∧ I128.fromBigInt i.asBigInt = i :=
  ⟨U128.fromBigInt_asBigInt u, I128.fromBigInt_asBigInt i⟩

/-- … and an in-range big.Int survives the round trip through either type -/
theorem fromBigInt_asBigInt (z : Int) :
    (0 ≤ z → z < 2^128 → (U128.fromBigInt z).asBigInt = z) ∧
    (-(2^127) ≤ z → z < 2^127 → (I128.fromBigInt z).asBigInt = z) := by
  constructor
  · intro h1 h2
    rw [U128.asBigInt_eq, U128.fromBigInt_spec, if_neg (by omega), if_pos h2]
  · intro h1 h2
    rw [I128.asBigInt_eq, I128.fromBigInt_spec, if_neg (by omega), if_pos h2]

/-! ## fmt.Formatter: what `Format` writes denotes the exact value and reads back through `Scan`

`U128.format st ch u` / `I128.format st ch i` (`Model/Conv128Fmt.lean`) = `AsBigInt` followed by `(*big.Int).Format`,
transcribed statement for statement; `st : FmtState` is what the `fmt.State` reports (flags `+ - # blank 0`, width,
precision).  The driver runs them against the real method (called with such a state, and through `fmt.Sprintf`) on every
line of the area `format`, and `fmtToken` (skip blanks, run to the next blank) stands for `ScanState.Token`. -/

/-- **the formatted text denotes the exact value**: for every verb that has a base (`b o O d s v x X`), every flag
    combination, width and precision (except the empty rendering of 0 under precision 0) the text is
    `[blanks][sign][base prefix][zeros][digits][blanks]`, the digits are digits of the verb's base whose Horner value —
    with or without the zero padding — is exactly `|value|`, and the sign is `-` exactly for negative values -/
theorem format_denotes (st : FmtState) (ch : Char) (base : Nat) (hb : verbBase ch = some base) (u : U128) (i : I128) :
    (¬ (st.prec = some 0 ∧ u.toNat = 0) → ∃ l zr r D, U128.format st ch u = some (blanks l ++ fmtSign st false ++ fmtPrefix st ch ++ zeroPad zr ++ D ++ blanks r) ∧
      (∀ c ∈ D, digitVal c < base) ∧ digitsVal base D = u.toNat ∧ digitsVal base (zeroPad zr ++ D) = u.toNat) ∧
    (¬ (st.prec = some 0 ∧ i.toInt = 0) → ∃ l zr r D, I128.format st ch i =
        some (blanks l ++ fmtSign st (decide (i.toInt < 0)) ++ fmtPrefix st ch ++ zeroPad zr ++ D ++ blanks r) ∧
      (∀ c ∈ D, digitVal c < base) ∧ digitsVal base D = i.toInt.natAbs ∧
      digitsVal base (zeroPad zr ++ D) = i.toInt.natAbs ∧ (fmtSign st (decide (i.toInt < 0)) = ['-'] ↔ i.toInt < 0)) := by
  constructor
  · intro hu
    have hz : ¬ (st.prec = some 0 ∧ u.asBigInt = 0) := by
      rw [U128.asBigInt_eq]; intro ⟨a, b⟩; exact hu ⟨a, by omega⟩
    obtain ⟨l, zr, r, D, h1, h2, h3, h4⟩ := bigFormat_denotes st ch base hb u.asBigInt hz
    have hn : ¬ (u.asBigInt < 0) := by rw [U128.asBigInt_eq]; omega
    rw [decide_eq_false hn] at h1
    rw [U128.asBigInt_eq] at h3 h4
    exact ⟨l, zr, r, D, h1, h2, by simpa using h3, by simpa using h4⟩
  · intro hi
    have hz : ¬ (st.prec = some 0 ∧ i.asBigInt = 0) := by rw [I128.asBigInt_eq]; exact hi
    obtain ⟨l, zr, r, D, h1, h2, h3, h4⟩ := bigFormat_denotes st ch base hb i.asBigInt hz
    rw [I128.asBigInt_eq] at h3 h4
    have h1' : I128.format st ch i =
        some (blanks l ++ fmtSign st (decide (i.toInt < 0)) ++ fmtPrefix st ch ++ zeroPad zr ++ D ++ blanks r) := by
      unfold I128.format; rw [h1, I128.asBigInt_eq]
    refine ⟨l, zr, r, D, h1', h2, h3, h4, ?_⟩
    unfold fmtSign
    by_cases hneg : i.toInt < 0
    · rw [decide_eq_true hneg]; simp [hneg]
    · rw [decide_eq_false hneg]
      cases st.plus <;> cases st.space <;> simp [hneg]

/-- without flags, width and precision the verbs `d`, `v` and `s` (what `Print`, `Println`, `%v` use) write exactly
    the text `String()` returns — so `string_parse_roundtrip_*` and `toString_denotes_*` speak about that text too -/
theorem format_plain_is_string (ch : Char) (hch : ch = 'd' ∨ ch = 'v' ∨ ch = 's') (u : U128) (i : I128) :
    U128.format plainState ch u = some u.toString ∧ I128.format plainState ch i = some i.toString := by
  unfold U128.format I128.format
  rw [bigFormat_plain ch hch, bigFormat_plain ch hch, U128.toString_eq, I128.toString_eq, U128.asBigInt_eq,
    I128.asBigInt_eq]
  constructor
  · unfold intDigits; rw [if_neg (by omega)]; simp
  · rfl

/-- **`format_reads_back`**: for the six base verbs `b o O d x X`, EVERY combination of the flags `+ - # blank 0`, every
    width and every precision (except the empty rendering of 0 under precision 0), and every value of both types: the
    text `Format` writes, cut to the token `fmt`'s scanner delivers, is read back by `Scan` with the same verb as the
    identical value.  (So `%#x` / `%#X` / `%#b` / `%O` texts that already carry a prefix, `%#o` with its leading `0`,
    zero padding by width or precision, and left or right blank padding all survive the round trip.) -/
theorem format_reads_back (st : FmtState) (ch : Char) (hch : IsBaseVerb ch) (u : U128) (i : I128) :
    (¬ (st.prec = some 0 ∧ u.toNat = 0) →
      ∃ text, U128.format st ch u = some text ∧ U128.scan (fmtToken text) ch = some u) ∧
    (¬ (st.prec = some 0 ∧ i.toInt = 0) →
      ∃ text, I128.format st ch i = some text ∧ I128.scan (fmtToken text) ch = some i) := by
  constructor
  · intro hu
    have hz : ¬ (st.prec = some 0 ∧ u.asBigInt = 0) := by
      rw [U128.asBigInt_eq]; intro ⟨a, b⟩; exact hu ⟨a, by omega⟩
    obtain ⟨text, h1, h2⟩ := bigFormat_reads_back st ch hch u.asBigInt hz
    exact ⟨text, h1, scan_of_parse_u u _ ch (by rw [h2, U128.asBigInt_eq])⟩
  · intro hi
    have hz : ¬ (st.prec = some 0 ∧ i.asBigInt = 0) := by rw [I128.asBigInt_eq]; exact hi
    obtain ⟨text, h1, h2⟩ := bigFormat_reads_back st ch hch i.asBigInt hz
    exact ⟨text, h1, scan_of_parse_i i _ ch (by rw [h2, I128.asBigInt_eq])⟩

/-- `format_reads_back` for `%v` and `%s` (what `Sprint` / `Sscan` use): with any of the flags `+ - # blank` and any
    width, but without zero padding (no `0` flag, no precision), the token is read back by `Scan` as the identical value.
    (With zero padding the decimal text would be taken for an octal literal by `FromString` — `CONTRAST` below.) -/
theorem format_reads_back_v (st : FmtState) (ch : Char) (hch : ch = 'v' ∨ ch = 's') (hp : st.prec = none)
    (hz : st.zero = false) (u : U128) (i : I128) :
    (∃ text, U128.format st ch u = some text ∧ U128.scan (fmtToken text) ch = some u) ∧
    (∃ text, I128.format st ch i = some text ∧ I128.scan (fmtToken text) ch = some i) := by
  constructor
  · obtain ⟨text, h1, h2⟩ := bigFormat_reads_back_v st ch hch hp hz u.asBigInt
    exact ⟨text, h1, scan_of_parse_u u _ ch (by rw [h2, U128.asBigInt_eq])⟩
  · obtain ⟨text, h1, h2⟩ := bigFormat_reads_back_v st ch hch hp hz i.asBigInt
    exact ⟨text, h1, scan_of_parse_i i _ ch (by rw [h2, I128.asBigInt_eq])⟩

/-- CONTRAST (why `format_reads_back_v` excludes zero padding, and why `scanText` must drop it under `%d`): the text
    `%04v` prints for 10 is `0010`; read back with the verb `v` it is the octal literal 8, with the verb `d` it is 10.
    And without the prefix handling of `scanText`, i.e. `FromString` applied to the token, `%x` of 16 (`10`) would read
    back as 10. -/
theorem format_zero_padding_contrast :
    U128.format ⟨false, false, false, false, true, some 4, none⟩ 'v' ⟨0#64, 10#64⟩ = some ['0', '0', '1', '0'] ∧
    U128.scan ['0', '0', '1', '0'] 'v' = some ⟨0#64, 8#64⟩ ∧ U128.scan ['0', '0', '1', '0'] 'd' = some ⟨0#64, 10#64⟩ ∧
    U128.format ⟨false, false, false, false, false, none, none⟩ 'x' ⟨0#64, 16#64⟩ = some ['1', '0'] ∧
    U128.fromString ['1', '0'] = some ⟨0#64, 10#64⟩ ∧ U128.scan ['1', '0'] 'x' = some ⟨0#64, 16#64⟩ := by decide

/-- non-vacuity: `%#+8x` of −255 is `   -0xff` with the sign before the prefix; `%-06X` pads on the right; the verb
    `c` is not supported; the empty rendering is real: `%.0d` of 0 prints nothing, and nothing does not scan -/
example : I128.format ⟨true, false, true, false, false, some 8, none⟩ 'x' ⟨0xffffffffffffffff#64, 0xffffffffffffff01#64⟩ =
    some [' ', ' ', ' ', '-', '0', 'x', 'f', 'f'] ∧
    U128.format ⟨false, true, false, false, true, some 6, none⟩ 'X' ⟨0#64, 0xbeef#64⟩ = some ['B', 'E', 'E', 'F', ' ', ' '] ∧
    U128.format ⟨false, false, false, false, false, none, none⟩ 'c' ⟨0#64, 1#64⟩ = none ∧
    U128.format ⟨false, false, false, false, false, none, some 0⟩ 'd' U128.zero = some [] ∧
    U128.scan (fmtToken []) 'd' = none := by decide

/-- CONTRAST (why `FromBigInt` compares before converting): without the `LessThan(maxInt128AsUint128)` /
    `LessThan(minInt128AsAbsUint128)` tests the imported magnitude would simply be reinterpreted — 2^127 would become
    `MinInt128` instead of saturating to `MaxInt128`, and −(2^127 + 1) would become `MaxInt128` instead of `MinInt128`;
    and without the saturating arms of the `len(words)` switch (three 64-bit words taken for their low two) 2^128 + 5
    would become 5.  The real functions give the nearest bound in all three cases. -/
theorem fromBigInt_contrast :
    (wordsToU128 (2^127)).asInt128.toInt = -(2^127) ∧ (I128.fromBigInt (2^127)).toInt = 2^127 - 1 ∧
    (wordsToU128 (2^127 + 1)).asInt128.neg.toInt = 2^127 - 1 ∧ (I128.fromBigInt (-(2^127 + 1))).toInt = -(2^127) ∧
    (wordsToU128W 64 ((natToWords 64 (2^128 + 5)).take 2)).toNat = 5 ∧
    (U128.fromBigIntW 64 false (natToWords 64 (2^128 + 5))).toNat = 2^128 - 1 := by decide

/-! ## big.Int at the level of `big.Word`s (`Bits()`), for both sizes of `big.Word`

`U128.fromBigIntW W neg ws` / `I128.fromBigIntW` transcribe the `switch len(words)` of the two `FromBigInt` functions with
`intSize == W`; `U128.toBigIntW W dest u` / `I128.toBigIntW` transcribe `ToBigInt` into a destination whose `Bits()` are
`dest` (grow with `append`, cut `words[:n]`, store, `SetBits`).  The driver runs them for W = 32 and W = 64 on every line
of the area `words`, on the `Bits()` the real `big.Int` has (`natToWords`, compared word for word).  A `big.Int` is a sign
and a slice of words that is bounded (`BoundedWords W`: every word below 2^W) and normalised (`NormalWords`: no
most-significant zero word); `bigVal` is its value. -/

/-- `Bits()` of a magnitude, as the driver feeds them: bounded, normalised, and denoting the magnitude — the hypotheses
    of the word-level theorems below describe exactly these slices -/
theorem bits_wellformed (W : Nat) (hW : W = 32 ∨ W = 64) (n : Nat) :
    wordsVal W (natToWords W n) = n ∧ BoundedWords W (natToWords W n) ∧ NormalWords (natToWords W n) := by
  have hW0 : 0 < W := by rcases hW with rfl | rfl <;> omega
  obtain ⟨a, b, c, _⟩ := natToWords_facts W hW0 n
  exact ⟨a, b, c⟩

/-- **`FromBigInt` on words = `FromBigInt` on the value**, both word sizes, both types: the `len(words)` switch (arms
    0, 1, 2 and saturation from 3 words on for 64-bit words; arms 0 to 4 with the 32-bit halves joined by shift-and-or and
    saturation from 5 words on for 32-bit words) computes the value-level import that `fromBigInt_exact_or_saturates_*`
    speaks about -/
theorem fromBigIntW_eq_value (W : Nat) (hW : W = 32 ∨ W = 64) (neg : Bool) (ws : List Nat)
    (hb : BoundedWords W ws) (hn : NormalWords ws) :
    U128.fromBigIntW W neg ws = U128.fromBigInt (bigVal W (neg, ws)) ∧
    I128.fromBigIntW W neg ws = I128.fromBigInt (bigVal W (neg, ws)) :=
  ⟨U128.fromBigIntW_eq W hW neg ws hb hn, I128.fromBigIntW_eq W hW neg ws hb hn⟩

/-- constructor from `big.Int`, stated on the words: exact when the value lies in the type's range, the nearest bound
    when it does not — for `intSize == 32` as for `intSize == 64` -/
theorem fromBigIntW_exact_or_saturates (W : Nat) (hW : W = 32 ∨ W = 64) (neg : Bool) (ws : List Nat)
    (hb : BoundedWords W ws) (hn : NormalWords ws) :
    ((U128.fromBigIntW W neg ws).toNat : Int) =
      (let z := bigVal W (neg, ws); if z < 0 then 0 else if z < 2^128 then z else 2^128 - 1) ∧
    (I128.fromBigIntW W neg ws).toInt =
      (let z := bigVal W (neg, ws); if z < -(2^127) then -(2^127) else if z < 2^127 then z else 2^127 - 1) := by
  obtain ⟨h1, h2⟩ := fromBigIntW_eq_value W hW neg ws hb hn
  rw [h1, h2]
  exact ⟨U128.fromBigInt_spec _, I128.fromBigInt_spec _⟩

/-- **`ToBigInt` into ANY destination** (any number of words, any content, any sign), both word sizes: afterwards the
    destination is a well-formed `big.Int` (bounded, normalised words; a sign only on a non-zero value) whose value is
    exactly the `Uint128` / `Int128` -/
theorem toBigIntW_any_destination (W : Nat) (hW : W = 32 ∨ W = 64) (dest : List Nat) (u : U128) (i : I128) :
    (wordsVal W (U128.toBigIntW W dest u) = u.toNat ∧ BoundedWords W (U128.toBigIntW W dest u) ∧
      NormalWords (U128.toBigIntW W dest u)) ∧
    (bigVal W (I128.toBigIntW W dest i) = i.toInt ∧ BoundedWords W (I128.toBigIntW W dest i).2 ∧
      NormalWords (I128.toBigIntW W dest i).2 ∧ ((I128.toBigIntW W dest i).1 = true → i.toInt < 0)) :=
  ⟨U128.toBigIntW_spec W hW dest u, I128.toBigIntW_spec W hW dest i⟩

/-- the big.Int rendering, loaded back word by word, yields the identical value — whatever the destination held before
    and whichever of the two word sizes the platform has -/
theorem toBigIntW_fromBigIntW (W : Nat) (hW : W = 32 ∨ W = 64) (dest : List Nat) (u : U128) (i : I128) :
    U128.fromBigIntW W false (U128.toBigIntW W dest u) = u ∧
    I128.fromBigIntW W (I128.toBigIntW W dest i).1 (I128.toBigIntW W dest i).2 = i := by
  obtain ⟨⟨v, b, n⟩, ⟨vi, bi, ni, _⟩⟩ := toBigIntW_any_destination W hW dest u i
  constructor
  · rw [(fromBigIntW_eq_value W hW false _ b n).1]
    have : bigVal W (false, U128.toBigIntW W dest u) = u.asBigInt := by
      unfold bigVal; simp only [Bool.false_eq_true, if_false]; rw [v]; rfl
    rw [this, U128.fromBigInt_asBigInt]
  · rw [(fromBigIntW_eq_value W hW _ _ bi ni).2, vi, ← I128.asBigInt_eq, I128.fromBigInt_asBigInt]

/-- CONTRAST: `ToBigInt` without the cut `words = words[:n]` (the model's `toBigIntWordsGen false`) is wrong for EVERY
    value as soon as the destination held more than `n` words — off by 2^128 on a destination that held 2^128 -/
theorem toBigInt_without_cut_is_wrong (u : U128) :
    wordsVal 64 (toBigIntWordsGen false 64 (natToWords 64 (2^128)) u) ≠ u.toNat ∧
    wordsVal 32 (toBigIntWordsGen false 32 (natToWords 32 (2^128)) u) ≠ u.toNat := by
  have e64 : natToWords 64 (2^128) = [0, 0, 1] := by decide
  have e32 : natToWords 32 (2^128) = [0, 0, 0, 0, 1] := by decide
  rw [e64, e32, toBigInt_no_cut_64, toBigInt_no_cut_32]
  omega

/-- non-vacuity: 2^64 + 255 has the words `[255, 1]` (64-bit) and `[255, 0, 1]` (32-bit) and imports to hi = 1, lo = 255
    under both switches; −2^127 exports to the sign and the words `[0, 2^63]` over a destination of five words -/
example : natToWords 64 (2^64 + 255) = [255, 1] ∧ natToWords 32 (2^64 + 255) = [255, 0, 1] ∧
    U128.fromBigIntW 64 false [255, 1] = ⟨1#64, 255#64⟩ ∧ U128.fromBigIntW 32 false [255, 0, 1] = ⟨1#64, 255#64⟩ ∧
    I128.toBigIntW 64 [7, 7, 7, 7, 7] I128.min = (true, [0, 2^63]) := by decide

/-! ## the remaining entry points: `AsBigFloat`, `Float64()`, `UnmarshalYAML` with its callback, `Scan` with its state
    (`Model/Conv128Load.lean`; driver lines `asbigfloat`, `float64m`, `yamlcb`, `scantok` of the area `conv`) -/

/-- `AsBigFloat` (`new(big.Float).SetInt(AsBigInt())`: precision = the larger of the bit length and 64, then rounding to
    that precision) holds the exact value of every `Uint128` / `Int128`: the precision always suffices -/
theorem asBigFloat_exact (u : U128) (i : I128) :
    (u.asBigFloat.2 = (u.toNat : Int) ∧ 64 ≤ u.asBigFloat.1 ∧ bitLen u.toNat ≤ u.asBigFloat.1) ∧
    (i.asBigFloat.2 = i.toInt ∧ 64 ≤ i.asBigFloat.1 ∧ bitLen i.toInt.natAbs ≤ i.asBigFloat.1) := by
  have key : ∀ x : Int, (bigFloatSetInt x).2 = x ∧ 64 ≤ (bigFloatSetInt x).1 ∧ bitLen x.natAbs ≤ (bigFloatSetInt x).1 := by
    intro x
    unfold bigFloatSetInt bigFloatSetIntGen roundToPrec
    simp only []
    refine ⟨?_, Nat.le_max_right _ _, Nat.le_max_left _ _⟩
    rw [if_pos (Nat.le_max_left _ _)]
  constructor
  · have := key u.asBigInt
    rw [U128.asBigInt_eq] at this
    unfold U128.asBigFloat; rw [U128.asBigInt_eq]
    simpa using this
  · have := key i.asBigInt
    rw [I128.asBigInt_eq] at this
    unfold I128.asBigFloat; rw [I128.asBigInt_eq]
    exact this

/-- CONTRAST: the same `SetInt` with the precision fixed at 64 beforehand (`bigFloatSetInt64`, the variant
    `new(big.Float).SetPrec(64).SetInt`, run by the driver line `bigfloat64` against math/big so that the rounding branch of
    `roundToPrec` is validated) rounds 2^64 + 1 to 2^64 and MaxUint128 up to 2^128; the code's choice of precision keeps both.
    (`asBigFloat_exact` itself follows directly from that choice: precision ≥ bit length means `roundToPrec` takes its first
    branch — it records the mechanism, the comparison with math/big carries that `SetInt` is as transcribed.) -/
theorem asBigFloat_contrast :
    (bigFloatSetInt64 (2^64 + 1)).2 = 2^64 ∧ (bigFloatSetInt (2^64 + 1)).2 = 2^64 + 1 ∧
    (bigFloatSetInt64 (2^128 - 1)).2 = 2^128 ∧ U128.max.asBigFloat = (128, 2^128 - 1) := by decide

/-- `UnmarshalYAML` and `Scan` as methods on a receiver: the rendered text (the decimal text through the YAML callback; the
    token of ANY `Format` rendering with a base verb through `Scan` with the same verb) overwrites any receiver with the
    identical value; a failing callback, a failing `Token`, and a text that is not an integer literal leave the
    receiver untouched and report an error -/
theorem load_into_receiver (r : U128) (q : I128) :
    (∀ u : U128, U128.unmarshalYAML r (some u.toString) = (u, true)) ∧
    (∀ i : I128, I128.unmarshalYAML q (some i.toString) = (i, true)) ∧
    U128.unmarshalYAML r none = (r, false) ∧ I128.unmarshalYAML q none = (q, false) ∧
    (∀ s, parseToBigInt s = none → U128.unmarshalYAML r (some s) = (r, false) ∧ I128.unmarshalYAML q (some s) = (q, false)) ∧
    (∀ verb, U128.scanInto r none verb = (r, false) ∧ I128.scanInto q none verb = (q, false)) ∧
    (∀ t verb, parseToBigInt (scanText t verb) = none →
      U128.scanInto r (some t) verb = (r, false) ∧ I128.scanInto q (some t) verb = (q, false)) ∧
    (∀ (st : FmtState) (ch : Char) (u : U128) (i : I128), IsBaseVerb ch →
      ¬ (st.prec = some 0 ∧ u.toNat = 0) → ¬ (st.prec = some 0 ∧ i.toInt = 0) →
      (∃ text, U128.format st ch u = some text ∧ U128.scanInto r (some (fmtToken text)) ch = (u, true)) ∧
      (∃ text, I128.format st ch i = some text ∧ I128.scanInto q (some (fmtToken text)) ch = (i, true))) := by
  refine ⟨?_, ?_, rfl, rfl, ?_, fun _ => ⟨rfl, rfl⟩, ?_, ?_⟩
  · intro u; exact (unmarshal_roundtrip u r I128.zero q).1
  · intro i; exact (unmarshal_roundtrip U128.zero r i q).2
  · intro s hs
    obtain ⟨a, b, _, _⟩ := unmarshal_error_keeps_receiver r q s hs
    exact ⟨a, b⟩
  · intro t verb h
    obtain ⟨a, b, _, _⟩ := unmarshal_error_keeps_receiver r q (scanText t verb) h
    exact ⟨a, b⟩
  · intro st ch u i hch hu hi
    obtain ⟨t1, a1, b1⟩ := (format_reads_back st ch hch u i).1 hu
    obtain ⟨t2, a2, b2⟩ := (format_reads_back st ch hch u i).2 hi
    refine ⟨⟨t1, a1, ?_⟩, ⟨t2, a2, ?_⟩⟩
    · unfold U128.scan at b1
      show U128.loadGen .checkThenStore r (scanText (fmtToken t1) ch) = (u, true)
      unfold U128.loadGen U128.fromStringGo; rw [b1]; rfl
    · unfold I128.scan at b2
      show I128.loadGen .checkThenStore q (scanText (fmtToken t2) ch) = (i, true)
      unfold I128.loadGen I128.fromStringGo; rw [b2]; rfl

/-- `Float64()` of the `json.Number` interface is an error for every value (no float is ever emitted into JSON / YAML) -/
example : U128.float64Method U128.max = none ∧ I128.float64Method I128.min = none := ⟨rfl, rfl⟩

/-! ## the constants and tables the model copies by hand are the source's

`Generated/C02Facts.lean` is deleted and regenerated by `vlib/C02.py` on every run from `xmath/num/uint128.go`,
`int128.go` of the working tree and from `math/big/intconv.go` of the toolchain the harness is built with.  Every fact
is optional (`none` / `[]` when a rewrite no longer spells it in the expected form — then it is simply not compared);
`agrees*` = absent or equal, `sameChars` = equal as sets (the order of the letters in `strings.ContainsRune(letters, …)`
does not matter). -/

set_option maxRecDepth 100000 in
/-- the float range constants as the Go declarations compute them (`float64(math.MaxUint64)`, `math.Nextafter(…, 0)`,
    `float64(2^128 − 1)`, `float64(math.MaxUint64) + 1`, `float64(±2^127 …)`, over `GoSem.F64`) ARE the literals that
    `fromFloat64_spec_*` are proved about — closes the chain source literal → `constsComputed` → `constsLiteral` (until now
    only a run-time comparison in the driver line `consts`) -/
theorem consts_computed_are_literals : constsComputed = constsLiteral := by decide

/-- `signBit`, `MaxUint128`, `MaxInt128`, `MinInt128`, the two unsigned bounds `FromBigInt` compares with, `maxBigUint128` and
    the integer literals inside the `float64(…)` range constants (`Conv.constsComputed_uses_literals`) -/
theorem source_constants_agree :
    agreesNat C02Facts.signBit signBit64.toNat = true ∧
    agreesPair C02Facts.MaxUint128 U128.max.hi U128.max.lo = true ∧
    agreesPair C02Facts.MaxInt128 I128.max.hi I128.max.lo = true ∧
    agreesPair C02Facts.MinInt128 I128.min.hi I128.min.lo = true ∧
    agreesPair C02Facts.minInt128AsAbsUint128 minInt128AsAbsUint128.hi minInt128AsAbsUint128.lo = true ∧
    agreesPair C02Facts.maxInt128AsUint128 maxInt128AsUint128.hi maxInt128AsUint128.lo = true ∧
    agreesNat C02Facts.maxBigUint128 maxBigUint128 = true ∧
    agreesInt C02Facts.maxRepresentableUint128Float litMaxU128 = true ∧
    agreesInt C02Facts.minInt128Float litMinI128 = true ∧
    agreesInt C02Facts.maxInt128Float litMaxI128 = true := by decide

/-- every arm of the `switch verb` of `scanText` (verb, inserted prefix, letters that mark an existing prefix) is the arm
    of the model's `verbPrefix`, and the verbs with an arm are exactly the model's six -/
theorem source_scan_table_agrees :
    C02Facts.scanVerbs.all scanArmAgrees = true ∧
    (C02Facts.scanVerbs ≠ [] → sameChars (C02Facts.scanVerbs.map (·.1)) scanModelVerbs = true) := by decide

/-- the tables of `(*big.Int).Format` in the toolchain's `math/big`: verb → base, `#` prefix per verb, the prefix `0o`
    that `O` always gets — are those of the transcription `Conv.bigFormat`, for exactly the model's eight verbs -/
theorem source_format_tables_agree :
    C02Facts.fmtBases.all (fun e => verbBase e.1 == some e.2) = true ∧
    (C02Facts.fmtBases ≠ [] → sameChars (C02Facts.fmtBases.map (·.1)) fmtModelVerbs = true) ∧
    C02Facts.fmtSharp.all (fun e => e.1 == 'O' || fmtPrefix (sharpState true) e.1 == e.2) = true ∧
    (C02Facts.fmtSharp ≠ [] → fmtModelVerbs.all (fun v =>
      v == 'O' || (C02Facts.fmtSharp.map (·.1)).contains v || fmtPrefix (sharpState true) v == []) = true) ∧
    C02Facts.fmtAlways.all (fun e => fmtPrefix (sharpState false) e.1 == e.2 && fmtPrefix (sharpState true) e.1 == e.2) = true ∧
    (C02Facts.fmtAlways ≠ [] → fmtModelVerbs.all (fun v =>
      (C02Facts.fmtAlways.map (·.1)).contains v || fmtPrefix (sharpState false) v == []) = true) := by decide

/-! ## 64-bit constructors -/

/-- `Uint128From64`, `Int128From64`, `Int128FromUint64` are exact -/
theorem from64_exact (v : BitVec 64) :
    (U128.from64 v).toNat = v.toNat ∧ (I128.from64 v).toInt = v.toInt ∧ (I128.fromUint64 v).toInt = (v.toNat : Int) := by
  have hv := v.isLt
  have z0 : (0#64).toNat = 0 := rfl
  have zm : maxU64.toNat = 2^64 - 1 := by decide
  refine ⟨by simp [U128.from64, U128.toNat], ?_, ?_⟩
  · have ht := BitVec.toInt_eq_toNat_cond v
    unfold I128.from64
    by_cases h : 2 * v.toNat < 2^64
    · rw [if_pos h] at ht
      have hc : ¬ v.toInt < 0 := by omega
      rw [if_neg hc]
      unfold I128.toInt
      simp only []
      rw [z0, if_pos (by omega), ht]; omega
    · rw [if_neg h] at ht
      have hc : v.toInt < 0 := by omega
      rw [if_pos hc]
      unfold I128.toInt
      simp only []
      rw [zm, if_neg (by omega), ht]; omega
  · unfold I128.fromUint64 I128.toInt
    simp only []
    rw [z0, if_pos (by omega)]; omega

/-! ## narrowing: `IsX` is true exactly when `AsX` preserves the value -/

theorem isInt128_iff_asInt128_preserves (u : U128) : u.isInt128 = true ↔ u.asInt128.toInt = (u.toNat : Int) :=
  U128.isInt128_iff u
theorem isUint64_iff_asUint64_preserves_u (u : U128) : u.isUint64 = true ↔ u.asUint64.toNat = u.toNat :=
  U128.isUint64_iff u
theorem isUint128_iff_asUint128_preserves (i : I128) : i.isUint128 = true ↔ (i.asUint128.toNat : Int) = i.toInt :=
  I128.isUint128_iff i
theorem isInt64_iff_asInt64_preserves (i : I128) : i.isInt64 = true ↔ i.asInt64.toInt = i.toInt :=
  I128.isInt64_iff i
theorem isUint64_iff_asUint64_preserves_i (i : I128) : i.isUint64 = true ↔ (i.asUint64.toNat : Int) = i.toInt :=
  I128.isUint64_iff i

/-- `Uint128.Int64()` of the `json.Number` interface succeeds exactly when the value is below 2^63 and then returns it -/
theorem int64_spec_u (u : U128) :
    (u.int64 = none ↔ ¬ u.toNat < 2^63) ∧ ∀ v, u.int64 = some v → v.toInt = (u.toNat : Int) :=
  U128.int64_spec u

/-- `Int64()` of the `json.Number` interface succeeds exactly when the value fits and then returns it -/
theorem int64_spec (i : I128) :
    (i.int64 = none ↔ ¬ (-(2^63) ≤ i.toInt ∧ i.toInt < 2^63)) ∧ ∀ v, i.int64 = some v → v.toInt = i.toInt := by
  have h := I128.isInt64_iff i
  have hr := i.asInt64.toInt_lt; have hl := i.asInt64.le_toInt
  unfold I128.int64
  by_cases c : i.isInt64 = true
  · have hv := h.mp c
    rw [c]
    simp only [Bool.not_true, Bool.false_eq_true, if_false]
    constructor
    · constructor
      · intro x; cases x
      · intro x; exact (x ⟨by omega, by omega⟩).elim
    · intro v hv'; injection hv' with hv'; rw [← hv']; exact hv
  · have c' : i.isInt64 = false := by cases hb : i.isInt64 <;> simp_all
    rw [c']
    simp only [Bool.not_false, if_true]
    constructor
    · constructor
      · intro _ hfit
        obtain ⟨h1, h2⟩ := hfit
        apply c
        -- the value fits: the low word read as an int64 is the value
        apply h.mpr
        rw [I128.asInt64_eq_lo i, BitVec.toInt_eq_toNat_cond]
        have hh := i.hi.isLt; have hll := i.lo.isLt
        unfold I128.toInt at h1 h2 ⊢
        split at h1 <;> split <;> omega
      · intro _; trivial
    · intro v hv; cases hv

/-! ## float64 → integer -/

/-- `fromFloat64_spec` (Uint128): for every float64 (every decoded bit pattern) the constructor returns — without ever
    evaluating an out-of-range (implementation-defined) float → integer conversion — 0 for NaN and for values ≤ 0,
    `MaxUint128` for +Inf, and otherwise the value truncated toward zero, saturated to the type's range -/
theorem fromFloat64_spec_u (f : F64) (hf : f.WF) :
    U128.fromFloat64 f = .ok (match f with
      | .nan => U128.zero
      | .inf neg => if neg then U128.zero else U128.max
      | .fin .. => U128.fromBigInt f.truncInt) := by
  cases f with
  | nan => rfl
  | inf neg => cases neg <;> rfl
  | fin s m e => exact U128.fromFloat64_fin s m e hf

/-- `fromFloat64_spec` (Int128): 0 for NaN, the bounds for ±Inf, otherwise the truncated value saturated to
    `[MinInt128, MaxInt128]`; no implementation-defined conversion is evaluated -/
theorem fromFloat64_spec_i (f : F64) (hf : f.WF) :
    I128.fromFloat64 f = .ok (match f with
      | .nan => I128.zero
      | .inf neg => if neg then I128.min else I128.max
      | .fin .. => I128.fromBigInt f.truncInt) := by
  cases f with
  | nan => rfl
  | inf neg => cases neg <;> rfl
  | fin s m e => exact I128.fromFloat64_fin s m e hf

/-- the same for the values the driver actually feeds: every 64-bit pattern -/
theorem fromFloat64_never_implDefined (bits : Nat) :
    U128.fromFloat64 (decode bits) ≠ .implDefined ∧ I128.fromFloat64 (decode bits) ≠ .implDefined := by
  have h := decode_wf bits
  constructor
  · intro c; rw [fromFloat64_spec_u _ h] at c; cases c
  · intro c; rw [fromFloat64_spec_i _ h] at c; cases c

/-- value form of `fromFloat64_spec` for finite input: exact truncation in range, nearest bound out of range -/
theorem fromFloat64_value (s : Bool) (m : Nat) (e : Int) (hf : WF (.fin s m e)) :
    (∃ u, U128.fromFloat64 (.fin s m e) = .ok u ∧
      (u.toNat : Int) = let z := truncInt (.fin s m e); if z < 0 then 0 else if z < 2^128 then z else 2^128 - 1) ∧
    (∃ i, I128.fromFloat64 (.fin s m e) = .ok i ∧
      i.toInt = let z := truncInt (.fin s m e); if z < -(2^127) then -(2^127) else if z < 2^127 then z else 2^127 - 1) :=
  ⟨⟨_, U128.fromFloat64_fin s m e hf, U128.fromBigInt_spec _⟩, ⟨_, I128.fromFloat64_fin s m e hf, I128.fromBigInt_spec _⟩⟩

/-! ## integer → float64 -/

/-- `asFloat64_exact_below_2_53` with the sign clause on that range (Uint128): the result is finite, not negative,
    zero only for 0, and its exact value is the integer -/
theorem asFloat64_exact_below_2_53_u (u : U128) (h : u.toNat < 2^53) :
    ValEq u.asFloat64 (u.toNat : Int) ∧ ∃ m e, u.asFloat64 = .fin false m e ∧ (m = 0 ↔ u.toNat = 0) :=
  U128.asFloat64_exact u h

/-- `asFloat64_exact_below_2_53` with the sign clause on that range (Int128): sign bit set exactly for negative values -/
theorem asFloat64_exact_below_2_53_i (i : I128) (h1 : -(2^53) < i.toInt) (h2 : i.toInt < 2^53) :
    ValEq i.asFloat64 i.toInt ∧ ∃ m e, i.asFloat64 = .fin (decide (i.toInt < 0)) m e ∧ (m = 0 ↔ i.toInt = 0) :=
  I128.asFloat64_exact i h1 h2

/-- the float64 rendering, where it is exact, loads back: `FromFloat64 (AsFloat64 x) = x` for every `Uint128` below 2^53
    and every `Int128` of magnitude below 2^53 (above, `AsFloat64` rounds — `asFloat64_within_ulp_*` — and
    the round trip cannot hold in general) -/
theorem asFloat64_fromFloat64_below_2_53 (u : U128) (i : I128) (hu : u.toNat < 2^53)
    (h1 : -(2^53) < i.toInt) (h2 : i.toInt < 2^53) :
    U128.fromFloat64 u.asFloat64 = .ok u ∧ I128.fromFloat64 i.asFloat64 = .ok i :=
  ⟨U128.fromFloat64_asFloat64 u hu, I128.fromFloat64_asFloat64 i h1 h2⟩

/-- `Int128.AsFloat64` is the negation of the magnitude's conversion, so the sign and error clauses for `Int128`
    reduce to those of `Uint128.AsFloat64` applied to `|x|` (`AbsUint128`, proved to be the absolute value) -/
theorem asFloat64_i_reduces (i : I128) :
    (i.toInt < 0 → i.asFloat64 = F64.neg i.absUint128.asFloat64 ∧ (i.absUint128.toNat : Int) = -i.toInt) ∧
    (0 ≤ i.toInt → i.asFloat64 = i.asUint128.asFloat64 ∧ (i.asUint128.toNat : Int) = i.toInt) := by
  have hh := i.hi.isLt; have hl := i.lo.isLt
  have ha := I128.absUint128_toNat i
  unfold I128.asFloat64
  rw [and_signBit_ne]
  constructor
  · intro hneg
    have hs : 2^63 ≤ i.hi.toNat := by
      unfold I128.toInt at hneg; split at hneg <;> omega
    rw [decide_eq_true hs, if_pos rfl, if_pos hneg] at *
    exact ⟨rfl, ha⟩
  · intro hpos
    have hs : ¬ 2^63 ≤ i.hi.toNat := by
      unfold I128.toInt at hpos; split at hpos <;> omega
    rw [decide_eq_false hs, if_neg (by simp)]
    refine ⟨rfl, ?_⟩
    unfold I128.asUint128 U128.toNat I128.toInt; rw [if_pos (by omega)]

/-- `asFloat64_sign` (Uint128), all 2^128 values: the result is finite with a clear sign bit, and it is zero exactly
    for the value 0 (so positive values give positive floats) -/
theorem asFloat64_sign_u (u : U128) : ∃ m e, u.asFloat64 = .fin false m e ∧ (m = 0 ↔ u.toNat = 0) := by
  obtain ⟨m, e, h, _, _, z1, z2, _⟩ := U128.asFloat64_round u
  refine ⟨m, e, h, ?_, z1⟩
  intro hm
  exact Classical.byContradiction fun c => by have := z2 c; omega

/-- `asFloat64_sign` (Int128), all 2^128 values: the sign bit is set exactly for negative values and the result is
    zero (`+0`) exactly for the value 0 -/
theorem asFloat64_sign_i (i : I128) :
    ∃ m e, i.asFloat64 = .fin (decide (i.toInt < 0)) m e ∧ (m = 0 ↔ i.toInt = 0) := by
  obtain ⟨m, e, h, _, _, z1, z2, _⟩ := I128.asFloat64_round i
  refine ⟨m, e, h, ?_, z1⟩
  intro hm
  exact Classical.byContradiction fun c => by have := z2 c; omega

/-- `asFloat64_within_ulp` (Uint128), all 2^128 values, through the three roundings `float64(hi)`, `float64(lo)` and
    the sum (the product by 2^64 is exact): the result `m·2^e` is a well-formed binary64 (`+0`, or normal with
    `2^52 ≤ m < 2^53`, so that `2^e` is exactly its unit in the last place), and `|m·2^e − x| ≤ 2^e`.  The inequality
    is written without fractions for `e ≥ 0`, which holds for every `x ≥ 2^53`; below 2^53 the conversion is exact
    (`asFloat64_exact_below_2_53_u`). -/
theorem asFloat64_within_ulp_u (u : U128) :
    ∃ m e, u.asFloat64 = .fin false m e ∧ -1074 ≤ e ∧ e ≤ 971 ∧ (u.toNat ≠ 0 → 2^52 ≤ m ∧ m < 2^53) ∧
      (2^53 ≤ u.toNat → 0 ≤ e) ∧
      (0 ≤ e → (m : Int) * 2^e.toNat - 2^e.toNat ≤ u.toNat ∧ (u.toNat : Int) ≤ m * 2^e.toNat + 2^e.toNat) := by
  obtain ⟨m, e, h, e1, e2, _, z2, z3, hb⟩ := U128.asFloat64_round u
  refine ⟨m, e, h, e1, e2, z2, z3, ?_⟩
  intro he
  obtain ⟨b1, b2⟩ := hb he
  have c1 := Int.ofNat_le.mpr b1
  have c2 := Int.ofNat_le.mpr b2
  simp only [Int.natCast_add, Int.natCast_mul, Int.natCast_pow, Nat.cast_ofNat] at c1 c2
  omega

/-- `asFloat64_within_ulp` (Int128), all 2^128 values: the result is `±m·2^e` with the sign of the value (the sign is
    handled through `AbsUint128`, also for `MinInt128`), well formed, and `|±m·2^e − x| ≤ 2^e`; `e ≥ 0` whenever
    `|x| ≥ 2^53`, and below that the conversion is exact (`asFloat64_exact_below_2_53_i`). -/
theorem asFloat64_within_ulp_i (i : I128) :
    ∃ m e, i.asFloat64 = .fin (decide (i.toInt < 0)) m e ∧ -1074 ≤ e ∧ e ≤ 971 ∧
      (i.toInt ≠ 0 → 2^52 ≤ m ∧ m < 2^53) ∧ (2^53 ≤ i.toInt ∨ i.toInt ≤ -(2^53) → 0 ≤ e) ∧
      (0 ≤ e → (if i.toInt < 0 then -(m : Int) else m) * 2^e.toNat - 2^e.toNat ≤ i.toInt ∧
        i.toInt ≤ (if i.toInt < 0 then -(m : Int) else m) * 2^e.toNat + 2^e.toNat) := by
  obtain ⟨m, e, h, e1, e2, _, z2, z3, hb⟩ := I128.asFloat64_round i
  refine ⟨m, e, h, e1, e2, z2, fun c => z3 (by omega), ?_⟩
  intro he
  obtain ⟨b1, b2⟩ := hb he
  have c1 := Int.ofNat_le.mpr b1
  have c2 := Int.ofNat_le.mpr b2
  simp only [Int.natCast_add, Int.natCast_mul, Int.natCast_pow, Nat.cast_ofNat] at c1 c2
  by_cases hn : i.toInt < 0
  · rw [if_pos hn, Int.neg_mul]; omega
  · rw [if_neg hn]; omega

/-- `asFloat64_within_ulp`, stricter reading (the unit in the last place *of the exact value*): for `x ≥ 2^53` in the
    binade `2^(52+k) ≤ x < 2^(53+k)`, whose unit is `2^k`, the result `m·2^e` of `Uint128.AsFloat64` satisfies
    `|m·2^e − x| ≤ 2^k`.  (It differs from `asFloat64_within_ulp_u` only when the result is rounded up to a power of
    two, where the result's own unit is `2^(k+1)`.) -/
theorem asFloat64_within_ulp_of_value_u (u : U128) (hbig : 2^53 ≤ u.toNat) :
    ∃ m e k, u.asFloat64 = .fin false m e ∧ 0 ≤ e ∧ 2^(52 + k) ≤ u.toNat ∧ u.toNat < 2^(53 + k) ∧
      m * 2^e.toNat ≤ u.toNat + 2^k ∧ u.toNat ≤ m * 2^e.toNat + 2^k :=
  U128.asFloat64_ulp_of_value u hbig

/-- the same for `Int128.AsFloat64` on magnitudes: `| m·2^e − |x| | ≤ 2^k` for `2^(52+k) ≤ |x| < 2^(53+k)`, the result
    being `±m·2^e` with the sign of `x` -/
theorem asFloat64_within_ulp_of_value_i (i : I128) (hbig : 2^53 ≤ i.toInt.natAbs) :
    ∃ m e k, i.asFloat64 = .fin (decide (i.toInt < 0)) m e ∧ 0 ≤ e ∧
      2^(52 + k) ≤ i.toInt.natAbs ∧ i.toInt.natAbs < 2^(53 + k) ∧
      m * 2^e.toNat ≤ i.toInt.natAbs + 2^k ∧ i.toInt.natAbs ≤ m * 2^e.toNat + 2^k :=
  I128.asFloat64_ulp_of_value i hbig

/-! ## non-vacuity -/

/-- 2^64 (bits 0x43f0…) is a well-formed float that takes the large branch: hi = 1, lo = 0 -/
example : U128.fromFloat64 (decode 0x43f0000000000000) = .ok ⟨1#64, 0#64⟩ := by
  rw [fromFloat64_spec_u _ (decode_wf _)]; decide

example : parseToBigInt ['1', 'e', '2'] = some 100 := by decide

/-- the grammar is inhabited on both sides: `-0x_1f` is a literal denoting −31; `1__0` is not a literal at all -/
example : IsPlainIntLiteral ['-', '0', 'x', '_', '1', 'f'] (-31) :=
  (fromString_rejects_plain _ _ (by decide)).mp (by decide)
example : IsIntLiteral ['1', '.', '5', 'e', '1'] 15 := (fromString_rejects _ _).mp (by decide)
example : ¬ ∃ z, IsPlainIntLiteral ['1', '_', '_', '0'] z := fun ⟨z, h⟩ => by
  have := (fromString_rejects_plain _ z (by decide)).mpr h
  have hn : parseToBigInt ['1', '_', '_', '0'] = none := by decide
  rw [hn] at this; cases this

/-- a value where all three roundings of `AsFloat64` are inexact and the first and the last are ties
    (hi = 2^53 + 1, lo = 2^64 − 1): the result is 2^117, its unit is 2^65, the error is 2^65 − 1 — the bound of
    `asFloat64_within_ulp_u` is attained up to 1 -/
example : (⟨0x20000000000001#64, 0xffffffffffffffff#64⟩ : U128).asFloat64 = .fin false (2^52) 65 := by decide

end C02
