import Lemmas.GeomRect
import Lemmas.GeomPoly
/-! # C18 — rectangle predicates and affine matrices obey their set and composition laws

Property theorems only.  The functions named here (`Rect.contains`, `Point.inRect`, `Matrix.multiply`,
`Contour.contains` …) are the executable definitions of `Model/Geom.lean` that the model driver `drv_c18` runs against
the Go code — at `Int` (Go `int`) and at the exact `Rat` (Go `float64` on exactly representable data).  Each law is
proved for every commutative ring with a linear strict order (rectangles, matrices, bounds) or every linearly ordered
field (contours), and then stated once more at exactly the two run-time types.  Not covered: float rounding, integer
overflow. -/
set_option linter.unusedSectionVars false
namespace C18
open Geom

section Rectangles
variable {α : Type} [CommRing α] [LinearOrder α] [IsStrictOrderedRing α]

/-- "a.Contains(b) holds exactly when b is non-empty and every point of b is In a" (no side condition on `a`) -/
theorem contains_iff (a b : Rect α) :
    a.contains b = true ↔ b.empty = false ∧ ∀ p : Point α, p.inRect b = true → p.inRect a = true := by
  rw [Rect.contains_iff_Contains, Rect.Contains_iff, Rect.empty_false_iff]
  simp only [Rect.inRect_iff]

/-- "a.Intersects(b) exactly when some point is In both" -/
theorem intersects_iff (a b : Rect α) :
    a.intersects b = true ↔ ∃ p : Point α, p.inRect a = true ∧ p.inRect b = true := by
  rw [Rect.intersects_iff_Intersects, Rect.Intersects_iff]
  simp only [Rect.inRect_iff]

/-- "Intersect returns precisely the common points" (empty operands and empty results included) -/
theorem intersect_spec (a b : Rect α) (p : Point α) :
    p.inRect (a.intersect b) = (p.inRect a && p.inRect b) := by
  rw [Bool.eq_iff_iff, Bool.and_eq_true]
  simp only [Rect.inRect_iff]
  exact Rect.Intersect_spec a b p

/-- Union covers both operands -/
theorem union_covers (a b : Rect α) (p : Point α) (h : p.inRect a = true ∨ p.inRect b = true) :
    p.inRect (a.union b) = true := by
  simp only [Rect.inRect_iff] at *
  exact Rect.Union_covers a b p h

/-- "Union [returns] the smallest rectangle covering both": every rectangle that holds all points of both operands
    holds all points of the union (no side condition: empty operands included) -/
theorem union_smallest (a b c : Rect α)
    (h : ∀ p : Point α, p.inRect a = true ∨ p.inRect b = true → p.inRect c = true) :
    ∀ p : Point α, p.inRect (a.union b) = true → p.inRect c = true := by
  simp only [Rect.inRect_iff] at *
  exact Rect.Union_smallest a b c h

/-- the same in terms of `Contains`: a rectangle containing both (non-empty) operands contains their union, and the
    union contains both -/
theorem union_smallest_contains (a b c : Rect α) (h1 : c.contains a = true) (h2 : c.contains b = true) :
    c.contains (a.union b) = true ∧ (a.union b).contains a = true ∧ (a.union b).contains b = true := by
  simp only [Rect.contains_iff_Contains] at *
  have hu := Rect.union_not_empty a b h1.2.1 h2.2.1
  obtain ⟨c1, c2⟩ := Rect.union_covers_edges a b h1.2.1 h2.2.1
  exact ⟨Rect.Contains_of_covers _ _ h1.1 hu (Rect.union_smallest_edges a b c h1.2.1 h2.2.1
      (Rect.covers_of_Contains _ _ h1) (Rect.covers_of_Contains _ _ h2)),
    Rect.Contains_of_covers _ _ hu h1.2.1 c1, Rect.Contains_of_covers _ _ hu h2.2.1 c2⟩

/-- Union with an empty operand returns the other operand (the zero rectangle if both are empty) -/
theorem union_empty (a b : Rect α) :
    (a.empty = true → b.empty = false → a.union b = b) ∧ (b.empty = true → a.empty = false → a.union b = a) ∧
    (a.empty = true → b.empty = true → a.union b = Rect.zero) := by
  refine ⟨fun h1 h2 => ?_, fun h1 h2 => ?_, fun h1 h2 => ?_⟩ <;> simp [Rect.union, h1, h2]

/-- "empty rectangles containing and intersecting nothing" — and nothing contains or intersects them, no point is in
    them, and intersecting with them gives an empty rectangle -/
theorem empty_absorbs (a b : Rect α) (h : a.empty = true) :
    a.contains b = false ∧ b.contains a = false ∧ a.intersects b = false ∧ b.intersects a = false ∧
    (∀ p : Point α, p.inRect a = false) ∧ (a.intersect b).empty = true ∧ (b.intersect a).empty = true := by
  have hz : (Rect.zero : Rect α).empty = true := by simp [Rect.empty, Rect.zero]
  refine ⟨?_, ?_, ?_, ?_, ?_, ?_, ?_⟩ <;> simp [Rect.contains, Rect.intersects, Point.inRect, Rect.intersect, h, hz]

/-- on integers the test with the `-1`s that the code used before its repair is the same predicate (so the repair
    changes nothing for Go `int`) -/
theorem contains_int_minus_one (r i : Rect Int) :
    r.contains i = true ↔
      (r.empty = false ∧ i.empty = false ∧ r.x ≤ i.x ∧ r.y ≤ i.y ∧ i.x < r.right ∧ i.y < r.bottom ∧
        r.x ≤ i.right - 1 ∧ r.y ≤ i.bottom - 1 ∧ i.right - 1 < r.right ∧ i.bottom - 1 < r.bottom) := by
  rw [Rect.contains_iff_Contains, Rect.empty_false_iff, Rect.empty_false_iff]
  unfold Rect.Contains Rect.Empty Rect.right Rect.bottom
  constructor <;> intro h <;> omega

end Rectangles

/-! the rectangle laws at exactly the two types the driver runs -/
theorem contains_iff_int (a b : Rect Int) :
    a.contains b = true ↔ b.empty = false ∧ ∀ p : Point Int, p.inRect b = true → p.inRect a = true := contains_iff a b
theorem contains_iff_rat (a b : Rect Rat) :
    a.contains b = true ↔ b.empty = false ∧ ∀ p : Point Rat, p.inRect b = true → p.inRect a = true := contains_iff a b
theorem intersects_iff_int (a b : Rect Int) :
    a.intersects b = true ↔ ∃ p : Point Int, p.inRect a = true ∧ p.inRect b = true := intersects_iff a b
theorem intersects_iff_rat (a b : Rect Rat) :
    a.intersects b = true ↔ ∃ p : Point Rat, p.inRect a = true ∧ p.inRect b = true := intersects_iff a b
theorem intersect_spec_int (a b : Rect Int) (p : Point Int) :
    p.inRect (a.intersect b) = (p.inRect a && p.inRect b) := intersect_spec a b p
theorem intersect_spec_rat (a b : Rect Rat) (p : Point Rat) :
    p.inRect (a.intersect b) = (p.inRect a && p.inRect b) := intersect_spec a b p
theorem union_smallest_int (a b c : Rect Int)
    (h : ∀ p : Point Int, p.inRect a = true ∨ p.inRect b = true → p.inRect c = true) :
    ∀ p : Point Int, p.inRect (a.union b) = true → p.inRect c = true := union_smallest a b c h
theorem union_smallest_rat (a b c : Rect Rat)
    (h : ∀ p : Point Rat, p.inRect a = true ∨ p.inRect b = true → p.inRect c = true) :
    ∀ p : Point Rat, p.inRect (a.union b) = true → p.inRect c = true := union_smallest a b c h
theorem union_covers_int (a b : Rect Int) (p : Point Int) (h : p.inRect a = true ∨ p.inRect b = true) :
    p.inRect (a.union b) = true := union_covers a b p h
theorem union_covers_rat (a b : Rect Rat) (p : Point Rat) (h : p.inRect a = true ∨ p.inRect b = true) :
    p.inRect (a.union b) = true := union_covers a b p h

section Matrices
variable {α : Type} [CommRing α]

/-- "transforming a point by m.Multiply(n) equals transforming it by m and then by n" -/
theorem transform_multiply (m n : Matrix α) (p : Point α) :
    (m.multiply n).transformPoint p = n.transformPoint (m.transformPoint p) := by
  simp only [Matrix.multiply, Matrix.transformPoint, Point.mk.injEq]
  constructor <;> ring

/-- `m.Translate(tx, ty)` transforms by `m` and then translates -/
theorem transform_translate (m : Matrix α) (tx ty : α) (p : Point α) :
    (m.translate tx ty).transformPoint p = ⟨(m.transformPoint p).x + tx, (m.transformPoint p).y + ty⟩ ∧
    (m.translate tx ty).transformPoint p = (Matrix.newTranslation tx ty).transformPoint (m.transformPoint p) := by
  simp only [Matrix.translate, Matrix.newTranslation, Matrix.transformPoint, Point.mk.injEq]
  refine ⟨⟨?_, ?_⟩, ⟨?_, ?_⟩⟩ <;> ring

/-- `m.Scale(sx, sy)` transforms by `m` and then scales -/
theorem transform_scale (m : Matrix α) (sx sy : α) (p : Point α) :
    (m.scale sx sy).transformPoint p = ⟨(m.transformPoint p).x * sx, (m.transformPoint p).y * sy⟩ ∧
    (m.scale sx sy).transformPoint p = (Matrix.newScale sx sy).transformPoint (m.transformPoint p) := by
  simp only [Matrix.scale, Matrix.newScale, Matrix.transformPoint, Point.mk.injEq]
  refine ⟨⟨?_, ?_⟩, ⟨?_, ?_⟩⟩ <;> ring

/-- `m.Rotate(θ)` transforms by `m` and then rotates — for any pair `(s, c)` in place of `(sin θ, cos θ)` -/
theorem transform_rotate (m : Matrix α) (s c : α) (p : Point α) :
    (m.rotate s c).transformPoint p =
      ⟨c * (m.transformPoint p).x - s * (m.transformPoint p).y, s * (m.transformPoint p).x + c * (m.transformPoint p).y⟩ ∧
    (m.rotate s c).transformPoint p = (Matrix.newRotation s c).transformPoint (m.transformPoint p) := by
  simp only [Matrix.rotate, Matrix.newRotation, Matrix.transformPoint, Point.mk.injEq]
  refine ⟨⟨?_, ?_⟩, ⟨?_, ?_⟩⟩ <;> ring

/-- the incremental transforms are products with the elementary matrices -/
theorem incremental_eq_multiply (m : Matrix α) (a b : α) :
    m.translate a b = m.multiply (Matrix.newTranslation a b) ∧ m.scale a b = m.multiply (Matrix.newScale a b) ∧
    m.rotate a b = m.multiply (Matrix.newRotation a b) := by
  simp only [Matrix.translate, Matrix.scale, Matrix.rotate, Matrix.multiply, Matrix.newTranslation, Matrix.newScale,
    Matrix.newRotation, Matrix.mk.injEq]
  refine ⟨⟨?_, ?_, ?_, ?_, ?_, ?_⟩, ⟨?_, ?_, ?_, ?_, ?_, ?_⟩, ⟨?_, ?_, ?_, ?_, ?_, ?_⟩⟩ <;> first | ring | trivial

/-- "the identity matrix changes nothing" -/
theorem identity_neutral (m : Matrix α) (p : Point α) :
    (Matrix.identity : Matrix α).transformPoint p = p ∧ m.multiply Matrix.identity = m ∧ Matrix.identity.multiply m = m := by
  cases m; cases p
  simp only [Matrix.identity, Matrix.multiply, Matrix.transformPoint, Point.mk.injEq, Matrix.mk.injEq]
  refine ⟨⟨?_, ?_⟩, ⟨?_, ?_, ?_, ?_, ?_, ?_⟩, ⟨?_, ?_, ?_, ?_, ?_, ?_⟩⟩ <;> ring

end Matrices

theorem transform_multiply_rat (m n : Matrix Rat) (p : Point Rat) :
    (m.multiply n).transformPoint p = n.transformPoint (m.transformPoint p) := transform_multiply m n p
theorem transform_rotate_rat (m : Matrix Rat) (s c : Rat) (p : Point Rat) :
    (m.rotate s c).transformPoint p = (Matrix.newRotation s c).transformPoint (m.transformPoint p) :=
  (transform_rotate m s c p).2
theorem identity_neutral_rat (m : Matrix Rat) (p : Point Rat) :
    (Matrix.identity : Matrix Rat).transformPoint p = p ∧ m.multiply Matrix.identity = m ∧
      Matrix.identity.multiply m = m := identity_neutral m p

section Contours
variable {α : Type} [Field α] [LinearOrder α] [IsStrictOrderedRing α]

/-- "Contour Contains agrees with the crossing-number definition away from edges": for a point on no (non-horizontal)
    edge, the five-conjunct test of the source counts exactly the edges that the horizontal ray from the point towards
    +x crosses (edge straddles the ray's height, lower end included, and the ray's origin is left of the edge there);
    `Contains` is the parity of that count -/
theorem contour_contains_crossing (c : Contour α) (pt : Point α)
    (h : ∀ e ∈ Contour.edges c, ¬ OnEdge pt e.1 e.2) :
    Contour.contains c pt = true ↔ ((Contour.edges c).countP (fun e => decide (Crosses pt e.1 e.2))) % 2 = 1 := by
  unfold Contour.contains
  rw [crossings_eq c pt h]
  simp

/-- the edges the loop visits are `(c[i], c[(i+1) % len c])` for `i = 0 … len c - 1` -/
theorem contour_edges (c : Contour α) :
    (Contour.edges c).length = c.length ∧
    ∀ i (hi : i < c.length), (Contour.edges c)[i]? = some (c[i], c[(i + 1) % c.length]'(Nat.mod_lt _ (by omega))) := by
  have hl : (Contour.edges c).length = c.length := by
    simp only [Contour.edges, List.length_zip, List.length_append, List.length_drop, List.length_take]; omega
  refine ⟨hl, fun i hi => ?_⟩
  simp only [Contour.edges]
  rw [List.getElem?_eq_getElem (by rw [← Contour.edges, hl]; exact hi)]
  simp only [List.getElem_zip, Option.some.injEq, Prod.mk.injEq, true_and]
  by_cases h : i + 1 < c.length
  · rw [List.getElem_append_left (by simp; omega)]
    simp [Nat.mod_eq_of_lt h]
  · have : i + 1 = c.length := by omega
    rw [List.getElem_append_right (by simp; omega)]
    simp [this, show i - (c.length - 1) = 0 by omega]

/-- the single-edge form of `contour_contains_crossing` -/
theorem edge_test_is_crossing (pt cur next : Point α) (hoff : ¬ OnEdge pt cur next) :
    edgeHit pt cur next = true ↔ Crosses pt cur next := edgeHit_iff pt cur next hoff

/-- "ContainsEvenOdd agree[s] with the crossing-number definition away from edges": for a point on no edge of any
    contour, `Polygon.ContainsEvenOdd` is the parity of the crossings of the ray summed over ALL edges of ALL contours -/
theorem evenodd_crossing (p : Polygon α) (pt : Point α)
    (h : ∀ c ∈ p, ∀ e ∈ Contour.edges c, ¬ OnEdge pt e.1 e.2) :
    Polygon.containsEvenOdd p pt = true ↔
      ((p.map (fun c => (Contour.edges c).countP (fun e => decide (Crosses pt e.1 e.2)))).sum) % 2 = 1 := by
  unfold Polygon.containsEvenOdd
  rw [beq_iff_eq, evenodd_parity p pt h]

/-- how the polygon-level functions are composed from `Contour.Contains` (definitional: `ContainsEvenOdd` is the parity
    of the number of containing contours, `Contains` their disjunction); the crossing-number content is
    `contour_contains_crossing` and `evenodd_crossing` -/
theorem evenodd_spec (p : Polygon α) (pt : Point α) :
    (Polygon.containsEvenOdd p pt = true ↔ (p.countP (fun c => Contour.contains c pt)) % 2 = 1) ∧
    (Polygon.contains p pt = true ↔ ∃ c ∈ p, Contour.contains c pt = true) := by
  simp [Polygon.containsEvenOdd, Polygon.contains]

end Contours

theorem contour_contains_crossing_rat (c : Contour Rat) (pt : Point Rat)
    (h : ∀ e ∈ Contour.edges c, ¬ OnEdge pt e.1 e.2) :
    Contour.contains c pt = true ↔ ((Contour.edges c).countP (fun e => decide (Crosses pt e.1 e.2))) % 2 = 1 :=
  contour_contains_crossing c pt h

section Bounds
variable {α : Type} [CommRing α] [LinearOrder α] [IsStrictOrderedRing α]

/-- "Bounds encloses every vertex": each vertex is `In` the bounds of its contour and of the polygon -/
theorem bounds_encloses (p : Polygon α) (c : Contour α) (hc : c ∈ p) (v : Point α) (hv : v ∈ c) :
    v.inRect (Contour.bounds c) = true ∧ v.inRect (Polygon.bounds p) = true := by
  simp only [Rect.inRect_iff]
  exact ⟨contour_bounds_In c v hv, polygon_bounds_In p c hc v hv⟩

/-- "Transform maps every vertex by the matrix": same shape, vertex `i` of contour `j` is the image of the original
    vertex.  "Without touching the original" is vacuous in a pure model (the operand is a value) and is NOT a theorem:
    it is checked on the Go side only — the harness compares the operand before and after Transform (also after
    overwriting the result), and before and after Bounds / Contains / ContainsEvenOdd; `Rect` and `Matrix` operands are
    Go values passed by copy, so Union/Intersect/Multiply cannot touch them by construction of the language -/
theorem transform_maps_vertices (p : Polygon α) (m : Matrix α) (j i : Nat) :
    (Polygon.transform p m).length = p.length ∧
    ((Polygon.transform p m)[j]?.bind (·[i]?)) = (p[j]?.bind (·[i]?)).map m.transformPoint := by
  simp only [Polygon.transform, List.length_map, List.getElem?_map, true_and]
  cases p[j]? <;> simp

end Bounds

theorem bounds_encloses_rat (p : Polygon Rat) (c : Contour Rat) (hc : c ∈ p) (v : Point Rat) (hv : v ∈ c) :
    v.inRect (Contour.bounds c) = true ∧ v.inRect (Polygon.bounds p) = true := bounds_encloses p c hc v hv

/-! non-vacuity: the hypotheses are satisfiable — a point strictly inside the unit-ish square is on no edge and is
    counted once; a rectangle pair with `contains` true exists -/
example : (⟨0, 0, 10, 10⟩ : Rect Int).contains ⟨0, 0, 10, 10⟩ = true := by decide
example : Contour.contains ([⟨0, 0⟩, ⟨4, 0⟩, ⟨4, 4⟩, ⟨0, 4⟩] : Contour Rat) ⟨1, 1⟩ = true := by decide

end C18
