import Lemmas.GeomRect
import Lemmas.GeomPoly
import Lemmas.GeomExt
import Lemmas.GeomInt64
import Lemmas.GeomInt64Laws
import Lemmas.GeomInt64Arith
/-! # C18 — rectangle predicates and affine matrices obey their set and composition laws

Property theorems only.  The functions named here (`Rect.contains`, `Point.inRect`, `Matrix.multiply`,
`Contour.contains` …) are the executable definitions of `Model/Geom.lean` that the model driver `drv_c18` runs against
the Go code — at `Int` (Go `int`) and at the exact `Rat` (Go `float64` on exactly representable data).  Each law is
proved for every commutative ring with a linear strict order (rectangles, matrices, bounds) or every linearly ordered
field (contours), and then stated once more at exactly the two run-time types.  Not covered: float rounding, integer
overflow. -/
set_option linter.unusedSectionVars false
namespace C18
open Geom

section Rectangles
variable {α : Type} [CommRing α] [LinearOrder α] [IsStrictOrderedRing α]

/-- "a.Contains(b) holds exactly when b is non-empty and every point of b is In a" (no side condition on `a`) -/
theorem contains_iff (a b : Rect α) :
    a.contains b = true ↔ b.empty = false ∧ ∀ p : Point α, p.inRect b = true → p.inRect a = true := by
  rw [Rect.contains_iff_Contains, Rect.Contains_iff, Rect.empty_false_iff]
  simp only [Rect.inRect_iff]

/-- "a.Intersects(b) exactly when some point is In both" -/
theorem intersects_iff (a b : Rect α) :
    a.intersects b = true ↔ ∃ p : Point α, p.inRect a = true ∧ p.inRect b = true := by
  rw [Rect.intersects_iff_Intersects, Rect.Intersects_iff]
  simp only [Rect.inRect_iff]

/-- "Intersect returns precisely the common points" (empty operands and empty results included) -/
theorem intersect_spec (a b : Rect α) (p : Point α) :
    p.inRect (a.intersect b) = (p.inRect a && p.inRect b) := by
  rw [Bool.eq_iff_iff, Bool.and_eq_true]
  simp only [Rect.inRect_iff]
  exact Rect.Intersect_spec a b p

/-- Union covers both operands -/
theorem union_covers (a b : Rect α) (p : Point α) (h : p.inRect a = true ∨ p.inRect b = true) :
    p.inRect (a.union b) = true := by
  simp only [Rect.inRect_iff] at *
  exact Rect.Union_covers a b p h

/-- "Union [returns] the smallest rectangle covering both": every rectangle that holds all points of both operands
    holds all points of the union (no side condition: empty operands included) -/
theorem union_smallest (a b c : Rect α)
    (h : ∀ p : Point α, p.inRect a = true ∨ p.inRect b = true → p.inRect c = true) :
    ∀ p : Point α, p.inRect (a.union b) = true → p.inRect c = true := by
  simp only [Rect.inRect_iff] at *
  exact Rect.Union_smallest a b c h

/-- the same in terms of `Contains`: a rectangle containing both (non-empty) operands contains their union, and the
    union contains both -/
theorem union_smallest_contains (a b c : Rect α) (h1 : c.contains a = true) (h2 : c.contains b = true) :
    c.contains (a.union b) = true ∧ (a.union b).contains a = true ∧ (a.union b).contains b = true := by
  simp only [Rect.contains_iff_Contains] at *
  have hu := Rect.union_not_empty a b h1.2.1 h2.2.1
  obtain ⟨c1, c2⟩ := Rect.union_covers_edges a b h1.2.1 h2.2.1
  exact ⟨Rect.Contains_of_covers _ _ h1.1 hu (Rect.union_smallest_edges a b c h1.2.1 h2.2.1
      (Rect.covers_of_Contains _ _ h1) (Rect.covers_of_Contains _ _ h2)),
    Rect.Contains_of_covers _ _ hu h1.2.1 c1, Rect.Contains_of_covers _ _ hu h2.2.1 c2⟩

/-- Union with an empty operand returns the other operand (the zero rectangle if both are empty) -/
theorem union_empty (a b : Rect α) :
    (a.empty = true → b.empty = false → a.union b = b) ∧ (b.empty = true → a.empty = false → a.union b = a) ∧
    (a.empty = true → b.empty = true → a.union b = Rect.zero) := by
  refine ⟨fun h1 h2 => ?_, fun h1 h2 => ?_, fun h1 h2 => ?_⟩ <;> simp [Rect.union, h1, h2]

/-- "empty rectangles containing and intersecting nothing" — and nothing contains or intersects them, no point is in
    them, and intersecting with them gives an empty rectangle -/
theorem empty_absorbs (a b : Rect α) (h : a.empty = true) :
    a.contains b = false ∧ b.contains a = false ∧ a.intersects b = false ∧ b.intersects a = false ∧
    (∀ p : Point α, p.inRect a = false) ∧ (a.intersect b).empty = true ∧ (b.intersect a).empty = true := by
  have hz : (Rect.zero : Rect α).empty = true := by simp [Rect.empty, Rect.zero]
  refine ⟨?_, ?_, ?_, ?_, ?_, ?_, ?_⟩ <;> simp [Rect.contains, Rect.intersects, Point.inRect, Rect.intersect, h, hz]

/-- on integers the test with the `-1`s that the code used before its repair is the same predicate (so the repair
    changes nothing for Go `int`) -/
theorem contains_int_minus_one (r i : Rect Int) :
    r.contains i = true ↔
      (r.empty = false ∧ i.empty = false ∧ r.x ≤ i.x ∧ r.y ≤ i.y ∧ i.x < r.right ∧ i.y < r.bottom ∧
        r.x ≤ i.right - 1 ∧ r.y ≤ i.bottom - 1 ∧ i.right - 1 < r.right ∧ i.bottom - 1 < r.bottom) := by
  rw [Rect.contains_iff_Contains, Rect.empty_false_iff, Rect.empty_false_iff]
  unfold Rect.Contains Rect.Empty Rect.right Rect.bottom
  constructor <;> intro h <;> omega

end Rectangles

/-! the rectangle laws at exactly the two types the driver runs -/
theorem contains_iff_int (a b : Rect Int) :
    a.contains b = true ↔ b.empty = false ∧ ∀ p : Point Int, p.inRect b = true → p.inRect a = true := contains_iff a b
theorem contains_iff_rat (a b : Rect Rat) :
    a.contains b = true ↔ b.empty = false ∧ ∀ p : Point Rat, p.inRect b = true → p.inRect a = true := contains_iff a b
theorem intersects_iff_int (a b : Rect Int) :
    a.intersects b = true ↔ ∃ p : Point Int, p.inRect a = true ∧ p.inRect b = true := intersects_iff a b
theorem intersects_iff_rat (a b : Rect Rat) :
    a.intersects b = true ↔ ∃ p : Point Rat, p.inRect a = true ∧ p.inRect b = true := intersects_iff a b
theorem intersect_spec_int (a b : Rect Int) (p : Point Int) :
    p.inRect (a.intersect b) = (p.inRect a && p.inRect b) := intersect_spec a b p
theorem intersect_spec_rat (a b : Rect Rat) (p : Point Rat) :
    p.inRect (a.intersect b) = (p.inRect a && p.inRect b) := intersect_spec a b p
theorem union_smallest_int (a b c : Rect Int)
    (h : ∀ p : Point Int, p.inRect a = true ∨ p.inRect b = true → p.inRect c = true) :
    ∀ p : Point Int, p.inRect (a.union b) = true → p.inRect c = true := union_smallest a b c h
theorem union_smallest_rat (a b c : Rect Rat)
    (h : ∀ p : Point Rat, p.inRect a = true ∨ p.inRect b = true → p.inRect c = true) :
    ∀ p : Point Rat, p.inRect (a.union b) = true → p.inRect c = true := union_smallest a b c h
theorem union_covers_int (a b : Rect Int) (p : Point Int) (h : p.inRect a = true ∨ p.inRect b = true) :
    p.inRect (a.union b) = true := union_covers a b p h
theorem union_covers_rat (a b : Rect Rat) (p : Point Rat) (h : p.inRect a = true ∨ p.inRect b = true) :
    p.inRect (a.union b) = true := union_covers a b p h

section Matrices
variable {α : Type} [CommRing α]

/-- "transforming a point by m.Multiply(n) equals transforming it by m and then by n" -/
theorem transform_multiply (m n : Matrix α) (p : Point α) :
    (m.multiply n).transformPoint p = n.transformPoint (m.transformPoint p) := by
  simp only [Matrix.multiply, Matrix.transformPoint, Point.mk.injEq]
  constructor <;> ring

/-- `m.Translate(tx, ty)` transforms by `m` and then translates -/
theorem transform_translate (m : Matrix α) (tx ty : α) (p : Point α) :
    (m.translate tx ty).transformPoint p = ⟨(m.transformPoint p).x + tx, (m.transformPoint p).y + ty⟩ ∧
    (m.translate tx ty).transformPoint p = (Matrix.newTranslation tx ty).transformPoint (m.transformPoint p) := by
  simp only [Matrix.translate, Matrix.newTranslation, Matrix.transformPoint, Point.mk.injEq]
  refine ⟨⟨?_, ?_⟩, ⟨?_, ?_⟩⟩ <;> ring

/-- `m.Scale(sx, sy)` transforms by `m` and then scales -/
theorem transform_scale (m : Matrix α) (sx sy : α) (p : Point α) :
    (m.scale sx sy).transformPoint p = ⟨(m.transformPoint p).x * sx, (m.transformPoint p).y * sy⟩ ∧
    (m.scale sx sy).transformPoint p = (Matrix.newScale sx sy).transformPoint (m.transformPoint p) := by
  simp only [Matrix.scale, Matrix.newScale, Matrix.transformPoint, Point.mk.injEq]
  refine ⟨⟨?_, ?_⟩, ⟨?_, ?_⟩⟩ <;> ring

/-- `m.Rotate(θ)` transforms by `m` and then rotates — for any pair `(s, c)` in place of `(sin θ, cos θ)` -/
theorem transform_rotate (m : Matrix α) (s c : α) (p : Point α) :
    (m.rotate s c).transformPoint p =
      ⟨c * (m.transformPoint p).x - s * (m.transformPoint p).y, s * (m.transformPoint p).x + c * (m.transformPoint p).y⟩ ∧
    (m.rotate s c).transformPoint p = (Matrix.newRotation s c).transformPoint (m.transformPoint p) := by
  simp only [Matrix.rotate, Matrix.newRotation, Matrix.transformPoint, Point.mk.injEq]
  refine ⟨⟨?_, ?_⟩, ⟨?_, ?_⟩⟩ <;> ring

/-- the incremental transforms are products with the elementary matrices -/
theorem incremental_eq_multiply (m : Matrix α) (a b : α) :
    m.translate a b = m.multiply (Matrix.newTranslation a b) ∧ m.scale a b = m.multiply (Matrix.newScale a b) ∧
    m.rotate a b = m.multiply (Matrix.newRotation a b) := by
  simp only [Matrix.translate, Matrix.scale, Matrix.rotate, Matrix.multiply, Matrix.newTranslation, Matrix.newScale,
    Matrix.newRotation, Matrix.mk.injEq]
  refine ⟨⟨?_, ?_, ?_, ?_, ?_, ?_⟩, ⟨?_, ?_, ?_, ?_, ?_, ?_⟩, ⟨?_, ?_, ?_, ?_, ?_, ?_⟩⟩ <;> first | ring | trivial

/-- "the identity matrix changes nothing" -/
theorem identity_neutral (m : Matrix α) (p : Point α) :
    (Matrix.identity : Matrix α).transformPoint p = p ∧ m.multiply Matrix.identity = m ∧ Matrix.identity.multiply m = m := by
  cases m; cases p
  simp only [Matrix.identity, Matrix.multiply, Matrix.transformPoint, Point.mk.injEq, Matrix.mk.injEq]
  refine ⟨⟨?_, ?_⟩, ⟨?_, ?_, ?_, ?_, ?_, ?_⟩, ⟨?_, ?_, ?_, ?_, ?_, ?_⟩⟩ <;> ring

end Matrices

theorem transform_multiply_rat (m n : Matrix Rat) (p : Point Rat) :
    (m.multiply n).transformPoint p = n.transformPoint (m.transformPoint p) := transform_multiply m n p
theorem transform_rotate_rat (m : Matrix Rat) (s c : Rat) (p : Point Rat) :
    (m.rotate s c).transformPoint p = (Matrix.newRotation s c).transformPoint (m.transformPoint p) :=
  (transform_rotate m s c p).2
theorem identity_neutral_rat (m : Matrix Rat) (p : Point Rat) :
    (Matrix.identity : Matrix Rat).transformPoint p = p ∧ m.multiply Matrix.identity = m ∧
      Matrix.identity.multiply m = m := identity_neutral m p

section Contours
variable {α : Type} [Field α] [LinearOrder α] [IsStrictOrderedRing α]

/-- "Contour Contains agrees with the crossing-number definition away from edges": for a point on no (non-horizontal)
    edge, the five-conjunct test of the source counts exactly the edges that the horizontal ray from the point towards
    +x crosses (edge straddles the ray's height, lower end included, and the ray's origin is left of the edge there);
    `Contains` is the parity of that count -/
theorem contour_contains_crossing (c : Contour α) (pt : Point α)
    (h : ∀ e ∈ Contour.edges c, ¬ OnEdge pt e.1 e.2) :
    Contour.contains c pt = true ↔ ((Contour.edges c).countP (fun e => decide (Crosses pt e.1 e.2))) % 2 = 1 := by
  unfold Contour.contains
  rw [crossings_eq c pt h]
  simp

/-- the edges the loop visits are `(c[i], c[(i+1) % len c])` for `i = 0 … len c - 1` -/
theorem contour_edges (c : Contour α) :
    (Contour.edges c).length = c.length ∧
    ∀ i (hi : i < c.length), (Contour.edges c)[i]? = some (c[i], c[(i + 1) % c.length]'(Nat.mod_lt _ (by omega))) := by
  have hl : (Contour.edges c).length = c.length := by
    simp only [Contour.edges, List.length_zip, List.length_append, List.length_drop, List.length_take]; omega
  refine ⟨hl, fun i hi => ?_⟩
  simp only [Contour.edges]
  rw [List.getElem?_eq_getElem (by rw [← Contour.edges, hl]; exact hi)]
  simp only [List.getElem_zip, Option.some.injEq, Prod.mk.injEq, true_and]
  by_cases h : i + 1 < c.length
  · rw [List.getElem_append_left (by simp; omega)]
    simp [Nat.mod_eq_of_lt h]
  · have : i + 1 = c.length := by omega
    rw [List.getElem_append_right (by simp; omega)]
    simp [this, show i - (c.length - 1) = 0 by omega]

/-- the single-edge form of `contour_contains_crossing` -/
theorem edge_test_is_crossing (pt cur next : Point α) (hoff : ¬ OnEdge pt cur next) :
    edgeHit pt cur next = true ↔ Crosses pt cur next := edgeHit_iff pt cur next hoff

/-- "ContainsEvenOdd agree[s] with the crossing-number definition away from edges": for a point on no edge of any
    contour, `Polygon.ContainsEvenOdd` is the parity of the crossings of the ray summed over ALL edges of ALL contours -/
theorem evenodd_crossing (p : Polygon α) (pt : Point α)
    (h : ∀ c ∈ p, ∀ e ∈ Contour.edges c, ¬ OnEdge pt e.1 e.2) :
    Polygon.containsEvenOdd p pt = true ↔
      ((p.map (fun c => (Contour.edges c).countP (fun e => decide (Crosses pt e.1 e.2)))).sum) % 2 = 1 := by
  unfold Polygon.containsEvenOdd
  rw [beq_iff_eq, evenodd_parity p pt h]

end Contours

theorem contour_contains_crossing_rat (c : Contour Rat) (pt : Point Rat)
    (h : ∀ e ∈ Contour.edges c, ¬ OnEdge pt e.1 e.2) :
    Contour.contains c pt = true ↔ ((Contour.edges c).countP (fun e => decide (Crosses pt e.1 e.2))) % 2 = 1 :=
  contour_contains_crossing c pt h

section Bounds
variable {α : Type} [CommRing α] [LinearOrder α] [IsStrictOrderedRing α]

/-- "Bounds encloses every vertex": each vertex is `In` the bounds of its contour and of the polygon -/
theorem bounds_encloses (p : Polygon α) (c : Contour α) (hc : c ∈ p) (v : Point α) (hv : v ∈ c) :
    v.inRect (Contour.bounds c) = true ∧ v.inRect (Polygon.bounds p) = true := by
  simp only [Rect.inRect_iff]
  exact ⟨contour_bounds_In c v hv, polygon_bounds_In p c hc v hv⟩

end Bounds

theorem bounds_encloses_rat (p : Polygon Rat) (c : Contour Rat) (hc : c ∈ p) (v : Point Rat) (hv : v ∈ c) :
    v.inRect (Contour.bounds c) = true ∧ v.inRect (Polygon.bounds p) = true := bounds_encloses p c hc v hv

/-! ## Extension (session 4): the rest of the rectangle layer, CONTRAST theorems, representation invariance of the
    crossing number, tightness of `Bounds`, the source form of `Bounds`, composition of `Transform` -/

section Rectangles2
variable {α : Type} [CommRing α] [LinearOrder α] [IsStrictOrderedRing α]

/-- `Rect.Expand` -/
theorem expand_spec (r : Rect α) (p : Point α) :
    ((r.w < 0 ∨ r.h < 0) → r.expand p = ⟨p.x, p.y, 0, 0⟩) ∧
    (0 ≤ r.w → 0 ≤ r.h →
      (r.expand p).x = min r.x p.x ∧ (r.expand p).y = min r.y p.y ∧
      (r.expand p).right = max r.right p.x ∧ (r.expand p).bottom = max r.bottom p.y ∧
      0 ≤ (r.expand p).w ∧ 0 ≤ (r.expand p).h) := by
  constructor
  · intro h
    have : (decide (r.w < 0) || decide (r.h < 0)) = true := by simpa using h
    simp [Rect.expand, this]
  · intro hw hh
    have : (decide (r.w < 0) || decide (r.h < 0)) = false := by simp [not_lt.mpr hw, not_lt.mpr hh]
    simp only [Rect.expand, this, Bool.false_eq_true, if_false, Rect.right, Rect.bottom]
    refine ⟨trivial, trivial, by abel, by abel, ?_, ?_⟩
    · have : min r.x p.x ≤ r.x := min_le_left _ _
      have : r.x + r.w ≤ max (r.x + r.w) p.x := le_max_left _ _
      linarith
    · have : min r.y p.y ≤ r.y := min_le_left _ _
      have : r.y + r.h ≤ max (r.y + r.h) p.y := le_max_left _ _
      linarith

/-- `Rect.Inset` -/
theorem inset_spec (r : Rect α) (i : Insets α) :
    (r.inset i).x = r.x + i.left ∧ (r.inset i).y = r.y + i.top ∧ 0 ≤ (r.inset i).w ∧ 0 ≤ (r.inset i).h ∧
    (i.left + i.right ≤ r.w → (r.inset i).right = r.right - i.right) ∧
    (i.top + i.bottom ≤ r.h → (r.inset i).bottom = r.bottom - i.bottom) ∧
    (r.w < i.left + i.right → (r.inset i).w = 0) ∧ (r.h < i.top + i.bottom → (r.inset i).h = 0) := by
  simp only [Rect.inset, Insets.width, Insets.height, Rect.right, Rect.bottom]
  refine ⟨trivial, trivial, le_max_right _ _, le_max_right _ _, ?_, ?_, ?_, ?_⟩
  · intro h; rw [max_eq_left (by linarith)]; ring
  · intro h; rw [max_eq_left (by linarith)]; ring
  · intro h; exact max_eq_right (by linarith)
  · intro h; exact max_eq_right (by linarith)

end Rectangles2

/-! ### CONTRAST: the variants of the code without the mechanism violate the statements -/

/-- `Rect.Contains` as it was before the repair (far edges minus one) -/
def containsMinusOne (r i : Rect Rat) : Bool :=
  if r.empty || i.empty then false
  else decide (r.x ≤ i.x) && decide (r.y ≤ i.y) && decide (i.x < r.right) && decide (i.y < r.bottom) &&
    decide (r.x ≤ i.right - 1) && decide (r.y ≤ i.bottom - 1) && decide (i.right - 1 < r.right) &&
    decide (i.bottom - 1 < r.bottom)

/-- CONTRAST to `contains_iff`: the `-1` test fails the clause in both directions on fractional sizes -/
theorem contains_minus_one_contrast :
    (∃ a b : Rect Rat, containsMinusOne a b = true ∧
      ¬ (b.empty = false ∧ ∀ p : Point Rat, p.inRect b = true → p.inRect a = true)) ∧
    (∃ a b : Rect Rat, containsMinusOne a b = false ∧
      (b.empty = false ∧ ∀ p : Point Rat, p.inRect b = true → p.inRect a = true)) := by
  constructor
  · refine ⟨⟨0, 0, 10, 10⟩, ⟨0, 0, 21/2, 21/2⟩, ?_, ?_⟩
    · norm_num [containsMinusOne, Rect.empty, Rect.right, Rect.bottom]
    · rintro ⟨_, h⟩
      have h1 := h ⟨41/4, 0⟩ (by norm_num [Point.inRect, Rect.empty, Rect.right, Rect.bottom])
      norm_num [Point.inRect, Rect.empty, Rect.right, Rect.bottom] at h1
  · refine ⟨⟨0, 0, 10, 10⟩, ⟨0, 0, 1/2, 1/2⟩, ?_, ?_⟩
    · norm_num [containsMinusOne, Rect.empty, Rect.right, Rect.bottom]
    · exact (contains_iff_rat _ _).mp (by norm_num [Rect.contains, Rect.empty, Rect.right, Rect.bottom])

/-- `Rect.Intersects` with closed comparisons -/
def intersectsClosed (r o : Rect Int) : Bool :=
  if r.empty || o.empty then false
  else decide (r.x ≤ o.right) && decide (r.y ≤ o.bottom) && decide (r.right ≥ o.x) && decide (r.bottom ≥ o.y)

/-- CONTRAST to `intersects_iff`: with `<=` in place of `<` abutting rectangles "intersect" without a common point -/
theorem intersects_closed_contrast :
    ∃ a b : Rect Int, intersectsClosed a b = true ∧ ¬ ∃ p : Point Int, p.inRect a = true ∧ p.inRect b = true := by
  refine ⟨⟨0, 0, 1, 1⟩, ⟨1, 0, 1, 1⟩, by decide, ?_⟩
  rw [← intersects_iff_int]
  decide

/-- `Matrix.Multiply` as it was before the repair: `TransY` computed from the X-row coefficients -/
def multiplyOld (m o : Matrix Rat) : Matrix Rat :=
  { m.multiply o with transY := m.transX * o.scaleX + m.transY * o.skewX + o.transX }

/-- CONTRAST to `transform_multiply`: the old product does not compose -/
theorem multiply_old_contrast :
    ∃ (m n : Matrix Rat) (p : Point Rat), (multiplyOld m n).transformPoint p ≠ n.transformPoint (m.transformPoint p) := by
  refine ⟨Matrix.newTranslation 1 2, Matrix.newTranslation 3 5, ⟨0, 0⟩, ?_⟩
  norm_num [multiplyOld, Matrix.multiply, Matrix.newTranslation, Matrix.transformPoint]

/-- `Contour.Bounds` without the `1 +` -/
def boundsNoOne (c : Contour Rat) : Rect Rat :=
  let b := Contour.bounds c
  ⟨b.x, b.y, b.w - 1, b.h - 1⟩

/-- CONTRAST to `bounds_encloses`: without the `1 +` the extreme vertices are not `In` the bounds -/
theorem bounds_without_one_contrast :
    ∃ (c : Contour Rat) (v : Point Rat), v ∈ c ∧ v.inRect (boundsNoOne c) = false := by
  refine ⟨[⟨0, 0⟩, ⟨4, 0⟩, ⟨4, 3⟩], ⟨4, 3⟩, by simp, ?_⟩
  norm_num [boundsNoOne, Contour.bounds, boundsStep, Point.inRect, Rect.empty, Rect.right, Rect.bottom]

section Matrices2
variable {α : Type} [CommRing α]

/-- the product is associative -/
theorem multiply_assoc (a b c : Matrix α) : (a.multiply b).multiply c = a.multiply (b.multiply c) := by
  simp only [Matrix.multiply, Matrix.mk.injEq]
  refine ⟨?_, ?_, ?_, ?_, ?_, ?_⟩ <;> ring

/-- consecutive incremental transforms compose: translations add, scales multiply, rotations add their angles
    (for any pairs `(s₁, c₁)`, `(s₂, c₂)`: the pair of the sum is `(s₁c₂ + c₁s₂, c₁c₂ - s₁s₂)`) -/
theorem incremental_compose (m : Matrix α) (a b a' b' : α) :
    (m.translate a b).translate a' b' = m.translate (a + a') (b + b') ∧
    (m.scale a b).scale a' b' = m.scale (a * a') (b * b') ∧
    (m.rotate a b).rotate a' b' = m.rotate (a * b' + b * a') (b * b' - a * a') := by
  simp only [Matrix.translate, Matrix.scale, Matrix.rotate, Matrix.mk.injEq]
  refine ⟨⟨?_, ?_, ?_, ?_, ?_, ?_⟩, ⟨?_, ?_, ?_, ?_, ?_, ?_⟩, ⟨?_, ?_, ?_, ?_, ?_, ?_⟩⟩ <;> first | trivial | ring

/-- `TransformPoint` and the `Point` arithmetic: a translation matrix adds, a scale matrix multiplies
    coordinate-wise, every matrix is affine (`m(p + q) = m(p) + m(q) - m(0)`), and the cross product of two transformed
    difference vectors is the determinant times the original cross product -/
theorem transform_point_arith (m : Matrix α) (p q : Point α) (tx ty : α) :
    (Matrix.newTranslation tx ty).transformPoint p = p.add ⟨tx, ty⟩ ∧
    (Matrix.newScale tx tx).transformPoint p = p.mul tx ∧
    m.transformPoint (p.add q) = ((m.transformPoint p).add (m.transformPoint q)).sub (m.transformPoint ⟨0, 0⟩) ∧
    ((m.transformPoint p).sub (m.transformPoint ⟨0, 0⟩)).cross ((m.transformPoint q).sub (m.transformPoint ⟨0, 0⟩)) =
      (m.scaleX * m.scaleY - m.skewX * m.skewY) * p.cross q ∧
    p.cross q = - q.cross p ∧ p.dot q = q.dot p ∧ (p.add q).sub q = p ∧ p.add p.neg = ⟨0, 0⟩ := by
  obtain ⟨px, py⟩ := p
  obtain ⟨qx, qy⟩ := q
  simp only [Matrix.newTranslation, Matrix.newScale, Matrix.transformPoint, Point.add, Point.sub, Point.mul, Point.neg,
    Point.cross, Point.dot, Point.mk.injEq]
  refine ⟨⟨?_, ?_⟩, ⟨?_, ?_⟩, ⟨?_, ?_⟩, ?_, ?_, ?_, ⟨?_, ?_⟩, ⟨?_, ?_⟩⟩ <;> ring

end Matrices2

section Contours2
variable {α : Type} [Field α] [LinearOrder α] [IsStrictOrderedRing α]

/-- "Polygon Contains agree[s] with the crossing-number definition away from edges": for a point on no edge of any
    contour, `Polygon.Contains` holds exactly when the ray crosses the outline of SOME contour an odd number of times -/
theorem polygon_contains_crossing (p : Polygon α) (pt : Point α)
    (h : ∀ c ∈ p, ∀ e ∈ Contour.edges c, ¬ OnEdge pt e.1 e.2) :
    Polygon.contains p pt = true ↔
      ∃ c ∈ p, ((Contour.edges c).countP (fun e => decide (Crosses pt e.1 e.2))) % 2 = 1 := by
  rw [(evenodd_spec p pt).2]
  constructor
  · rintro ⟨c, hc, hcc⟩; exact ⟨c, hc, (contour_contains_crossing c pt (h c hc)).mp hcc⟩
  · rintro ⟨c, hc, hcc⟩; exact ⟨c, hc, (contour_contains_crossing c pt (h c hc)).mpr hcc⟩

/-- the two halves of the property meet: the outline of a non-empty rectangle, taken as a contour, `Contains` exactly
    the points that are `In` the rectangle — for EVERY point, those on the outline included (both are half-open the
    same way) -/
theorem rect_outline_contains (r : Rect α) (hr : r.empty = false) (pt : Point α) :
    Contour.contains [r.topLeft, r.topRight, r.bottomRight, r.bottomLeft] pt = pt.inRect r :=
  Geom.rect_outline_contains r hr pt

/-- the crossing-number answer is a property of the closed outline, not of its representation: it does not depend on
    the vertex the contour starts from, nor on its orientation; and the single-edge test does not depend on the
    direction of the edge (no side condition: points on edges included) -/
theorem contains_representation_invariant (c : Contour α) (k : Nat) (pt cur next : Point α) :
    Contour.contains (c.rotate k) pt = Contour.contains c pt ∧
    Contour.contains c.reverse pt = Contour.contains c pt ∧
    edgeHit pt cur next = edgeHit pt next cur :=
  ⟨contains_rotate c k pt, contains_reverse c pt, edgeHit_symm pt cur next⟩

/-- `Transform` by a translation matrix moves the polygon and the point together: `Contains` and `ContainsEvenOdd` of
    the transformed polygon at the transformed point are those of the original (no side condition) -/
theorem contains_translation_invariant (p : Polygon α) (tx ty : α) (pt : Point α) :
    let m : Matrix α := Matrix.newTranslation tx ty
    Polygon.contains (Polygon.transform p m) (m.transformPoint pt) = Polygon.contains p pt ∧
    Polygon.containsEvenOdd (Polygon.transform p m) (m.transformPoint pt) = Polygon.containsEvenOdd p pt := by
  intro m
  have hm : ∀ q : Point α, m.transformPoint q = q.add ⟨tx, ty⟩ := fun q => (transform_point_arith m q q tx ty).1
  have hc : ∀ c : Contour α, Contour.contains (c.map m.transformPoint) (m.transformPoint pt) = Contour.contains c pt := by
    intro c
    rw [hm pt, show c.map m.transformPoint = c.map (·.add ⟨tx, ty⟩) from List.map_congr_left (fun q _ => hm q)]
    exact contains_translate _ c pt
  simp only [Polygon.contains, Polygon.containsEvenOdd, Polygon.transform, List.any_map, List.countP_map]
  constructor
  · congr 1; funext c; exact hc c
  · congr 3; funext c; exact hc c

end Contours2

section Bounds2
variable {α : Type} [CommRing α] [LinearOrder α] [IsStrictOrderedRing α]

/-- **`Bounds` is tight** ("encloses every vertex" and nothing more): the origin of `Contour.Bounds` and its far edges
    minus one are attained by vertices and no vertex lies beyond them — the bounds are
    `[min x, max x + 1) × [min y, max y + 1)` -/
theorem bounds_tight (c : Contour α) (hne : c ≠ []) :
    let b := Contour.bounds c
    (∃ v ∈ c, v.x = b.x) ∧ (∃ v ∈ c, v.y = b.y) ∧ (∃ v ∈ c, v.x + 1 = b.right) ∧ (∃ v ∈ c, v.y + 1 = b.bottom) ∧
    ∀ v ∈ c, b.x ≤ v.x ∧ b.y ≤ v.y ∧ v.x + 1 ≤ b.right ∧ v.y + 1 ≤ b.bottom :=
  contour_bounds_tight c hne

/-- the driver runs `Contour.Bounds` / `Polygon.Bounds` as the source computes them — the loop started from
    `(MaxValue, MaxValue, MinValue, MinValue)`, the sizes by `extent` with its guard (whatever the guarded branch
    computes): for contours within the limits this IS the closed form of `bounds_encloses` / `bounds_tight`, so every
    vertex is `In` these bounds -/
theorem bounds_src (maxV minV : α) (widen : α → α → α) (p : Polygon α)
    (h : ∀ c ∈ p, ∀ v ∈ c, (minV ≤ v.x ∧ v.x ≤ maxV) ∧ (minV ≤ v.y ∧ v.y ≤ maxV)) :
    Polygon.boundsSrc maxV minV widen p = Polygon.bounds p ∧
    ∀ c ∈ p, Contour.boundsSrc maxV minV widen c = Contour.bounds c ∧
      ∀ v ∈ c, v.inRect (Contour.boundsSrc maxV minV widen c) = true ∧
        v.inRect (Polygon.boundsSrc maxV minV widen p) = true := by
  refine ⟨polygon_boundsSrc_eq maxV minV widen p h, fun c hc => ?_⟩
  have e := contour_boundsSrc_eq maxV minV widen c (h c hc)
  refine ⟨e, fun v hv => ?_⟩
  rw [e, polygon_boundsSrc_eq maxV minV widen p h]
  exact bounds_encloses p c hc v hv

/-- the guard of `extent` (`!(hi < lo+size)`) is dead in exact arithmetic: it exists for float rounding only -/
theorem extent_guard_dead (widen : α → α → α) (lo hi : α) : extent widen lo hi = 1 + hi - lo := extent_eq widen lo hi

end Bounds2

section Sizes
variable {α : Type} [CommRing α] [LinearOrder α] [IsStrictOrderedRing α]

/-- `Size.ConstrainForHint`: each component is capped by the hint's when that is at least one, else unchanged -/
theorem constrain_spec (s hint : Size α) :
    ((s.constrainForHint hint).w = if 1 ≤ hint.w then min s.w hint.w else s.w) ∧
    ((s.constrainForHint hint).h = if 1 ≤ hint.h then min s.h hint.h else s.h) := by
  simp only [Size.constrainForHint, ge_iff_le, gt_iff_lt, Bool.and_eq_true, decide_eq_true_eq]
  constructor
  · by_cases h1 : 1 ≤ hint.w <;> by_cases h2 : hint.w < s.w <;> simp [h1, h2, le_of_lt, not_lt.mp]
  · by_cases h1 : 1 ≤ hint.h <;> by_cases h2 : hint.h < s.h <;> simp [h1, h2, le_of_lt, not_lt.mp]

end Sizes

/-- observation (outside the property's text): `Rect.Align` floors the origin but ceils the SIZE, so — unlike its
    doc comment says — the result need not encompass the original: `(1/2, 0, 1, 1)` aligns to `(0, 0, 1, 1)` -/
example : (Rect.align floorRat ceilRat ⟨1/2, 0, 1, 1⟩).contains ⟨1/2, 0, 1, 1⟩ = false := by
  decide +kernel


section SetLaws
variable {α : Type} [CommRing α] [LinearOrder α] [IsStrictOrderedRing α]

/-- `Intersect` is the greatest rectangle contained in both (the dual of `union_smallest_contains`): a rectangle is
    contained in both operands exactly when it is contained in their intersection -/
theorem intersect_greatest (a b c : Rect α) :
    (a.intersect b).contains c = true ↔ a.contains c = true ∧ b.contains c = true := by
  simp only [contains_iff, intersect_spec, Bool.and_eq_true]
  constructor
  · rintro ⟨hc, h⟩; exact ⟨⟨hc, fun p hp => (h p hp).1⟩, ⟨hc, fun p hp => (h p hp).2⟩⟩
  · rintro ⟨⟨hc, h1⟩, ⟨_, h2⟩⟩; exact ⟨hc, fun p hp => ⟨h1 p hp, h2 p hp⟩⟩

/-- `Intersects` holds exactly when `Intersect` is not empty; both are symmetric, and `Union` is symmetric too -/
theorem intersect_symm (a b : Rect α) :
    (a.intersects b = true ↔ (a.intersect b).empty = false) ∧ a.intersects b = b.intersects a ∧
    a.intersect b = b.intersect a ∧ a.union b = b.union a := by
  refine ⟨?_, ?_, ?_, ?_⟩
  · rw [intersects_iff]
    constructor
    · rintro ⟨p, h1, h2⟩
      have : p.inRect (a.intersect b) = true := by rw [intersect_spec, h1, h2]; rfl
      by_contra he
      have he' : (a.intersect b).empty = true := by simpa using he
      simp [Point.inRect, he'] at this
    · intro he
      have hne := (Rect.empty_false_iff _).mp he
      have hin := Rect.corner_in hne
      rw [← Rect.inRect_iff, intersect_spec, Bool.and_eq_true] at hin
      exact ⟨_, hin⟩
  · rw [Bool.eq_iff_iff, intersects_iff, intersects_iff]
    constructor <;> rintro ⟨p, h1, h2⟩ <;> exact ⟨p, h2, h1⟩
  · simp only [Rect.intersect, Bool.or_comm a.empty b.empty, max_comm a.x b.x, max_comm a.y b.y,
      min_comm a.right b.right, min_comm a.bottom b.bottom]
  · simp only [Rect.union, Bool.and_comm a.empty b.empty, min_comm a.x b.x, min_comm a.y b.y,
      max_comm a.right b.right, max_comm a.bottom b.bottom]
    by_cases h1 : a.empty = true <;> by_cases h2 : b.empty = true <;> simp [h1, h2]

/-- `Contains` is a partial order on the non-empty rectangles (reflexive, transitive, antisymmetric), and
    `Union` / `Intersect` of a non-empty rectangle with itself give it back -/
theorem contains_order (a b c : Rect α) :
    (a.empty = false → a.contains a = true) ∧
    (a.contains b = true → b.contains c = true → a.contains c = true) ∧
    (a.contains b = true → b.contains a = true → a = b) ∧
    (a.empty = false → a.union a = a ∧ a.intersect a = a) := by
  refine ⟨?_, ?_, ?_, ?_⟩
  · intro h; rw [contains_iff]; exact ⟨h, fun p hp => hp⟩
  · intro h1 h2
    rw [contains_iff] at *
    exact ⟨h2.1, fun p hp => h1.2 p (h2.2 p hp)⟩
  · intro h1 h2
    rw [Rect.contains_iff_Contains] at h1 h2
    obtain ⟨_, _, x1, y1, r1, b1⟩ := h1
    obtain ⟨_, _, x2, y2, r2, b2⟩ := h2
    have ex : a.x = b.x := le_antisymm x1 x2
    have ey : a.y = b.y := le_antisymm y1 y2
    simp only [Rect.right, Rect.bottom] at r1 r2 b1 b2
    have ew : a.w = b.w := by linarith [le_antisymm r1 r2]
    have eh : a.h = b.h := by linarith [le_antisymm b1 b2]
    cases a; cases b; simp_all
  · intro h
    obtain ⟨hw, hh⟩ := Rect.pos_of_not_empty ((Rect.empty_false_iff a).mp h)
    constructor
    · simp [Rect.union, h, Rect.right, Rect.bottom]
    · simp [Rect.intersect, h, Rect.right, Rect.bottom, not_le.mpr hw, not_le.mpr hh]

end SetLaws

/-- the determinant is multiplicative (so a product of invertible matrices is invertible) -/
theorem det_multiply {α : Type} [CommRing α] (m n : Matrix α) :
    (m.multiply n).scaleX * (m.multiply n).scaleY - (m.multiply n).skewX * (m.multiply n).skewY =
      (m.scaleX * m.scaleY - m.skewX * m.skewY) * (n.scaleX * n.scaleY - n.skewX * n.skewY) := by
  simp only [Matrix.multiply]; ring


/-! ### Go `int` as it is: `Int64` with wrap-around

The driver also runs the rectangle layer at `Int64` (stream `rw`), inputs that overflow included.  The laws hold on
machine integers as long as the far edges `X+Width`, `Y+Height` of the operands do not wrap (`NoWrap`; for `Intersect`
and `Union`, whose sizes are recomputed as `edge - origin`, as long as all edges lie in `[-2^62, 2^62)`: `Half`); beyond
that they fail (`int64_wrap_contrast`). -/

/-- the rectangle functions at `Int64` agree with the same functions at `Int` -/
theorem int64_agrees (a b : Rect Int64) (p : Point Int64) :
    (b.NoWrap → p.inRect b = p.toInt.inRect b.toInt) ∧
    (a.NoWrap → b.NoWrap → a.contains b = a.toInt.contains b.toInt ∧ a.intersects b = a.toInt.intersects b.toInt) ∧
    (a.Half → b.Half → (a.intersect b).toInt = a.toInt.intersect b.toInt ∧ (a.union b).toInt = a.toInt.union b.toInt) :=
  ⟨inRect_toInt p b, fun ha hb => ⟨contains_toInt a b ha hb, intersects_toInt a b ha hb⟩,
   fun ha hb => ⟨intersect_toInt a b ha hb, union_toInt a b ha hb⟩⟩

/-- "a.Contains(b) holds exactly when b is non-empty and every point of b is In a" for Go `int` rectangles and Go `int`
    points, wrap-around semantics, whenever `X+Width` and `Y+Height` of the two rectangles do not overflow -/
theorem contains_iff_int64 (a b : Rect Int64) (ha : a.NoWrap) (hb : b.NoWrap) :
    a.contains b = true ↔ b.empty = false ∧ ∀ p : Point Int64, p.inRect b = true → p.inRect a = true := by
  rw [contains_toInt a b ha hb, contains_iff_int, Rect.empty_toInt]
  constructor
  · rintro ⟨he, h⟩
    refine ⟨he, fun p hp => ?_⟩
    rw [inRect_toInt p a ha]; rw [inRect_toInt p b hb] at hp; exact h _ hp
  · rintro ⟨he, h⟩
    refine ⟨he, fun q hq => ?_⟩
    obtain ⟨p, rfl⟩ := point_representable q b hb hq
    rw [← inRect_toInt p a ha]; rw [← inRect_toInt p b hb] at hq; exact h p hq

/-- "a.Intersects(b) exactly when some point is In both", on machine integers without overflow of the far edges -/
theorem intersects_iff_int64 (a b : Rect Int64) (ha : a.NoWrap) (hb : b.NoWrap) :
    a.intersects b = true ↔ ∃ p : Point Int64, p.inRect a = true ∧ p.inRect b = true := by
  rw [intersects_toInt a b ha hb, intersects_iff_int]
  constructor
  · rintro ⟨q, h1, h2⟩
    obtain ⟨p, rfl⟩ := point_representable q b hb h2
    exact ⟨p, by rw [inRect_toInt p a ha]; exact h1, by rw [inRect_toInt p b hb]; exact h2⟩
  · rintro ⟨p, h1, h2⟩
    exact ⟨p.toInt, by rw [← inRect_toInt p a ha]; exact h1, by rw [← inRect_toInt p b hb]; exact h2⟩

/-- "Intersect returns precisely the common points", on machine integers with all edges in `[-2^62, 2^62)` -/
theorem intersect_spec_int64 (a b : Rect Int64) (ha : a.Half) (hb : b.Half) (p : Point Int64) :
    p.inRect (a.intersect b) = (p.inRect a && p.inRect b) := by
  rw [inRect_toInt p _ (intersect_noWrap a b ha hb), intersect_toInt a b ha hb, intersect_spec_int,
    inRect_toInt p a ha.noWrap, inRect_toInt p b hb.noWrap]

/-- CONTRAST: outside that range the laws fail although no `X+Width` overflows — the recomputed sizes
    `max(rights) - min(lefts)`, `min(rights) - max(lefts)` wrap: for two small rectangles three quarters of the int range
    apart the `Union` is `Empty` (it holds no point of its operands) and the `Intersect` is not `Empty` although the
    rectangles do not intersect -/
theorem int64_wrap_contrast :
    ∃ (a b : Rect Int64) (p : Point Int64), a.NoWrap ∧ b.NoWrap ∧
      p.inRect a = true ∧ p.inRect (a.union b) = false ∧ (a.union b).empty = true ∧
      a.intersects b = false ∧ (a.intersect b).empty = false := by
  refine ⟨⟨-9223372036854775808, 0, 5, 1⟩, ⟨4611686018427387904, 0, 5, 1⟩, ⟨-9223372036854775808, 0⟩, ?_, ?_, ?_, ?_, ?_, ?_, ?_⟩
  · unfold Rect.NoWrap; decide
  · unfold Rect.NoWrap; decide
  · decide
  · decide
  · decide
  · decide
  · decide

/-! ### Expand, Inset and the Point / Size arithmetic on machine integers (streams `rw`, `aw`) -/

/-- `Rect.Expand` and `Rect.Inset` at `Int64` agree with the functions at `Int` under explicit no-overflow conditions:
    Expand when all edges and the point lie in `[-2^62, 2^62)`, Inset when the six sums / differences it forms fit -/
theorem int64_expand_inset_agree (r : Rect Int64) (p : Point Int64) (i : Insets Int64) :
    (r.Half → FitsHalf p.x.toInt → FitsHalf p.y.toInt → (r.expand p).toInt = r.toInt.expand p.toInt) ∧
    (Fits (r.x.toInt + i.left.toInt) → Fits (r.y.toInt + i.top.toInt) → Fits (i.left.toInt + i.right.toInt) →
      Fits (i.top.toInt + i.bottom.toInt) → Fits (r.w.toInt - (i.left.toInt + i.right.toInt)) →
      Fits (r.h.toInt - (i.top.toInt + i.bottom.toInt)) → (r.inset i).toInt = r.toInt.inset i.toInt) :=
  ⟨expand_toInt r p, inset_toInt r i⟩

/-- `expand_spec` for Go `int`: the expanded rectangle starts at the minimum, ends at the maximum and has non-negative
    sizes — as integers, i.e. without wrap — whenever all edges and the point lie in `[-2^62, 2^62)` -/
theorem expand_spec_int64 (r : Rect Int64) (p : Point Int64) (hr : r.Half) (hx : FitsHalf p.x.toInt)
    (hy : FitsHalf p.y.toInt) (hw : 0 ≤ r.w.toInt) (hh : 0 ≤ r.h.toInt) :
    (r.expand p).x.toInt = min r.x.toInt p.x.toInt ∧ (r.expand p).y.toInt = min r.y.toInt p.y.toInt ∧
    (r.expand p).x.toInt + (r.expand p).w.toInt = max (r.x.toInt + r.w.toInt) p.x.toInt ∧
    (r.expand p).y.toInt + (r.expand p).h.toInt = max (r.y.toInt + r.h.toInt) p.y.toInt ∧
    0 ≤ (r.expand p).w.toInt ∧ 0 ≤ (r.expand p).h.toInt := by
  have e := expand_toInt r p hr hx hy
  obtain ⟨s1, s2, s3, s4, s5, s6⟩ := (expand_spec r.toInt p.toInt).2 hw hh
  rw [← e] at s1 s2 s3 s4 s5 s6
  exact ⟨s1, s2, s3, s4, s5, s6⟩

/-- the `Point` / `Size` arithmetic at `Int64` agrees with the arithmetic at `Int` under the no-overflow conditions of
    exactly the operations each method performs; `Size.Min` / `Max` / `ConstrainForHint` only compare and agree always -/
theorem int64_point_size_agree (p q : Point Int64) (s t : Size Int64) (v : Int64) :
    (Fits (p.x.toInt + q.x.toInt) → Fits (p.y.toInt + q.y.toInt) → (p.add q).toInt = p.toInt.add q.toInt) ∧
    (Fits (p.x.toInt - q.x.toInt) → Fits (p.y.toInt - q.y.toInt) → (p.sub q).toInt = p.toInt.sub q.toInt) ∧
    (Fits (-p.x.toInt) → Fits (-p.y.toInt) → p.neg.toInt = p.toInt.neg) ∧
    (Fits (p.x.toInt * v.toInt) → Fits (p.y.toInt * v.toInt) → (p.mul v).toInt = p.toInt.mul v.toInt) ∧
    (Fits (p.x.toInt * q.x.toInt) → Fits (p.y.toInt * q.y.toInt) → Fits (p.x.toInt * q.x.toInt + p.y.toInt * q.y.toInt) →
      (p.dot q).toInt = p.toInt.dot q.toInt) ∧
    (Fits (p.x.toInt * q.y.toInt) → Fits (p.y.toInt * q.x.toInt) → Fits (p.x.toInt * q.y.toInt - p.y.toInt * q.x.toInt) →
      (p.cross q).toInt = p.toInt.cross q.toInt) ∧
    (Fits (p.x.toInt - q.x.toInt) ∧ Fits (-(p.x.toInt - q.x.toInt)) → Fits (p.y.toInt - q.y.toInt) ∧ Fits (-(p.y.toInt - q.y.toInt)) →
      p.equalWithin q v = p.toInt.equalWithin q.toInt v.toInt) ∧
    ((s.min t).toInt = s.toInt.min t.toInt ∧ (s.max t).toInt = s.toInt.max t.toInt ∧
      (s.constrainForHint t).toInt = s.toInt.constrainForHint t.toInt) :=
  ⟨point_add_toInt p q, point_sub_toInt p q, point_neg_toInt p, point_mul_toInt p v, point_dot_toInt p q,
   point_cross_toInt p q, equalWithin_toInt p q v, size_order_toInt s t⟩

/-- CONTRAST: beyond those conditions the machine functions leave the integer ones — `Expand` of a rectangle with
    non-negative sizes (no `X+Width` overflow) by a point three quarters of the range away has a NEGATIVE width (so it is
    Empty and does not hold the point); the negation of the most negative point is itself; a point `2^63` away is
    "equal within 0"; and adding 1 to the largest coordinate gives the smallest -/
theorem int64_arith_wrap_contrast :
    (∃ (r : Rect Int64) (p : Point Int64), r.NoWrap ∧ 0 ≤ r.w.toInt ∧ 0 ≤ r.h.toInt ∧ (r.expand p).w.toInt < 0 ∧
      p.inRect (r.expand p) = false) ∧
    (∃ p : Point Int64, p.neg.x = p.x ∧ p.x.toInt < 0) ∧
    (∃ p q : Point Int64, p.equalWithin q 0 = true ∧ p.toInt.equalWithin q.toInt 0 = false) ∧
    (∃ p q : Point Int64, 0 < p.x.toInt ∧ 0 < q.x.toInt ∧ (p.add q).x.toInt < 0) := by
  refine ⟨⟨⟨-9223372036854775808, 0, 5, 1⟩, ⟨4611686018427387904, 0⟩, ?_, by decide, by decide, by decide, by decide⟩,
    ⟨⟨-9223372036854775808, 0⟩, by decide, by decide⟩,
    ⟨⟨-9223372036854775808, 0⟩, ⟨0, 0⟩, by decide, by decide⟩,
    ⟨⟨9223372036854775807, 0⟩, ⟨1, 0⟩, by decide, by decide, by decide⟩⟩
  unfold Rect.NoWrap; decide

section Rotation
variable {α : Type} [CommRing α]

/-- `m.Rotate` IS `m.Multiply(rotation(s, c))`, all six entries, for every matrix `m` — the translation column
    included — and every pair `(s, c)` -/
theorem rotate_eq_multiply_rotation (m : Matrix α) (s c : α) : m.rotate s c = m.multiply (Matrix.newRotation s c) :=
  (incremental_eq_multiply m s c).2.2

/-- `Rotate` written as an in-place update of the receiver's copy, the translation column updated one entry after the
    other: `TransY` sees the already rotated `TransX` -/
def rotateSequential (m : Matrix α) (s c : α) : Matrix α :=
  let tx := m.transX * c - s * m.transY
  ⟨m.scaleX * c - s * m.skewY, m.skewX * c - s * m.scaleY, tx,
   m.scaleX * s + m.skewY * c, m.skewX * s + m.scaleY * c, tx * s + m.transY * c⟩

/-- the sequential form is right for a matrix without translation … -/
theorem rotate_sequential_no_translation (m : Matrix α) (s c : α) (hx : m.transX = 0) (hy : m.transY = 0) :
    rotateSequential m s c = m.rotate s c := by
  simp only [rotateSequential, Matrix.rotate, hx, hy, Matrix.mk.injEq]
  refine ⟨trivial, trivial, trivial, trivial, trivial, ?_⟩
  ring

end Rotation

/-- … CONTRAST: and wrong as soon as the matrix carries one: a quarter turn `(s, c) = (1, 0)` of the translation by
    `(1, 0)` must move the point `(0,0)` to `(0, 1)`; the sequential form sends it to `(0, 0)` -/
theorem rotate_sequential_contrast :
    ∃ (m : Matrix Rat) (s c : Rat) (p : Point Rat),
      (rotateSequential m s c).transformPoint p ≠ (Matrix.newRotation s c).transformPoint (m.transformPoint p) ∧
      (m.rotate s c).transformPoint p = (Matrix.newRotation s c).transformPoint (m.transformPoint p) := by
  refine ⟨Matrix.newTranslation 1 0, 1, 0, ⟨0, 0⟩, ?_, (transform_rotate _ _ _ _).2⟩
  norm_num [rotateSequential, Matrix.newTranslation, Matrix.newRotation, Matrix.transformPoint]

/-- the guarded branch of `extent` (the only part of `Bounds` that exists for rounding; dead in exact arithmetic by
    `extent_guard_dead`), as the driver runs it at Lean `Float` in stream `pd`: for ANY `next` (the source's
    `Nextafter(·, MaxValue)`) it returns the FIRST of the five candidates `s₀ = next hi - lo, next s₀, …, next⁴ s₀` that puts
    `hi` strictly below `lo + candidate`, and the fifth if none does.  That one of the five always does on finite float64
    input is NOT proved (it is false for a vertex at `MaxFloat64`: `poly.bounds-double.ops`); it is only run -/
theorem extent_widen_spec {β : Type} [Add β] [Sub β] [LT β] [DecidableLT β] (next : β → β) (lo hi : β) :
    ∃ k, k ≤ 4 ∧ widenSrc next lo hi = Nat.iterate next k (next hi - lo) ∧
      (∀ j, j < k → ¬ hi < lo + Nat.iterate next j (next hi - lo)) ∧
      (k < 4 → hi < lo + widenSrc next lo hi) := by
  obtain ⟨k, hk, e, h1, h2⟩ := widenLoop_spec next lo hi 4 (next hi - lo)
  exact ⟨k, hk, e, h1, fun h => by rw [show widenSrc next lo hi = _ from e]; exact h2 h⟩

/-- CONTRAST (the cap matters): with a `next` that never moves, the loop gives up after its four widenings and `hi` stays
    outside — the shape of the failure at `MaxFloat64`, where `Nextafter(x, MaxValue) = x` -/
theorem extent_widen_cap_contrast : ¬ ((5 : Int) < 0 + widenSrc (fun x => x) 0 5) := by decide

/-- "Union [returns] the smallest rectangle covering both", on machine integers with all edges in `[-2^62, 2^62)`:
    the union holds every point of both operands … -/
theorem union_covers_int64 (a b : Rect Int64) (ha : a.Half) (hb : b.Half) (p : Point Int64)
    (h : p.inRect a = true ∨ p.inRect b = true) : p.inRect (a.union b) = true := by
  rw [inRect_toInt p _ (union_noWrap a b ha hb), union_toInt a b ha hb]
  apply union_covers_int
  rw [← inRect_toInt p a ha.noWrap, ← inRect_toInt p b hb.noWrap]; exact h

/-- … and every (non-wrapping) rectangle that holds all machine points of both operands holds all machine points of
    the union -/
theorem union_smallest_int64 (a b c : Rect Int64) (ha : a.Half) (hb : b.Half) (hc : c.NoWrap)
    (h : ∀ p : Point Int64, p.inRect a = true ∨ p.inRect b = true → p.inRect c = true) :
    ∀ p : Point Int64, p.inRect (a.union b) = true → p.inRect c = true := by
  intro p hp
  rw [inRect_toInt p _ (union_noWrap a b ha hb), union_toInt a b ha hb] at hp
  rw [inRect_toInt p c hc]
  refine union_smallest_int a.toInt b.toInt c.toInt (fun q hq => ?_) p.toInt hp
  rcases hq with hq | hq
  · obtain ⟨p', rfl⟩ := point_representable q a ha.noWrap hq
    rw [← inRect_toInt p' c hc]; exact h p' (Or.inl (by rw [inRect_toInt p' a ha.noWrap]; exact hq))
  · obtain ⟨p', rfl⟩ := point_representable q b hb.noWrap hq
    rw [← inRect_toInt p' c hc]; exact h p' (Or.inr (by rw [inRect_toInt p' b hb.noWrap]; exact hq))

/-- exactly the call of the model driver (`Driver/C18.lean`: limits ±`math.MaxFloat64`, the guarded branch of `extent`
    stubbed): on every polygon of finite float64 coordinates it computes the closed-form bounds, which enclose every
    vertex -/
theorem bounds_src_rat (p : Polygon Rat)
    (h : ∀ c ∈ p, ∀ v ∈ c, (-maxFloat64 ≤ v.x ∧ v.x ≤ maxFloat64) ∧ (-maxFloat64 ≤ v.y ∧ v.y ≤ maxFloat64)) :
    Polygon.boundsSrc maxFloat64 (-maxFloat64) (fun _ _ => 0) p = Polygon.bounds p ∧
    ∀ c ∈ p, Contour.boundsSrc maxFloat64 (-maxFloat64) (fun _ _ => 0) c = Contour.bounds c ∧
      ∀ v ∈ c, v.inRect (Contour.boundsSrc maxFloat64 (-maxFloat64) (fun _ _ => 0) c) = true ∧
        v.inRect (Polygon.boundsSrc maxFloat64 (-maxFloat64) (fun _ _ => 0) p) = true :=
  bounds_src maxFloat64 (-maxFloat64) (fun _ _ => 0) p h

theorem rect_outline_contains_rat (r : Rect Rat) (hr : r.empty = false) (pt : Point Rat) :
    Contour.contains [r.topLeft, r.topRight, r.bottomRight, r.bottomLeft] pt = pt.inRect r :=
  rect_outline_contains r hr pt

theorem contains_representation_invariant_rat (c : Contour Rat) (k : Nat) (pt : Point Rat) :
    Contour.contains (c.rotate k) pt = Contour.contains c pt ∧ Contour.contains c.reverse pt = Contour.contains c pt :=
  ⟨(contains_representation_invariant c k pt pt pt).1, (contains_representation_invariant c k pt pt pt).2.1⟩

/-! non-vacuity: the hypotheses are satisfiable — a point strictly inside the unit-ish square is on no edge and is
    counted once; a rectangle pair with `contains` true exists -/
example : (⟨0, 0, 10, 10⟩ : Rect Int).contains ⟨0, 0, 10, 10⟩ = true := by decide
example : Contour.contains ([⟨0, 0⟩, ⟨4, 0⟩, ⟨4, 4⟩, ⟨0, 4⟩] : Contour Rat) ⟨1, 1⟩ = true := by decide

end C18
