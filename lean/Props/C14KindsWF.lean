import Lemmas.SafeFileKindsWF
import Props.C14
/-! # C14 — `WriteFileWithMode` against the kernel with node kinds

`writeFileK fs …` is the `writeFile` the driver executes, with the one decision the state makes: a run that would
otherwise commit fails in its rename when the destination is a directory.  Its system calls are applied to the file system
with node kinds (`applyActK`, which refuses what the kernel refuses). -/
namespace C14
open Safe

/-- a run onto a directory never reports success -/
theorem kinds_writefile_onto_directory_fails (fs : KFS) (tmp dst : Path) (N mode : Nat) (pieces : List Bytes) (cb : CbMode)
    (fault : Fault) (hdir : fs dst = some .dir) : (writeFileK fs tmp dst N mode pieces cb fault).1 ≠ .ok := by
  unfold writeFileK
  by_cases hok : (writeFile tmp dst N mode pieces cb fault).1 = .ok
  · rw [if_pos ⟨hdir, hok⟩]
    exact (error_returned_iff tmp dst N mode pieces cb .rename).mpr trivial
  · rw [if_neg (fun h => hok h.2)]
    exact hok

/-- **`WriteFileWithMode`, every kind of destination, every fault, every kill point**: after any prefix of its system calls
    the destination NODE is the old one (file, directory, link, absent) or a regular file with the complete new content and
    the requested mode less the umask -/
theorem kinds_writefile_old_or_new (u : Nat) (fs : KFS) (tmp dst : Path) (hne : tmp ≠ dst) (hfree : fs tmp = none)
    (N mode : Nat) (pieces : List Bytes) (cb : CbMode) (fault : Fault) (k : Nat) :
    runK u fs (((writeFileK fs tmp dst N mode pieces cb fault).2.map Act2.base).take k) dst = fs dst ∨
    runK u fs (((writeFileK fs tmp dst N mode pieces cb fault).2.map Act2.base).take k) dst =
      some (.file (newFile mode u pieces)) := by
  have hd : dst ≠ tmp := fun e => hne e.symm
  have hres : (writeFileK fs tmp dst N mode pieces cb fault).1 = .ok → fs dst ≠ some .dir :=
    fun hok hdir => kinds_writefile_onto_directory_fails fs tmp dst N mode pieces cb fault hdir hok
  unfold writeFileK at hres ⊢
  generalize (if fs dst = some Node.dir ∧ (writeFile tmp dst N mode pieces cb fault).1 = .ok then Fault.rename else fault) = fault'
    at hres ⊢
  rw [writeFile_closed] at hres ⊢
  obtain ⟨ws, tl, hacts, hws, htl, hiff, hcommit⟩ := writeFile_shape tmp dst N mode pieces fault'
  rw [hacts]
  have hpre : ∀ a ∈ ([Act.createExcl tmp mode] ++ ws).map Act2.base, dst ∉ targets2 a := by
    intro a ha
    rw [List.map_append] at ha
    rcases List.mem_append.mp ha with h | h
    · simp at h; subst h; simp [targets2, targets, hd]
    · exact onlyWrites_targets2 tmp dst hd ws hws a h
  by_cases hc : tl = [.close tmp, .rename tmp dst]
  · -- the run commits: the rename is the last call
    have hnd := hres (hiff.mpr hc)
    rw [hc, hcommit hc]
    have hsplit : ([Act.createExcl tmp mode] ++ (chunks N pieces).map (Act.write tmp) ++ [Act.close tmp, Act.rename tmp dst]).map Act2.base =
        (([Act.createExcl tmp mode] ++ (chunks N pieces).map (Act.write tmp) ++ [Act.close tmp]).map Act2.base) ++
          [Act2.base (.rename tmp dst)] := by simp
    rw [hsplit]
    have hL : ∀ a ∈ ([Act.createExcl tmp mode] ++ (chunks N pieces).map (Act.write tmp) ++ [Act.close tmp]).map Act2.base,
        dst ∉ targets2 a := by
      intro a ha
      rw [List.map_append] at ha
      rcases List.mem_append.mp ha with h | h
      · rw [hcommit hc] at hpre; exact hpre a h
      · simp at h; subst h; simp [targets2, targets]
    by_cases hk : k ≤ (([Act.createExcl tmp mode] ++ (chunks N pieces).map (Act.write tmp) ++ [Act.close tmp]).map Act2.base).length
    · left
      rw [List.take_append_of_le_length hk]
      exact runK_untouched u fs dst _ (fun a ha => hL a (List.mem_of_mem_take ha))
    · right
      rw [List.take_of_length_le (by simp at hk ⊢; omega), runK_append]
      have htmp : runK u fs (([Act.createExcl tmp mode] ++ (chunks N pieces).map (Act.write tmp) ++ [Act.close tmp]).map Act2.base) tmp =
          some (.file ⟨(chunks N pieces).flatten, lessUmask mode u⟩) := by
        rw [runK_map_append, runK_map_append]
        have h0 : runK u fs ([Act.createExcl tmp mode].map Act2.base) = fs.set tmp (some (.file ⟨[], lessUmask mode u⟩)) := by
          simp [runK, applyActK, hfree]
        rw [h0]
        have hcl : ∀ X : KFS, runK u X ([Act.close tmp].map Act2.base) = X := fun _ => rfl
        rw [hcl, tmp_contentK u tmp (chunks N pieces) _ ⟨[], lessUmask mode u⟩ (by simp [KFS.set])]
        simp
      have hdst := runK_untouched u fs dst _ hL
      simp only [runK, applyActK, htmp, hdst, hnd, if_false]
      simp [KFS.set, chunks_flatten, newFile]
  · -- no rename at all: nothing names the destination
    left
    apply runK_untouched
    intro a ha
    have ha := List.mem_of_mem_take ha
    rw [List.map_append] at ha
    rcases List.mem_append.mp ha with h | h
    · exact hpre a h
    · obtain ⟨x, hx, rfl⟩ := List.mem_map.mp h
      cases htl with
      | commit => exact absurd rfl hc
      | abort => simp at hx; rcases hx with rfl | rfl <;> simp [targets2, targets, hd]
      | closeFail => simp at hx; rcases hx with rfl | rfl <;> simp [targets2, targets, hd]
      | renameFail => simp at hx; rcases hx with rfl | rfl | rfl <;> simp [targets2, targets, hd]

/-- non-vacuity: onto a link the run commits and the link is replaced; onto a directory it fails and the directory stays -/
example : runK 0o22 (fun p => if p = 0 then some (.link 5) else none)
    ((writeFileK (fun p => if p = 0 then some (.link 5) else none) 1 0 4 0o644 [[1, 2, 3]] .propagate .none).2.map Act2.base) 0 =
    some (.file ⟨[1, 2, 3], 0o644⟩) := by decide
example : (writeFileK (fun p => if p = 0 then some .dir else none) 1 0 4 0o644 [[1, 2, 3]] .propagate .none).1 = .errno := by decide

end C14
