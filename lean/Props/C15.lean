import Lemmas.TaskQueueLive
import Lemmas.TaskQueueNew
import Lemmas.TaskQueueEnv
import Lemmas.TaskQueueGrow
import Lemmas.TaskQueueSlice
/-! # C15 — the task queue runs every submitted task exactly once before Shutdown returns

Property theorems only.  The model is the threaded program `TQW.TStep` (Model/TaskQueue.lean): submitters, the `in`
channel, the dispatcher `process()` as a thread of its own with one program-counter value per blocking point (the code as
it is now), `backlog`, the `tasks` and `ready` channels, and `workers` worker threads, each in the loop of `work()`
(idle → running t → reporting), with exception semantics for panics (a panic unwinds to the deferred `errs.Recovery` of
`runTask`; the handler call is a step of its own, under the guard `defer Recovery(nil)`; an unrecovered panic would
terminate the thread), and `Shutdown`.  `TQW.tnext`/`TQW.tenabled` are the executable form that the driver `drv_c15` runs
against the real queue on every check; `threaded_next_is_step` says they are the same relation.  The shared part of the
state (`s.q`) is simulated by the protocol `TQ.Step` of Lemmas/TaskQueue*.lean (`refines_protocol`), which is where the
dispatcher invariants are proved.

Every theorem quantifies over all configurations (`workers`, `depth : Int`, `inCap`, `handler` installed or not), all task
sets, all panic patterns and all interleavings (`TReachable v c s`).  `v : Variant` is the program: `code` is the code as
it is; `Sound v` = the recover in `runTask` is in place and the dispatcher does not run tasks (tasks may call `Submit` on
their own queue, `v.nest`); `InDomain v` = in addition tasks do not submit to their own queue — the domain of the liveness
theorems.  The `contrast_*` theorems show, with concrete schedules, that outside these classes the clauses FAIL: they
are what makes `running_le_workers`, `no_worker_dies` and the liveness theorems statements about the program and not
about the shape of the model. -/
namespace C15
open TQ TQW

/-- the executable threaded model that the driver runs and the relation the theorems are about are the same -/
theorem threaded_next_is_step (v : Variant) (c : Cfg) (s s' : TS) : TStep v c s s' ↔ ∃ l, tnext v c s l = some s' :=
  tstep_iff_tnext v c s s'

/-- every state the executable model reaches by running labels from the initial state is `TReachable` -/
theorem executable_states_reachable (v : Variant) (c : Cfg) (ls : List TLabel) (s : TS)
    (h : trunLabels v c (init c) ls = some s) : TReachable v c s :=
  treachable_trunLabels v c ls (init c) s TReachable.init h

/-- **the threads refine the protocol**: the shared part of every reachable state is a reachable state of the dispatcher
    protocol `TQ.Step`; the bookkeeping of that protocol is exactly the threads: `q.running` is (a permutation of) the
    tasks inside `task()` on some worker thread, `q.reporting` counts the threads between the end of their task and
    the completion of `ready <- true`; there are `workers` threads and the dispatcher thread executes nothing -/
theorem refines_protocol (v : Variant) (c : Cfg) (hv : Sound v) (s : TS) (h : TReachable v c s) :
    Reachable (noH c) s.q ∧ s.q.running.Perm (runningOf s.ws) ∧ s.q.reporting = cnt wmid s.ws ∧
    s.ws.length = c.workers ∧ s.dexec = none := by
  obtain ⟨hq, L⟩ := simulation v c hv.1 hv.2 s h
  exact ⟨hq, L.perm, L.rep, L.len, L.nodexec⟩

/-- **conservation** ("nor loses other tasks"): every accepted task (ids `0 … nextId−1`, in order of acceptance) is in
    exactly one of: the `in` channel, the dispatcher's hand, the backlog, the `tasks` channel, inside `task()` on a
    worker thread, finished — and nothing else is anywhere -/
theorem conservation (v : Variant) (c : Cfg) (hv : Sound v) (s : TS) (h : TReachable v c s) (id : Nat) :
    (s.q.inq ++ held s.q.pc ++ liveBacklog s.q ++ s.q.tq ++ runningOf s.ws ++ s.q.finished).count id
      = if id < s.q.nextId then 1 else 0 := by
  obtain ⟨hq, L⟩ := simulation v c hv.1 hv.2 s h
  have := TQ.conservation _ _ hq id
  simp only [places, List.count_append] at this ⊢
  rw [← L.perm.count_eq]; exact this

/-- **executed exactly once (safety half)**: no task is ever started twice or finished twice; a started task is inside
    `task()` on a worker thread or has finished; only accepted tasks are started -/
theorem exactly_once (v : Variant) (c : Cfg) (hv : Sound v) (s : TS) (h : TReachable v c s) (id : Nat) :
    s.q.started.count id ≤ 1 ∧ s.q.finished.count id ≤ 1 ∧
    s.q.started.count id = (runningOf s.ws).count id + s.q.finished.count id ∧
    (s.q.nextId ≤ id → s.q.started.count id = 0) := by
  obtain ⟨hq, L⟩ := simulation v c hv.1 hv.2 s h
  obtain ⟨h1, h2, h3⟩ := started_le_one _ _ hq id
  refine ⟨h1, h2, ?_, h3⟩
  rw [← L.perm.count_eq]; exact startedSplit _ _ hq id

/-- **at no instant are more than Workers tasks running** — derived, not guarded: a task is executed only by a worker
    thread (the dispatcher thread executes nothing: `dexec = none`), a thread executes one task at a time (its state
    holds one task), and there are exactly `workers` threads (`contrast_dispatcher_runs_exceeds_workers` shows the bound
    fail for a dispatcher that lends a hand) -/
theorem running_le_workers (v : Variant) (c : Cfg) (hv : Sound v) (s : TS) (h : TReachable v c s) :
    (executing s).length ≤ c.workers ∧ s.dexec = none ∧ s.ws.length = c.workers :=
  executing_le_workers v c hv s h

/-- the `ready` and `tasks` channels never hold more than their capacity `workers` (guard-enforced: a send on a full
    channel is not enabled; that such a blocked send never deadlocks the system is `no_deadlock`) -/
theorem ready_tokens_le_workers (v : Variant) (c : Cfg) (hv : Sound v) (s : TS) (h : TReachable v c s) :
    s.q.ready ≤ c.workers ∧ s.q.tq.length ≤ c.workers :=
  (bounds _ _ (simulation v c hv.1 hv.2 s h).1).2

/-- **the dispatcher never evaluates `backlog[0]` on an empty backlog** (the `Depth(0)` crash of the old code), and it
    is at the direct send `tasks <- task` of the bounded branch only with an empty backlog -/
theorem dispatcher_index_safe (v : Variant) (c : Cfg) (hv : Sound v) (s : TS) (h : TReachable v c s) :
    (∀ t, s.q.pc = .sb t → s.q.backlog ≠ []) ∧ (s.q.pc = .sb2 → s.q.backlog ≠ []) ∧ (∀ t, s.q.pc = .sd t → s.q.backlog = []) := by
  have hq := (simulation v c hv.1 hv.2 s h).1
  exact ⟨(indexSafe _ _ hq).1, (indexSafe _ _ hq).2, sdEmpty _ _ hq⟩

/-- the counters of the dispatcher balance: `received − processed` is exactly what is in flight -/
theorem counter_equation (v : Variant) (c : Cfg) (hv : Sound v) (s : TS) (h : TReachable v c s) :
    s.q.received = s.q.processed + s.q.ready + cnt wmid s.ws + (runningOf s.ws).length + s.q.tq.length
                  + (liveBacklog s.q).length + (held s.q.pc).length := by
  obtain ⟨hq, L⟩ := simulation v c hv.1 hv.2 s h
  have := counter _ _ hq
  unfold Counter at this
  rw [← L.rep, ← L.perm.length_eq]; exact this

/-- **FIFO, any number of workers**: the pipeline read from the workers back to the input channel is always
    `0, 1, …, nextId−1`: tasks are handed to workers in the order in which their `Submit` sends completed -/
theorem fifo (v : Variant) (c : Cfg) (hv : Sound v) (s : TS) (h : TReachable v c s) :
    s.q.started ++ (s.q.tq ++ (liveBacklog s.q ++ (held s.q.pc ++ s.q.inq))) = List.range s.q.nextId :=
  TQ.fifo _ _ (simulation v c hv.1 hv.2 s h).1

/-- **one worker: one at a time, in submission order**: at most one task runs, the start order is an initial segment of
    the acceptance order, and the tasks complete in that same order.  Ids are given in the order in which the sends
    into `in` complete, so a task whose `Submit` returned before another's began has the smaller id and runs first.
    (The forced-schedule tie prints the start and finish ORDER for one-worker queues and compares it with this.) -/
theorem fifo_single_worker (v : Variant) (c : Cfg) (hv : Sound v) (hw : c.workers = 1) (s : TS) (h : TReachable v c s) :
    (executing s).length ≤ 1 ∧ s.q.started <+: List.range s.q.nextId ∧
    s.q.started = s.q.finished.reverse ++ s.q.running := by
  obtain ⟨hq, L⟩ := simulation v c hv.1 hv.2 s h
  refine ⟨?_, started_prefix _ _ hq, serial (noH c) hw s.q hq⟩
  have := (executing_le_workers v c hv s h).1
  omega

/-- **a panicking task does not kill its worker**: no worker thread ever terminates — every panic is recovered before
    it reaches the top of the goroutine (`contrast_no_recover_worker_dies`: without the recover in `runTask` it does) -/
theorem no_worker_dies (v : Variant) (c : Cfg) (hv : Sound v) (s : TS) (h : TReachable v c s) : W.dead ∉ s.ws :=
  TQW.no_worker_dies v c hv s h

/-- … and the worker returns to its loop: a thread that is unwinding from a task's panic, calling the handler, or
    unwinding from the handler's own panic is never blocked — its next step is enabled whatever the other threads do and
    leads to `reporting` in at most three steps (unwinding → handling → reporting, unwinding → reporting without a
    handler, handling → unwindingH → reporting for a handler that panics) -/
theorem panic_always_recovered (v : Variant) (c : Cfg) (hv : v.recovers = true) (s : TS) (i t : Nat) :
    (s.ws[i]? = some (.unwinding t) → ∃ s', TStep v c s s' ∧ (s'.ws = s.ws.set i (.handling t) ∨ s'.ws = s.ws.set i .reporting)) ∧
    (s.ws[i]? = some (.handling t) → ∃ s', TStep v c s s' ∧ s'.ws = s.ws.set i .reporting ∧ s'.hcalls = t :: s.hcalls) ∧
    (s.ws[i]? = some (.unwindingH t) → ∃ s', TStep v c s s' ∧ s'.ws = s.ws.set i .reporting) :=
  recovery_never_blocks v c hv s i t

/-- **a panicking task is reported to the recovery handler exactly once** (handler installed): for every task, the
    calls made plus the calls still to come (threads unwinding from, or about to handle, that task's panic) equal 1 if
    the task panics and has ended, 0 otherwise; in particular never twice, never for a task that did not panic.
    The call is a step of its own (`handlerRet` / `handlerPanic`), separate from the end of the task. -/
theorem panic_reported_once (v : Variant) (c : Cfg) (hv : Sound v) (hh : c.handler = true) (s : TS) (h : TReachable v c s)
    (id : Nat) :
    s.hcalls.count id + cnt (wpend id) s.ws = (if id ∈ s.q.pan then s.q.finished.count id else 0) ∧
    s.hcalls.count id ≤ 1 := by
  have h1 := hcalls_inv v c hv hh s h id
  have h2 := (started_le_one _ _ (simulation v c hv.1 hv.2 s h).1 id).2.1
  refine ⟨h1, ?_⟩
  split at h1 <;> omega

/-- without a handler (`New` without the option, `RecoveryHandler(nil)`) there are no handler calls at all, and no
    thread is ever inside a handler -/
theorem no_handler_no_calls (v : Variant) (c : Cfg) (hh : c.handler = false) (s : TS) (h : TReachable v c s) :
    s.hcalls = [] ∧ cnt whandling s.ws = 0 :=
  nohandler_inv v c hh s h

/-- **no deadlock after Shutdown** (any panic pattern, handler or not, any depth; `workers ≥ 1`; tasks in the domain):
    until the dispatcher has signalled completion to `Shutdown`, some rule is enabled — a dispatcher or worker step, or
    the end of a running task (tasks are assumed to end) -/
theorem no_deadlock (v : Variant) (c : Cfg) (hv : InDomain v) (hw : 1 ≤ c.workers) (s : TS) (h : TReachable v c s)
    (hs : 1 ≤ s.q.shut) (hp : s.q.pc ≠ .fin) : ∃ l s', tnext v c s l = some s' := by
  obtain ⟨s', st⟩ := tprogress v c hv hw s h hs hp
  obtain ⟨l, hl⟩ := (tstep_iff_tnext v c s s').mp st
  exact ⟨l, s', hl⟩

/-- **Shutdown returns only after all accepted tasks have finished**: when `Shutdown` has returned (`shut = 2`) — indeed
    as soon as the dispatcher has closed `tasks` — every accepted task has finished exactly once, no thread is inside a
    task or between a task and its `ready` token, nothing is queued, and `in` is empty -/
theorem shutdown_after_all_done (v : Variant) (c : Cfg) (hv : Sound v) (s : TS) (h : TReachable v c s)
    (hp : s.q.shut = 2 ∨ s.q.pc = .ds ∨ s.q.pc = .fin) :
    (∀ id, s.q.finished.count id = if id < s.q.nextId then 1 else 0) ∧
    runningOf s.ws = [] ∧ cnt wmid s.ws = 0 ∧ s.q.tq = [] ∧ s.q.ready = 0 ∧ s.q.inq = [] := by
  obtain ⟨hq, L⟩ := simulation v c hv.1 hv.2 s h
  have hp' : s.q.pc = .ds ∨ s.q.pc = .fin := by
    rcases hp with hp | hp | hp
    · exact Or.inr ((shutInv _ _ hq).2 hp)
    · exact Or.inl hp
    · exact Or.inr hp
  obtain ⟨h1, h2, h3, h4⟩ := shutdown_complete _ _ hq hp'
  have hd := (drained _ _ hq (by rcases hp' with hp | hp <;> simp [hp])).1
  refine ⟨all_finished _ _ hq hp', ?_, ?_, h2, h4, hd⟩
  · have := L.perm; rw [h1] at this; exact List.Perm.nil_eq this |>.symm
  · rw [← L.rep]; exact h3

/-- … and every panic among them has been reported exactly once by then (handler installed) -/
theorem shutdown_after_all_reported (v : Variant) (c : Cfg) (hv : Sound v) (hh : c.handler = true) (s : TS)
    (h : TReachable v c s) (hp : s.q.shut = 2) (id : Nat) (hid : id < s.q.nextId) :
    s.hcalls.count id = if id ∈ s.q.pan then 1 else 0 := by
  obtain ⟨h1, _, h3, _⟩ := shutdown_after_all_done v c hv s h (Or.inl hp)
  have h2 := (panic_reported_once v c hv hh s h id).1
  have h4 := wpend_le_wmid id s.ws
  have h5 := h1 id
  simp only [hid, if_true] at h5
  rw [h5] at h2
  omega

/-- **nothing prevents Shutdown from returning** (liveness, no fairness assumption; any panic pattern, handler or not):
    take any reachable state in which `Shutdown` has been called and any run from it — an infinite sequence of states in
    which at every index some rule fires (chosen by an arbitrary scheduler) or nothing is enabled and the state repeats.
    Then `Shutdown` has returned after at most `mu2 s + 1` steps.  Assumptions: tasks end (the end of a running task is
    one of the rules, and a run may not stop while a rule is enabled) and do not call `Submit` on their own queue
    (`InDomain`; see `contrast_reentrant_*`). -/
theorem shutdown_returns (v : Variant) (c : Cfg) (hv : InDomain v) (hw : 1 ≤ c.workers) (s : TS) (h : TReachable v c s)
    (hs : 1 ≤ s.q.shut) (run : Nat → TS) (h0 : run 0 = s)
    (hrun : ∀ i, TStep v c (run i) (run (i + 1)) ∨ (run (i + 1) = run i ∧ ¬ ∃ s', TStep v c (run i) s')) :
    (run (mu2 s + 1)).q.shut = 2 :=
  tshutdown_returns v c hv hw s h hs run h0 hrun

/-- the variant behind `shutdown_returns`: once `Shutdown` has been called every rule strictly decreases `mu2` -/
theorem variant_decreases (v : Variant) (c : Cfg) (hv : Sound v) (s s' : TS) (h : TReachable v c s) (hs : 1 ≤ s.q.shut)
    (st : TStep v c s s') : mu2 s' < mu2 s :=
  (mu2_step v c hv s s' (simulation v c hv.1 hv.2 s h).2 hs st).1

/-- **no stall before Shutdown** ("each task accepted by Submit is executed" does not wait for `Shutdown`): in every
    reachable state in which `Shutdown` has not been called and some accepted task has not finished, a rule other than the
    completion of a new `Submit` or `Shutdown` is enabled — a dispatcher or worker step, or the end of a running task.
    (`contrast_reentrant_*`: for tasks that submit to their own queue the queue does stall with tasks pending.) -/
theorem no_stall_before_shutdown (v : Variant) (c : Cfg) (hv : InDomain v) (hw : 1 ≤ c.workers) (s : TS)
    (h : TReachable v c s) (hs : s.q.shut = 0) (id : Nat) (hid : id < s.q.nextId) (hpend : s.q.finished.count id = 0) :
    ∃ l s', tnext v c s l = some s' ∧ s'.q.nextId = s.q.nextId ∧ s'.q.shut = 0 := by
  obtain ⟨s', st, hi⟩ := tprogress0 v c hv hw s h hs ⟨id, hid, hpend⟩
  obtain ⟨l, hl⟩ := (tstep_iff_tnext v c s s').mp st
  exact ⟨l, s', hl, hi.1, by rw [hi.2]; exact hs⟩

/-- **every accepted task is executed, whether or not Shutdown is ever called** (liveness, no fairness assumption; any
    panic pattern, handler or not, any depth): take any reachable state in which `Shutdown` has not been called and any
    run of the queue left to itself from it — at every index some rule other than a new `Submit`/`Shutdown` fires
    (chosen by an arbitrary scheduler), or no such rule is enabled and the state repeats.  After at most `mu2 s + 1` steps
    every task accepted so far has finished, exactly once.  Assumptions: tasks end and do not submit to their own queue. -/
theorem accepted_tasks_run_without_shutdown (v : Variant) (c : Cfg) (hv : InDomain v) (hw : 1 ≤ c.workers) (s : TS)
    (h : TReachable v c s) (hs : s.q.shut = 0) (run : Nat → TS) (h0 : run 0 = s)
    (hrun : ∀ i, (TStep v c (run i) (run (i + 1)) ∧ (run (i + 1)).q.nextId = (run i).q.nextId ∧ (run (i + 1)).q.shut = (run i).q.shut) ∨
                 (run (i + 1) = run i ∧ ¬ ∃ s', TStep v c (run i) s' ∧ s'.q.nextId = (run i).q.nextId ∧ s'.q.shut = (run i).q.shut))
    (id : Nat) (hid : id < s.q.nextId) : (run (mu2 s + 1)).q.finished.count id = 1 :=
  taccepted_tasks_run v c hv hw s h hs run h0 hrun id hid

/-- the variant behind it: every rule other than `Submit`/`Shutdown` strictly decreases `mu2`, Shutdown called or not -/
theorem variant_decreases_internal (v : Variant) (c : Cfg) (hv : Sound v) (s s' : TS) (h : TReachable v c s)
    (st : TStep v c s s') (hi : s'.q.nextId = s.q.nextId ∧ s'.q.shut = s.q.shut) : mu2 s' < mu2 s :=
  mu2_step_internal v c hv s s' (simulation v c hv.1 hv.2 s h).2 st hi

/-! ### `New`: the configurations the queue can be made with (Model/TaskQueueNew.lean, tied by area `cfg`) -/

/-- **every queue `New` returns has at least one worker**, whatever options it is given (a `Workers` value below 1 —
    or none — gives `1 + NumCPU`): the hypothesis `1 ≤ c.workers` of the liveness theorems holds for every queue that
    exists; a `Workers(n)`, `n ≥ 1`, that is not overridden is obeyed exactly -/
theorem new_workers_pos (ncpu : Nat) (opts : List TQNew.Opt) :
    1 ≤ (TQNew.newCfg ncpu opts).workers ∧
    ((TQNew.fields opts).workers < 1 → (TQNew.newCfg ncpu opts).workers = 1 + ncpu) ∧
    (1 ≤ (TQNew.fields opts).workers → ((TQNew.newCfg ncpu opts).workers : Int) = (TQNew.fields opts).workers) :=
  ⟨TQNew.newCfg_workers_pos ncpu opts, TQNew.newCfg_default_workers ncpu opts, TQNew.newCfg_workers_obeyed ncpu opts⟩

/-- options are applied in the order given — the last `Workers` / `Depth` / `RecoveryHandler` wins — and an option writes
    only its own field -/
theorem new_applies_options_in_order (opts : List TQNew.Opt) :
    (∀ n, (TQNew.fields (opts ++ [.workers n])).workers = n ∧ (TQNew.fields (opts ++ [.workers n])).depth = (TQNew.fields opts).depth ∧
          (TQNew.fields (opts ++ [.workers n])).handler = (TQNew.fields opts).handler) ∧
    (∀ n, (TQNew.fields (opts ++ [.depth n])).depth = n ∧ (TQNew.fields (opts ++ [.depth n])).workers = (TQNew.fields opts).workers ∧
          (TQNew.fields (opts ++ [.depth n])).handler = (TQNew.fields opts).handler) ∧
    (∀ b, (TQNew.fields (opts ++ [.handler b])).handler = b ∧ (TQNew.fields (opts ++ [.handler b])).workers = (TQNew.fields opts).workers ∧
          (TQNew.fields (opts ++ [.handler b])).depth = (TQNew.fields opts).depth) := by
  obtain ⟨h1, h2, h3⟩ := TQNew.last_option_wins opts
  exact ⟨fun n => ⟨h1 n, TQNew.option_independent opts (.workers n)⟩, fun n => ⟨h2 n, TQNew.option_independent opts (.depth n)⟩,
         fun b => ⟨h3 b, TQNew.option_independent opts (.handler b)⟩⟩

/-- the defaults of `New()`: unbounded queue, no recovery handler, `1 + NumCPU` workers, `in` of capacity `2·NumCPU` -/
theorem new_defaults (ncpu : Nat) :
    TQNew.newCfg ncpu [] = { workers := 1 + ncpu, depth := -1, inCap := ncpu * 2, handler := false } :=
  TQNew.newCfg_defaults ncpu

/-- **Shutdown returns, for every queue `New` can make** (`shutdown_returns` without the hypothesis on the configuration):
    any machine, any options in any order -/
theorem shutdown_returns_for_every_new_queue (ncpu : Nat) (opts : List TQNew.Opt) (s : TS)
    (h : TReachable code (TQNew.newCfg ncpu opts) s) (hs : 1 ≤ s.q.shut) (run : Nat → TS) (h0 : run 0 = s)
    (hrun : ∀ i, TStep code (TQNew.newCfg ncpu opts) (run i) (run (i + 1)) ∨
                 (run (i + 1) = run i ∧ ¬ ∃ s', TStep code (TQNew.newCfg ncpu opts) (run i) s')) :
    (run (mu2 s + 1)).q.shut = 2 :=
  tshutdown_returns code _ code_inDomain (TQNew.newCfg_workers_pos ncpu opts) s h hs run h0 hrun

/-! ### callers outside the contract: `Submit` after, or blocked at, `Shutdown` (Model/TaskQueueEnv.lean; script lines
`late` and `shutx` of the forced area) — what the code does instead of an assumption -/

/-- **a `Submit` that meets `Shutdown` is either accepted before the close or panics in its caller** (the statement reads
    off the guards of the rules, for every state, reachable or not: it records WHAT the caller layer says the code does —
    the content is in the tie, where the `late`/`shutx`/`race` lines confront it with the real queue; a Submit is one
    atomic "send completes" event in the model, so "blocked at the close" is the same state as "not yet sent"): once
    `Shutdown` has been called (`close(q.in)` done) the rule that accepts a task is not enabled, for callers outside and for
    tasks of the queue itself; the only thing a `Submit` call can then do is the caller-side panic "send on closed
    channel" (`submitClosed`), which is enabled exactly then and changes nothing but the count of such panics: the queue
    part of the state — accepted tasks, channels, workers — is untouched.  Before `Shutdown`, `submitClosed` is not enabled. -/
theorem late_submit_panics_and_is_not_accepted (v : Variant) (c : Cfg) (e : TQE.ES) :
    (1 ≤ e.ts.q.shut → (∀ p, tnext v c e.ts (.q (.submit p)) = none) ∧ (∀ i, tnext v c e.ts (.nestedSubmit i) = none) ∧
       TQE.enext v c e .submitClosed = some { e with callerPanics := e.callerPanics + 1 }) ∧
    (e.ts.q.shut = 0 → TQE.enext v c e .submitClosed = none) := by
  refine ⟨fun hs => ⟨fun p => (TQE.no_accept_after_shutdown v c e.ts hs p).1, (TQE.no_accept_after_shutdown v c e.ts hs false).2, ?_⟩,
          fun h0 => ?_⟩
  · simp [TQE.enext, hs]
  · simp [TQE.enext, h0]

/-- every theorem above holds for histories with such callers: the queue part of every state reachable in the caller
    layer is a reachable state of the threaded model, and the executable layer the driver runs is the relation -/
theorem outside_contract_states_are_queue_states (v : Variant) (c : Cfg) (e : TQE.ES) (h : TQE.EReachable v c e) :
    TReachable v c e.ts ∧ ∀ e', (TQE.EStep v c e e' ↔ ∃ l, TQE.enext v c e l = some e') :=
  ⟨TQE.ereachable_ts v c e h, fun e' => TQE.estep_iff_enext v c e e'⟩

/-- **Shutdown returns although callers keep calling `Submit` after it**: in every run of the caller layer with at most
    `K` late `Submit` calls (each panics in its caller) `Shutdown` has returned within `mu2 + K + 1` steps; by
    `shutdown_after_all_done` every task accepted before the close has then finished exactly once.  (Without a bound on
    the late calls an unfair scheduler could run only those: `K` is the only fairness-like assumption.) -/
theorem shutdown_returns_despite_late_submits (v : Variant) (c : Cfg) (hv : InDomain v) (hw : 1 ≤ c.workers) (e : TQE.ES)
    (h : TQE.EReachable v c e) (hs : 1 ≤ e.ts.q.shut) (K : Nat) (run : Nat → TQE.ES) (h0 : run 0 = e)
    (hrun : ∀ i, TQE.EStep v c (run i) (run (i + 1)) ∨ (run (i + 1) = run i ∧ ¬ ∃ e', TQE.EStep v c (run i) e'))
    (hK : ∀ i, (run i).callerPanics ≤ e.callerPanics + K) : (run (mu2 e.ts + K + 1)).ts.q.shut = 2 :=
  TQE.eshutdown_returns v c hv hw e h hs K run h0 hrun hK

/-- **"tasks end" is needed** (the converse of `shutdown_returns`): take any run of the program from a reachable state
    (every index a step of `TStep`); if task `t` is inside `task()` at every index — it never ends — then `Shutdown` has
    returned at no index.  This is `shutdown_after_all_done` read contrapositively along the run (reachability of every
    `run i` is derived from the steps); it adds no new invariant, it states the necessity of the hypothesis. -/
theorem shutdown_waits_for_every_running_task (v : Variant) (c : Cfg) (hv : Sound v) (run : Nat → TS) (t : Nat)
    (h0 : TReachable v c (run 0)) (hrun : ∀ i, TStep v c (run i) (run (i + 1)))
    (hnever : ∀ i, t ∈ runningOf (run i).ws) : ∀ i, (run i).q.shut ≠ 2 := by
  have hreach : ∀ i, TReachable v c (run i) := by
    intro i
    induction i with
    | zero => exact h0
    | succ i ih => exact TReachable.step _ _ ih (hrun i)
  intro i h2
  have := (shutdown_after_all_done v c hv (run i) (hreach i) (Or.inl h2)).2.1
  have hm := hnever i
  rw [this] at hm
  cases hm

/-- **non-vacuity of the order theorems over backlog growth** (seeded ind6-c15-b / ind7-c15-b concern a backlog that
    reorders when it grows while partly drained): for an unbounded queue (`Depth` negative, the default) the backlog
    reaches EVERY length `N` in a reachable state of the program as it is, with all of `tasks` full and `Shutdown` not
    called; the second conjunct is `fifo` again, restated for these states.  What this does NOT say: the backlog of the
    model is a `List` (`backlog ++ [t]`, `b :: rest`), i.e. the Go slice surgery (`copy(backlog, backlog[1:])`, reslice,
    capacity hint) is abstracted to its list meaning, so a reordering inside that surgery — or inside a ring buffer that
    replaces it — is not expressible here and this theorem cannot fail for it; that part of the code is tied by the
    forced one-worker order lines and the long drain-and-regrow stress lines only (ind6-b, ind7-b, own-14 are caught
    there). -/
theorem order_holds_at_every_backlog_size (c : Cfg) (hd : c.depth < 0) (hi : 1 ≤ c.inCap) :
    (∀ N, ∃ s, TReachable code c s ∧ s.q.backlog.length = N ∧ s.q.tq.length = c.workers ∧ s.q.shut = 0) ∧
    (∀ s, TReachable code c s →
      s.q.started ++ (s.q.tq ++ (liveBacklog s.q ++ (held s.q.pc ++ s.q.inq))) = List.range s.q.nextId) :=
  ⟨backlog_reaches_any_size c hd hi, fun s h => fifo code c code_inDomain.1 s h⟩

/-! ### the backlog as the code has it: a Go slice (Lemmas/TaskQueueSlice.lean; audit finding M15-1) -/

/-- **the slice surgery of `process()` is the list surgery of the model**: let a Go slice (backing array with spare
    capacity, length) hold the backlog of a protocol state.  Then `backlog = append(backlog, task)` (in place, or into a
    grown array), the dequeue of `case <-ready` (`tasks <- backlog[0]; copy(backlog, backlog[1:]); backlog[len-1] = nil;
    backlog = backlog[:len-1]`) and the bounded branch (`…; backlog[len-1] = task`) leave a slice that holds the backlog of
    the successor state of the rule `toBacklog` / `sendBacklog2` / `sendBacklog` of `TQ.next`, and hand to `tasks` exactly
    the task the rule appends to `tq`.  So the order theorems (`fifo`, `fifo_single_worker`), proved about lists, hold of
    the array the code manipulates, for every history of growth and drain.  (Not tied by a stream of its own: the slice is
    private to the dispatcher goroutine; the forced one-worker order lines observe its effect.) -/
theorem backlog_slice_refines_model (c : Cfg) (s s' : S) (sl : TQSlice.Slice) (grow : Nat) (h : TQSlice.Holds sl s.backlog) :
    (next c s .toBacklog = some s' → ∀ t, s.pc = .got t → TQSlice.Holds (TQSlice.push sl t grow) s'.backlog) ∧
    (next c s .sendBacklog2 = some s' →
      TQSlice.Holds (TQSlice.popFront sl).2 s'.backlog ∧ ∃ b, (TQSlice.popFront sl).1 = some b ∧ s'.tq = s.tq ++ [b]) ∧
    (next c s .sendBacklog = some s' → ∀ t, s.pc = .sb t →
      TQSlice.Holds (TQSlice.rotate sl t).2 s'.backlog ∧ ∃ b, (TQSlice.rotate sl t).1 = some b ∧ s'.tq = s.tq ++ [b]) :=
  TQSlice.slice_refines_rules c s s' sl grow h

/-- CONTRAST (seeded ind6-c15-b / ind7-c15-b): a ring buffer in place of the slice, whose `grow` copies `slots[:head]`
    before `slots[head:]`.  Backlog 0–3 in a ring of four, 0 and 1 handed off (the head moves), 4 and 5 wrap around, 6 forces
    the growth: with the correct `grow` the tasks leave in submission order, with the rotated one 4 and 5 overtake 2 and 3 —
    the refinement above fails for that structure, and with one worker so does the order clause -/
theorem contrast_rotated_ring_grow_breaks_order :
    let r0 : TQSlice.Ring := { slots := List.replicate 4 none, head := 0, count := 0 }
    let drained := ((TQSlice.pushAll r0 [0, 1, 2, 3] false).pop.2).pop.2
    (TQSlice.pushAll drained [4, 5, 6] false).view = [2, 3, 4, 5, 6] ∧
    (TQSlice.pushAll drained [4, 5, 6] true).view = [4, 5, 2, 3, 6] :=
  TQSlice.contrast_rotated_grow_breaks_order

/-- non-vacuity of `backlog_slice_refines_model`: a slice with two spare slots holding the backlog `[7, 8]` -/
example : TQSlice.Holds { arr := [some 7, some 8, none, none], len := 2 } [7, 8] := ⟨[none, none], rfl, rfl⟩

/-- the code as it is lies in both classes -/
theorem code_is_in_domain : InDomain code ∧ Sound code := ⟨code_inDomain, code_inDomain.1⟩

/-! ### contrast: programs outside the classes, with concrete schedules -/

/-- WITHOUT the recover in `runTask` (seeded own-c15-3, ind2-c15-a) a panicking task kills its worker: the thread is
    `dead`; after `Shutdown` nothing is enabled any more, an accepted task is still queued and `Shutdown` never returns -/
theorem contrast_no_recover_worker_dies :
    let c : Cfg := { workers := 1, depth := -1, inCap := 2 }
    let v : Variant := { recovers := false }
    (trunLabels v c (init c)
      [.q (.submit true), .q .recv, .q .handoff, .take 0, .panic 0, .die 0, .q (.submit false), .q .shutdown, .q .recv,
       .q .handoff, .q .closed, .q .drainDone]).map (fun s => (s.ws, tenabled v c s, s.q.shut, s.q.tq))
      = some ([W.dead], [], 1, [1]) := by
  decide

/-- WITH a dispatcher that runs a backlog task itself while draining when `tasks` is full (seeded ind4-c15-a) the bound
    fails: two workers, three tasks executing at the same instant -/
theorem contrast_dispatcher_runs_exceeds_workers :
    let c : Cfg := { workers := 2, depth := -1, inCap := 5 }
    let v : Variant := { dispatcherRuns := true }
    (trunLabels v c (init c)
      [.q (.submit false), .q (.submit false), .q (.submit false), .q (.submit false), .q (.submit false),
       .q .recv, .q .handoff, .take 0, .q .recv, .q .handoff, .take 1, .q .recv, .q .handoff, .q .recv, .q .handoff,
       .q .recv, .q .toBacklog, .q .shutdown, .q .closed, .dispStart]).map (fun s => (executing s, c.workers))
      = some ([0, 1, 4], 2) := by
  decide

/-- a task that calls `Submit` on its own BOUNDED queue can deadlock it (one worker, `Depth(0)`, `in` capacity 1, task 0
    makes 4 submissions): after three of them `tasks`, the dispatcher's hand and `in` are full, the dispatcher waits for a
    completion, the only worker is inside the task that waits for room: nothing but `Shutdown` is enabled, and after
    `Shutdown` nothing at all — it never returns and tasks 1–3 are never run.  (Real code: Workers(1), Depth(d ≥ 0), one
    task submitting 2·NumCPU + 3 + d tasks blocks for ever in the last Submit.) -/
theorem contrast_reentrant_bounded_deadlock :
    let c : Cfg := { workers := 1, depth := 0, inCap := 1 }
    let v : Variant := { nest := fun t => if t = 0 then 4 else 0 }
    let sched : List TLabel := [.q (.submit false), .q .recv, .q .handoff, .take 0, .nestedSubmit 0, .q .recv, .q .handoff,
       .nestedSubmit 0, .q .recv, .q .toWait, .nestedSubmit 0]
    (trunLabels v c (init c) sched).map (fun s => (tenabled v c s, s.q.nextId, s.q.started)) = some ([.q .shutdown], 4, [0]) ∧
    (trunLabels v c (init c) (sched ++ [.q .shutdown])).map (fun s => (tenabled v c s, s.q.shut)) = some ([], 1) := by
  decide

/-- … and, with a second submitter, even an UNBOUNDED queue (one worker, `in` capacity 1): the dispatcher has taken a
    completion and is blocked on the full `tasks` channel, the worker is inside task 1, which is blocked in `Submit` on
    the full `in` channel -/
theorem contrast_reentrant_unbounded_deadlock :
    let c : Cfg := { workers := 1, depth := -1, inCap := 1 }
    let v : Variant := { nest := fun t => if t = 1 then 1 else 0 }
    (trunLabels v c (init c)
      [.q (.submit false), .q .recv, .q .handoff, .take 0, .q (.submit false), .q .recv, .q .handoff, .ret 0, .report 0,
       .take 0, .q (.submit false), .q .recv, .q .handoff, .q (.submit false), .q .recv, .q .toBacklog,
       .q .selReadyBacklog, .q (.submit false)]).map (fun s => (s.ws, tenabled v c s, s.q.pc, s.q.tq, s.q.inq))
      = some ([W.running 1 1], [.q .shutdown], .sb2, [2], [4]) := by
  decide

/-! ### non-vacuity: concrete runs of the code -/

/-- one worker, `Depth(0)`, three tasks (the second panics, handler installed), the schedule that crashed the old
    dispatcher; the run ends with Shutdown returned, all three tasks finished in order, the panic reported once and the
    worker idle -/
example :
    let c : Cfg := { workers := 1, depth := 0, inCap := 2 }
    (trunLabels code c (init c)
      [.q (.submit false), .q .recv, .q .handoff, .take 0, .q (.submit true), .q .recv, .q .handoff, .q (.submit false),
       .q .recv, .q .toWait, .ret 0, .report 0, .q .waitReady, .take 0, .q .sendDirect, .q .shutdown, .q .closed,
       .q .drainDone, .panic 0, .recoverH 0, .handlerRet 0, .report 0, .take 0, .q .finalReady, .ret 0, .report 0,
       .q .finalReady, .q .finalClose, .q .signalDone]).map
      (fun s => (s.q.shut, s.q.finished, s.hcalls, s.q.started, s.ws)) = some (2, [2, 1, 0], [1], [0, 1, 2], [W.idle]) := by
  decide

/-- the hypotheses of `no_deadlock` are satisfiable: after `Shutdown` with a task still queued -/
example : ∃ s, TReachable code { workers := 1, depth := 1, inCap := 1 } s ∧ 1 ≤ s.q.shut ∧ s.q.pc ≠ .fin :=
  ⟨_, executable_states_reachable code { workers := 1, depth := 1, inCap := 1 } [.q (.submit false), .q .shutdown] _ rfl,
   by decide, by decide⟩

/-- the hypotheses of `no_stall_before_shutdown` are satisfiable: two tasks accepted, none finished, no Shutdown -/
example : ∃ s, TReachable code { workers := 1, depth := 0, inCap := 2 } s ∧ s.q.shut = 0 ∧ 1 < s.q.nextId ∧
    s.q.finished.count 1 = 0 :=
  ⟨_, executable_states_reachable code { workers := 1, depth := 0, inCap := 2 } [.q (.submit false), .q (.submit true)] _ rfl,
   by decide, by decide, by decide⟩

/-- non-vacuity of the caller layer: one worker, `Depth(0)`, `in` of capacity 1 — three tasks accepted, `Shutdown` closes
    `in` while a fourth `Submit` would be blocked; that call and a later one panic in their callers (2), the three accepted
    tasks run, `Shutdown` returns -/
example :
    let c : Cfg := { workers := 1, depth := 0, inCap := 1 }
    (TQE.erunLabels code c { ts := init c }
      [.inner (.q (.submit false)), .inner (.q .recv), .inner (.q .handoff), .inner (.take 0), .inner (.q (.submit false)),
       .inner (.q .recv), .inner (.q .handoff), .inner (.q (.submit false)), .inner (.q .shutdown), .submitClosed, .submitClosed,
       .inner (.q .recv), .inner (.q .toWait), .inner (.ret 0), .inner (.report 0), .inner (.q .waitReady), .inner (.take 0),
       .inner (.q .sendDirect), .inner (.q .closed), .inner (.q .drainDone), .inner (.ret 0), .inner (.report 0), .inner (.take 0),
       .inner (.q .finalReady), .inner (.ret 0), .inner (.report 0), .inner (.q .finalReady), .inner (.q .finalClose),
       .inner (.q .signalDone)]).map
      (fun e => (e.ts.q.shut, e.ts.q.finished, e.callerPanics, e.ts.q.nextId)) = some (2, [2, 1, 0], 2, 3) := by
  decide

/-- non-vacuity of `shutdown_waits_for_every_running_task`: a reachable state with `Shutdown` waiting and task 0 running,
    in which nothing but the end of that task is enabled -/
example :
    let c : Cfg := { workers := 1, depth := -1, inCap := 1 }
    (trunLabels code c (init c)
      [.q (.submit false), .q .recv, .q .handoff, .take 0, .q .shutdown, .q .closed, .q .drainDone]).map
      (fun s => (s.q.shut, runningOf s.ws, tenabled code c s)) = some (1, [0], [.ret 0]) := by
  decide

end C15
