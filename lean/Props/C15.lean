import Lemmas.TaskQueue3
/-! # C15 — the task queue runs every submitted task exactly once before Shutdown returns

Property theorems only.  The protocol model is `TQ.Step` (Model/TaskQueue.lean): submitters, the `in` channel, the
dispatcher `process()` with one program-counter value per blocking point (the code as it is now, i.e. with the
`len(backlog) == 0` test in the bounded branch), `backlog`, the `tasks` and `ready` channels, the workers, the recovery
handler, `Shutdown`.  `TQ.next`/`TQ.enabled` are the executable form that the driver `drv_c15` runs against the real
queue on every check; `next_is_step` says that they are the same relation.

Every theorem quantifies over all configurations (`workers`, `depth : Int`, `inCap`, and `handler`: a recovery handler
is installed or not — `New` without the `RecoveryHandler` option and `RecoveryHandler(nil)` are `handler = false`), all
task sets, all panic patterns and all interleavings: `Reachable c s` is "s is reachable from the initial state by any sequence of rules".
Helper lemmas are in `Lemmas/TaskQueue.lean` and `Lemmas/TaskQueue2.lean`. -/
namespace C15
open TQ

/-- the executable model that the driver runs and the relation the theorems are about are the same: a step of
    `Step` is exactly the firing of an enabled label of `next` -/
theorem next_is_step (c : Cfg) (s s' : S) : Step c s s' ↔ ∃ l, l ∈ enabled c s ∧ next c s l = some s' :=
  step_iff_next c s s'

/-- every state the executable model reaches by running labels from the initial state is `Reachable`, so all the
    theorems below apply to every state the driver visits -/
theorem executable_states_reachable (c : Cfg) (ls : List Label) (s : S) (h : runLabels c {} ls = some s) :
    Reachable c s :=
  reachable_runLabels c ls {} s Reachable.init h

/-- **conservation** ("nor loses other tasks"): every accepted task (ids `0 … nextId−1`, in order of acceptance) is in
    exactly one of: the `in` channel, the dispatcher's hand, the backlog, the `tasks` channel, running, finished —
    and nothing else is anywhere -/
theorem conservation (c : Cfg) (s : S) (h : Reachable c s) (id : Nat) :
    (s.inq ++ held s.pc ++ liveBacklog s ++ s.tq ++ s.running ++ s.finished).count id = if id < s.nextId then 1 else 0 :=
  TQ.conservation c s h id

/-- **executed exactly once (safety half)**: no task is ever started twice or finished twice; started = running or
    finished; only accepted tasks are started -/
theorem exactly_once (c : Cfg) (s : S) (h : Reachable c s) (id : Nat) :
    s.started.count id ≤ 1 ∧ s.finished.count id ≤ 1 ∧
    s.started.count id = s.running.count id + s.finished.count id ∧ (s.nextId ≤ id → s.started.count id = 0) := by
  obtain ⟨h1, h2, h3⟩ := started_le_one c s h id
  exact ⟨h1, h2, startedSplit c s h id, h3⟩

/-- **at no instant are more than Workers tasks running** (workers that are running a task or are about to send their
    `ready` token never exceed the pool) -/
theorem running_le_workers (c : Cfg) (s : S) (h : Reachable c s) : s.running.length + s.reporting ≤ c.workers :=
  (bounds c s h).1

/-- the `ready` and `tasks` channels never hold more than their capacity `workers` (so the model's sends respect the
    channel bounds; a worker's `ready <- true` may block, which is why deadlock-freedom is proved separately) -/
theorem ready_tokens_le_workers (c : Cfg) (s : S) (h : Reachable c s) : s.ready ≤ c.workers ∧ s.tq.length ≤ c.workers :=
  (bounds c s h).2

/-- **the dispatcher never evaluates `backlog[0]` on an empty backlog** (the `Depth(0)` crash of the old code), and it
    is at the direct send `tasks <- task` of the bounded branch only with an empty backlog -/
theorem dispatcher_index_safe (c : Cfg) (s : S) (h : Reachable c s) :
    (∀ t, s.pc = .sb t → s.backlog ≠ []) ∧ (s.pc = .sb2 → s.backlog ≠ []) ∧ (∀ t, s.pc = .sd t → s.backlog = []) :=
  ⟨(indexSafe c s h).1, (indexSafe c s h).2, sdEmpty c s h⟩

/-- the counters of the dispatcher balance: `received − processed` is exactly what is in flight -/
theorem counter_equation (c : Cfg) (s : S) (h : Reachable c s) :
    s.received = s.processed + s.ready + s.reporting + s.running.length + s.tq.length
                  + (liveBacklog s).length + (held s.pc).length :=
  counter c s h

/-- **FIFO, any number of workers**: the pipeline read from the workers back to the input channel is always
    `0, 1, …, nextId−1`: tasks are handed to workers in the order in which their `Submit` sends completed -/
theorem fifo (c : Cfg) (s : S) (h : Reachable c s) :
    s.started ++ (s.tq ++ (liveBacklog s ++ (held s.pc ++ s.inq))) = List.range s.nextId :=
  TQ.fifo c s h

/-- **one worker: one at a time, in submission order**: at most one task runs, the start order is an initial segment of
    the acceptance order, and the tasks complete in that same order (start order = finish order + the running task).
    Ids are given in the order in which the sends into `in` complete, so a task whose `Submit` returned before
    another's began has the smaller id and, by this theorem, runs (and ends) first. -/
theorem fifo_single_worker (c : Cfg) (hw : c.workers = 1) (s : S) (h : Reachable c s) :
    s.running.length ≤ 1 ∧ s.started <+: List.range s.nextId ∧ s.started = s.finished.reverse ++ s.running := by
  refine ⟨?_, started_prefix c s h, serial c hw s h⟩
  have := (bounds c s h).1
  omega

/-- **a panicking task is reported to the recovery handler exactly once**: if a handler is installed it has been called
    once for every panicking task that has finished, never for any other task, never twice; without a handler there
    are no calls -/
theorem panic_reported_once (c : Cfg) (s : S) (h : Reachable c s) (id : Nat) :
    s.recovered.count id = (if c.handler = true ∧ id ∈ s.pan then s.finished.count id else 0) ∧
    s.recovered.count id ≤ 1 := by
  have h1 := recovered_inv c s h id
  have h2 := (started_le_one c s h id).2.1
  refine ⟨h1, ?_⟩
  rw [h1]; split
  · exact h2
  · omega

/-- **a panicking task does not kill its worker — with or without a recovery handler**: when a task ends, by returning
    or by panicking, its worker is still there (it moves from `running` to `reporting`, the number of idle workers
    `workers − running − reporting` is unchanged) and nothing else changes, whatever `c.handler` is; the only effect of
    the handler is the record of its call -/
theorem panic_worker_survives (c : Cfg) (s : S) (t : Nat) (ht : t ∈ s.running) :
    Step c s (doFinish c.handler s t) ∧
    (doFinish c.handler s t).running.length + (doFinish c.handler s t).reporting = s.running.length + s.reporting ∧
    (doFinish c.handler s t).recovered = (if c.handler = true ∧ t ∈ s.pan then t :: s.recovered else s.recovered) ∧
    (doFinish c.handler s t).tq = s.tq ∧ (doFinish c.handler s t).backlog = s.backlog ∧
    (doFinish c.handler s t).inq = s.inq ∧ (doFinish c.handler s t).pc = s.pc ∧
    eraseRecovered (doFinish c.handler s t) = eraseRecovered (doFinish (!c.handler) s t) := by
  refine ⟨Step.finish s t ht, ?_, rfl, rfl, rfl, rfl, rfl, rfl⟩
  have := List.length_erase_of_mem ht
  have hpos : 0 < s.running.length := List.length_pos_of_mem ht
  simp only [this]; omega

/-- **the handler configuration is irrelevant to everything but the handler calls**: the executable model with a handler
    and without one takes the same steps to the same states up to the field `recovered`.  (All the other theorems of
    this file — in particular `conservation`, `exactly_once`, `no_deadlock`, `shutdown_after_all_done`,
    `shutdown_returns` — are stated for every `c`, hence for both values of `c.handler`.) -/
theorem handler_irrelevant (c : Cfg) (b : Bool) (s : S) (l : Label) :
    (next { c with handler := b } s l).map eraseRecovered = (next c s l).map eraseRecovered :=
  handler_only_affects_recovered c b s l

/-- without a handler (`New` without the option, `RecoveryHandler(nil)`) there are no handler calls at all -/
theorem no_handler_no_calls (c : Cfg) (hh : c.handler = false) (s : S) (h : Reachable c s) : s.recovered = [] :=
  recovered_nil_of_no_handler c hh s h

/-- **no deadlock after Shutdown** (whatever panics, whatever the depth; `workers ≥ 1`): until the dispatcher has
    signalled completion to `Shutdown`, some rule is enabled — a dispatcher or worker step, or the end of a running task
    (tasks are assumed to end) -/
theorem no_deadlock (c : Cfg) (hw : 1 ≤ c.workers) (s : S) (h : Reachable c s) (hs : 1 ≤ s.shut) (hp : s.pc ≠ .fin) :
    ∃ l, l ∈ enabled c s ∧ (next c s l).isSome = true := by
  obtain ⟨s', hs'⟩ := progress c hw s h hs hp
  obtain ⟨l, hl, hn⟩ := (step_iff_next c s s').mp hs'
  exact ⟨l, hl, by simp [hn]⟩

/-- **Shutdown returns only after all accepted tasks have finished**: when `Shutdown` has returned (`shut = 2`) — indeed
    as soon as the dispatcher has closed `tasks` — every accepted task has finished exactly once, nothing is queued,
    running or unreported, and `in` is empty -/
theorem shutdown_after_all_done (c : Cfg) (s : S) (h : Reachable c s) (hp : s.shut = 2 ∨ s.pc = .ds ∨ s.pc = .fin) :
    (∀ id, s.finished.count id = if id < s.nextId then 1 else 0) ∧
    s.running = [] ∧ s.tq = [] ∧ s.reporting = 0 ∧ s.ready = 0 ∧ s.inq = [] := by
  have hp' : s.pc = .ds ∨ s.pc = .fin := by
    rcases hp with hp | hp | hp
    · exact Or.inr ((shutInv c s h).2 hp)
    · exact Or.inl hp
    · exact Or.inr hp
  obtain ⟨h1, h2, h3, h4⟩ := shutdown_complete c s h hp'
  have hd := (drained c s h (by rcases hp' with hp | hp <;> simp [hp])).1
  exact ⟨all_finished c s h hp', h1, h2, h3, h4, hd⟩

/-- … and every panic among them has been reported exactly once by then -/
theorem shutdown_after_all_reported (c : Cfg) (s : S) (h : Reachable c s) (hp : s.shut = 2) (id : Nat)
    (hid : id < s.nextId) : s.recovered.count id = if c.handler = true ∧ id ∈ s.pan then 1 else 0 := by
  have h1 := (shutdown_after_all_done c s h (Or.inl hp)).1 id
  have h2 := recovered_inv c s h id
  simp only [hid, if_true] at h1
  rw [h2, h1]

/-- **nothing prevents Shutdown from returning** (liveness, no fairness assumption; any panic pattern, handler installed
    or not — `c` is arbitrary): take any reachable state in which
    `Shutdown` has been called and any run from it — an infinite sequence of states in which at every index some rule
    fires (a dispatcher, worker or end-of-task step, chosen by an arbitrary scheduler) or nothing is enabled and the
    state repeats.  Then `Shutdown` has returned after at most `mu s + 1` steps, where the variant `mu` weighs every
    task and token by its distance from the end of the pipeline.  ("Tasks are assumed to end" is the only assumption:
    the end of a running task is one of the rules, and a run may not stop while a rule is enabled.) -/
theorem shutdown_returns (c : Cfg) (hw : 1 ≤ c.workers) (s : S) (h : Reachable c s) (hs : 1 ≤ s.shut)
    (run : Nat → S) (h0 : run 0 = s)
    (hrun : ∀ i, Step c (run i) (run (i + 1)) ∨ (run (i + 1) = run i ∧ ¬ ∃ s', Step c (run i) s')) :
    (run (mu s + 1)).shut = 2 :=
  TQ.shutdown_returns c hw s h hs run h0 hrun

/-- the variant behind `shutdown_returns`: once `Shutdown` has been called every rule strictly decreases `mu` -/
theorem variant_decreases (c : Cfg) (s s' : S) (hs : 1 ≤ s.shut) (st : Step c s s') : mu s' < mu s :=
  (mu_step c s s' hs st).1

/-! ### non-vacuity: concrete runs of the executable model -/

/-- one worker, `Depth(0)`, three tasks (the second panics), the schedule that crashed the old dispatcher:
    the third task is received while the worker is busy and `tasks` is full, so the dispatcher waits in the bounded
    branch with an empty backlog, and the first task then finishes.  The run ends with Shutdown returned, all three
    tasks finished in order and the panic reported. -/
example :
    (runLabels { workers := 1, depth := 0, inCap := 2 } {}
      [.submit false, .recv, .handoff, .take, .submit true, .recv, .handoff, .submit false, .recv, .toWait,
       .finish 0, .report, .waitReady, .take, .sendDirect, .shutdown, .closed, .drainDone, .finish 1, .report, .take,
       .finalReady, .finish 2, .report, .finalReady, .finalClose, .signalDone]).map
      (fun s => (s.shut, s.finished, s.recovered, s.started)) = some (2, [2, 1, 0], [1], [0, 1, 2]) := by
  decide

/-- the same run on a queue without recovery handler: identical, except that no handler call is recorded -/
example :
    (runLabels { workers := 1, depth := 0, inCap := 2, handler := false } {}
      [.submit false, .recv, .handoff, .take, .submit true, .recv, .handoff, .submit false, .recv, .toWait,
       .finish 0, .report, .waitReady, .take, .sendDirect, .shutdown, .closed, .drainDone, .finish 1, .report, .take,
       .finalReady, .finish 2, .report, .finalReady, .finalClose, .signalDone]).map
      (fun s => (s.shut, s.finished, s.recovered, s.started)) = some (2, [2, 1, 0], [], [0, 1, 2]) := by
  decide

/-- the hypotheses of `no_deadlock` are satisfiable: after `Shutdown` with a task still queued -/
example : ∃ s, Reachable { workers := 1, depth := 1, inCap := 1 } s ∧ 1 ≤ s.shut ∧ s.pc ≠ .fin :=
  ⟨_, executable_states_reachable { workers := 1, depth := 1, inCap := 1 } [.submit false, .shutdown] _ rfl,
   by decide, by decide⟩

end C15
