/-! # GoSem.F64 — IEEE-754 binary64 as data, exact rational semantics (core Lean only, executable)

A `float64` is `nan | inf sign | fin sign mantissa exponent` (value `(-1)^sign · m · 2^e`), decoded from the 64-bit
pattern.  Every arithmetic operation computes the exact rational result as a pair numerator/denominator of naturals and
rounds it once with `roundRatN` (nearest, ties to even, 53 bits, gradual underflow, overflow to infinity).
The check of C02 validates `add sub mul div mod ofU64 toU64 toI64 le lt eq` against the hardware bit for bit
(`f64op …` lines).

Conversions float → integer outside the target range are *implementation-defined* in Go; they are modelled by the
explicit outcome `Cv.implDefined`, never by a number. -/
namespace GoSem

inductive F64 where
  | nan
  | inf (neg : Bool)
  | fin (neg : Bool) (m : Nat) (e : Int)   -- value = (-1)^neg * m * 2^e ; canonical: m < 2^53, -1074 ≤ e ≤ 971, m ≥ 2^52 ∨ e = -1074
deriving Repr, DecidableEq

/-- outcome of a float → integer conversion -/
inductive Cv (α : Type) where
  | ok (v : α)
  | implDefined
deriving Repr, DecidableEq

namespace F64

/-- decode on the natural number of the bit pattern -/
def decode (n : Nat) : F64 :=
  let neg := n / 2^63 == 1
  let ex := (n / 2^52) % 2048
  let fr := n % 2^52
  if ex == 2047 then (if fr == 0 then .inf neg else .nan)
  else if ex == 0 then .fin neg fr (-1074)
  else .fin neg (fr + 2^52) (Int.ofNat ex - 1075)

/-! ## rounding an exact quotient -/

/-- quotient, remainder and divisor of `a/d` at the candidate exponent `e` (`a/d = q·2^e + r/dv·2^e`) -/
def mk (a d : Nat) (e : Int) : Nat × Nat × Nat :=
  if e ≥ 0 then (a / (d * 2^e.toNat), a % (d * 2^e.toNat), d * 2^e.toNat)
  else (a * 2^(-e).toNat / d, a * 2^(-e).toNat % d, d)

def signBit (neg : Bool) : Nat := if neg then 2^63 else 0
def encodeNormal (neg : Bool) (m : Nat) (e : Int) : Nat := signBit neg + (e + 1075).toNat * 2^52 + (m - 2^52)

/-- exponent at which the quotient has 53 bits (clamped at the subnormal exponent) -/
def chooseE (a d : Nat) : Int :=
  let e0 := (a.log2 : Int) - d.log2 - 52
  let e1 := if (mk a d e0).1 ≥ 2^53 then e0 + 1 else if (mk a d e0).1 < 2^52 then e0 - 1 else e0
  if e1 < -1074 then -1074 else e1

/-- nearest, ties to even -/
def roundQ (q r dv : Nat) : Nat :=
  if 2 * r > dv then q + 1 else if 2 * r == dv then (if q % 2 == 1 then q + 1 else q) else q

def finish (neg : Bool) (q' : Nat) (e : Int) : Nat :=
  let q'' := if q' ≥ 2^53 then q' / 2 else q'
  let e' := if q' ≥ 2^53 then e + 1 else e
  if e' + 52 > 1023 then signBit neg + 2047 * 2^52
  else if q'' < 2^52 then signBit neg + q''
  else encodeNormal neg q'' e'

/-- round `a/d` (`d > 0`) to nearest-even binary64; the bit pattern as a natural number -/
def roundRatN (neg : Bool) (a d : Nat) : Nat :=
  if a == 0 then signBit neg
  else
    let e := chooseE a d
    let t := mk a d e
    finish neg (roundQ t.1 t.2.1 t.2.2) e

/-- the float nearest to `(-1)^neg · a/d` -/
def ofRat (neg : Bool) (a d : Nat) : F64 := decode (roundRatN neg a d)

/-! ## encoding -/

def nanBits : Nat := 2047 * 2^52 + 2^51

/-- bit pattern of a canonical value (any NaN is rendered as the quiet NaN `7ff8000000000000`) -/
def toBits : F64 → Nat
  | .nan => nanBits
  | .inf neg => signBit neg + 2047 * 2^52
  | .fin neg m e => if m < 2^52 then signBit neg + m else encodeNormal neg m e

/-! ## exact value -/

/-- numerator of the magnitude over the denominator `den` -/
def num (m : Nat) (e : Int) : Nat := if e ≥ 0 then m * 2^e.toNat else m
def den (e : Int) : Nat := if e ≥ 0 then 1 else 2^(-e).toNat

def zero : F64 := .fin false 0 (-1074)
def negZero : F64 := .fin true 0 (-1074)

def isNaN : F64 → Bool | .nan => true | _ => false

def neg : F64 → F64
  | .nan => .nan
  | .inf s => .inf (!s)
  | .fin s m e => .fin (!s) m e

def abs : F64 → F64
  | .nan => .nan
  | .inf _ => .inf false
  | .fin _ m e => .fin false m e

/-- signed numerator when both operands are brought to the common exponent `min e1 e2` -/
def scaled (s : Bool) (m : Nat) (e emin : Int) : Int :=
  let v : Int := (m * 2^(e - emin).toNat : Nat)
  if s then -v else v

/-- three-way comparison of the values; `none` when a NaN is involved (every ordered comparison is then false) -/
def cmp : F64 → F64 → Option Ordering
  | .nan, _ => none
  | _, .nan => none
  | .inf a, .inf b => some (if a == b then .eq else if a then .lt else .gt)
  | .inf a, .fin .. => some (if a then .lt else .gt)
  | .fin .., .inf b => some (if b then .gt else .lt)
  | .fin s1 m1 e1, .fin s2 m2 e2 =>
    let emin := if e1 ≤ e2 then e1 else e2
    let a := scaled s1 m1 e1 emin
    let b := scaled s2 m2 e2 emin
    some (if a < b then .lt else if a = b then .eq else .gt)

def le (x y : F64) : Bool := match cmp x y with | some .lt => true | some .eq => true | _ => false
def lt (x y : F64) : Bool := match cmp x y with | some .lt => true | _ => false
def ge (x y : F64) : Bool := le y x
def gt (x y : F64) : Bool := lt y x
def eq (x y : F64) : Bool := match cmp x y with | some .eq => true | _ => false
/-- Go's `x != y` (true when a NaN is involved) -/
def ne (x y : F64) : Bool := !(eq x y)

/-! ## arithmetic -/

/-- round the signed exact quotient `n/d`; an exact zero gets the sign `zneg` -/
def ofSigned (n : Int) (d : Nat) (zneg : Bool) : F64 :=
  if n == 0 then .fin zneg 0 (-1074) else ofRat (n < 0) n.natAbs d

def sInt (s : Bool) (v : Nat) : Int := if s then -(v : Int) else v

def add : F64 → F64 → F64
  | .nan, _ => .nan
  | _, .nan => .nan
  | .inf a, .inf b => if a == b then .inf a else .nan
  | .inf a, .fin .. => .inf a
  | .fin .., .inf b => .inf b
  | .fin s1 m1 e1, .fin s2 m2 e2 =>
    -- an exact zero sum is +0 in round-to-nearest unless both operands are negative (then both are -0)
    ofSigned (sInt s1 (num m1 e1) * den e2 + sInt s2 (num m2 e2) * den e1) (den e1 * den e2) (s1 && s2)

def sub (x y : F64) : F64 := add x (neg y)

def mul : F64 → F64 → F64
  | .nan, _ => .nan
  | _, .nan => .nan
  | .inf a, .inf b => .inf (a != b)
  | .inf a, .fin s m _ => if m == 0 then .nan else .inf (a != s)
  | .fin s m _, .inf b => if m == 0 then .nan else .inf (s != b)
  | .fin s1 m1 e1, .fin s2 m2 e2 =>
    if m1 == 0 || m2 == 0 then .fin (s1 != s2) 0 (-1074)
    else ofRat (s1 != s2) (num m1 e1 * num m2 e2) (den e1 * den e2)

def div : F64 → F64 → F64
  | .nan, _ => .nan
  | _, .nan => .nan
  | .inf _, .inf _ => .nan
  | .inf a, .fin s _ _ => .inf (a != s)
  | .fin s _ _, .inf b => .fin (s != b) 0 (-1074)
  | .fin s1 m1 e1, .fin s2 m2 e2 =>
    if m2 == 0 then (if m1 == 0 then .nan else .inf (s1 != s2))
    else if m1 == 0 then .fin (s1 != s2) 0 (-1074)
    else ofRat (s1 != s2) (num m1 e1 * den e2) (den e1 * num m2 e2)

/-- `math.Mod(x, y)`: the result has the sign of `x` and magnitude `|x| mod |y|`, which is always representable -/
def mod : F64 → F64 → F64
  | .nan, _ => .nan
  | _, .nan => .nan
  | .inf _, _ => .nan
  | .fin s m e, .inf _ => .fin s m e
  | .fin s1 m1 e1, .fin _ m2 e2 =>
    if m2 == 0 then .nan
    else
      let r := (num m1 e1 * den e2) % (num m2 e2 * den e1)
      if r == 0 then .fin s1 0 (-1074) else ofRat s1 r (den e1 * den e2)

/-- `float64(u)` for an unsigned integer (exact natural number rounded once) -/
def ofNat (u : Nat) : F64 := ofRat false u 1
/-- `float64(i)` for a signed integer -/
def ofInt (i : Int) : F64 := if i == 0 then zero else ofRat (i < 0) i.natAbs 1

/-- truncation toward zero of a finite value -/
def truncInt : F64 → Int
  | .fin s m e => sInt s (if e ≥ 0 then m * 2^e.toNat else m / 2^(-e).toNat)
  | _ => 0

def isFinite : F64 → Bool | .fin .. => true | _ => false

/-- `uint64(f)`: defined by the language only when the truncated value is representable -/
def toU64 (f : F64) : Cv Nat :=
  if f.isFinite && 0 ≤ f.truncInt && f.truncInt < 2^64 then .ok f.truncInt.toNat else .implDefined

/-- `int64(f)` -/
def toI64 (f : F64) : Cv Int :=
  if f.isFinite && -(2^63) ≤ f.truncInt && f.truncInt < 2^63 then .ok f.truncInt else .implDefined

/-- `math.Nextafter(x, 0)` for a positive finite non-zero `x` (the only use in the modelled code) -/
def nextTowardZero (x : F64) : F64 := decode (toBits x - 1)

end F64
end GoSem
