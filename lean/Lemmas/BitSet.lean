import Model.BitSet
/-! C08 helper lemmas: addressing, the abstraction `bit`/`mem`, cardinality, single-bit operations. Core-only. -/
namespace BS

theorem abpw_eq : abpw = 6 := by decide
theorem dbpw_eq : dbpw = 64 := by decide
theorem bim_eq : bim = 63 := by decide

theorem wordIdx_eq (i : Nat) : wordIdx i = i / 64 := by
  unfold wordIdx; rw [abpw_eq, Nat.shiftRight_eq_div_pow]
theorem bitIdx_eq (i : Nat) : bitIdx i = i % 64 := by
  unfold bitIdx; rw [bim_eq]; exact Nat.and_two_pow_sub_one_eq_mod i 6
theorem shl_eq (i : Nat) : i <<< abpw = i * 64 := by
  rw [abpw_eq, Nat.shiftLeft_eq]

theorem wordMask_mod (j : Nat) : wordMask j = wordMask (j % 64) := by
  unfold wordMask; rw [bitIdx_eq, bitIdx_eq]; simp

/-- the bit pattern of `1 << (j & 63)` -/
theorem wordMask_bit (j k : Nat) (hk : k < 64) : (wordMask j).getLsbD k = decide (k = j % 64) := by
  unfold wordMask
  rw [bitIdx_eq]
  have hj : j % 64 < 64 := Nat.mod_lt _ (by decide)
  generalize j % 64 = m at hj
  simp only [BitVec.getLsbD_shiftLeft]
  by_cases h : k = m
  · subst h; simp [hk]
  · by_cases h2 : k < m
    · simp [h2, h, hk]
    · have : k - m ≠ 0 := by omega
      simp [h2, h, hk]
      intro h3
      omega

theorem wordMask_inj (i j : Nat) (hi : i < 64) (hj : j < 64) (h : wordMask i = wordMask j) : i = j := by
  have h1 := wordMask_bit i i hi
  rw [h, wordMask_bit j i hi, Nat.mod_eq_of_lt hi, Nat.mod_eq_of_lt hj] at h1
  simpa using h1

theorem bitIndexLoop_wordMask (j : Nat) (hj : j < 64) (n i : Nat) (hi : i ≤ j) (hn : j < i + n) :
    bitIndexLoop (wordMask j) i n = j := by
  induction n generalizing i with
  | zero => omega
  | succ n ih =>
    simp only [bitIndexLoop]
    by_cases e : i = j
    · subst e; simp
    · have hne : wordMask j ≠ wordMask i := fun h => e (wordMask_inj j i hj (by omega) h).symm
      simp only [beq_iff_eq, hne, if_false]
      exact ih (i + 1) (by omega) (by omega)

/-- `bitIndexForMask(wordMask(x))` is `x & 63`: the exit branch of the source is unreachable -/
theorem bitIndexForMask_wordMask (x : Nat) : bitIndexForMask (wordMask x) = x % 64 := by
  have hj : x % 64 < 64 := Nat.mod_lt _ (by decide)
  rw [wordMask_mod]
  unfold bitIndexForMask
  rw [dbpw_eq]
  exact bitIndexLoop_wordMask (x % 64) hj 64 0 (by omega) (by omega)

/-! ### abstraction -/

/-- membership of index `i` in the set stored in the words `d` (absent words are empty) -/
def bit (d : List W) (i : Nat) : Bool := (getW d (i / 64)).getLsbD (i % 64)
/-- the abstraction: the set of naturals a `BitSet` denotes -/
def mem (b : T) (i : Nat) : Bool := bit b.data i

theorem getW_of_ge (d : List W) (i : Nat) (h : d.length ≤ i) : getW d i = 0#64 := by
  unfold getW; rw [List.getD_eq_getElem?_getD, List.getElem?_eq_none h]; rfl

theorem getW_nil (i : Nat) : getW [] i = 0#64 := getW_of_ge [] i (by simp)
theorem getW_cons_zero (w : W) (ws : List W) : getW (w :: ws) 0 = w := by simp [getW]
theorem getW_cons_succ (w : W) (ws : List W) (i : Nat) : getW (w :: ws) (i + 1) = getW ws i := by simp [getW]

theorem bit_of_ge (d : List W) (x : Nat) (h : d.length * 64 ≤ x) : bit d x = false := by
  unfold bit; rw [getW_of_ge d _ (by omega)]; simp

theorem bit_lt (d : List W) (x : Nat) (h : bit d x = true) : x < d.length * 64 := by
  apply Classical.byContradiction; intro hn
  rw [bit_of_ge d x (by omega)] at h; cases h

theorem getW_set (d : List W) (i : Nat) (w : W) (k : Nat) :
    getW (d.set i w) k = if k = i ∧ i < d.length then w else getW d k := by
  unfold getW
  rw [List.getD_eq_getElem?_getD, List.getD_eq_getElem?_getD, List.getElem?_set]
  by_cases h : i = k
  · subst h
    by_cases h2 : i < d.length
    · simp [h2]
    · simp [h2]
  · have : ¬ (k = i ∧ i < d.length) := fun hh => h hh.1.symm
    simp [h, this]

theorem getW_append_zeros (d : List W) (n k : Nat) : getW (d ++ List.replicate n 0#64) k = getW d k := by
  unfold getW
  rw [List.getD_eq_getElem?_getD, List.getD_eq_getElem?_getD, List.getElem?_append]
  by_cases h : k < d.length
  · simp [h]
  · simp only [h, if_false, List.getElem?_replicate, List.getElem?_eq_none (Nat.le_of_not_lt h)]
    split <;> rfl

theorem getW_take (d : List W) (n k : Nat) : getW (d.take n) k = if k < n then getW d k else 0#64 := by
  unfold getW
  rw [List.getD_eq_getElem?_getD, List.getD_eq_getElem?_getD, List.getElem?_take]
  split <;> rfl

theorem testSet_eq (w : W) (j : Nat) : testSet w (wordMask j) = w.getLsbD (j % 64) := by
  have hj : j % 64 < 64 := Nat.mod_lt _ (by decide)
  unfold testSet
  cases hc : w.getLsbD (j % 64) with
  | true =>
    rw [beq_iff_eq]
    apply BitVec.eq_of_getLsbD_eq; intro k hk
    rw [BitVec.getLsbD_and, wordMask_bit j k hk]
    by_cases e : k = j % 64
    · subst e; simp [hc]
    · simp [e]
  | false =>
    apply Bool.eq_false_iff.mpr
    intro h
    rw [beq_iff_eq] at h
    have h1 := congrArg (fun v => BitVec.getLsbD v (j % 64)) h
    simp only [BitVec.getLsbD_and, wordMask_bit j _ hj, hc] at h1
    simp at h1

theorem testClear_eq (w : W) (j : Nat) : testClear w (wordMask j) = !w.getLsbD (j % 64) := by
  have hj : j % 64 < 64 := Nat.mod_lt _ (by decide)
  unfold testClear
  cases hc : w.getLsbD (j % 64) with
  | false =>
    simp only [Bool.not_false, beq_iff_eq]
    apply BitVec.eq_of_getLsbD_eq; intro k hk
    rw [BitVec.getLsbD_and, wordMask_bit j k hk]
    by_cases e : k = j % 64
    · subst e; simp [hc]
    · simp [e]
  | true =>
    apply Bool.eq_false_iff.mpr
    intro h
    rw [beq_iff_eq] at h
    have h1 := congrArg (fun v => BitVec.getLsbD v (j % 64)) h
    simp only [BitVec.getLsbD_and, wordMask_bit j _ hj, hc] at h1
    simp at h1

/-- **State** is membership -/
theorem state_eq_mem (b : T) (i : Nat) : state b i = mem b i := by
  unfold state mem bit
  simp only [wordIdx_eq]
  by_cases h : i / 64 ≥ b.data.length
  · simp only [h, if_true]; rw [getW_of_ge _ _ h]; simp
  · simp only [h, if_false]; exact testSet_eq _ _

/-! ### cardinality -/

/-- number of one bits among the lowest `n` bits -/
def countBits (w : W) : Nat → Nat
  | 0 => 0
  | n + 1 => countBits w n + (if w.getLsbD n then 1 else 0)
/-- number of one bits of a word (specification of `countSetBits`) -/
def popcount (w : W) : Nat := countBits w 64
/-- number of one bits of the storage = cardinality of the set (`card_eq_filter`) -/
def card : List W → Nat
  | [] => 0
  | w :: ws => popcount w + card ws
/-- the representation invariant: the cached count is the cardinality -/
def Inv (b : T) : Prop := b.set = Int.ofNat (card b.data)

theorem countBits_congr (w w' : W) (n : Nat) (h : ∀ k, k < n → w.getLsbD k = w'.getLsbD k) :
    countBits w n = countBits w' n := by
  induction n with
  | zero => rfl
  | succ n ih =>
    simp only [countBits]
    rw [ih (fun k hk => h k (by omega)), h n (by omega)]

theorem countBits_le (w : W) (n : Nat) : countBits w n ≤ n := by
  induction n with
  | zero => simp [countBits]
  | succ n ih => simp only [countBits]; split <;> omega

theorem popcount_le (w : W) : popcount w ≤ 64 := countBits_le w 64

theorem countBits_update (w w' : W) (j : Nat) (h : ∀ k, k ≠ j → w'.getLsbD k = w.getLsbD k) (n : Nat) :
    countBits w' n + (if j < n ∧ w.getLsbD j = true then 1 else 0)
      = countBits w n + (if j < n ∧ w'.getLsbD j = true then 1 else 0) := by
  induction n with
  | zero => simp [countBits]
  | succ n ih =>
    simp only [countBits]
    by_cases e : n = j
    · subst e
      have h1 : ¬ (n < n ∧ w.getLsbD n = true) := by omega
      have h2 : ¬ (n < n ∧ w'.getLsbD n = true) := by omega
      simp only [h1, h2, if_false] at ih
      have h3 : n < n + 1 := by omega
      simp only [h3, true_and]
      omega
    · rw [h n e]
      by_cases hjn : j < n
      · have h3 : j < n + 1 := by omega
        simp only [hjn, h3, true_and] at ih ⊢
        omega
      · have h3 : ¬ j < n + 1 := by omega
        simp only [hjn, h3, false_and, if_false] at ih ⊢
        omega

/-- changing one bit of a word changes its population count by that bit -/
theorem popcount_update (w w' : W) (j : Nat) (hj : j < 64) (h : ∀ k, k ≠ j → w'.getLsbD k = w.getLsbD k) :
    (popcount w' : Int) = popcount w + (if w'.getLsbD j = true then 1 else 0) - (if w.getLsbD j = true then 1 else 0) := by
  have := countBits_update w w' j h 64
  simp only [hj, true_and] at this
  unfold popcount
  cases hw : w.getLsbD j <;> cases hw' : w'.getLsbD j <;> simp [hw, hw'] at this ⊢ <;> omega

theorem popcount_zero : popcount 0#64 = 0 := by
  have : ∀ n, countBits 0#64 n = 0 := by
    intro n; induction n with
    | zero => rfl
    | succ n ih => simp [countBits, ih]
  exact this 64

theorem countBits_compl (w w' : W) (h : ∀ k, k < 64 → w'.getLsbD k = !w.getLsbD k) (n : Nat) (hn : n ≤ 64) :
    countBits w' n + countBits w n = n := by
  induction n with
  | zero => rfl
  | succ n ih =>
    simp only [countBits]
    rw [h n (by omega)]
    have := ih (by omega)
    cases w.getLsbD n <;> simp <;> omega

theorem popcount_compl (w w' : W) (h : ∀ k, k < 64 → w'.getLsbD k = !w.getLsbD k) : popcount w' + popcount w = 64 :=
  countBits_compl w w' h 64 (by omega)

theorem popcount_allOnes : popcount (BitVec.allOnes 64) = 64 := by
  have := popcount_compl 0#64 (BitVec.allOnes 64) (by
    intro k hk; rw [BitVec.getLsbD_allOnes, BitVec.getLsbD_zero]; simp [hk])
  rw [popcount_zero] at this; omega

theorem word_ext (x y : W) (h : ∀ k, k < 64 → x.getLsbD k = y.getLsbD k) : x = y :=
  BitVec.eq_of_getLsbD_eq (fun i hi => h i hi)

theorem bit_cons_zero (w : W) (ws : List W) (k : Nat) (hk : k < 64) : bit (w :: ws) k = w.getLsbD k := by
  unfold bit
  rw [Nat.div_eq_of_lt hk, Nat.mod_eq_of_lt hk, getW_cons_zero]

theorem bit_cons_succ (w : W) (ws : List W) (i : Nat) : bit (w :: ws) (i + 64) = bit ws i := by
  unfold bit
  have h1 : (i + 64) / 64 = i / 64 + 1 := by omega
  have h2 : (i + 64) % 64 = i % 64 := by omega
  rw [h1, h2, getW_cons_succ]

theorem bit_nil (i : Nat) : bit [] i = false := by simp [bit, getW_nil]

theorem card_zero_of_bits (d : List W) (h : ∀ x, bit d x = false) : card d = 0 := by
  induction d with
  | nil => rfl
  | cons w ws ih =>
    have hw : w = 0#64 := word_ext _ _ (fun k hk => by rw [← bit_cons_zero w ws k hk, h k]; simp)
    simp only [card]
    rw [hw, popcount_zero, ih (fun x => by rw [← bit_cons_succ w ws x]; exact h _)]

/-- the cardinality depends on the members only, not on the capacity -/
theorem card_congr (d d' : List W) (h : ∀ x, bit d x = bit d' x) : card d = card d' := by
  induction d generalizing d' with
  | nil => rw [card_zero_of_bits d' (fun x => by rw [← h x, bit_nil])]; rfl
  | cons w ws ih =>
    cases d' with
    | nil => rw [card_zero_of_bits (w :: ws) (fun x => by rw [h x, bit_nil])]; rfl
    | cons w' ws' =>
      have hw : w = w' := word_ext _ _ (fun k hk => by
        rw [← bit_cons_zero w ws k hk, ← bit_cons_zero w' ws' k hk]; exact h k)
      simp only [card]
      rw [hw, ih ws' (fun x => by rw [← bit_cons_succ w ws x, ← bit_cons_succ w' ws' x]; exact h _)]

theorem card_set (d : List W) (i : Nat) (w' : W) (hi : i < d.length) :
    (card (d.set i w') : Int) = card d - popcount (getW d i) + popcount w' := by
  induction d generalizing i with
  | nil => simp at hi
  | cons w ws ih =>
    cases i with
    | zero => simp only [List.set, card, getW_cons_zero]; omega
    | succ i =>
      simp only [List.set, card, getW_cons_succ]
      have := ih i (by simpa using hi)
      omega

theorem set_getW_self (d : List W) (i : Nat) : d.set i (getW d i) = d := by
  induction d generalizing i with
  | nil => rfl
  | cons w ws ih =>
    cases i with
    | zero => simp [getW_cons_zero]
    | succ i => simp [getW_cons_succ, ih]

/-- writing word `i` changes exactly the members whose word index is `i` -/
theorem bit_set (d : List W) (i : Nat) (w' : W) (hi : i < d.length) (x : Nat) :
    bit (d.set i w') x = if x / 64 = i then w'.getLsbD (x % 64) else bit d x := by
  unfold bit
  rw [getW_set]
  by_cases h : x / 64 = i
  · simp [h, hi]
  · simp [h]

theorem length_set' (d : List W) (i : Nat) (w : W) : (d.set i w).length = d.length := by simp

/-! ### EnsureCapacity -/

theorem ensure_bit (b : T) (n x : Nat) : bit (ensureCapacity b n).data x = bit b.data x := by
  unfold ensureCapacity
  simp only
  split
  · unfold bit; rw [getW_append_zeros]
  · rfl

theorem ensure_set (b : T) (n : Nat) : (ensureCapacity b n).set = b.set := by
  unfold ensureCapacity; simp only; split <;> rfl

theorem ensure_length (b : T) (n : Nat) : n ≤ (ensureCapacity b n).data.length := by
  unfold ensureCapacity
  simp only
  split
  · simp only [List.length_append, List.length_replicate]; split <;> omega
  · omega

theorem ensure_inv (b : T) (n : Nat) (h : Inv b) : Inv (ensureCapacity b n) := by
  unfold Inv at *
  rw [ensure_set, h, card_congr _ _ (ensure_bit b n)]

end BS
