import Lemmas.ExtractZipTar
/-! C19: *nothing else appears* — for every archive (any kinds, any order, failing or not) every node that an
    iteration adds is at the entry's cleaned path or at an ancestor of it; hence after extracting into an empty (or
    missing) destination every node strictly below the destination is an entry path or an ancestor of one. -/
namespace Ex

theorem mkdirAll_nodes (fs fs1 : FS) (p : P) (mode : Nat) (h : mkdirAll fs p mode = some fs1) (q : P) (n : Nd)
    (hq : fs1.get q = some n) : fs.get q = some n ∨ q <+: p := by
  rcases mkdirFrom_change p mode _ 1 fs fs1 (Nat.le_refl _) h q with h1 | ⟨_, _, h3, _⟩
  · rw [← h1]; exact Or.inl hq
  · exact Or.inr h3

theorem mkdirParent_nodes (fs fs1 : FS) (p : P) (mode : Nat) (h : mkdirAll fs p.dropLast mode = some fs1) (q : P)
    (n : Nd) (hq : fs1.get q = some n) : fs.get q = some n ∨ q <+: p := by
  rcases mkdirAll_nodes fs fs1 _ mode h q n hq with h1 | h1
  · exact Or.inl h1
  · exact Or.inr (h1.trans (List.dropLast_prefix p))

theorem put_nodes (fs : FS) (p q : P) (n' n : Nd) (hq : (fs.put p n').get q = some n) :
    fs.get q = some n ∨ q <+: p := by
  by_cases e : q = p
  · exact Or.inr (e ▸ List.prefix_refl _)
  · rw [get_put_other _ _ _ _ e] at hq; exact Or.inl hq

theorem writeFile_nodes (fs fs2 : FS) (p : P) (mode : Nat) (data : List Nat) (h : writeFile fs p mode data = some fs2)
    (q : P) (n : Nd) (hq : fs2.get q = some n) : fs.get q = some n ∨ q <+: p := by
  unfold writeFile at h
  split at h
  · cases h
  · cases h
  · simp at h; subst h; exact Or.inl hq
  · split at h
    · simp at h; subst h
      exact put_nodes _ _ _ _ _ hq
    · cases h

theorem symlinkAt_nodes (fs fs2 : FS) (t : List Nat) (p : P) (h : symlinkAt fs t p = some fs2)
    (q : P) (n : Nd) (hq : fs2.get q = some n) : fs.get q = some n ∨ q <+: p := by
  unfold symlinkAt at h
  split at h
  · cases h
  · split at h
    · cases h
    · split at h
      · simp at h; subst h; exact put_nodes _ _ _ _ _ hq
      · cases h

theorem linkAt_nodes (fs fs2 : FS) (tg p : P) (h : linkAt fs tg p = some fs2)
    (q : P) (n : Nd) (hq : fs2.get q = some n) : fs.get q = some n ∨ q <+: p := by
  unfold linkAt at h
  split at h
  · split at h
    · cases h
    · split at h
      · simp at h; subst h; exact put_nodes _ _ _ _ _ hq
      · cases h
  · cases h

theorem or_chain {fs fs1 : FS} {p q : P} {n : Nd} (h2 : fs1.get q = some n ∨ q <+: p)
    (h1 : fs1.get q = some n → fs.get q = some n ∨ q <+: p) : fs.get q = some n ∨ q <+: p := by
  rcases h2 with h | h
  · exact h1 h
  · exact Or.inr h

/-- an iteration of the tar loop adds nodes only at the entry's path and its ancestors (whatever the entry is and
    whether or not the iteration fails) -/
theorem tarOne_nodes (fs : FS) (root : P) (mask : Nat) (e : Entry) (r : FS × Bool) (h : tarOne fs root mask e = r)
    (q : P) (n : Nd) (hq : r.1.get q = some n) : fs.get q = some n ∨ q <+: cleanJoin root e.name := by
  unfold tarOne at h
  split at h
  · subst h; exact Or.inl hq
  simp only [] at h
  split at h
  · subst h; exact Or.inl hq
  split at h
  · subst h; exact Or.inl hq
  split at h
  · split at h
    · subst h; exact Or.inl hq
    rename_i fs1 h1
    split at h
    · subst h; exact mkdirParent_nodes _ _ _ _ h1 q n hq
    rename_i fs2 h2
    subst h
    exact or_chain (writeFile_nodes _ _ _ _ _ h2 q n hq) (mkdirParent_nodes _ _ _ _ h1 q n)
  · split at h
    · subst h; exact Or.inl hq
    rename_i fs1 h1
    split at h
    · subst h; exact mkdirParent_nodes _ _ _ _ h1 q n hq
    split at h
    · subst h; exact mkdirParent_nodes _ _ _ _ h1 q n hq
    split at h
    · subst h; exact mkdirParent_nodes _ _ _ _ h1 q n hq
    rename_i fs2 h2
    subst h
    exact or_chain (linkAt_nodes _ _ _ _ h2 q n hq) (mkdirParent_nodes _ _ _ _ h1 q n)
  · split at h
    · subst h; exact Or.inl hq
    rename_i fs1 h1
    split at h
    · subst h; exact mkdirParent_nodes _ _ _ _ h1 q n hq
    rename_i fs2 h2
    subst h
    exact or_chain (symlinkAt_nodes _ _ _ _ h2 q n hq) (mkdirParent_nodes _ _ _ _ h1 q n)
  · split at h
    · subst h; exact Or.inl hq
    rename_i fs1 h1
    subst h
    exact mkdirAll_nodes _ _ _ _ h1 q n hq
  · subst h; exact Or.inl hq

theorem zipOne_nodes (fs : FS) (root : P) (mask : Nat) (e : Entry) (r : FS × Bool) (h : zipOne fs root mask e = r)
    (q : P) (n : Nd) (hq : r.1.get q = some n) : fs.get q = some n ∨ q <+: cleanJoin root e.name := by
  unfold zipOne at h
  simp only [] at h
  split at h
  · subst h; exact Or.inl hq
  split at h
  · subst h; exact Or.inl hq
  split at h
  · split at h
    · subst h; exact Or.inl hq
    split at h
    · subst h; exact Or.inl hq
    rename_i fs1 h1
    split at h
    · subst h; exact mkdirParent_nodes _ _ _ _ h1 q n hq
    rename_i fs2 h2
    subst h
    exact or_chain (symlinkAt_nodes _ _ _ _ h2 q n hq) (mkdirParent_nodes _ _ _ _ h1 q n)
  · split at h
    · subst h; exact Or.inl hq
    rename_i fs1 h1
    subst h
    exact mkdirAll_nodes _ _ _ _ h1 q n hq
  · subst h; exact Or.inl hq
  · split at h
    · subst h; exact Or.inl hq
    rename_i fs1 h1
    split at h
    · subst h; exact mkdirParent_nodes _ _ _ _ h1 q n hq
    rename_i fs2 h2
    subst h
    exact or_chain (writeFile_nodes _ _ _ _ _ h2 q n hq) (mkdirParent_nodes _ _ _ _ h1 q n)

/-- the loop: every node at the end was there at the start or is (an ancestor of) an entry path -/
theorem extractWith_nodes (root : P) (one : FS → Entry → FS × Bool)
    (h1 : ∀ fs e q n, (one fs e).1.get q = some n → fs.get q = some n ∨ q <+: cleanJoin root e.name)
    (es : List Entry) (fs : FS) (q : P) (n : Nd) (hq : (extractWith one fs es).1.get q = some n) :
    fs.get q = some n ∨ ∃ e ∈ es, q <+: cleanJoin root e.name := by
  induction es generalizing fs with
  | nil => exact Or.inl hq
  | cons x xs ih =>
    rw [extractWith_cons] at hq
    have hx := h1 fs x q n
    split at hq
    · rcases ih _ hq with h | ⟨e, he, hp⟩
      · rcases hx h with h' | h'
        · exact Or.inl h'
        · exact Or.inr ⟨x, by simp, h'⟩
      · exact Or.inr ⟨e, by simp [he], hp⟩
    · rcases hx hq with h' | h'
      · exact Or.inl h'
      · exact Or.inr ⟨x, by simp, h'⟩

end Ex
