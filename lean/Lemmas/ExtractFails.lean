import Lemmas.ExtractAgain
/-! C19: which iterations fail, declaratively — in terms of look-ups in the tree before the iteration only (no loops, no
    fuel, no intermediate file systems): `guard_false_iff` for `EnsureNoSymlinks`, `tarOne_stepFails_iff` /
    `zipOne_stepFails_iff` for a whole iteration, on every well-formed tree. -/
namespace Ex

/-- what makes the guard stop at component `j` of `p`: a symbolic link, or a regular file that is not the last
    component (the next `Lstat` reports `ENOTDIR`) -/
def Bad (t : Tree) (p : P) (j : Nat) : Prop :=
  (∃ tg, t.get (p.take j) = some (.symlink tg)) ∨ (j < p.length ∧ ∃ ino, t.get (p.take j) = some (.file ino))

theorem bad_exists {fs : FS} {p : P} {j : Nat} (hb : Bad fs.view p j) : ∃ n, fs.get (p.take j) = some n := by
  rcases hb with ⟨tg, h⟩ | ⟨_, ino, h⟩
  · exact ⟨_, h⟩
  · exact ⟨_, h⟩

theorem bad_prefix_dir (fs : FS) (hw : WF fs) (p : P) (i j : Nat) (hi : 1 ≤ i) (hij : i < j) (hj : j ≤ p.length)
    (hb : Bad fs.view p j) : ∃ m, fs.get (p.take i) = some (.dir m) := by
  obtain ⟨n, hn⟩ := bad_exists hb
  have := wf_prefix_dir fs hw (p.take j) n hn i hi (by rw [List.length_take]; omega)
  rw [List.take_take, Nat.min_eq_left (by omega)] at this
  exact this

theorem noSymFrom_false_iff (fs : FS) (hw : WF fs) (p : P) (fuel i : Nat) (hi : 1 ≤ i) :
    noSymFrom fs p fuel i = false ↔ ∃ j, i ≤ j ∧ j ≤ p.length ∧ j < i + fuel ∧ Bad fs.view p j := by
  induction fuel generalizing i with
  | zero =>
    simp only [noSymFrom]
    constructor
    · intro h; cases h
    · rintro ⟨j, h1, _, h3, _⟩; omega
  | succ f ih =>
    simp only [noSymFrom]
    split
    · constructor
      · intro h; cases h
      · rintro ⟨j, h1, h2, _, _⟩; omega
    · rename_i hle
      have hle : i ≤ p.length := by omega
      cases hg : fs.get (p.take i) with
      | none =>
        simp only
        constructor
        · intro h; cases h
        · rintro ⟨j, h1, h2, _, hb⟩
          exfalso
          by_cases hji : j = i
          · subst hji
            obtain ⟨n, hn⟩ := bad_exists hb
            rw [hg] at hn; cases hn
          · obtain ⟨m, hm⟩ := bad_prefix_dir fs hw p i j hi (by omega) h2 hb
            rw [hg] at hm; cases hm
      | some n =>
        cases n with
        | dir m =>
          simp only
          rw [ih (i + 1) (by omega)]
          constructor
          · rintro ⟨j, h1, h2, h3, hb⟩; exact ⟨j, by omega, h2, by omega, hb⟩
          · rintro ⟨j, h1, h2, h3, hb⟩
            have hji : j ≠ i := by
              intro e; subst e
              rcases hb with ⟨tg, h⟩ | ⟨_, ino, h⟩
              · have h' : fs.get (p.take j) = some (.symlink tg) := h
                rw [hg] at h'; cases h'
              · have h' : fs.get (p.take j) = some (.file ino) := h
                rw [hg] at h'; cases h'
            exact ⟨j, by omega, h2, by omega, hb⟩
        | file ino =>
          simp only
          constructor
          · intro h
            have hne : i ≠ p.length := by simpa using h
            exact ⟨i, Nat.le_refl _, hle, by omega, Or.inr ⟨by omega, ino, hg⟩⟩
          · rintro ⟨j, h1, h2, _, hb⟩
            by_cases hji : j = i
            · subst hji
              rcases hb with ⟨tg, h⟩ | ⟨hl, _⟩
              · have h' : fs.get (p.take j) = some (.symlink tg) := h
                rw [hg] at h'; cases h'
              · have : j ≠ p.length := by omega
                simpa using this
            · obtain ⟨m, hm⟩ := bad_prefix_dir fs hw p i j hi (by omega) h2 hb
              rw [hg] at hm; cases hm
        | symlink tg =>
          simp only
          constructor
          · intro _; exact ⟨i, Nat.le_refl _, hle, by omega, Or.inl ⟨tg, hg⟩⟩
          · intro _; trivial

/-- **when `EnsureNoSymlinks(root, p)` fails** (well-formed tree): for the root itself, iff it is a symbolic link;
    otherwise iff the root is a regular file, or some component below the root is a symbolic link, or some component
    below the root other than the last is a regular file -/
def GuardFails (t : Tree) (root p : P) : Prop :=
  (p = root ∧ ∃ tg, t.get root = some (.symlink tg)) ∨
  (p ≠ root ∧ ((∃ ino, t.get root = some (.file ino)) ∨ ∃ j, root.length < j ∧ j ≤ p.length ∧ Bad t p j))

theorem guard_false_iff (fs : FS) (hw : WF fs) (root p : P) :
    ensureNoSymlinks fs root p = false ↔ GuardFails fs.view root p := by
  unfold ensureNoSymlinks GuardFails
  by_cases hpr : p = root
  · rw [if_pos hpr]
    constructor
    · intro h
      left
      refine ⟨hpr, ?_⟩
      cases hg : fs.get root with
      | none => rw [hg] at h; cases h
      | some n =>
        cases n with
        | symlink tg => exact ⟨tg, hg⟩
        | dir m => rw [hg] at h; cases h
        | file ino => rw [hg] at h; cases h
    · rintro (⟨_, tg, h⟩ | ⟨h, _⟩)
      · have h' : fs.get root = some (.symlink tg) := h
        rw [h']
      · exact absurd hpr h
  · rw [if_neg hpr]
    have key : noSymFrom fs p (p.length + 1) (root.length + 1) = false ↔
        ∃ j, root.length < j ∧ j ≤ p.length ∧ Bad fs.view p j := by
      rw [noSymFrom_false_iff fs hw p _ _ (by omega)]
      constructor
      · rintro ⟨j, h1, h2, _, hb⟩; exact ⟨j, by omega, h2, hb⟩
      · rintro ⟨j, h1, h2, hb⟩; exact ⟨j, by omega, h2, by omega, hb⟩
    constructor
    · intro h
      right
      refine ⟨hpr, ?_⟩
      cases hg : fs.get root with
      | none => rw [hg] at h; exact Or.inr (key.mp h)
      | some n =>
        cases n with
        | file ino => exact Or.inl ⟨ino, hg⟩
        | dir m => rw [hg] at h; exact Or.inr (key.mp h)
        | symlink tg => rw [hg] at h; exact Or.inr (key.mp h)
    · rintro (⟨h, _⟩ | ⟨_, ⟨ino, h⟩ | h⟩)
      · exact absurd h hpr
      · have h' : fs.get root = some (.file ino) := h
        rw [h']
      · cases hg : fs.get root with
        | none => exact key.mpr h
        | some n =>
          cases n with
          | file ino => rfl
          | dir m => exact key.mpr h
          | symlink tg => exact key.mpr h

/-! ### a whole iteration -/

/-- `MkdirAll(p)` fails: some non-empty prefix of `p` exists and is not a directory -/
def MkFails (t : Tree) (p : P) : Prop :=
  ∃ j, 1 ≤ j ∧ j ≤ p.length ∧ ((∃ ino, t.get (p.take j) = some (.file ino)) ∨ ∃ tg, t.get (p.take j) = some (.symlink tg))

/-- **the iterations of the tar loop that fail, in terms of the tree before the iteration** -/
def StepFails (t : Tree) (root : P) (e : Entry) : Prop :=
  e.kind = .corrupt ∨
  ¬ (Below root (cleanJoin root e.name) ∨ (cleanJoin root e.name = root ∧ e.kind = .dir)) ∨
  GuardFails t root (cleanJoin root e.name) ∨
  (e.kind = .dir ∧ MkFails t (cleanJoin root e.name)) ∨
  ((e.kind = .reg ∨ e.kind = .symlink ∨ e.kind = .link) ∧
    (MkFails t (cleanJoin root e.name).dropLast ∨
     (e.kind = .reg ∧ ((∃ m, t.get (cleanJoin root e.name) = some (.dir m)) ∨
        (∃ tg, t.get (cleanJoin root e.name) = some (.symlink tg)) ∨ e.short = true)) ∨
     (e.kind = .symlink ∧ (e.link = [] ∨ t.get (cleanJoin root e.name) ≠ none)) ∨
     (e.kind = .link ∧ (¬ Below root (cleanJoin root e.link) ∨ GuardFails t root (cleanJoin root e.link) ∨
        (∀ ino, t.get (cleanJoin root e.link) ≠ some (.file ino)) ∨ t.get (cleanJoin root e.name) ≠ none))))

theorem lexOK_false_iff (root p : P) (hr : GoodPath root) (hp : GoodPath p) (d : Bool) :
    lexOK root p d = false ↔ ¬ (Below root p ∨ (p = root ∧ d = true)) := by
  unfold Below
  rw [← lexOK_iff root p hr hp d]
  cases lexOK root p d <;> simp

/-- two trees with the same files and symbolic links (they may differ in directories) -/
def SameLeaves (t t' : Tree) : Prop :=
  ∀ q, (∀ tg, t'.get q = some (.symlink tg) ↔ t.get q = some (.symlink tg)) ∧
       (∀ ino, t'.get q = some (.file ino) ↔ t.get q = some (.file ino))

theorem mkdirAll_sameLeaves (fs fs1 : FS) (p : P) (mode : Nat) (h : mkdirAll fs p mode = some fs1) :
    SameLeaves fs.view fs1.view := by
  intro q
  have hx : fs1.get q = _ := mkdirAll_exact fs fs1 p mode h q
  show (∀ tg, fs1.get q = _ ↔ fs.get q = _) ∧ (∀ ino, fs1.get q = _ ↔ fs.get q = _)
  rw [hx]
  cases fs.get q with
  | some n => exact ⟨fun _ => Iff.rfl, fun _ => Iff.rfl⟩
  | none =>
    simp only
    split <;> simp

theorem bad_congr {t t' : Tree} (h : SameLeaves t t') (p : P) (j : Nat) : Bad t' p j ↔ Bad t p j := by
  unfold Bad
  constructor
  · rintro (⟨tg, h1⟩ | ⟨hl, ino, h1⟩)
    · exact Or.inl ⟨tg, ((h _).1 tg).mp h1⟩
    · exact Or.inr ⟨hl, ino, ((h _).2 ino).mp h1⟩
  · rintro (⟨tg, h1⟩ | ⟨hl, ino, h1⟩)
    · exact Or.inl ⟨tg, ((h _).1 tg).mpr h1⟩
    · exact Or.inr ⟨hl, ino, ((h _).2 ino).mpr h1⟩

theorem guardFails_congr {t t' : Tree} (h : SameLeaves t t') (root p : P) : GuardFails t' root p ↔ GuardFails t root p := by
  unfold GuardFails
  constructor
  · rintro (⟨h1, tg, h2⟩ | ⟨h1, ⟨ino, h2⟩ | ⟨j, a, b, c⟩⟩)
    · exact Or.inl ⟨h1, tg, ((h _).1 tg).mp h2⟩
    · exact Or.inr ⟨h1, Or.inl ⟨ino, ((h _).2 ino).mp h2⟩⟩
    · exact Or.inr ⟨h1, Or.inr ⟨j, a, b, (bad_congr h p j).mp c⟩⟩
  · rintro (⟨h1, tg, h2⟩ | ⟨h1, ⟨ino, h2⟩ | ⟨j, a, b, c⟩⟩)
    · exact Or.inl ⟨h1, tg, ((h _).1 tg).mpr h2⟩
    · exact Or.inr ⟨h1, Or.inl ⟨ino, ((h _).2 ino).mpr h2⟩⟩
    · exact Or.inr ⟨h1, Or.inr ⟨j, a, b, (bad_congr h p j).mpr c⟩⟩

theorem parentIsDir_after (fs fs1 : FS) (p : P) (mode : Nat) (h1 : mkdirAll fs p.dropLast mode = some fs1) :
    parentIsDir fs1 p = true := by
  unfold parentIsDir
  split
  · rfl
  · rename_i hl
    obtain ⟨m, hm⟩ := (mkdirAll_self_sys fs fs1 _ mode h1).2 p.dropLast.length
      (by simp only [List.length_dropLast]; omega) (Nat.le_refl _)
    rw [List.take_length] at hm
    rw [hm]

theorem mkFails_iff (fs : FS) (p : P) (mode : Nat) : mkdirAll fs p mode = none ↔ MkFails fs.view p :=
  mkdirAll_none_iff fs p mode

theorem tarOne_stepFails_iff (fs : FS) (hw : WF fs) (root : P) (hr : GoodPath root) (hroot : root ≠ []) (mask : Nat)
    (e : Entry) : (tarOne fs root mask e).2 = false ↔ StepFails fs.view root e := by
  rw [tarOne_fails_iff]
  unfold TarFails StepFails
  have hgp := cleanJoin_good root e.name hr
  have hdk : (e.kind == Kind.dir) = true ↔ e.kind = .dir := by rw [kind_beq]; simp
  have hlex : lexOK root (cleanJoin root e.name) (e.kind == .dir) = false ↔
      ¬ (Below root (cleanJoin root e.name) ∨ (cleanJoin root e.name = root ∧ e.kind = .dir)) := by
    rw [lexOK_false_iff root _ hr hgp, hdk]
  have hgd := guard_false_iff fs hw root (cleanJoin root e.name)
  by_cases hcor : e.kind = .corrupt
  · exact ⟨fun _ => Or.inl hcor, fun _ => Or.inl hcor⟩
  by_cases hl : lexOK root (cleanJoin root e.name) (e.kind == .dir) = false
  · exact ⟨fun _ => Or.inr (Or.inl (hlex.mp hl)), fun _ => Or.inr (Or.inl hl)⟩
  by_cases hg : ensureNoSymlinks fs root (cleanJoin root e.name) = false
  · exact ⟨fun _ => Or.inr (Or.inr (Or.inl (hgd.mp hg))), fun _ => Or.inr (Or.inr (Or.inl hg))⟩
  have hl' : ¬ ¬ (Below root (cleanJoin root e.name) ∨ (cleanJoin root e.name = root ∧ e.kind = .dir)) :=
    fun h => hl (hlex.mpr h)
  have hg' : ¬ GuardFails fs.view root (cleanJoin root e.name) := fun h => hg (hgd.mpr h)
  -- both sides reduce to their last two disjuncts
  have hL : ∀ (A B : Prop), (e.kind = .corrupt ∨ lexOK root (cleanJoin root e.name) (e.kind == .dir) = false ∨
      ensureNoSymlinks fs root (cleanJoin root e.name) = false ∨ A ∨ B) ↔ (A ∨ B) := by
    intro A B
    constructor
    · rintro (h | h | h | h)
      · exact absurd h hcor
      · exact absurd h hl
      · exact absurd h hg
      · exact h
    · intro h; exact Or.inr (Or.inr (Or.inr h))
  have hR : ∀ (A B : Prop), (e.kind = .corrupt ∨
      ¬ (Below root (cleanJoin root e.name) ∨ (cleanJoin root e.name = root ∧ e.kind = .dir)) ∨
      GuardFails fs.view root (cleanJoin root e.name) ∨ A ∨ B) ↔ (A ∨ B) := by
    intro A B
    constructor
    · rintro (h | h | h | h)
      · exact absurd h hcor
      · exact absurd h hl'
      · exact absurd h hg'
      · exact h
    · intro h; exact Or.inr (Or.inr (Or.inr h))
  rw [hL, hR]
  apply or_congr
  · rw [mkFails_iff]
  · apply and_congr_right
    intro hnd
    have hndir : e.kind ≠ .dir := by
      rcases hnd with h | h | h <;> (rw [h]; decide)
    have hbelow : Below root (cleanJoin root e.name) := by
      rcases Classical.not_not.mp hl' with h | ⟨_, h⟩
      · exact h
      · exact absurd h hndir
    have hne : cleanJoin root e.name ≠ [] := hbelow.ne_nil
    cases h1 : mkdirAll fs (cleanJoin root e.name).dropLast (0o755 &&& mask) with
    | none =>
      have := (mkFails_iff fs _ _).mp h1
      exact ⟨fun _ => Or.inl this, fun _ => Or.inl rfl⟩
    | some fs1 =>
      have hnm : ¬ MkFails fs.view (cleanJoin root e.name).dropLast := by
        intro h; rw [(mkFails_iff fs _ (0o755 &&& mask)).mpr h] at h1; cases h1
      have hself := parent_self fs fs1 _ hne _ h1
      have hpar := parentIsDir_after fs fs1 _ _ h1
      have hsl := mkdirAll_sameLeaves fs fs1 _ _ h1
      have hw1 : WF fs1 := (mkdirAll_self_sys fs fs1 _ _ h1).1.wf hw
      have hwr : writeFile fs1 (cleanJoin root e.name) (perm e.mode &&& mask) e.data = none ↔
          ((∃ m, fs.get (cleanJoin root e.name) = some (.dir m)) ∨
           (∃ tg, fs.get (cleanJoin root e.name) = some (.symlink tg))) := by
        rw [writeFile_none_iff, hself, hpar]; simp
      have hsy : symlinkAt fs1 e.link (cleanJoin root e.name) = none ↔
          (e.link = [] ∨ fs.get (cleanJoin root e.name) ≠ none) := by
        rw [symlinkAt_none_iff, hself, hpar]; simp
      have hlt : lexOK root (cleanJoin root e.link) false = false ↔ ¬ Below root (cleanJoin root e.link) := by
        rw [lexOK_false_iff root _ hr (cleanJoin_good root e.link hr)]; simp
      have hgt : ensureNoSymlinks fs1 root (cleanJoin root e.link) = false ↔
          GuardFails fs.view root (cleanJoin root e.link) := by
        rw [guard_false_iff fs1 hw1, guardFails_congr hsl]
      have hln : linkAt fs1 (cleanJoin root e.link) (cleanJoin root e.name) = none ↔
          ((∀ ino, fs.get (cleanJoin root e.link) ≠ some (.file ino)) ∨ fs.get (cleanJoin root e.name) ≠ none) := by
        rw [linkAt_none_iff, hself, hpar]
        have : (∀ ino, fs1.get (cleanJoin root e.link) ≠ some (.file ino)) ↔
            (∀ ino, fs.get (cleanJoin root e.link) ≠ some (.file ino)) := by
          constructor
          · intro h ino h2; exact h ino (((hsl _).2 ino).mpr h2)
          · intro h ino h2; exact h ino (((hsl _).2 ino).mp h2)
        rw [this]; simp
      constructor
      · rintro (h | ⟨fs1', h2, h3⟩)
        · cases h
        · have e1 : fs1' = fs1 := by cases h2; rfl
          subst e1
          right
          rcases h3 with ⟨hk, h4 | h4⟩ | ⟨hk, h4⟩ | ⟨hk, h4 | h4 | h4⟩
          · rcases hwr.mp h4 with h5 | h5
            · exact Or.inl ⟨hk, Or.inl h5⟩
            · exact Or.inl ⟨hk, Or.inr (Or.inl h5)⟩
          · exact Or.inl ⟨hk, Or.inr (Or.inr h4)⟩
          · exact Or.inr (Or.inl ⟨hk, hsy.mp h4⟩)
          · exact Or.inr (Or.inr ⟨hk, Or.inl (hlt.mp h4)⟩)
          · exact Or.inr (Or.inr ⟨hk, Or.inr (Or.inl (hgt.mp h4))⟩)
          · rcases hln.mp h4 with h5 | h5
            · exact Or.inr (Or.inr ⟨hk, Or.inr (Or.inr (Or.inl h5))⟩)
            · exact Or.inr (Or.inr ⟨hk, Or.inr (Or.inr (Or.inr h5))⟩)
      · rintro (h | h)
        · exact absurd h hnm
        · right
          refine ⟨fs1, rfl, ?_⟩
          rcases h with ⟨hk, h4 | h4 | h4⟩ | ⟨hk, h4⟩ | ⟨hk, h4 | h4 | h4 | h4⟩
          · exact Or.inl ⟨hk, Or.inl (hwr.mpr (Or.inl h4))⟩
          · exact Or.inl ⟨hk, Or.inl (hwr.mpr (Or.inr h4))⟩
          · exact Or.inl ⟨hk, Or.inr h4⟩
          · exact Or.inr (Or.inl ⟨hk, hsy.mpr h4⟩)
          · exact Or.inr (Or.inr ⟨hk, Or.inl (hlt.mpr h4)⟩)
          · exact Or.inr (Or.inr ⟨hk, Or.inr (Or.inl (hgt.mpr h4))⟩)
          · exact Or.inr (Or.inr ⟨hk, Or.inr (Or.inr (hln.mpr (Or.inl h4)))⟩)
          · exact Or.inr (Or.inr ⟨hk, Or.inr (Or.inr (hln.mpr (Or.inr h4)))⟩)

theorem zipOne_stepFails_iff (fs : FS) (hw : WF fs) (root : P) (hr : GoodPath root) (hroot : root ≠ []) (mask : Nat)
    (e : Entry) (hk : e.kind = .reg ∨ e.kind = .dir ∨ e.kind = .symlink) :
    (zipOne fs root mask e).2 = false ↔ (StepFails fs.view root e ∨ (e.kind = .symlink ∧ e.short = true)) := by
  by_cases hsh : e.kind = .symlink ∧ e.short = true
  · exact ⟨fun _ => Or.inr hsh, fun _ => zipOne_symlink_short fs root mask e hsh.1 hsh.2⟩
  · have hx : e.kind = .reg ∨ e.kind = .dir ∨ (e.kind = .symlink ∧ e.short = false) := by
      rcases hk with h | h | h
      · exact Or.inl h
      · exact Or.inr (Or.inl h)
      · refine Or.inr (Or.inr ⟨h, ?_⟩)
        cases hs : e.short with
        | false => rfl
        | true => exact absurd ⟨h, hs⟩ hsh
    rw [zipOne_eq_tarOne fs root mask e hx, tarOne_stepFails_iff fs hw root hr hroot mask e]
    exact ⟨Or.inl, fun h => h.elim id (fun h' => absurd h' hsh)⟩

end Ex
