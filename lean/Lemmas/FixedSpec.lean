import Mathlib.Tactic.Ring
import Mathlib.Tactic.Linarith
import Mathlib.Algebra.Order.Ring.Int
import Model.Fixed

/-! C03: the specification side — fixed-point arithmetic on the exact raw scaled integer (`/`, `%` = `Int.tdiv`,
    `Int.tmod`; `m = 10^D`), and what Trunc / Ceil / Round / Mod mean there.  (Type-checked during design:
    blocks b024, b026 of DESIGN.md Appendix C.) -/
namespace Fixed.Spec

def fxMul (m a b : Int) : Int := (a * b).tdiv m
def fxDiv (m a b : Int) : Int := (a * m).tdiv b
def fxTrunc (m a : Int) : Int := a.tdiv m * m
def fxCeil (m a : Int) : Int := if a > 0 ∧ a ≠ fxTrunc m a then fxTrunc m a + m else fxTrunc m a
def fxRound (m a : Int) : Int :=
  if a - fxTrunc m a ≥ m.tdiv 2 then fxTrunc m a + m
  else if a - fxTrunc m a ≤ -(m.tdiv 2) then fxTrunc m a - m else fxTrunc m a
def fxMod (m f v : Int) : Int := f - fxMul m v (fxTrunc m (fxDiv m f v))

/-- everything we need to know about truncated division by a positive number -/
theorem tdivmod_char (a m : Int) (hm : 0 < m) :
    a = a.tdiv m * m + a.tmod m ∧ -m < a.tmod m ∧ a.tmod m < m ∧
    (0 ≤ a → 0 ≤ a.tmod m ∧ 0 ≤ a.tdiv m) ∧ (a ≤ 0 → a.tmod m ≤ 0 ∧ a.tdiv m ≤ 0) := by
  have h1 := Int.tmod_add_tdiv_mul a m
  refine ⟨by linarith, Int.lt_tmod_of_pos a hm, Int.tmod_lt_of_pos a hm, ?_, ?_⟩
  · intro ha
    exact ⟨Int.tmod_nonneg m ha, Int.tdiv_nonneg ha (le_of_lt hm)⟩
  · intro ha
    have hna : 0 ≤ -a := by linarith
    have e1 : (-a).tmod m = -(a.tmod m) := Int.neg_tmod a m
    have e2 : (-a).tdiv m = -(a.tdiv m) := Int.neg_tdiv a m
    have := Int.tmod_nonneg m hna
    have := Int.tdiv_nonneg hna (le_of_lt hm)
    constructor <;> linarith

/-- Trunc: the multiple of m between 0 and a that is closest to a -/
theorem trunc_spec (m a : Int) (hm : 0 < m) :
    (∃ k : Int, fxTrunc m a = k * m) ∧ |a - fxTrunc m a| < m ∧
    (0 ≤ a → 0 ≤ fxTrunc m a ∧ fxTrunc m a ≤ a) ∧ (a ≤ 0 → a ≤ fxTrunc m a ∧ fxTrunc m a ≤ 0) := by
  obtain ⟨h1, h2, h3, h4, h5⟩ := tdivmod_char a m hm
  unfold fxTrunc
  refine ⟨⟨_, rfl⟩, ?_, ?_, ?_⟩
  · rw [abs_lt]; constructor <;> linarith
  · intro ha
    obtain ⟨r0, q0⟩ := h4 ha
    exact ⟨by positivity, by linarith⟩
  · intro ha
    obtain ⟨r0, q0⟩ := h5 ha
    exact ⟨by linarith, by nlinarith⟩

/-- Ceil: the least multiple of m that is ≥ a -/
theorem ceil_spec (m a : Int) (hm : 0 < m) :
    (∃ k : Int, fxCeil m a = k * m) ∧ a ≤ fxCeil m a ∧ fxCeil m a < a + m := by
  obtain ⟨h1, h2, h3, h4, h5⟩ := tdivmod_char a m hm
  unfold fxCeil fxTrunc
  by_cases hc : a > 0 ∧ a ≠ a.tdiv m * m
  · rw [if_pos hc]
    obtain ⟨r0, q0⟩ := h4 (le_of_lt hc.1)
    have hr : a.tmod m ≠ 0 := by intro e; apply hc.2; linarith
    have hr' : 0 < a.tmod m := lt_of_le_of_ne r0 (Ne.symm hr)
    refine ⟨⟨a.tdiv m + 1, by ring⟩, by linarith, by linarith⟩
  · rw [if_neg hc]
    refine ⟨⟨_, rfl⟩, ?_, ?_⟩
    · by_cases hp : a > 0
      · have : a = a.tdiv m * m := by
          by_contra hne; exact hc ⟨hp, hne⟩
        linarith
      · obtain ⟨r0, q0⟩ := h5 (not_lt.mp hp)
        linarith
    · linarith

/-- Round: the nearest multiple of m, halves away from zero (m even, as 10^D is) -/
theorem round_spec (m a : Int) (hm : 0 < m) (hev : m = 2 * m.tdiv 2) :
    (∃ k : Int, fxRound m a = k * m) ∧ 2 * |a - fxRound m a| ≤ m ∧
    (2 * |a - fxRound m a| = m → |a| < |fxRound m a|) := by
  obtain ⟨h1, h2, h3, h4, h5⟩ := tdivmod_char a m hm
  set h := m.tdiv 2 with hh
  have hpos : 0 < h := by linarith
  unfold fxRound fxTrunc
  have e : a - a.tdiv m * m = a.tmod m := by linarith
  rw [e]
  by_cases c1 : a.tmod m ≥ h
  · rw [if_pos c1]
    have ha : 0 ≤ a := by
      by_contra hn
      obtain ⟨r0, _⟩ := h5 (le_of_lt (not_le.mp hn))
      linarith
    obtain ⟨r0, q0⟩ := h4 ha
    refine ⟨⟨a.tdiv m + 1, by ring⟩, ?_, ?_⟩
    · rw [abs_of_nonpos (by linarith)]; linarith
    · intro _
      rw [abs_of_nonneg ha, abs_of_nonneg (by positivity)]
      linarith
  · rw [if_neg c1]
    by_cases c2 : a.tmod m ≤ -h
    · rw [if_pos c2]
      have ha : a ≤ 0 := by
        by_contra hn
        obtain ⟨r0, _⟩ := h4 (le_of_lt (not_le.mp hn))
        linarith
      obtain ⟨r0, q0⟩ := h5 ha
      refine ⟨⟨a.tdiv m - 1, by ring⟩, ?_, ?_⟩
      · rw [abs_of_nonneg (by linarith)]; linarith
      · intro _
        have hq : a.tdiv m * m ≤ 0 := by nlinarith
        rw [abs_of_nonpos ha, abs_of_nonpos (by linarith)]
        linarith
    · rw [if_neg c2]
      have c1' : a.tmod m < h := not_le.mp c1
      have c2' : -h < a.tmod m := not_le.mp c2
      have habs : |a.tmod m| < h := abs_lt.mpr ⟨c2', c1'⟩
      refine ⟨⟨_, rfl⟩, ?_, ?_⟩
      · rw [e]; linarith
      · intro heq; rw [e] at heq; linarith

theorem nestPos (m g w : Int) (hm : 0 < m) (hg : 0 ≤ g) (hw : 0 < w) : ((g * m).tdiv w).tdiv m = g.tdiv w := by
  have h1 : 0 ≤ g * m := Int.mul_nonneg hg (Int.le_of_lt hm)
  rw [Int.tdiv_eq_ediv_of_nonneg h1, Int.tdiv_eq_ediv_of_nonneg (Int.ediv_nonneg h1 (Int.le_of_lt hw)),
    Int.tdiv_eq_ediv_of_nonneg hg, Int.ediv_ediv_of_nonneg (Int.le_of_lt hw), Int.mul_ediv_mul_of_pos_left _ _ hm]

/-- dividing the scaled quotient back by the multiplier gives the plain truncated quotient, for all signs -/
theorem nest (m f v : Int) (hm : 0 < m) (hv : v ≠ 0) : ((f * m).tdiv v).tdiv m = f.tdiv v := by
  by_cases hf : f < 0
  · by_cases hv' : v < 0
    · have := nestPos m (-f) (-v) hm (by omega) (by omega)
      rw [Int.neg_mul, Int.neg_tdiv_neg, Int.neg_tdiv_neg] at this
      exact this
    · have hv' : 0 < v := by omega
      have := nestPos m (-f) v hm (by omega) hv'
      rw [Int.neg_mul, Int.neg_tdiv, Int.neg_tdiv, Int.neg_tdiv] at this
      omega
  · have hf : 0 ≤ f := by omega
    by_cases hv' : v < 0
    · have := nestPos m f (-v) hm hf (by omega)
      rw [Int.tdiv_neg, Int.neg_tdiv, Int.tdiv_neg] at this
      omega
    · exact nestPos m f v hm hf (by omega)

/-- **Mod**: `f − v·Trunc(f/v)` computed through Mul, Div and Trunc is the truncated remainder of the raw values
    (sign of the dividend) -/
theorem mod_spec (m f v : Int) (hm : 0 < m) (hv : v ≠ 0) : fxMod m f v = f.tmod v := by
  unfold fxMod fxMul fxTrunc fxDiv
  rw [nest m f v hm hv]
  have : (v * (f.tdiv v * m)).tdiv m = v * f.tdiv v := by
    rw [← Int.mul_assoc]; exact Int.mul_tdiv_cancel _ (by omega)
  rw [this]
  have := Int.tmod_add_tdiv_mul f v
  have e : f.tdiv v * v = v * f.tdiv v := Int.mul_comm _ _
  omega

end Fixed.Spec
