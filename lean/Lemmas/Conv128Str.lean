import Lemmas.Conv128Big
/-! C02 helper lemmas, part 3: `String` and the parse round trip (core Lean only). -/
namespace Conv
open GoSem

def IsDec (c : Char) : Prop := 48 ≤ c.toNat ∧ c.toNat ≤ 57

theorem digitChar_toNat (d : Nat) (h : d < 10) : (digitChar d).toNat = 48 + d := by
  have : d = 0 ∨ d = 1 ∨ d = 2 ∨ d = 3 ∨ d = 4 ∨ d = 5 ∨ d = 6 ∨ d = 7 ∨ d = 8 ∨ d = 9 := by omega
  rcases this with rfl | rfl | rfl | rfl | rfl | rfl | rfl | rfl | rfl | rfl <;> decide

theorem digitChar_isDec (d : Nat) (h : d < 10) : IsDec (digitChar d) := by
  unfold IsDec; rw [digitChar_toNat d h]; omega

/-- decimal value of a digit string -/
def decVal (l : List Char) : Nat := l.foldl (fun a c => a * 10 + (c.toNat - 48)) 0

theorem natDigits_unfold (n : Nat) :
    natDigits n = if n < 10 then [digitChar n] else natDigits (n / 10) ++ [digitChar (n % 10)] := by
  rw [natDigits]

theorem natDigits_isDec (n : Nat) : ∀ c ∈ natDigits n, IsDec c := by
  induction n using Nat.strongRecOn with
  | _ n ih =>
    rw [natDigits_unfold]
    by_cases h : n < 10
    · rw [if_pos h]; intro c hc; simp at hc; subst hc; exact digitChar_isDec n h
    · rw [if_neg h]; intro c hc
      rw [List.mem_append] at hc
      rcases hc with hc | hc
      · exact ih (n / 10) (by omega) c hc
      · simp at hc; subst hc; exact digitChar_isDec _ (by omega)

theorem decVal_natDigits (n : Nat) : decVal (natDigits n) = n := by
  induction n using Nat.strongRecOn with
  | _ n ih =>
    rw [natDigits_unfold]
    by_cases h : n < 10
    · rw [if_pos h]; simp [decVal, digitChar_toNat n h]
    · rw [if_neg h]
      have := ih (n / 10) (by omega)
      unfold decVal at this ⊢
      rw [List.foldl_append, this]
      simp only [List.foldl_cons, List.foldl_nil]
      rw [digitChar_toNat _ (by omega)]
      omega

theorem natDigits_zero : natDigits 0 = ['0'] := by
  rw [natDigits_unfold]; rfl

theorem natDigits_ne_nil (n : Nat) : natDigits n ≠ [] := by
  rw [natDigits_unfold]; split <;> simp

/-- no leading zero except for the number 0 itself -/
theorem natDigits_head (n : Nat) (hn : n ≠ 0) : ∃ c t, natDigits n = c :: t ∧ IsDec c ∧ c.toNat ≠ 48 := by
  induction n using Nat.strongRecOn with
  | _ n ih =>
    rw [natDigits_unfold]
    by_cases h : n < 10
    · rw [if_pos h]
      exact ⟨digitChar n, [], rfl, digitChar_isDec n h, by rw [digitChar_toNat n h]; omega⟩
    · rw [if_neg h]
      obtain ⟨c, t, e, hc, h0⟩ := ih (n / 10) (by omega) (by omega)
      exact ⟨c, t ++ [digitChar (n % 10)], by rw [e]; rfl, hc, h0⟩

theorem isDec_ne {c : Char} (h : IsDec c) (d : Char) (hd : d.toNat < 48 ∨ 57 < d.toNat) : c ≠ d := by
  intro e; subst e; unfold IsDec at h; omega

theorem digitVal_dec {c : Char} (h : IsDec c) : digitVal c = c.toNat - 48 := by
  unfold digitVal; unfold IsDec at h; rw [if_pos h]

/-- the digit loop on a run of decimal digits -/
theorem scanLoop_dec (l : List Char) (hl : ∀ c ∈ l, IsDec c) (st : LoopSt) (hf : st.fracOk = false) :
    scanLoop 10 st l =
      ({ st with val := l.foldl (fun a c => a * 10 + (c.toNat - 48)) st.val, count := st.count + l.length,
                 prev := if l = [] then st.prev else .digit }, []) := by
  induction l generalizing st with
  | nil => simp [scanLoop]
  | cons c t ih =>
    have hc : IsDec c := hl c (by simp)
    have ht : ∀ c ∈ t, IsDec c := fun d hd => hl d (by simp [hd])
    unfold scanLoop
    rw [if_neg (by rw [hf]; simp), if_neg (isDec_ne hc '_' (by decide)), digitVal_dec hc]
    rw [if_neg (by unfold IsDec at hc; omega)]
    have := ih ht { st with prev := .digit, count := st.count + 1, val := st.val * 10 + (c.toNat - 48) } hf
    rw [this]
    simp only [List.foldl_cons, List.length_cons, reduceCtorEq, if_false]
    congr 2
    · omega
    · split <;> rfl

theorem scanPrefix_natDigits (n : Nat) :
    scanPrefix false (natDigits n) =
      if n = 0 then (10, .none, 1, .digit, []) else (10, .none, 0, .other, natDigits n) := by
  by_cases hn : n = 0
  · subst hn; rw [natDigits_zero]; rfl
  · rw [if_neg hn]
    obtain ⟨c, t, e, hc, h0⟩ := natDigits_head n hn
    rw [e]
    have : c ≠ '0' := fun h => h0 (by rw [h]; rfl)
    unfold scanPrefix
    split
    · rename_i heq; injection heq with a b; exact absurd a this
    · rename_i heq; injection heq with a b; exact absurd a this
    · rfl

theorem natScan_natDigits (n : Nat) :
    (natScan false (natDigits n)).val = n ∧ (natScan false (natDigits n)).err = false ∧
      (natScan false (natDigits n)).rest = [] := by
  unfold natScan
  rw [scanPrefix_natDigits]
  by_cases hn : n = 0
  · subst hn; simp [scanLoop]
  · rw [if_neg hn]
    simp only []
    rw [scanLoop_dec _ (natDigits_isDec n) _ rfl]
    have hlen : (natDigits n).length ≠ 0 := fun h => natDigits_ne_nil n (List.length_eq_zero_iff.mp h)
    have hv := decVal_natDigits n
    unfold decVal at hv
    simp only [Nat.zero_add, if_neg (natDigits_ne_nil n), hv]
    have : ((natDigits n).length == 0) = false := by simp [hlen]
    simp [this]

theorem scanSign_natDigits (n : Nat) : scanSign (natDigits n) = some (false, natDigits n) := by
  obtain ⟨c, t, e, hc⟩ : ∃ c t, natDigits n = c :: t ∧ IsDec c := by
    by_cases hn : n = 0
    · subst hn; exact ⟨'0', [], natDigits_zero, ⟨by decide, by decide⟩⟩
    · obtain ⟨c, t, e, hc, _⟩ := natDigits_head n hn; exact ⟨c, t, e, hc⟩
  rw [e]; simp only [scanSign]
  rw [if_neg (isDec_ne hc '-' (by decide)), if_neg (isDec_ne hc '+' (by decide))]

theorem bigIntSetString_intDigits (z : Int) : bigIntSetString (intDigits z) = some z := by
  obtain ⟨hv, he, hr⟩ := natScan_natDigits z.natAbs
  unfold bigIntSetString intDigits
  by_cases hz : z < 0
  · rw [if_pos hz]
    simp only [scanSign, if_true]
    rw [he, hr, hv]; simp; omega
  · rw [if_neg hz, scanSign_natDigits]
    simp only []
    rw [he, hr, hv]; simp; omega

theorem hasExpChar_intDigits (z : Int) : hasExpChar (intDigits z) = false := by
  have hd := natDigits_isDec z.natAbs
  have key : ∀ l : List Char, (∀ c ∈ l, IsDec c) → hasExpChar l = false := by
    intro l hl
    unfold hasExpChar
    rw [List.any_eq_false]
    intro c hc
    have := hl c hc
    simp only [decide_eq_true_eq]
    intro h
    rcases h with h | h
    · exact isDec_ne this 'E' (by decide) h
    · exact isDec_ne this 'e' (by decide) h
  unfold intDigits
  split
  · unfold hasExpChar
    rw [List.any_cons]
    have := key _ hd
    unfold hasExpChar at this
    rw [this]; decide
  · exact key _ hd

theorem parseToBigInt_intDigits (z : Int) : parseToBigInt (intDigits z) = some z := by
  unfold parseToBigInt
  rw [hasExpChar_intDigits]
  simp only [Bool.false_eq_true, if_false]
  exact bigIntSetString_intDigits z


theorem U128.toString_eq (u : U128) : u.toString = natDigits u.toNat := by
  have := u.hi.isLt; have := u.lo.isLt
  unfold U128.toString
  rw [bv_eq_zero_iff, bv_eq_zero_iff]
  by_cases hh : u.hi.toNat = 0
  · rw [decide_eq_true hh, if_pos rfl]
    have hv : u.toNat = u.lo.toNat := by unfold U128.toNat; omega
    by_cases hl : u.lo.toNat = 0
    · rw [decide_eq_true hl, if_pos rfl, hv, hl, natDigits_zero]
    · rw [decide_eq_false hl, if_neg (by simp), hv]
  · rw [decide_eq_false hh, if_neg (by simp), U128.asBigInt_eq]
    unfold intDigits
    rw [if_neg (by omega)]; simp

theorem I128.toString_eq (i : I128) : i.toString = intDigits i.toInt := by
  have := i.hi.isLt; have := i.lo.isLt
  unfold I128.toString
  rw [bv_eq_zero_iff, bv_eq_zero_iff]
  by_cases hh : i.hi.toNat = 0
  · rw [decide_eq_true hh, if_pos rfl]
    have hv : i.toInt = (i.lo.toNat : Int) := by unfold I128.toInt; rw [if_pos (by omega)]; omega
    have hd : intDigits i.toInt = natDigits i.lo.toNat := by
      rw [hv]; unfold intDigits; rw [if_neg (by omega)]; simp
    rw [hd]
    by_cases hl : i.lo.toNat = 0
    · rw [decide_eq_true hl, if_pos rfl, hl, natDigits_zero]
    · rw [decide_eq_false hl, if_neg (by simp)]
  · rw [decide_eq_false hh, if_neg (by simp), I128.asBigInt_eq]

end Conv
