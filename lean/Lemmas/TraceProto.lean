import Model.TraceProto
/-! Invariant of the buffered-mode protocol model (`Model/TraceProto.lean`) and its consequences.  Core-only. -/
namespace TraceProto

/-- the number of `select`s producer state `pr` has completed -/
def Prod.sent (pr : Prod) : Nat := if pr.pending.isSome then pr.next - 1 else pr.next

/-- two entries of the event log are in program order if they belong to the same producer -/
def Before (a b : Item) : Prop := a.pid = b.pid → a.idx < b.idx

structure Inv (cfg : Config) (s : State) : Prop where
  fifo : s.writes ++ s.cons.items ++ s.chan = accepted s
  bound : ∀ e ∈ s.events, ∃ pr, s.prods[e.item.pid]? = some pr ∧ e.item.idx < pr.sent
  pend : ∀ p pr it, s.prods[p]? = some pr → pr.pending = some it →
    it.pid = p ∧ it.idx + 1 = pr.next ∧ cfg.line p it.idx = some it.line
  lines : ∀ e ∈ s.events, cfg.line e.item.pid e.item.idx = some e.item.line
  order : (s.events.map (·.item)).Pairwise Before
  cap : s.chan.length ≤ cfg.cap
  full : ∀ e ∈ s.events, e.lenAtSend ≤ cfg.cap ∧ (e.accepted = true ↔ e.lenAtSend < cfg.cap)

theorem inv_init (cfg : Config) (n : Nat) : Inv cfg (init n) := by
  refine ⟨by simp [init, accepted, Cons.items], by simp [init], ?_, by simp [init], by simp [init], by simp [init],
    by simp [init]⟩
  intro p pr it hp hpend
  simp only [init] at hp
  rw [List.getElem?_replicate] at hp
  split at hp
  · cases hp; cases hpend
  · cases hp

theorem get_set_self {l : List Prod} {p : Nat} {pr a : Prod} (h : l[p]? = some pr) : (l.set p a)[p]? = some a := by
  have hlt : p < l.length := by
    rcases Nat.lt_or_ge p l.length with h' | h'
    · exact h'
    · rw [List.getElem?_eq_none h'] at h; cases h
  simp [hlt]

theorem get_set_ne {l : List Prod} {p q : Nat} {a : Prod} (h : q ≠ p) : (l.set p a)[q]? = l[q]? := by
  simp [Ne.symm h]

theorem inv_fmt (cfg : Config) (s : State) (p : Nat) (h : Inv cfg s) : Inv cfg (step cfg s (.fmt p)) := by
  simp only [step]
  split
  · rename_i pr hp
    split
    · rename_i l hpen hl
      refine ⟨h.fifo, ?_, ?_, h.lines, h.order, h.cap, h.full⟩
      · intro e he
        obtain ⟨pr0, h0, hlt⟩ := h.bound e he
        by_cases hq : e.item.pid = p
        · rw [hq] at h0 ⊢
          rw [hp] at h0; cases h0
          refine ⟨_, get_set_self hp, ?_⟩
          simp [Prod.sent, hpen] at hlt ⊢
          exact hlt
        · exact ⟨pr0, by rw [get_set_ne hq]; exact h0, hlt⟩
      · intro q prq it hq hpq
        by_cases hqp : q = p
        · subst hqp
          rw [get_set_self hp] at hq
          cases hq
          simp at hpq
          subst hpq
          exact ⟨rfl, rfl, hl⟩
        · rw [get_set_ne hqp] at hq
          exact h.pend q prq it hq hpq
    · exact h
  · exact h


theorem accepted_append (s : State) (e : Ev) (prods : List Prod) (chan : List Item) :
    accepted { s with prods := prods, chan := chan, events := s.events ++ [e] } =
      accepted s ++ (if e.accepted then [e.item] else []) := by
  cases he : e.accepted <;> simp [accepted, List.filter_append, he]

theorem inv_send (cfg : Config) (s : State) (p : Nat) (h : Inv cfg s) : Inv cfg (step cfg s (.send p)) := by
  simp only [step]
  split
  · rename_i pr hp
    split
    · rename_i it hpen
      obtain ⟨hpid, hidx, hline⟩ := h.pend p pr it hp hpen
      have hsent : pr.sent = it.idx := by simp [Prod.sent, hpen]; omega
      -- facts shared by both branches
      have hbound : ∀ (ev : Ev), ev.item = it →
          ∀ e ∈ s.events ++ [ev], ∃ pr', (s.prods.set p { pr with pending := none })[e.item.pid]? = some pr' ∧
            e.item.idx < pr'.sent := by
        intro ev hev e he
        rcases List.mem_append.mp he with he | he
        · obtain ⟨pr0, h0, hlt⟩ := h.bound e he
          by_cases hq : e.item.pid = p
          · rw [hq] at h0 ⊢
            rw [hp] at h0; cases h0
            refine ⟨_, get_set_self hp, ?_⟩
            simp [Prod.sent]; omega
          · exact ⟨pr0, by rw [get_set_ne hq]; exact h0, hlt⟩
        · simp at he; subst he
          rw [hev, hpid]
          refine ⟨_, get_set_self hp, ?_⟩
          simp [Prod.sent]; omega
      have hpend : ∀ q prq it', (s.prods.set p { pr with pending := none })[q]? = some prq → prq.pending = some it' →
          it'.pid = q ∧ it'.idx + 1 = prq.next ∧ cfg.line q it'.idx = some it'.line := by
        intro q prq it' hq hpq
        by_cases hqp : q = p
        · subst hqp
          rw [get_set_self hp] at hq
          cases hq
          simp at hpq
        · rw [get_set_ne hqp] at hq
          exact h.pend q prq it' hq hpq
      have hlines : ∀ (ev : Ev), ev.item = it → ∀ e ∈ s.events ++ [ev],
          cfg.line e.item.pid e.item.idx = some e.item.line := by
        intro ev hev e he
        rcases List.mem_append.mp he with he | he
        · exact h.lines e he
        · simp at he; subst he; rw [hev, hpid]; exact hline
      have horder : ∀ (ev : Ev), ev.item = it → ((s.events ++ [ev]).map (·.item)).Pairwise Before := by
        intro ev hev
        rw [List.map_append, List.pairwise_append]
        refine ⟨h.order, by simp, ?_⟩
        intro a ha b hb
        simp at hb; subst hb
        obtain ⟨e, he, rfl⟩ := List.mem_map.mp ha
        obtain ⟨pr0, h0, hlt⟩ := h.bound e he
        intro hsame
        rw [hev, hpid] at hsame
        rw [hsame, hp] at h0; cases h0
        rw [hev]; omega
      split
      · rename_i hroom
        refine ⟨?_, hbound _ rfl, hpend, hlines _ rfl, horder _ rfl, ?_, ?_⟩
        · rw [accepted_append]
          simp only [if_true, ← h.fifo, List.append_assoc]
        · simp; omega
        · intro e he
          rcases List.mem_append.mp he with he | he
          · exact h.full e he
          · simp at he; subst he; simp; omega
      · rename_i hroom
        refine ⟨?_, hbound _ rfl, hpend, hlines _ rfl, horder _ rfl, h.cap, ?_⟩
        · rw [accepted_append]
          simp [← h.fifo]
        · intro e he
          rcases List.mem_append.mp he with he | he
          · exact h.full e he
          · simp at he; subst he
            have := h.cap
            simp; omega
    · exact h
  · exact h

theorem inv_recv (cfg : Config) (s : State) (h : Inv cfg s) : Inv cfg (step cfg s .recv) := by
  simp only [step]
  split
  · rename_i x rest hc hch
    refine ⟨?_, h.bound, h.pend, h.lines, h.order, ?_, h.full⟩
    · have := h.fifo
      rw [hc, hch] at this
      simpa [Cons.items, accepted] using this
    · have := h.cap
      rw [hch] at this
      simp at this ⊢; omega
  · exact h

theorem inv_finish (cfg : Config) (s : State) (o : Outcome) (h : Inv cfg s) : Inv cfg (step cfg s (.finish o)) := by
  simp only [step]
  split
  · rename_i x hc
    refine ⟨?_, h.bound, h.pend, h.lines, h.order, h.cap, h.full⟩
    have := h.fifo
    rw [hc] at this
    by_cases ho : o = .panic <;> simpa [Cons.items, accepted, ho] using this
  · exact h

theorem inv_step (cfg : Config) (s : State) (a : Act) (h : Inv cfg s) : Inv cfg (step cfg s a) := by
  cases a with
  | fmt p => exact inv_fmt cfg s p h
  | send p => exact inv_send cfg s p h
  | recv => exact inv_recv cfg s h
  | finish o => exact inv_finish cfg s o h

theorem inv_run (cfg : Config) (sched : List Act) (s : State) (h : Inv cfg s) : Inv cfg (run cfg s sched) := by
  induction sched generalizing s with
  | nil => exact h
  | cons a as ih => exact ih _ (inv_step cfg s a h)


/-! ### consequences -/

theorem writes_sublist_events (cfg : Config) (s : State) (h : Inv cfg s) :
    s.writes.Sublist (s.events.map (·.item)) := by
  have h1 : s.writes.Sublist (accepted s) := by
    rw [← h.fifo, List.append_assoc]; exact List.sublist_append_left _ _
  have h2 : (accepted s).Sublist (s.events.map (·.item)) := by
    unfold accepted; exact (List.filter_sublist).map _
  exact h1.trans h2

theorem writes_before (cfg : Config) (s : State) (h : Inv cfg s) : s.writes.Pairwise Before :=
  h.order.sublist (writes_sublist_events cfg s h)

theorem writes_lines (cfg : Config) (s : State) (h : Inv cfg s) :
    ∀ x ∈ s.writes, cfg.line x.pid x.idx = some x.line := by
  intro x hx
  have := (writes_sublist_events cfg s h).subset hx
  obtain ⟨e, he, rfl⟩ := List.mem_map.mp this
  exact h.lines e he

theorem nodup_of_before (l : List Item) (h : l.Pairwise Before) : (l.map fun x => (x.pid, x.idx)).Nodup := by
  rw [List.Nodup, List.pairwise_map]
  refine h.imp ?_
  intro a b hab heq
  have h1 : a.pid = b.pid := congrArg Prod.fst heq
  have h2 : a.idx = b.idx := congrArg Prod.snd heq
  have := hab h1
  omega

theorem producer_order_of_before (l : List Item) (p : Nat) (h : l.Pairwise Before) :
    ((l.filter (·.pid == p)).map (·.idx)).Pairwise (· < ·) := by
  rw [List.pairwise_map]
  have h1 : (l.filter (·.pid == p)).Pairwise Before := h.sublist List.filter_sublist
  rw [List.pairwise_iff_forall_sublist] at h1 ⊢
  intro a b hab
  have ha : a ∈ l.filter (·.pid == p) := hab.subset (by simp)
  have hb : b ∈ l.filter (·.pid == p) := hab.subset (by simp)
  simp only [List.mem_filter, beq_iff_eq] at ha hb
  exact h1 hab (by rw [ha.2, hb.2])

/-- actions of others do not touch producer `p` -/
theorem step_other (cfg : Config) (s : State) (a : Act) (p : Nat) (ha : a.ofProd p = false) :
    (step cfg s a).prods[p]? = s.prods[p]? := by
  cases a with
  | fmt q =>
    have hq : p ≠ q := by intro h; subst h; simp [Act.ofProd] at ha
    simp only [step]
    split
    · split
      · exact get_set_ne hq
      · rfl
    · rfl
  | send q =>
    have hq : p ≠ q := by intro h; subst h; simp [Act.ofProd] at ha
    simp only [step]
    split
    · split
      · split <;> exact get_set_ne hq
      · rfl
    · rfl
  | recv => simp only [step]; split <;> rfl
  | finish o => simp only [step]; split <;> rfl

theorem run_other (cfg : Config) (mid : List Act) (s : State) (p : Nat) (h : ∀ a ∈ mid, a.ofProd p = false) :
    (run cfg s mid).prods[p]? = s.prods[p]? := by
  induction mid generalizing s with
  | nil => rfl
  | cons a as ih =>
    simp only [run, List.foldl_cons]
    have := ih (step cfg s a) (fun b hb => h b (List.mem_cons_of_mem _ hb))
    simp only [run] at this
    rw [this, step_other cfg s a p (h a (List.mem_cons_self ..))]

/-- the `select` of a producer that has a formatted buffer completes whatever the channel and the consumer look like -/
theorem send_completes (cfg : Config) (s : State) (p : Nat) (pr : Prod) (it : Item)
    (hp : s.prods[p]? = some pr) (hpen : pr.pending = some it) :
    (step cfg s (.send p)).prods[p]? = some { pr with pending := none } := by
  simp only [step, hp, hpen]
  split <;> exact get_set_self hp

theorem fmt_completes (cfg : Config) (s : State) (p : Nat) (pr : Prod) (l : Bytes)
    (hp : s.prods[p]? = some pr) (hpen : pr.pending = none) (hl : cfg.line p pr.next = some l) :
    (step cfg s (.fmt p)).prods[p]? = some { next := pr.next + 1, pending := some ⟨p, pr.next, l⟩ } := by
  simp only [step, hp, hpen, hl]
  exact get_set_self hp

/-! ### the payload as a reference into a buffer (`BState`) -/

theorem lookup_cons_filter_self (l : List ((Nat × Nat) × Bytes)) (k : Nat × Nat) (v : Bytes) :
    ((k, v) :: l.filter (·.1 != k)).lookup k = some v := by
  simp [List.lookup]

theorem lookup_filter_ne (k0 k : Nat × Nat) (h : k ≠ k0) : ∀ (l : List ((Nat × Nat) × Bytes)),
    (l.filter (·.1 != k0)).lookup k = l.lookup k
  | [] => rfl
  | (k', v) :: l => by
    by_cases hk : k' = k0
    · subst hk
      have hne : (k == k') = false := by simpa using h
      simp [List.filter, List.lookup, hne, lookup_filter_ne k' k h l]
    · have : ((k', v).1 != k0) = true := by simpa using hk
      simp only [List.filter, this, List.lookup]
      rw [lookup_filter_ne k0 k h l]

theorem lookup_cons_filter_ne (l : List ((Nat × Nat) × Bytes)) (k0 k : Nat × Nat) (v : Bytes) (h : k ≠ k0) :
    ((k0, v) :: l.filter (·.1 != k0)).lookup k = l.lookup k := by
  have hne : (k == k0) = false := by simpa using h
  simp only [List.lookup, hne]
  exact lookup_filter_ne k0 k h l

/-- the invariant of the buffer-level protocol under the policy of the code (a fresh buffer per call) -/
structure BInv (cfg : Config) (b : BState) : Prop where
  base : Inv cfg b.s
  ev : ∀ e ∈ b.s.events, b.bufs.lookup (e.item.pid, e.item.idx) = some e.item.line
  pend : ∀ (p : Nat) (pr : Prod) (x : Item), b.s.prods[p]? = some pr → pr.pending = some x →
    b.bufs.lookup (x.pid, x.idx) = some x.line
  sunk : b.sunk = b.s.writes.map (·.line)

theorem binv_fmt (cfg : Config) (b : BState) (p : Nat) (h : BInv cfg b) : BInv cfg (stepB cfg .fresh b (.fmt p)) := by
  have hbase := inv_fmt cfg b.s p h.base
  cases hp : b.s.prods[p]? with
  | none =>
    have hs : step cfg b.s (.fmt p) = b.s := by simp [step, hp]
    simp only [stepB, hs, hp, Option.bind_none]
    exact ⟨h.base, h.ev, h.pend, h.sunk⟩
  | some pr =>
    cases hpen : pr.pending with
    | some it =>
      have hs : step cfg b.s (.fmt p) = b.s := by simp [step, hp, hpen]
      simp only [stepB, hs, hp, Option.bind_some, hpen]
      exact ⟨h.base, h.ev, h.pend, h.sunk⟩
    | none =>
      cases hl : cfg.line p pr.next with
      | none =>
        have hs : step cfg b.s (.fmt p) = b.s := by simp [step, hp, hpen, hl]
        simp only [stepB, hs, hp, Option.bind_some, hpen]
        exact ⟨h.base, h.ev, h.pend, h.sunk⟩
      | some l =>
        have hnew := fmt_completes cfg b.s p pr l hp hpen hl
        have hev : (step cfg b.s (.fmt p)).events = b.s.events := by simp [step, hp, hpen, hl]
        have hwr : (step cfg b.s (.fmt p)).writes = b.s.writes := by simp [step, hp, hpen, hl]
        simp only [stepB, hp, Option.bind_some, hpen, hnew, bufKey]
        refine ⟨hbase, ?_, ?_, by simp [hwr, h.sunk]⟩
        · intro e he
          rw [hev] at he
          obtain ⟨pr0, h0, hlt⟩ := h.base.bound e he
          have hne : (e.item.pid, e.item.idx) ≠ (p, pr.next) := by
            intro heq
            have h1 : e.item.pid = p := congrArg Prod.fst heq
            have h2 : e.item.idx = pr.next := congrArg Prod.snd heq
            rw [h1, hp] at h0; cases h0
            simp [Prod.sent, hpen] at hlt; omega
          rw [lookup_cons_filter_ne _ _ _ _ hne]
          exact h.ev e he
        · intro q prq x hq hx
          by_cases hqp : q = p
          · subst hqp
            rw [hnew] at hq; cases hq
            simp at hx; subst hx
            exact lookup_cons_filter_self _ _ _
          · have hq' : b.s.prods[q]? = some prq := by
              rw [← step_other cfg b.s (.fmt p) q (by simp [Act.ofProd]; exact fun h => hqp h.symm)]; exact hq
            obtain ⟨hxp, _, _⟩ := h.base.pend q prq x hq' hx
            have hne : (x.pid, x.idx) ≠ (p, pr.next) := by
              intro heq
              have h1 : x.pid = p := congrArg Prod.fst heq
              exact hqp (hxp.symm.trans h1)
            rw [lookup_cons_filter_ne _ _ _ _ hne]
            exact h.pend q prq x hq' hx


theorem binv_send (cfg : Config) (b : BState) (p : Nat) (h : BInv cfg b) : BInv cfg (stepB cfg .fresh b (.send p)) := by
  have hbase := inv_send cfg b.s p h.base
  simp only [stepB]
  cases hp : b.s.prods[p]? with
  | none =>
    have hs : step cfg b.s (.send p) = b.s := by simp [step, hp]
    rw [hs]; exact ⟨h.base, h.ev, h.pend, h.sunk⟩
  | some pr =>
    cases hpen : pr.pending with
    | none =>
      have hs : step cfg b.s (.send p) = b.s := by simp [step, hp, hpen]
      rw [hs]; exact ⟨h.base, h.ev, h.pend, h.sunk⟩
    | some it =>
      have hwr : (step cfg b.s (.send p)).writes = b.s.writes := by
        simp only [step, hp, hpen]; split <;> rfl
      have hev : ∀ e ∈ (step cfg b.s (.send p)).events, e ∈ b.s.events ∨ e.item = it := by
        intro e he
        simp only [step, hp, hpen] at he
        split at he
        · rcases List.mem_append.mp he with he | he
          · exact Or.inl he
          · simp at he; subst he; exact Or.inr rfl
        · rcases List.mem_append.mp he with he | he
          · exact Or.inl he
          · simp at he; subst he; exact Or.inr rfl
      refine ⟨hbase, ?_, ?_, by simp [hwr, h.sunk]⟩
      · intro e he
        rcases hev e he with he | he
        · exact h.ev e he
        · rw [he]; exact h.pend p pr it hp hpen
      · intro q prq x hq hx
        by_cases hqp : q = p
        · subst hqp
          rw [send_completes cfg b.s q pr it hp hpen] at hq
          cases hq; simp at hx
        · have hq' : b.s.prods[q]? = some prq := by
            rw [← step_other cfg b.s (.send p) q (by simp [Act.ofProd]; exact fun h => hqp h.symm)]; exact hq
          exact h.pend q prq x hq' hx

theorem binv_recv (cfg : Config) (b : BState) (h : BInv cfg b) : BInv cfg (stepB cfg .fresh b .recv) := by
  have hbase := inv_recv cfg b.s h.base
  have hprods : (step cfg b.s .recv).prods = b.s.prods := by simp only [step]; split <;> rfl
  have hev : (step cfg b.s .recv).events = b.s.events := by simp only [step]; split <;> rfl
  have hwr : (step cfg b.s .recv).writes = b.s.writes := by simp only [step]; split <;> rfl
  simp only [stepB]
  exact ⟨hbase, by rw [hev]; exact h.ev, by rw [hprods]; exact h.pend, by simp [hwr, h.sunk]⟩

theorem binv_finish (cfg : Config) (b : BState) (o : Outcome) (h : BInv cfg b) :
    BInv cfg (stepB cfg .fresh b (.finish o)) := by
  have hbase := inv_finish cfg b.s o h.base
  have hprods : (step cfg b.s (.finish o)).prods = b.s.prods := by simp only [step]; split <;> rfl
  have hev : (step cfg b.s (.finish o)).events = b.s.events := by simp only [step]; split <;> rfl
  simp only [stepB]
  cases hc : b.s.cons with
  | idle =>
    have hs : step cfg b.s (.finish o) = b.s := by simp [step, hc]
    simp only [hs]; exact ⟨h.base, h.ev, h.pend, h.sunk⟩
  | dead =>
    have hs : step cfg b.s (.finish o) = b.s := by simp [step, hc]
    simp only [hs]; exact ⟨h.base, h.ev, h.pend, h.sunk⟩
  | writing x =>
    have hwr : (step cfg b.s (.finish o)).writes = b.s.writes ++ [x] := by simp [step, hc]
    -- the item in the consumer's hands was accepted, so its buffer holds its line
    have hx : x ∈ accepted b.s := by
      rw [← h.base.fifo, hc]; simp [Cons.items]
    obtain ⟨e, he, hex⟩ := List.mem_map.mp hx
    have he' : e ∈ b.s.events := (List.mem_filter.mp he).1
    have hl := h.ev e he'
    rw [hex] at hl
    refine ⟨hbase, by rw [hev]; exact h.ev, by rw [hprods]; exact h.pend, ?_⟩
    simp [hwr, h.sunk, bufKey, hl]

theorem binv_run (cfg : Config) (sched : List Act) (b : BState) (h : BInv cfg b) : BInv cfg (runB cfg .fresh b sched) := by
  induction sched generalizing b with
  | nil => exact h
  | cons a as ih =>
    simp only [runB, List.foldl_cons]
    refine ih _ ?_
    cases a with
    | fmt p => exact binv_fmt cfg b p h
    | send p => exact binv_send cfg b p h
    | recv => exact binv_recv cfg b h
    | finish o => exact binv_finish cfg b o h

theorem binv_init (cfg : Config) (n : Nat) : BInv cfg { s := init n } := by
  refine ⟨inv_init cfg n, by simp [init], ?_, by simp [init]⟩
  intro p pr x hp hx
  simp only [init] at hp
  rw [List.getElem?_replicate] at hp
  split at hp
  · cases hp; cases hx
  · cases hp

/-- the buffer-level run projects onto the protocol run -/
theorem runB_s (cfg : Config) (pol : Policy) (sched : List Act) (b : BState) :
    (runB cfg pol b sched).s = run cfg b.s sched := by
  induction sched generalizing b with
  | nil => rfl
  | cons a as ih =>
    simp only [runB, run, List.foldl_cons] at ih ⊢
    rw [ih]
    congr 1
    cases a <;> simp only [stepB] <;> (try split) <;> rfl

end TraceProto
