import Model.TraceProto
/-! Invariant of the buffered-mode protocol model (`Model/TraceProto.lean`) and its consequences.  Core-only. -/
namespace TraceProto

/-- the number of `select`s producer state `pr` has completed -/
def Prod.sent (pr : Prod) : Nat := if pr.pending.isSome then pr.next - 1 else pr.next

/-- two entries of the event log are in program order if they belong to the same producer -/
def Before (a b : Item) : Prop := a.pid = b.pid → a.idx < b.idx

structure Inv (cfg : Config) (s : State) : Prop where
  fifo : s.writes ++ s.cons.items ++ s.chan = accepted s
  bound : ∀ e ∈ s.events, ∃ pr, s.prods[e.item.pid]? = some pr ∧ e.item.idx < pr.sent
  pend : ∀ p pr it, s.prods[p]? = some pr → pr.pending = some it →
    it.pid = p ∧ it.idx + 1 = pr.next ∧ cfg.line p it.idx = some it.line
  lines : ∀ e ∈ s.events, cfg.line e.item.pid e.item.idx = some e.item.line
  order : (s.events.map (·.item)).Pairwise Before
  cap : s.chan.length ≤ cfg.cap
  full : ∀ e ∈ s.events, e.lenAtSend ≤ cfg.cap ∧ (e.accepted = true ↔ e.lenAtSend < cfg.cap)

theorem inv_init (cfg : Config) (n : Nat) : Inv cfg (init n) := by
  refine ⟨by simp [init, accepted, Cons.items], by simp [init], ?_, by simp [init], by simp [init], by simp [init],
    by simp [init]⟩
  intro p pr it hp hpend
  simp only [init] at hp
  rw [List.getElem?_replicate] at hp
  split at hp
  · cases hp; cases hpend
  · cases hp

theorem get_set_self {l : List Prod} {p : Nat} {pr a : Prod} (h : l[p]? = some pr) : (l.set p a)[p]? = some a := by
  have hlt : p < l.length := by
    rcases Nat.lt_or_ge p l.length with h' | h'
    · exact h'
    · rw [List.getElem?_eq_none h'] at h; cases h
  simp [hlt]

theorem get_set_ne {l : List Prod} {p q : Nat} {a : Prod} (h : q ≠ p) : (l.set p a)[q]? = l[q]? := by
  simp [Ne.symm h]

theorem inv_fmt (cfg : Config) (s : State) (p : Nat) (h : Inv cfg s) : Inv cfg (step cfg s (.fmt p)) := by
  simp only [step]
  split
  · rename_i pr hp
    split
    · rename_i l hpen hl
      refine ⟨h.fifo, ?_, ?_, h.lines, h.order, h.cap, h.full⟩
      · intro e he
        obtain ⟨pr0, h0, hlt⟩ := h.bound e he
        by_cases hq : e.item.pid = p
        · rw [hq] at h0 ⊢
          rw [hp] at h0; cases h0
          refine ⟨_, get_set_self hp, ?_⟩
          simp [Prod.sent, hpen] at hlt ⊢
          exact hlt
        · exact ⟨pr0, by rw [get_set_ne hq]; exact h0, hlt⟩
      · intro q prq it hq hpq
        by_cases hqp : q = p
        · subst hqp
          rw [get_set_self hp] at hq
          cases hq
          simp at hpq
          subst hpq
          exact ⟨rfl, rfl, hl⟩
        · rw [get_set_ne hqp] at hq
          exact h.pend q prq it hq hpq
    · exact h
  · exact h


theorem accepted_append (s : State) (e : Ev) (prods : List Prod) (chan : List Item) :
    accepted { s with prods := prods, chan := chan, events := s.events ++ [e] } =
      accepted s ++ (if e.accepted then [e.item] else []) := by
  cases he : e.accepted <;> simp [accepted, List.filter_append, he]

theorem inv_send (cfg : Config) (s : State) (p : Nat) (h : Inv cfg s) : Inv cfg (step cfg s (.send p)) := by
  simp only [step]
  split
  · rename_i pr hp
    split
    · rename_i it hpen
      obtain ⟨hpid, hidx, hline⟩ := h.pend p pr it hp hpen
      have hsent : pr.sent = it.idx := by simp [Prod.sent, hpen]; omega
      -- facts shared by both branches
      have hbound : ∀ (ev : Ev), ev.item = it →
          ∀ e ∈ s.events ++ [ev], ∃ pr', (s.prods.set p { pr with pending := none })[e.item.pid]? = some pr' ∧
            e.item.idx < pr'.sent := by
        intro ev hev e he
        rcases List.mem_append.mp he with he | he
        · obtain ⟨pr0, h0, hlt⟩ := h.bound e he
          by_cases hq : e.item.pid = p
          · rw [hq] at h0 ⊢
            rw [hp] at h0; cases h0
            refine ⟨_, get_set_self hp, ?_⟩
            simp [Prod.sent]; omega
          · exact ⟨pr0, by rw [get_set_ne hq]; exact h0, hlt⟩
        · simp at he; subst he
          rw [hev, hpid]
          refine ⟨_, get_set_self hp, ?_⟩
          simp [Prod.sent]; omega
      have hpend : ∀ q prq it', (s.prods.set p { pr with pending := none })[q]? = some prq → prq.pending = some it' →
          it'.pid = q ∧ it'.idx + 1 = prq.next ∧ cfg.line q it'.idx = some it'.line := by
        intro q prq it' hq hpq
        by_cases hqp : q = p
        · subst hqp
          rw [get_set_self hp] at hq
          cases hq
          simp at hpq
        · rw [get_set_ne hqp] at hq
          exact h.pend q prq it' hq hpq
      have hlines : ∀ (ev : Ev), ev.item = it → ∀ e ∈ s.events ++ [ev],
          cfg.line e.item.pid e.item.idx = some e.item.line := by
        intro ev hev e he
        rcases List.mem_append.mp he with he | he
        · exact h.lines e he
        · simp at he; subst he; rw [hev, hpid]; exact hline
      have horder : ∀ (ev : Ev), ev.item = it → ((s.events ++ [ev]).map (·.item)).Pairwise Before := by
        intro ev hev
        rw [List.map_append, List.pairwise_append]
        refine ⟨h.order, by simp, ?_⟩
        intro a ha b hb
        simp at hb; subst hb
        obtain ⟨e, he, rfl⟩ := List.mem_map.mp ha
        obtain ⟨pr0, h0, hlt⟩ := h.bound e he
        intro hsame
        rw [hev, hpid] at hsame
        rw [hsame, hp] at h0; cases h0
        rw [hev]; omega
      split
      · rename_i hroom
        refine ⟨?_, hbound _ rfl, hpend, hlines _ rfl, horder _ rfl, ?_, ?_⟩
        · rw [accepted_append]
          simp only [if_true, ← h.fifo, List.append_assoc]
        · simp; omega
        · intro e he
          rcases List.mem_append.mp he with he | he
          · exact h.full e he
          · simp at he; subst he; simp; omega
      · rename_i hroom
        refine ⟨?_, hbound _ rfl, hpend, hlines _ rfl, horder _ rfl, h.cap, ?_⟩
        · rw [accepted_append]
          simp [← h.fifo]
        · intro e he
          rcases List.mem_append.mp he with he | he
          · exact h.full e he
          · simp at he; subst he
            have := h.cap
            simp; omega
    · exact h
  · exact h

theorem inv_recv (cfg : Config) (s : State) (h : Inv cfg s) : Inv cfg (step cfg s .recv) := by
  simp only [step]
  split
  · rename_i x rest hc hch
    refine ⟨?_, h.bound, h.pend, h.lines, h.order, ?_, h.full⟩
    · have := h.fifo
      rw [hc, hch] at this
      simpa [Cons.items, accepted] using this
    · have := h.cap
      rw [hch] at this
      simp at this ⊢; omega
  · exact h

theorem inv_finish (cfg : Config) (s : State) (o : Outcome) (h : Inv cfg s) : Inv cfg (step cfg s (.finish o)) := by
  simp only [step]
  split
  · rename_i x hc
    refine ⟨?_, h.bound, h.pend, h.lines, h.order, h.cap, h.full⟩
    have := h.fifo
    rw [hc] at this
    by_cases ho : o = .panic <;> simpa [Cons.items, accepted, ho] using this
  · exact h

theorem inv_step (cfg : Config) (s : State) (a : Act) (h : Inv cfg s) : Inv cfg (step cfg s a) := by
  cases a with
  | fmt p => exact inv_fmt cfg s p h
  | send p => exact inv_send cfg s p h
  | recv => exact inv_recv cfg s h
  | finish o => exact inv_finish cfg s o h

theorem inv_run (cfg : Config) (sched : List Act) (s : State) (h : Inv cfg s) : Inv cfg (run cfg s sched) := by
  induction sched generalizing s with
  | nil => exact h
  | cons a as ih => exact ih _ (inv_step cfg s a h)


/-! ### consequences -/

theorem writes_sublist_events (cfg : Config) (s : State) (h : Inv cfg s) :
    s.writes.Sublist (s.events.map (·.item)) := by
  have h1 : s.writes.Sublist (accepted s) := by
    rw [← h.fifo, List.append_assoc]; exact List.sublist_append_left _ _
  have h2 : (accepted s).Sublist (s.events.map (·.item)) := by
    unfold accepted; exact (List.filter_sublist).map _
  exact h1.trans h2

theorem writes_before (cfg : Config) (s : State) (h : Inv cfg s) : s.writes.Pairwise Before :=
  h.order.sublist (writes_sublist_events cfg s h)

theorem writes_lines (cfg : Config) (s : State) (h : Inv cfg s) :
    ∀ x ∈ s.writes, cfg.line x.pid x.idx = some x.line := by
  intro x hx
  have := (writes_sublist_events cfg s h).subset hx
  obtain ⟨e, he, rfl⟩ := List.mem_map.mp this
  exact h.lines e he

theorem nodup_of_before (l : List Item) (h : l.Pairwise Before) : (l.map fun x => (x.pid, x.idx)).Nodup := by
  rw [List.Nodup, List.pairwise_map]
  refine h.imp ?_
  intro a b hab heq
  have h1 : a.pid = b.pid := congrArg Prod.fst heq
  have h2 : a.idx = b.idx := congrArg Prod.snd heq
  have := hab h1
  omega

theorem producer_order_of_before (l : List Item) (p : Nat) (h : l.Pairwise Before) :
    ((l.filter (·.pid == p)).map (·.idx)).Pairwise (· < ·) := by
  rw [List.pairwise_map]
  have h1 : (l.filter (·.pid == p)).Pairwise Before := h.sublist List.filter_sublist
  rw [List.pairwise_iff_forall_sublist] at h1 ⊢
  intro a b hab
  have ha : a ∈ l.filter (·.pid == p) := hab.subset (by simp)
  have hb : b ∈ l.filter (·.pid == p) := hab.subset (by simp)
  simp only [List.mem_filter, beq_iff_eq] at ha hb
  exact h1 hab (by rw [ha.2, hb.2])

/-- actions of others do not touch producer `p` -/
theorem step_other (cfg : Config) (s : State) (a : Act) (p : Nat) (ha : a.ofProd p = false) :
    (step cfg s a).prods[p]? = s.prods[p]? := by
  cases a with
  | fmt q =>
    have hq : p ≠ q := by intro h; subst h; simp [Act.ofProd] at ha
    simp only [step]
    split
    · split
      · exact get_set_ne hq
      · rfl
    · rfl
  | send q =>
    have hq : p ≠ q := by intro h; subst h; simp [Act.ofProd] at ha
    simp only [step]
    split
    · split
      · split <;> exact get_set_ne hq
      · rfl
    · rfl
  | recv => simp only [step]; split <;> rfl
  | finish o => simp only [step]; split <;> rfl

theorem run_other (cfg : Config) (mid : List Act) (s : State) (p : Nat) (h : ∀ a ∈ mid, a.ofProd p = false) :
    (run cfg s mid).prods[p]? = s.prods[p]? := by
  induction mid generalizing s with
  | nil => rfl
  | cons a as ih =>
    simp only [run, List.foldl_cons]
    have := ih (step cfg s a) (fun b hb => h b (List.mem_cons_of_mem _ hb))
    simp only [run] at this
    rw [this, step_other cfg s a p (h a (List.mem_cons_self ..))]

/-- the `select` of a producer that has a formatted buffer completes whatever the channel and the consumer look like -/
theorem send_completes (cfg : Config) (s : State) (p : Nat) (pr : Prod) (it : Item)
    (hp : s.prods[p]? = some pr) (hpen : pr.pending = some it) :
    (step cfg s (.send p)).prods[p]? = some { pr with pending := none } := by
  simp only [step, hp, hpen]
  split <;> exact get_set_self hp

theorem fmt_completes (cfg : Config) (s : State) (p : Nat) (pr : Prod) (l : Bytes)
    (hp : s.prods[p]? = some pr) (hpen : pr.pending = none) (hl : cfg.line p pr.next = some l) :
    (step cfg s (.fmt p)).prods[p]? = some { next := pr.next + 1, pending := some ⟨p, pr.next, l⟩ } := by
  simp only [step, hp, hpen, hl]
  exact get_set_self hp

end TraceProto
