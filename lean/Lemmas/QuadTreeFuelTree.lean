import Lemmas.QuadTreeTree
import Lemmas.QuadTreeFuel
import Lemmas.QuadTreeGeom
/-! Lifting the integer depth bound (`Lemmas/QuadTreeFuel.lean`) to whole histories of the `QuadTree` wrapper: if every
    inserted rectangle lies in a box, the root is a good node whose rectangle lies in the box, so no node is ever
    deeper than `W + H` of the box. -/
namespace QT
open Geom

/-- every inserted non-empty rectangle lies within `box` -/
def InBox (box : RI) : Op RI → Prop
  | .insert it => it.rect.empty = true ∨ box.contains it.rect = true
  | _ => True

structure FInv (box : RI) (t : Tree RI) : Prop where
  root : ∀ r, t.root = some r → Good r ∧ r.rect.empty = false ∧ box.contains r.rect = true
  items : ∀ it ∈ t.all, box.contains it.rect = true

theorem union_within (box a b : RI) (h1 : box.contains a = true) (h2 : box.contains b = true) :
    box.contains (a.union b) = true := by
  rw [Rect.contains_iff_Contains] at *
  have hu := Rect.union_not_empty a b h1.2.1 h2.2.1
  exact Rect.Contains_of_covers _ _ h1.1 hu (Rect.union_smallest_edges a b box h1.2.1 h2.2.1
    (Rect.covers_of_Contains _ _ h1) (Rect.covers_of_Contains _ _ h2))

theorem meas_mono (box r : RI) (h : box.contains r = true) : meas r ≤ meas box := by
  rw [Rect.contains_iff_Contains] at h
  obtain ⟨_, _, h1, h2, h3, h4⟩ := h
  simp only [Rect.right, Rect.bottom] at h3 h4
  unfold meas; omega

theorem fold_union_box (box : RI) (l : List (Item RI)) (hl : ∀ it ∈ l, box.contains it.rect = true) (acc : RI)
    (hacc : acc.empty = true ∨ box.contains acc = true) (hne : l ≠ [] ∨ box.contains acc = true) :
    box.contains (l.foldl (fun (r : RI) (one : Item RI) => RectOps.union r one.rect) acc) = true := by
  induction l generalizing acc with
  | nil =>
    rcases hne with h | h
    · exact absurd rfl h
    · exact h
  | cons c t ih =>
    simp only [List.foldl_cons]
    have hc := hl c (by simp)
    have hcne : c.rect.empty = false := by
      have := (Rect.contains_iff_Contains box c.rect).mp hc
      exact (Rect.empty_false_iff _).mpr this.2.1
    have hstep : box.contains (RectOps.union acc c.rect) = true := by
      rcases hacc with h | h
      · have : RectOps.union acc c.rect = c.rect := lawsInt.union_empty_left acc c.rect h hcne
        rw [this]; exact hc
      · exact union_within box acc c.rect h hc
    exact ih (fun it hit => hl it (by simp [hit])) _ (Or.inr hstep) (Or.inr hstep)

/-- the root that `Reorganize` builds -/
theorem reorganize_root (box : RI) (fuel : Nat) (t : Tree RI) (hitems : ∀ it ∈ t.all, box.contains it.rect = true) :
    ∀ r, (t.reorganize fuel).root = some r → Good r ∧ r.rect.empty = false ∧ box.contains r.rect = true := by
  intro r hr
  unfold Tree.reorganize at hr
  simp only at hr
  split at hr
  · cases hr
  · rename_i hemp
    simp only [Option.some.injEq] at hr
    have hne : t.all ≠ [] := by intro e; rw [e] at hemp; simp at hemp
    have hb := fold_union_box box t.all hitems RectOps.zero (Or.inl lawsInt.zero_empty) (Or.inl hne)
    have hrne : (t.all.foldl (fun (r : RI) (one : Item RI) => RectOps.union r one.rect) RectOps.zero).empty = false := by
      have := (Rect.contains_iff_Contains _ _).mp hb
      exact (Rect.empty_false_iff _).mpr this.2.1
    obtain ⟨a, b⟩ := reorgFold_good (t.all.foldl (fun (r : RI) (one : Item RI) => RectOps.union r one.rect) RectOps.zero) t.thr fuel t.all
      (Node.leaf (t.all.foldl (fun (r : RI) (one : Item RI) => RectOps.union r one.rect) RectOps.zero) [], []) trivial rfl hrne
    subst hr
    exact ⟨a, by rw [b]; exact hrne, by rw [b]; exact hb⟩

theorem apply_finv (bounds : Nat → RI) (box : RI) (fuel : Nat) (t : Tree RI) (h : TInv bounds t) (hf : FInv box t)
    (op : Op RI) (hop : OpOK bounds op) (hbox : InBox box op) : FInv box (t.apply fuel op) := by
  cases op with
  | insert it =>
    simp only [Tree.apply]
    cases he : RectOps.empty it.rect with
    | true =>
      have : t.insert fuel it = t := by simp [Tree.insert, he]
      rw [this]; exact hf
    | false =>
      have hin : box.contains it.rect = true := by
        rcases hbox with hb | hb
        · have he' : it.rect.empty = false := he
          rw [he'] at hb; cases hb
        · exact hb
      obtain ⟨_, hp⟩ := insert_ok bounds fuel t h it hop he
      have hitems : ∀ x ∈ (t.insert fuel it).all, box.contains x.rect = true := by
        intro x hx
        rcases List.mem_cons.mp (hp.subset hx) with e | e
        · subst e; exact hin
        · exact hf.items x e
      refine ⟨?_, hitems⟩
      -- the root
      have hout : ∀ (t1 : Tree RI), t1.root = t.root → t1.outside = t.outside ++ [it] →
          ∀ r, (if t1.outside.length > t1.thr then t1.reorganize fuel else t1).root = some r →
            Good r ∧ r.rect.empty = false ∧ box.contains r.rect = true := by
        intro t1 e1 e2 r hr
        split at hr
        · refine reorganize_root box fuel t1 ?_ r hr
          intro x hx
          rw [all_eq, e1, e2] at hx
          rcases List.mem_append.mp hx with e | e
          · rcases List.mem_append.mp e with e | e
            · exact hf.items x (by rw [all_eq]; exact List.mem_append_left _ e)
            · simp only [List.mem_singleton] at e; subst e; exact hin
          · exact hf.items x (by rw [all_eq]; exact List.mem_append_right _ e)
        · exact hf.root r (e1 ▸ hr)
      unfold Tree.insert
      rw [if_neg (by simp [he])]
      simp only
      cases hroot : t.root with
      | none => simp only; exact hout _ hroot.symm rfl
      | some r0 =>
        simp only
        split
        · intro r hr
          simp only [Option.some.injEq] at hr
          obtain ⟨g, ne, hb⟩ := hf.root r0 hroot
          obtain ⟨a, b⟩ := insert_good t.nodeThr fuel r0 it g ne
          subst hr
          exact ⟨a, by rw [b]; exact ne, by rw [b]; exact hb⟩
        · exact hout _ hroot.symm rfl
  | remove id b =>
    simp only [Tree.apply]
    have hb : b = bounds id := hop
    subst hb
    obtain ⟨_, c⟩ := remove_ok bounds t h id
    have hitems : ∀ x ∈ (t.remove id (bounds id)).all, box.contains x.rect = true := by
      intro x hx
      rcases c with ⟨y, _, hp⟩ | ⟨he, _⟩
      · exact hf.items x (hp.symm.subset (List.mem_cons_of_mem _ hx))
      · rw [he] at hx; exact hf.items x hx
    refine ⟨?_, hitems⟩
    unfold Tree.remove
    cases ho : Node.swapRemove t.outside id with
    | some o' => simp only; exact hf.root
    | none =>
      simp only
      cases hroot : t.root with
      | none => simp only; intro r hr; rw [hroot] at hr; cases hr
      | some r0 =>
        simp only
        cases hr : Node.remove id (bounds id) r0 with
        | some r' =>
          simp only
          intro r hr'
          simp only [Option.some.injEq] at hr'
          obtain ⟨g, ne, hb⟩ := hf.root r0 hroot
          obtain ⟨e1, _, hg⟩ := remove_shape id (bounds id) r0 r' hr
          subst hr'
          exact ⟨hg g, by rw [e1]; exact ne, by rw [e1]; exact hb⟩
        | none =>
          simp only
          intro r hr'; rw [hroot] at hr'; exact hf.root r (by rw [hroot]; exact hr')
  | reorganize =>
    simp only [Tree.apply]
    exact ⟨reorganize_root box fuel t hf.items, fun x hx => hf.items x ((reorganize_perm fuel t).subset hx)⟩
  | clear =>
    simp only [Tree.apply]
    exact ⟨fun r hr => by simp [Tree.clear] at hr, fun x hx => by simp [Tree.clear, Tree.all] at hx⟩
  | setThreshold k =>
    simp only [Tree.apply]
    exact ⟨hf.root, hf.items⟩

theorem run_finv_aux (bounds : Nat → RI) (box : RI) (fuel : Nat) (ops : List (Op RI))
    (hops : ∀ op ∈ ops, OpOK bounds op) (hbox : ∀ op ∈ ops, InBox box op)
    (t : Tree RI) (h : TInv bounds t) (hf : FInv box t) :
    FInv box (ops.foldl (Tree.apply fuel) t) := by
  induction ops generalizing t with
  | nil => exact hf
  | cons op rest ih =>
    simp only [List.foldl_cons]
    exact ih (fun o ho => hops o (by simp [ho])) (fun o ho => hbox o (by simp [ho])) _
      (apply_ok bounds fuel t h op (hops op (by simp))).1
      (apply_finv bounds box fuel t h hf op (hops op (by simp)) (hbox op (by simp)))

theorem run_finv (bounds : Nat → RI) (box : RI) (fuel : Nat) (k : Int) (ops : List (Op RI))
    (hops : ∀ op ∈ ops, OpOK bounds op) (hbox : ∀ op ∈ ops, InBox box op) : FInv box (Tree.run fuel k ops) :=
  run_finv_aux bounds box fuel ops hops hbox _ (empty_inv bounds k)
    ⟨fun r hr => by simp [Tree.empty] at hr, fun x hx => by simp [Tree.empty, Tree.all] at hx⟩

end QT
