import Lemmas.U128Bits
/-! C01 helper lemmas: the division dispatch of `Model/U128.lean`. -/
namespace U128

def Res.map {α β : Type} (f : α → β) : Res α → Res β
  | .ok v => .ok (f v)
  | .panic => .panic

/-- `Div` is the quotient component of `DivMod` (the source has a separate copy of the dispatch) -/
theorem div_eq_divMod (u n : U128) : u.div n = (u.divMod n).map Prod.fst := by
  unfold div divMod
  by_cases h1 : n.hi = 0#64 ∧ n.lo = 0#64
  · simp only [h1, and_self, if_true, Res.map]
  · rw [if_neg h1, if_neg h1]
    by_cases h2 : n.hi = 0#64 ∧ n.lo = 1#64
    · simp only [h2, and_self, if_true, Res.map]
    · rw [if_neg h2, if_neg h2]
      by_cases h3 : n.hi = 0#64 ∧ u.hi = 0#64
      · simp only [h3, and_self, if_true, Res.map]
      · rw [if_neg h3, if_neg h3]
        simp only [apply_ite (Res.map Prod.fst)]; rfl

/-- `Mod` is the remainder component of `DivMod` -/
theorem mod_eq_divMod (u n : U128) : u.mod n = (u.divMod n).map Prod.snd := by
  unfold mod divMod
  by_cases h1 : n.hi = 0#64 ∧ n.lo = 0#64
  · simp only [h1, and_self, if_true, Res.map]
  · rw [if_neg h1, if_neg h1]
    by_cases h2 : n.hi = 0#64 ∧ n.lo = 1#64
    · simp only [h2, and_self, if_true, Res.map]
    · rw [if_neg h2, if_neg h2]
      by_cases h3 : n.hi = 0#64 ∧ u.hi = 0#64
      · simp only [h3, and_self, if_true, Res.map]
      · rw [if_neg h3, if_neg h3]
        simp only [apply_ite (Res.map Prod.snd)]; rfl
theorem ofW_hi (n : W) : (ofW n).hi = 0#64 := rfl
theorem ofW_lo (n : W) : (ofW n).lo = n := rfl

theorem cmpW_eq_cmp (u : U128) (n : W) : u.cmpW n = u.cmp (ofW n) := by
  rw [cmpW_eq, cmp_eq, ofW_toNat]

theorem trailingZeros_ofW (n : W) (h : n ≠ 0#64) : (ofW n).trailingZeros = ctz n := by
  unfold trailingZeros; rw [ofW_lo, if_neg h]

theorem dec_ofW (n : W) (h : n ≠ 0#64) : (ofW n).dec = ofW (n - 1#64) := by
  have hn : n.toNat ≠ 0 := fun e => h (BitVec.eq_of_toNat_eq (by simpa using e))
  unfold dec sub64 ofW
  simp only [BitVec.sub_zero, U128.mk.injEq, and_true]
  have h1 : (1#64).toNat = 1 := rfl
  have h0 : (0#64).toNat = 0 := rfl
  have : ¬ n.toNat < 1 + 0 := by omega
  rw [h1, h0, if_neg this, BitVec.sub_zero]

theorem and_comm' (u n : U128) : u.and n = n.and u := by
  unfold U128.and; rw [BitVec.and_comm u.hi, BitVec.and_comm u.lo]

/-- `DivMod64` is `DivMod` by the zero-extended divisor, branch by branch -/
theorem divModW_eq (u : U128) (n : W) : u.divModW n = u.divMod (ofW n) := by
  unfold divModW divMod
  simp only [ofW_hi, ofW_lo, true_and, if_true]
  by_cases h1 : n = 0#64
  · simp only [h1, if_true]
  · rw [if_neg h1, if_neg h1]
    by_cases h2 : n = 1#64
    · simp only [h2, if_true]
    · rw [if_neg h2, if_neg h2]
      by_cases h3 : u.hi = 0#64
      · simp only [h3, if_true]
      · rw [if_neg h3, if_neg h3, trailingZeros_ofW n h1, dec_ofW n h1, cmpW_eq_cmp, andW_eq, and_comm']
        unfold divmod128by128
        simp only [ofW_hi, ofW_lo, if_true]
        split
        · rfl
        split
        · rfl
        split
        · rfl
        split
        · split
          · rename_i h; simp only [h, ↓reduceIte]
          · rename_i h; simp only [h, ↓reduceIte]
        · rfl

theorem divW_eq (u : U128) (n : W) : u.divW n = u.div (ofW n) := by
  unfold divW div
  simp only [ofW_hi, ofW_lo, true_and, if_true]
  by_cases h1 : n = 0#64
  · simp only [h1, if_true]
  · rw [if_neg h1, if_neg h1]
    by_cases h2 : n = 1#64
    · simp only [h2, if_true]
    · rw [if_neg h2, if_neg h2]
      by_cases h3 : u.hi = 0#64
      · simp only [h3, if_true]
      · rw [if_neg h3, if_neg h3, trailingZeros_ofW n h1, cmpW_eq_cmp]
        unfold divmod128by128
        simp only [ofW_hi, ofW_lo, if_true]
        split
        · rfl
        split
        · rfl
        split
        · rfl
        split
        · split
          · rename_i h; simp only [h, ↓reduceIte]
          · rename_i h; simp only [h, ↓reduceIte]
        · rfl

theorem modW_eq (u : U128) (n : W) : u.modW n = u.mod (ofW n) := by
  unfold modW mod
  simp only [ofW_hi, ofW_lo, true_and, if_true]
  by_cases h1 : n = 0#64
  · simp only [h1, if_true]
  · rw [if_neg h1, if_neg h1]
    by_cases h2 : n = 1#64
    · simp only [h2, if_true]
    · rw [if_neg h2, if_neg h2]
      by_cases h3 : u.hi = 0#64
      · simp only [h3, if_true]
      · rw [if_neg h3, if_neg h3, trailingZeros_ofW n h1, dec_ofW n h1, cmpW_eq_cmp, andW_eq, and_comm']
        unfold divmod128by128
        simp only [ofW_hi, ofW_lo, if_true]
        split
        · rfl
        split
        · rfl
        split
        · rfl
        split
        · by_cases h : u.hi.toNat < n.toNat
          · have h' : ¬ u.hi.toNat ≥ n.toNat := by omega
            simp only [h, h', ↓reduceIte]
          · have h' : u.hi.toNat ≥ n.toNat := by omega
            simp only [h, h', ↓reduceIte]
        · rfl
/-- the value of `nLeading0` in the dispatch is `LeadingZeros` of the divisor -/
theorem nLeading0_eq (n : U128) : (if n.hi = 0#64 then clz n.lo + 64 else clz n.hi) = n.leadingZeros := rfl

theorem low_bits_zero (x k : Nat) (h : ∀ j, j < k → x.testBit j = false) : x % 2^k = 0 := by
  apply Nat.eq_of_testBit_eq
  intro i
  rw [Nat.testBit_mod_two_pow, Nat.zero_testBit]
  by_cases hi : i < k
  · simp [hi, h i hi]
  · simp [hi]

/-- only one bit set: `LeadingZeros + TrailingZeros = 127` forces the divisor to be `2^TrailingZeros` -/
theorem pow2_of_lz_tz (n : U128) (h0 : n.toNat ≠ 0) (h : n.leadingZeros + n.trailingZeros = 127) :
    n.toNat = 2 ^ n.trailingZeros := by
  have hle := bitLen_le n
  have hlz := leadingZeros_eq n
  have hb : n.bitLen = n.trailingZeros + 1 := by omega
  have hup := bitLen_upper n
  have hlo := bitLen_lower n h0
  obtain ⟨_, _, hz⟩ := trailingZeros_spec n h0
  have hm := low_bits_zero n.toNat n.trailingZeros hz
  rw [hb] at hup hlo
  simp only [Nat.add_sub_cancel] at hlo
  generalize n.trailingZeros = k at *
  generalize n.toNat = x at *
  have hd : x / 2^k = 1 := Nat.div_eq_of_lt_le (by omega) (by rw [Nat.pow_succ] at hup; omega)
  have := Nat.div_add_mod x (2^k)
  rw [hd, hm] at this
  omega

theorem pow2_path (u n : U128) (h0 : n.toNat ≠ 0) (h : n.leadingZeros + n.trailingZeros = 127) :
    (u.rightShift n.trailingZeros).toNat = u.toNat / n.toNat ∧ ((n.dec).and u).toNat = u.toNat % n.toNat := by
  have hp := pow2_of_lz_tz n h0 h
  have hlt := n.toNat_lt
  constructor
  · rw [rightShift_toNat, hp]
  · rw [← bv_toNat, and_bv, BitVec.toNat_and, bv_toNat, bv_toNat, dec_toNat]
    have e : (n.toNat + 2^128 - 1) % 2^128 = n.toNat - 1 := by omega
    rw [e, hp, Nat.and_comm, Nat.and_two_pow_sub_one_eq_mod]
/-- contract of `divmod128by64` (Knuth D / Hacker's Delight `divlu` on 32-bit digits): called with the divisor's true
    leading-zero count and a dividend whose high word is smaller than the divisor -/
def Divlu64Spec : Prop := ∀ (u : U128) (n : W), n ≠ 0#64 → u.hi.toNat < n.toNat →
    (divmod128by64 u n (clz n)).1.toNat = u.toNat / n.toNat ∧
    (divmod128by64 u n (clz n)).2.toNat = u.toNat % n.toNat

/-- contract of the estimate-and-correct branch of `divmod128by128` (divisor wider than one word), for EVERY dividend
    (the dispatch only sends dividends greater than the divisor; the kernel does not need that) -/
def Div128Spec : Prop := ∀ (u n : U128), n.hi ≠ 0#64 →
    (divmod128by128 u n (clz n.hi) 0).1.toNat = u.toNat / n.toNat ∧
    (divmod128by128 u n (clz n.hi) 0).2.toNat = u.toNat % n.toNat

/-- contract of `divmod128bin` (shift-and-subtract) as the dispatch calls it -/
def DivBinSpec : Prop := ∀ (u n : U128), n.toNat ≠ 0 → n.toNat < u.toNat →
    (divmod128bin u n u.leadingZeros n.leadingZeros).1.toNat = u.toNat / n.toNat ∧
    (divmod128bin u n u.leadingZeros n.leadingZeros).2.toNat = u.toNat % n.toNat

theorem mk0_toNat (x : W) : (U128.mk 0#64 x).toNat = x.toNat := by
  unfold toNat; have : (0#64).toNat = 0 := rfl; simp only [this]; omega

theorem split_div (h l n B : Nat) (hn : 0 < n) :
    (h * B + l) / n = (h / n) * B + ((h % n) * B + l) / n ∧ (h * B + l) % n = ((h % n) * B + l) % n := by
  have e : h * B + l = n * ((h / n) * B) + ((h % n) * B + l) := by
    have := Nat.div_add_mod h n
    calc h * B + l = (n * (h / n) + h % n) * B + l := by rw [this]
      _ = n * ((h / n) * B) + ((h % n) * B + l) := by ring
  rw [e, Nat.mul_add_div hn, Nat.mul_add_mod]
  exact ⟨rfl, rfl⟩

/-- the word-divisor branch of `divmod128by128` (also the body of `DivMod64`), from the 128/64 kernel contract -/
theorem by64_split (h64 : Divlu64Spec) (u : U128) (n : W) (hn : n ≠ 0#64) :
    (divmod128by128 u (ofW n) 64 (clz n)).1.toNat = u.toNat / n.toNat ∧
    (divmod128by128 u (ofW n) 64 (clz n)).2.toNat = u.toNat % n.toNat := by
  have hnpos : 0 < n.toNat := by
    have : n.toNat ≠ 0 := fun e => hn (BitVec.eq_of_toNat_eq (by simpa using e))
    omega
  unfold divmod128by128
  simp only [ofW_hi, ofW_lo, if_true]
  by_cases h : u.hi.toNat < n.toNat
  · simp only [h, if_true, mk0_toNat]
    exact h64 u n hn h
  · simp only [h, if_false]
    have hm : (u.hi % n).toNat < n.toNat := by rw [BitVec.toNat_umod]; exact Nat.mod_lt _ hnpos
    obtain ⟨a, b⟩ := h64 ⟨u.hi % n, u.lo⟩ n hn hm
    obtain ⟨c, d⟩ := split_div u.hi.toNat u.lo.toNat n.toNat (2^64) hnpos
    have e : (U128.mk (u.hi % n) u.lo).toNat = (u.hi.toNat % n.toNat) * 2^64 + u.lo.toNat := by
      show (u.hi % n).toNat * 2^64 + _ = _
      rw [BitVec.toNat_umod]
    rw [mk0_toNat, b]
    constructor
    · show (u.hi / n).toNat * 2^64 + _ = _
      rw [a, e, BitVec.toNat_udiv]
      exact c.symm
    · rw [e]
      exact d.symm

/-- what the dispatch needs from the kernels for one operand pair -/
def KernelOK (u n : U128) : Prop :=
  (n.leadingZeros - u.leadingZeros > threshold →
    (divmod128by128 u n (if n.hi = 0#64 then 64 else clz n.hi) (if n.hi = 0#64 then clz n.lo else 0)).1.toNat
        = u.toNat / n.toNat ∧
    (divmod128by128 u n (if n.hi = 0#64 then 64 else clz n.hi) (if n.hi = 0#64 then clz n.lo else 0)).2.toNat
        = u.toNat % n.toNat) ∧
  (¬ n.leadingZeros - u.leadingZeros > threshold →
    (divmod128bin u n u.leadingZeros n.leadingZeros).1.toNat = u.toNat / n.toNat ∧
    (divmod128bin u n u.leadingZeros n.leadingZeros).2.toNat = u.toNat % n.toNat)

/-- a kernel is reached only when none of the fast paths applies -/
def SlowPath (u n : U128) : Prop :=
  n.toNat < u.toNat ∧ ¬ (n.hi = 0#64 ∧ n.lo = 1#64) ∧ ¬ (n.hi = 0#64 ∧ u.hi = 0#64) ∧
    ¬ n.leadingZeros + n.trailingZeros = 127

/-- **DivMod, the dispatch**: ÷1, the 64-bit fast path, the power-of-two path, `u < n` and `u = n` are correct
    outright; the two remaining branches return what the kernels return. -/
theorem divMod_dispatch (u n : U128) (h0 : n.toNat ≠ 0) (K : SlowPath u n → KernelOK u n) :
    ∃ q r, u.divMod n = .ok (q, r) ∧ q.toNat = u.toNat / n.toNat ∧ r.toNat = u.toNat % n.toNat := by
  have hnh := n.hi.isLt; have hnl := n.lo.isLt; have huh := u.hi.isLt; have hul := u.lo.isLt
  have z0 : (0#64).toNat = 0 := rfl
  have z1 : (1#64).toNat = 1 := rfl
  unfold divMod
  by_cases h1 : n.hi = 0#64 ∧ n.lo = 0#64
  · exfalso; apply h0; unfold toNat; rw [h1.1, h1.2, z0]
  rw [if_neg h1]
  by_cases h2 : n.hi = 0#64 ∧ n.lo = 1#64
  · rw [if_pos h2]
    have : n.toNat = 1 := by unfold toNat; rw [h2.1, h2.2, z0, z1]
    refine ⟨u, zero, rfl, ?_, ?_⟩
    · rw [this, Nat.div_one]
    · rw [this, Nat.mod_one]; rfl
  rw [if_neg h2]
  by_cases h3 : n.hi = 0#64 ∧ u.hi = 0#64
  · rw [if_pos h3]
    refine ⟨_, _, rfl, ?_, ?_⟩
    · rw [mk0_toNat, BitVec.toNat_udiv, toNat_of_hi_zero u h3.2, toNat_of_hi_zero n h3.1]
    · rw [mk0_toNat, BitVec.toNat_umod, toNat_of_hi_zero u h3.2, toNat_of_hi_zero n h3.1]
  rw [if_neg h3]
  simp only []
  by_cases h4 : (if n.hi = 0#64 then clz n.lo + 64 else clz n.hi) + n.trailingZeros = 127
  · rw [if_pos h4]
    exact ⟨_, _, rfl, pow2_path u n h0 h4⟩
  rw [if_neg h4, cmp_eq]
  by_cases h5 : u.toNat < n.toNat
  · simp only [h5, if_true, Int.reduceNeg, Int.reduceLT]
    refine ⟨zero, u, rfl, ?_, ?_⟩
    · rw [Nat.div_eq_of_lt h5]; rfl
    · rw [Nat.mod_eq_of_lt h5]
  by_cases h6 : u.toNat = n.toNat
  · simp only [h5, h6, if_true, if_false, Nat.lt_irrefl, Int.lt_irrefl]
    refine ⟨one, zero, rfl, ?_, ?_⟩
    · rw [Nat.div_self (by omega)]; rfl
    · rw [Nat.mod_self]; rfl
  have hgt : n.toNat < u.toNat := by omega
  have e1 : ¬ ((if u.toNat < n.toNat then (-1 : Int) else if u.toNat = n.toNat then 0 else 1) < 0) := by
    rw [if_neg h5, if_neg h6]; omega
  have e2 : ¬ ((if u.toNat < n.toNat then (-1 : Int) else if u.toNat = n.toNat then 0 else 1) = 0) := by
    rw [if_neg h5, if_neg h6]; omega
  rw [if_neg e1, if_neg e2]
  obtain ⟨k1, k2⟩ := K ⟨hgt, h2, h3, h4⟩
  by_cases h7 : (if n.hi = 0#64 then clz n.lo + 64 else clz n.hi) - u.leadingZeros > threshold
  · rw [if_pos h7]
    exact ⟨_, _, rfl, k1 h7⟩
  · rw [if_neg h7]
    exact ⟨_, _, rfl, k2 h7⟩

/-- the kernel contracts give `KernelOK` for every operand pair -/
theorem kernelOK_of_specs (h64 : Divlu64Spec) (h128 : Div128Spec) (hbin : DivBinSpec) (u n : U128)
    (h0 : n.toNat ≠ 0) (hs : SlowPath u n) : KernelOK u n := by
  obtain ⟨hgt, _, _, _⟩ := hs
  have z0 : (0#64).toNat = 0 := rfl
  refine ⟨fun _ => ?_, fun _ => hbin u n h0 hgt⟩
  by_cases hh : n.hi = 0#64
  · have hn : n = ofW n.lo := by cases n; simp only [ofW] at *; rw [hh]
    have hlo : n.lo ≠ 0#64 := by
      intro e; apply h0; unfold toNat; rw [hh, e, z0]
    simp only [hh, if_true]
    have := by64_split h64 u n.lo hlo
    rw [← hn] at this
    rw [toNat_of_hi_zero n hh]
    exact this
  · simp only [hh, if_false]
    exact h128 u n hh

/-- **DivMod is floor division with remainder**, given the contracts of the three kernels -/
theorem divMod_correct (h64 : Divlu64Spec) (h128 : Div128Spec) (hbin : DivBinSpec) (u n : U128)
    (h0 : n.toNat ≠ 0) :
    ∃ q r, u.divMod n = .ok (q, r) ∧ q.toNat = u.toNat / n.toNat ∧ r.toNat = u.toNat % n.toNat :=
  divMod_dispatch u n h0 (kernelOK_of_specs h64 h128 hbin u n h0)

/-- **DivMod on the fast paths** (no kernel, no hypothesis): divisor 1, both operands below 2^64, divisor a power
    of two, dividend not greater than the divisor -/
theorem divMod_fast (u n : U128) (h0 : n.toNat ≠ 0)
    (hp : n.toNat = 1 ∨ (u.toNat < 2^64 ∧ n.toNat < 2^64) ∨ n.leadingZeros + n.trailingZeros = 127 ∨
      u.toNat ≤ n.toNat) :
    ∃ q r, u.divMod n = .ok (q, r) ∧ q.toNat = u.toNat / n.toNat ∧ r.toNat = u.toNat % n.toNat := by
  apply divMod_dispatch u n h0
  intro ⟨hgt, h2, h3, h4⟩
  exfalso
  have hnh := n.hi.isLt; have hnl := n.lo.isLt; have huh := u.hi.isLt; have hul := u.lo.isLt
  rcases hp with h | h | h | h
  · apply h2
    unfold toNat at h
    constructor <;> (rw [w_eq_iff, BitVec.toNat_ofNat]; omega)
  · apply h3
    unfold toNat at h
    constructor <;> (rw [w_eq_iff, BitVec.toNat_ofNat]; omega)
  · exact h4 h
  · omega

/-- no operation other than division by zero panics: `DivMod` panics exactly for a zero divisor -/
theorem divMod_panic_iff (u n : U128) : u.divMod n = .panic ↔ n.toNat = 0 := by
  have hnh := n.hi.isLt; have hnl := n.lo.isLt
  have z0 : (0#64).toNat = 0 := rfl
  constructor
  · intro h
    unfold divMod at h
    by_cases h1 : n.hi = 0#64 ∧ n.lo = 0#64
    · unfold toNat; rw [h1.1, h1.2, z0]
    · rw [if_neg h1] at h
      simp only [] at h
      repeat' split at h
      all_goals cases h
  · intro h
    unfold toNat at h
    have h1 : n.hi = 0#64 := by rw [w_eq_iff, BitVec.toNat_ofNat]; omega
    have h2 : n.lo = 0#64 := by rw [w_eq_iff, BitVec.toNat_ofNat]; omega
    unfold divMod; rw [if_pos ⟨h1, h2⟩]
end U128
