import Lemmas.Cmdline
/-! the float and duration conversions of the typed `Set` layer are computed by the model: independence of the oracle
    parameter, range of an accepted duration, kernel-evaluated instances -/
namespace Cmd

theorem floatVal_oracle_free (orc orc' : Oracle) (f : SoftFloat.Fmt) (s : Str)
    (h : SoftFloat.parse f s ≠ .outside) : floatVal orc f s = floatVal orc' f s := by
  unfold floatVal
  cases hp : SoftFloat.parse f s with
  | ok b => rfl
  | err => rfl
  | outside => exact absurd hp h

/-- the typed layer depends on the oracle for nothing but float texts outside the IEEE-754 parser of the model -/
theorem typed_oracle_free (orc orc' : Oracle) (b : Base) (s : Str)
    (h32 : b = .f32 → SoftFloat.parse SoftFloat.f32 s ≠ .outside)
    (h64 : b = .f64 → SoftFloat.parse SoftFloat.f64 s ≠ .outside) : typed orc b s = typed orc' b s := by
  cases b with
  | f32 => exact floatVal_oracle_free orc orc' _ s (h32 rfl)
  | f64 => exact floatVal_oracle_free orc orc' _ s (h64 rfl)
  | _ => rfl

theorem durGroup_le (s : Str) (d : Nat) (p : Nat × Str) (h : durGroup s d = some p) : p.1 ≤ 2 ^ 63 := by
  unfold durGroup at h
  cases hr : durGroupRaw s d with
  | none => simp [hr] at h
  | some q =>
    simp only [hr] at h
    by_cases hq : q.1 > 2 ^ 63
    · simp [hq] at h
    · simp only [hq, if_false, Option.some.injEq] at h
      subst h
      omega

/-- the running total of `ParseDuration` never leaves `[0, 2^63]` -/
theorem durLoop_le (fuel : Nat) : ∀ (s : Str) (d r : Nat), d ≤ 2 ^ 63 → durLoop fuel s d = some r → r ≤ 2 ^ 63 := by
  induction fuel with
  | zero =>
    intro s d r hd h
    unfold durLoop at h
    by_cases hs : s = []
    · simp only [hs, if_true, Option.some.injEq] at h; omega
    · simp [hs] at h
  | succ n ih =>
    intro s d r hd h
    unfold durLoop at h
    by_cases hs : s = []
    · simp only [hs, if_true, Option.some.injEq] at h; omega
    · simp only [hs, if_false] at h
      cases hg : durGroup s d with
      | none => simp [hg] at h
      | some p =>
        simp only [hg] at h
        exact ih p.2 p.1 r (durGroup_le s d p hg) h

/-- an accepted duration is an int64: the conversion `Duration(d)` / `-Duration(d)` in `ParseDuration` is exact -/
theorem parseDuration_range (s : Str) (v : Int) (h : parseDuration s = some v) :
    -((2 ^ 63 : Nat) : Int) ≤ v ∧ v < ((2 ^ 63 : Nat) : Int) := by
  unfold parseDuration at h
  simp only at h
  generalize (if (s.head? == some 45 || s.head? == some 43) = true then s.tail else s) = r at h
  by_cases h0 : r = [48]
  · simp only [h0, if_true, Option.some.injEq] at h; subst h; constructor <;> omega
  · simp only [h0, if_false] at h
    by_cases he : r = []
    · simp [he] at h
    · simp only [he, if_false] at h
      cases hd : durLoop r.length r 0 with
      | none => simp [hd] at h
      | some d =>
        simp only [hd] at h
        have hle := durLoop_le _ _ 0 d (by omega) hd
        by_cases hn : (s.head? == some 45) = true
        · simp only [hn, if_true, Option.some.injEq] at h
          subst h
          by_cases h63 : d = 2 ^ 63
          · simp only [h63, if_true]; constructor <;> omega
          · simp only [h63, if_false]; constructor <;> omega
        · simp only [hn] at h
          by_cases hb : d > 2 ^ 63 - 1
          · simp [hb] at h
          · simp only [hb, if_false, Bool.false_eq_true, Option.some.injEq] at h
            subst h; constructor <;> omega

/-! ### CONTRAST: float32 options parsed at 64 bits and narrowed (double rounding) -/

/-- `float32(strconv.ParseFloat(s, 64))`: what the `*float32` case of `Set` would store if it asked `ParseFloat` for 64
    bits (values.go asks for 32) -/
def floatViaF64 (s : Str) : Option Nat :=
  match SoftFloat.parse SoftFloat.f64 s with
  | .ok b =>
    (match SoftFloat.decode SoftFloat.f64 b with
     | .fin n m e => some (SoftFloat.ofScaled SoftFloat.f32 n m e)
     | _ => none)
  | _ => none

/-- the decimal text `1.00000005960464477539062500000000000000001`: just above the midpoint `1 + 2^-24` of two float32 values -/
def textAboveMidpoint : Str := [49,46,48,48,48,48,48,48,48,53,57,54,48,52,54,52,52,55,55,53,51,57,48,54,50,53,48,48,48,48,48,48,48,48,48,48,48,48,48,48,48,48,49]

theorem floatVal_midpoint : floatVal [] SoftFloat.f32 textAboveMidpoint = some "3f800001" := by decide

theorem floatViaF64_midpoint : floatViaF64 textAboveMidpoint = some 0x3f800000 := by decide

/-! kernel-evaluated instances of the duration transcription -/
theorem parseDuration_frac_hours : parseDuration [49, 46, 53, 104] = some 5400000000000 := by decide   -- "1.5h"
theorem parseDuration_min : parseDuration [45,57,50,50,51,51,55,50,48,51,54,56,53,52,55,55,53,56,48,56,110,115] = some (-9223372036854775808) := by decide   -- "-9223372036854775808ns"
theorem parseDuration_over : parseDuration [57,50,50,51,51,55,50,48,51,54,56,53,52,55,55,53,56,48,56,110,115] = none := by decide   -- "9223372036854775808ns"

end Cmd
