import Lemmas.RateLimiterServe
/-! C16: `TicksServed` — the hypothesis of `eventually_answered` — derived from assumptions about the scheduler and the
    passing of time only: ticks keep firing (`TicksFire`), goroutines inside a critical section of their own are
    scheduled (`HoldersRun`, `DrainFair.runs`), the lock is fair to the waiting ticker goroutine (`LockFair`,
    `DrainFair.lock`).  That the lock IS free again and again while the goroutine waits for it is derived from the
    protocol (`lockInv`, `closer_returned`).  Core Lean. -/
namespace RL

/-- time passes: the ticker goroutine does not sit at its `select` for ever — a tick fires or `done` is received -/
def TicksFire (run : Nat → S) : Prop := ∀ i, (run i).tpc = .sel → ∃ j, i ≤ j ∧ (run j).tpc ≠ .sel

/-- the same two scheduler assumptions as `LockFair` / `HoldersRun.ticker`, for the goroutine's second critical
    section (the final drain): the lock is fair to it, and once inside it runs -/
structure DrainFair (run : Nat → S) : Prop where
  lock : ∀ i, (∀ j, i ≤ j → ∃ k, j ≤ k ∧ (run k).tpc = .dlock ∧ (run k).holder = .free) →
    ∃ k, i ≤ k ∧ (run k).tpc = .dlock ∧ (run (k + 1)).tpc = .dcrit
  runs : ∀ i, (run i).tpc = .dcrit → ∃ j, i ≤ j ∧ (run j).tpc ≠ .dcrit

/-- the only step that leaves `tcrit` is the body of the tick -/
theorem step_from_tcrit {s s' : S} (st : Step s s') (h : s.tpc = .tcrit) (hne : s'.tpc ≠ .tcrit) : s' = doTickRuns s := by
  cases st with
  | tickRuns h1 h0 => rfl
  | tickFires h1 => rw [h] at h1; cases h1
  | tickLock h1 h0 => rw [h] at h1; cases h1
  | tickUnlock h1 => rw [h] at h1; cases h1
  | doneReceived h1 h2 => rw [h] at h1; cases h1
  | drainLock h1 h0 => rw [h] at h1; cases h1
  | drain h1 h0 => rw [h] at h1; cases h1
  | drainUnlock h1 => rw [h] at h1; cases h1
  | _ => exact absurd h hne

/-- the only step that leaves `dcrit` is the drain -/
theorem step_from_dcrit {s s' : S} (st : Step s s') (h : s.tpc = .dcrit) (hne : s'.tpc ≠ .dcrit) : s' = doDrain s := by
  cases st with
  | drain h1 h0 => rfl
  | tickFires h1 => rw [h] at h1; cases h1
  | tickLock h1 h0 => rw [h] at h1; cases h1
  | tickRuns h1 h0 => rw [h] at h1; cases h1
  | tickUnlock h1 => rw [h] at h1; cases h1
  | doneReceived h1 h2 => rw [h] at h1; cases h1
  | drainLock h1 h0 => rw [h] at h1; cases h1
  | drainUnlock h1 => rw [h] at h1; cases h1
  | _ => exact absurd h hne

/-- the closer's step out of `marked` releases the lock -/
theorem closer_leaves_marked {s s' : S} (st : Step s s') (h : s.cpc = .marked) (hne : s'.cpc ≠ .marked) :
    s'.holder = .free := by
  cases st with
  | closeUnlock h2 => rfl
  | closeLock h0 h2 => rw [h] at h2; cases h2
  | closeRoot h0 h1 h2 => rw [h] at h2; cases h2
  | closeSkip h1 h2 => rw [h] at h2; cases h2
  | doneReceived h1 h2 => rw [h] at h2; cases h2
  | _ => exact absurd h hne

/-- the closer's step out of `crit` marks the tree (still holding the lock) or returns, releasing it -/
theorem closer_leaves_crit {s s' : S} (st : Step s s') (h : s.cpc = .crit) (hne : s'.cpc ≠ .crit) :
    s'.cpc = .marked ∨ s'.holder = .free := by
  cases st with
  | closeRoot h0 h1 h2 => exact Or.inl rfl
  | closeSkip h1 h2 => exact Or.inr rfl
  | closeLock h0 h2 => rw [h] at h2; cases h2
  | closeUnlock h2 => rw [h] at h2; cases h2
  | doneReceived h1 h2 => rw [h] at h2; cases h2
  | _ => exact absurd h hne

/-- what `TicksServed` asks for, from instant `i` on -/
def ServedFrom (run : Nat → S) (i : Nat) : Prop :=
  ∃ j, i ≤ j ∧ (((run j).tpc = .tcrit ∧ run (j + 1) = doTickRuns (run j)) ∨
                ((run j).tpc = .dcrit ∧ run (j + 1) = doDrain (run j)))

theorem servedFrom_mono {run : Nat → S} {i i' : Nat} (h : i ≤ i') (s : ServedFrom run i') : ServedFrom run i := by
  obtain ⟨j, hj, hs⟩ := s
  exact ⟨j, by omega, hs⟩

section ticks
variable {c : Nat} {run : Nat → S} (r : IsRun c run) (hr : HoldersRun run)
include r hr

/-- while the ticker goroutine waits for the lock (at `tlock` or at `dlock`), the lock is free again and again: an API
    holder finishes, the goroutine in root `Close` marks and unlocks, and the goroutine itself is not the holder -/
theorem lock_free_again (p : TPC) (hp : p = .tlock ∨ p = .dlock) (j : Nat) (hstay : ∀ j', j ≤ j' → (run j').tpc = p) :
    ∀ j', j ≤ j' → ∃ k, j' ≤ k ∧ (run k).tpc = p ∧ (run k).holder = .free := by
  have fromMarked : ∀ j', j ≤ j' → (run j').cpc = .marked → ∃ k, j' ≤ k ∧ (run k).tpc = p ∧ (run k).holder = .free := by
    intro j' hj' hm
    obtain ⟨j'', hj'', hne⟩ := hr.closer j' (Or.inr hm)
    rw [hm] at hne
    obtain ⟨m, m1, _, m3, m4⟩ := first_change (fun n => (run n).cpc = .marked) j' j'' hj'' hm hne
    exact ⟨m + 1, by omega, hstay (m + 1) (by omega), closer_leaves_marked (r.step m) m3 m4⟩
  intro j' hj'
  obtain ⟨h1, h2, _⟩ := lockInv (r.reach j')
  cases hq : (run j').holder with
  | free => exact ⟨j', Nat.le_refl _, hstay j' hj', hq⟩
  | ticker =>
    have := hstay j' hj'
    rcases hp with hp | hp <;> subst hp <;> rcases h1.mp hq with h | h | h | h <;> rw [this] at h <;> cases h
  | closer =>
    rcases h2.mp hq with hc | hc
    · obtain ⟨j'', hj'', hne⟩ := hr.closer j' (Or.inl hc)
      rw [hc] at hne
      obtain ⟨m, m1, _, m3, m4⟩ := first_change (fun n => (run n).cpc = .crit) j' j'' hj'' hc hne
      rcases closer_leaves_crit (r.step m) m3 m4 with h | h
      · obtain ⟨k, hk, hk2⟩ := fromMarked (m + 1) (by omega) h
        exact ⟨k, by omega, hk2⟩
      · exact ⟨m + 1, by omega, hstay (m + 1) (by omega), h⟩
    · exact fromMarked j' hj' hc
  | api =>
    obtain ⟨j'', hj'', hne⟩ := hr.api j' hq
    obtain ⟨m, m1, _, m3, m4⟩ := first_change (fun n => (run n).holder = .api) j' j'' hj'' hq hne
    rcases api_next (r.reach m) (r.step m) m3 with h | h
    · exact absurd h m4
    · exact ⟨m + 1, by omega, hstay (m + 1) (by omega), h⟩

theorem served_from_tcrit (i : Nat) (ht : (run i).tpc = .tcrit) : ServedFrom run i := by
  obtain ⟨j', hj', hne⟩ := hr.ticker i (Or.inl ht)
  rw [ht] at hne
  obtain ⟨m, m1, _, m3, m4⟩ := first_change (fun n => (run n).tpc = .tcrit) i j' hj' ht hne
  exact ⟨m, m1, Or.inl ⟨m3, step_from_tcrit (r.step m) m3 m4⟩⟩

omit hr in
theorem served_from_dcrit (df : DrainFair run) (i : Nat) (ht : (run i).tpc = .dcrit) : ServedFrom run i := by
  obtain ⟨j', hj', hne⟩ := df.runs i ht
  obtain ⟨m, m1, _, m3, m4⟩ := first_change (fun n => (run n).tpc = .dcrit) i j' hj' ht hne
  exact ⟨m, m1, Or.inr ⟨m3, step_from_dcrit (r.step m) m3 m4⟩⟩

theorem served_from_tlock (lf : LockFair run) (i : Nat) (ht : (run i).tpc = .tlock) : ServedFrom run i := by
  by_cases hleave : ∃ j', i ≤ j' ∧ (run j').tpc ≠ .tlock
  · obtain ⟨j', hj', hne⟩ := hleave
    obtain ⟨m, m1, _, m3, m4⟩ := first_change (fun n => (run n).tpc = .tlock) i j' hj' ht hne
    have hnext : (run (m + 1)).tpc = .tcrit := by
      rcases tpc_next (r.step m) with h | h | h | h | h | h | h | h
      · exact absurd (h.trans m3) m4
      · rw [m3] at h; cases h.1
      · exact h.2
      · rw [m3] at h; cases h.1
      · rw [m3] at h; cases h.1
      · rw [m3] at h; cases h.1
      · rw [m3] at h; cases h.1
      · rw [m3] at h; cases h.1
    exact servedFrom_mono (by omega) (served_from_tcrit r hr (m + 1) hnext)
  · have hstay : ∀ j', i ≤ j' → (run j').tpc = .tlock := by
      intro j' hj'
      apply Classical.byContradiction
      intro hne
      exact hleave ⟨j', hj', hne⟩
    obtain ⟨k, hk, _, hk2⟩ := lf i (lock_free_again r hr .tlock (Or.inl rfl) i hstay)
    have := hstay (k + 1) (by omega)
    rw [this] at hk2; cases hk2

theorem served_from_dlock (df : DrainFair run) (i : Nat) (ht : (run i).tpc = .dlock) : ServedFrom run i := by
  by_cases hleave : ∃ j', i ≤ j' ∧ (run j').tpc ≠ .dlock
  · obtain ⟨j', hj', hne⟩ := hleave
    obtain ⟨m, m1, _, m3, m4⟩ := first_change (fun n => (run n).tpc = .dlock) i j' hj' ht hne
    have hnext : (run (m + 1)).tpc = .dcrit := by
      rcases tpc_next (r.step m) with h | h | h | h | h | h | h | h
      · exact absurd (h.trans m3) m4
      · rw [m3] at h; cases h.1
      · rw [m3] at h; cases h.1
      · rw [m3] at h; cases h.1
      · rw [m3] at h; cases h.1
      · exact h.2
      · rw [m3] at h; cases h.1
      · rw [m3] at h; cases h.1
    exact servedFrom_mono (by omega) (served_from_dcrit r df (m + 1) hnext)
  · have hstay : ∀ j', i ≤ j' → (run j').tpc = .dlock := by
      intro j' hj'
      apply Classical.byContradiction
      intro hne
      exact hleave ⟨j', hj', hne⟩
    obtain ⟨k, hk, _, hk2⟩ := df.lock i (lock_free_again r hr .dlock (Or.inr rfl) i hstay)
    have := hstay (k + 1) (by omega)
    rw [this] at hk2; cases hk2

theorem served_from_sel (lf : LockFair run) (df : DrainFair run) (tf : TicksFire run) (i : Nat)
    (ht : (run i).tpc = .sel) : ServedFrom run i := by
  obtain ⟨j', hj', hne⟩ := tf i ht
  obtain ⟨m, m1, _, m3, m4⟩ := first_change (fun n => (run n).tpc = .sel) i j' hj' ht hne
  rcases tpc_next (r.step m) with h | h | h | h | h | h | h | h
  · exact absurd (h.trans m3) m4
  · rcases h.2 with h2 | h2
    · exact servedFrom_mono (by omega) (served_from_tlock r hr lf (m + 1) h2)
    · exact servedFrom_mono (by omega) (served_from_dlock r hr df (m + 1) h2)
  · rw [m3] at h; cases h.1
  · rw [m3] at h; cases h.1
  · rw [m3] at h; cases h.1
  · rw [m3] at h; cases h.1
  · rw [m3] at h; cases h.1
  · rw [m3] at h; cases h.1

theorem served_from_tunl (lf : LockFair run) (df : DrainFair run) (tf : TicksFire run) (i : Nat)
    (ht : (run i).tpc = .tunl) : ServedFrom run i := by
  obtain ⟨j', hj', hne⟩ := hr.ticker i (Or.inr ht)
  rw [ht] at hne
  obtain ⟨m, m1, _, m3, m4⟩ := first_change (fun n => (run n).tpc = .tunl) i j' hj' ht hne
  have hnext : (run (m + 1)).tpc = .sel := by
    rcases tpc_next (r.step m) with h | h | h | h | h | h | h | h
    · exact absurd (h.trans m3) m4
    · rw [m3] at h; cases h.1
    · rw [m3] at h; cases h.1
    · rw [m3] at h; cases h.1
    · exact h.2
    · rw [m3] at h; cases h.1
    · rw [m3] at h; cases h.1
    · rw [m3] at h; cases h.1
  exact servedFrom_mono (by omega) (served_from_sel r hr lf df tf (m + 1) hnext)

/-- **ticks are served**: `TicksServed` follows from the fairness of the scheduler and the passing of time -/
theorem ticksServed_of_fairness (lf : LockFair run) (df : DrainFair run) (tf : TicksFire run) : TicksServed run := by
  intro i
  cases ht : (run i).tpc with
  | sel => exact Or.inr (served_from_sel r hr lf df tf i ht)
  | tlock => exact Or.inr (served_from_tlock r hr lf i ht)
  | tcrit => exact Or.inr (served_from_tcrit r hr i ht)
  | tunl => exact Or.inr (served_from_tunl r hr lf df tf i ht)
  | dlock => exact Or.inr (served_from_dlock r hr df i ht)
  | dcrit => exact Or.inr (served_from_dcrit r df i ht)
  | dunl => exact Or.inl (Or.inl rfl)
  | tend => exact Or.inl (Or.inr rfl)

end ticks

end RL
