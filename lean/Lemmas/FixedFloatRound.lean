import Mathlib.Data.Rat.Floor
import Mathlib.Tactic.Linarith
import Mathlib.Tactic.Ring
import Mathlib.Tactic.Positivity
import Mathlib.Tactic.FieldSimp
import Mathlib.Tactic.NormNum
import Lemmas.F64Nearest
import Model.FixedFloat

/-! C03 float paths, part 1: what the nearest-even rounding `roundRatN` (binary64) and `roundPrec` (any precision,
    unbounded exponent) do to an arbitrary positive rational `a/d`, stated in ℚ.

    * `mk_spec`       — `mk a d e` is quotient and remainder of `(a/d) / 2^e`;
    * `expP_spec`     — the exponent search lands in the binade: `2^(p-1+e) ≤ a/d < 2^(p+e)`;
    * `roundQ_val`    — `roundQ` moves by at most one half;
    * `roundRatN_cases` — the datum produced by `roundRatN` (finite / carry / overflow);
    * `roundRatN_val` — its value is within half a unit `2^t` of `a/d`, and within `2^-53·(a/d)` in the normal range. -/
namespace Fixed.FloatLemmas
open GoSem.F64

theorem zp_pos (e : ℤ) : (0 : ℚ) < (2 : ℚ) ^ e := zpow_pos (by norm_num) e

theorem zp_add (a b : ℤ) : (2 : ℚ) ^ (a + b) = (2 : ℚ) ^ a * (2 : ℚ) ^ b := zpow_add₀ (by norm_num) a b

theorem zp_le {a b : ℤ} (h : a ≤ b) : (2 : ℚ) ^ a ≤ (2 : ℚ) ^ b := zpow_le_zpow_right₀ (by norm_num) h

theorem zp_lt_iff {a b : ℤ} : (2 : ℚ) ^ a < (2 : ℚ) ^ b ↔ a < b := zpow_lt_zpow_iff_right₀ (by norm_num)

theorem zp_nat (n : ℕ) : (2 : ℚ) ^ (n : ℤ) = ((2 ^ n : ℕ) : ℚ) := by
  rw [zpow_natCast]; push_cast; rfl

/-- `mk a d e` = integer part, and remainder over its divisor, of `(a/d) / 2^e` -/
theorem mk_spec (a d : ℕ) (e : ℤ) (hd : 0 < d) :
    ((mk a d e).1 : ℚ) + ((mk a d e).2.1 : ℚ) / ((mk a d e).2.2 : ℚ) = (a : ℚ) / d / (2 : ℚ) ^ e ∧
      (mk a d e).2.1 < (mk a d e).2.2 := by
  have hdq : (d : ℚ) ≠ 0 := by exact_mod_cast (ne_of_gt hd)
  unfold mk
  by_cases he : e ≥ 0
  · rw [if_pos he]
    obtain ⟨n, rfl⟩ := Int.eq_ofNat_of_zero_le he
    simp only [Int.toNat_natCast]
    have hB : 0 < d * 2 ^ n := Nat.mul_pos hd (Nat.pow_pos (by norm_num))
    refine ⟨?_, Nat.mod_lt _ hB⟩
    have hdm := Nat.div_add_mod a (d * 2 ^ n)
    have hq : (a : ℚ) = ((d * 2 ^ n : ℕ) : ℚ) * ((a / (d * 2 ^ n) : ℕ) : ℚ) + ((a % (d * 2 ^ n) : ℕ) : ℚ) := by
      exact_mod_cast hdm.symm
    have hBq : ((d * 2 ^ n : ℕ) : ℚ) ≠ 0 := by exact_mod_cast (ne_of_gt hB)
    have hBe : ((d * 2 ^ n : ℕ) : ℚ) = (d : ℚ) * (2 : ℚ) ^ (n : ℤ) := by rw [zp_nat]; push_cast; ring
    have h2 : (2 : ℚ) ^ (n : ℤ) ≠ 0 := ne_of_gt (zp_pos _)
    rw [div_div, ← hBe]
    rw [eq_div_iff hBq, add_mul, div_mul_cancel₀ _ hBq]
    linarith
  · rw [if_neg he]
    obtain ⟨n, hn⟩ : ∃ n : ℕ, e = -(n : ℤ) := ⟨(-e).toNat, by omega⟩
    subst hn
    simp only [neg_neg, Int.toNat_natCast]
    refine ⟨?_, Nat.mod_lt _ hd⟩
    have hdm := Nat.div_add_mod (a * 2 ^ n) d
    have hq : ((a * 2 ^ n : ℕ) : ℚ) = (d : ℚ) * ((a * 2 ^ n / d : ℕ) : ℚ) + ((a * 2 ^ n % d : ℕ) : ℚ) := by
      exact_mod_cast hdm.symm
    have hA : ((a * 2 ^ n : ℕ) : ℚ) = (a : ℚ) * (2 : ℚ) ^ (n : ℤ) := by rw [zp_nat]; push_cast; ring
    have h2 : (2 : ℚ) ^ (n : ℤ) ≠ 0 := ne_of_gt (zp_pos _)
    rw [zpow_neg, div_inv_eq_mul, div_mul_eq_mul_div, ← hA]
    rw [eq_div_iff hdq, add_mul, div_mul_cancel₀ _ hdq]
    linarith

theorem mk_floor (a d : ℕ) (e : ℤ) (hd : 0 < d) :
    ((mk a d e).1 : ℚ) ≤ (a : ℚ) / d / (2 : ℚ) ^ e ∧ (a : ℚ) / d / (2 : ℚ) ^ e < ((mk a d e).1 : ℚ) + 1 := by
  obtain ⟨h1, h2⟩ := mk_spec a d e hd
  have hpos : (0 : ℚ) < ((mk a d e).2.2 : ℚ) := by exact_mod_cast (Nat.lt_of_le_of_lt (Nat.zero_le _) h2)
  have h0 : (0 : ℚ) ≤ ((mk a d e).2.1 : ℚ) / ((mk a d e).2.2 : ℚ) := by positivity
  have h3 : ((mk a d e).2.1 : ℚ) / ((mk a d e).2.2 : ℚ) < 1 := by rw [div_lt_one hpos]; exact_mod_cast h2
  constructor <;> linarith

theorem log_q (a : ℕ) (ha : 0 < a) : (2 : ℚ) ^ (a.log2 : ℤ) ≤ a ∧ (a : ℚ) < (2 : ℚ) ^ ((a.log2 : ℤ) + 1) := by
  obtain ⟨l1, l2⟩ := log_bounds a (by omega)
  constructor
  · rw [zp_nat]; exact_mod_cast l1
  · have : ((a.log2 : ℤ) + 1) = ((a.log2 + 1 : ℕ) : ℤ) := by push_cast; rfl
    rw [this, zp_nat]; exact_mod_cast l2

theorem ratio_bounds (a d : ℕ) (ha : 0 < a) (hd : 0 < d) :
    (2 : ℚ) ^ ((a.log2 : ℤ) - d.log2 - 1) < (a : ℚ) / d ∧ (a : ℚ) / d < (2 : ℚ) ^ ((a.log2 : ℤ) - d.log2 + 1) := by
  obtain ⟨a1, a2⟩ := log_q a ha
  obtain ⟨d1, d2⟩ := log_q d hd
  have hdq : (0 : ℚ) < d := by exact_mod_cast hd
  constructor
  · rw [lt_div_iff₀ hdq]
    have e : (2 : ℚ) ^ ((a.log2 : ℤ) - d.log2 - 1) * (2 : ℚ) ^ ((d.log2 : ℤ) + 1) = (2 : ℚ) ^ (a.log2 : ℤ) := by
      rw [← zp_add]; congr 1; ring
    have := mul_lt_mul_of_pos_left d2 (zp_pos ((a.log2 : ℤ) - d.log2 - 1))
    linarith
  · rw [div_lt_iff₀ hdq]
    have e : (2 : ℚ) ^ ((a.log2 : ℤ) - d.log2 + 1) * (2 : ℚ) ^ (d.log2 : ℤ) = (2 : ℚ) ^ ((a.log2 : ℤ) + 1) := by
      rw [← zp_add]; congr 1; ring
    have := mul_le_mul_of_nonneg_left d1 (le_of_lt (zp_pos ((a.log2 : ℤ) - d.log2 + 1)))
    linarith

/-- **the exponent search lands in the binade**: with `e = expP p a d`, `2^(p-1+e) ≤ a/d < 2^(p+e)` -/
theorem expP_spec (p a d : ℕ) (hp : 1 ≤ p) (ha : 0 < a) (hd : 0 < d) :
    (2 : ℚ) ^ ((p : ℤ) - 1 + expP p a d) ≤ (a : ℚ) / d ∧ (a : ℚ) / d < (2 : ℚ) ^ ((p : ℤ) + expP p a d) := by
  obtain ⟨r1, r2⟩ := ratio_bounds a d ha hd
  unfold expP
  simp only []
  generalize he0 : (a.log2 : ℤ) - d.log2 - ((p : ℤ) - 1) = e0
  obtain ⟨f1, f2⟩ := mk_floor a d e0 hd
  have x1 : (a.log2 : ℤ) - d.log2 - 1 = (p : ℤ) - 2 + e0 := by omega
  have x2 : (a.log2 : ℤ) - d.log2 + 1 = (p : ℤ) + e0 := by omega
  rw [x1] at r1; rw [x2] at r2
  have hz := zp_pos e0
  by_cases c1 : (mk a d e0).1 ≥ 2 ^ p
  · exfalso
    have h : ((2 ^ p : ℕ) : ℚ) ≤ ((mk a d e0).1 : ℚ) := by exact_mod_cast c1
    rw [← zp_nat] at h
    have h' : (2 : ℚ) ^ (p : ℤ) ≤ (a : ℚ) / d / (2 : ℚ) ^ e0 := le_trans h f1
    rw [le_div_iff₀ hz, ← zp_add] at h'
    linarith
  · rw [if_neg c1]
    have hp1 : (((p - 1 : ℕ) : ℕ) : ℤ) = (p : ℤ) - 1 := by omega
    by_cases c2 : (mk a d e0).1 < 2 ^ (p - 1)
    · rw [if_pos c2]
      have h : ((mk a d e0).1 : ℚ) + 1 ≤ ((2 ^ (p - 1) : ℕ) : ℚ) := by exact_mod_cast c2
      rw [← zp_nat, hp1] at h
      have h' : (a : ℚ) / d / (2 : ℚ) ^ e0 < (2 : ℚ) ^ ((p : ℤ) - 1) := lt_of_lt_of_le f2 h
      rw [div_lt_iff₀ hz, ← zp_add] at h'
      have y1 : (p : ℤ) - 1 + (e0 - 1) = (p : ℤ) - 2 + e0 := by ring
      have y2 : (p : ℤ) + (e0 - 1) = (p : ℤ) - 1 + e0 := by ring
      rw [y1, y2]
      exact ⟨le_of_lt r1, h'⟩
    · rw [if_neg c2]
      have h : ((2 ^ (p - 1) : ℕ) : ℚ) ≤ ((mk a d e0).1 : ℚ) := by exact_mod_cast (not_lt.mp c2)
      rw [← zp_nat, hp1] at h
      have h' : (2 : ℚ) ^ ((p : ℤ) - 1) ≤ (a : ℚ) / d / (2 : ℚ) ^ e0 := le_trans h f1
      rw [le_div_iff₀ hz, ← zp_add] at h'
      exact ⟨h', r2⟩

/-- `roundQ` returns the quotient or its successor, within one half of the exact value -/
theorem roundQ_val (q r dv : ℕ) (hdv : 0 < dv) (hr : r < dv) :
    (roundQ q r dv = q ∨ roundQ q r dv = q + 1) ∧
      |((roundQ q r dv : ℕ) : ℚ) - ((q : ℚ) + (r : ℚ) / dv)| ≤ 1 / 2 := by
  have hq : (0 : ℚ) < dv := by exact_mod_cast hdv
  rcases roundQ_spec q r dv with ⟨h1, h2, _⟩ | ⟨h1, h2, _⟩
  · refine ⟨Or.inl h1, ?_⟩
    rw [h1]
    have : (r : ℚ) / dv ≤ 1 / 2 := by
      rw [div_le_iff₀ hq]
      have : ((2 * r : ℕ) : ℚ) ≤ (dv : ℚ) := by exact_mod_cast h2
      push_cast at this; linarith
    have h0 : (0 : ℚ) ≤ (r : ℚ) / dv := by positivity
    rw [abs_le]; constructor <;> linarith
  · refine ⟨Or.inr h1, ?_⟩
    rw [h1]
    have : 1 / 2 ≤ (r : ℚ) / dv := by
      rw [le_div_iff₀ hq]
      have : (dv : ℚ) ≤ ((2 * r : ℕ) : ℚ) := by exact_mod_cast h2
      push_cast at this; linarith
    have h1' : (r : ℚ) / dv < 1 := by rw [div_lt_one hq]; exact_mod_cast hr
    push_cast
    rw [abs_le]; constructor <;> linarith

/-- rounding at any exponent `t`: the rounded quotient times `2^t` is within half a unit `2^t` of `a/d` -/
theorem round_at (a d : ℕ) (t : ℤ) (hd : 0 < d) :
    (roundQ (mk a d t).1 (mk a d t).2.1 (mk a d t).2.2 = (mk a d t).1 ∨
      roundQ (mk a d t).1 (mk a d t).2.1 (mk a d t).2.2 = (mk a d t).1 + 1) ∧
    |((roundQ (mk a d t).1 (mk a d t).2.1 (mk a d t).2.2 : ℕ) : ℚ) * (2 : ℚ) ^ t - (a : ℚ) / d| ≤ (2 : ℚ) ^ t / 2 := by
  obtain ⟨h1, h2⟩ := mk_spec a d t hd
  have hdv : 0 < (mk a d t).2.2 := Nat.lt_of_le_of_lt (Nat.zero_le _) h2
  obtain ⟨g1, g2⟩ := roundQ_val (mk a d t).1 (mk a d t).2.1 (mk a d t).2.2 hdv h2
  refine ⟨g1, ?_⟩
  rw [h1] at g2
  have hz := zp_pos t
  have e : ((roundQ (mk a d t).1 (mk a d t).2.1 (mk a d t).2.2 : ℕ) : ℚ) * (2 : ℚ) ^ t - (a : ℚ) / d
      = (((roundQ (mk a d t).1 (mk a d t).2.1 (mk a d t).2.2 : ℕ) : ℚ) - (a : ℚ) / d / (2 : ℚ) ^ t) * (2 : ℚ) ^ t := by
    field_simp
  rw [e, abs_mul, abs_of_pos hz]
  calc _ ≤ 1 / 2 * (2 : ℚ) ^ t := mul_le_mul_of_nonneg_right g2 (le_of_lt hz)
    _ = (2 : ℚ) ^ t / 2 := by ring

/-! ## decoding what `finish` encodes -/

theorem decode_sub (neg : Bool) (q : ℕ) (h : q < 2 ^ 52) : decode (signBit neg + q) = .fin neg q (-1074) := by
  unfold decode signBit
  have p52 : (2 : ℕ) ^ 52 = 4503599627370496 := by norm_num
  have p63 : (2 : ℕ) ^ 63 = 9223372036854775808 := by norm_num
  rw [p52] at h
  simp only [p52, p63]
  cases neg
  · simp only [Bool.false_eq_true, if_false, Nat.zero_add]
    have h1 : q / 4503599627370496 % 2048 = 0 := by omega
    have h2 : q % 4503599627370496 = q := by omega
    have h3 : q / 9223372036854775808 = 0 := by omega
    simp [h1, h2, h3]
  · simp only [if_true]
    have h1 : (9223372036854775808 + q) / 4503599627370496 % 2048 = 0 := by omega
    have h2 : (9223372036854775808 + q) % 4503599627370496 = q := by omega
    have h3 : (9223372036854775808 + q) / 9223372036854775808 = 1 := by omega
    simp [h1, h2, h3]

theorem decode_inf (neg : Bool) : decode (signBit neg + 2047 * 2 ^ 52) = .inf neg := by
  cases neg <;> decide

/-- the datum encoded by `finish` (any sign, normal, subnormal, carry, overflow) -/
theorem decode_finish' (neg : Bool) (q' : ℕ) (t : ℤ) (h2 : q' ≤ 2 ^ 53) (ht1 : -1074 ≤ t)
    (hn : 2 ^ 52 ≤ q' ∨ t = -1074) :
    decode (finish neg q' t) =
      if q' = 2 ^ 53 then (if 971 ≤ t then .inf neg else .fin neg (2 ^ 52) (t + 1))
      else if 972 ≤ t then .inf neg else .fin neg q' t := by
  unfold finish
  by_cases hc : q' = 2 ^ 53
  · subst hc
    rw [if_pos rfl]
    have hge : (2 : ℕ) ^ 53 ≥ 2 ^ 53 := le_refl _
    simp only [if_pos hge]
    have hh : (2 : ℕ) ^ 53 / 2 = 2 ^ 52 := by norm_num
    rw [hh]
    by_cases ho : 971 ≤ t
    · rw [if_pos ho, if_pos (by omega)]; exact decode_inf neg
    · rw [if_neg ho, if_neg (by omega), if_neg (by omega)]
      exact decode_encodeNormal neg _ _ (le_refl _) (by norm_num) (by omega) (by omega)
  · rw [if_neg hc]
    have hlt : ¬ q' ≥ 2 ^ 53 := by omega
    simp only [if_neg hlt]
    by_cases ho : 972 ≤ t
    · rw [if_pos ho, if_pos (by omega)]; exact decode_inf neg
    · rw [if_neg ho, if_neg (by omega)]
      by_cases hs : q' < 2 ^ 52
      · rw [if_pos hs]
        have : t = -1074 := by
          rcases hn with h | h
          · omega
          · exact h
        rw [this]; exact decode_sub neg q' hs
      · rw [if_neg hs]
        exact decode_encodeNormal neg _ _ (by omega) (by omega) ht1 (by omega)

theorem roundRatN_unfold (neg : Bool) (a d : ℕ) (ha : a ≠ 0) :
    roundRatN neg a d = finish neg (roundQ (mk a d (chooseE a d)).1 (mk a d (chooseE a d)).2.1
      (mk a d (chooseE a d)).2.2) (chooseE a d) := by
  unfold roundRatN
  have : (a == 0) = false := by simp [ha]
  rw [this]; simp

/-- `chooseE` is `expP 53` clamped at the subnormal exponent -/
theorem chooseE_eq (a d : ℕ) : chooseE a d = if expP 53 a d < -1074 then -1074 else expP 53 a d := by
  unfold chooseE expP
  simp only [Nat.cast_ofNat]
  norm_num

/-- at `t = chooseE a d` the quotient has at most 53 bits, exactly 53 unless the exponent was clamped -/
theorem chooseE_facts (a d : ℕ) (ha : 0 < a) (hd : 0 < d) :
    -1074 ≤ chooseE a d ∧ (mk a d (chooseE a d)).1 < 2 ^ 53 ∧
      (2 ^ 52 ≤ (mk a d (chooseE a d)).1 ∨ chooseE a d = -1074) ∧
      (2 ^ 52 ≤ (mk a d (chooseE a d)).1 → (2 : ℚ) ^ (52 + chooseE a d) ≤ (a : ℚ) / d) ∧
      ((2 : ℚ) ^ (-1022 : ℤ) ≤ (a : ℚ) / d → 2 ^ 52 ≤ (mk a d (chooseE a d)).1) := by
  obtain ⟨s1, s2⟩ := expP_spec 53 a d (by norm_num) ha hd
  have c53 : ((53 : ℕ) : ℤ) = 53 := rfl
  rw [c53] at s1 s2
  obtain ⟨f1, f2⟩ := mk_floor a d (chooseE a d) hd
  have hz := zp_pos (chooseE a d)
  have k52 : ((2 ^ 52 : ℕ) : ℚ) = (2 : ℚ) ^ (52 : ℤ) := by norm_num
  have k53 : ((2 ^ 53 : ℕ) : ℚ) = (2 : ℚ) ^ (53 : ℤ) := by norm_num
  -- generic consequence of the floor property
  have lower : 2 ^ 52 ≤ (mk a d (chooseE a d)).1 → (2 : ℚ) ^ (52 + chooseE a d) ≤ (a : ℚ) / d := by
    intro h
    have h' : ((2 ^ 52 : ℕ) : ℚ) ≤ ((mk a d (chooseE a d)).1 : ℚ) := by exact_mod_cast h
    rw [k52] at h'
    have := le_trans h' f1
    rw [le_div_iff₀ hz, ← zp_add] at this
    exact this
  rw [chooseE_eq] at f1 f2 hz lower ⊢
  by_cases hc : expP 53 a d < -1074
  · simp only [if_pos hc] at f1 f2 hz lower ⊢
    -- a/d < 2^(53+E) ≤ 2^(-1022)
    have hs : (a : ℚ) / d < (2 : ℚ) ^ (-1022 : ℤ) := lt_of_lt_of_le s2 (zp_le (by omega))
    have hq : (a : ℚ) / d / (2 : ℚ) ^ (-1074 : ℤ) < (2 : ℚ) ^ (52 : ℤ) := by
      rw [div_lt_iff₀ hz, ← zp_add]; exact hs
    have hlt : (mk a d (-1074)).1 < 2 ^ 52 := by
      have : ((mk a d (-1074)).1 : ℚ) < ((2 ^ 52 : ℕ) : ℚ) := by rw [k52]; exact lt_of_le_of_lt f1 hq
      exact_mod_cast this
    refine ⟨le_refl _, by omega, Or.inr trivial, lower, ?_⟩
    intro h; exact absurd h (not_le.mpr hs)
  · simp only [if_neg hc] at f1 f2 hz lower ⊢
    have hq1 : (2 : ℚ) ^ (52 : ℤ) ≤ (a : ℚ) / d / (2 : ℚ) ^ (expP 53 a d) := by
      rw [le_div_iff₀ hz, ← zp_add]
      have : (52 : ℤ) + expP 53 a d = 53 - 1 + expP 53 a d := by ring
      rw [this]; exact s1
    have hq2 : (a : ℚ) / d / (2 : ℚ) ^ (expP 53 a d) < (2 : ℚ) ^ (53 : ℤ) := by
      rw [div_lt_iff₀ hz, ← zp_add]; exact s2
    have hge : 2 ^ 52 ≤ (mk a d (expP 53 a d)).1 := by
      have : ((2 ^ 52 : ℕ) : ℚ) < ((mk a d (expP 53 a d)).1 : ℚ) + 1 := by rw [k52]; exact lt_of_le_of_lt hq1 f2
      have : ((2 ^ 52 : ℕ) : ℚ) < (((mk a d (expP 53 a d)).1 + 1 : ℕ) : ℚ) := by push_cast; exact this
      have : 2 ^ 52 < (mk a d (expP 53 a d)).1 + 1 := by exact_mod_cast this
      omega
    have hlt : (mk a d (expP 53 a d)).1 < 2 ^ 53 := by
      have : ((mk a d (expP 53 a d)).1 : ℚ) < ((2 ^ 53 : ℕ) : ℚ) := by rw [k53]; exact lt_of_le_of_lt f1 hq2
      exact_mod_cast this
    exact ⟨by omega, hlt, Or.inl hge, lower, fun _ => hge⟩

/-- **value of a rounding** (any positive rational, any sign): either the result overflows to the infinity of that
    sign — only when `a/d ≥ 2^1023` — or it is a finite `m·2^e` within half a unit `2^e` of `a/d`, and within
    `2^-53·(a/d)` when `a/d` is in the normal range -/
theorem roundRatN_val (neg : Bool) (a d : ℕ) (ha : 0 < a) (hd : 0 < d) :
    (decode (roundRatN neg a d) = .inf neg ∧ (2 : ℚ) ^ (1023 : ℤ) ≤ (a : ℚ) / d) ∨
    (∃ m e, decode (roundRatN neg a d) = .fin neg m e ∧ -1074 ≤ e ∧ m < 2 ^ 53 ∧ (2 ^ 52 ≤ m ∨ e = -1074) ∧
      |(m : ℚ) * (2 : ℚ) ^ e - (a : ℚ) / d| ≤ (2 : ℚ) ^ e / 2 ∧
      ((2 : ℚ) ^ (-1022 : ℤ) ≤ (a : ℚ) / d → |(m : ℚ) * (2 : ℚ) ^ e - (a : ℚ) / d| ≤ (a : ℚ) / d / 2 ^ 53)) := by
  obtain ⟨c1, c2, c3, c4, c5⟩ := chooseE_facts a d ha hd
  obtain ⟨g1, g2⟩ := round_at a d (chooseE a d) hd
  rw [roundRatN_unfold neg a d (by omega)]
  generalize ht : chooseE a d = t at *
  generalize hq : (mk a d t).1 = q at *
  generalize hq' : roundQ q (mk a d t).2.1 (mk a d t).2.2 = q' at *
  have hq'le : q' ≤ 2 ^ 53 := by rcases g1 with h | h <;> omega
  have hn : 2 ^ 52 ≤ q' ∨ t = -1074 := by
    rcases c3 with h | h
    · left; rcases g1 with h' | h' <;> omega
    · right; exact h
  rw [decode_finish' neg q' t hq'le c1 hn]
  have hz := zp_pos t
  -- relative bound when the quotient has 53 bits
  have rel : (2 : ℚ) ^ (-1022 : ℤ) ≤ (a : ℚ) / d → (2 : ℚ) ^ t / 2 ≤ (a : ℚ) / d / 2 ^ 53 := by
    intro h
    have := c4 (c5 h)
    rw [zp_add] at this
    have k : (2 : ℚ) ^ (52 : ℤ) = 2 ^ 53 / 2 := by norm_num
    rw [k] at this
    rw [le_div_iff₀ (by norm_num)]
    linarith
  have big : 971 ≤ t → (2 : ℚ) ^ (1023 : ℤ) ≤ (a : ℚ) / d := by
    intro h
    have hq52 : 2 ^ 52 ≤ q := by rcases c3 with h' | h' <;> omega
    exact le_trans (zp_le (by omega)) (c4 hq52)
  by_cases hc : q' = 2 ^ 53
  · rw [if_pos hc]
    by_cases ho : 971 ≤ t
    · rw [if_pos ho]; exact Or.inl ⟨rfl, big ho⟩
    · rw [if_neg ho]
      right
      have ev : ((2 ^ 52 : ℕ) : ℚ) * (2 : ℚ) ^ (t + 1) = (q' : ℚ) * (2 : ℚ) ^ t := by
        rw [hc, zp_add]; norm_num; ring
      refine ⟨2 ^ 52, t + 1, rfl, by omega, by norm_num, Or.inl (le_refl _), ?_, ?_⟩
      · rw [ev]
        have : (2 : ℚ) ^ t / 2 ≤ (2 : ℚ) ^ (t + 1) / 2 := by
          rw [zp_add]; norm_num; linarith
        linarith
      · intro h; rw [ev]; exact le_trans g2 (rel h)
  · rw [if_neg hc]
    by_cases ho : 972 ≤ t
    · rw [if_pos ho]; exact Or.inl ⟨rfl, big (by omega)⟩
    · rw [if_neg ho]
      right
      exact ⟨q', t, rfl, c1, by omega, hn, g2, fun h => le_trans g2 (rel h)⟩

/-- **rounding to `p` bits with an unbounded exponent** (`big.Float` with `SetPrec(p)`): the result `q·2^e` has
    `2^(p-1) ≤ q ≤ 2^p`, lies within half a unit `2^e` of `a/d`, hence within `2^-p·(a/d)`; and `a/d` is in the binade
    of `e` -/
theorem roundPrec_val (p a d : ℕ) (hp : 1 ≤ p) (ha : 0 < a) (hd : 0 < d) :
    2 ^ (p - 1) ≤ (roundPrec p a d).1 ∧ (roundPrec p a d).1 ≤ 2 ^ p ∧
    |((roundPrec p a d).1 : ℚ) * (2 : ℚ) ^ (roundPrec p a d).2 - (a : ℚ) / d| ≤ (a : ℚ) / d / 2 ^ p ∧
    (2 : ℚ) ^ ((p : ℤ) - 1 + (roundPrec p a d).2) ≤ (a : ℚ) / d ∧
    (a : ℚ) / d < (2 : ℚ) ^ ((p : ℤ) + (roundPrec p a d).2) := by
  obtain ⟨s1, s2⟩ := expP_spec p a d hp ha hd
  obtain ⟨g1, g2⟩ := round_at a d (expP p a d) hd
  obtain ⟨f1, f2⟩ := mk_floor a d (expP p a d) hd
  unfold roundPrec
  simp only []
  generalize expP p a d = t at *
  have hz := zp_pos t
  have hp1 : (((p - 1 : ℕ) : ℕ) : ℤ) = (p : ℤ) - 1 := by omega
  have hq1 : (2 : ℚ) ^ ((p : ℤ) - 1) ≤ (a : ℚ) / d / (2 : ℚ) ^ t := by
    rw [le_div_iff₀ hz, ← zp_add]; exact s1
  have hq2 : (a : ℚ) / d / (2 : ℚ) ^ t < (2 : ℚ) ^ (p : ℤ) := by
    rw [div_lt_iff₀ hz, ← zp_add]; exact s2
  have hge : 2 ^ (p - 1) ≤ (mk a d t).1 := by
    have h : ((2 ^ (p - 1) : ℕ) : ℚ) < (((mk a d t).1 + 1 : ℕ) : ℚ) := by
      rw [← zp_nat, hp1]; push_cast; exact lt_of_le_of_lt hq1 f2
    have : 2 ^ (p - 1) < (mk a d t).1 + 1 := by exact_mod_cast h
    omega
  have hlt : (mk a d t).1 < 2 ^ p := by
    have h : ((mk a d t).1 : ℚ) < ((2 ^ p : ℕ) : ℚ) := by rw [← zp_nat]; exact lt_of_le_of_lt f1 hq2
    exact_mod_cast h
  refine ⟨by rcases g1 with h | h <;> omega, by rcases g1 with h | h <;> omega, ?_, s1, s2⟩
  refine le_trans g2 ?_
  have hpp : (0 : ℚ) < 2 ^ p := by positivity
  rw [le_div_iff₀ hpp]
  have e : (2 : ℚ) ^ ((p : ℤ) - 1 + t) = (2 : ℚ) ^ t / 2 * 2 ^ p := by
    rw [zp_add, zpow_sub₀ (by norm_num), zpow_natCast]; norm_num; ring
  rw [← e]; exact s1

end Fixed.FloatLemmas
