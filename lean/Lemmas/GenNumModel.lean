import Model.I128
/-! Translator tie: functions of `xmath/num` that are OUTSIDE the fragment `gossa/ssagen` translates (loops, panics) but
    are called by code of other packages that it does translate (`xmath/fixed/f128`).  Such a call becomes a call of the
    total form of the hand-written model function below; the model function is the subject of C01, where its
    specification is proved (`C01.idivMod_spec`, `C01.idiv_eq_fst_divMod`).  Core only. -/
namespace GenNum

/-- `Int128.Div`: the model's `I128.div`; Go panics when the divisor is zero — the total form returns 0 there, and every
    generated function that reaches it is listed as PARTIAL -/
def Int128_Div (i n : I128) : I128 :=
  match I128.div i n with
  | .ok q => q
  | .panic => ⟨0#64, 0#64⟩

/-- `Int128.Mod`: the model's `I128.mod`, total form (0 for a zero divisor, where Go panics) -/
def Int128_Mod (i n : I128) : I128 :=
  match I128.mod i n with
  | .ok r => r
  | .panic => ⟨0#64, 0#64⟩

/-- `Int128.DivMod`: the model's `I128.divMod`, total form ((0, 0) for a zero divisor, where Go panics); its components
    are the two total forms above (`GenTie128.divMod_fst`, `divMod_snd`, from `C01.idiv_eq_fst_divMod`) -/
def Int128_DivMod (i n : I128) : I128 × I128 :=
  match I128.divMod i n with
  | .ok p => p
  | .panic => (⟨0#64, 0#64⟩, ⟨0#64, 0#64⟩)

end GenNum
