import Lemmas.Fixed64
import Lemmas.Fixed128

/-! C03: integer `As`, `Fraction`, comparisons, and the f64/f128 agreement on the uniform operation tables. -/
namespace Fixed
open Fixed.Spec

/-! ### integer `As` -/

theorem F64.asInt_eq {k : Kind} (hk : k ∈ kinds) {m a : Int} (hm : Mult m) (ha : fits64 a)
    (hq : fitsKind k (a.tdiv m)) : F64.asInt k m a = a.tdiv m := by
  unfold F64.asInt F64.quo
  rw [wrap64_of_fits (fits64_tdiv ha hm.pos)]
  exact F128.toKind_of_fits hk hq

/-- `TO(x.AsInt64())` gives back every value that fits the target kind (also `uint64` values above `MaxInt64`) -/
theorem F128.toKind_asInt64 {k : Kind} (hk : k ∈ kinds) {q : Int} (h : fitsKind k q) :
    toKind k (F128.asInt64 q) = q := by
  unfold toKind F128.asInt64 wrap64
  simp only [kinds, List.mem_cons, List.not_mem_nil, or_false] at hk
  rcases hk with rfl | rfl | rfl | rfl | rfl | rfl | rfl | rfl <;>
    simp [fitsKind] at h <;> simp <;> split <;> omega

theorem F128.asInt_eq {k : Kind} (hk : k ∈ kinds) {m a : Int} (hm : Mult m) (ha : fits128 a)
    (hq : fitsKind k (a.tdiv m)) : F128.asInt k m a = a.tdiv m := by
  unfold F128.asInt
  rw [F128.quo_mult hm ha]
  exact F128.toKind_asInt64 hk hq

/-! ### Fraction -/

theorem F64.fromInt_one {m : Int} (hm : Mult m) : F64.fromInt m 1 = m := by
  rw [F64.fromInt_eq (by unfold fits64; omega) (by rw [Int.one_mul]; exact hm.fits64)]; omega
theorem F64.fromInt_negOne {m : Int} (hm : Mult m) : F64.fromInt m (-1) = -m := by
  have := hm.pos; have := hm.le
  rw [F64.fromInt_eq (by unfold fits64; omega) (by unfold fits64; omega)]; omega

theorem F64.mul_negOne {m x : Int} (hm : Mult m) (h : fits64 (-(x * m))) : F64.mul m x (-m) = -x := by
  have e : x * -m = (-x) * m := by ring
  rw [F64.mul_eq hm (by rw [e]; rw [Int.neg_mul]; exact h)]
  unfold fxMul; rw [e]; exact Int.mul_tdiv_cancel _ (by have := hm.pos; omega)

theorem F64.fracNormalize_eq {m n d : Int} (hm : Mult m) (hn : fits64 (-(n * m))) (hd : fits64 (-(d * m))) :
    F64.fracNormalize m n d = if d = 0 then (0, m) else if d < 0 then (-n, -d) else (n, d) := by
  unfold F64.fracNormalize
  simp only [F64.fromInt_one hm, F64.fromInt_negOne hm, F64.mul_negOne hm hn, F64.mul_negOne hm hd]

theorem F128.fromInt_one {m : Int} (hm : Mult m) : F128.fromInt ⟨64, true⟩ m 1 = m := by
  rw [F128.fromInt_eq (by simp [kinds]) hm (by simp [fitsKind])]; omega
theorem F128.fromInt_negOne {m : Int} (hm : Mult m) : F128.fromInt ⟨64, true⟩ m (-1) = -m := by
  rw [F128.fromInt_eq (by simp [kinds]) hm (by simp [fitsKind])]; omega

theorem F128.mul_negOne {m x : Int} (hm : Mult m) (h : fits128 (-(x * m))) : F128.mul m x (-m) = -x := by
  have e : x * -m = (-x) * m := by ring
  rw [F128.mul_eq hm (by rw [e]; rw [Int.neg_mul]; exact h)]
  unfold fxMul; rw [e]; exact Int.mul_tdiv_cancel _ (by have := hm.pos; omega)

theorem F128.fracNormalize_eq {m n d : Int} (hm : Mult m) (hn : fits128 (-(n * m))) (hd : fits128 (-(d * m))) :
    F128.fracNormalize m n d = if d = 0 then (0, m) else if d < 0 then (-n, -d) else (n, d) := by
  unfold F128.fracNormalize
  simp only [F128.fromInt_one hm, F128.fromInt_negOne hm, F128.mul_negOne hm hn, F128.mul_negOne hm hd, F128.lt,
    decide_eq_true_eq]

/-! ### agreement of the two implementations -/

/-- the representability conditions of the property for a binary operation on 64-bit operands: operands,
    intermediate product and result fit 64 bits -/
def AllFit64Bin (m : Int) : BinOp → Int → Int → Prop
  | .add, a, b => fits64 a ∧ fits64 b ∧ fits64 (a + b)
  | .sub, a, b => fits64 a ∧ fits64 b ∧ fits64 (a - b)
  | .mul, a, b => fits64 a ∧ fits64 b ∧ fits64 (a * b)
  | .div, a, b => fits64 a ∧ fits64 b ∧ b ≠ 0 ∧ fits64 (a * m) ∧ fits64 ((a * m).tdiv b)
  | .mod, a, b => fits64 a ∧ fits64 b ∧ b ≠ 0   -- no intermediate product: every common operand pair
  | .min, a, b => fits64 a ∧ fits64 b
  | .max, a, b => fits64 a ∧ fits64 b

def AllFit64Un (m : Int) : UnOp → Int → Prop
  | .abs, a => fits64 a ∧ fits64 (-a)
  | .trunc, a => fits64 a
  | .ceil, a => fits64 a ∧ fits64 (fxCeil m a)
  | .round, a => fits64 a ∧ fits64 (fxRound m a)
  | .inc, a => fits64 a ∧ fits64 (a + m)
  | .dec, a => fits64 a ∧ fits64 (a - m)

/-- the exact result of a binary operation on raw scaled integers -/
def specBin (m : Int) : BinOp → Int → Int → Int
  | .add, a, b => a + b
  | .sub, a, b => a - b
  | .mul, a, b => (a * b).tdiv m
  | .div, a, b => (a * m).tdiv b
  | .mod, a, b => a.tmod b
  | .min, a, b => Min.min a b
  | .max, a, b => Max.max a b

def specUn (m : Int) : UnOp → Int → Int
  | .abs, a => |a|
  | .trunc, a => fxTrunc m a
  | .ceil, a => fxCeil m a
  | .round, a => fxRound m a
  | .inc, a => a + m
  | .dec, a => a - m

theorem F64.runBin_eq {m : Int} (hm : Mult m) (op : BinOp) (a b : Int) (h : AllFit64Bin m op a b) :
    F64.runBin m op a b = some (specBin m op a b) := by
  cases op <;> simp only [AllFit64Bin] at h <;> simp only [F64.runBin, specBin]
  · rw [F64.add_exact h.2.2]
  · rw [F64.sub_exact h.2.2]
  · rw [F64.mul_eq hm h.2.2]; rfl
  · rw [F64.div_eq h.2.2.1 h.2.2.2.1 h.2.2.2.2]; rfl
  · rw [F64.mod_tmod h.1 h.2.2]
  · rw [F64.min_eq]
  · rw [F64.max_eq]

theorem F128.runBin_eq {m : Int} (hm : Mult m) (op : BinOp) (a b : Int) (h : AllFit64Bin m op a b) :
    F128.runBin m op a b = some (specBin m op a b) := by
  cases op <;> simp only [AllFit64Bin] at h <;> simp only [F128.runBin, specBin]
  · rw [F128.add_exact (fits128_of_fits64 h.2.2)]
  · rw [F128.sub_exact (fits128_of_fits64 h.2.2)]
  · rw [F128.mul_eq hm (fits128_of_fits64 h.2.2)]; rfl
  · rw [F128.div_eq (fits128_of_fits64 h.2.1) h.2.2.1 (fits128_of_fits64 h.2.2.2.1)
      (fits128_of_fits64 h.2.2.2.2)]; rfl
  · rw [F128.mod_tmod (fits128_of_fits64 h.1) (fits128_of_fits64 h.2.1) h.2.2]
  · rw [F128.min_eq]
  · rw [F128.max_eq]

theorem F64.runUn_eq {m : Int} (hm : Mult m) (op : UnOp) (a : Int) (h : AllFit64Un m op a) :
    F64.runUn m op a = specUn m op a := by
  cases op <;> simp only [AllFit64Un] at h <;> simp only [F64.runUn, specUn]
  · exact F64.abs_eq h.2
  · exact F64.trunc_eq hm h
  · exact F64.ceil_eq hm h.1 h.2
  · exact F64.round_eq hm h.1 h.2
  · exact F64.inc_eq h.2
  · exact F64.dec_eq h.2

theorem F128.runUn_eq {m : Int} (hm : Mult m) (op : UnOp) (a : Int) (h : AllFit64Un m op a) :
    F128.runUn m op a = specUn m op a := by
  cases op <;> simp only [AllFit64Un] at h <;> simp only [F128.runUn, specUn]
  · exact F128.abs_eq (fits128_of_fits64 h.2)
  · exact F128.trunc_eq hm (fits128_of_fits64 h)
  · exact F128.ceil_eq hm (fits128_of_fits64 h.1) (fits128_of_fits64 h.2)
  · exact F128.round_eq hm (fits128_of_fits64 h.1) (fits128_of_fits64 h.2)
  · exact F128.inc_eq (fits128_of_fits64 h.2)
  · exact F128.dec_eq (fits128_of_fits64 h.2)

end Fixed
