import Lemmas.FixedTextMain
/-! C04 helper lemmas, part 4: the canonical shape of `String()`, its exact value, the `*WithSign` and `Comma` forms,
    `Unquote`. -/
namespace FixedText

/-! ### decomposition of String() into sign, integer digits, fraction digits -/
theorem toStr_decomp (p : Nat) (raw : Int) :
    toStr (10^p) raw = (if raw < 0 then [45] else []) ++ natStr (raw.tdiv (10^p)).natAbs ++
      (if raw.tmod (10^p) = 0 then [] else 46 :: fracStr p (raw.tmod (10^p)).natAbs) := by
  obtain ⟨h1, h2, h3, h4, h5⟩ := tdiv_facts raw (10^p) (pow10_pos p)
  by_cases h0 : raw.tmod (10^p) = 0
  · rw [toStr_int _ _ h0, if_pos h0, List.append_nil]
    have hq : raw.tdiv (10^p) < 0 ↔ raw < 0 := by
      constructor
      · intro h
        by_cases hh : 0 ≤ raw
        · have := (h4 hh).2; omega
        · omega
      · intro h
        have := (h5 (by omega)).2
        by_cases hh : raw.tdiv (10^p) = 0
        · rw [hh, h0] at h1; simp at h1; omega
        · omega
    unfold intStr
    by_cases hn : raw < 0
    · rw [if_pos (hq.mpr hn), if_pos hn]; rfl
    · rw [if_neg (fun h => hn (hq.mp h)), if_neg hn]; rfl
  · rw [toStr_frac p raw h0, if_neg h0]
    by_cases hn : raw < 0
    · rw [if_pos hn]
      have hq := (h5 (by omega)).2
      by_cases hz : raw.tdiv (10^p) = 0
      · rw [if_pos ⟨hz, hn⟩, hz]; simp [intStr]
      · rw [if_neg (fun h => hz h.1), intStr_neg _ (by omega)]; simp
    · rw [if_neg hn, if_neg (fun h => hn h.2)]
      have hq := (h4 (by omega)).2
      rw [intStr_nonneg _ hq]; simp

theorem parseDigits_append_zeros (a : Str) (k : Nat) :
    parseDigits (a ++ List.replicate k 48) = parseDigits a * 10^k := by
  rw [parseDigits_append, parseDigits_replicate_zero]

/-- **exactness**: the digits shown, read as one number, are `|raw|` scaled by the places that were stripped:
    `|raw| / 10^p = (digits of ip·fp) / 10^|fp|` -/
theorem toStr_value (p : Nat) (raw : Int) :
    let ip := natStr (raw.tdiv (10^p)).natAbs
    let fp := if raw.tmod (10^p) = 0 then [] else fracStr p (raw.tmod (10^p)).natAbs
    parseDigits (ip ++ fp) * 10^(p - fp.length) = raw.natAbs := by
  obtain ⟨h1, h2, h3, h4, h5⟩ := tdiv_facts raw (10^p) (pow10_pos p)
  have hcast : ((10:Int)^p) = ((10^p : Nat) : Int) := by simp
  have hf : (raw.tmod (10^p)).natAbs < 10^p := by omega
  -- |raw| = |q| * 10^p + |r|
  have habs : raw.natAbs = (raw.tdiv (10^p)).natAbs * 10^p + (raw.tmod (10^p)).natAbs := by
    have e : (10:Int)^p * raw.tdiv (10^p) = raw.tdiv (10^p) * ((10^p : Nat) : Int) := by rw [hcast]; ring
    have hm : (raw.tdiv (10^p) * ((10^p : Nat) : Int)).natAbs = (raw.tdiv (10^p)).natAbs * 10^p := by
      rw [Int.natAbs_mul, Int.natAbs_natCast]
    rw [← hm]
    generalize hX : raw.tdiv (10^p) * ((10^p : Nat) : Int) = X at *
    have hMpos : (0:Int) ≤ ((10^p : Nat) : Int) := by omega
    by_cases hh : 0 ≤ raw
    · obtain ⟨a, b⟩ := h4 hh
      have : 0 ≤ X := by rw [← hX]; exact Int.mul_nonneg b hMpos
      omega
    · obtain ⟨a, b⟩ := h5 (by omega)
      have : X ≤ 0 := by rw [← hX]; exact Int.mul_nonpos_of_nonpos_of_nonneg b hMpos
      omega
  simp only
  by_cases h0 : raw.tmod (10^p) = 0
  · simp only [h0, if_true, List.append_nil, List.length_nil, Nat.sub_zero, parse_natStr]
    rw [habs, h0]; simp
  · simp only [h0, if_false]
    have hs := strip_pad (digitsPad p (raw.tmod (10^p)).natAbs)
    rw [digitsPad_length] at hs
    have : parseDigits (natStr (raw.tdiv (10^p)).natAbs ++ fracStr p (raw.tmod (10^p)).natAbs) *
        10^(p - (fracStr p (raw.tmod (10^p)).natAbs).length) =
        parseDigits (natStr (raw.tdiv (10^p)).natAbs ++ digitsPad p (raw.tmod (10^p)).natAbs) := by
      rw [← parseDigits_append_zeros, List.append_assoc]
      unfold fracStr
      rw [hs]
    rw [this, parseDigits_append, parse_natStr, parse_digitsPad _ _ _ hf, habs]

/-- **canonical form**: integer digits without leading zero (a lone "0" allowed), fraction digits at most `p`
    and without trailing zero -/
theorem toStr_canonical (p : Nat) (raw : Int) :
    let ip := natStr (raw.tdiv (10^p)).natAbs
    let fp := if raw.tmod (10^p) = 0 then [] else fracStr p (raw.tmod (10^p)).natAbs
    ip ≠ [] ∧ (∀ c ∈ ip, isDigit c = true) ∧ (ip.head? = some 48 → ip = [48]) ∧
    (∀ c ∈ fp, isDigit c = true) ∧ fp.length ≤ p ∧ fp.getLast? ≠ some 48 ∧ (fp = [] ↔ raw.tmod (10^p) = 0) := by
  obtain ⟨h1, h2, h3, h4, h5⟩ := tdiv_facts raw (10^p) (pow10_pos p)
  have hcast : ((10:Int)^p) = ((10^p : Nat) : Int) := by simp
  have hf : (raw.tmod (10^p)).natAbs < 10^p := by omega
  refine ⟨natStr_ne_nil _, natStr_digits _, ?_, ?_, ?_, ?_, ?_⟩
  · intro hh
    obtain ⟨c, t, e, _, _, h48⟩ := natStr_head (raw.tdiv (10^p)).natAbs
    rw [e] at hh ⊢
    simp at hh
    rw [(h48 hh).2, hh]
  · intro c hc
    split at hc
    · simp at hc
    · exact fracStr_digits _ _ c hc
  · split
    · simp
    · exact fracStr_length _ _
  · split
    · simp
    · exact stripZeros_getLast _
  · constructor
    · intro hfp
      by_cases h0 : raw.tmod (10^p) = 0
      · exact h0
      · rw [if_neg h0] at hfp
        exact absurd hfp (fracStr_ne_nil p _ hf (by omega))
    · intro h0; rw [if_pos h0]

/-! ### the *WithSign forms -/
theorem head64_plus (m z : Int) (hz : fits64 z = true) (h0 : 0 ≤ z) :
    head64 m (43 :: intStr z) = head64 m (intStr z) := by
  rw [head64_intStr m z hz, if_neg (by omega)]
  unfold head64
  rw [if_neg (by simp [(intStr_shape z).1]), if_neg (by simp)]
  have : parseInt64 (43 :: intStr z) = some z := by
    have := parseInt64_intStr z hz
    unfold parseInt64 at this ⊢
    have e : parseSigned (43 :: intStr z) = parseSigned (intStr z) := by
      rw [intStr_nonneg z h0]
      obtain ⟨c, t, e, h1, h2, _⟩ := natStr_head z.natAbs
      rw [e, parseSigned_digit_head c t (by simp [isDigit]; omega)]
      rfl
    rw [e]; exact this
  rw [this]
  simp [show ¬ z < 0 by omega]

theorem head128_plus (m z : Int) (h0 : 0 ≤ z) :
    head128 m (43 :: intStr z) = head128 m (intStr z) := by
  rw [head128_intStr m z, if_neg (by omega)]
  unfold head128
  rw [if_neg (by simp [(intStr_shape z).1]), if_neg (by simp)]
  have : parseSigned (43 :: intStr z) = some z := by
    have := parseSigned_intStr z
    have e : parseSigned (43 :: intStr z) = parseSigned (intStr z) := by
      rw [intStr_nonneg z h0]
      obtain ⟨c, t, e, h1, h2, _⟩ := natStr_head z.natAbs
      rw [e, parseSigned_digit_head c t (by simp [isDigit]; omega)]
      rfl
    rw [e]; exact this
  rw [this]
  simp [show ¬ z < 0 by omega]

theorem clean_plus (a : Str) (h : Clean a) : Clean (43 :: a) := by
  intro c hc
  rcases List.mem_cons.mp hc with h' | h'
  · exact Or.inr (Or.inr h')
  · exact h c h'

/-- a leading '+' in front of the text of a non-negative value does not change what is parsed -/
theorem fromStr64_plus (p : Nat) (raw : Int) (hr : fits64 raw = true) (h0 : 0 ≤ raw) :
    fromStr64 p (10^p) (43 :: toStr (10^p) raw) = fromStr64 p (10^p) (toStr (10^p) raw) := by
  obtain ⟨_, _, _, h4, _⟩ := tdiv_facts raw (10^p) (pow10_pos p)
  have hq := fits64_tdiv raw (10^p) (pow10_pos p) hr
  have hq0 := (h4 h0).2
  by_cases hz : raw.tmod (10^p) = 0
  · rw [toStr_int _ _ hz, fromStr64_nodot p _ _ (clean_plus _ (intStr_clean _)) (by simp),
      fromStr64_nodot p _ _ (intStr_clean _) (intStr_shape _).1, head64_plus _ _ hq hq0]
  · rw [toStr_frac p raw hz, if_neg (by omega)]
    simp only [List.nil_append, List.append_assoc, List.cons_append]
    rw [← List.cons_append, fromStr64_dot p _ _ _ (clean_plus _ (intStr_clean _)) (fracStr_clean p _),
      fromStr64_dot p _ _ _ (intStr_clean _) (fracStr_clean p _), head64_plus _ _ hq hq0]

theorem fromStr128_plus (p : Nat) (raw : Int) (h0 : 0 ≤ raw) :
    fromStr128 p (10^p) (43 :: toStr (10^p) raw) = fromStr128 p (10^p) (toStr (10^p) raw) := by
  obtain ⟨_, _, _, h4, _⟩ := tdiv_facts raw (10^p) (pow10_pos p)
  have hq0 := (h4 h0).2
  by_cases hz : raw.tmod (10^p) = 0
  · rw [toStr_int _ _ hz, fromStr128_nodot p _ _ (clean_plus _ (intStr_clean _)) (by simp),
      fromStr128_nodot p _ _ (intStr_clean _) (intStr_shape _).1, head128_plus _ _ hq0]
  · rw [toStr_frac p raw hz, if_neg (by omega)]
    simp only [List.nil_append, List.append_assoc, List.cons_append]
    rw [← List.cons_append, fromStr128_dot p _ _ _ (clean_plus _ (intStr_clean _)) (fracStr_clean p _),
      fromStr128_dot p _ _ _ (intStr_clean _) (fracStr_clean p _), head128_plus _ _ hq0]

/-! ### Unquote -/
theorem unquote_quoted (s : Str) : unquote (34 :: (s ++ [34])) = s := by
  unfold unquote
  rw [if_pos]
  · simp
  · refine ⟨by simp, by simp, ?_⟩
    rw [show (34 :: (s ++ [34]) : Str) = (34 :: s) ++ [34] by simp, List.getLast?_append]
    simp

theorem unquote_bare (s : Str) (h : s.head? ≠ some 34 ∨ s.getLast? ≠ some 34) : unquote s = s := by
  unfold unquote
  rw [if_neg]
  intro hh
  rcases h with h | h
  · exact h hh.2.1
  · exact h hh.2.2

theorem unquote_short (s : Str) (h : s.length ≤ 1) : unquote s = s := by
  unfold unquote
  rw [if_neg]
  intro hh; omega

end FixedText
