import Model.Cmdline
/-! Lemmas about the command-line scanner model (C10): unfolding of the main loop, the valid spellings and what the
    scanner does with each of them.  Core-only. -/
namespace Cmd

variable (tbl : Table) (acc : Accepts) (files : Files)

/-! ### unfolding of `run` -/

theorem run_nil (seen : List Str) (a : PAcc) (m : Mode) :
    run tbl acc files seen a m [] = (match m with | .value _ => .fatal | _ => .ok a) := by
  cases m <;> simp [run]

theorem run_at (seen : List Str) (a : PAcc) (path : Str) (args : List Str) :
    run tbl acc files seen a .look ((64 :: path) :: args) =
      (if path ∈ seen then .fatal else match files.lookup path with
        | none => .fatal
        | some ins => run tbl acc files (path :: seen) a .look (ins ++ args)) := by
  rw [run.eq_def]
  simp only
  split
  · rfl
  · split <;> rename_i heq <;> simp [heq]

theorem run_step (seen : List Str) (a : PAcc) (m : Mode) (arg : Str) (args : List Str)
    (h : (∃ o, m = .value o) ∨ m = .collect ∨ arg.head? ≠ some 64) :
    run tbl acc files seen a m (arg :: args) =
      (match stepArg tbl acc a m arg with | none => .fatal | some (a', m') => run tbl acc files seen a' m' args) := by
  rw [run.eq_def]
  simp only
  split
  · rcases h with ⟨o, h⟩ | h | h
    · cases h
    · cases h
    · simp at h
  · rfl

/-- an argument starting with `-` is never a response-file reference -/
theorem run_dash (seen : List Str) (a : PAcc) (body : Str) (args : List Str) :
    run tbl acc files seen a .look ((45 :: body) :: args) =
      (match stepArg tbl acc a .look (45 :: body) with
       | none => .fatal | some (a', m') => run tbl acc files seen a' m' args) :=
  run_step tbl acc files seen a .look _ args (Or.inr (Or.inr (by simp)))

theorem run_value (seen : List Str) (a : PAcc) (o : Opt) (arg : Str) (args : List Str) :
    run tbl acc files seen a (.value o) (arg :: args) =
      (match set acc a o arg with | none => .fatal | some a' => run tbl acc files seen a' .look args) := by
  rw [run_step tbl acc files seen a (.value o) arg args (Or.inl ⟨o, rfl⟩)]
  simp only [stepArg]
  cases set acc a o arg <;> rfl

def addSets (a : PAcc) (s : List (Nat × Str)) : PAcc := { a with sets := a.sets ++ s }

theorem addSets_nil (a : PAcc) : addSets a [] = a := by simp [addSets]
theorem addSets_addSets (a : PAcc) (s t : List (Nat × Str)) : addSets (addSets a s) t = addSets a (s ++ t) := by
  simp [addSets, List.append_assoc]

theorem set_ok (a : PAcc) (o : Opt) (v : Str) (h : acc o.id v = true) : set acc a o v = some (addSets a [(o.id, v)]) := by
  simp [set, h, addSets]
theorem set_bad (a : PAcc) (o : Opt) (v : Str) (h : acc o.id v = false) : set acc a o v = none := by
  simp [set, h]

/-- after collection has begun every argument is returned verbatim -/
theorem run_collect (seen : List Str) (a : PAcc) (pos : List Str) :
    run tbl acc files seen a .collect pos = .ok { a with rest := a.rest ++ pos } := by
  induction pos generalizing a with
  | nil => simp [run_nil]
  | cons p ps ih =>
    rw [run_step tbl acc files seen a .collect p ps (Or.inr (Or.inl rfl))]
    simp [stepArg, ih, List.append_assoc]

/-! ### `splitEq` -/

theorem splitEq_noeq (n : Str) (h : 61 ∉ n) : splitEq n = (n, none) := by
  induction n with
  | nil => rfl
  | cons c t ih =>
    have hc : c ≠ 61 := fun e => h (by simp [e])
    have ht : 61 ∉ t := fun e => h (by simp [e])
    unfold splitEq
    split
    · rename_i heq; cases heq
    · rename_i heq; cases heq; exact absurd rfl hc
    · rename_i c' t' _ heq
      cases heq
      simp [ih ht]

theorem splitEq_eq (n v : Str) (h : 61 ∉ n) : splitEq (n ++ 61 :: v) = (n, some v) := by
  induction n with
  | nil => rfl
  | cons c t ih =>
    have hc : c ≠ 61 := fun e => h (by simp [e])
    have ht : 61 ∉ t := fun e => h (by simp [e])
    simp only [List.cons_append]
    unfold splitEq
    split
    · rename_i heq; cases heq
    · rename_i heq; cases heq; exact absurd rfl hc
    · rename_i c' t' _ heq
      cases heq
      simp [ih ht]

/-! ### runes -/

/-- `k` is the UTF-8 encoding of one rune, as Go's range loop decodes it, whatever follows -/
def IsRune (k : Str) : Prop := k ≠ [] ∧ ∀ rest, runeLen (k ++ rest) = (k.length, true)

theorem isRune_ascii (c : Nat) (h : c < 128) : IsRune [c] := by
  refine ⟨by simp, fun rest => ?_⟩
  simp [runeLen, h]

theorem runeKey_isRune (k rest : Str) (h : IsRune k) : runeKey (k ++ rest) = k := by
  simp [runeKey, h.2 rest]

theorem nextLen_isRune (k rest : Str) (h : IsRune k) : nextLen (k ++ rest) = k.length := by
  simp [nextLen, h.2 rest]

/-! ### the short-option loop -/

/-- a boolean flag inside a group: recorded, the loop continues behind it -/
theorem shortLoop_flag (k rest : Str) (o : Opt) (a : PAcc) (hk : IsRune k) (ht : tbl k = some o)
    (hb : o.isBool = true) (ha : acc o.id strTrue = true) :
    shortLoop tbl acc (k ++ rest) a = shortLoop tbl acc rest (addSets a [(o.id, strTrue)]) := by
  obtain ⟨hne, hr⟩ := hk
  cases k with
  | nil => exact absurd rfl hne
  | cons c t =>
    have h1 := runeKey_isRune (c :: t) rest ⟨hne, hr⟩
    have h2 := hr rest
    simp only [List.cons_append] at h1 h2 ⊢
    rw [shortLoop]
    simp only [h1, ht, hb, if_true, set_ok acc a o strTrue ha, h2, List.length_cons, Nat.add_sub_cancel]
    simp

/-- a value-taking option inside a group ends the loop: what follows its name is the value -/
theorem shortLoop_val (k rest : Str) (o : Opt) (a : PAcc) (hk : IsRune k) (ht : tbl k = some o)
    (hb : o.isBool = false) :
    shortLoop tbl acc (k ++ rest) a =
      (match rest with
       | [] => some (a, .value o)
       | 61 :: v => (set acc a o v).map (fun a' => (a', .look))
       | v => (set acc a o v).map (fun a' => (a', .look))) := by
  obtain ⟨hne, hr⟩ := hk
  cases k with
  | nil => exact absurd rfl hne
  | cons c t =>
    have h1 := runeKey_isRune (c :: t) rest ⟨hne, hr⟩
    have h3 := nextLen_isRune (c :: t) rest ⟨hne, hr⟩
    simp only [List.cons_append] at h1 h3 ⊢
    rw [shortLoop]
    simp only [h1, ht, hb, h3]
    simp only [Bool.false_eq_true, if_false]
    have hd : List.drop (c :: t).length (c :: (t ++ rest)) = rest := by
      rw [← List.cons_append]; exact List.drop_left
    rw [hd]
    split <;> split <;> simp_all

theorem shortLoop_val_end (k : Str) (o : Opt) (a : PAcc) (hk : IsRune k) (ht : tbl k = some o)
    (hb : o.isBool = false) : shortLoop tbl acc k a = some (a, .value o) := by
  have := shortLoop_val tbl acc k [] o a hk ht hb
  simpa using this

theorem shortLoop_val_eq (k v : Str) (o : Opt) (a : PAcc) (hk : IsRune k) (ht : tbl k = some o)
    (hb : o.isBool = false) :
    shortLoop tbl acc (k ++ 61 :: v) a = (set acc a o v).map (fun a' => (a', .look)) := by
  rw [shortLoop_val tbl acc k (61 :: v) o a hk ht hb]
  split
  · rename_i heq; cases heq
  · rename_i heq; injection heq with _ e; subst e; rfl
  · rename_i _ h; exact absurd rfl (h v)

theorem shortLoop_val_att (k : Str) (d : Nat) (w : Str) (o : Opt) (a : PAcc) (hk : IsRune k) (ht : tbl k = some o)
    (hb : o.isBool = false) (hd : d ≠ 61) :
    shortLoop tbl acc (k ++ d :: w) a = (set acc a o (d :: w)).map (fun a' => (a', .look)) := by
  rw [shortLoop_val tbl acc k (d :: w) o a hk ht hb]
  split
  · rename_i heq; cases heq
  · rename_i heq; injection heq with e _; exact absurd e hd
  · rfl

theorem head?_append_ne {α : Type} (l m : List α) (h : l ≠ []) : (l ++ m).head? = l.head? := by
  cases l with
  | nil => exact absurd rfl h
  | cons x t => rfl

/-! ### valid spellings -/

/-- a boolean short flag: its rune (UTF-8) and the option it names -/
abbrev Flag := Str × Opt

def flagKeys (fl : List Flag) : Str := fl.flatMap (·.1)
def flagSets (fl : List Flag) : List (Nat × Str) := fl.map (fun x => (x.2.id, strTrue))

/-- every valid way to write one argument-vector item that assigns options; the short forms may be preceded, in the
    same argument, by grouped boolean flags -/
inductive Spell
  | longEq (name : Str) (o : Opt) (v : Str)                  -- --name=value
  | longSep (name : Str) (o : Opt) (v : Str)                 -- --name value
  | flagLong (name : Str) (o : Opt)                          -- --flag
  | shortSep (fl : List Flag) (k : Str) (o : Opt) (v : Str)  -- -n value      (-abn value)
  | shortAtt (fl : List Flag) (k : Str) (o : Opt) (v : Str)  -- -nvalue       (-abnvalue)
  | shortEq (fl : List Flag) (k : Str) (o : Opt) (v : Str)   -- -n=value      (-abn=value)
  | flags (fl : List Flag)                                   -- -abc, all boolean

def Spell.args : Spell → List Str
  | .longEq n _ v => [45 :: 45 :: (n ++ 61 :: v)]
  | .longSep n _ v => [45 :: 45 :: n, v]
  | .flagLong n _ => [45 :: 45 :: n]
  | .shortSep fl k _ v => [45 :: (flagKeys fl ++ k), v]
  | .shortAtt fl k _ v => [45 :: (flagKeys fl ++ (k ++ v))]
  | .shortEq fl k _ v => [45 :: (flagKeys fl ++ (k ++ 61 :: v))]
  | .flags fl => [45 :: flagKeys fl]

/-- the assignments a spelling denotes, in order -/
def Spell.sets : Spell → List (Nat × Str)
  | .longEq _ o v | .longSep _ o v => [(o.id, v)]
  | .flagLong _ o => [(o.id, strTrue)]
  | .shortSep fl _ o v | .shortAtt fl _ o v | .shortEq fl _ o v => flagSets fl ++ [(o.id, v)]
  | .flags fl => flagSets fl

def FlagsOK (fl : List Flag) : Prop :=
  ∀ x ∈ fl, tbl x.1 = some x.2 ∧ x.2.isBool = true ∧ IsRune x.1 ∧ acc x.2.id strTrue = true

/-- side conditions under which a spelling is read the intended way: the names are declared with the right arity,
    long names are non-empty and contain no `=`, short names are single runes and the first one of an argument is
    not `-`, an attached value is non-empty and does not start with `=` -/
def Spell.Shape : Spell → Prop
  | .longEq n o _ => tbl n = some o ∧ o.isBool = false ∧ 61 ∉ n ∧ n ≠ []
  | .longSep n o _ => tbl n = some o ∧ o.isBool = false ∧ 61 ∉ n ∧ n ≠ []
  | .flagLong n o => tbl n = some o ∧ o.isBool = true ∧ 61 ∉ n ∧ n ≠ []
  | .shortSep fl k o _ => FlagsOK tbl acc fl ∧ tbl k = some o ∧ o.isBool = false ∧ IsRune k ∧
      (flagKeys fl ++ k).head? ≠ some 45
  | .shortAtt fl k o v => FlagsOK tbl acc fl ∧ tbl k = some o ∧ o.isBool = false ∧ IsRune k ∧
      (flagKeys fl ++ k).head? ≠ some 45 ∧ v ≠ [] ∧ v.head? ≠ some 61
  | .shortEq fl k o _ => FlagsOK tbl acc fl ∧ tbl k = some o ∧ o.isBool = false ∧ IsRune k ∧
      (flagKeys fl ++ k).head? ≠ some 45
  | .flags fl => fl ≠ [] ∧ FlagsOK tbl acc fl ∧ (flagKeys fl).head? ≠ some 45

/-- the assignment whose acceptance by `Set` is still open (grouped flags in front are covered by `FlagsOK`) -/
def Spell.last : Spell → Option (Nat × Str)
  | .longEq _ o v | .longSep _ o v | .shortSep _ _ o v | .shortAtt _ _ o v | .shortEq _ _ o v => some (o.id, v)
  | .flagLong _ o => some (o.id, strTrue)
  | .flags _ => none

def Spell.accepted (sp : Spell) : Bool :=
  match sp.last with
  | some p => acc p.1 p.2
  | none => true

/-- a valid spelling: well-shaped and the option's `Set` accepts the value -/
def Spell.Valid (sp : Spell) : Prop := sp.Shape tbl acc ∧ sp.accepted acc = true

/-- grouped boolean flags in front of whatever follows in the same argument -/
theorem shortLoop_flags (fl : List Flag) (rest : Str) (a : PAcc) (h : FlagsOK tbl acc fl) :
    shortLoop tbl acc (flagKeys fl ++ rest) a = shortLoop tbl acc rest (addSets a (flagSets fl)) := by
  induction fl generalizing a with
  | nil => simp [flagKeys, flagSets, addSets_nil]
  | cons x fl ih =>
    obtain ⟨h1, h2, h3, h4⟩ := h x (by simp)
    have : flagKeys (x :: fl) ++ rest = x.1 ++ (flagKeys fl ++ rest) := by simp [flagKeys]
    rw [this, shortLoop_flag tbl acc x.1 _ x.2 a h3 h1 h2 h4, ih _ (fun y hy => h y (by simp [hy]))]
    simp [addSets_addSets, flagSets]

theorem long_step (a : PAcc) (n rest : Str) (hn : n ≠ []) :
    stepArg tbl acc a .look (45 :: 45 :: (n ++ rest)) =
      (match tbl (splitEq (n ++ rest)).1 with
       | none => none
       | some o =>
         if o.isBool then
           (match (splitEq (n ++ rest)).2 with
            | some _ => none
            | none => (set acc a o strTrue).map (fun a' => (a', .look)))
         else match (splitEq (n ++ rest)).2 with
           | some v => (set acc a o v).map (fun a' => (a', .look))
           | none => some (a, .value o)) := by
  cases n with
  | nil => exact absurd rfl hn
  | cons c t => rfl

theorem short_step (a : PAcc) (body : Str) (hc : body.head? ≠ some 45) (hne : body ≠ []) :
    stepArg tbl acc a .look (45 :: body) = shortLoop tbl acc body a := by
  cases body with
  | nil => exact absurd rfl hne
  | cons c t =>
    have hc' : c ≠ 45 := fun e => hc (by simp [e])
    unfold stepArg
    simp only
    split
    · rename_i heq
      injection heq with _ h2
      injection h2 with h3 _
      exact absurd h3 hc'
    · rename_i heq
      injection heq with _ h2
      cases h2
    · rename_i b heq
      injection heq with _ h2
      injection h2 with h3 _
      exact absurd h3 hc'
    · rename_i b _ _ heq
      injection heq with _ h2
      subst h2; rfl
    · rename_i h1 h2 h3 h4
      exact absurd rfl (h4 (c :: t))

theorem flagKeys_ne_nil (fl : List Flag) (hne : fl ≠ []) (h : FlagsOK tbl acc fl) : flagKeys fl ≠ [] := by
  cases fl with
  | nil => exact absurd rfl hne
  | cons x t =>
    have := (h x (by simp)).2.2.1.1
    simp [flagKeys, this]

theorem set_eq (a : PAcc) (o : Opt) (v : Str) :
    set acc a o v = if acc o.id v then some (addSets a [(o.id, v)]) else none := by
  simp [set, addSets]

/-- a well-shaped spelling is consumed in `look` mode; it records exactly its assignment(s) if `Set` accepts the
    value and is fatal otherwise -/
theorem run_spell_shape (sp : Spell) (hv : sp.Shape tbl acc) (seen : List Str) (a : PAcc) (tail : List Str) :
    run tbl acc files seen a .look (sp.args ++ tail) =
      if sp.accepted acc then run tbl acc files seen (addSets a sp.sets) .look tail else .fatal := by
  cases sp with
  | longEq n o v =>
    obtain ⟨h1, h2, h3, h4⟩ := hv
    simp only [Spell.args, Spell.sets, Spell.accepted, Spell.last, List.cons_append, List.nil_append, run_dash]
    rw [long_step tbl acc a n (61 :: v) h4, splitEq_eq n v h3]
    simp only [h1, h2, set_eq]
    by_cases h5 : acc o.id v = true <;> simp [h5]
  | longSep n o v =>
    obtain ⟨h1, h2, h3, h4⟩ := hv
    simp only [Spell.args, Spell.sets, Spell.accepted, Spell.last, List.cons_append, List.nil_append, run_dash]
    have := long_step tbl acc a n [] h4
    simp only [List.append_nil] at this
    rw [this, splitEq_noeq n h3]
    by_cases h5 : acc o.id v = true <;> simp [h1, h2, run_value, set_eq, h5]
  | flagLong n o =>
    obtain ⟨h1, h2, h3, h4⟩ := hv
    simp only [Spell.args, Spell.sets, Spell.accepted, Spell.last, List.cons_append, List.nil_append, run_dash]
    have := long_step tbl acc a n [] h4
    simp only [List.append_nil] at this
    rw [this, splitEq_noeq n h3]
    simp only [h1, h2, set_eq]
    by_cases h5 : acc o.id strTrue = true <;> simp [h5]
  | shortSep fl k o v =>
    obtain ⟨h0, h1, h2, h3, h4⟩ := hv
    simp only [Spell.args, Spell.sets, Spell.accepted, Spell.last, List.cons_append, List.nil_append, run_dash]
    rw [short_step tbl acc a _ h4 (by simp [h3.1]), shortLoop_flags tbl acc fl k a h0,
      shortLoop_val_end tbl acc k o (addSets a (flagSets fl)) h3 h1 h2]
    by_cases h5 : acc o.id v = true <;> simp [run_value, set_eq, h5, addSets_addSets]
  | shortAtt fl k o v =>
    obtain ⟨h0, h1, h2, h3, h4, h6, h7⟩ := hv
    simp only [Spell.args, Spell.sets, Spell.accepted, Spell.last, List.cons_append, List.nil_append, run_dash]
    have h4' : (flagKeys fl ++ (k ++ v)).head? ≠ some 45 := by
      rw [← List.append_assoc]
      have hne : flagKeys fl ++ k ≠ [] := by simp [h3.1]
      rw [head?_append_ne _ _ hne]; exact h4
    cases v with
    | nil => exact absurd rfl h6
    | cons d w =>
      have hd : d ≠ 61 := fun e => h7 (by simp [e])
      rw [short_step tbl acc a _ h4' (by simp), shortLoop_flags tbl acc fl (k ++ d :: w) a h0,
        shortLoop_val_att tbl acc k d w o (addSets a (flagSets fl)) h3 h1 h2 hd]
      simp only [set_eq]
      by_cases h5 : acc o.id (d :: w) = true <;> simp [h5, addSets_addSets]
  | shortEq fl k o v =>
    obtain ⟨h0, h1, h2, h3, h4⟩ := hv
    simp only [Spell.args, Spell.sets, Spell.accepted, Spell.last, List.cons_append, List.nil_append, run_dash]
    have h4' : (flagKeys fl ++ (k ++ 61 :: v)).head? ≠ some 45 := by
      rw [← List.append_assoc]
      have hne : flagKeys fl ++ k ≠ [] := by simp [h3.1]
      rw [head?_append_ne _ _ hne]; exact h4
    rw [short_step tbl acc a _ h4' (by simp), shortLoop_flags tbl acc fl (k ++ 61 :: v) a h0,
      shortLoop_val_eq tbl acc k v o (addSets a (flagSets fl)) h3 h1 h2]
    simp only [set_eq]
    by_cases h5 : acc o.id v = true <;> simp [h5, addSets_addSets]
  | flags fl =>
    obtain ⟨hfl, h0, h4⟩ := hv
    simp only [Spell.args, Spell.sets, Spell.accepted, Spell.last, List.cons_append, List.nil_append, run_dash]
    have := shortLoop_flags tbl acc fl [] a h0
    simp only [List.append_nil] at this
    rw [short_step tbl acc a _ h4 (flagKeys_ne_nil tbl acc fl hfl h0), this]
    simp [shortLoop]

/-- every valid spelling is consumed in `look` mode and records exactly its assignment(s) -/
theorem run_spell (sp : Spell) (hv : sp.Valid tbl acc) (seen : List Str) (a : PAcc) (tail : List Str) :
    run tbl acc files seen a .look (sp.args ++ tail) = run tbl acc files seen (addSets a sp.sets) .look tail := by
  rw [run_spell_shape tbl acc files sp hv.1, hv.2]; simp

theorem run_spells (sps : List Spell) (hv : ∀ sp ∈ sps, sp.Valid tbl acc) (seen : List Str) (a : PAcc)
    (tail : List Str) :
    run tbl acc files seen a .look (sps.flatMap Spell.args ++ tail) =
      run tbl acc files seen (addSets a (sps.flatMap Spell.sets)) .look tail := by
  induction sps generalizing a with
  | nil => simp [addSets_nil]
  | cons sp sps ih =>
    simp only [List.flatMap_cons, List.append_assoc]
    rw [run_spell tbl acc files sp (hv sp (by simp)), ih (fun s hs => hv s (by simp [hs]))]
    simp [addSets_addSets]

/-! ### malformed items (each stated at an option boundary: `look` mode, any set of loaded paths, any accumulator) -/

theorem run_unknown_long (body : Str) (tail : List Str) (seen : List Str) (a : PAcc) (hb : body ≠ [])
    (h : tbl (splitEq body).1 = none) :
    run tbl acc files seen a .look ((45 :: 45 :: body) :: tail) = .fatal := by
  rw [run_dash]
  have := long_step tbl acc a body [] hb
  simp only [List.append_nil] at this
  rw [this, h]

theorem run_unknown_short (fl : List Flag) (k rest : Str) (tail : List Str) (seen : List Str) (a : PAcc)
    (h0 : FlagsOK tbl acc fl) (hk : IsRune k) (hd : (flagKeys fl ++ k).head? ≠ some 45) (h : tbl k = none) :
    run tbl acc files seen a .look ((45 :: (flagKeys fl ++ (k ++ rest))) :: tail) = .fatal := by
  have hd' : (flagKeys fl ++ (k ++ rest)).head? ≠ some 45 := by
    rw [← List.append_assoc]
    have hne : flagKeys fl ++ k ≠ [] := by simp [hk.1]
    rw [head?_append_ne _ _ hne]; exact hd
  rw [run_dash, short_step tbl acc a _ hd' (by simp [hk.1]), shortLoop_flags tbl acc fl (k ++ rest) a h0]
  obtain ⟨hne, hr⟩ := hk
  cases k with
  | nil => exact absurd rfl hne
  | cons c t =>
    have h1 := runeKey_isRune (c :: t) rest ⟨hne, hr⟩
    simp only [List.cons_append] at h1 ⊢
    rw [shortLoop]
    simp [h1, h]

theorem run_bool_value (n v : Str) (o : Opt) (tail : List Str) (seen : List Str) (a : PAcc)
    (h1 : tbl n = some o) (h2 : o.isBool = true) (h3 : 61 ∉ n) (h4 : n ≠ []) :
    run tbl acc files seen a .look ((45 :: 45 :: (n ++ 61 :: v)) :: tail) = .fatal := by
  rw [run_dash, long_step tbl acc a n (61 :: v) h4, splitEq_eq n v h3]
  simp [h1, h2]

theorem run_missing_long (n : Str) (o : Opt) (seen : List Str) (a : PAcc)
    (h1 : tbl n = some o) (h2 : o.isBool = false) (h3 : 61 ∉ n) (h4 : n ≠ []) :
    run tbl acc files seen a .look [45 :: 45 :: n] = .fatal := by
  rw [run_dash]
  have := long_step tbl acc a n [] h4
  simp only [List.append_nil] at this
  rw [this, splitEq_noeq n h3]
  simp [h1, h2, run_nil]

theorem run_missing_short (fl : List Flag) (k : Str) (o : Opt) (seen : List Str) (a : PAcc)
    (h0 : FlagsOK tbl acc fl) (h1 : tbl k = some o) (h2 : o.isBool = false) (h3 : IsRune k)
    (h4 : (flagKeys fl ++ k).head? ≠ some 45) :
    run tbl acc files seen a .look [45 :: (flagKeys fl ++ k)] = .fatal := by
  rw [run_dash, short_step tbl acc a _ h4 (by simp [h3.1]), shortLoop_flags tbl acc fl k a h0,
    shortLoop_val_end tbl acc k o (addSets a (flagSets fl)) h3 h1 h2]
  simp [run_nil]

/-- what the scanner finds at an option boundary is malformed -/
inductive Malformed : List Str → Prop
  /-- `--nosuch`, `--nosuch=v` -/
  | unknownLong (body : Str) (tail : List Str) : body ≠ [] → tbl (splitEq body).1 = none →
      Malformed ((45 :: 45 :: body) :: tail)
  /-- `-x…`, `-abx…` with x undeclared -/
  | unknownShort (fl : List Flag) (k rest : Str) (tail : List Str) : FlagsOK tbl acc fl → IsRune k →
      (flagKeys fl ++ k).head? ≠ some 45 → tbl k = none → Malformed ((45 :: (flagKeys fl ++ (k ++ rest))) :: tail)
  /-- `--flag=v` for a boolean flag -/
  | boolValue (n v : Str) (o : Opt) (tail : List Str) : tbl n = some o → o.isBool = true → 61 ∉ n → n ≠ [] →
      Malformed ((45 :: 45 :: (n ++ 61 :: v)) :: tail)
  /-- `--name` at the very end, the value is missing -/
  | missingLong (n : Str) (o : Opt) : tbl n = some o → o.isBool = false → 61 ∉ n → n ≠ [] →
      Malformed [45 :: 45 :: n]
  /-- `-n` (`-abn`) at the very end, the value is missing -/
  | missingShort (fl : List Flag) (k : Str) (o : Opt) : FlagsOK tbl acc fl → tbl k = some o → o.isBool = false →
      IsRune k → (flagKeys fl ++ k).head? ≠ some 45 → Malformed [45 :: (flagKeys fl ++ k)]
  /-- any spelling whose value the option's `Set` rejects -/
  | rejected (sp : Spell) (tail : List Str) : sp.Shape tbl acc → sp.accepted acc = false →
      Malformed (sp.args ++ tail)

theorem run_malformed (l : List Str) (h : Malformed tbl acc l) (seen : List Str) (a : PAcc) :
    run tbl acc files seen a .look l = .fatal := by
  cases h with
  | unknownLong body tail h1 h2 => exact run_unknown_long tbl acc files body tail seen a h1 h2
  | unknownShort fl k rest tail h0 h1 h2 h3 => exact run_unknown_short tbl acc files fl k rest tail seen a h0 h1 h2 h3
  | boolValue n v o tail h1 h2 h3 h4 => exact run_bool_value tbl acc files n v o tail seen a h1 h2 h3 h4
  | missingLong n o h1 h2 h3 h4 => exact run_missing_long tbl acc files n o seen a h1 h2 h3 h4
  | missingShort fl k o h0 h1 h2 h3 h4 => exact run_missing_short tbl acc files fl k o seen a h0 h1 h2 h3 h4
  | rejected sp tail h1 h2 => rw [run_spell_shape tbl acc files sp h1, h2]; simp

/-! ### what may follow the assignments -/

inductive Tail
  | none                              -- nothing
  | sep (qs : List Str)               -- `--`, then arbitrary arguments
  | plain (p : Str) (ps : List Str)   -- positionals; only the first is constrained

def Tail.args : Tail → List Str
  | .none => []
  | .sep qs => [45, 45] :: qs
  | .plain p ps => p :: ps

def Tail.rest : Tail → List Str
  | .none => []
  | .sep qs => qs
  | .plain p ps => p :: ps

/-- the first positional does not itself look like an option or a response-file reference (a lone `-` does not) -/
def Tail.OK : Tail → Prop
  | .plain p _ => (p = [45] ∨ p.head? ≠ some 45) ∧ p.head? ≠ some 64
  | _ => True

theorem stepArg_plain (a : PAcc) (p : Str) (hp : p = [45] ∨ p.head? ≠ some 45) :
    stepArg tbl acc a .look p = some ({ a with rest := a.rest ++ [p] }, .collect) := by
  rcases hp with rfl | hp
  · rfl
  · unfold stepArg
    simp only
    split
    · simp at hp
    · rfl
    · simp at hp
    · simp at hp
    · rfl

theorem run_tail (t : Tail) (ht : t.OK) (seen : List Str) (a : PAcc) :
    run tbl acc files seen a .look t.args = .ok { a with rest := a.rest ++ t.rest } := by
  cases t with
  | none => simp [Tail.args, Tail.rest, run_nil]
  | sep qs =>
    simp only [Tail.args, Tail.rest, run_dash]
    simp [stepArg, run_collect]
  | plain p ps =>
    obtain ⟨h1, h2⟩ := ht
    simp only [Tail.args, Tail.rest]
    rw [run_step tbl acc files seen a .look p ps (Or.inr (Or.inr h2)), stepArg_plain tbl acc a p h1]
    simp [run_collect, List.append_assoc]

/-- assignments in any valid spellings, then a tail: exactly the assignments in order and the positionals verbatim -/
theorem run_render (sps : List Spell) (hv : ∀ sp ∈ sps, sp.Valid tbl acc) (t : Tail) (ht : t.OK) (seen : List Str)
    (a : PAcc) :
    run tbl acc files seen a .look (sps.flatMap Spell.args ++ t.args) =
      .ok ⟨a.sets ++ sps.flatMap Spell.sets, a.rest ++ t.rest⟩ := by
  rw [run_spells tbl acc files sps hv, run_tail tbl acc files t ht]
  simp [addSets]


/-! ### response files -/


/-- no argument of the list is the reference `@f` -/
def NoRef (f : Str) (l : List Str) : Prop := (64 :: f) ∉ l
/-- no response file contains the reference `@f` -/
def FilesNoRef (f : Str) : Prop := ∀ e ∈ files, NoRef f e.2

theorem mem_of_lookup {α β : Type} [BEq α] [LawfulBEq α] (l : List (α × β)) (k : α) (v : β)
    (h : l.lookup k = some v) : (k, v) ∈ l := by
  induction l with
  | nil => simp at h
  | cons e es ih =>
    cases e with
    | mk k' v' =>
      by_cases hk : k = k'
      · subst hk; simp [List.lookup] at h; simp [h]
      · have : (k == k') = false := by simpa using hk
        simp [List.lookup, this] at h
        simp [ih h]

/-- a path that is referenced nowhere may be added to (or removed from) the set of loaded paths without effect -/
theorem run_seen_irrelevant (f : Str) (hfiles : FilesNoRef files f) (seen : List Str) (a : PAcc) (m : Mode)
    (args : List Str) :
    ∀ seen', (∀ p, p ∈ seen' ↔ (p = f ∨ p ∈ seen)) → NoRef f args →
      run tbl acc files seen' a m args = run tbl acc files seen a m args := by
  induction seen, a, m, args using run.induct tbl acc files with
  | case1 seen a o => intro seen' _ _; simp [run_nil]
  | case2 seen a m hm => intro seen' _ _; simp [run_nil]
  | case3 seen a args path hp =>
    intro seen' hs _
    have : path ∈ seen' := (hs path).mpr (Or.inr hp)
    simp [run_at, hp, this]
  | case4 seen a args path hp hl =>
    intro seen' hs hn
    have hpf : path ≠ f := by
      intro e; subst e; exact hn (by simp)
    have : path ∉ seen' := fun h => by
      rcases (hs path).mp h with h | h
      · exact hpf h
      · exact hp h
    simp [run_at, hp, this, hl]
  | case5 seen a args path hp ins hl ih =>
    intro seen' hs hn
    have hpf : path ≠ f := by
      intro e; subst e; exact hn (by simp)
    have : path ∉ seen' := fun h => by
      rcases (hs path).mp h with h | h
      · exact hpf h
      · exact hp h
    simp only [run_at, hp, this, hl, if_false]
    apply ih
    · intro p
      simp only [List.mem_cons, hs p]
      constructor
      · rintro (h | h | h)
        · exact Or.inr (Or.inl h)
        · exact Or.inl h
        · exact Or.inr (Or.inr h)
      · rintro (h | h | h)
        · exact Or.inr (Or.inl h)
        · exact Or.inl h
        · exact Or.inr (Or.inr h)
    · have h1 := hfiles _ (mem_of_lookup files path ins hl)
      unfold NoRef at *
      simp only [List.mem_append, not_or]
      exact ⟨h1, fun h => hn (by simp [h])⟩
  | case6 seen a args m arg hna hst =>
    intro seen' _ _
    have hc : (∃ o, m = .value o) ∨ m = .collect ∨ arg.head? ≠ some 64 := by
      cases m with
      | look =>
        refine Or.inr (Or.inr ?_)
        intro h
        cases arg with
        | nil => simp at h
        | cons c t => simp at h; subst h; exact hna t rfl rfl
      | value o => exact Or.inl ⟨o, rfl⟩
      | collect => exact Or.inr (Or.inl rfl)
    simp [run_step tbl acc files _ a m arg args hc, hst]
  | case7 seen a args m arg hna a' m' hst ih =>
    intro seen' hs hn
    have hc : (∃ o, m = .value o) ∨ m = .collect ∨ arg.head? ≠ some 64 := by
      cases m with
      | look =>
        refine Or.inr (Or.inr ?_)
        intro h
        cases arg with
        | nil => simp at h
        | cons c t => simp at h; subst h; exact hna t rfl rfl
      | value o => exact Or.inl ⟨o, rfl⟩
      | collect => exact Or.inr (Or.inl rfl)
    simp only [run_step tbl acc files _ a m arg args hc, hst]
    apply ih seen' hs
    exact fun h => hn (by simp [h])

/-- **response-file split.**  `pre` ends at an option boundary (hypothesis `hb`: after `pre` the scanner is looking
    for an option again), the file `f` holds the run `ins`, `f` has not been loaded before and is referenced nowhere
    else: writing `@f` instead of the run gives the same result (same assignments, same positionals, or fatal in both
    cases).  Nested files are covered by applying the theorem repeatedly: it holds for any set `seen` of already
    loaded paths and the run itself may contain further references. -/
theorem run_response_split (pre post ins : List Str) (f : Str) (seen seen₁ : List Str) (a a₁ : PAcc)
    (hb : ∀ tail, run tbl acc files seen a .look (pre ++ tail) = run tbl acc files seen₁ a₁ .look tail)
    (hf : files.lookup f = some ins) (hfresh : f ∉ seen₁) (h1 : FilesNoRef files f) (h3 : NoRef f post) :
    run tbl acc files seen a .look (pre ++ (64 :: f) :: post) = run tbl acc files seen a .look (pre ++ (ins ++ post)) := by
  rw [hb, hb, run_at]
  simp only [hfresh, if_false, hf]
  apply run_seen_irrelevant tbl acc files f h1
  · intro p; simp
  · have := h1 _ (mem_of_lookup files f ins hf)
    unfold NoRef at *
    simp only [List.mem_append, not_or]
    exact ⟨this, h3⟩


/-! ### final contents of the option variables -/


theorem assigned_append (id : Nat) (s t : List (Nat × Str)) : assigned id (s ++ t) = assigned id s ++ assigned id t := by
  simp [assigned]

theorem assigned_unmentioned (id : Nat) (sets : List (Nat × Str)) (h : ∀ s ∈ sets, s.1 ≠ id) : assigned id sets = [] := by
  simp only [assigned, List.map_eq_nil_iff, List.filter_eq_nil_iff]
  intro s hs
  simpa using h s hs

theorem assigned_cons_self (id : Nat) (v : Str) (s : List (Nat × Str)) : assigned id ((id, v) :: s) = v :: assigned id s := by
  simp [assigned]

theorem finalRaws_unmentioned (k : Kind) (defs : List Str) (id : Nat) (sets : List (Nat × Str))
    (h : ∀ s ∈ sets, s.1 ≠ id) : finalRaws k defs id sets = finalRaws k defs id [] := by
  unfold finalRaws
  rw [assigned_unmentioned id sets h]
  simp [assigned]

theorem finalRaws_last (k : Kind) (hs : k.slice = false) (hl : k.base ≠ .log) (defs : List Str) (id : Nat)
    (s1 s2 : List (Nat × Str)) (v : Str) (h : ∀ s ∈ s2, s.1 ≠ id) :
    finalRaws k defs id (s1 ++ (id, v) :: s2) = [v] := by
  have hl' : (k.base == Base.log) = false := by simpa using hl
  simp only [finalRaws, hs, hl', Bool.or_self, Bool.false_eq_true, if_false, assigned_append, assigned_cons_self,
    assigned_unmentioned id s2 h]
  simp [← List.append_assoc]

theorem finalRaws_append (k : Kind) (hk : k.slice = true ∨ k.base = .log) (defs : List Str) (id : Nat)
    (sets : List (Nat × Str)) : finalRaws k defs id sets = defs ++ assigned id sets := by
  rcases hk with h | h <;> simp [finalRaws, h]

theorem finish_user (a : PAcc) (h : ∀ s ∈ a.sets, firstUserId ≤ s.1) : finish (.ok a) = .done a := by
  have h0 : a.sets.any (fun s => s.1 == idHelp) = false := by
    simp only [List.any_eq_false, beq_iff_eq]
    intro s hs e; have := h s hs; simp [firstUserId, idHelp] at *; omega
  have h1 : a.sets.any (fun s => s.1 == idLongVersion) = false := by
    simp only [List.any_eq_false, beq_iff_eq]
    intro s hs e; have := h s hs; simp [firstUserId, idLongVersion] at *; omega
  have h2 : a.sets.any (fun s => s.1 == idVersion) = false := by
    simp only [List.any_eq_false, beq_iff_eq]
    intro s hs e; have := h s hs; simp [firstUserId, idVersion] at *; omega
  simp [finish, h0, h1, h2]




/-! ### the option table built from the declarations -/

theorem addKey_spec (es es' : Entries) (k : Str) (o : Opt) (h : addKey es k o = some es') :
    es'.lookup k = some o ∧ ∀ k' x, es.lookup k' = some x → es'.lookup k' = some x := by
  unfold addKey at h
  split at h
  · cases h
  · rename_i hn
    injection h with h; subst h
    have hnone : es.lookup k = none := by
      cases hl : es.lookup k with
      | none => rfl
      | some x => simp [hl] at hn
    constructor
    · simp [List.lookup_append, hnone, List.lookup]
    · intro k' x hx
      simp [List.lookup_append, hx]

theorem addOpt_spec (es es' : Entries) (single : Int) (name : Str) (o : Opt) (h : addOpt es single name o = some es') :
    (single ≠ 0 → es'.lookup (encodeRune single) = some o) ∧ (name ≠ [] → es'.lookup name = some o) ∧
    ∀ k' x, es.lookup k' = some x → es'.lookup k' = some x := by
  unfold addOpt at h
  split at h
  · cases h
  · split at h
    · cases h
    · rename_i es1 h1
      have s1 : (single ≠ 0 → es1.lookup (encodeRune single) = some o) ∧
          ∀ k' x, es.lookup k' = some x → es1.lookup k' = some x := by
        by_cases hs : single = 0
        · simp only [hs, ne_eq, not_true_eq_false, if_false] at h1
          injection h1 with h1; subst h1
          exact ⟨fun h => absurd hs h, fun _ _ hx => hx⟩
        · simp only [ne_eq, hs, not_false_eq_true, if_true] at h1
          have := addKey_spec es es1 _ o h1
          exact ⟨fun _ => this.1, this.2⟩
      by_cases hn : name = []
      · simp only [hn, ne_eq, not_true_eq_false, if_false] at h
        injection h with h; subst h
        exact ⟨s1.1, fun h => absurd hn h, s1.2⟩
      · simp only [ne_eq, hn, not_false_eq_true, if_true] at h
        have := addKey_spec es1 es' name o h
        exact ⟨fun hs => this.2 _ _ (s1.1 hs), fun _ => this.1, fun k' x hx => this.2 _ _ (s1.2 k' x hx)⟩

theorem addDecls_spec (decls : List Decl) : ∀ (es es' : Entries) (id : Nat), addDecls es id decls = some es' →
    (∀ i d, decls[i]? = some d →
      (d.single ≠ 0 → es'.lookup (encodeRune d.single) = some ⟨id + i, d.kind.isBool⟩) ∧
      (∀ n, d.name = some n → n ≠ [] → es'.lookup n = some ⟨id + i, d.kind.isBool⟩)) ∧
    ∀ k' x, es.lookup k' = some x → es'.lookup k' = some x := by
  induction decls with
  | nil =>
    intro es es' id h
    simp only [addDecls] at h
    injection h with h; subst h
    exact ⟨fun i d hd => by simp at hd, fun _ _ hx => hx⟩
  | cons d ds ih =>
    intro es es' id h
    simp only [addDecls] at h
    split at h
    · cases h
    · rename_i es1 h1
      have s1 := addOpt_spec es es1 _ _ _ h1
      have s2 := ih es1 es' (id + 1) h
      refine ⟨?_, fun k' x hx => s2.2 _ _ (s1.2.2 k' x hx)⟩
      intro i d' hd'
      cases i with
      | zero =>
        simp only [List.getElem?_cons_zero, Option.some.injEq] at hd'
        subst hd'
        refine ⟨fun hs => s2.2 _ _ (s1.1 hs), ?_⟩
        intro n hn hne
        have : d.name.getD [] = n := by simp [hn]
        rw [this] at s1
        exact s2.2 _ _ (s1.2.1 hne)
      | succ j =>
        simp only [List.getElem?_cons_succ] at hd'
        have := s2.1 j d' hd'
        have e : id + 1 + j = id + (j + 1) := by omega
        rw [e] at this
        exact this

/-- every declared name is in the table of a successfully built command line, bound to its option (id = position
    of the declaration) with the right arity -/
theorem build_spec (incl : Bool) (decls : List Decl) (es : Entries) (h : build incl decls = some es) (i : Nat)
    (d : Decl) (hd : decls[i]? = some d) :
    (d.single ≠ 0 → tableOf es (encodeRune d.single) = some ⟨firstUserId + i, d.kind.isBool⟩) ∧
    (∀ n, d.name = some n → tableOf es n = some ⟨firstUserId + i, d.kind.isBool⟩) := by
  unfold build at h
  split at h
  · cases h
  · rename_i hany
    have := (addDecls_spec decls _ es firstUserId h).1 i d hd
    refine ⟨this.1, fun n hn => this.2 n hn ?_⟩
    intro hne
    apply hany
    simp only [List.any_eq_true]
    refine ⟨d, List.mem_of_getElem? hd, ?_⟩
    simp [hn, hne]


/-! ### UTF-8 -/


theorem isRune_enc2 (n : Nat) (h1 : 128 ≤ n) (h2 : n < 2048) : IsRune [192 + n / 64, 128 + n % 64] := by
  refine ⟨by simp, fun rest => ?_⟩
  have a1 : ¬ (192 + n / 64 < 128) := by omega
  have a2 : 194 ≤ 192 + n / 64 := by omega
  have a3 : 192 + n / 64 ≤ 223 := by omega
  have a4 : 128 ≤ 128 + n % 64 := by omega
  have a5 : 128 + n % 64 ≤ 191 := by omega
  simp [runeLen, isCont, a1, a2, a3, a4, a5]

theorem isRune_enc3 (n : Nat) (h1 : 2048 ≤ n) (h2 : n < 65536) (hs : n < 55296 ∨ 57343 < n) :
    IsRune [224 + n / 4096, 128 + n / 64 % 64, 128 + n % 64] := by
  refine ⟨by simp, fun rest => ?_⟩
  have a1 : ¬ (224 + n / 4096 < 128) := by omega
  have a2 : ¬ (194 ≤ 224 + n / 4096 ∧ 224 + n / 4096 ≤ 223) := by omega
  have a3 : 224 ≤ 224 + n / 4096 := by omega
  have a4 : 224 + n / 4096 ≤ 239 := by omega
  have a5 : 128 ≤ 128 + n % 64 := by omega
  have a6 : 128 + n % 64 ≤ 191 := by omega
  have a7 : (if 224 + n / 4096 = 224 then 160 else 128) ≤ 128 + n / 64 % 64 := by split <;> omega
  have a8 : 128 + n / 64 % 64 ≤ (if 224 + n / 4096 = 237 then 159 else 191) := by split <;> omega
  simp only [runeLen, isCont, List.cons_append, List.nil_append, a1, if_false]
  simp [a2, a3, a4, a5, a6, a8]
  split <;> omega

theorem isRune_enc4 (n : Nat) (h1 : 65536 ≤ n) (h2 : n ≤ 1114111) :
    IsRune [240 + n / 262144, 128 + n / 4096 % 64, 128 + n / 64 % 64, 128 + n % 64] := by
  refine ⟨by simp, fun rest => ?_⟩
  have a1 : ¬ (240 + n / 262144 < 128) := by omega
  have a2 : ¬ (194 ≤ 240 + n / 262144 ∧ 240 + n / 262144 ≤ 223) := by omega
  have a2' : ¬ (224 ≤ 240 + n / 262144 ∧ 240 + n / 262144 ≤ 239) := by omega
  have a3 : 240 ≤ 240 + n / 262144 := by omega
  have a4 : 240 + n / 262144 ≤ 244 := by omega
  have a5 : 128 ≤ 128 + n % 64 := by omega
  have a6 : 128 + n % 64 ≤ 191 := by omega
  have a5' : 128 ≤ 128 + n / 64 % 64 := by omega
  have a6' : 128 + n / 64 % 64 ≤ 191 := by omega
  have a7 : (if 240 + n / 262144 = 240 then 144 else 128) ≤ 128 + n / 4096 % 64 := by split <;> omega
  have a8 : 128 + n / 4096 % 64 ≤ (if 240 + n / 262144 = 244 then 143 else 191) := by split <;> omega
  simp only [runeLen, isCont, List.cons_append, List.nil_append, a1, if_false]
  simp [a2, a2', a3, a4, a5, a6, a5', a6', a8]
  split <;> omega

/-- the UTF-8 encoding of every Unicode scalar value is decoded by the range loop as that one rune -/
theorem isRune_encodeRune (r : Int) (h0 : 0 ≤ r) (h1 : r ≤ 1114111) (hs : r < 55296 ∨ 57343 < r) :
    IsRune (encodeRune r) := by
  have hneg : ¬ r < 0 := by omega
  unfold encodeRune
  simp only [hneg, if_false]
  have hn : (r.toNat : Int) = r := Int.toNat_of_nonneg h0
  generalize r.toNat = n at hn
  subst hn
  by_cases c1 : n < 128
  · simp only [c1, if_true]; exact isRune_ascii n c1
  · by_cases c2 : n < 2048
    · simp only [c1, c2, if_true, if_false]; exact isRune_enc2 n (by omega) c2
    · by_cases c3 : n < 65536
      · have hsur : ¬ (55296 ≤ n ∧ n ≤ 57343) := by omega
        simp only [c1, c2, c3, if_true, if_false]
        have : (decide (55296 ≤ n) && decide (n ≤ 57343)) = false := by
          simp only [Bool.and_eq_false_iff, decide_eq_false_iff_not]; omega
        simp only [this, Bool.false_eq_true, if_false]
        exact isRune_enc3 n (by omega) c3 (by omega)
      · have c4 : n ≤ 1114111 := by omega
        simp only [c1, c2, c3, c4, if_true, if_false]
        exact isRune_enc4 n (by omega) c4


/-! ### response files, semantic direction -/


theorem notAt_cases (m : Mode) (arg : Str) (hna : ∀ (path : List Nat), m = Mode.look → arg = 64 :: path → False) :
    (∃ o, m = .value o) ∨ m = .collect ∨ arg.head? ≠ some 64 := by
  cases m with
  | look =>
    refine Or.inr (Or.inr ?_)
    intro h
    cases arg with
    | nil => simp at h
    | cons c t => simp at h; subst h; exact hna t rfl rfl
  | value o => exact Or.inl ⟨o, rfl⟩
  | collect => exact Or.inr (Or.inl rfl)

/-- loading fewer paths beforehand can only help: a successful run stays the same run -/
theorem run_seen_mono (seen' : List Str) (a : PAcc) (m : Mode) (args : List Str) (r : PAcc) :
    ∀ seen, (∀ p, p ∈ seen → p ∈ seen') → run tbl acc files seen' a m args = .ok r →
      run tbl acc files seen a m args = .ok r := by
  induction seen', a, m, args using run.induct tbl acc files with
  | case1 seen' a o => intro seen _ h; simp [run_nil] at h
  | case2 seen' a m hm => intro seen _ h; simpa [run_nil] using h
  | case3 seen' a args path hp => intro seen _ h; simp [run_at, hp] at h
  | case4 seen' a args path hp hl => intro seen _ h; simp [run_at, hp, hl] at h
  | case5 seen' a args path hp ins hl ih =>
    intro seen hs h
    have hp' : path ∉ seen := fun x => hp (hs path x)
    simp only [run_at, hp, hl, if_false] at h
    simp only [run_at, hp', hl, if_false]
    apply ih _ _ h
    intro p hpm
    simp only [List.mem_cons] at hpm ⊢
    rcases hpm with e | e
    · exact Or.inl e
    · exact Or.inr (hs p e)
  | case6 seen' a args m arg hna hst =>
    intro seen _ h
    simp [run_step tbl acc files _ a m arg args (notAt_cases m arg hna), hst] at h
  | case7 seen' a args m arg hna a' m' hst ih =>
    intro seen hs h
    simp only [run_step tbl acc files _ a m arg args (notAt_cases m arg hna), hst] at h ⊢
    exact ih seen hs h

/-- if the vector that mentions `@f` at an option boundary is accepted, the vector with the file's lines written
    out in place is accepted with the same result — no side condition on the other files -/
theorem run_response_inline (pre post ins : List Str) (f : Str) (seen seen₁ : List Str) (a a₁ r : PAcc)
    (hb : ∀ tail, run tbl acc files seen a .look (pre ++ tail) = run tbl acc files seen₁ a₁ .look tail)
    (hf : files.lookup f = some ins)
    (h : run tbl acc files seen a .look (pre ++ (64 :: f) :: post) = .ok r) :
    run tbl acc files seen a .look (pre ++ (ins ++ post)) = .ok r := by
  rw [hb] at h ⊢
  rw [run_at] at h
  by_cases hs : f ∈ seen₁
  · simp [hs] at h
  · simp only [hs, if_false, hf] at h
    exact run_seen_mono tbl acc files _ _ _ _ r seen₁ (fun p hp => by simp [hp]) h



/-! ### the typed layer and small observations -/


theorem kindOfId_user (incl : Bool) (decls : List Decl) (i : Nat) (d : Decl) (hd : decls[i]? = some d) :
    kindOfId incl decls (firstUserId + i) = some d.kind := by
  have h : ¬ (firstUserId + i < firstUserId) := by omega
  simp [kindOfId, h, hd]

theorem acceptsOf_user (orc : Oracle) (incl : Bool) (decls : List Decl) (i : Nat) (d : Decl) (hd : decls[i]? = some d)
    (v : Str) : acceptsOf orc incl decls (firstUserId + i) v = (d.kind.supported && (typed orc d.kind.base v).isSome) := by
  simp [acceptsOf, kindOfId_user incl decls i d hd]

theorem run_bare_dash (tbl : Table) (acc : Accepts) (files : Files) (seen : List Str) (a : PAcc) (args : List Str) :
    run tbl acc files seen a .look ([45] :: args) = .ok { a with rest := a.rest ++ [45] :: args } := by
  rw [run_dash]
  simp [stepArg, run_collect]



/-- an accepted signed value fits the declared width (so the conversion `intN(signedValue)` in values.go is exact) -/
theorem parseInt_range (bits : Nat) (s : Str) (v : Int) (h : parseInt bits s = some v) :
    -((2 ^ (bits - 1) : Nat) : Int) ≤ v ∧ v < ((2 ^ (bits - 1) : Nat) : Int) := by
  have hp := Nat.two_pow_pos (bits - 1)
  unfold parseInt at h
  split at h
  · cases h
  · split at h
    · split at h
      · injection h with h; subst h; constructor <;> omega
      · cases h
    · cases h
  · split at h
    · split at h
      · injection h with h; subst h; constructor <;> omega
      · cases h
    · cases h
  · split at h
    · split at h
      · injection h with h; subst h; constructor <;> omega
      · cases h
    · cases h

theorem parseUint_range (bits : Nat) (s : Str) (v : Int) (h : parseUint bits s = some v) :
    0 ≤ v ∧ v < ((2 ^ bits : Nat) : Int) := by
  unfold parseUint at h
  split at h
  · split at h
    · injection h with h; subst h; constructor <;> omega
    · cases h
  · cases h


/-! ### from declarations to valid spellings -/


theorem encodeRune_head (r : Int) (hne : r ≠ 45) : (encodeRune r).head? ≠ some 45 := by
  unfold encodeRune
  by_cases hneg : r < 0
  · simp [hneg, fffd]
  · simp only [hneg, if_false]
    have hn : (r.toNat : Int) = r := Int.toNat_of_nonneg (by omega)
    have h45 : r.toNat ≠ 45 := by omega
    generalize r.toNat = n at hn h45
    by_cases c1 : n < 128
    · simp [c1, h45]
    · by_cases c2 : n < 2048
      · simp only [c1, c2, if_true, if_false, List.head?_cons]; simp; omega
      · by_cases c3 : n < 65536
        · simp only [c1, c2, c3, if_true, if_false]
          split
          · simp [fffd]
          · simp; omega
        · by_cases c4 : n ≤ 1114111
          · simp only [c1, c2, c3, c4, if_true, if_false, List.head?_cons]; simp; omega
          · simp [c1, c2, c3, c4, fffd]

/-- from the declarations alone: the short spellings of a declared value-taking option are valid -/
theorem declared_short_valid (orc : Oracle) (incl : Bool) (decls : List Decl) (es : Entries)
    (hb : build incl decls = some es) (i : Nat) (d : Decl) (hd : decls[i]? = some d)
    (h0 : 0 < d.single) (h1 : d.single ≤ 1114111) (hs : d.single < 55296 ∨ 57343 < d.single) (h45 : d.single ≠ 45)
    (hk : d.kind.isBool = false) (hsup : d.kind.supported = true) (v : Str) (hv : (typed orc d.kind.base v).isSome = true) :
    (Spell.shortSep [] (encodeRune d.single) ⟨firstUserId + i, false⟩ v).Valid (tableOf es) (acceptsOf orc incl decls) ∧
    (Spell.shortEq [] (encodeRune d.single) ⟨firstUserId + i, false⟩ v).Valid (tableOf es) (acceptsOf orc incl decls) := by
  have ht := (build_spec incl decls es hb i d hd).1 (by omega)
  rw [hk] at ht
  have hr := isRune_encodeRune d.single (by omega) h1 hs
  have hh : (flagKeys [] ++ encodeRune d.single).head? ≠ some 45 := by
    simpa [flagKeys] using encodeRune_head d.single h45
  have ha : acceptsOf orc incl decls (firstUserId + i) v = true := by
    rw [acceptsOf_user orc incl decls i d hd]; simp [hsup, hv]
  have hf : FlagsOK (tableOf es) (acceptsOf orc incl decls) [] := by intro x hx; simp at hx
  exact ⟨⟨⟨hf, ht, rfl, hr, hh⟩, by simpa [Spell.accepted, Spell.last] using ha⟩,
         ⟨⟨hf, ht, rfl, hr, hh⟩, by simpa [Spell.accepted, Spell.last] using ha⟩⟩

/-- … and the long spellings of a declared value-taking option whose name contains no `=` -/
theorem declared_long_valid (orc : Oracle) (incl : Bool) (decls : List Decl) (es : Entries)
    (hb : build incl decls = some es) (i : Nat) (d : Decl) (hd : decls[i]? = some d) (n : Str)
    (hn : d.name = some n) (heq : 61 ∉ n) (hk : d.kind.isBool = false) (hsup : d.kind.supported = true) (v : Str)
    (hv : (typed orc d.kind.base v).isSome = true) :
    (Spell.longEq n ⟨firstUserId + i, false⟩ v).Valid (tableOf es) (acceptsOf orc incl decls) ∧
    (Spell.longSep n ⟨firstUserId + i, false⟩ v).Valid (tableOf es) (acceptsOf orc incl decls) := by
  have ht := (build_spec incl decls es hb i d hd).2 n hn
  rw [hk] at ht
  have hne : n ≠ [] := by
    intro e
    subst e
    have : tableOf es [] = none := by
      -- every key of a built table is non-empty; simplest: the declaration check rejects names shorter than 2 bytes
      unfold build at hb
      split at hb
      · cases hb
      · rename_i hany
        exfalso
        apply hany
        simp only [List.any_eq_true]
        exact ⟨d, List.mem_of_getElem? hd, by simp [hn]⟩
    rw [this] at ht; cases ht
  have ha : acceptsOf orc incl decls (firstUserId + i) v = true := by
    rw [acceptsOf_user orc incl decls i d hd]; simp [hsup, hv]
  exact ⟨⟨⟨ht, rfl, heq, hne⟩, by simpa [Spell.accepted, Spell.last] using ha⟩,
         ⟨⟨ht, rfl, heq, hne⟩, by simpa [Spell.accepted, Spell.last] using ha⟩⟩


/-! ### response files as bytes -/


theorem linesAux_line (l rest cur : Str) (h : 10 ∉ l) :
    linesAux (l ++ 10 :: rest) cur = dropCR (cur.reverse ++ l) :: linesAux rest [] := by
  induction l generalizing cur with
  | nil => simp [linesAux]
  | cons c t ih =>
    have hc : c ≠ 10 := fun e => h (by simp [e])
    have ht : 10 ∉ t := fun e => h (by simp [e])
    have : linesAux (c :: (t ++ 10 :: rest)) cur = linesAux (t ++ 10 :: rest) (c :: cur) := by
      rw [linesAux.eq_def]
      split
      · rename_i heq; cases heq
      · rename_i heq; injection heq with e _; exact absurd e hc
      · rename_i heq; injection heq with e1 e2; subst e1; subst e2; rfl
    simp only [List.cons_append]
    rw [this, ih (c :: cur) ht]
    simp

/-- a file written as LF-terminated lines is read back as exactly these lines, provided no line contains LF or ends
    in CR (the representation the harness uses for `files`) -/
theorem linesOf_lf (ls : List Str) (h : ∀ l ∈ ls, 10 ∉ l ∧ l.getLast? ≠ some 13) :
    linesOf (ls.flatMap (fun l => l ++ [10])) = ls := by
  unfold linesOf
  induction ls with
  | nil => simp [linesAux]
  | cons l ls ih =>
    obtain ⟨h1, h2⟩ := h l (by simp)
    simp only [List.flatMap_cons, List.append_assoc, List.singleton_append]
    rw [linesAux_line l _ [] h1, ih (fun x hx => h x (by simp [hx]))]
    simp [dropCR, h2]

/-- … and with CRLF terminators every line without LF is read back unchanged, also one that itself ends in CR -/
theorem linesOf_crlf (ls : List Str) (h : ∀ l ∈ ls, 10 ∉ l) :
    linesOf (ls.flatMap (fun l => l ++ [13, 10])) = ls := by
  unfold linesOf
  induction ls with
  | nil => simp [linesAux]
  | cons l ls ih =>
    have h1 := h l (by simp)
    have h13 : 10 ∉ l ++ [13] := by simp [h1]
    have e : l ++ [13, 10] ++ List.flatMap (fun l => l ++ [13, 10]) ls =
        (l ++ [13]) ++ 10 :: List.flatMap (fun l => l ++ [13, 10]) ls := by simp
    simp only [List.flatMap_cons]
    rw [e, linesAux_line (l ++ [13]) _ [] h13, ih (fun x hx => h x (by simp [hx]))]
    simp [dropCR]




/-! ### the store: each variable sees exactly its own `Set` calls, in order -/

theorem setVar_eq (orc : Oracle) (k : Kind) (cur : Var) (raw : Str) (hs : k.supported = true) :
    setVar orc k cur raw =
      (typed orc k.base raw).map (fun t => if k.slice || k.base == .log then cur ++ [t] else [t]) := by
  obtain ⟨b, sl⟩ := k
  cases b <;> cases sl <;> simp [setVar, typed, Option.map, Kind.supported] at hs ⊢ <;> (try split <;> simp_all)

/-- one `Set` call on the variable of option `id` (an error leaves it as it was) -/
def stepVar (orc : Oracle) (incl : Bool) (decls : List Decl) (id : Nat) (cur : Var) (raw : Str) : Var :=
  match kindOfId incl decls id with
  | some k => (setVar orc k cur raw).getD cur
  | none => cur

theorem get_cons (st : Store) (id j : Nat) (v : Var) :
    Store.get ((j, v) :: st) id = if id = j then v else st.get id := by
  unfold Store.get
  by_cases h : id = j
  · subst h; simp [List.lookup]
  · have : (id == j) = false := by simpa using h
    simp [List.lookup, this, h]

theorem get_setOpt (orc : Oracle) (incl : Bool) (decls : List Decl) (st : Store) (p : Nat × Str) (id : Nat) :
    (setOpt orc incl decls st p).get id =
      if p.1 = id then stepVar orc incl decls id (st.get id) p.2 else st.get id := by
  unfold setOpt stepVar
  by_cases h : p.1 = id
  · subst h
    simp only [if_true]
    cases kindOfId incl decls p.1 with
    | none => rfl
    | some k =>
      simp only
      cases setVar orc k (st.get p.1) p.2 with
      | none => rfl
      | some v => simp [get_cons]
  · simp only [h, if_false]
    cases kindOfId incl decls p.1 with
    | none => rfl
    | some k =>
      simp only
      cases setVar orc k (st.get p.1) p.2 with
      | none => rfl
      | some v =>
        have : ¬ id = p.1 := fun e => h e.symm
        simp [get_cons, this]

theorem assigned_cons (id : Nat) (p : Nat × Str) (t : List (Nat × Str)) :
    assigned id (p :: t) = if p.1 = id then p.2 :: assigned id t else assigned id t := by
  by_cases h : p.1 = id
  · simp [assigned, h]
  · have : (p.1 == id) = false := by simpa using h
    simp [assigned, h, List.filter_cons, this]

/-- the variable of option `id` after a run: the fold of ITS assignments, in order, over its initial contents -/
theorem get_applySets (orc : Oracle) (incl : Bool) (decls : List Decl) (sets : List (Nat × Str)) :
    ∀ (st : Store) (id : Nat), (applySets orc incl decls st sets).get id =
      (assigned id sets).foldl (stepVar orc incl decls id) (st.get id) := by
  induction sets with
  | nil => intro st id; simp [applySets, assigned]
  | cons p t ih =>
    intro st id
    have : applySets orc incl decls st (p :: t) = applySets orc incl decls (setOpt orc incl decls st p) t := by
      simp [applySets]
    rw [this, ih, get_setOpt, assigned_cons]
    by_cases h : p.1 = id <;> simp [h]

theorem stepVar_eq (orc : Oracle) (incl : Bool) (decls : List Decl) (id : Nat) (k : Kind)
    (hk : kindOfId incl decls id = some k) (hsup : k.supported = true) (cur : Var) (raw : Str) :
    stepVar orc incl decls id cur raw =
      match typed orc k.base raw with
      | some t => if k.slice || k.base == .log then cur ++ [t] else [t]
      | none => cur := by
  simp only [stepVar, hk, setVar_eq orc k cur raw hsup]
  cases typed orc k.base raw <;> rfl

theorem foldl_append_kind (orc : Oracle) (incl : Bool) (decls : List Decl) (id : Nat) (k : Kind)
    (hk : kindOfId incl decls id = some k) (hsup : k.supported = true) (ha : (k.slice || k.base == .log) = true)
    (raws : List Str) :
    ∀ cur, raws.foldl (stepVar orc incl decls id) cur = cur ++ raws.filterMap (typed orc k.base) := by
  induction raws with
  | nil => intro cur; simp
  | cons r rs ih =>
    intro cur
    simp only [List.foldl_cons, ih, stepVar_eq orc incl decls id k hk hsup, ha, if_true]
    cases h : typed orc k.base r <;> simp [List.filterMap_cons, h]

/-- the last element alone, or `d` if there is none -/
def lastOr (l : List String) (d : Var) : Var :=
  match l.getLast? with
  | some t => [t]
  | none => d

theorem foldl_scalar_kind (orc : Oracle) (incl : Bool) (decls : List Decl) (id : Nat) (k : Kind)
    (hk : kindOfId incl decls id = some k) (ha : (k.slice || k.base == .log) = false) (raws : List Str) :
    ∀ cur, raws.foldl (stepVar orc incl decls id) cur = lastOr (raws.filterMap (typed orc k.base)) cur := by
  have hsup : k.supported = true := by
    have : k.slice = false := by cases hsl : k.slice <;> simp_all
    simp [Kind.supported, this]
  unfold lastOr
  induction raws with
  | nil => intro cur; simp
  | cons r rs ih =>
    intro cur
    simp only [List.foldl_cons, ih, stepVar_eq orc incl decls id k hk hsup, ha]
    cases h : typed orc k.base r with
    | none => simp [List.filterMap_cons, h]
    | some t =>
      simp only [List.filterMap_cons, h, Bool.false_eq_true, if_false]
      cases h2 : (rs.filterMap (typed orc k.base)).getLast? with
      | none =>
        have : rs.filterMap (typed orc k.base) = [] := by simpa using h2
        simp [this]
      | some t' =>
        have : (t :: rs.filterMap (typed orc k.base)).getLast? = some t' := by
          rw [List.getLast?_cons]; simp [h2]
        simp [this]

theorem get_initStoreFrom (orc : Oracle) (decls : List Decl) : ∀ (start i : Nat) (d : Decl), decls[i]? = some d →
    ∀ (pre : Store), (∀ e ∈ pre, e.1 < start) →
      Store.get (pre ++ initStoreFrom orc start decls) (start + i) = initVar orc d.kind d.defs := by
  induction decls with
  | nil => intro start i d h; simp at h
  | cons d0 ds ih =>
    intro start i d h pre hpre
    cases i with
    | zero =>
      simp only [List.getElem?_cons_zero, Option.some.injEq] at h
      subst h
      unfold Store.get
      have hn : pre.lookup start = none := by
        rw [List.lookup_eq_none_iff]
        intro e he
        have := hpre e he
        simp; omega
      simp [List.lookup_append, hn, initStoreFrom, List.lookup]
    | succ j =>
      simp only [List.getElem?_cons_succ] at h
      have := ih (start + 1) j d h (pre ++ [(start, initVar orc d0.kind d0.defs)]) (by
        intro e he
        simp only [List.mem_append, List.mem_singleton] at he
        rcases he with he | he
        · have := hpre e he; omega
        · subst he; simp)
      simp only [initStoreFrom]
      have e1 : start + (j + 1) = start + 1 + j := by omega
      rw [e1]
      simpa [List.append_assoc] using this

theorem get_initStore (orc : Oracle) (decls : List Decl) (i : Nat) (d : Decl) (h : decls[i]? = some d) :
    (initStore orc decls).get (firstUserId + i) = initVar orc d.kind d.defs := by
  have := get_initStoreFrom orc decls firstUserId i d h
    [(idHelp, ["false"]), (idVersion, ["false"]), (idLongVersion, ["false"])] (by
      intro e he
      simp only [List.mem_cons, List.mem_nil_iff, or_false] at he
      rcases he with rfl | rfl | rfl <;> simp [idHelp, idVersion, idLongVersion, firstUserId])
  simpa [initStore] using this


/-! ### a concrete instance (used for the non-vacuity examples of Props/C10.lean) -/

def exTbl : Table := tableOf [([110], ⟨3, false⟩), ([110, 97, 109, 101], ⟨3, false⟩), ([97], ⟨4, true⟩)]
def exSpells : List Spell :=
  [.shortEq [([97], ⟨4, true⟩)] [110] ⟨3, false⟩ [120], .longSep [110, 97, 109, 101] ⟨3, false⟩ [121]]

theorem exValid : ∀ sp ∈ exSpells, sp.Valid exTbl (fun _ _ => true) := by
  intro sp hsp
  simp only [exSpells, List.mem_cons, List.mem_nil_iff, or_false] at hsp
  rcases hsp with rfl | rfl
  · refine ⟨⟨?_, rfl, rfl, isRune_ascii 110 (by omega), by simp [flagKeys]⟩, rfl⟩
    intro x hx
    simp only [List.mem_cons, List.mem_nil_iff, or_false] at hx
    subst hx
    exact ⟨rfl, rfl, isRune_ascii 97 (by omega), rfl⟩
  · exact ⟨⟨rfl, rfl, by decide, by simp⟩, rfl⟩



/-- two real declarations: a string option n or name (default "d") and a flag a -/
def exDecls : List Decl := [⟨110, some [110, 97, 109, 101], ⟨.str, false⟩, [[100]]⟩, ⟨97, none, ⟨.bool, false⟩, [[102, 97, 108, 115, 101]]⟩]

def exEs : Entries :=
  [([104], ⟨0, true⟩), ([104, 101, 108, 112], ⟨0, true⟩), ([110], ⟨3, false⟩), ([110, 97, 109, 101], ⟨3, false⟩), ([97], ⟨4, true⟩)]

theorem exBuild : build false exDecls = some exEs := by decide

theorem exDeclValid : ∀ sp ∈ [Spell.shortSep [] (encodeRune 110) ⟨firstUserId + 0, false⟩ [120],
      Spell.longEq [110, 97, 109, 101] ⟨firstUserId + 0, false⟩ [121]],
    sp.Valid (tableOf exEs) (acceptsOf [] false exDecls) := by
  intro sp hsp
  simp only [List.mem_cons, List.mem_nil_iff, or_false] at hsp
  rcases hsp with rfl | rfl
  · exact (declared_short_valid [] false exDecls exEs exBuild 0 _ rfl (by decide) (by decide) (by decide) (by decide)
      rfl rfl [120] rfl).1
  · exact (declared_long_valid [] false exDecls exEs exBuild 0 _ rfl [110, 97, 109, 101] rfl (by decide) rfl rfl [121] rfl).1


end Cmd
