import Lemmas.QuadTreeTree
/-! The package's contract in its history-dependent form: `Bounds()` of an object must stay the same WHILE IT IS STORED.
    An object that has been removed may be given other bounds and inserted again.  The specification is the multiset
    of stored items (id together with the bounds it was inserted with); `OpOK`'s one bounds function per history is the
    special case.  The proofs re-use the per-operation lemmas of `Lemmas/QuadTreeTree.lean` with a bounds function that
    is read off the current contents before every step.  Core Lean only. -/
namespace QT
variable {R P : Type} [L : RectOps R P]

/-- the specification on items: `Insert` of a non-empty node adds it, `Remove` takes out one entry with that id -/
def specApplyI (s : List (Item R)) : Op R → List (Item R)
  | .insert it => if L.empty it.rect then s else it :: s
  | .remove id _ => s.eraseP (fun x => decide (x.id = id))
  | .reorganize => s
  | .clear => []
  | .setThreshold _ => s

def specRunI (ops : List (Op R)) : List (Item R) := ops.foldl specApplyI []

/-- the contract for one operation in the state `s`: the object that is inserted / removed has, at this moment, the
    bounds every stored entry of the same object was stored with -/
def OpOKI (s : List (Item R)) : Op R → Prop
  | .insert it => ∀ x ∈ s, x.id = it.id → x.rect = it.rect
  | .remove id b => ∀ x ∈ s, x.id = id → x.rect = b
  | _ => True

/-- the contract for a history -/
def HistOK : List (Item R) → List (Op R) → Prop
  | _, [] => True
  | s, op :: rest => OpOKI s op ∧ HistOK (specApplyI s op) rest

/-- entries with the same id carry the same bounds -/
def Consistent (l : List (Item R)) : Prop := ∀ x ∈ l, ∀ y ∈ l, x.id = y.id → x.rect = y.rect

/-- the bounds function read off a list: the bounds of the first entry with that id -/
def lookup (l : List (Item R)) (i : Nat) : R :=
  match l.find? (fun x => decide (x.id = i)) with
  | some x => x.rect
  | none => L.zero

theorem lookup_of_mem (l : List (Item R)) (hc : Consistent l) (x : Item R) (hx : x ∈ l) : x.rect = lookup l x.id := by
  unfold lookup
  cases hf : l.find? (fun y => decide (y.id = x.id)) with
  | none =>
    have := List.find?_eq_none.mp hf x hx
    simp at this
  | some y =>
    have hy := List.mem_of_find?_eq_some hf
    have hp := List.find?_some hf
    simp only [decide_eq_true_eq] at hp
    exact hc x hx y hy hp.symm

theorem keyed_consistent (bounds : Nat → R) (l : List (Item R)) (h : Keyed bounds l) : Consistent l := by
  intro x hx y hy e
  rw [(h x hx).1, (h y hy).1, e]

theorem Consistent.perm {l l' : List (Item R)} (h : Consistent l) (hp : l'.Perm l) : Consistent l' :=
  fun x hx y hy => h x (hp.subset hx) y (hp.subset hy)

/-- the invariant without a global bounds function -/
def TInvE (t : Tree R) : Prop := ∃ bounds : Nat → R, TInv bounds t

theorem TInvE.rebase {t : Tree R} (h : TInvE t) (b' : Nat → R) (hk : ∀ it ∈ t.all, it.rect = b' it.id) : TInv b' t := by
  obtain ⟨b, hb⟩ := h
  exact ⟨hb.root, fun it hit => ⟨hk it hit, (hb.keyed it hit).2⟩, hb.count⟩

theorem TInvE.consistent {t : Tree R} (h : TInvE t) : Consistent t.all := by
  obtain ⟨b, hb⟩ := h
  exact keyed_consistent b _ hb.keyed

/-- removing, from a multiset in which all entries with that id are equal, one entry with that id -/
theorem eraseP_perm_of_unique (s l : List (Item R)) (x : Item R) (id : Nat) (hx : x.id = id) (hp : s.Perm (x :: l))
    (huniq : ∀ y ∈ s, y.id = id → y = x) : (s.eraseP (fun y => decide (y.id = id))).Perm l := by
  have hxs : x ∈ s := hp.symm.subset (by simp)
  obtain ⟨a, l1, l2, _, ha, e1, e2⟩ := List.exists_of_eraseP hxs (p := fun y => decide (y.id = id)) (by simp [hx])
  have hax : a = x := huniq a (by rw [e1]; simp) (by simpa using ha)
  subst hax
  rw [e2]
  have h1 : (a :: (l1 ++ l2)).Perm (a :: l) := by
    have : (l1 ++ a :: l2).Perm (a :: (l1 ++ l2)) := List.perm_middle
    exact this.symm.trans (e1 ▸ hp)
  exact h1.cons_inv

theorem eraseP_none (s : List (Item R)) (id : Nat) (h : ∀ y ∈ s, y.id ≠ id) :
    s.eraseP (fun y => decide (y.id = id)) = s := by
  apply List.eraseP_of_forall_not
  intro y hy
  simp [h y hy]

theorem item_ext (x y : Item R) (h1 : x.id = y.id) (h2 : x.rect = y.rect) : x = y := by
  cases x; cases y; simp_all

/-- one operation under the history-dependent contract -/
theorem apply_okI (fuel : Nat) (t : Tree R) (s : List (Item R)) (h : TInvE t) (hs : t.all.Perm s) (op : Op R)
    (hop : OpOKI s op) : TInvE (t.apply fuel op) ∧ (t.apply fuel op).all.Perm (specApplyI s op) := by
  have hcons := h.consistent
  cases op with
  | insert it =>
    simp only [Tree.apply, specApplyI]
    cases he : L.empty it.rect with
    | true =>
      have : t.insert fuel it = t := by simp [Tree.insert, he]
      rw [this]; exact ⟨h, by simpa using hs⟩
    | false =>
      have hop' : ∀ x ∈ t.all, x.id = it.id → x.rect = it.rect := fun x hx => hop x (hs.subset hx)
      have hc2 : Consistent (it :: t.all) := by
        intro x hx y hy e
        rcases List.mem_cons.mp hx with ex | ex <;> rcases List.mem_cons.mp hy with ey | ey
        · rw [ex, ey]
        · rw [ex]; exact (hop' y ey (by rw [← e, ex])).symm
        · rw [ey]; exact hop' x ex (by rw [e, ey])
        · exact hcons x ex y ey e
      have hb := h.rebase (lookup (it :: t.all)) (fun x hx => lookup_of_mem _ hc2 x (List.mem_cons_of_mem _ hx))
      obtain ⟨a, b⟩ := insert_ok (lookup (it :: t.all)) fuel t hb it (lookup_of_mem _ hc2 it (by simp)) he
      refine ⟨⟨_, a⟩, ?_⟩
      simp only [Bool.false_eq_true, if_false]
      exact b.trans (hs.cons it)
  | remove id b =>
    simp only [Tree.apply, specApplyI]
    have hop' : ∀ x ∈ t.all, x.id = id → x.rect = b := fun x hx => hop x (hs.subset hx)
    let bd : Nat → R := fun i => if i = id then b else lookup t.all i
    have hbid : bd id = b := by simp [bd]
    have hb : TInv bd t := h.rebase bd (fun x hx => by
      by_cases e : x.id = id
      · simp only [bd, e, if_true]; exact hop' x hx e
      · simp only [bd, e, if_false]; exact lookup_of_mem _ hcons x hx)
    obtain ⟨a, c⟩ := remove_ok bd t hb id
    rw [hbid] at a c
    refine ⟨⟨_, a⟩, ?_⟩
    rcases c with ⟨x, hx, hp⟩ | ⟨he, hno⟩
    · have huniq : ∀ y ∈ s, y.id = id → y = x := by
        intro y hy e
        have hxs : x ∈ s := hs.subset (hp.symm.subset (by simp))
        exact item_ext y x (by rw [e, hx]) (by rw [hop y hy e, hop x hxs hx])
      exact (eraseP_perm_of_unique s _ x id hx (hs.symm.trans hp) huniq).symm
    · rw [he, eraseP_none s id (fun y hy => hno y (hs.symm.subset hy))]
      exact hs
  | reorganize =>
    simp only [Tree.apply, specApplyI]
    obtain ⟨bd, hb⟩ := h
    obtain ⟨a, b⟩ := reorganize_ok bd fuel t hb
    exact ⟨⟨_, a⟩, b.trans hs⟩
  | clear =>
    simp only [Tree.apply, specApplyI]
    refine ⟨⟨fun _ => L.zero, fun r hr => by simp [Tree.clear] at hr, fun it hit => by simp [Tree.clear, Tree.all] at hit,
      by simp [Tree.clear, Tree.all]⟩, by simp [Tree.clear, Tree.all]⟩
  | setThreshold k =>
    simp only [Tree.apply, specApplyI]
    obtain ⟨bd, hb⟩ := h
    exact ⟨⟨bd, hb.root, hb.keyed, hb.count⟩, hs⟩

theorem run_okI_aux (fuel : Nat) (ops : List (Op R)) (t : Tree R) (s : List (Item R)) (h : TInvE t)
    (hs : t.all.Perm s) (hops : HistOK s ops) :
    TInvE (ops.foldl (Tree.apply fuel) t) ∧ (ops.foldl (Tree.apply fuel) t).all.Perm (ops.foldl specApplyI s) := by
  induction ops generalizing t s with
  | nil => exact ⟨h, hs⟩
  | cons op rest ih =>
    simp only [List.foldl_cons]
    obtain ⟨a, b⟩ := apply_okI fuel t s h hs op hops.1
    exact ih _ _ a b hops.2

/-- after any history that respects the history-dependent contract the representation invariant holds and the stored
    items are, as a multiset, the specification's -/
theorem run_okI (fuel : Nat) (k : Int) (ops : List (Op R)) (hops : HistOK ([] : List (Item R)) ops) :
    TInvE (Tree.run fuel k ops) ∧ (Tree.run fuel k ops).all.Perm (specRunI ops) :=
  run_okI_aux fuel ops _ _ ⟨fun _ => L.zero, empty_inv _ k⟩ (by simp [Tree.empty, Tree.all]) hops

/-- `Size` under the history-dependent contract -/
theorem size_okI (fuel : Nat) (k : Int) (ops : List (Op R)) (hops : HistOK ([] : List (Item R)) ops) :
    (Tree.run fuel k ops).size = ((specRunI ops).length : Int) := by
  obtain ⟨⟨bd, hb⟩, hp⟩ := run_okI fuel k ops hops
  rw [Tree.size, hb.count, hp.length_eq]

/-- every pruned traversal under the history-dependent contract -/
theorem find_okI (fuel : Nat) (k : Int) (ops : List (Op R)) (hops : HistOK ([] : List (Item R)) ops)
    (pr : R → Bool) (f : Item R → Bool)
    (hpr : ∀ (a : R) (it : Item R), L.contains a it.rect = true → f it = true → pr a = true) :
    ((Tree.run fuel k ops).find pr f).Perm ((specRunI ops).filter f) := by
  obtain ⟨⟨bd, hb⟩, hp⟩ := run_okI fuel k ops hops
  exact (tree_find_perm bd _ hb pr f hpr).trans (hp.filter f)

/-- the one-bounds-function contract `OpOK` is a special case of the history-dependent one -/
theorem histOK_of_opOK (bounds : Nat → R) (ops : List (Op R)) (hops : ∀ op ∈ ops, OpOK bounds op)
    (s : List (Item R)) (hs : ∀ x ∈ s, x.rect = bounds x.id) : HistOK s ops := by
  induction ops generalizing s with
  | nil => trivial
  | cons op rest ih =>
    have hop := hops op (by simp)
    refine ⟨?_, ih (fun o ho => hops o (by simp [ho])) _ ?_⟩
    · cases op with
      | insert it => intro x hx e; rw [hs x hx, e]; exact hop.symm
      | remove id b => intro x hx e; rw [hs x hx, e]; exact hop.symm
      | reorganize => trivial
      | clear => trivial
      | setThreshold k => trivial
    · cases op with
      | insert it =>
        simp only [specApplyI]
        split
        · exact hs
        · intro x hx
          rcases List.mem_cons.mp hx with e | e
          · rw [e]; exact hop
          · exact hs x e
      | remove id b => intro x hx; exact hs x (List.mem_of_mem_eraseP hx)
      | reorganize => exact hs
      | clear => intro x hx; simp [specApplyI] at hx
      | setThreshold k => exact hs

end QT
