import Lemmas.ExtractStep
/-! C19: one iteration of the tar loop on a ready path, kind by kind (`tarOne_step`). -/
namespace Ex

theorem MkChange.mono {fs fs1 : FS} {p : P} {mode : Nat} (h : MkChange fs fs1 p mode) (q : P) (n : Nd)
    (hq : fs.get q = some n) : fs1.get q = some n := by
  rcases h q with h1 | ⟨h1, _⟩
  · rw [h1]; exact hq
  · rw [h1] at hq; cases hq

theorem MkChange.noneOrDir {fs fs1 : FS} {p : P} {mode : Nat} (h : MkChange fs fs1 p mode) (q : P)
    (hq : fs.get q = none ∨ ∃ m, fs.get q = some (.dir m)) : fs1.get q = none ∨ ∃ m, fs1.get q = some (.dir m) := by
  rcases h q with h1 | ⟨_, h2, _⟩
  · rw [h1]; exact hq
  · exact Or.inr ⟨_, h2⟩

theorem below_ne_nil {root p : P} (h : ∃ c t, p = root ++ c :: t) : p ≠ [] := by
  obtain ⟨c, t, e⟩ := h
  rw [e]; simp

theorem below_len {root p : P} (h : ∃ c t, p = root ++ c :: t) : root.length + 1 ≤ p.length := by
  obtain ⟨c, t, e⟩ := h
  rw [e]; simp

theorem tarOne_dir_step (fs : FS) (root : P) (hr : GoodPath root) (mask : Nat) (e : Entry) (hk : e.kind = .dir)
    (hrd : Ready fs root (cleanJoin root e.name)) : Step root mask e fs (tarOne fs root mask e) := by
  have hg := hrd.guard
  have hl : ∀ d, lexOK root (cleanJoin root e.name) d = true := hrd.lex hr (cleanJoin_good root e.name hr)
  obtain ⟨fs1, hmk, hch, hino, hdirs⟩ := mkdirAll_ok fs (cleanJoin root e.name) (perm e.mode &&& mask) hrd.mk_self
  have hres : tarOne fs root mask e = (fs1, true) := by
    simp [tarOne, hl, hg, hk, hmk]
  rw [hres]
  have hlen : 1 ≤ (cleanJoin root e.name).length := by have := below_len hrd.below; omega
  have hnode : fs1.get (cleanJoin root e.name) = some (.dir (perm e.mode &&& mask)) :=
    mkdirFrom_last _ _ _ 1 fs fs1 hmk hlen (Nat.le_refl _) (by omega) hrd.absent
  have hpm : pmode e = perm e.mode := by simp [pmode, hk]
  refine ⟨rfl, ⟨_, hnode, ?_⟩, ?_, ?_, ?_, ?_⟩
  · refine ⟨fun h => ?_, fun _ => rfl, fun h => ?_, fun h => ?_⟩ <;> (rw [hk] at h; cases h)
  · intro q _; rw [hpm]; exact hch q
  · intro i _; show fs1.inodes[i]? = _; rw [hino]
  · show fs.inodes.size ≤ fs1.inodes.size; rw [hino]; exact Nat.le_refl _
  · intro h; rw [hk] at h; cases h

/-- the common part of the three kinds that call `MkdirAll(Dir(path), 0o755 & mask)` first -/
theorem parent_phase (fs : FS) (root : P) (mask : Nat) (p : P) (hrd : Ready fs root p) :
    ∃ fs1, mkdirAll fs p.dropLast (0o755 &&& mask) = some fs1 ∧ fs1.inodes = fs.inodes ∧
      fs1.get p = none ∧ parentIsDir fs1 p = true ∧ MkChange fs fs1 p.dropLast (0o755 &&& mask) := by
  obtain ⟨fs1, hmk, hch, hino, hdirs⟩ := mkdirAll_ok fs p.dropLast (0o755 &&& mask) hrd.mk_parent
  obtain ⟨h1, h2⟩ := parent_made fs fs1 p (below_ne_nil hrd.below) _ hmk hdirs hrd.absent
  exact ⟨fs1, hmk, hino, h1, h2, hch⟩

theorem tarOne_reg_step (fs : FS) (root : P) (hr : GoodPath root) (mask : Nat) (e : Entry) (hk : e.kind = .reg)
    (hs : e.short = false) (hrd : Ready fs root (cleanJoin root e.name)) :
    Step root mask e fs (tarOne fs root mask e) := by
  have hg := hrd.guard
  have hl : ∀ d, lexOK root (cleanJoin root e.name) d = true := hrd.lex hr (cleanJoin_good root e.name hr)
  obtain ⟨fs1, hmk, hino, habs1, hpar1, hch⟩ := parent_phase fs root mask _ hrd
  have hw : writeFile fs1 (cleanJoin root e.name) (perm e.mode &&& mask) e.data =
      some (({ fs1 with inodes := fs1.inodes.push { data := e.data, mode := perm e.mode &&& mask } }).put
        (cleanJoin root e.name) (.file fs1.inodes.size)) := by
    simp [writeFile, habs1, hpar1]
  have hres : tarOne fs root mask e =
      ((({ fs1 with inodes := fs1.inodes.push { data := e.data, mode := perm e.mode &&& mask } }).put
        (cleanJoin root e.name) (.file fs1.inodes.size)), true) := by
    simp [tarOne, hl, hg, hk, hmk, hw, hs]
  rw [hres]
  have hpm : pmode e = 0o755 := by simp [pmode, hk]
  refine ⟨rfl, ⟨_, get_put_same _ _ _, ?_⟩, ?_, ?_, ?_, ?_⟩
  · refine ⟨fun _ => ⟨fs1.inodes.size, { data := e.data, mode := perm e.mode &&& mask }, rfl, ?_, rfl, rfl⟩,
      fun h => ?_, fun h => ?_, fun h => ?_⟩
    · show (fs1.inodes.push _)[fs1.inodes.size]? = _
      simp
    all_goals (rw [hk] at h; cases h)
  · intro q hq
    rw [hpm]
    show (FS.put _ _ _).get q = _ ∨ _ ∧ (FS.put _ _ _).get q = _ ∧ _
    rw [get_put_other _ _ _ _ hq, get_inodes]
    exact change_parent fs fs1 _ _ hch q
  · intro i hi
    show (fs1.inodes.push _)[i]? = _
    rw [hino, Array.getElem?_push]; simp; omega
  · show fs.inodes.size ≤ (fs1.inodes.push _).size
    rw [Array.size_push, hino]; omega
  · intro _; show (FS.put _ _ _).get _ = _
    rw [get_put_same, hino]

theorem tarOne_symlink_step (fs : FS) (root : P) (hr : GoodPath root) (mask : Nat) (e : Entry)
    (hk : e.kind = .symlink) (hlk : e.link ≠ []) (hrd : Ready fs root (cleanJoin root e.name)) :
    Step root mask e fs (tarOne fs root mask e) := by
  have hg := hrd.guard
  have hl : ∀ d, lexOK root (cleanJoin root e.name) d = true := hrd.lex hr (cleanJoin_good root e.name hr)
  obtain ⟨fs1, hmk, hino, habs1, hpar1, hch⟩ := parent_phase fs root mask _ hrd
  have hw : symlinkAt fs1 e.link (cleanJoin root e.name) = some (fs1.put (cleanJoin root e.name) (.symlink e.link)) := by
    simp [symlinkAt, hlk, habs1, hpar1]
  have hres : tarOne fs root mask e = (fs1.put (cleanJoin root e.name) (.symlink e.link), true) := by
    simp [tarOne, hl, hg, hk, hmk, hw]
  rw [hres]
  have hpm : pmode e = 0o755 := by simp [pmode, hk]
  refine ⟨rfl, ⟨_, get_put_same _ _ _, ?_⟩, ?_, ?_, ?_, ?_⟩
  · refine ⟨fun h => ?_, fun h => ?_, fun _ => rfl, fun h => ?_⟩ <;> (rw [hk] at h; cases h)
  · intro q hq
    rw [hpm]
    show (FS.put _ _ _).get q = _ ∨ _ ∧ (FS.put _ _ _).get q = _ ∧ _
    rw [get_put_other _ _ _ _ hq]
    exact change_parent fs fs1 _ _ hch q
  · intro i _; show (FS.put _ _ _).inodes[i]? = _; rw [put_inodes, hino]
  · show fs.inodes.size ≤ (FS.put _ _ _).inodes.size; rw [put_inodes, hino]; exact Nat.le_refl _
  · intro h; rw [hk] at h; cases h

theorem tarOne_link_step (fs : FS) (hw : WF fs) (root : P) (hr : GoodPath root) (mask : Nat) (e : Entry)
    (hk : e.kind = .link) (ino : Nat) (htg : fs.get (cleanJoin root e.link) = some (.file ino))
    (htb : ∃ c t, cleanJoin root e.link = root ++ c :: t) (hrd : Ready fs root (cleanJoin root e.name)) :
    Step root mask e fs (tarOne fs root mask e) := by
  have hg := hrd.guard
  have hl : ∀ d, lexOK root (cleanJoin root e.name) d = true := hrd.lex hr (cleanJoin_good root e.name hr)
  obtain ⟨fs1, hmk, hino, habs1, hpar1, hch⟩ := parent_phase fs root mask _ hrd
  have htg1 : fs1.get (cleanJoin root e.link) = some (.file ino) := hch.mono _ _ htg
  have hlt : lexOK root (cleanJoin root e.link) false = true :=
    (lexOK_iff root _ hr (cleanJoin_good root e.link hr) false).mpr (Or.inl htb)
  have hgt : ensureNoSymlinks fs1 root (cleanJoin root e.link) = true := by
    refine ensureNoSymlinks_true fs1 root _ ?_ (hch.noneOrDir root hrd.rootdir) (fun j h1 h2 => ?_)
    · intro e'
      have := below_len htb
      rw [e'] at this; omega
    · by_cases hj : j = (cleanJoin root e.link).length
      · right; right
        refine ⟨hj, ino, ?_⟩
        rw [hj, List.take_length]; exact htg1
      · right; left
        obtain ⟨m, hm⟩ := wf_prefix_dir fs hw _ _ htg j (by omega) (by omega)
        exact ⟨m, hch.mono _ _ hm⟩
  have hne : cleanJoin root e.link ≠ cleanJoin root e.name := by
    intro e'; rw [e', habs1] at htg1; cases htg1
  have hlink : linkAt fs1 (cleanJoin root e.link) (cleanJoin root e.name) =
      some (fs1.put (cleanJoin root e.name) (.file ino)) := by
    simp [linkAt, htg1, habs1, hpar1]
  have hres : tarOne fs root mask e = (fs1.put (cleanJoin root e.name) (.file ino), true) := by
    simp [tarOne, hl, hg, hk, hmk, hlt, hgt, hlink]
  rw [hres]
  have hpm : pmode e = 0o755 := by simp [pmode, hk]
  refine ⟨rfl, ⟨_, get_put_same _ _ _, ?_⟩, ?_, ?_, ?_, ?_⟩
  · refine ⟨fun h => ?_, fun h => ?_, fun h => ?_, fun _ => ⟨ino, rfl, ?_⟩⟩
    · rw [hk] at h; cases h
    · rw [hk] at h; cases h
    · rw [hk] at h; cases h
    · show (FS.put _ _ _).get _ = _
      rw [get_put_other _ _ _ _ hne]; exact htg1
  · intro q hq
    rw [hpm]
    show (FS.put _ _ _).get q = _ ∨ _ ∧ (FS.put _ _ _).get q = _ ∧ _
    rw [get_put_other _ _ _ _ hq]
    exact change_parent fs fs1 _ _ hch q
  · intro i _; show (FS.put _ _ _).inodes[i]? = _; rw [put_inodes, hino]
  · show fs.inodes.size ≤ (FS.put _ _ _).inodes.size; rw [put_inodes, hino]; exact Nat.le_refl _
  · intro h; rw [hk] at h; cases h

end Ex
