import Lemmas.LogFanoutAny
import Lemmas.TraceBuf
/-! C13: fan-out over any mix of synchronous and buffered sinks, up to the moment every owed record has been written by the
delivery goroutine (scheduler hypothesis: the goroutine runs its loop `finish; take` until the channel is empty). Core only. -/
namespace ML
open TL

/-- successive `Handle` calls reaching a SYNCHRONOUS sink: one `Write` per call, of the whole line, in order; the state of
    the sink is what it was -/
theorem seqDeliver_sync (k : Nat) : ∀ (lines : List Bytes) (sk : SinkSt), sk.buf = none →
    (seqDeliver k sk lines).1 = sk ∧ (seqDeliver k sk lines).2.1 = lines ∧
    (seqDeliver k sk lines).2.2.length = lines.length
  | [], _, _ => ⟨rfl, rfl, rfl⟩
  | l :: ls, sk, hb => by
    have hd := deliver_sync sk k l hb
    have hd1 : (TL.deliver sk k l).1 = sk := by rw [hd]
    have hd2 : (TL.deliver sk k l).2.1 = [l] := by rw [hd]
    obtain ⟨i1, i2, i3⟩ := seqDeliver_sync k ls sk hb
    simp only [seqDeliver, hd1, hd2]
    exact ⟨i1, by simp [i2], by simp [i3]⟩

/-- `seqDeliver_buffered` with the final channel named -/
theorem seqDeliver_buffered' (k : Nat) : ∀ (lines : List Bytes) (sk : SinkSt) (b : Buf), sk.buf = some b →
    ∃ b', (seqDeliver k sk lines).1.buf = some b'
  | [], sk, b, hb => ⟨b, hb⟩
  | l :: ls, sk, b, hb => by
    obtain ⟨_, ⟨b1, hb1⟩, _⟩ := deliver_buffered sk k l b hb
    obtain ⟨b', hb'⟩ := seqDeliver_buffered' k ls (TL.deliver sk k l).1 b1 hb1
    exact ⟨b', by simpa [seqDeliver] using hb'⟩

/-- the delivery goroutine runs its loop until the channel is empty: everything owed is written, in order, and nothing
    remains owed -/
theorem settle_all (b : Buf) :
    (Buf.settle (b.queue.length + 1) b).2 = b.inflight.toList ++ b.queue ∧
    (Buf.settle (b.queue.length + 1) b).1.inflight = none ∧ (Buf.settle (b.queue.length + 1) b).1.queue = [] := by
  obtain ⟨cap, inflight, queue⟩ := b
  rw [Buf.drain_is_settle cap queue inflight]
  simp [Buf.drain]

end ML
