import Lemmas.EvenOdd
import Mathlib.Algebra.Order.Field.Power
import Mathlib.Data.Int.Cast.Lemmas
import Mathlib.Data.Rat.Cast.Lemmas

/-! C05: the integers the driver feeds to the validators are the exact values of the dyadics, times the common
    power of two. -/

namespace EOQ

/-- the rational number denoted by a dyadic `m · 2^e` -/
def dyVal (d : EO.Dy) : ℚ := d.m * (2 : ℚ) ^ d.e

theorem scaled_val (d : EO.Dy) (emin : Int) (h : emin ≤ d.e) :
    ((d.scaled emin : Int) : ℚ) = dyVal d * (2 : ℚ) ^ (-emin) := by
  unfold EO.Dy.scaled dyVal
  push_cast
  rw [mul_assoc, ← zpow_add₀ (by norm_num : (2 : ℚ) ≠ 0), ← zpow_natCast]
  congr 2
  omega

theorem toInt?_val (d : EO.Dy) (n : Int) (h : d.toInt? = some n) : (n : ℚ) = dyVal d := by
  unfold EO.Dy.toInt? at h
  unfold dyVal
  split at h
  · rename_i he
    simp only [Option.some.injEq] at h
    rw [← h]; push_cast
    rw [← zpow_natCast]
    congr 2
    omega
  · rename_i he
    simp only at h
    split at h
    · rename_i hdiv
      simp only [Option.some.injEq] at h
      have hk : (2 : Int) ^ (-d.e).toNat ∣ d.m := by
        apply Int.dvd_of_emod_eq_zero
        simpa using hdiv
      obtain ⟨q, hq⟩ := hk
      have hpos : (2 : Int) ^ (-d.e).toNat ≠ 0 := by positivity
      have hn : n = q := by
        rw [← h, hq, Int.mul_ediv_cancel_left _ hpos]
      rw [hn, hq]; push_cast
      have hz : (2 : ℚ) ^ d.e * (2 : ℚ) ^ (-d.e).toNat = 1 := by
        rw [← zpow_natCast, ← zpow_add₀ (by norm_num : (2 : ℚ) ≠ 0)]
        have : d.e + (((-d.e).toNat : ℕ) : ℤ) = 0 := by omega
        rw [this, zpow_zero]
      rw [mul_comm, ← mul_assoc, hz, one_mul]
    · cases h

end EOQ
