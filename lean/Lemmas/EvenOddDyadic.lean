import Lemmas.EvenOdd
import Mathlib.Algebra.Order.Field.Power
import Mathlib.Data.Int.Cast.Lemmas
import Mathlib.Data.Rat.Cast.Lemmas

/-! C05: the integers the driver feeds to the validators are the exact values of the dyadics, times the common
    power of two. -/

namespace EOQ

/-- the rational number denoted by a dyadic `m · 2^e` -/
def dyVal (d : EO.Dy) : ℚ := d.m * (2 : ℚ) ^ d.e

theorem scaled_val (d : EO.Dy) (emin : Int) (h : emin ≤ d.e) :
    ((d.scaled emin : Int) : ℚ) = dyVal d * (2 : ℚ) ^ (-emin) := by
  unfold EO.Dy.scaled dyVal
  push_cast
  rw [mul_assoc, ← zpow_add₀ (by norm_num : (2 : ℚ) ≠ 0), ← zpow_natCast]
  congr 2
  omega

theorem toInt?_val (d : EO.Dy) (n : Int) (h : d.toInt? = some n) : (n : ℚ) = dyVal d := by
  unfold EO.Dy.toInt? at h
  unfold dyVal
  split at h
  · rename_i he
    simp only [Option.some.injEq] at h
    rw [← h]; push_cast
    rw [← zpow_natCast]
    congr 2
    omega
  · rename_i he
    simp only at h
    split at h
    · rename_i hdiv
      simp only [Option.some.injEq] at h
      have hk : (2 : Int) ^ (-d.e).toNat ∣ d.m := by
        apply Int.dvd_of_emod_eq_zero
        simpa using hdiv
      obtain ⟨q, hq⟩ := hk
      have hpos : (2 : Int) ^ (-d.e).toNat ≠ 0 := by positivity
      have hn : n = q := by
        rw [← h, hq, Int.mul_ediv_cancel_left _ hpos]
      rw [hn, hq]; push_cast
      have hz : (2 : ℚ) ^ d.e * (2 : ℚ) ^ (-d.e).toNat = 1 := by
        rw [← zpow_natCast, ← zpow_add₀ (by norm_num : (2 : ℚ) ≠ 0)]
        have : d.e + (((-d.e).toNat : ℕ) : ℤ) = 0 := by omega
        rw [this, zpow_zero]
      rw [mul_comm, ← mul_assoc, hz, one_mul]
    · cases h

end EOQ

namespace EOQ

/-- the IEEE-754 value of the bit pattern of a FINITE binary floating-point number with `eb` exponent bits and `mb`
    fraction bits: `(-1)^s · frac · 2^(1-bias-mb)` for a subnormal, `(-1)^s · (2^mb + frac) · 2^(ex-bias-mb)` otherwise -/
def ieeeValue (eb mb bits : Nat) : ℚ :=
  (if bits / 2 ^ (mb + eb) % 2 = 1 then -1 else 1) *
    (if bits / 2 ^ mb % 2 ^ eb = 0 then ((bits % 2 ^ mb : Nat) : ℚ) * (2 : ℚ) ^ (1 - ((2 : Int) ^ (eb - 1) - 1) - (mb : Int))
     else ((2 ^ mb + bits % 2 ^ mb : Nat) : ℚ) *
       (2 : ℚ) ^ (((bits / 2 ^ mb % 2 ^ eb : Nat) : Int) - ((2 : Int) ^ (eb - 1) - 1) - (mb : Int)))

/-- infinities and NaN (all exponent bits set) are the only patterns that are rejected -/
theorem decodeBits_none_iff (eb mb bits : Nat) :
    EO.decodeBits eb mb bits = none ↔ bits / 2 ^ mb % 2 ^ eb = 2 ^ eb - 1 := by
  unfold EO.decodeBits
  simp only
  split
  · rename_i h; simp only [beq_iff_eq] at h; simp [h]
  · rename_i h; simp only [beq_iff_eq] at h; simp [h]

set_option linter.unnecessarySeqFocus false in
/-- **exactness of the float decoding**: for every bit pattern of a finite float the dyadic returned by
    `EO.decodeBits` denotes exactly the IEEE-754 value -/
theorem decodeBits_exact (eb mb bits : Nat) (d : EO.Dy) (h : EO.decodeBits eb mb bits = some d) :
    dyVal d = ieeeValue eb mb bits := by
  unfold EO.decodeBits at h
  simp only at h
  unfold dyVal ieeeValue
  generalize bits % 2 ^ mb = frac at h ⊢
  generalize bits / 2 ^ mb % 2 ^ eb = ex at h ⊢
  generalize bits / 2 ^ (mb + eb) % 2 = s at h ⊢
  split at h
  · cases h
  · simp only [Option.some.injEq] at h
    subst h
    have h2 : (0 : ℤ) < 2 ^ mb := by positivity
    have h3 : (0 : ℤ) ≤ (frac : ℤ) := Int.natCast_nonneg _
    have hpos : ¬ ((2 : ℤ) ^ mb + (frac : ℤ) = 0) := by intro h; linarith
    by_cases hex : ex = 0 <;> by_cases hs : s = 1 <;> by_cases hm : frac = 0 <;>
      simp [hex, hs, hm, hpos] <;> ring

end EOQ
