import Lemmas.Conv128Rat
/-! C02 helper lemmas, part 9 (core Lean only): the declarative grammar of the mantissa/exponent literals read by
    `big.Rat.SetString` (texts without `/`) and its equivalence with the scanners `natScan true` / `scanExponent`. -/
namespace Conv

/-! ## the mantissa -/

/-- `Mant b pv fr l`: `l` is a run of base-`b` digits, underscores and at most one radix point (none when `fr` is
    false).  An underscore must directly follow a digit (`pv = digit` at the start means: directly after a base
    prefix) and must be followed by a digit; the radix point may stand anywhere except next to an underscore. -/
inductive Mant (b : Nat) : Prev → Bool → List Char → Prop
  | nil (pv : Prev) (fr : Bool) : pv ≠ .sep → Mant b pv fr []
  | digit (pv : Prev) (fr : Bool) (c : Char) (t : List Char) : digitVal c < b → Mant b .digit fr t → Mant b pv fr (c :: t)
  | sep (fr : Bool) (t : List Char) : Mant b .sep fr t → Mant b .digit fr ('_' :: t)
  | dot (pv : Prev) (t : List Char) : pv ≠ .sep → Mant b .other false t → Mant b pv true ('.' :: t)

/-- Horner value of the digits (underscores and the radix point are skipped) -/
def mval (b acc : Nat) (l : List Char) : Nat :=
  l.foldl (fun v c => if c = '_' ∨ c = '.' then v else v * b + digitVal c) acc

/-- number of digits -/
def ndig : List Char → Nat
  | [] => 0
  | c :: t => (if c = '_' ∨ c = '.' then 0 else 1) + ndig t

/-- number of digits after the radix point, if there is one -/
def fracDigits : List Char → Option Nat
  | [] => none
  | c :: t => if c = '.' then some (ndig t) else fracDigits t

/-- the digit count reported by `nat.scan`: the number of digits, or minus the number of fraction digits when there is
    a radix point -/
def mcount (l : List Char) : Int :=
  match fracDigits l with
  | some f => -(f : Int)
  | none => (ndig l : Int)

/-- the text after the mantissa is empty or starts with a character that ends the digit loop -/
def Stops (b : Nat) (rest : List Char) : Prop :=
  rest = [] ∨ ∃ c t, rest = c :: t ∧ c ≠ '_' ∧ c ≠ '.' ∧ digitVal c ≥ b

theorem scanLoop_stops (b : Nat) (st : LoopSt) (rest : List Char) (h : Stops b rest) : scanLoop b st rest = (st, rest) := by
  rcases h with h | ⟨c, t, h, h1, h2, h3⟩
  · subst h; exact scanLoop_nil b st
  · subst h
    rw [scanLoop]
    rw [if_neg (fun x => h2 x.1), if_neg h1, if_pos h3]

theorem scanLoop_digit' (b : Nat) (st : LoopSt) (c : Char) (t : List Char) (hc : digitVal c < b) (hb : b ≤ 36) :
    scanLoop b st (c :: t) =
      scanLoop b { st with prev := .digit, count := st.count + 1, val := st.val * b + digitVal c } t := by
  rw [scanLoop]
  rw [if_neg (fun x => digitVal_lt_ne hc hb '.' dv_dot x.1), if_neg (digitVal_lt_ne hc hb '_' dv_us), if_neg (by omega)]

theorem scanLoop_sepc' (b : Nat) (st : LoopSt) (t : List Char) :
    scanLoop b st ('_' :: t) =
      scanLoop b { st with invalSep := st.invalSep || st.prev != .digit, prev := .sep } t := by
  rw [scanLoop]
  rw [if_neg (fun x => by have := x.1; revert this; decide), if_pos rfl]

theorem scanLoop_dot (b : Nat) (st : LoopSt) (t : List Char) (hf : st.fracOk = true) :
    scanLoop b st ('.' :: t) =
      scanLoop b { st with fracOk := false, invalSep := st.invalSep || st.prev == .sep, prev := .other,
                           dp := some st.count } t := by
  rw [scanLoop]
  rw [if_pos ⟨rfl, hf⟩]

theorem mant_false_noDot {b : Nat} (hb : b ≤ 36) {pv : Prev} {l : List Char} (h : Mant b pv false l) :
    fracDigits l = none := by
  generalize hfr : false = fr at h
  induction h with
  | nil _ _ _ => rfl
  | digit pv fr c t hc _ ih =>
    have : c ≠ '.' := digitVal_lt_ne hc hb '.' dv_dot
    unfold fracDigits; rw [if_neg this]; exact ih hfr
  | sep fr t _ ih =>
    unfold fracDigits; rw [if_neg (by decide)]; exact ih hfr
  | dot _ _ _ _ _ => cases hfr

/-- grammar ⇒ scanner for the mantissa loop -/
theorem scanLoop_of_mant (b : Nat) (hb : b ≤ 36) (rest : List Char) (hr : Stops b rest)
    (pv : Prev) (fr : Bool) (mant : List Char) (h : Mant b pv fr mant) :
    ∀ st : LoopSt, st.prev = pv → st.fracOk = fr →
      (scanLoop b st (mant ++ rest)).2 = rest ∧
      (scanLoop b st (mant ++ rest)).1.val = mval b st.val mant ∧
      (scanLoop b st (mant ++ rest)).1.count = st.count + ndig mant ∧
      (scanLoop b st (mant ++ rest)).1.invalSep = st.invalSep ∧
      (scanLoop b st (mant ++ rest)).1.prev ≠ .sep ∧
      (∀ f, fracDigits mant = some f →
        ∃ dp, (scanLoop b st (mant ++ rest)).1.dp = some dp ∧ dp + f = st.count + ndig mant) ∧
      (fracDigits mant = none → (scanLoop b st (mant ++ rest)).1.dp = st.dp) := by
  induction h with
  | nil pv fr hne =>
    intro st hp _
    rw [List.nil_append, scanLoop_stops b st rest hr]
    exact ⟨rfl, rfl, rfl, rfl, by rw [hp]; exact hne, fun f c => (by cases c), fun _ => rfl⟩
  | digit pv fr c t hc _ ih =>
    intro st _ hf
    have n1 : c ≠ '_' := digitVal_lt_ne hc hb '_' dv_us
    have n2 : c ≠ '.' := digitVal_lt_ne hc hb '.' dv_dot
    rw [List.cons_append, scanLoop_digit' b st c _ hc hb]
    obtain ⟨a1, a2, a3, a4, a5, a6, a7⟩ :=
      ih { st with prev := .digit, count := st.count + 1, val := st.val * b + digitVal c } rfl hf
    have hn : ndig (c :: t) = 1 + ndig t := by
      show (if c = '_' ∨ c = '.' then 0 else 1) + ndig t = _
      rw [if_neg (by intro x; rcases x with x | x; exact n1 x; exact n2 x)]
    have hfd : fracDigits (c :: t) = fracDigits t := by
      show (if c = '.' then some (ndig t) else fracDigits t) = _
      rw [if_neg n2]
    refine ⟨a1, ?_, ?_, a4, a5, ?_, ?_⟩
    · rw [a2]
      show _ = List.foldl _ _ (c :: t)
      rw [List.foldl_cons, if_neg (by intro x; rcases x with x | x; exact n1 x; exact n2 x)]
      rfl
    · rw [a3, hn]; simp only []; omega
    · intro f hf'
      rw [hfd] at hf'
      obtain ⟨dp, d1, d2⟩ := a6 f hf'
      exact ⟨dp, d1, by rw [hn]; simp only [] at d2; omega⟩
    · intro hf'
      rw [hfd] at hf'
      exact a7 hf'
  | sep fr t _ ih =>
    intro st hp hf
    rw [List.cons_append, scanLoop_sepc' b st _]
    obtain ⟨a1, a2, a3, a4, a5, a6, a7⟩ :=
      ih { st with invalSep := st.invalSep || st.prev != .digit, prev := .sep } rfl hf
    have hn : ndig ('_' :: t) = ndig t := by
      show (if '_' = '_' ∨ '_' = '.' then 0 else 1) + ndig t = _
      rw [if_pos (Or.inl rfl), Nat.zero_add]
    have hfd : fracDigits ('_' :: t) = fracDigits t := by
      show (if '_' = '.' then some (ndig t) else fracDigits t) = _
      rw [if_neg (by decide)]
    refine ⟨a1, ?_, ?_, ?_, a5, ?_, ?_⟩
    · rw [a2]
      show _ = List.foldl _ _ ('_' :: t)
      rw [List.foldl_cons, if_pos (Or.inl rfl)]
      rfl
    · rw [a3, hn]
    · rw [a4]; simp [hp]
    · intro f hf'; rw [hfd] at hf'; rw [hn]; exact a6 f hf'
    · intro hf'; rw [hfd] at hf'; exact a7 hf'
  | dot pv t hne hm ih =>
    intro st hp hf
    rw [List.cons_append, scanLoop_dot b st _ hf]
    obtain ⟨a1, a2, a3, a4, a5, _, a7⟩ :=
      ih { st with fracOk := false, invalSep := st.invalSep || st.prev == .sep, prev := .other,
                   dp := some st.count } rfl rfl
    have hn : ndig ('.' :: t) = ndig t := by
      show (if '.' = '_' ∨ '.' = '.' then 0 else 1) + ndig t = _
      rw [if_pos (Or.inr rfl), Nat.zero_add]
    have hfd : fracDigits ('.' :: t) = some (ndig t) := by
      show (if '.' = '.' then some (ndig t) else fracDigits t) = _
      rw [if_pos rfl]
    refine ⟨a1, ?_, ?_, ?_, a5, ?_, ?_⟩
    · rw [a2]
      show _ = List.foldl _ _ ('.' :: t)
      rw [List.foldl_cons, if_pos (Or.inr rfl)]
      rfl
    · rw [a3, hn]
    · rw [a4]
      have : st.prev ≠ .sep := by rw [hp]; exact hne
      cases hq : st.prev <;> simp_all
    · intro f hf'
      rw [hfd] at hf'; injection hf' with hf'
      refine ⟨st.count, a7 (mant_false_noDot hb hm), ?_⟩
      rw [hn, hf']
    · intro hf'; rw [hfd] at hf'; cases hf'

/-- scanner ⇒ grammar for the mantissa loop: what was read is a mantissa, and the loop stopped at the end of the text
    or at a character that is neither an underscore nor a digit -/
theorem mant_of_scanLoop (b : Nat) (l : List Char) :
    ∀ st : LoopSt, (scanLoop b st l).1.invalSep = false → (scanLoop b st l).1.prev ≠ .sep →
      ∃ mant, l = mant ++ (scanLoop b st l).2 ∧ Mant b st.prev st.fracOk mant ∧
        ((scanLoop b st l).2 = [] ∨ ∃ c t, (scanLoop b st l).2 = c :: t ∧ c ≠ '_' ∧ digitVal c ≥ b) := by
  induction l with
  | nil =>
    intro st _ h2
    rw [scanLoop_nil] at h2 ⊢
    exact ⟨[], rfl, Mant.nil _ _ h2, Or.inl rfl⟩
  | cons c t ih =>
    intro st h1 h2
    by_cases c0 : c = '.' ∧ st.fracOk = true
    · obtain ⟨c0, hf⟩ := c0
      subst c0
      rw [scanLoop_dot b st t hf] at h1 h2 ⊢
      have hst : (st.invalSep || st.prev == .sep) = false := by
        cases hx : (st.invalSep || st.prev == .sep)
        · rfl
        · have := scanLoop_invalSep_mono b t
              { st with fracOk := false, invalSep := st.invalSep || st.prev == .sep, prev := .other,
                        dp := some st.count } hx
          rw [this] at h1; cases h1
      have hp : st.prev ≠ .sep := by
        intro hq; rw [hq] at hst; simp at hst
      obtain ⟨m, e1, e2, e3⟩ := ih
        { st with fracOk := false, invalSep := st.invalSep || st.prev == .sep, prev := .other,
                  dp := some st.count } h1 h2
      refine ⟨'.' :: m, by rw [List.cons_append, ← e1], ?_, e3⟩
      rw [hf]; exact Mant.dot _ m hp e2
    · by_cases c1 : c = '_'
      · subst c1
        rw [scanLoop_sepc' b st t] at h1 h2 ⊢
        have hst : (st.invalSep || st.prev != .digit) = false := by
          cases hx : (st.invalSep || st.prev != .digit)
          · rfl
          · have := scanLoop_invalSep_mono b t
                { st with invalSep := st.invalSep || st.prev != .digit, prev := .sep } hx
            rw [this] at h1; cases h1
        have hp : st.prev = .digit := by
          cases hq : st.prev <;> simp [hq] at hst ⊢
        obtain ⟨m, e1, e2, e3⟩ := ih { st with invalSep := st.invalSep || st.prev != .digit, prev := .sep } h1 h2
        refine ⟨'_' :: m, by rw [List.cons_append, ← e1], ?_, e3⟩
        rw [hp]; exact Mant.sep _ m e2
      · by_cases c2 : digitVal c ≥ b
        · have hs : scanLoop b st (c :: t) = (st, c :: t) := by
            rw [scanLoop]; rw [if_neg c0, if_neg c1, if_pos c2]
          rw [hs] at h2 ⊢
          exact ⟨[], rfl, Mant.nil _ _ h2, Or.inr ⟨c, t, rfl, c1, c2⟩⟩
        · have hs : scanLoop b st (c :: t) =
              scanLoop b { st with prev := .digit, count := st.count + 1, val := st.val * b + digitVal c } t := by
            rw [scanLoop]; rw [if_neg c0, if_neg c1, if_neg c2]
          rw [hs] at h1 h2 ⊢
          obtain ⟨m, e1, e2, e3⟩ :=
            ih { st with prev := .digit, count := st.count + 1, val := st.val * b + digitVal c } h1 h2
          exact ⟨c :: m, by rw [List.cons_append, ← e1], Mant.digit _ _ c m (by omega) e2, e3⟩

/-! ## `nat.scan(r, 0, fracOk = true)` -/

/-- base prefix letters -/
def IsPfx (p : Char) (B : Nat) : Prop :=
  ((p = 'b' ∨ p = 'B') ∧ B = 2) ∨ ((p = 'o' ∨ p = 'O') ∧ B = 8) ∨ ((p = 'x' ∨ p = 'X') ∧ B = 16)

/-- mantissa of a `big.Rat` literal: `0b`/`0o`/`0x` and a mantissa of that base (an underscore may follow the prefix),
    or a decimal mantissa (a leading `0` is an ordinary digit here); at least one digit.  Results: base, Horner value of
    all digits, digit count as reported by the scanner (`mcount`). -/
inductive RatMant : List Char → Nat → Nat → Int → Prop
  | pre (p : Char) (B : Nat) (t : List Char) : IsPfx p B → Mant B .digit true t → 0 < ndig t →
      RatMant ('0' :: p :: t) B (mval B 0 t) (mcount t)
  | dec (l : List Char) : (∀ p t B, l = '0' :: p :: t → ¬ IsPfx p B) → Mant 10 .other true l → 0 < ndig l →
      RatMant l 10 (mval 10 0 l) (mcount l)

/-- the digit count reported from the loop state -/
def loopCount (dpo : Option Nat) (cnt : Nat) : Int :=
  match dpo with
  | some dp => (dp : Int) - cnt
  | none => cnt

/-- the post-processing of `natScan` after the digit loop -/
def natScanPost (b : Nat) (px : Pfx) (r : LoopSt × List Char) : NatScan :=
  let st := r.1
  let errSep := st.invalSep || st.prev == .sep
  if st.count == 0 then
    if px == .zero then { val := 0, base := 10, count := 1, err := errSep, rest := r.2 }
    else { val := st.val, base := b, count := 0, err := true, rest := r.2 }
  else
    { val := st.val, base := b,
      count := match st.dp with | some dp => (dp : Int) - st.count | none => st.count,
      err := errSep, rest := r.2 }

theorem natScan_eq_post (fo : Bool) (r : List Char) :
    natScan fo r = natScanPost (scanPrefix fo r).1 (scanPrefix fo r).2.1
      (scanLoop (scanPrefix fo r).1
        { val := 0, count := (scanPrefix fo r).2.2.1, prev := (scanPrefix fo r).2.2.2.1, invalSep := false,
          fracOk := fo, dp := none } (scanPrefix fo r).2.2.2.2) := rfl

/-- start state of the mantissa loop -/
def st00 (pv : Prev) : LoopSt := { val := 0, count := 0, prev := pv, invalSep := false, fracOk := true, dp := none }

theorem natScan_true_pre (p : Char) (B : Nat) (t : List Char) (h : IsPfx p B) :
    ∃ px, px ≠ Pfx.zero ∧ natScan true ('0' :: p :: t) = natScanPost B px (scanLoop B (st00 .digit) t) := by
  rw [natScan_eq_post]
  rcases h with ⟨h | h, hB⟩ | ⟨h | h, hB⟩ | ⟨h | h, hB⟩ <;> subst h <;> subst hB
  · exact ⟨.b, by decide, rfl⟩
  · exact ⟨.b, by decide, rfl⟩
  · exact ⟨.o, by decide, rfl⟩
  · exact ⟨.o, by decide, rfl⟩
  · exact ⟨.x, by decide, rfl⟩
  · exact ⟨.x, by decide, rfl⟩

theorem dv_zero : digitVal '0' = 0 := by decide

theorem natScan_true_dec (l : List Char) (h : ∀ p t B, l = '0' :: p :: t → ¬ IsPfx p B) :
    natScan true l = natScanPost 10 .none (scanLoop 10 (st00 .other) l) := by
  rw [natScan_eq_post]
  have step : ∀ t, scanLoop 10 (st00 .other) ('0' :: t) =
      scanLoop 10 { val := 0, count := 1, prev := .digit, invalSep := false, fracOk := true, dp := none } t := by
    intro t
    rw [scanLoop_digit' 10 (st00 .other) '0' t (by decide) (by decide)]
    rfl
  cases l with
  | nil => rfl
  | cons c t =>
    by_cases c0 : c = '0'
    · subst c0
      cases t with
      | nil => rw [step]; rfl
      | cons d u =>
        have n1 : ¬ (d = 'b' ∨ d = 'B') := fun x => h d u 2 rfl (Or.inl ⟨x, rfl⟩)
        have n2 : ¬ (d = 'o' ∨ d = 'O') := fun x => h d u 8 rfl (Or.inr (Or.inl ⟨x, rfl⟩))
        have n3 : ¬ (d = 'x' ∨ d = 'X') := fun x => h d u 16 rfl (Or.inr (Or.inr ⟨x, rfl⟩))
        have hp : scanPrefix true ('0' :: d :: u) = (10, .none, 1, .digit, d :: u) := by
          simp only [scanPrefix]
          rw [if_neg n1, if_neg n2, if_neg n3]
          rfl
        rw [hp, step]
    · have hp : scanPrefix true (c :: t) = (10, .none, 0, .other, c :: t) := by
        unfold scanPrefix
        split
        · rename_i heq; injection heq with a _; exact absurd a c0
        · rename_i heq; injection heq with a _; exact absurd a c0
        · rfl
      rw [hp]; rfl

/-- what `natScanPost` returns when there is no legacy-octal prefix -/
theorem natScanPost_facts (b : Nat) (px : Pfx) (hpx : px ≠ .zero) (res : LoopSt × List Char) :
    (natScanPost b px res).rest = res.2 ∧
    ((natScanPost b px res).err = false → res.1.invalSep = false ∧ res.1.prev ≠ .sep ∧ res.1.count ≠ 0) ∧
    (res.1.count ≠ 0 →
      (natScanPost b px res).val = res.1.val ∧ (natScanPost b px res).base = b ∧
      (natScanPost b px res).count = loopCount res.1.dp res.1.count ∧
      (res.1.invalSep = false → res.1.prev ≠ .sep → (natScanPost b px res).err = false)) := by
  unfold natScanPost
  simp only []
  by_cases hc : res.1.count = 0
  · have h1 : (res.1.count == 0) = true := by simp [hc]
    have h2 : (px == Pfx.zero) = false := by cases px <;> simp_all
    rw [h1, h2]
    simp only [if_true, Bool.false_eq_true, if_false]
    exact ⟨by first | rfl | trivial, fun he => (by cases he), fun c => (c hc).elim⟩
  · have h1 : (res.1.count == 0) = false := by simp [hc]
    rw [h1]
    simp only [Bool.false_eq_true, if_false]
    refine ⟨by first | rfl | trivial, ?_, fun _ => ⟨by first | rfl | trivial, by first | rfl | trivial,
      by first | rfl | trivial, ?_⟩⟩
    · intro he
      cases hi : res.1.invalSep
      · rw [hi] at he
        refine ⟨rfl, ?_, hc⟩
        intro hq; rw [hq] at he; simp at he
      · rw [hi] at he; simp at he
    · intro i1 i2
      rw [i1]
      cases hq : res.1.prev <;> simp_all

/-- the scanner's count from the loop's `dp` and `count` is the grammar's `mcount` -/
theorem mcount_of_loop (mant : List Char) (cnt : Nat) (dpo : Option Nat) (hc : cnt = ndig mant)
    (h1 : ∀ f, fracDigits mant = some f → ∃ dp, dpo = some dp ∧ dp + f = 0 + ndig mant)
    (h2 : fracDigits mant = none → dpo = none) : loopCount dpo cnt = mcount mant := by
  unfold mcount loopCount
  cases hf : fracDigits mant with
  | none => rw [h2 hf]; simp only []; rw [hc]
  | some f =>
    obtain ⟨dp, d1, d2⟩ := h1 f hf
    rw [d1]; simp only []; omega

/-- what may follow the mantissa: nothing, or an exponent letter (`e`/`E` only when it is not a digit of the base) -/
def ExpHead (B : Nat) (rest : List Char) : Prop :=
  rest = [] ∨ ∃ c t, rest = c :: t ∧ (((c = 'e' ∨ c = 'E') ∧ B ≤ 14) ∨ c = 'p' ∨ c = 'P')

theorem expHead_stops {B : Nat} {rest : List Char} (hB : B ≤ 16) (h : ExpHead B rest) : Stops B rest := by
  rcases h with h | ⟨c, t, h, hc⟩
  · exact Or.inl h
  · refine Or.inr ⟨c, t, h, ?_⟩
    rcases hc with ⟨hc | hc, hb⟩ | hc | hc <;> subst hc
    · exact ⟨by decide, by decide, by show 14 ≥ B; omega⟩
    · exact ⟨by decide, by decide, by show 14 ≥ B; omega⟩
    · exact ⟨by decide, by decide, by show 25 ≥ B; omega⟩
    · exact ⟨by decide, by decide, by show 25 ≥ B; omega⟩

theorem expHead_notPfx {B B' : Nat} {c : Char} {t : List Char} (h : ExpHead B (c :: t)) : ¬ IsPfx c B' := by
  rcases h with h | ⟨c', t', h, hc⟩
  · cases h
  · injection h with h _
    subst h
    intro hp
    have hd : digitVal c = 11 ∨ digitVal c = 24 ∨ digitVal c = 33 := by
      rcases hp with ⟨h | h, _⟩ | ⟨h | h, _⟩ | ⟨h | h, _⟩ <;> subst h <;> decide
    rcases hc with ⟨hc | hc, _⟩ | hc | hc <;> subst hc <;> revert hd <;> decide

theorem isPfx_le {p : Char} {B : Nat} (h : IsPfx p B) : B ≤ 16 ∧ 2 ≤ B := by
  rcases h with ⟨_, e⟩ | ⟨_, e⟩ | ⟨_, e⟩ <;> omega

/-- grammar ⇒ scanner for the mantissa -/
theorem natScan_of_ratMant (mant rest : List Char) (B M : Nat) (c : Int) (h : RatMant mant B M c)
    (hr : ExpHead B rest) :
    (natScan true (mant ++ rest)).err = false ∧ (natScan true (mant ++ rest)).rest = rest ∧
    (natScan true (mant ++ rest)).val = M ∧ (natScan true (mant ++ rest)).base = B ∧
    (natScan true (mant ++ rest)).count = c := by
  have key : ∀ (B : Nat) (px : Pfx) (pv : Prev) (body : List Char), B ≤ 16 → px ≠ .zero → ExpHead B rest →
      Mant B pv true body → 0 < ndig body →
      (natScanPost B px (scanLoop B (st00 pv) (body ++ rest))).err = false ∧
      (natScanPost B px (scanLoop B (st00 pv) (body ++ rest))).rest = rest ∧
      (natScanPost B px (scanLoop B (st00 pv) (body ++ rest))).val = mval B 0 body ∧
      (natScanPost B px (scanLoop B (st00 pv) (body ++ rest))).base = B ∧
      (natScanPost B px (scanLoop B (st00 pv) (body ++ rest))).count = mcount body := by
    intro B px pv body hB hpx hst hm hn
    obtain ⟨a1, a2, a3, a4, a5, a6, a7⟩ :=
      scanLoop_of_mant B (by omega) rest (expHead_stops hB hst) pv true body hm (st00 pv) rfl rfl
    obtain ⟨f1, _, f3⟩ := natScanPost_facts B px hpx (scanLoop B (st00 pv) (body ++ rest))
    have a3' : (scanLoop B (st00 pv) (body ++ rest)).1.count = ndig body := by
      rw [a3]; show 0 + ndig body = _; omega
    have hcnt : (scanLoop B (st00 pv) (body ++ rest)).1.count ≠ 0 := by rw [a3']; omega
    obtain ⟨g1, g2, g3, g4⟩ := f3 hcnt
    refine ⟨g4 a4 a5, by rw [f1, a1], by rw [g1, a2]; rfl, g2, ?_⟩
    rw [g3]
    exact mcount_of_loop body _ _ a3' a6 a7
  cases h with
  | pre p B t hp hm hn =>
    obtain ⟨px, hpx, e⟩ := natScan_true_pre p B (t ++ rest) hp
    rw [List.cons_append, List.cons_append, e]
    exact key B px .digit t (isPfx_le hp).1 hpx hr hm hn
  | dec _ hnp hm hn =>
    have hnp' : ∀ p t B, mant ++ rest = '0' :: p :: t → ¬ IsPfx p B := by
      intro p t B e
      cases mant with
      | nil => exact absurd hn (by decide : ¬ 0 < ndig [])
      | cons a m' =>
        cases m' with
        | nil =>
          rw [List.cons_append, List.nil_append] at e
          injection e with _ e2
          rw [e2] at hr
          exact expHead_notPfx hr
        | cons d u =>
          rw [List.cons_append, List.cons_append] at e
          injection e with e1 e2
          injection e2 with e3 _
          subst e1; subst e3
          exact hnp _ u B rfl
    rw [natScan_true_dec (mant ++ rest) hnp']
    exact key 10 .none .other mant (by omega) (by decide) hr hm hn

/-- scanner ⇒ grammar for the mantissa (for a text whose unread rest does not start with a radix point — any other
    rest is refused by the exponent scanner anyway) -/
theorem ratMant_of_natScan (r : List Char) (he : (natScan true r).err = false)
    (hnd : ∀ t, (natScan true r).rest ≠ '.' :: t) :
    ∃ mant, r = mant ++ (natScan true r).rest ∧
      RatMant mant (natScan true r).base (natScan true r).val (natScan true r).count ∧
      ((natScan true r).rest = [] ∨
        ∃ c t, (natScan true r).rest = c :: t ∧ c ≠ '_' ∧ digitVal c ≥ (natScan true r).base) := by
  have key : ∀ (B : Nat) (px : Pfx) (pv : Prev) (body : List Char), B ≤ 16 → px ≠ .zero →
      (∀ t, (natScanPost B px (scanLoop B (st00 pv) body)).rest ≠ '.' :: t) →
      (natScanPost B px (scanLoop B (st00 pv) body)).err = false →
      ∃ mant, body = mant ++ (natScanPost B px (scanLoop B (st00 pv) body)).rest ∧
        Mant B pv true mant ∧ 0 < ndig mant ∧
        (natScanPost B px (scanLoop B (st00 pv) body)).base = B ∧
        (natScanPost B px (scanLoop B (st00 pv) body)).val = mval B 0 mant ∧
        (natScanPost B px (scanLoop B (st00 pv) body)).count = mcount mant ∧
        ((natScanPost B px (scanLoop B (st00 pv) body)).rest = [] ∨
          ∃ c t, (natScanPost B px (scanLoop B (st00 pv) body)).rest = c :: t ∧ c ≠ '_' ∧ digitVal c ≥ B) := by
    intro B px pv body hB hpx hnd he
    obtain ⟨f1, f2, f3⟩ := natScanPost_facts B px hpx (scanLoop B (st00 pv) body)
    obtain ⟨i1, i2, i3⟩ := f2 he
    obtain ⟨g1, g2, g3, _⟩ := f3 i3
    obtain ⟨mant, e1, e2, e3⟩ := mant_of_scanLoop B body (st00 pv) i1 i2
    rw [f1] at hnd ⊢
    have hstop : Stops B (scanLoop B (st00 pv) body).2 := by
      rcases e3 with e | ⟨c, t, e, c1, c2⟩
      · exact Or.inl e
      · exact Or.inr ⟨c, t, e, c1, fun hc => hnd t (by rw [e, hc]), c2⟩
    obtain ⟨_, a2, a3, _, _, a6, a7⟩ :=
      scanLoop_of_mant B (by omega) _ hstop pv true mant e2 (st00 pv) rfl rfl
    rw [← e1] at a2 a3 a6 a7
    have a3' : (scanLoop B (st00 pv) body).1.count = ndig mant := by
      rw [a3]; show 0 + ndig mant = _; omega
    have hn : 0 < ndig mant := by rw [← a3']; omega
    refine ⟨mant, e1, e2, hn, g2, by rw [g1, a2]; rfl, ?_, e3⟩
    rw [g3]; exact mcount_of_loop mant _ _ a3' a6 a7
  by_cases hp : ∃ p t B, r = '0' :: p :: t ∧ IsPfx p B
  · obtain ⟨p, t, B, hr, hp⟩ := hp
    subst hr
    obtain ⟨px, hpx, e⟩ := natScan_true_pre p B t hp
    rw [e] at he hnd ⊢
    obtain ⟨mant, k1, k2, k3, k4, k5, k6, k7⟩ := key B px .digit t (isPfx_le hp).1 hpx hnd he
    refine ⟨'0' :: p :: mant, by rw [List.cons_append, List.cons_append, ← k1], ?_, ?_⟩
    · rw [k4, k5, k6]; exact RatMant.pre p B mant hp k2 k3
    · rw [k4]; exact k7
  · have hnp : ∀ p t B, r = '0' :: p :: t → ¬ IsPfx p B := fun p t B e h => hp ⟨p, t, B, e, h⟩
    rw [natScan_true_dec r hnp] at he hnd ⊢
    obtain ⟨mant, k1, k2, k3, k4, k5, k6, k7⟩ := key 10 .none .other r (by omega) (by decide) hnd he
    refine ⟨mant, k1, ?_, ?_⟩
    · rw [k4, k5, k6]
      refine RatMant.dec mant ?_ k2 k3
      intro p t B e
      refine hnp p (t ++ (natScanPost 10 .none (scanLoop 10 (st00 .other) r)).rest) B ?_
      have hr' := k1
      rw [e] at hr'
      exact hr'
    · rw [k4]; exact k7

/-! ## the exponent -/

theorem digitVal_lt_ten (c : Char) : digitVal c < 10 ↔ (48 ≤ c.toNat ∧ c.toNat ≤ 57) := by
  unfold digitVal
  constructor
  · intro h
    split at h
    · assumption
    · split at h
      · omega
      · split at h <;> omega
  · intro h; rw [if_pos h]; omega

theorem digitVal_dec' (c : Char) (h : 48 ≤ c.toNat ∧ c.toNat ≤ 57) : c.toNat - 48 = digitVal c := by
  unfold digitVal; rw [if_pos h]

theorem expLoop_nil (st : ExpSt) : expLoop st [] = (st, []) := by
  unfold expLoop; rfl

theorem expLoop_digit (st : ExpSt) (c : Char) (t : List Char) (hc : digitVal c < 10) :
    expLoop st (c :: t) = expLoop { st with val := st.val * 10 + digitVal c, prev := .digit, has := true } t := by
  have h := (digitVal_lt_ten c).mp hc
  rw [expLoop]
  rw [if_pos h, digitVal_dec' c h]

theorem expLoop_sep (st : ExpSt) (t : List Char) :
    expLoop st ('_' :: t) = expLoop { st with invalSep := st.invalSep || st.prev != .digit, prev := .sep } t := by
  rw [expLoop]
  rw [if_neg (by decide), if_pos rfl]

theorem expLoop_stop (st : ExpSt) (c : Char) (t : List Char) (h1 : ¬ digitVal c < 10) (h2 : c ≠ '_') :
    expLoop st (c :: t) = (st, c :: t) := by
  rw [expLoop]
  rw [if_neg (fun x => h1 ((digitVal_lt_ten c).mpr x)), if_neg h2]

/-- grammar ⇒ scanner for the exponent digits -/
theorem expLoop_of_sep (p : Bool) (l : List Char) (h : SepDigits 10 p l) :
    ∀ st : ExpSt, (p = true → st.prev = .digit) →
      (expLoop st l).2 = [] ∧ (expLoop st l).1.val = valFrom 10 st.val l ∧ (expLoop st l).1.has = true ∧
      (expLoop st l).1.prev = .digit ∧ (expLoop st l).1.invalSep = st.invalSep := by
  induction h with
  | last p c hc =>
    intro st _
    rw [expLoop_digit st c [] hc, expLoop_nil]
    have : c ≠ '_' := digitVal_lt_ne hc (by omega) '_' dv_us
    refine ⟨rfl, ?_, rfl, rfl, rfl⟩
    simp [valFrom, this]
  | digit p c t hc _ ih =>
    intro st _
    rw [expLoop_digit st c t hc]
    obtain ⟨a1, a2, a3, a4, a5⟩ :=
      ih { st with val := st.val * 10 + digitVal c, prev := .digit, has := true } (fun _ => rfl)
    have : c ≠ '_' := digitVal_lt_ne hc (by omega) '_' dv_us
    refine ⟨a1, ?_, a3, a4, a5⟩
    rw [a2]; simp [valFrom, this]
  | sep t _ ih =>
    intro st hp
    rw [expLoop_sep st t]
    obtain ⟨a1, a2, a3, a4, a5⟩ :=
      ih { st with invalSep := st.invalSep || st.prev != .digit, prev := .sep } (fun c => by cases c)
    refine ⟨a1, ?_, a3, a4, ?_⟩
    · rw [a2]; simp [valFrom]
    · rw [a5]; simp [hp rfl]

theorem expLoop_invalSep_mono (l : List Char) :
    ∀ st : ExpSt, st.invalSep = true → (expLoop st l).1.invalSep = true := by
  induction l with
  | nil => intro st h; rw [expLoop_nil]; exact h
  | cons c t ih =>
    intro st h
    rw [expLoop]
    split
    · exact ih _ h
    · split
      · exact ih _ (by simp [h])
      · exact h

/-- scanner ⇒ grammar for the exponent digits -/
theorem sep_of_expLoop (l : List Char) :
    ∀ st : ExpSt, (expLoop st l).2 = [] → (expLoop st l).1.invalSep = false → (expLoop st l).1.prev ≠ .sep →
      l = [] ∨ SepDigits 10 (st.prev == .digit) l := by
  induction l with
  | nil => intro _ _ _ _; exact Or.inl rfl
  | cons c t ih =>
    intro st h1 h2 h3
    right
    by_cases c0 : digitVal c < 10
    · rw [expLoop_digit st c t c0] at h1 h2 h3
      rcases ih { st with val := st.val * 10 + digitVal c, prev := .digit, has := true } h1 h2 h3 with e | e
      · subst e; exact SepDigits.last _ c c0
      · exact SepDigits.digit _ c t c0 e
    · by_cases c1 : c = '_'
      · subst c1
        rw [expLoop_sep st t] at h1 h2 h3
        have hst : (st.invalSep || st.prev != .digit) = false := by
          cases hx : (st.invalSep || st.prev != .digit)
          · rfl
          · have := expLoop_invalSep_mono t
                { st with invalSep := st.invalSep || st.prev != .digit, prev := .sep } hx
            rw [this] at h2; cases h2
        have hp : st.prev = .digit := by
          cases hq : st.prev <;> simp [hq] at hst ⊢
        rcases ih { st with invalSep := st.invalSep || st.prev != .digit, prev := .sep } h1 h2 h3 with e | e
        · subst e; rw [expLoop_nil] at h3; exact absurd rfl h3
        · rw [hp]; exact SepDigits.sep t e
      · rw [expLoop_stop st c t c0 c1] at h1; cases h1

/-- optional sign of the exponent -/
def expSign (t : List Char) : Bool × List Char :=
  match t with
  | c :: u => if c = '+' then (false, u) else if c = '-' then (true, u) else (false, t)
  | [] => (false, t)

def expPost (base : Nat) (neg : Bool) (r : ExpSt × List Char) : ExpScan :=
  let st := r.1
  let e : Int := if neg then -(st.val : Int) else st.val
  let rangeErr := e < -(2^63) || e > 2^63 - 1
  { exp := e, base := base, err := !st.has || rangeErr || st.invalSep || st.prev == .sep, rest := r.2 }

def est0 : ExpSt := { val := 0, has := false, prev := .other, invalSep := false }

theorem scanExpDigits_eq (base : Nat) (t : List Char) :
    scanExpDigits base t = expPost base (expSign t).1 (expLoop est0 (expSign t).2) := rfl

theorem expPost_facts (base : Nat) (neg : Bool) (r : ExpSt × List Char) :
    (expPost base neg r).rest = r.2 ∧ (expPost base neg r).base = base ∧
    (expPost base neg r).exp = (if neg then -(r.1.val : Int) else r.1.val) ∧
    ((expPost base neg r).err = false ↔
      r.1.has = true ∧ r.1.invalSep = false ∧ r.1.prev ≠ .sep ∧
      -(2^63) ≤ (if neg then -(r.1.val : Int) else (r.1.val : Int)) ∧
      (if neg then -(r.1.val : Int) else (r.1.val : Int)) ≤ 2^63 - 1) := by
  refine ⟨rfl, rfl, rfl, ?_⟩
  obtain ⟨⟨val, has, prev, inval⟩, rest⟩ := r
  unfold expPost
  simp only []
  generalize (if neg then -(val : Int) else (val : Int)) = e
  have k1 : (decide (e < -(2^63)) = false) ↔ -(2^63) ≤ e := by
    simp only [decide_eq_false_iff_not]; omega
  have k2 : (decide (e > 2^63 - 1) = false) ↔ e ≤ 2^63 - 1 := by
    simp only [decide_eq_false_iff_not]; omega
  rw [← k1, ← k2]
  generalize decide (e < -(2^63)) = b1
  generalize decide (e > 2^63 - 1) = b2
  cases has <;> cases inval <;> cases prev <;> cases b1 <;> cases b2 <;> decide

/-- exponent digits: an optional sign and decimal digits with single inner underscores; the value fits an `int64` -/
def ExpDigits (t : List Char) (x : Int) : Prop :=
  ∃ sg ds, t = sg ++ ds ∧ SepDigits 10 false ds ∧
    (((sg = [] ∨ sg = ['+']) ∧ x = (digitsVal 10 ds : Int)) ∨ (sg = ['-'] ∧ x = -(digitsVal 10 ds : Int))) ∧
    -(2^63) ≤ x ∧ x ≤ 2^63 - 1

/-- exponent part: nothing (exponent 0), or `e`/`E` (base 10) or `p`/`P` (base 2) followed by the exponent digits -/
def ExpPart (ex : List Char) (eb : Nat) (x : Int) : Prop :=
  (ex = [] ∧ eb = 10 ∧ x = 0) ∨
  ∃ c t, ex = c :: t ∧ (((c = 'e' ∨ c = 'E') ∧ eb = 10) ∨ ((c = 'p' ∨ c = 'P') ∧ eb = 2)) ∧ ExpDigits t x

theorem expSign_cons (c : Char) (u : List Char) :
    expSign (c :: u) = if c = '+' then (false, u) else if c = '-' then (true, u) else (false, c :: u) := rfl

theorem scanExponent_cons (c : Char) (t : List Char) :
    scanExponent (c :: t) =
      if c = 'e' ∨ c = 'E' then scanExpDigits 10 t
      else if c = 'p' ∨ c = 'P' then scanExpDigits 2 t
      else { exp := 0, base := 10, err := false, rest := c :: t } := rfl

theorem expSign_split (t : List Char) :
    (t = (expSign t).2 ∧ (expSign t).1 = false) ∨ (t = '+' :: (expSign t).2 ∧ (expSign t).1 = false) ∨
    (t = '-' :: (expSign t).2 ∧ (expSign t).1 = true) := by
  cases t with
  | nil => exact Or.inl ⟨rfl, rfl⟩
  | cons c u =>
    rw [expSign_cons]
    by_cases c1 : c = '+'
    · rw [if_pos c1]; exact Or.inr (Or.inl ⟨by rw [c1], rfl⟩)
    · by_cases c2 : c = '-'
      · rw [if_neg c1, if_pos c2]; exact Or.inr (Or.inr ⟨by rw [c2], rfl⟩)
      · rw [if_neg c1, if_neg c2]; exact Or.inl ⟨rfl, rfl⟩

theorem expDigits_fwd (t : List Char) (x : Int) (h : ExpDigits t x) (base : Nat) :
    (scanExpDigits base t).err = false ∧ (scanExpDigits base t).rest = [] ∧ (scanExpDigits base t).base = base ∧
    (scanExpDigits base t).exp = x := by
  obtain ⟨sg, ds, ht, hs, hx, r1, r2⟩ := h
  have hsign : expSign t = (decide (sg = ['-']), ds) := by
    rcases hx with ⟨hsg | hsg, _⟩ | ⟨hsg, _⟩
    · subst hsg
      rw [List.nil_append] at ht; subst ht
      cases hs with
      | last _ c hc =>
        have n1 : c ≠ '+' := digitVal_lt_ne hc (by omega) '+' dv_plus
        have n2 : c ≠ '-' := digitVal_lt_ne hc (by omega) '-' dv_minus
        simp [expSign, n1, n2]
      | digit _ c u hc _ =>
        have n1 : c ≠ '+' := digitVal_lt_ne hc (by omega) '+' dv_plus
        have n2 : c ≠ '-' := digitVal_lt_ne hc (by omega) '-' dv_minus
        simp [expSign, n1, n2]
    · subst hsg; subst ht; rfl
    · subst hsg; subst ht; rfl
  obtain ⟨a1, a2, a3, a4, a5⟩ := expLoop_of_sep false ds hs est0 (fun c => by cases c)
  obtain ⟨f1, f2, f3, f4⟩ := expPost_facts base (decide (sg = ['-'])) (expLoop est0 ds)
  rw [scanExpDigits_eq, hsign]
  have hval : (if decide (sg = ['-']) = true then -((expLoop est0 ds).1.val : Int) else ((expLoop est0 ds).1.val : Int)) = x := by
    rw [a2]
    rcases hx with ⟨hsg | hsg, hx⟩ | ⟨hsg, hx⟩
    · subst hsg; rw [hx]; rfl
    · subst hsg; rw [hx]; rfl
    · subst hsg; rw [hx]; rfl
  refine ⟨f4.mpr ⟨a3, a5, by rw [a4]; decide, ?_, ?_⟩, by rw [f1, a1], f2, by rw [f3, hval]⟩
  · rw [hval]; exact r1
  · rw [hval]; exact r2

theorem expDigits_bwd (t : List Char) (base : Nat) (he : (scanExpDigits base t).err = false)
    (hr : (scanExpDigits base t).rest = []) :
    ExpDigits t (scanExpDigits base t).exp ∧ (scanExpDigits base t).base = base := by
  rw [scanExpDigits_eq] at he hr ⊢
  obtain ⟨f1, f2, f3, f4⟩ := expPost_facts base (expSign t).1 (expLoop est0 (expSign t).2)
  obtain ⟨g1, g2, g3, g4, g5⟩ := f4.mp he
  rw [f1] at hr
  have hs : SepDigits 10 false (expSign t).2 := by
    rcases sep_of_expLoop (expSign t).2 est0 hr g2 g3 with e | e
    · rw [e, expLoop_nil] at g1; cases g1
    · exact e
  obtain ⟨_, a2, _, _, _⟩ := expLoop_of_sep false _ hs est0 (fun c => by cases c)
  refine ⟨?_, f2⟩
  rw [f3]
  rw [a2] at g4 g5 ⊢
  rcases expSign_split t with ⟨e1, e2⟩ | ⟨e1, e2⟩ | ⟨e1, e2⟩
  · rw [e2] at g4 g5 ⊢
    exact ⟨[], _, e1, hs, Or.inl ⟨Or.inl rfl, rfl⟩, g4, g5⟩
  · rw [e2] at g4 g5 ⊢
    exact ⟨['+'], _, e1, hs, Or.inl ⟨Or.inr rfl, rfl⟩, g4, g5⟩
  · rw [e2] at g4 g5 ⊢
    exact ⟨['-'], _, e1, hs, Or.inr ⟨rfl, rfl⟩, g4, g5⟩

theorem expPart_fwd (l : List Char) (eb : Nat) (x : Int) (h : ExpPart l eb x) :
    (scanExponent l).err = false ∧ (scanExponent l).rest = [] ∧ (scanExponent l).base = eb ∧
    (scanExponent l).exp = x := by
  rcases h with ⟨h1, h2, h3⟩ | ⟨c, t, h1, hc, hd⟩
  · subst h1; subst h2; subst h3; exact ⟨rfl, rfl, rfl, rfl⟩
  · subst h1
    rcases hc with ⟨hc, hb⟩ | ⟨hc, hb⟩
    · subst hb
      have : scanExponent (c :: t) = scanExpDigits 10 t := by
        rw [scanExponent_cons, if_pos hc]
      rw [this]; exact expDigits_fwd t x hd 10
    · subst hb
      have n : ¬ (c = 'e' ∨ c = 'E') := by
        rcases hc with hc | hc <;> subst hc <;> decide
      have : scanExponent (c :: t) = scanExpDigits 2 t := by
        rw [scanExponent_cons, if_neg n, if_pos hc]
      rw [this]; exact expDigits_fwd t x hd 2

theorem expPart_bwd (l : List Char) (he : (scanExponent l).err = false) (hr : (scanExponent l).rest = []) :
    ExpPart l (scanExponent l).base (scanExponent l).exp := by
  cases l with
  | nil => exact Or.inl ⟨rfl, rfl, rfl⟩
  | cons c t =>
    right
    by_cases c1 : c = 'e' ∨ c = 'E'
    · have : scanExponent (c :: t) = scanExpDigits 10 t := by
        rw [scanExponent_cons, if_pos c1]
      rw [this] at he hr ⊢
      obtain ⟨k1, k2⟩ := expDigits_bwd t 10 he hr
      exact ⟨c, t, rfl, Or.inl ⟨c1, k2⟩, k1⟩
    · by_cases c2 : c = 'p' ∨ c = 'P'
      · have : scanExponent (c :: t) = scanExpDigits 2 t := by
          rw [scanExponent_cons, if_neg c1, if_pos c2]
        rw [this] at he hr ⊢
        obtain ⟨k1, k2⟩ := expDigits_bwd t 2 he hr
        exact ⟨c, t, rfl, Or.inr ⟨c2, k2⟩, k1⟩
      · have : scanExponent (c :: t) = { exp := 0, base := 10, err := false, rest := c :: t } := by
          rw [scanExponent_cons, if_neg c1, if_neg c2]
        rw [this] at hr; cases hr

/-! ## `big.Rat.SetString` -/

/-- **mantissa/exponent literal** with the fraction `n/d` it denotes: an optional sign, a mantissa (`RatMant`), an
    exponent part (`ExpPart`; an `e`/`E` exponent cannot follow a hexadecimal mantissa, where `e` is a digit), and the
    arithmetic of `ratTail` on mantissa value, base, digit count, exponent base and exponent -/
def IsRatLiteral (s : List Char) (n : Int) (d : Nat) : Prop :=
  ∃ sg mant ex B M c eb x neg, s = sg ++ (mant ++ ex) ∧
    (((sg = [] ∨ sg = ['+']) ∧ neg = false) ∨ (sg = ['-'] ∧ neg = true)) ∧
    RatMant mant B M c ∧ ExpHead B ex ∧ ExpPart ex eb x ∧ ratTail neg M B c eb x = some (n, d)

theorem ratMant_head {mant : List Char} {B M : Nat} {c : Int} (h : RatMant mant B M c) :
    ∃ a t, mant = a :: t ∧ a ≠ '-' ∧ a ≠ '+' := by
  cases h with
  | pre p B t _ _ _ => exact ⟨'0', p :: t, rfl, by decide, by decide⟩
  | dec _ _ hm hn =>
    cases hm with
    | nil _ _ _ => exact absurd hn (by decide : ¬ 0 < ndig [])
    | digit _ _ a t ha _ =>
      exact ⟨a, t, rfl, digitVal_lt_ne ha (by omega) '-' dv_minus, digitVal_lt_ne ha (by omega) '+' dv_plus⟩
    | dot _ t _ _ => exact ⟨'.', t, rfl, by decide, by decide⟩

theorem expPart_head {ex : List Char} {eb : Nat} {x : Int} (h : ExpPart ex eb x) :
    ex = [] ∨ ∃ c t, ex = c :: t ∧ (c = 'e' ∨ c = 'E' ∨ c = 'p' ∨ c = 'P') := by
  rcases h with ⟨h, _⟩ | ⟨c, t, h, hc, _⟩
  · exact Or.inl h
  · refine Or.inr ⟨c, t, h, ?_⟩
    rcases hc with ⟨hc | hc, _⟩ | ⟨hc | hc, _⟩
    · exact Or.inl hc
    · exact Or.inr (Or.inl hc)
    · exact Or.inr (Or.inr (Or.inl hc))
    · exact Or.inr (Or.inr (Or.inr hc))

/-- **`big.Rat.SetString` (texts without `/`) accepts exactly the mantissa/exponent literals, with that fraction** -/
theorem bigRatSetString_iff (s : List Char) (n : Int) (d : Nat) :
    bigRatSetString s = some (n, d) ↔ IsRatLiteral s n d := by
  rw [bigRatSetString_eq]
  constructor
  · intro h
    cases hs : scanSign s with
    | none => rw [hs] at h; cases h
    | some p =>
      obtain ⟨neg, r⟩ := p
      rw [hs] at h
      simp only [] at h
      by_cases h1 : (natScan true r).err = true
      · rw [if_pos h1] at h; cases h
      · rw [if_neg h1] at h
        by_cases h2 : (scanExponent (natScan true r).rest).err = true
        · rw [if_pos h2] at h; cases h
        · rw [if_neg h2] at h
          by_cases h3 : (!(scanExponent (natScan true r).rest).rest.isEmpty) = true
          · rw [if_pos h3] at h; cases h
          · rw [if_neg h3] at h
            have e1 : (natScan true r).err = false := by
              cases hx : (natScan true r).err
              · rfl
              · exact absurd hx h1
            have e2 : (scanExponent (natScan true r).rest).err = false := by
              cases hx : (scanExponent (natScan true r).rest).err
              · rfl
              · exact absurd hx h2
            have e3 : (scanExponent (natScan true r).rest).rest = [] := by
              cases hx : (scanExponent (natScan true r).rest).rest
              · rfl
              · rw [hx] at h3; exact absurd rfl h3
            have hexp := expPart_bwd _ e2 e3
            have hhead := expPart_head hexp
            have hnd : ∀ t, (natScan true r).rest ≠ '.' :: t := by
              intro t e
              rcases hhead with hh | ⟨c, u, hh, hc⟩
              · rw [e] at hh; cases hh
              · rw [e] at hh; injection hh with hh _
                subst hh
                revert hc; decide
            obtain ⟨mant, m1, m2, m3⟩ := ratMant_of_natScan r e1 hnd
            have hEH : ExpHead (natScan true r).base (natScan true r).rest := by
              rcases hhead with hh | ⟨c, u, hh, hc⟩
              · exact Or.inl hh
              · refine Or.inr ⟨c, u, hh, ?_⟩
                rcases m3 with m3 | ⟨c', u', m3, _, m4⟩
                · rw [m3] at hh; cases hh
                · rw [hh] at m3; injection m3 with m3 _
                  subst m3
                  rcases hc with hc | hc | hc | hc
                  · subst hc; exact Or.inl ⟨Or.inl rfl, m4⟩
                  · subst hc; exact Or.inl ⟨Or.inr rfl, m4⟩
                  · exact Or.inr (Or.inl hc)
                  · exact Or.inr (Or.inr hc)
            -- the sign
            unfold scanSign at hs
            split at hs
            · cases hs
            · rename_i c t
              by_cases c1 : c = '-'
              · rw [if_pos c1] at hs; injection hs with hs; injection hs with q1 q2
                subst q1; subst q2; subst c1
                exact ⟨['-'], mant, _, _, _, _, _, _, true, by rw [← m1]; rfl, Or.inr ⟨rfl, rfl⟩, m2, hEH, hexp, h⟩
              · rw [if_neg c1] at hs
                by_cases c2 : c = '+'
                · rw [if_pos c2] at hs; injection hs with hs; injection hs with q1 q2
                  subst q1; subst q2; subst c2
                  exact ⟨['+'], mant, _, _, _, _, _, _, false, by rw [← m1]; rfl, Or.inl ⟨Or.inr rfl, rfl⟩, m2, hEH,
                    hexp, h⟩
                · rw [if_neg c2] at hs; injection hs with hs; injection hs with q1 q2
                  subst q1; subst q2
                  exact ⟨[], mant, _, _, _, _, _, _, false, by rw [← m1]; rfl, Or.inl ⟨Or.inl rfl, rfl⟩, m2, hEH,
                    hexp, h⟩
  · rintro ⟨sg, mant, ex, B, M, c, eb, x, neg, hs, hsg, hm, hEH, hexp, hrt⟩
    obtain ⟨a, t, hat, n1, n2⟩ := ratMant_head hm
    obtain ⟨k1, k2, k3, k4, k5⟩ := natScan_of_ratMant mant ex B M c hm hEH
    obtain ⟨x1, x2, x3, x4⟩ := expPart_fwd ex eb x hexp
    have hsign : scanSign s = some (neg, mant ++ ex) := by
      rcases hsg with ⟨hsg | hsg, hn⟩ | ⟨hsg, hn⟩
      · subst hsg; subst hn
        rw [hs, hat]; simp only [List.nil_append, List.cons_append, scanSign]
        rw [if_neg n1, if_neg n2]
      · subst hsg; subst hn; rw [hs]; rfl
      · subst hsg; subst hn; rw [hs]; rfl
    rw [hsign]
    simp only []
    rw [k1, k2, x1, x2, k3, k4, k5, x3, x4]
    exact hrt

end Conv
