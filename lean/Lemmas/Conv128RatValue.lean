import Mathlib.Algebra.Order.Field.Power
import Mathlib.Algebra.Order.Field.Rat
import Mathlib.Data.Rat.Cast.Lemmas
import Mathlib.Tactic.Ring
import Mathlib.Tactic.NormNum
import Lemmas.Conv128RatGrammar
/-! C02 helper lemmas, part 10 (uses Mathlib's `ℚ`): the arithmetic tail of `big.Rat.SetString` computes the exact value
    `± mantissa · base^(−fraction digits) · (10|2)^exponent`, and refuses only by its limits on the exponents. -/
namespace Conv

theorem pow_split (p : ℚ) (e : Int) :
    ((if e > 0 then p ^ e.toNat else 1) : ℚ) / (if e < 0 then p ^ (-e).toNat else 1) = p ^ e := by
  rcases lt_trichotomy e 0 with h | h | h
  · rw [if_neg (by omega), if_pos h]
    have : ((-e).toNat : Int) = -e := Int.toNat_of_nonneg (by omega)
    rw [← zpow_natCast, this, zpow_neg]; simp
  · subst h; simp
  · rw [if_pos h, if_neg (by omega)]
    have : (e.toNat : Int) = e := Int.toNat_of_nonneg (by omega)
    rw [← zpow_natCast, this]; simp

theorem num_den_value (M : Nat) (e5 e2 : Int) :
    ((numOf M e5 e2 : Nat) : ℚ) / ((denOf e5 e2 : Nat) : ℚ) = (M : ℚ) * (5 : ℚ) ^ e5 * (2 : ℚ) ^ e2 := by
  unfold numOf denOf
  have h5 := pow_split 5 e5
  have h2 := pow_split 2 e2
  push_cast
  rw [← h5, ← h2]
  ring

/-- the powers of 5 and 2 collected by `Rat.SetString` are `base^(−fraction digits) · ebase^exponent` -/
theorem exp_value (B : Nat) (c : Int) (eb : Nat) (x : Int) (hB : B = 10 ∨ B = 2 ∨ B = 8 ∨ B = 16)
    (heb : eb = 10 ∨ eb = 2) :
    (5 : ℚ) ^ (exp5Of B c eb x) * (2 : ℚ) ^ (exp2Of B c x) =
      (B : ℚ) ^ (if c < 0 then c else 0) * (eb : ℚ) ^ x := by
  have t10 : (10 : ℚ) = 5 * 2 := by norm_num
  have t8 : (8 : ℚ) = 2 ^ (3 : Int) := by norm_num
  have t16 : (16 : ℚ) = 2 ^ (4 : Int) := by norm_num
  have n5 : (5 : ℚ) ≠ 0 := by norm_num
  have n2 : (2 : ℚ) ≠ 0 := by norm_num
  unfold exp5Of exp2Of
  by_cases hc : c < 0
  · rcases hB with h | h | h | h <;> rcases heb with g | g <;> subst h <;> subst g <;>
      simp only [hc, if_true, and_true, beq_self_eq_true, Nat.reduceBEq, Bool.false_eq_true, if_false,
        or_true, or_false, and_false, Nat.cast_ofNat] <;>
      (try rw [t10]) <;> (try rw [t8]) <;> (try rw [t16]) <;>
      simp only [mul_zpow, zpow_add₀ n5, zpow_add₀ n2, ← zpow_mul, zpow_zero] <;> ring_nf
  · rcases hB with h | h | h | h <;> rcases heb with g | g <;> subst h <;> subst g <;>
      simp only [hc, if_false, false_and, and_false, beq_self_eq_true, Nat.reduceBEq, Bool.false_eq_true, if_true,
        Nat.cast_ofNat, zero_add, zpow_zero, one_mul] <;>
      (try rw [t10]) <;>
      simp only [mul_zpow]

/-- **value of the arithmetic tail**: when `ratTail` returns `n/d`, that fraction is exactly
    `± M · B^(−fraction digits) · eb^x` (`c < 0` is minus the number of fraction digits; `c ≥ 0` means none) -/
theorem ratTail_value (neg : Bool) (M B : Nat) (c : Int) (eb : Nat) (x : Int) (n : Int) (d : Nat)
    (hB : B = 10 ∨ B = 2 ∨ B = 8 ∨ B = 16) (heb : eb = 10 ∨ eb = 2)
    (h : ratTail neg M B c eb x = some (n, d)) :
    (n : ℚ) / (d : ℚ) =
      (if neg then -1 else 1) * (M : ℚ) * (B : ℚ) ^ (if c < 0 then c else 0) * (eb : ℚ) ^ x := by
  unfold ratTail at h
  by_cases h0 : (M == 0) = true
  · rw [if_pos h0] at h
    injection h with h; injection h with h1 h2
    have : M = 0 := by simpa using h0
    subst this; subst h1; subst h2
    simp
  · rw [if_neg h0] at h
    by_cases h1 : (exp5Of B c eb x).natAbs > 1000000
    · rw [if_pos h1] at h; cases h
    · rw [if_neg h1] at h
      by_cases h2 : (decide (exp2Of B c x < -10000000) || decide (exp2Of B c x > 10000000)) = true
      · rw [if_pos h2] at h; cases h
      · rw [if_neg h2] at h
        injection h with h; injection h with e1 e2
        have hv := num_den_value M (exp5Of B c eb x) (exp2Of B c x)
        have he := exp_value B c eb x hB heb
        rw [← e1, ← e2]
        cases neg
        · simp only [Bool.false_eq_true, if_false, one_mul]
          rw [Int.cast_natCast, hv, mul_assoc, he]; ring
        · simp only [if_true]
          rw [Int.cast_neg, Int.cast_natCast, neg_div, hv, mul_assoc, he]; ring

/-- the arithmetic tail refuses only by the limits `math/big` puts on the collected exponents -/
theorem ratTail_none_iff (neg : Bool) (M B : Nat) (c : Int) (eb : Nat) (x : Int) :
    ratTail neg M B c eb x = none ↔
      M ≠ 0 ∧ ((exp5Of B c eb x).natAbs > 1000000 ∨ exp2Of B c x < -10000000 ∨ exp2Of B c x > 10000000) := by
  unfold ratTail
  by_cases h0 : M = 0
  · subst h0; simp
  · have : (M == 0) = false := by simpa using h0
    rw [this]
    simp only [Bool.false_eq_true, if_false]
    by_cases h1 : (exp5Of B c eb x).natAbs > 1000000
    · rw [if_pos h1]; exact ⟨fun _ => ⟨h0, Or.inl h1⟩, fun _ => rfl⟩
    · rw [if_neg h1]
      by_cases h2 : exp2Of B c x < -10000000
      · simp [h2, h0]
      · by_cases h3 : exp2Of B c x > 10000000
        · simp [h3, h0]
        · simp [h1, h2, h3]

/-! ## the declarative exponent-form integer literal -/

theorem ratMant_base {mant : List Char} {B M : Nat} {c : Int} (h : RatMant mant B M c) :
    B = 10 ∨ B = 2 ∨ B = 8 ∨ B = 16 := by
  cases h with
  | pre p B t hp _ _ =>
    rcases hp with ⟨_, e⟩ | ⟨_, e⟩ | ⟨_, e⟩
    · exact Or.inr (Or.inl e)
    · exact Or.inr (Or.inr (Or.inl e))
    · exact Or.inr (Or.inr (Or.inr e))
  | dec _ _ _ _ => exact Or.inl rfl

theorem expPart_base {ex : List Char} {eb : Nat} {x : Int} (h : ExpPart ex eb x) : eb = 10 ∨ eb = 2 := by
  rcases h with ⟨_, e, _⟩ | ⟨_, _, _, hc, _⟩
  · exact Or.inl e
  · rcases hc with ⟨_, e⟩ | ⟨_, e⟩
    · exact Or.inl e
    · exact Or.inr e

/-- the limits `math/big` puts on the exponents it collects (none for a zero mantissa): the power of 5 is at most
    10^6 in magnitude, the power of 2 at most 10^7 -/
def WithinLimits (M B : Nat) (c : Int) (eb : Nat) (x : Int) : Prop :=
  M = 0 ∨ ((exp5Of B c eb x).natAbs ≤ 1000000 ∧ -10000000 ≤ exp2Of B c x ∧ exp2Of B c x ≤ 10000000)

/-- **exponent-form integer literal denoting `z`**: an optional sign, a mantissa (`RatMant`: base `B`, digits' value
    `M`, `c < 0` = minus the number of fraction digits), an exponent part (`ExpPart`: base `eb` ∈ {10, 2}, exponent
    `x`; `e`/`E` cannot follow a hexadecimal mantissa), within `math/big`'s exponent limits, whose exact rational
    value `± M · B^(−fraction digits) · eb^x` is the integer `z` -/
def IsExpIntLiteral (s : List Char) (z : Int) : Prop :=
  ∃ sg mant ex B M c eb x neg, s = sg ++ (mant ++ ex) ∧
    (((sg = [] ∨ sg = ['+']) ∧ neg = false) ∨ (sg = ['-'] ∧ neg = true)) ∧
    RatMant mant B M c ∧ ExpHead B ex ∧ ExpPart ex eb x ∧ WithinLimits M B c eb x ∧
    (z : ℚ) = (if neg then -1 else 1) * (M : ℚ) * (B : ℚ) ^ (if c < 0 then c else 0) * (eb : ℚ) ^ x

theorem exp_literal_iff (s : List Char) (z : Int) :
    (∃ n d, IsRatLiteral s n d ∧ n = z * d) ↔ IsExpIntLiteral s z := by
  constructor
  · rintro ⟨n, d, ⟨sg, mant, ex, B, M, c, eb, x, neg, hs, hsg, hm, hEH, hexp, hrt⟩, hz⟩
    refine ⟨sg, mant, ex, B, M, c, eb, x, neg, hs, hsg, hm, hEH, hexp, ?_, ?_⟩
    · have hne : ratTail neg M B c eb x ≠ none := by rw [hrt]; exact fun h => by cases h
      rw [Ne, ratTail_none_iff] at hne
      by_cases h0 : M = 0
      · exact Or.inl h0
      · right
        have := fun h => hne ⟨h0, h⟩
        omega
    · have hd := ratTail_den_pos _ _ _ _ _ _ _ _ hrt
      have hv := ratTail_value neg M B c eb x n d (ratMant_base hm) (expPart_base hexp) hrt
      rw [← hv, hz]
      have : (d : ℚ) ≠ 0 := by exact_mod_cast (by omega : d ≠ 0)
      push_cast
      rw [mul_div_assoc, div_self this, mul_one]
  · rintro ⟨sg, mant, ex, B, M, c, eb, x, neg, hs, hsg, hm, hEH, hexp, hlim, hz⟩
    have hne : ratTail neg M B c eb x ≠ none := by
      rw [Ne, ratTail_none_iff]
      rintro ⟨h0, h⟩
      rcases hlim with h1 | h1
      · exact h0 h1
      · omega
    obtain ⟨⟨n, d⟩, hrt⟩ := Option.ne_none_iff_exists'.mp hne
    refine ⟨n, d, ⟨sg, mant, ex, B, M, c, eb, x, neg, hs, hsg, hm, hEH, hexp, hrt⟩, ?_⟩
    have hd := ratTail_den_pos _ _ _ _ _ _ _ _ hrt
    have hv := ratTail_value neg M B c eb x n d (ratMant_base hm) (expPart_base hexp) hrt
    rw [← hz] at hv
    have hd' : (d : ℚ) ≠ 0 := by exact_mod_cast (by omega : d ≠ 0)
    have : (n : ℚ) = (z : ℚ) * (d : ℚ) := by
      rw [← hv, div_mul_cancel₀ _ hd']
    exact_mod_cast this

/-- **integer literal of `FromString`**: without `e`/`E` a plain literal; with `e`/`E` an exponent-form literal without `/` -/
def IsIntLiteral (s : List Char) (z : Int) : Prop :=
  (hasExpChar s = false ∧ IsPlainIntLiteral s z) ∨
  (hasExpChar s = true ∧ hasSlash s = false ∧ IsExpIntLiteral s z)

/-- **`parseToBigInt` accepts exactly the integer literals, with the denoted value** -/
theorem parseToBigInt_iff (s : List Char) (z : Int) : parseToBigInt s = some z ↔ IsIntLiteral s z := by
  unfold IsIntLiteral
  cases h : hasExpChar s
  · have : parseToBigInt s = bigIntSetString s := by unfold parseToBigInt; rw [h]; rfl
    rw [this, bigIntSetString_iff]
    simp
  · rw [parseToBigInt_exp_iff s z h, ← exp_literal_iff]
    simp only [Bool.true_eq_false, false_and, false_or, true_and]
    constructor
    · rintro ⟨h1, n, d, h2, h3⟩
      exact ⟨h1, n, d, (bigRatSetString_iff s n d).mp h2, h3⟩
    · rintro ⟨h1, n, d, h2, h3⟩
      exact ⟨h1, n, d, (bigRatSetString_iff s n d).mpr h2, h3⟩

end Conv
