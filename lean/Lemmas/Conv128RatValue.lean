import Mathlib.Algebra.Order.Field.Power
import Mathlib.Algebra.Order.Field.Rat
import Mathlib.Data.Rat.Cast.Lemmas
import Mathlib.Tactic.Ring
import Mathlib.Tactic.NormNum
import Lemmas.Conv128RatGrammar
/-! C02 helper lemmas, part 10 (uses Mathlib's `ℚ`): the arithmetic tail of `big.Rat.SetString` computes the exact value
    `± mantissa · base^(−fraction digits) · (10|2)^exponent`, and refuses only by its limits on the exponents. -/
namespace Conv

theorem pow_split (p : ℚ) (hp : p ≠ 0) (e : Int) :
    ((if e > 0 then p ^ e.toNat else 1) : ℚ) / (if e < 0 then p ^ (-e).toNat else 1) = p ^ e := by
  rcases lt_trichotomy e 0 with h | h | h
  · rw [if_neg (by omega), if_pos h]
    have : ((-e).toNat : Int) = -e := Int.toNat_of_nonneg (by omega)
    rw [← zpow_natCast, this, zpow_neg]; simp
  · subst h; simp
  · rw [if_pos h, if_neg (by omega)]
    have : (e.toNat : Int) = e := Int.toNat_of_nonneg (by omega)
    rw [← zpow_natCast, this]; simp

theorem num_den_value (M : Nat) (e5 e2 : Int) :
    ((numOf M e5 e2 : Nat) : ℚ) / ((denOf e5 e2 : Nat) : ℚ) = (M : ℚ) * (5 : ℚ) ^ e5 * (2 : ℚ) ^ e2 := by
  unfold numOf denOf
  have h5 := pow_split 5 (by norm_num) e5
  have h2 := pow_split 2 (by norm_num) e2
  push_cast
  rw [← h5, ← h2]
  have d5 : ((if e5 < 0 then (5:ℚ) ^ (-e5).toNat else 1) : ℚ) ≠ 0 := by split <;> positivity
  have d2 : ((if e2 < 0 then (2:ℚ) ^ (-e2).toNat else 1) : ℚ) ≠ 0 := by split <;> positivity
  field_simp

/-- the powers of 5 and 2 collected by `Rat.SetString` are `base^(−fraction digits) · ebase^exponent` -/
theorem exp_value (B : Nat) (c : Int) (eb : Nat) (x : Int) (hB : B = 10 ∨ B = 2 ∨ B = 8 ∨ B = 16)
    (heb : eb = 10 ∨ eb = 2) :
    (5 : ℚ) ^ (exp5Of B c eb x) * (2 : ℚ) ^ (exp2Of B c x) =
      (B : ℚ) ^ (if c < 0 then c else 0) * (eb : ℚ) ^ x := by
  have t10 : (10 : ℚ) = 5 * 2 := by norm_num
  have t8 : (8 : ℚ) = 2 ^ (3 : Int) := by norm_num
  have t16 : (16 : ℚ) = 2 ^ (4 : Int) := by norm_num
  have n5 : (5 : ℚ) ≠ 0 := by norm_num
  have n2 : (2 : ℚ) ≠ 0 := by norm_num
  unfold exp5Of exp2Of
  by_cases hc : c < 0
  · rcases hB with h | h | h | h <;> rcases heb with g | g <;> subst h <;> subst g <;>
      simp only [hc, if_true, true_and, and_true, beq_self_eq_true, Nat.reduceBEq, Bool.false_eq_true, if_false,
        or_true, true_or, or_false, false_or, and_false, Nat.cast_ofNat] <;>
      (try rw [t10]) <;> (try rw [t8]) <;> (try rw [t16]) <;>
      simp only [mul_zpow, zpow_add₀ n5, zpow_add₀ n2, ← zpow_mul, zpow_zero] <;> ring_nf
  · rcases hB with h | h | h | h <;> rcases heb with g | g <;> subst h <;> subst g <;>
      simp only [hc, if_false, false_and, and_false, beq_self_eq_true, Nat.reduceBEq, Bool.false_eq_true, if_true,
        Nat.cast_ofNat, zero_add, zpow_zero, one_mul] <;>
      (try rw [t10]) <;>
      simp only [mul_zpow, zpow_zero, one_mul]

end Conv
