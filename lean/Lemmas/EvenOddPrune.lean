import Lemmas.EvenOdd
import Lemmas.EvenOddOutside
import Lemmas.EvenOddEmpty

/-! C05: the bounding-box pruning step of the clipper.  Under the even-odd rule a polygon is the symmetric difference of
    its contours (`inside_cons`); a point inside a contour lies in the contour's closed bounding box (`insideC_box`, the
    left side by the parity argument); hence a contour whose box is disjoint from the boxes of all contours of the other
    operand contains no point of the other operand's region and can be dropped for Intersect (both sides) and Sub
    (argument side) without changing the combined region anywhere (`pruneOK_sound`). -/

namespace EOQ

theorem allEdges_cons {α : Type} (c : List α) (P : List (List α)) :
    EO.allEdges (c :: P) = EO.edgesOf c ++ EO.allEdges P := by
  unfold EO.allEdges; rw [List.flatMap_cons]

theorem allEdges_single {α : Type} (c : List α) : EO.allEdges [c] = EO.edgesOf c := by
  unfold EO.allEdges; simp

theorem crossCount_cons (c : QContour) (P : QPolygon) (p : QPt) :
    crossCount (c :: P) p = crossCount [c] p + crossCount P p := by
  unfold crossCount
  rw [allEdges_cons, allEdges_single, List.countP_append]

/-- even-odd: a polygon is the symmetric difference of its contours -/
theorem inside_cons (c : QContour) (P : QPolygon) (p : QPt) :
    inside (c :: P) p ↔ ¬ (inside [c] p ↔ inside P p) := by
  unfold inside
  rw [crossCount_cons]
  omega

theorem not_inside_nil (p : QPt) : ¬ inside [] p := by
  unfold inside crossCount EO.allEdges; simp

theorem exists_insideC (P : QPolygon) (p : QPt) (h : inside P p) : ∃ c ∈ P, inside [c] p := by
  induction P with
  | nil => exact absurd h (not_inside_nil p)
  | cons c P ih =>
    by_cases hc : inside [c] p
    · exact ⟨c, List.mem_cons_self, hc⟩
    · rw [inside_cons] at h
      have hP : inside P p := by
        by_contra hn
        exact h ⟨fun a => absurd a hc, fun a => absurd a hn⟩
      obtain ⟨d, hd, hdi⟩ := ih hP
      exact ⟨d, List.mem_cons_of_mem _ hd, hdi⟩

/-- a point inside a single contour lies in its closed bounding box (left side: the parity argument) -/
theorem insideC_box (c : QContour) (p : QPt) (h : inside [c] p) :
    (∃ u ∈ c, u.x ≤ p.x) ∧ (∃ u ∈ c, p.x < u.x) ∧ (∃ u ∈ c, u.y ≤ p.y) ∧ (∃ u ∈ c, p.y < u.y) := by
  obtain ⟨e, he, hc⟩ := exists_crossed_of_inside [c] p h
  rw [allEdges_single] at he
  obtain ⟨h1, h2⟩ := mem_edgesOf c e he
  have hx := crosses_lt_max e.1 e.2 p hc
  obtain ⟨hy1, hy2⟩ := crosses_y_range e.1 e.2 p hc
  refine ⟨?_, ?_, ?_, ?_⟩
  · by_contra hn
    push Not at hn
    apply not_inside_of_left [c] p _ h
    intro f hf
    rw [allEdges_single] at hf
    obtain ⟨f1, f2⟩ := mem_edgesOf c f hf
    exact ⟨hn f.1 f1, hn f.2 f2⟩
  · rcases lt_max_iff.mp hx with h' | h'
    · exact ⟨e.1, h1, h'⟩
    · exact ⟨e.2, h2, h'⟩
  · rcases min_le_iff.mp hy1 with h' | h'
    · exact ⟨e.1, h1, h'⟩
    · exact ⟨e.2, h2, h'⟩
  · rcases lt_max_iff.mp hy2 with h' | h'
    · exact ⟨e.1, h1, h'⟩
    · exact ⟨e.2, h2, h'⟩

/-- the contours are weakly separated by a vertical or a horizontal line (boxes may touch) -/
def SepQ (c d : QContour) : Prop :=
  (∀ u ∈ c, ∀ v ∈ d, u.x ≤ v.x) ∨ (∀ u ∈ c, ∀ v ∈ d, v.x ≤ u.x) ∨
  (∀ u ∈ c, ∀ v ∈ d, u.y ≤ v.y) ∨ (∀ u ∈ c, ∀ v ∈ d, v.y ≤ u.y)

/-- no point is inside both of two contours whose bounding boxes are disjoint -/
theorem sep_not_both (c d : QContour) (h : SepQ c d) (p : QPt) : ¬ (inside [c] p ∧ inside [d] p) := by
  rintro ⟨hc, hd⟩
  obtain ⟨⟨u1, hu1, a1⟩, ⟨u2, hu2, a2⟩, ⟨u3, hu3, a3⟩, ⟨u4, hu4, a4⟩⟩ := insideC_box c p hc
  obtain ⟨⟨v1, hv1, b1⟩, ⟨v2, hv2, b2⟩, ⟨v3, hv3, b3⟩, ⟨v4, hv4, b4⟩⟩ := insideC_box d p hd
  rcases h with h | h | h | h
  · have := h u2 hu2 v1 hv1; linarith
  · have := h u1 hu1 v2 hv2; linarith
  · have := h u4 hu4 v3 hv3; linarith
  · have := h u3 hu3 v4 hv4; linarith

/-- `pred` holds for every flagged entry -/
def FlaggedAll {α : Type} (pred : α → Prop) : List Bool → List α → Prop
  | f :: fs, c :: cs => (f = true → pred c) ∧ FlaggedAll pred fs cs
  | _, _ => True

theorem flaggedAll_imp {α : Type} (p q : α → Prop) (fs : List Bool) (l : List α) (hpq : ∀ c ∈ l, p c → q c)
    (h : FlaggedAll p fs l) : FlaggedAll q fs l := by
  induction l generalizing fs with
  | nil => cases fs <;> trivial
  | cons c cs ih =>
    cases fs with
    | nil => trivial
    | cons f fs =>
      exact ⟨fun hf => hpq c List.mem_cons_self (h.1 hf),
        ih fs (fun d hd => hpq d (List.mem_cons_of_mem _ hd)) h.2⟩

theorem mem_keep {α : Type} (fs : List Bool) (l : List α) (c : α) (h : c ∈ EO.keep fs l) : c ∈ l := by
  induction l generalizing fs with
  | nil => cases fs <;> simp [EO.keep] at h
  | cons a t ih =>
    cases fs with
    | nil => simpa [EO.keep] using h
    | cons f fs =>
      cases f with
      | true => simp only [EO.keep, if_true] at h; exact List.mem_cons_of_mem _ (ih fs h)
      | false =>
        simp only [EO.keep, Bool.false_eq_true, if_false, List.mem_cons] at h
        rcases h with h | h
        · rw [h]; exact List.mem_cons_self
        · exact List.mem_cons_of_mem _ (ih fs h)

theorem keep_map {α β : Type} (g : α → β) (fs : List Bool) (l : List α) :
    EO.keep fs (l.map g) = (EO.keep fs l).map g := by
  induction l generalizing fs with
  | nil => cases fs <;> simp [EO.keep]
  | cons a t ih =>
    cases fs with
    | nil => simp [EO.keep]
    | cons f fs => cases f <;> simp [EO.keep, ih]

/-- dropping contours that do not contain `p` does not change the even-odd test at `p` -/
theorem inside_keep (fs : List Bool) (P : QPolygon) (p : QPt) (h : FlaggedAll (fun c => ¬ inside [c] p) fs P) :
    inside (EO.keep fs P) p ↔ inside P p := by
  induction P generalizing fs with
  | nil => cases fs <;> simp [EO.keep]
  | cons c cs ih =>
    cases fs with
    | nil => simp [EO.keep]
    | cons f fs =>
      cases f with
      | true =>
        simp only [EO.keep, if_true]
        rw [ih fs h.2, inside_cons]
        have hc := h.1 rfl
        constructor
        · intro hi hiff; exact hc (hiff.mpr hi)
        · intro hn; by_contra hi; exact hn ⟨fun a => absurd a hc, fun a => absurd a hi⟩
      | false =>
        simp only [EO.keep, Bool.false_eq_true, if_false]
        rw [inside_cons c (EO.keep fs cs), inside_cons c cs, ih fs h.2]

/-- if `p` is inside some contour of `B`, the contours of `A` that are far from `B` can be dropped at `p` -/
theorem keep_of_witness (A B : QPolygon) (fa : List Bool) (p : QPt)
    (hA : FlaggedAll (fun c => ∀ d ∈ B, SepQ c d) fa A) (hw : ∃ d ∈ B, inside [d] p) :
    inside (EO.keep fa A) p ↔ inside A p := by
  obtain ⟨d, hd, hdi⟩ := hw
  apply inside_keep
  apply flaggedAll_imp _ _ fa A _ hA
  intro c _ hsep hci
  exact sep_not_both c d (hsep d hd) p ⟨hci, hdi⟩

theorem sepQ_symm (c d : QContour) (h : SepQ c d) : SepQ d c := by
  rcases h with h | h | h | h
  · exact Or.inr (Or.inl fun v hv u hu => h u hu v hv)
  · exact Or.inl fun v hv u hu => h u hu v hv
  · exact Or.inr (Or.inr (Or.inr fun v hv u hu => h u hu v hv))
  · exact Or.inr (Or.inr (Or.inl fun v hv u hu => h u hu v hv))

theorem witness_of_inside_keep (fs : List Bool) (P : QPolygon) (p : QPt) (h : inside (EO.keep fs P) p) :
    ∃ c ∈ P, inside [c] p := by
  obtain ⟨c, hc, hi⟩ := exists_insideC _ p h
  exact ⟨c, mem_keep fs P c hc, hi⟩

/-- pruning for Intersect -/
theorem prune_inter (A B : QPolygon) (fa fb : List Bool) (p : QPt)
    (hA : FlaggedAll (fun c => ∀ d ∈ B, SepQ c d) fa A) (hB : FlaggedAll (fun d => ∀ c ∈ A, SepQ d c) fb B) :
    (inside A p ∧ inside B p) ↔ (inside (EO.keep fa A) p ∧ inside (EO.keep fb B) p) := by
  constructor
  · rintro ⟨ha, hb⟩
    exact ⟨(keep_of_witness A B fa p hA (exists_insideC B p hb)).mpr ha,
      (keep_of_witness B A fb p hB (exists_insideC A p ha)).mpr hb⟩
  · rintro ⟨ha, hb⟩
    exact ⟨(keep_of_witness A B fa p hA (witness_of_inside_keep fb B p hb)).mp ha,
      (keep_of_witness B A fb p hB (witness_of_inside_keep fa A p ha)).mp hb⟩

/-- pruning for Sub (only contours of the argument are dropped) -/
theorem prune_sub (A B : QPolygon) (fb : List Bool) (p : QPt)
    (hB : FlaggedAll (fun d => ∀ c ∈ A, SepQ d c) fb B) :
    (inside A p ∧ ¬ inside B p) ↔ (inside A p ∧ ¬ inside (EO.keep fb B) p) := by
  constructor
  · rintro ⟨ha, hb⟩
    exact ⟨ha, fun h => hb ((keep_of_witness B A fb p hB (exists_insideC A p ha)).mp h)⟩
  · rintro ⟨ha, hb⟩
    exact ⟨ha, fun h => hb ((keep_of_witness B A fb p hB (exists_insideC A p ha)).mpr h)⟩

/-! ### from the executable checks -/

theorem sepPts_sound (c d : EO.Contour) (h : EO.sepPts c d = true) : SepQ (c.map toQ) (d.map toQ) := by
  unfold EO.sepPts at h
  simp only [Bool.or_eq_true, List.all_eq_true, decide_eq_true_eq] at h
  unfold SepQ
  simp only [List.mem_map, forall_exists_index, and_imp, forall_apply_eq_imp_iff₂, toQ]
  rcases h with ((h | h) | h) | h
  · exact Or.inl fun u hu v hv => by exact_mod_cast h u hu v hv
  · exact Or.inr (Or.inl fun u hu v hv => by exact_mod_cast h u hu v hv)
  · exact Or.inr (Or.inr (Or.inl fun u hu v hv => by exact_mod_cast h u hu v hv))
  · exact Or.inr (Or.inr (Or.inr fun u hu v hv => by exact_mod_cast h u hu v hv))

theorem flaggedFar_sound (fs : List Bool) (P Q : EO.Polygon) (h : EO.flaggedFar fs P Q = true) :
    FlaggedAll (fun c => ∀ d ∈ polyQ Q, SepQ c d) fs (polyQ P) := by
  induction P generalizing fs with
  | nil => cases fs <;> trivial
  | cons c cs ih =>
    cases fs with
    | nil => trivial
    | cons f fs =>
      simp only [EO.flaggedFar, Bool.and_eq_true, Bool.or_eq_true, Bool.not_eq_true'] at h
      refine ⟨?_, ih fs h.2⟩
      intro hf d hd
      rcases h.1 with h1 | h1
      · rw [hf] at h1; cases h1
      · unfold polyQ at hd
        rw [List.mem_map] at hd
        obtain ⟨d0, hd0, rfl⟩ := hd
        unfold EO.farFrom at h1
        rw [List.all_eq_true] at h1
        exact sepPts_sound c d0 (h1 d0 hd0)

theorem keep_noflag {α : Type} (fs : List Bool) (l : List α) (h : fs.any id = false) : EO.keep fs l = l := by
  induction l generalizing fs with
  | nil => cases fs <;> simp [EO.keep]
  | cons a t ih =>
    cases fs with
    | nil => simp [EO.keep]
    | cons f fs =>
      simp only [List.any_cons, id, Bool.or_eq_false_iff] at h
      rw [EO.keep, h.1]; simp [ih fs h.2]

theorem polyQ_keep (fs : List Bool) (P : EO.Polygon) : polyQ (EO.keep fs P) = EO.keep fs (polyQ P) := by
  unfold polyQ; rw [keep_map]

/-- **soundness of the pruning check** -/
theorem pruneOK_sound (op : EO.Op) (A B : EO.Polygon) (fa fb : List Bool) (h : EO.pruneOK op A B fa fb = true)
    (p : QPt) :
    holds op (inside (polyQ A) p) (inside (polyQ B) p) ↔
      holds op (inside (polyQ (EO.keep fa A)) p) (inside (polyQ (EO.keep fb B)) p) := by
  cases op with
  | inter =>
    simp only [EO.pruneOK, Bool.and_eq_true] at h
    rw [polyQ_keep, polyQ_keep]
    exact prune_inter _ _ fa fb p (flaggedFar_sound fa A B h.1) (flaggedFar_sound fb B A h.2)
  | sub =>
    simp only [EO.pruneOK, Bool.and_eq_true, Bool.not_eq_true'] at h
    rw [keep_noflag fa A h.1, polyQ_keep]
    exact prune_sub _ _ fb p (flaggedFar_sound fb B A h.2)
  | union =>
    simp only [EO.pruneOK, Bool.and_eq_true, Bool.not_eq_true'] at h
    rw [keep_noflag fa A h.1, keep_noflag fb B h.2]
  | xor =>
    simp only [EO.pruneOK, Bool.and_eq_true, Bool.not_eq_true'] at h
    rw [keep_noflag fa A h.1, keep_noflag fb B h.2]

/-- the shortcut of `Polygon.construct` is taken only where the combined region is empty at every point -/
theorem shortCircuit_sound (op : EO.Op) (A B : EO.Polygon) (h : EO.shortCircuit op A B = true) (p : QPt) :
    ¬ holds op (inside (polyQ A) p) (inside (polyQ B) p) := by
  unfold EO.shortCircuit at h
  simp only [Bool.or_eq_true, Bool.and_eq_true, List.isEmpty_iff, beq_iff_eq] at h
  have n := not_inside_nil p
  rcases h with (⟨hA, hB⟩ | ⟨hA, _⟩) | ⟨hB, ho⟩
  · subst hA; subst hB; cases op <;> simp [holds, polyQ, n]
  · subst hA
    rcases ‹op = EO.Op.inter ∨ op = EO.Op.sub› with ho | ho <;> subst ho <;> simp [holds, polyQ, n]
  · subst hB; subst ho; simp [holds, polyQ, n]

/-! ### the pruning rule as the code writes it -/

theorem minOf_le (f : EO.Pt → Int) (v : EO.Pt) (t : List EO.Pt) :
    EO.minOf f v t ≤ f v ∧ ∀ u ∈ t, EO.minOf f v t ≤ f u := by
  unfold EO.minOf
  suffices h : ∀ (t : List EO.Pt) (m0 : Int),
      t.foldl (fun m u => if f u < m then f u else m) m0 ≤ m0 ∧
      ∀ u ∈ t, t.foldl (fun m u => if f u < m then f u else m) m0 ≤ f u from h t (f v)
  intro t
  induction t with
  | nil => intro m0; simp
  | cons a t ih =>
    intro m0
    simp only [List.foldl_cons, List.mem_cons, forall_eq_or_imp]
    have hm : (if f a < m0 then f a else m0) ≤ m0 ∧ (if f a < m0 then f a else m0) ≤ f a := by split <;> omega
    generalize (if f a < m0 then f a else m0) = m1 at hm
    obtain ⟨h1, h2⟩ := ih m1
    exact ⟨by omega, by omega, h2⟩

theorem le_maxOf (f : EO.Pt → Int) (v : EO.Pt) (t : List EO.Pt) :
    f v ≤ EO.maxOf f v t ∧ ∀ u ∈ t, f u ≤ EO.maxOf f v t := by
  unfold EO.maxOf
  suffices h : ∀ (t : List EO.Pt) (m0 : Int),
      m0 ≤ t.foldl (fun m u => if f u > m then f u else m) m0 ∧
      ∀ u ∈ t, f u ≤ t.foldl (fun m u => if f u > m then f u else m) m0 from h t (f v)
  intro t
  induction t with
  | nil => intro m0; simp
  | cons a t ih =>
    intro m0
    simp only [List.foldl_cons, List.mem_cons, forall_eq_or_imp]
    have hm : m0 ≤ (if f a > m0 then f a else m0) ∧ f a ≤ (if f a > m0 then f a else m0) := by split <;> omega
    generalize (if f a > m0 then f a else m0) = m1 at hm
    obtain ⟨h1, h2⟩ := ih m1
    exact ⟨by omega, by omega, h2⟩

/-- every vertex lies in the half-open box `Contour.Bounds` computes -/
theorem mem_boundsOf (one : Int) (c : EO.Contour) (u : EO.Pt) (hu : u ∈ c) :
    (EO.boundsOf one c).x ≤ u.x ∧ u.x + one ≤ (EO.boundsOf one c).x + (EO.boundsOf one c).w ∧
    (EO.boundsOf one c).y ≤ u.y ∧ u.y + one ≤ (EO.boundsOf one c).y + (EO.boundsOf one c).h := by
  cases c with
  | nil => cases hu
  | cons v t =>
    simp only [EO.boundsOf]
    have a1 := minOf_le (·.x) v t
    have a2 := le_maxOf (·.x) v t
    have a3 := minOf_le (·.y) v t
    have a4 := le_maxOf (·.y) v t
    rw [List.mem_cons] at hu
    rcases hu with rfl | hu
    · refine ⟨a1.1, ?_, a3.1, ?_⟩
      · have := a2.1; omega
      · have := a4.1; omega
    · refine ⟨a1.2 u hu, ?_, a3.2 u hu, ?_⟩
      · have := a2.2 u hu; omega
      · have := a4.2 u hu; omega

/-- boxes that `Rect.Intersects` reports as not intersecting belong to weakly separated contours -/
theorem not_intersects_sep (one : Int) (h1 : 0 < one) (c d : EO.Contour)
    (h : (EO.boundsOf one c).intersects (EO.boundsOf one d) = false) :
    EO.sepPts c d = true ∧ EO.sepPts d c = true := by
  cases c with
  | nil => simp [EO.sepPts]
  | cons v t =>
    cases d with
    | nil => simp [EO.sepPts]
    | cons w s =>
      have hc := mem_boundsOf one (v :: t)
      have hd := mem_boundsOf one (w :: s)
      have hv := hc v List.mem_cons_self
      have hw := hd w List.mem_cons_self
      generalize EO.boundsOf one (v :: t) = r at *
      generalize EO.boundsOf one (w :: s) = o at *
      unfold EO.Rect.intersects EO.Rect.isEmpty at h
      have e1 : ¬ (r.w ≤ 0) := by omega
      have e2 : ¬ (r.h ≤ 0) := by omega
      have e3 : ¬ (o.w ≤ 0) := by omega
      have e4 : ¬ (o.h ≤ 0) := by omega
      simp only [e1, e2, e3, e4, decide_false, Bool.or_self, Bool.false_eq_true, if_false, Bool.and_eq_false_iff,
        decide_eq_false_iff_not] at h
      unfold EO.sepPts
      simp only [Bool.or_eq_true, List.all_eq_true, decide_eq_true_eq]
      rcases h with ((h | h) | h) | h
      · -- o.x + o.w ≤ r.x : d left of c
        constructor
        · left; left; right
          intro a ha b hb; have := hc a ha; have := hd b hb; omega
        · left; left; left
          intro b hb a ha; have := hc a ha; have := hd b hb; omega
      · constructor
        · right
          intro a ha b hb; have := hc a ha; have := hd b hb; omega
        · left; right
          intro b hb a ha; have := hc a ha; have := hd b hb; omega
      · constructor
        · left; left; left
          intro a ha b hb; have := hc a ha; have := hd b hb; omega
        · left; left; right
          intro b hb a ha; have := hc a ha; have := hd b hb; omega
      · constructor
        · left; right
          intro a ha b hb; have := hc a ha; have := hd b hb; omega
        · right
          intro b hb a ha; have := hc a ha; have := hd b hb; omega

theorem flaggedFar_map (P Q : EO.Polygon) (f : EO.Contour → Bool)
    (hf : ∀ c ∈ P, f c = true → EO.farFrom c Q = true) : EO.flaggedFar (P.map f) P Q = true := by
  induction P with
  | nil => rfl
  | cons c cs ih =>
    simp only [List.map_cons, EO.flaggedFar, Bool.and_eq_true, Bool.or_eq_true, Bool.not_eq_true']
    refine ⟨?_, ih fun d hd => hf d (List.mem_cons_of_mem _ hd)⟩
    cases hfc : f c
    · left; rfl
    · right; exact hf c List.mem_cons_self hfc

theorem any_map_false {α : Type} (l : List α) : (l.map fun _ => false).any id = false := by
  induction l with
  | nil => rfl
  | cons a t ih => simp

theorem flaggedFar_noflag (P Q : EO.Polygon) : EO.flaggedFar (P.map fun _ => false) P Q = true :=
  flaggedFar_map P Q (fun _ => false) (fun _ _ h => by cases h)

/-- **the pruning rule of the code is sound**: in exact arithmetic the flags `identifyNonContributingContours`
    computes always pass `EO.pruneOK` -/
theorem nonContributing_pruneOK (one : Int) (h1 : 0 < one) (op : EO.Op) (A B : EO.Polygon) :
    EO.pruneOK op A B (EO.nonContributing one op A B).1 (EO.nonContributing one op A B).2 = true := by
  have hclip : EO.flaggedFar
      (B.map fun c => !(A.any fun s => (EO.boundsOf one s).intersects (EO.boundsOf one c))) B A = true := by
    apply flaggedFar_map
    intro c _ hc
    simp only [Bool.not_eq_true', List.any_eq_false, Bool.not_eq_true] at hc
    unfold EO.farFrom
    rw [List.all_eq_true]
    intro s hs
    exact (not_intersects_sep one h1 s c (hc s hs)).2
  have hsubj : EO.flaggedFar
      (A.map fun s => !(B.any fun c => (EO.boundsOf one s).intersects (EO.boundsOf one c))) A B = true := by
    apply flaggedFar_map
    intro s _ hs
    simp only [Bool.not_eq_true', List.any_eq_false, Bool.not_eq_true] at hs
    unfold EO.farFrom
    rw [List.all_eq_true]
    intro c hc
    exact (not_intersects_sep one h1 s c (hs c hc)).1
  unfold EO.nonContributing
  split
  · rename_i hcond
    cases op with
    | inter => simp only [EO.pruneOK, beq_self_eq_true, if_true, Bool.and_eq_true]; exact ⟨hsubj, hclip⟩
    | sub =>
      simp only [EO.pruneOK, Bool.and_eq_true, Bool.not_eq_true']
      refine ⟨?_, hclip⟩
      have : (EO.Op.sub == EO.Op.inter) = false := by decide
      simp only [this, Bool.false_eq_true, if_false]
      exact any_map_false A
    | union => simp at hcond
    | xor => simp at hcond
  · cases op with
    | inter => simp only [EO.pruneOK, Bool.and_eq_true]; exact ⟨flaggedFar_noflag A B, flaggedFar_noflag B A⟩
    | sub =>
      simp only [EO.pruneOK, Bool.and_eq_true, Bool.not_eq_true']; exact ⟨any_map_false A, flaggedFar_noflag B A⟩
    | union => simp only [EO.pruneOK, Bool.and_eq_true, Bool.not_eq_true']; exact ⟨any_map_false A, any_map_false B⟩
    | xor => simp only [EO.pruneOK, Bool.and_eq_true, Bool.not_eq_true']; exact ⟨any_map_false A, any_map_false B⟩

end EOQ
