import Lemmas.Conv128AsFloatUlp
/-! C02 float lemmas, part 7 (core Lean only): the one-ulp bound of `AsFloat64` with the unit in the last place of the
    *exact value's* binade (`2^k` for `2^(52+k) ≤ x < 2^(53+k)`), which is the stricter reading: it differs from the
    unit of the result only when the result is rounded up to a power of two. -/
namespace Conv
open GoSem GoSem.F64

/-- the three roundings of `AsFloat64` when `hi ≠ 0`, as facts on natural numbers: `Xh` is the value of `float64(hi)`,
    `L` that of `float64(lo)`, and the result `m·2^e` is the rounding of `Xh·2^64 + L` in its binade `ts` -/
theorem U128.asFloat64_shape (u : U128) (hhi : u.hi.toNat ≠ 0) :
    ∃ mh eh Xh L ts m e,
      ((u.hi.toNat < 2^53 ∧ Xh = u.hi.toNat) ∨
       (∃ th, 1 ≤ th ∧ 2^(52 + th) ≤ u.hi.toNat ∧ u.hi.toNat < 2^(53 + th) ∧ Rnd u.hi.toNat th mh eh ∧
          Xh = mh * 2^eh.toNat)) ∧
      1 ≤ Xh ∧ Xh ≤ 2^64 ∧
      L ≤ u.lo.toNat + 2^10 ∧ u.lo.toNat ≤ L + 2^10 ∧ L ≤ 2^64 ∧
      u.asFloat64 = .fin false m e ∧
      2^(52 + ts) ≤ Xh * 2^64 + L ∧ Xh * 2^64 + L < 2^(53 + ts) ∧ Rnd (Xh * 2^64 + L) ts m e := by
  have hh := u.hi.isLt; have hl := u.lo.isLt
  unfold U128.asFloat64
  rw [bv_eq_zero_iff, decide_eq_false hhi, if_neg (by simp)]
  obtain ⟨mh, eh, Xh, hrh, mh1, mh2, eh1, eh2, hnh, hch⟩ :=
    nat_round u.hi.toNat (by omega) (Nat.lt_trans hh (by decide))
  obtain ⟨ml, el, L, hrl, hnl, L1, L2, L3, _⟩ := lo_round u.lo.toNat hl
  have hprod : F64.mul (F64.ofNat u.hi.toNat) wrapUint64Float = .fin false mh (eh + 64) := by
    show F64.mul (ofRat false u.hi.toNat 1) (.fin false (2^52) 12) = _
    rw [hrh]; exact mul_two64 mh eh mh1 mh2 (by omega) (by omega)
  have hsh := shift64 mh eh Xh (by omega) hnh
  have hnp : num mh (eh + 64) = Xh * 2^64 * den (eh + 64) := by
    rw [num_nonneg mh (eh + 64) (by omega), hsh]
  have hX1 : 1 ≤ Xh ∧ Xh ≤ 2^64 := by
    rcases hch with ⟨hs, hx⟩ | ⟨t, t1, b1, b2, hR, hx⟩
    · omega
    · obtain ⟨_, _, _, _, _, _, v3, v4⟩ := hR.val
      rw [← hx] at v3 v4
      have tl : 52 + t < 64 := lt_of_pow_lt (Nat.lt_of_le_of_lt b1 hh)
      have p2 : 2^(53 + t) ≤ 2^64 := Nat.pow_le_pow_right (by decide) (by omega)
      have := pow_pos' (52 + t)
      omega
  rw [hprod, hrl, add_nat mh ml (eh + 64) el (Xh * 2^64) L hnp hnl (by omega)]
  have s1 : 2^64 ≤ Xh * 2^64 + L := by omega
  have s2 : Xh * 2^64 + L < 2^200 := by omega
  obtain ⟨ts, b1, b2⟩ := binade (Xh * 2^64 + L) (by omega)
  have tu : 52 + ts < 200 := lt_of_pow_lt (Nat.lt_of_le_of_lt b1 s2)
  obtain ⟨m, e, hr, hR⟩ := ofRat_nat_round (Xh * 2^64 + L) ts b1 b2 (by omega)
  exact ⟨mh, eh, Xh, L, ts, m, e, hch, hX1.1, hX1.2, L1, L2, L3, hr, b1, b2, hR⟩

/-- `float64(hi)` exact (`hi < 2^53`): error of `float64(lo)` plus the last rounding, against the unit of the value -/
theorem ulp_value_small (H lo L ts k m : Nat) (e : Int) (hH : 2^64 ≤ H)
    (L1 : L ≤ lo + 2^10) (L2 : lo ≤ L + 2^10)
    (b1 : 2^(52 + ts) ≤ H + L) (b2 : H + L < 2^(53 + ts))
    (_v1 : 2^(52 + k) ≤ H + lo) (v2 : H + lo < 2^(53 + k)) (hR : Rnd (H + L) ts m e) :
    m * 2^e.toNat ≤ H + lo + 2^k ∧ H + lo ≤ m * 2^e.toNat + 2^k := by
  have hv := hR.val
  have k12 : 64 < 53 + k := lt_of_pow_lt (Nat.lt_of_le_of_lt (Nat.le_trans hH (Nat.le_add_right _ _)) v2)
  have pk : 2^12 ≤ 2^k := Nat.pow_le_pow_right (by decide) (by omega)
  by_cases hts : ts ≤ k
  · -- the sum is in the binade of the value or below: half a unit plus 2^10
    have pt : 2^ts ≤ 2^k := Nat.pow_le_pow_right (by decide) hts
    obtain ⟨_, _, _, _, w1, w2, _, _⟩ := hv
    omega
  · -- the sum crossed the power of two above the value: it is rounded down to that power exactly
    have h1 : 2^(52 + (k + 1)) ≤ 2^(52 + ts) := Nat.pow_le_pow_right (by decide) (by omega)
    have e53 : 52 + (k + 1) = 53 + k := by omega
    rw [e53] at h1
    have h2 : 2^(54 + k) = 2 * 2^(53 + k) := by
      rw [show 54 + k = (53 + k) + 1 by omega, Nat.pow_succ]; omega
    have h3 : 2^(53 + k) = 2^53 * 2^k := Nat.pow_add ..
    have hlt : 52 + ts < 54 + k := lt_of_pow_lt (by omega : 2^(52 + ts) < 2^(54 + k))
    have ets : ts = k + 1 := by omega
    subst ets
    have hP : 2^(k + 1) = 2 * 2^k := by rw [Nat.pow_succ]; omega
    have hb : 2^(52 + (k + 1)) = 2^52 * 2^(k + 1) := Nat.pow_add ..
    have hp := pow_pos' (k + 1)
    obtain ⟨hm1, hm2, q', hc, hq⟩ := hR
    have hq1 : 2^52 ≤ (H + L) / 2^(k + 1) := by
      rw [Nat.le_div_iff_mul_le hp, ← hb]; exact b1
    have hq2 : (H + L) / 2^(k + 1) < 2^52 + 1 := by
      rw [Nat.div_lt_iff_lt_mul hp, Nat.add_mul, Nat.one_mul, ← hb]; omega
    have hqe : (H + L) / 2^(k + 1) = 2^52 := by omega
    have hdm := Nat.div_add_mod (H + L) (2^(k + 1))
    rw [hqe] at hdm hq
    have hr : (H + L) % 2^(k + 1) < 2^10 + 1 := by omega
    rcases hq with ⟨q1, _, _⟩ | ⟨_, q2, _⟩
    · rcases hc with ⟨c1, c2⟩ | ⟨_, _, c3⟩
      · have et : e.toNat = k + 1 := by omega
        rw [et, c2, q1]
        omega
      · omega
    · omega

/-- `float64(hi)` inexact (`2^53 ≤ hi`): against the unit `2^th · 2^64` of the value -/
theorem ulp_value_big (hi lo L th mh : Nat) (eh : Int) (m : Nat) (e : Int)
    (hlo : lo < 2^64) (hL1 : L ≤ lo + 2^10) (hL2 : lo ≤ L + 2^10) (hL3 : L ≤ 2^64)
    (th1 : 1 ≤ th) (hRh : Rnd hi th mh eh)
    (hR : Rnd (mh * 2^eh.toNat * 2^64 + L) (eh.toNat + 64) m e) :
    m * 2^e.toNat ≤ hi * 2^64 + lo + 2^th * 2^64 ∧ hi * 2^64 + lo ≤ m * 2^e.toNat + 2^th * 2^64 := by
  have hvh := hRh.val
  obtain ⟨hmh1, hmh2, qh, hch, hqh⟩ := hRh
  obtain ⟨hm1, hm2, q', hc, hq⟩ := hR
  obtain ⟨eh0, eh1, eh2, pe, v1, v2, _, _⟩ := hvh
  have hU : 2^(eh.toNat + 64) = 2^eh.toNat * 2^64 := Nat.pow_add ..
  have ehn : 1 ≤ eh.toNat := by omega
  have pU : 2^1 ≤ 2^eh.toNat := Nat.pow_le_pow_right (by decide) ehn
  have pth : 2^1 ≤ 2^th := Nat.pow_le_pow_right (by decide) th1
  have hlt : L < 2^(eh.toNat + 64) := by rw [hU]; omega
  have hs : mh * 2^eh.toNat * 2^64 + L = L + mh * 2^(eh.toNat + 64) := by
    rw [hU, Nat.mul_assoc, Nat.add_comm]
  have hdiv : (mh * 2^eh.toNat * 2^64 + L) / 2^(eh.toNat + 64) = mh := by
    rw [hs, Nat.add_mul_div_right _ _ (pow_pos' _), Nat.div_eq_of_lt hlt, Nat.zero_add]
  have hmod : (mh * 2^eh.toNat * 2^64 + L) % 2^(eh.toNat + 64) = L := by
    rw [hs, Nat.add_mul_mod_self_right, Nat.mod_eq_of_lt hlt]
  rw [hdiv, hmod] at hq
  rcases hq with ⟨q1, q2, _⟩ | ⟨q1, q2, q3⟩
  · rcases hc with ⟨c1, c2⟩ | ⟨_, _, c3⟩
    · have et : e.toNat = eh.toNat + 64 := by omega
      rw [et, hU, c2, q1, ← Nat.mul_assoc]
      omega
    · omega
  · have hle : 2^(eh.toNat + 64) ≤ 2^65 := by omega
    have : eh.toNat + 64 ≤ 65 := (Nat.pow_le_pow_iff_right (by decide)).mp hle
    have ehe : eh.toNat = 1 := by omega
    rw [ehe] at hU q2 q3 v1 v2 pe
    have ee : eh = 1 := by omega
    have te : th = 1 := by omega
    subst te
    have hU' : (2:Nat)^(1 + 64) = 2^65 := by decide
    rw [hU'] at q2 q3
    have hLe : L = 2^64 := by omega
    have hodd : mh % 2 = 1 := q3 (by omega)
    have hmq : mh = qh := by
      rcases hch with ⟨_, c⟩ | ⟨c, _⟩
      · exact c
      · omega
    have hhi : hi = 2 * mh := by
      rw [hmq]
      rcases hqh with ⟨a1, a2, a3⟩ | ⟨a1, a2, a3⟩
      · rw [Nat.pow_one] at a1 a2 a3; omega
      · rw [Nat.pow_one] at a1 a2 a3; omega
    rw [ehe] at hc
    rcases hc with ⟨c1, c2⟩ | ⟨c1, c2, c3⟩
    · have et : e.toNat = 65 := by omega
      rw [et, c2, q1, hhi]
      omega
    · have et : e.toNat = 66 := by omega
      rw [et, c2, hhi]
      omega

/-- **`Uint128.AsFloat64`, one unit in the last place of the exact value**: for `x ≥ 2^53` in the binade
    `2^(52+k) ≤ x < 2^(53+k)` (unit `2^k`), the result `m·2^e` satisfies `|m·2^e − x| ≤ 2^k` -/
theorem U128.asFloat64_ulp_of_value (u : U128) (hbig : 2^53 ≤ u.toNat) :
    ∃ m e k, u.asFloat64 = .fin false m e ∧ 0 ≤ e ∧ 2^(52 + k) ≤ u.toNat ∧ u.toNat < 2^(53 + k) ∧
      m * 2^e.toNat ≤ u.toNat + 2^k ∧ u.toNat ≤ m * 2^e.toNat + 2^k := by
  have hh := u.hi.isLt; have hl := u.lo.isLt
  by_cases hhi : u.hi.toNat = 0
  · have hv : u.toNat = u.lo.toNat := by unfold U128.toNat; omega
    have hl0 : u.lo.toNat ≠ 0 := by omega
    have hf : u.asFloat64 = ofRat false u.lo.toNat 1 := by
      unfold U128.asFloat64
      rw [bv_eq_zero_iff, bv_eq_zero_iff, decide_eq_true hhi, if_pos rfl, decide_eq_false hl0, if_neg (by simp)]
      rfl
    rw [hv, hf]
    obtain ⟨m, e, X, hr, _, _, _, _, _, hc⟩ := nat_round u.lo.toNat (by omega) (Nat.lt_trans hl (by decide))
    rcases hc with ⟨hs, _⟩ | ⟨t, _, b1, b2, hR, _⟩
    · omega
    · obtain ⟨e0, _, _, _, v1, v2, _, _⟩ := hR.val
      exact ⟨m, e, t, hr, e0, b1, b2, by omega, by omega⟩
  · obtain ⟨mh, eh, Xh, L, ts, m, e, hch, X1, X2, L1, L2, L3, hr, b1, b2, hR⟩ := U128.asFloat64_shape u hhi
    have e0 := hR.val.1
    unfold U128.toNat
    rcases hch with ⟨hs, hx⟩ | ⟨th, th1, bh1, bh2, hRh, hx⟩
    · subst hx
      obtain ⟨k, v1, v2⟩ := binade (u.hi.toNat * 2^64 + u.lo.toNat) (by omega)
      exact ⟨m, e, k, hr, e0, v1, v2,
        ulp_value_small (u.hi.toNat * 2^64) u.lo.toNat L ts k m e (by omega) L1 L2 b1 b2 v1 v2 hR⟩
    · have hvh := hRh.val
      have hU : 2^(eh.toNat + 64) = 2^eh.toNat * 2^64 := Nat.pow_add ..
      have hXU : Xh * 2^64 = mh * 2^(eh.toNat + 64) := by rw [hx, hU, Nat.mul_assoc]
      have ehn : 1 ≤ eh.toNat := by omega
      have pU : 2^1 ≤ 2^eh.toNat := Nat.pow_le_pow_right (by decide) ehn
      have ets : ts = eh.toNat + 64 := by
        have lo1 : 2^(52 + (eh.toNat + 64)) ≤ Xh * 2^64 + L := by
          rw [hXU, Nat.pow_add]
          exact Nat.le_trans (Nat.mul_le_mul_right _ hRh.1) (Nat.le_add_right _ _)
        have hi1 : Xh * 2^64 + L < 2^(53 + (eh.toNat + 64)) := by
          have : (mh + 1) * 2^(eh.toNat + 64) ≤ 2^53 * 2^(eh.toNat + 64) :=
            Nat.mul_le_mul_right _ (by have := hRh.2.1; omega)
          rw [Nat.pow_add 2 53, hXU]
          rw [Nat.add_mul, Nat.one_mul] at this
          have : L < 2^(eh.toNat + 64) := by rw [hU]; omega
          omega
        have a1 : 52 + ts < 53 + (eh.toNat + 64) := lt_of_pow_lt (Nat.lt_of_le_of_lt b1 hi1)
        have a2 : 52 + (eh.toNat + 64) < 53 + ts := lt_of_pow_lt (Nat.lt_of_le_of_lt lo1 b2)
        omega
      rw [ets, hx] at hR
      have hb := ulp_value_big u.hi.toNat u.lo.toNat L th mh eh m e hl L1 L2 L3 th1 hRh hR
      have k1 : 2^(52 + (th + 64)) = 2^(52 + th) * 2^64 := by
        rw [show 52 + (th + 64) = (52 + th) + 64 by omega, Nat.pow_add]
      have k2 : 2^(53 + (th + 64)) = 2^(53 + th) * 2^64 := by
        rw [show 53 + (th + 64) = (53 + th) + 64 by omega, Nat.pow_add]
      have k3 : 2^(th + 64) = 2^th * 2^64 := Nat.pow_add ..
      refine ⟨m, e, th + 64, hr, e0, ?_, ?_, ?_, ?_⟩
      · rw [k1]
        have := Nat.mul_le_mul_right (2^64) bh1
        exact Nat.le_trans this (Nat.le_add_right _ _)
      · rw [k2]
        have h1 := Nat.mul_le_mul_right (2^64) (Nat.succ_le_of_lt bh2)
        rw [Nat.succ_mul] at h1
        exact Nat.lt_of_lt_of_le (Nat.add_lt_add_left hl _) h1
      · rw [k3]; exact hb.1
      · rw [k3]; exact hb.2

/-- the same for `Int128.AsFloat64` and `|x| ≥ 2^53` -/
theorem I128.asFloat64_ulp_of_value (i : I128) (hbig : 2^53 ≤ i.toInt.natAbs) :
    ∃ m e k, i.asFloat64 = .fin (decide (i.toInt < 0)) m e ∧ 0 ≤ e ∧
      2^(52 + k) ≤ i.toInt.natAbs ∧ i.toInt.natAbs < 2^(53 + k) ∧
      m * 2^e.toNat ≤ i.toInt.natAbs + 2^k ∧ i.toInt.natAbs ≤ m * 2^e.toNat + 2^k := by
  have hh := i.hi.isLt; have hl := i.lo.isLt
  unfold I128.asFloat64
  rw [and_signBit_ne]
  by_cases hs : 2^63 ≤ i.hi.toNat
  · rw [decide_eq_true hs, if_pos rfl]
    have hneg : i.toInt < 0 := by unfold I128.toInt; rw [if_neg (by omega)]; omega
    have ha := I128.absUint128_toNat i
    rw [if_pos hneg] at ha
    have hab : i.absUint128.toNat = i.toInt.natAbs := by omega
    obtain ⟨m, e, k, he, r⟩ := U128.asFloat64_ulp_of_value i.absUint128 (by rw [hab]; exact hbig)
    rw [hab] at r
    rw [he]
    exact ⟨m, e, k, by rw [decide_eq_true hneg]; rfl, r⟩
  · rw [decide_eq_false hs, if_neg (by simp)]
    have hpos : ¬ i.toInt < 0 := by unfold I128.toInt; rw [if_pos (by omega)]; omega
    have hv : (i.asUint128.toNat : Int) = i.toInt := by
      unfold I128.asUint128 U128.toNat I128.toInt; rw [if_pos (by omega)]
    have hab : i.asUint128.toNat = i.toInt.natAbs := by omega
    obtain ⟨m, e, k, he, r⟩ := U128.asFloat64_ulp_of_value i.asUint128 (by rw [hab]; exact hbig)
    rw [hab] at r
    rw [he, decide_eq_false hpos]
    exact ⟨m, e, k, rfl, r⟩

end Conv
