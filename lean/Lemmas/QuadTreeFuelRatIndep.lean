import Lemmas.QuadTreeFuelRatTree
/-! Fuel independence for exact rational coordinates: below a good node narrower than `m · 2^k` the recursion
    `insert → splitIfNeeded → insert` is at most `k` calls deep, so any two fuels of at least `k` compute the same — at
    one node and over whole histories (`run_indepQ`). -/
namespace QT
open Geom

/-- two inserters agree on every good node narrower than `m · 2^k` -/
def AgreeQ (m : Rat) (ins ins' : Node RQ → Item RQ → Node RQ) (k : Nat) : Prop :=
  ∀ c it, GoodQ m c → c.rect.contains it.rect = true → m ≤ it.rect.w → c.rect.w < m * 2 ^ k → ins c it = ins' c it

theorem route_congrQ (m : Rat) (ins ins' : Node RQ → Item RQ → Node RQ) (n : Node RQ) (it : Item RQ) (hn : GoodQ m n)
    (hi : m ≤ it.rect.w) (k : Nat) (hk : n.rect.w < m * 2 ^ (k + 1)) (ha : AgreeQ m ins ins' k) :
    Node.route ins n it = Node.route ins' n it := by
  cases n with
  | leaf r cs => rfl
  | split r cs c0 c1 c2 c3 =>
    obtain ⟨_, _, ⟨g0, e0⟩, ⟨g1, e1⟩, ⟨g2, e2⟩, ⟨g3, e3⟩⟩ := hn
    have hh : r.w / 2 < m * 2 ^ k := by
      simp only [Node.rect] at hk; rw [pow_succ] at hk; linarith
    simp only [Node.route]
    split
    · rename_i hc; rw [ha c0 it g0 hc hi (by rw [e0]; exact hh)]
    · split
      · rename_i hc; rw [ha c1 it g1 hc hi (by rw [e1]; exact hh)]
      · split
        · rename_i hc; rw [ha c2 it g2 hc hi (by rw [e2]; exact hh)]
        · split
          · rename_i hc; rw [ha c3 it g3 hc hi (by rw [e3]; exact hh)]
          · rfl

theorem fold_route_congrQ (m : Rat) (ins ins' : Node RQ → Item RQ → Node RQ) (hg : GoodInsQ m ins) (cs : List (Item RQ))
    (hcs : ∀ x ∈ cs, m ≤ x.rect.w) (acc : Node RQ) (hacc : GoodQ m acc) (k : Nat) (hk : acc.rect.w < m * 2 ^ (k + 1))
    (ha : AgreeQ m ins ins' k) :
    cs.foldl (fun a one => Node.route ins a one) acc = cs.foldl (fun a one => Node.route ins' a one) acc := by
  induction cs generalizing acc with
  | nil => rfl
  | cons c cs ih =>
    simp only [List.foldl_cons]
    rw [← route_congrQ m ins ins' acc c hacc (hcs c (by simp)) k hk ha]
    obtain ⟨a, b⟩ := route_goodQ m ins hg acc c hacc (hcs c (by simp))
    exact ih (fun x hx => hcs x (by simp [hx])) _ a (by rw [b]; exact hk)

/-- **fuel independence at one node**: on a good node narrower than `m · 2^k`, inserting an item of width at least `m`
    that the node contains gives the same result for any two fuels of at least `k` -/
theorem insert_fuel_indepQ (m : Rat) (threshold : Nat) (k : Nat) : ∀ (f f' : Nat) (n : Node RQ) (it : Item RQ),
    GoodQ m n → n.rect.contains it.rect = true → m ≤ it.rect.w → n.rect.w < m * 2 ^ k → k ≤ f → k ≤ f' →
    Node.insert threshold f n it = Node.insert threshold f' n it := by
  induction k with
  | zero =>
    intro f f' n it _ hcon hi hw _ _
    have := contains_width _ _ hcon
    simp only [pow_zero, mul_one] at hw
    linarith
  | succ k ih =>
    intro f f' n it hn hcon hi hw h1 h2
    obtain ⟨f1, rfl⟩ : ∃ f1, f = f1 + 1 := ⟨f - 1, by omega⟩
    obtain ⟨f2, rfl⟩ : ∃ f2, f' = f2 + 1 := ⟨f' - 1, by omega⟩
    have hagree : AgreeQ m (Node.insert threshold f1) (Node.insert threshold f2) k :=
      fun c x hc hcx hx hwc => ih f1 f2 c x hc hcx hx hwc (by omega) (by omega)
    simp only [Node.insert]
    cases n with
    | split r cs c0 c1 c2 c3 => exact route_congrQ m _ _ _ it hn hi k hw hagree
    | leaf r cs =>
      simp only
      split
      · have hwm : m ≤ r.w := le_trans hi (contains_width r it.rect hcon)
        have hq : RectOps.quadrants r = quadrants halfRat r := rfl
        have hacc : GoodQ m (Node.split r [] (Node.leaf (RectOps.quadrants r).1 []) (Node.leaf (RectOps.quadrants r).2.1 [])
            (Node.leaf (RectOps.quadrants r).2.2.1 []) (Node.leaf (RectOps.quadrants r).2.2.2 [])) := by
          rw [hq]
          have e : r.w - halfRat r.w = r.w / 2 := by unfold halfRat; ring
          refine ⟨fun x hx => by simp at hx, hwm, ⟨fun x hx => by simp at hx, rfl⟩, ⟨fun x hx => by simp at hx, ?_⟩,
            ⟨fun x hx => by simp at hx, rfl⟩, ⟨fun x hx => by simp at hx, ?_⟩⟩
          · simp only [quadrants, Node.rect]; exact e
          · simp only [quadrants, Node.rect]; exact e
        have e := fold_route_congrQ m _ _ (insert_goodQ m threshold f1) cs hn _ hacc k hw hagree
        rw [← e]
        obtain ⟨q1, q2⟩ := fold_route_goodQ m (Node.insert threshold f1) (insert_goodQ m threshold f1) cs hn _ hacc
        exact route_congrQ m _ _ _ it q1 hi k (by rw [q2]; exact hw) hagree
      · exact route_congrQ m _ _ _ it hn hi k hw hagree

theorem reorgFold_indepQ (m : Rat) (rect : RQ) (threshold f f' k : Nat) (hw : rect.w < m * 2 ^ k) (h1 : k ≤ f) (h2 : k ≤ f')
    (l : List (Item RQ)) (hl : ∀ x ∈ l, m ≤ x.rect.w) (s : Node RQ × List (Item RQ)) (hg : GoodQ m s.1)
    (hr : s.1.rect = rect) :
    l.foldl (Tree.reorgStep rect threshold f) s = l.foldl (Tree.reorgStep rect threshold f') s := by
  induction l generalizing s with
  | nil => rfl
  | cons c t ih =>
    simp only [List.foldl_cons]
    have hc := hl c (by simp)
    have e : Tree.reorgStep rect threshold f s c = Tree.reorgStep rect threshold f' s c := by
      unfold Tree.reorgStep
      split
      · rename_i hcon
        rw [insert_fuel_indepQ m threshold k f f' s.1 c hg (by rw [hr]; exact hcon) hc (by rw [hr]; exact hw) h1 h2]
      · rfl
    rw [← e]
    apply ih (fun x hx => hl x (by simp [hx]))
    · unfold Tree.reorgStep
      split
      · rename_i hcon
        exact (insert_goodQ m threshold f s.1 c hg (by rw [hr]; exact hcon) hc).1
      · exact hg
    · unfold Tree.reorgStep
      split
      · rename_i hcon
        rw [(insert_goodQ m threshold f s.1 c hg (by rw [hr]; exact hcon) hc).2]; exact hr
      · exact hr

theorem reorganize_indepQ (m : Rat) (box : RQ) (f f' k : Nat) (t : Tree RQ)
    (hitems : ∀ it ∈ t.all, box.contains it.rect = true ∧ m ≤ it.rect.w) (hw : box.w < m * 2 ^ k) (h1 : k ≤ f)
    (h2 : k ≤ f') : t.reorganize f = t.reorganize f' := by
  unfold Tree.reorganize
  simp only
  split
  · rfl
  · rename_i hemp
    have hne : t.all ≠ [] := by intro e; rw [e] at hemp; simp at hemp
    have hb := fold_union_boxQ box t.all (fun it hit => (hitems it hit).1) RectOps.zero (Or.inl lawsRat.zero_empty)
      (Or.inl hne)
    have hlt := lt_of_le_of_lt (contains_width box _ hb) hw
    rw [reorgFold_indepQ m _ t.thr f f' k hlt h1 h2 t.all (fun x hx => (hitems x hx).2) (Node.leaf _ [], [])
      (fun x hx => by simp at hx) rfl]

theorem apply_indepQ (m : Rat) (box : RQ) (f f' k : Nat) (t : Tree RQ) (hf : FInvQ m box t)
    (op : Op RQ) (hbox : InBoxQ m box op) (hw : box.w < m * 2 ^ k) (h1 : k ≤ f) (h2 : k ≤ f') :
    t.apply f op = t.apply f' op := by
  cases op with
  | insert it =>
    simp only [Tree.apply]
    cases he : RectOps.empty it.rect with
    | true => simp [Tree.insert, he]
    | false =>
      have hin : box.contains it.rect = true ∧ m ≤ it.rect.w := by
        rcases hbox with hb | hb
        · have he' : it.rect.empty = false := he
          rw [he'] at hb; cases hb
        · exact hb
      have hout : ∀ (t1 : Tree RQ), t1.root = t.root → t1.outside = t.outside ++ [it] →
          (if t1.outside.length > t1.thr then t1.reorganize f else t1) =
          (if t1.outside.length > t1.thr then t1.reorganize f' else t1) := by
        intro t1 e1 e2
        split
        · refine reorganize_indepQ m box f f' k t1 ?_ hw h1 h2
          intro x hx
          rw [all_eq, e1, e2] at hx
          rcases List.mem_append.mp hx with e | e
          · rcases List.mem_append.mp e with e | e
            · exact hf.items x (by rw [all_eq]; exact List.mem_append_left _ e)
            · simp only [List.mem_singleton] at e; subst e; exact hin
          · exact hf.items x (by rw [all_eq]; exact List.mem_append_right _ e)
        · rfl
      unfold Tree.insert
      rw [if_neg (by simp [he]), if_neg (by simp [he])]
      simp only
      cases hroot : t.root with
      | none => simp only; exact hout _ hroot.symm rfl
      | some r0 =>
        simp only
        obtain ⟨g, hb⟩ := hf.root r0 hroot
        have hlt := lt_of_le_of_lt (contains_width box _ hb) hw
        split
        · rename_i hc
          rw [insert_fuel_indepQ m t.nodeThr k f f' r0 it g hc hin.2 hlt h1 h2]
        · exact hout _ hroot.symm rfl
  | remove id b => rfl
  | reorganize => exact reorganize_indepQ m box f f' k t hf.items hw h1 h2
  | clear => rfl
  | setThreshold k => rfl

/-- **whole rational histories do not depend on the fuel** once it is at least `k`, where the box is narrower than
    `m · 2^k` -/
theorem run_indepQ (bounds : Nat → RQ) (m : Rat) (box : RQ) (f f' k : Nat) (kk : Int) (ops : List (Op RQ))
    (hops : ∀ op ∈ ops, OpOK bounds op) (hbox : ∀ op ∈ ops, InBoxQ m box op) (hw : box.w < m * 2 ^ k) (h1 : k ≤ f)
    (h2 : k ≤ f') : Tree.run f kk ops = Tree.run f' kk ops := by
  have aux : ∀ (ops : List (Op RQ)) (t : Tree RQ), (∀ op ∈ ops, OpOK bounds op) → (∀ op ∈ ops, InBoxQ m box op) →
      TInv bounds t → FInvQ m box t → ops.foldl (Tree.apply f) t = ops.foldl (Tree.apply f') t := by
    intro ops
    induction ops with
    | nil => intros; rfl
    | cons op rest ih =>
      intro t ho hb ht hf
      simp only [List.foldl_cons]
      rw [← apply_indepQ m box f f' k t hf op (hb op (by simp)) hw h1 h2]
      exact ih _ (fun o h => ho o (by simp [h])) (fun o h => hb o (by simp [h]))
        (apply_ok bounds f t ht op (ho op (by simp))).1
        (apply_finvQ bounds m box f t ht hf op (ho op (by simp)) (hb op (by simp)))
  exact aux ops _ hops hbox (empty_inv bounds kk)
    ⟨fun r hr => by simp [Tree.empty] at hr, fun x hx => by simp [Tree.empty, Tree.all] at hx⟩

end QT
