import Lemmas.BitSet
/-! C08: the six search functions return the extreme matching index or the documented sentinel. -/
namespace BS

/-- the test a search applies at index `x` -/
def probe (test : W → W → Bool) (d : List W) (x : Nat) : Bool := test (getW d (x / 64)) (wordMask x)

theorem probe_at (test : W → W → Bool) (d : List W) (i k : Nat) (hk : k < 64) :
    probe test d (i * 64 + k) = test (getW d i) (wordMask k) := by
  unfold probe
  have h1 : (i * 64 + k) / 64 = i := by omega
  have h2 : (i * 64 + k) % 64 = k := by omega
  rw [h1, wordMask_mod, h2]

theorem probe_testSet (d : List W) (x : Nat) : probe testSet d x = bit d x := by
  unfold probe bit; exact testSet_eq _ _
theorem probe_testClear (d : List W) (x : Nat) : probe testClear d x = !bit d x := by
  unfold probe bit; exact testClear_eq _ _

theorem skip_testSet (k : Nat) : testSet 0#64 (wordMask k) = false := by
  rw [testSet_eq]; simp
theorem skip_testClear (k : Nat) : testClear (BitVec.allOnes 64) (wordMask k) = false := by
  rw [testClear_eq, BitVec.getLsbD_allOnes]
  have : k % 64 < 64 := Nat.mod_lt _ (by decide)
  simp [this]

theorem scanUp_spec (test : W → W → Bool) (word : W) (n : Nat) : ∀ j, j + n = 64 →
    (∀ r, scanUp test word j n = some r →
        j ≤ r ∧ r < 64 ∧ test word (wordMask r) = true ∧ ∀ k, j ≤ k → k < r → test word (wordMask k) = false)
    ∧ (scanUp test word j n = none → ∀ k, j ≤ k → k < 64 → test word (wordMask k) = false) := by
  induction n with
  | zero =>
    intro j hj
    refine ⟨fun r h => by simp [scanUp] at h, fun _ k h1 h2 => by omega⟩
  | succ n ih =>
    intro j hj
    obtain ⟨ih1, ih2⟩ := ih (j + 1) (by omega)
    simp only [scanUp]
    by_cases ht : test word (wordMask j) = true
    · simp only [ht, if_true]
      refine ⟨fun r h => ?_, fun h => by cases h⟩
      have : j = r := by simpa using h
      subst this
      exact ⟨Nat.le_refl _, by omega, ht, fun k h1 h2 => by omega⟩
    · simp only [ht, Bool.false_eq_true, if_false]
      have htf : test word (wordMask j) = false := by simpa using ht
      refine ⟨fun r h => ?_, fun h k h1 h2 => ?_⟩
      · obtain ⟨a, b, c, e⟩ := ih1 r h
        refine ⟨by omega, b, c, fun k h1 h2 => ?_⟩
        by_cases ek : k = j
        · subst ek; exact htf
        · exact e k (by omega) h2
      · by_cases ek : k = j
        · subst ek; exact htf
        · exact ih2 h k (by omega) h2

theorem scanDown_spec (test : W → W → Bool) (word : W) (n : Nat) :
    (∀ r, scanDown test word n = some r →
        r < n ∧ test word (wordMask r) = true ∧ ∀ k, r < k → k < n → test word (wordMask k) = false)
    ∧ (scanDown test word n = none → ∀ k, k < n → test word (wordMask k) = false) := by
  induction n with
  | zero =>
    refine ⟨fun r h => by simp [scanDown] at h, fun _ k h1 => by omega⟩
  | succ n ih =>
    obtain ⟨ih1, ih2⟩ := ih
    simp only [scanDown]
    by_cases ht : test word (wordMask n) = true
    · simp only [ht, if_true]
      refine ⟨fun r h => ?_, fun h => by cases h⟩
      have : n = r := by simpa using h
      subst this
      exact ⟨by omega, ht, fun k h1 h2 => by omega⟩
    · simp only [ht, Bool.false_eq_true, if_false]
      have htf : test word (wordMask n) = false := by simpa using ht
      refine ⟨fun r h => ?_, fun h k h1 => ?_⟩
      · obtain ⟨a, c, e⟩ := ih1 r h
        refine ⟨by omega, c, fun k h1 h2 => ?_⟩
        by_cases ek : k = n
        · subst ek; exact htf
        · exact e k h1 (by omega)
      · by_cases ek : k = n
        · subst ek; exact htf
        · exact ih2 h k (by omega)

/-- the upward word loop finds the least index `≥ i·64 + firstBit` below the capacity that passes the test -/
theorem nextLoop_spec (skip : W) (test : W → W → Bool) (hskip : ∀ k, test skip (wordMask k) = false) (d : List W)
    (n : Nat) : ∀ i fb, n = d.length - i → fb ≤ 64 →
    (∀ r, nextLoop skip test d i fb n = some r →
        i * 64 + fb ≤ r ∧ r < d.length * 64 ∧ probe test d r = true
        ∧ ∀ x, i * 64 + fb ≤ x → x < r → probe test d x = false)
    ∧ (nextLoop skip test d i fb n = none → ∀ x, i * 64 + fb ≤ x → x < d.length * 64 → probe test d x = false) := by
  induction n with
  | zero =>
    intro i fb hn _
    refine ⟨fun r h => by simp [nextLoop] at h, fun _ x h1 h2 => by omega⟩
  | succ n ih =>
    intro i fb hn hfb
    obtain ⟨ih1, ih2⟩ := ih (i + 1) 0 (by omega) (by omega)
    -- what the scan of word `i` establishes
    have hscan : (∀ j, (if getW d i != skip then scanUp test (getW d i) fb (dbpw - fb) else none) = some j →
          fb ≤ j ∧ j < 64 ∧ test (getW d i) (wordMask j) = true
          ∧ ∀ k, fb ≤ k → k < j → test (getW d i) (wordMask k) = false)
        ∧ ((if getW d i != skip then scanUp test (getW d i) fb (dbpw - fb) else none) = none →
          ∀ k, fb ≤ k → k < 64 → test (getW d i) (wordMask k) = false) := by
      by_cases hs : getW d i = skip
      · simp only [hs, bne_self_eq_false, Bool.false_eq_true, if_false]
        exact ⟨fun j h => (by cases h), fun _ k _ _ => hskip k⟩
      · have : (getW d i != skip) = true := by simpa using hs
        simp only [this, if_true, dbpw_eq]
        exact scanUp_spec test (getW d i) (64 - fb) fb (by omega)
    obtain ⟨hs1, hs2⟩ := hscan
    simp only [nextLoop]
    generalize hinner : (if getW d i != skip then scanUp test (getW d i) fb (dbpw - fb) else none) = inner at hs1 hs2
    cases inner with
    | some j =>
      obtain ⟨a, b, c, e⟩ := hs1 j rfl
      simp only [shl_eq]
      refine ⟨fun r h => ?_, fun h => by cases h⟩
      have : i * 64 + j = r := by simpa using h
      subst this
      refine ⟨by omega, by omega, by rw [probe_at _ _ _ _ b]; exact c, fun x h1 h2 => ?_⟩
      have hx : x = i * 64 + x % 64 := by omega
      rw [hx, probe_at _ _ _ _ (Nat.mod_lt _ (by decide))]
      exact e _ (by omega) (by omega)
    | none =>
      have e := hs2 rfl
      simp only
      have hlow : ∀ x, i * 64 + fb ≤ x → x < (i + 1) * 64 → probe test d x = false := by
        intro x h1 h2
        have hx : x = i * 64 + x % 64 := by omega
        rw [hx, probe_at _ _ _ _ (Nat.mod_lt _ (by decide))]
        exact e _ (by omega) (Nat.mod_lt _ (by decide))
      refine ⟨fun r h => ?_, fun h x h1 h2 => ?_⟩
      · obtain ⟨a, b, c, f⟩ := ih1 r h
        refine ⟨by omega, b, c, fun x h1 h2 => ?_⟩
        by_cases hx : x < (i + 1) * 64
        · exact hlow x h1 hx
        · exact f x (by omega) h2
      · by_cases hx : x < (i + 1) * 64
        · exact hlow x h1 hx
        · exact ih2 h x (by omega) h2

/-- the downward word loop finds the greatest index `≤ (n−1)·64 + firstBit` that passes the test
    (`n·64 + fb + 1 − 64` is the exclusive upper bound; it is `0` when `n = 0`) -/
theorem prevLoop_spec (skip : W) (test : W → W → Bool) (hskip : ∀ k, test skip (wordMask k) = false) (d : List W)
    (n : Nat) : ∀ fb, fb < 64 →
    (∀ r, prevLoop skip test d fb n = some r →
        r < n * 64 + fb + 1 - 64 ∧ probe test d r = true
        ∧ ∀ x, r < x → x < n * 64 + fb + 1 - 64 → probe test d x = false)
    ∧ (prevLoop skip test d fb n = none → ∀ x, x < n * 64 + fb + 1 - 64 → probe test d x = false) := by
  induction n with
  | zero =>
    intro fb hfb
    refine ⟨fun r h => by simp [prevLoop] at h, fun _ x h1 => by omega⟩
  | succ i ih =>
    intro fb hfb
    obtain ⟨ih1, ih2⟩ := ih 63 (by omega)
    have hscan : (∀ j, (if getW d i != skip then scanDown test (getW d i) (fb + 1) else none) = some j →
          j < fb + 1 ∧ test (getW d i) (wordMask j) = true
          ∧ ∀ k, j < k → k < fb + 1 → test (getW d i) (wordMask k) = false)
        ∧ ((if getW d i != skip then scanDown test (getW d i) (fb + 1) else none) = none →
          ∀ k, k < fb + 1 → test (getW d i) (wordMask k) = false) := by
      by_cases hs : getW d i = skip
      · simp only [hs, bne_self_eq_false, Bool.false_eq_true, if_false]
        exact ⟨fun j h => (by cases h), fun _ k _ => hskip k⟩
      · have : (getW d i != skip) = true := by simpa using hs
        simp only [this, if_true]
        exact scanDown_spec test (getW d i) (fb + 1)
    obtain ⟨hs1, hs2⟩ := hscan
    simp only [prevLoop]
    generalize hinner : (if getW d i != skip then scanDown test (getW d i) (fb + 1) else none) = inner at hs1 hs2
    cases inner with
    | some j =>
      obtain ⟨a, c, e⟩ := hs1 j rfl
      simp only [shl_eq]
      refine ⟨fun r h => ?_, fun h => by cases h⟩
      have : i * 64 + j = r := by simpa using h
      subst this
      refine ⟨by omega, by rw [probe_at _ _ _ _ (by omega)]; exact c, fun x h1 h2 => ?_⟩
      have hx : x = i * 64 + x % 64 := by omega
      rw [hx, probe_at _ _ _ _ (Nat.mod_lt _ (by decide))]
      exact e _ (by omega) (by omega)
    | none =>
      have e := hs2 rfl
      simp only
      have hhigh : ∀ x, i * 64 ≤ x → x < (i + 1) * 64 + fb + 1 - 64 → probe test d x = false := by
        intro x h1 h2
        have hx : x = i * 64 + x % 64 := by omega
        rw [hx, probe_at _ _ _ _ (Nat.mod_lt _ (by decide))]
        exact e _ (by omega)
      refine ⟨fun r h => ?_, fun h x h1 => ?_⟩
      · obtain ⟨a, c, f⟩ := ih1 r h
        refine ⟨by omega, c, fun x h1 h2 => ?_⟩
        by_cases hx : i * 64 ≤ x
        · exact hhigh x hx h2
        · exact f x h1 (by omega)
      · by_cases hx : i * 64 ≤ x
        · exact hhigh x hx h1
        · exact ih2 h x (by omega)

/-! ### the exported searches -/

/-- **NextSet**: `-1` and no member at or after `start`, or the least member at or after `start` -/
theorem nextSet_spec (b : T) (s : Nat) :
    (nextSet b s = -1 ∧ ∀ x, s ≤ x → mem b x = false)
    ∨ ∃ r : Nat, nextSet b s = Int.ofNat r ∧ s ≤ r ∧ mem b r = true ∧ ∀ x, s ≤ x → x < r → mem b x = false := by
  obtain ⟨h1, h2⟩ := nextLoop_spec 0#64 testSet skip_testSet b.data (b.data.length - s / 64) (s / 64) (s % 64) rfl
    (by have := Nat.mod_lt s (show 64 > 0 by decide); omega)
  have es : s / 64 * 64 + s % 64 = s := by omega
  rw [es] at h1 h2
  unfold nextSet
  simp only [wordIdx_eq, bitIndexForMask_wordMask]
  generalize nextLoop 0#64 testSet b.data (s / 64) (s % 64) (b.data.length - s / 64) = res at h1 h2
  cases res with
  | some r =>
    obtain ⟨a, _, c, e⟩ := h1 r rfl
    refine Or.inr ⟨r, rfl, a, by rw [← c, probe_testSet]; rfl, fun x hx1 hx2 => ?_⟩
    have := e x hx1 hx2
    rw [probe_testSet] at this; exact this
  | none =>
    refine Or.inl ⟨rfl, fun x hx => ?_⟩
    by_cases hcap : x < b.data.length * 64
    · have := h2 rfl x hx hcap
      rw [probe_testSet] at this; exact this
    · exact bit_of_ge _ _ (by omega)

/-- **FirstSet** -/
theorem firstSet_spec (b : T) :
    (firstSet b = -1 ∧ ∀ x, mem b x = false)
    ∨ ∃ r : Nat, firstSet b = Int.ofNat r ∧ mem b r = true ∧ ∀ x, x < r → mem b x = false := by
  rcases nextSet_spec b 0 with ⟨h1, h2⟩ | ⟨r, h1, _, h3, h4⟩
  · exact Or.inl ⟨h1, fun x => h2 x (Nat.zero_le _)⟩
  · exact Or.inr ⟨r, h1, h3, fun x hx => h4 x (Nat.zero_le _) hx⟩

/-- **NextClear**: always the least non-member at or after `start` (a finite set always has one) -/
theorem nextClear_spec (b : T) (s : Nat) :
    ∃ r : Nat, nextClear b s = Int.ofNat r ∧ s ≤ r ∧ mem b r = false ∧ ∀ x, s ≤ x → x < r → mem b x = true := by
  obtain ⟨h1, h2⟩ := nextLoop_spec (BitVec.allOnes 64) testClear skip_testClear b.data (b.data.length - s / 64)
    (s / 64) (s % 64) rfl (by have := Nat.mod_lt s (show 64 > 0 by decide); omega)
  have es : s / 64 * 64 + s % 64 = s := by omega
  rw [es] at h1 h2
  unfold nextClear
  simp only [wordIdx_eq, bitIndexForMask_wordMask, dbpw_eq]
  generalize nextLoop (BitVec.allOnes 64) testClear b.data (s / 64) (s % 64) (b.data.length - s / 64) = res at h1 h2
  cases res with
  | some r =>
    obtain ⟨a, _, c, e⟩ := h1 r rfl
    refine ⟨r, rfl, a, ?_, fun x hx1 hx2 => ?_⟩
    · rw [probe_testClear] at c; unfold mem; simpa using c
    · have := e x hx1 hx2
      rw [probe_testClear] at this; unfold mem; simpa using this
  | none =>
    refine ⟨max (b.data.length * 64) s, rfl, by omega, bit_of_ge _ _ (by omega), fun x hx1 hx2 => ?_⟩
    have := h2 rfl x hx1 (by omega)
    rw [probe_testClear] at this; unfold mem; simpa using this

/-- **PreviousSet**: `-1` and no member at or before `start`, or the greatest member at or before `start` -/
theorem previousSet_spec (b : T) (s : Nat) :
    (previousSet b s = -1 ∧ ∀ x, x ≤ s → mem b x = false)
    ∨ ∃ r : Nat, previousSet b s = Int.ofNat r ∧ r ≤ s ∧ mem b r = true ∧ ∀ x, r < x → x ≤ s → mem b x = false := by
  unfold previousSet
  simp only [wordIdx_eq, bitIndexForMask_wordMask]
  generalize hp : (if s / 64 + 1 > b.data.length then (b.data.length, 63) else (s / 64 + 1, s % 64)) = p
  have hfb : p.2 < 64 := by
    rw [← hp]; split
    · simp
    · exact Nat.mod_lt _ (by decide)
  -- the exclusive upper bound of the scan
  have hub : p.1 * 64 + p.2 + 1 - 64 = min (s + 1) (b.data.length * 64) := by
    rw [← hp]; split <;> simp <;> omega
  obtain ⟨h1, h2⟩ := prevLoop_spec 0#64 testSet skip_testSet b.data p.1 p.2 hfb
  rw [hub] at h1 h2
  generalize prevLoop 0#64 testSet b.data p.2 p.1 = res at h1 h2
  cases res with
  | some r =>
    obtain ⟨a, c, e⟩ := h1 r rfl
    refine Or.inr ⟨r, rfl, by omega, by rw [← c, probe_testSet]; rfl, fun x hx1 hx2 => ?_⟩
    by_cases hcap : x < b.data.length * 64
    · have := e x hx1 (by omega)
      rw [probe_testSet] at this; exact this
    · exact bit_of_ge _ _ (by omega)
  | none =>
    refine Or.inl ⟨rfl, fun x hx => ?_⟩
    by_cases hcap : x < b.data.length * 64
    · have := h2 rfl x (by omega)
      rw [probe_testSet] at this; exact this
    · exact bit_of_ge _ _ (by omega)

/-- **LastSet** -/
theorem lastSet_spec (b : T) :
    (lastSet b = -1 ∧ ∀ x, mem b x = false)
    ∨ ∃ r : Nat, lastSet b = Int.ofNat r ∧ mem b r = true ∧ ∀ x, r < x → mem b x = false := by
  unfold lastSet
  rw [shl_eq]
  rcases previousSet_spec b (b.data.length * 64) with ⟨h1, h2⟩ | ⟨r, h1, _, h3, h4⟩
  · refine Or.inl ⟨h1, fun x => ?_⟩
    by_cases hx : x ≤ b.data.length * 64
    · exact h2 x hx
    · exact bit_of_ge _ _ (by omega)
  · refine Or.inr ⟨r, h1, h3, fun x hx => ?_⟩
    by_cases hx2 : x ≤ b.data.length * 64
    · exact h4 x hx hx2
    · exact bit_of_ge _ _ (by omega)

/-- **PreviousClear**: `-1` when every index `≤ start` is a member, else the greatest non-member `≤ start` -/
theorem previousClear_spec (b : T) (s : Nat) :
    (previousClear b s = -1 ∧ ∀ x, x ≤ s → mem b x = true)
    ∨ ∃ r : Nat, previousClear b s = Int.ofNat r ∧ r ≤ s ∧ mem b r = false ∧ ∀ x, r < x → x ≤ s → mem b x = true := by
  unfold previousClear
  simp only [wordIdx_eq, bitIndexForMask_wordMask]
  by_cases hout : s / 64 + 1 > b.data.length
  · simp only [hout, if_true]
    exact Or.inr ⟨s, rfl, Nat.le_refl _, bit_of_ge _ _ (by omega), fun x h1 h2 => by omega⟩
  · simp only [hout, if_false]
    obtain ⟨h1, h2⟩ := prevLoop_spec (BitVec.allOnes 64) testClear skip_testClear b.data (s / 64 + 1) (s % 64)
      (Nat.mod_lt _ (by decide))
    have hub : (s / 64 + 1) * 64 + s % 64 + 1 - 64 = s + 1 := by omega
    rw [hub] at h1 h2
    generalize prevLoop (BitVec.allOnes 64) testClear b.data (s % 64) (s / 64 + 1) = res at h1 h2
    cases res with
    | some r =>
      obtain ⟨a, c, e⟩ := h1 r rfl
      refine Or.inr ⟨r, rfl, by omega, ?_, fun x hx1 hx2 => ?_⟩
      · rw [probe_testClear] at c; unfold mem; simpa using c
      · have := e x hx1 (by omega)
        rw [probe_testClear] at this; unfold mem; simpa using this
    | none =>
      refine Or.inl ⟨rfl, fun x hx => ?_⟩
      have := h2 rfl x (by omega)
      rw [probe_testClear] at this; unfold mem; simpa using this

end BS
