import Model.RateLimiterRW
import Lemmas.RWMutexLin
import Lemmas.RateLimiterExec
/-! C16: the micro-steps of every bracket compute `callRun`; read brackets never change the limiter state. Core Lean. -/
namespace RL
open Mutex

/-- the control states from which no write can follow -/
def ReadPC : PC → Prop
  | .start c => c.isRead = true
  | .useDecided _ _ _ => False
  | .ret _ => True

theorem callSys_readOnly : RW.ReadOnly callSys Call.isRead ReadPC where
  start := fun _ h => h
  step := by
    intro k s hk
    cases k with
    | start c =>
      cases c with
      | cap l ap => exact ⟨rfl, trivial⟩
      | lastUsed l => exact ⟨rfl, trivial⟩
      | closed l => exact ⟨rfl, trivial⟩
      | use l amt => cases hk
      | newChild p c => cases hk
      | closeChild l => cases hk
      | setCap l c => cases hk
      | tick => cases hk
    | useDecided l amt fit => cases hk
    | ret r => exact ⟨rfl, trivial⟩

/-- every bracket, run micro-step by micro-step, returns what the one-call reference returns and leaves its state -/
theorem callSys_runs (op : Call) (s : S) : Runs callSys (callSys.start op) s (callRun op s).1 (callRun op s).2 := by
  cases op with
  | use l amt =>
    by_cases hd : useReachesDecision s l amt = true
    · refine Runs.step rfl ?_
      show Runs callSys (callMicro (.start (.use l amt)) s).1 (callMicro (.start (.use l amt)) s).2 _ _
      simp only [callMicro, hd, if_true]
      refine Runs.step rfl ?_
      show Runs callSys (callMicro (.useDecided l amt (fits s.cap s.used (s.chain l) amt.toNat)) s).1
        (callMicro (.useDecided l amt (fits s.cap s.used (s.chain l) amt.toNat)) s).2 _ _
      simp only [useReachesDecision, Bool.and_eq_true, decide_eq_true_eq, Bool.not_eq_true'] at hd
      obtain ⟨⟨⟨⟨hl, ha⟩, hf⟩, ho⟩, hb⟩ := hd
      have e := exec_use_room s hf l amt hl ha ho hb
      have e' : exec s (.use l amt) =
          (if fits s.cap s.used (s.chain l) amt.toNat = true then doUseGrant s l amt.toNat else doUseWait s l amt.toNat) := e
      simp only [callMicro, callRun, e']
      exact Runs.fin rfl
    · refine Runs.step rfl ?_
      show Runs callSys (callMicro (.start (.use l amt)) s).1 (callMicro (.start (.use l amt)) s).2 _ _
      simp only [callMicro, hd]
      exact Runs.fin rfl
  | cap l ap => exact Runs.step rfl (Runs.fin rfl)
  | lastUsed l => exact Runs.step rfl (Runs.fin rfl)
  | closed l => exact Runs.step rfl (Runs.fin rfl)
  | newChild p c => exact Runs.step rfl (Runs.fin rfl)
  | closeChild l => exact Runs.step rfl (Runs.fin rfl)
  | setCap l c => exact Runs.step rfl (Runs.fin rfl)
  | tick => exact Runs.step rfl (Runs.fin rfl)

/-! ### the driver's read-lock window is a schedule of the machine -/

theorem rw_exec_append (c : RWCfg) (a b : List Nat) :
    RW.exec callSys Call.isRead c (a ++ b) =
      (RW.exec callSys Call.isRead c a).bind (fun c' => RW.exec callSys Call.isRead c' b) := by
  induction a generalizing c with
  | nil => rfl
  | cons t ts ih =>
    simp only [List.cons_append, RW.exec]
    cases RW.step callSys Call.isRead c t with
    | none => rfl
    | some c' => exact ih c'

/-- `rwRunThread` takes enabled steps of thread `t` only -/
theorem rwRunThread_sched (c : RWCfg) (t fuel : Nat) :
    ∃ n, RW.exec callSys Call.isRead c (List.replicate n t) = some (rwRunThread c t fuel) := by
  induction fuel generalizing c with
  | zero => exact ⟨0, rfl⟩
  | succ fuel ih =>
    simp only [rwRunThread]
    cases hs : RW.step callSys Call.isRead c t with
    | none => exact ⟨0, rfl⟩
    | some c' =>
      obtain ⟨n, hn⟩ := ih c'
      exact ⟨n + 1, by simp only [List.replicate_succ, RW.exec, hs]; exact hn⟩

/-- from `c` some schedule leads to `c'` -/
def RWReaches (c c' : RWCfg) : Prop := ∃ sch, RW.exec callSys Call.isRead c sch = some c'

theorem RWReaches.trans {a b c : RWCfg} (h1 : RWReaches a b) (h2 : RWReaches b c) : RWReaches a c := by
  obtain ⟨s1, e1⟩ := h1
  obtain ⟨s2, e2⟩ := h2
  exact ⟨s1 ++ s2, by rw [rw_exec_append, e1]; exact e2⟩

theorem rwRunThread_reaches (c : RWCfg) (t fuel : Nat) : RWReaches c (rwRunThread c t fuel) := by
  obtain ⟨n, hn⟩ := rwRunThread_sched c t fuel
  exact ⟨_, hn⟩

theorem foldl_reaches (l : List Nat) (c : RWCfg) :
    RWReaches c (l.foldl (fun c i => rwRunThread c (i + 1) 4) c) := by
  induction l generalizing c with
  | nil => exact ⟨[], rfl⟩
  | cons i l ih => exact (rwRunThread_reaches c (i + 1) 4).trans (ih _)

/-- the configuration the driver ends in is reached by a schedule of the readers-writer machine from the initial one -/
theorem rwWindow_is_a_schedule (s : S) (reads : List Call) (w : Call) :
    RWReaches (RW.init s (rwProgsOf reads w)) (rwWindow s reads w).cfg := by
  simp only [rwWindow]
  exact (((rwRunThread_reaches _ 0 1).trans (foldl_reaches _ _)).trans (rwRunThread_reaches _ 0 4)).trans
    (rwRunThread_reaches _ _ 6)

/-! ### examples used by `Props/C16.lean` -/

/-- programs of the example: two readers, one writer -/
def rwProgs : Nat → List Call
  | 0 => [.cap 1 true]
  | 1 => [.lastUsed 0]
  | 2 => [.use 1 2]
  | _ => []

/-- root 3, child 9, one unit granted to the child -/
def rwStart : S := run (init 3) [.newChild 0 9, .use 1 1]

/-- two goroutines, each `Use(2)` on a root of capacity 2 -/
def twoUsers : Nat → List Call
  | 0 => [.use 0 2]
  | 1 => [.use 0 2]
  | _ => []

end RL
