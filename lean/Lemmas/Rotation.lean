import Model.Rotation
/-! C12 helper lemmas. The first two parts are the text type-checked during design (DESIGN.md Appendix C, blocks
    b021/b027), re-based on `Model/Rotation.lean`; the rest lifts them over histories of operations. Core-only. -/
namespace Rot

/-- `Write` returns after at most one rotation (false for the unrepaired code when |b| > maxSize) -/
theorem reopen_after_rotate (cfg : Cfg) (t : St) : (openIfNeeded (rotate cfg t)).size = 0 := by
  have h0 : (rotate cfg t).files 0 = none := by simp [rotate, rotateFiles_eq_shift, shift]
  have hc : (rotate cfg t).isOpen = false := rfl
  unfold openIfNeeded
  simp [hc, h0]

/-- `Write` returns after at most one rotation (false for the unrepaired code when |b| > maxSize) -/
theorem write_terminates (cfg : Cfg) (s : St) (b : Bytes) :
    (∃ s', writeStep cfg s b = .done s') ∨
    (∃ s1 s', writeStep cfg s b = .again s1 ∧ writeStep cfg s1 b = .done s') := by
  unfold writeStep
  simp only
  generalize openIfNeeded s = t
  split
  · right
    refine ⟨rotate cfg t, ?_⟩
    simp only [true_and]
    have hs := reopen_after_rotate cfg t
    simp [hs]
  · left; exact ⟨_, rfl⟩


/-! ### the retained files are a suffix of everything written -/

theorem retainedUpTo_congr (f g : Files) (m : Nat) (h : ∀ j ≤ m, f j = g j) : retainedUpTo f m = retainedUpTo g m := by
  induction m with
  | zero => simp [retainedUpTo, content, h 0 (Nat.le_refl 0)]
  | succ k ih =>
    simp only [retainedUpTo, content, h (k+1) (Nat.le_refl _)]
    rw [ih (fun j hj => h j (by omega))]

/-- appending to the current file appends to the retained stream -/
theorem retained_append (f : Files) (b : Bytes) (m : Nat) :
    retainedUpTo (f.set 0 (some (content f 0 ++ b))) m = retainedUpTo f m ++ b := by
  induction m with
  | zero => simp [retainedUpTo, content, Files.set]
  | succ k ih =>
    simp only [retainedUpTo]
    have : content (f.set 0 (some (content f 0 ++ b))) (k+1) = content f (k+1) := by simp [content, Files.set]
    rw [this, ih, List.append_assoc]

/-- creating the (absent) current file does not change the retained stream -/
theorem retained_create (f : Files) (h : f 0 = none) (m : Nat) : retainedUpTo (f.set 0 (some [])) m = retainedUpTo f m := by
  have := retained_append f [] m
  simpa [content, h] using this

/-- rotation drops exactly the oldest file from the front -/
theorem retained_shift (cfg : Cfg) (f : Files) :
    retained cfg f = content f cfg.maxBackups ++ retained cfg (shift cfg f) ∨
    (cfg.maxBackups = 0 ∧ retained cfg (shift cfg f) = []) := by
  by_cases h0 : cfg.maxBackups = 0
  · right; refine ⟨h0, ?_⟩; simp [retained, h0, retainedUpTo, content, shift]
  · left
    unfold retained
    -- generalise: for every m ≤ maxBackups with m ≥ 1
    have key : ∀ m, m ≤ cfg.maxBackups → retainedUpTo (shift cfg f) m = (match m with | 0 => [] | k+1 => retainedUpTo f k) := by
      intro m hm
      induction m with
      | zero => simp [retainedUpTo, content, shift]
      | succ k ih =>
        simp only [retainedUpTo]
        have e : content (shift cfg f) (k+1) = content f k := by simp [content, shift, hm]
        rw [e, ih (by omega)]
        cases k with
        | zero => simp [retainedUpTo]
        | succ j => simp [retainedUpTo]
    obtain ⟨k, hk⟩ : ∃ k, cfg.maxBackups = k + 1 := ⟨cfg.maxBackups - 1, by omega⟩
    rw [hk, key (k+1) (by omega)]
    simp [retainedUpTo]

theorem open_retained (cfg : Cfg) (t : St) : retained cfg (openIfNeeded t).files = retained cfg t.files := by
  unfold openIfNeeded
  split
  · rfl
  · split
    · rfl
    · rename_i h; exact retained_create t.files h _

/-- one `Write` keeps "retained is a suffix of everything" -/
theorem write_suffix (cfg : Cfg) (s : St) (b : Bytes) :
    ∃ pre, retained cfg s.files ++ b = pre ++ retained cfg (write cfg s b).files := by
  have hopen := open_retained cfg s
  have hdone : ∀ t : St, retained cfg (t.files.set 0 (some ((t.files 0).getD [] ++ b))) = retained cfg t.files ++ b := by
    intro t; exact retained_append t.files b _
  unfold write
  cases h1 : writeStep cfg s b with
  | done s' =>
    simp only
    unfold writeStep at h1
    simp only at h1
    split at h1
    · cases h1
    · cases h1
      refine ⟨[], ?_⟩
      simp [hdone, hopen]
  | again s1 =>
    simp only
    unfold writeStep at h1
    simp only at h1
    split at h1
    · cases h1
      -- s1 = rotate cfg (openIfNeeded s)
      have hrot := retained_shift cfg (openIfNeeded s).files
      have hs0 := reopen_after_rotate cfg (openIfNeeded s)
      have hfiles : (rotate cfg (openIfNeeded s)).files = shift cfg (openIfNeeded s).files := by
        simp [rotate, rotateFiles_eq_shift]
      have hopen2 : retained cfg (openIfNeeded (rotate cfg (openIfNeeded s))).files = retained cfg (shift cfg (openIfNeeded s).files) := by
        rw [open_retained, hfiles]
      unfold writeStep
      simp only [hs0]
      simp only [Nat.lt_irrefl, false_and, if_false, hdone, hopen2]
      rcases hrot with hrot | ⟨_, hrot⟩
      · refine ⟨content (openIfNeeded s).files cfg.maxBackups, ?_⟩
        rw [← hopen, hrot, List.append_assoc]
      · refine ⟨retained cfg s.files, ?_⟩
        rw [hrot]; simp
    · cases h1


/-- the size counter tracks the current file whenever it is open -/
def Track (s : St) : Prop := s.isOpen = true → ∃ c, s.files 0 = some c ∧ s.size = c.length

theorem track_open (s : St) (h : Track s) : Track (openIfNeeded s) ∧ (openIfNeeded s).isOpen = true := by
  unfold openIfNeeded
  split
  · rename_i ho; exact ⟨h, ho⟩
  · split
    · rename_i c hc
      exact ⟨fun _ => ⟨c, hc, rfl⟩, rfl⟩
    · exact ⟨fun _ => ⟨[], by simp [Files.set], rfl⟩, rfl⟩

/-- one step: either a rotation, or the bytes are appended and the new length is bounded -/
theorem writeStep_done (cfg : Cfg) (s s' : St) (b : Bytes) (ht : Track s) (h : writeStep cfg s b = .done s') :
    Track s' ∧ s'.isOpen = true ∧
      ∃ c, s'.files 0 = some c ∧ (c.length ≤ cfg.maxSize ∨ ((openIfNeeded s).size = 0 ∧ c.length = b.length)) := by
  unfold writeStep at h
  simp only at h
  obtain ⟨hto, hopen⟩ := track_open s ht
  generalize openIfNeeded s = t at h hto hopen
  obtain ⟨c0, hc0, hsz⟩ := hto hopen
  split at h
  · cases h
  · rename_i hcond
    injection h with h
    subst h
    refine ⟨fun _ => ⟨c0 ++ b, by simp [Files.set, hc0], by simp [hsz]⟩, hopen, c0 ++ b, by simp [Files.set, hc0], ?_⟩
    simp only [List.length_append]
    by_cases h0 : t.size = 0
    · right; exact ⟨h0, by omega⟩
    · left; simp only [not_and, Nat.not_lt] at hcond; have := hcond (by omega); omega

/-- **size bound**: after `Write(b)` the current file is no longer than `max(MaxSize, |b|)` — an over-long record
    gets a file of its own, everything else stays within MaxSize -/
theorem write_size (cfg : Cfg) (s : St) (b : Bytes) (ht : Track s) :
    Track (write cfg s b) ∧ ∃ c, (write cfg s b).files 0 = some c ∧ c.length ≤ max cfg.maxSize b.length := by
  unfold write
  rcases write_terminates cfg s b with ⟨s', h⟩ | ⟨s1, s', h1, h2⟩
  · rw [h]
    obtain ⟨t1, _, c, hc, hb⟩ := writeStep_done cfg s s' b ht h
    exact ⟨t1, c, hc, by rcases hb with hb | ⟨_, hb⟩ <;> omega⟩
  · rw [h1]; simp only [h2]
    have ht1 : Track s1 := by
      unfold writeStep at h1
      simp only at h1
      split at h1
      · injection h1 with h1; subst h1; intro ho; cases ho
      · cases h1
    obtain ⟨t1, _, c, hc, hb⟩ := writeStep_done cfg s1 s' b ht1 h2
    exact ⟨t1, c, hc, by rcases hb with hb | ⟨_, hb⟩ <;> omega⟩

/-- **backup count**: no file with an index above MaxBackups is ever created, removed or changed -/
theorem write_frame (cfg : Cfg) (s : St) (b : Bytes) (j : Nat) (hj : cfg.maxBackups < j) :
    (write cfg s b).files j = s.files j := by
  have hj0 : j ≠ 0 := by omega
  have hjm : ¬ j ≤ cfg.maxBackups := by omega
  have hopen : ∀ t : St, (openIfNeeded t).files j = t.files j := by
    intro t; unfold openIfNeeded
    split
    · rfl
    · split
      · rfl
      · simp [Files.set, hj0]
  have hstep : ∀ t : St, (writeStep cfg t b).st.files j = t.files j := by
    intro t
    unfold writeStep
    simp only
    split
    · show (rotate cfg (openIfNeeded t)).files j = t.files j
      rw [← hopen t]
      simp only [rotate, rotateFiles_eq_shift, shift, hj0, hjm, if_false]
    · show (Files.set _ 0 _) j = t.files j
      rw [← hopen t]
      simp [Files.set, hj0]
  unfold write
  have h1 := hstep s
  cases hw : writeStep cfg s b with
  | done s' => rw [hw] at h1; exact h1
  | again s1 =>
    rw [hw] at h1
    have h2 := hstep s1
    cases hw2 : writeStep cfg s1 b with
    | done s' => rw [hw2] at h2; simp only [hw2]; exact h2.trans h1
    | again s2 => rw [hw2] at h2; simp only [hw2]; exact h2.trans h1


end Rot
