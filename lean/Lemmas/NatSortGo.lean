import Lemmas.NatSort
import Model.NatSortGo
/-! C20: the index-level transcription of `NaturalCmp` (Model/NatSortGo.lean) computes the chunk-level model
(`NatSort.ncmp`), for every pair of byte strings. -/
namespace NatSortGo
open NatSort

/-- `g` reads the bytes of `l` -/
def Reads (g : Nat → Nat) (l : List Nat) : Prop := ∀ i (h : i < l.length), g i = l[i]

theorem skipZeros_spec (l : List Nat) (g : Nat → Nat) (hg : Reads g l) (i : Nat) :
    skipZeros l.length g i = i + (dropZeros (l.drop i)).1 := by
  induction k : l.length - i generalizing i with
  | zero =>
    have hle : l.length ≤ i := by omega
    rw [skipZeros]
    have : ¬ (i < l.length ∧ g i = 48) := by omega
    simp [this, List.drop_eq_nil_of_le hle, dropZeros]
  | succ k ih =>
    have hi : i < l.length := by omega
    rw [skipZeros, List.drop_eq_getElem_cons hi, ← hg i hi]
    by_cases hz : g i = 48
    · simp only [hi, hz, and_self, dite_true, dropZeros]
      rw [ih (i + 1) (by omega)]; omega
    · simp [hz, dropZeros_ne48 _ _ hz]

theorem dropZeros_snd (l : List Nat) : (dropZeros l).2 = l.drop (dropZeros l).1 := by
  induction l with
  | nil => simp [dropZeros]
  | cons c t ih =>
    by_cases h : c = 48
    · subst h; simp [dropZeros, ih]
    · simp [dropZeros_ne48 _ _ h]

theorem takeDigits_snd (l : List Nat) : (takeDigits l).2 = l.drop (takeDigits l).1.length := by
  induction l with
  | nil => simp [takeDigits]
  | cons c t ih =>
    simp only [takeDigits]; split <;> simp [ih]

theorem takeDigits_fst (l : List Nat) : (takeDigits l).1 = l.take (takeDigits l).1.length := by
  induction l with
  | nil => simp [takeDigits]
  | cons c t ih =>
    simp only [takeDigits]; split
    · simp; exact ih
    · simp

theorem skipDigits_spec (l : List Nat) (g : Nat → Nat) (hg : Reads g l) (i : Nat) :
    skipDigits l.length g i = i + (takeDigits (l.drop i)).1.length := by
  induction k : l.length - i generalizing i with
  | zero =>
    have hle : l.length ≤ i := by omega
    rw [skipDigits]
    have : ¬ (i < l.length ∧ 48 ≤ g i ∧ g i ≤ 57) := by omega
    simp [this, List.drop_eq_nil_of_le hle, takeDigits]
  | succ k ih =>
    have hi : i < l.length := by omega
    rw [skipDigits, List.drop_eq_getElem_cons hi, ← hg i hi]
    by_cases hd : 48 ≤ g i ∧ g i ≤ 57
    · have hd' : isDigit (g i) = true := by simpa [isDigit] using hd
      simp only [hi, hd, and_self, dite_true, takeDigits, hd', if_true, List.length_cons]
      rw [ih (i + 1) (by omega)]; omega
    · have hd' : isDigit (g i) = false := by
        simp only [isDigit]; simp only [Bool.and_eq_false_iff, decide_eq_false_iff_not]
        by_cases h48 : 48 ≤ g i
        · right; omega
        · left; exact h48
      have : ¬ (i < l.length ∧ 48 ≤ g i ∧ g i ≤ 57) := fun h => hd h.2
      simp [this, takeDigits, hd']

theorem slice_spec (l : List Nat) (g : Nat → Nat) (hg : Reads g l) (lo hi : Nat) (hhi : hi ≤ l.length) :
    slice g lo hi = (l.drop lo).take (hi - lo) := by
  apply List.ext_getElem
  · simp [slice]; omega
  · intro k h1 h2
    simp [slice] at h1 ⊢
    exact hg (lo + k) (by omega)

/-- the three pieces of a digit chunk, at index level: after the zeros `nz = i + zc`, after the digits
    `e = nz + |dg|`, the digits are `s[nz:e]` and the rest is `s[e:]` -/
theorem chunk_index (l : List Nat) (g : Nat → Nat) (hg : Reads g l) (i : Nat) (hi : i ≤ l.length) :
    let nz := skipZeros l.length g i
    let e := skipDigits l.length g nz
    nz = i + zc (l.drop i) ∧ e = nz + (dg (l.drop i)).length ∧ slice g nz e = dg (l.drop i) ∧
      l.drop e = rs (l.drop i) ∧ e ≤ l.length := by
  intro nz e
  have hnz : nz = i + zc (l.drop i) := skipZeros_spec l g hg i
  have hdz : (dropZeros (l.drop i)).2 = l.drop nz := by
    rw [dropZeros_snd, List.drop_drop, hnz]; rfl
  have he : e = nz + (dg (l.drop i)).length := by
    show skipDigits l.length g nz = _
    rw [skipDigits_spec l g hg nz]; unfold dg; rw [hdz]
  have hrs : l.drop e = rs (l.drop i) := by
    unfold rs; rw [hdz, takeDigits_snd, List.drop_drop, he]; unfold dg; rw [hdz]
  have hle : e ≤ l.length := skipDigits_le _ _ _ (skipZeros_le _ _ _ hi)
  refine ⟨hnz, he, ?_, hrs, hle⟩
  rw [slice_spec l g hg nz e hle]
  have : e - nz = (dg (l.drop i)).length := by omega
  rw [this]; unfold dg; rw [hdz]; exact (takeDigits_fst _).symm

theorem skipZeros_idem (n : Nat) (g : Nat → Nat) (i : Nat) : skipZeros n g (skipZeros n g i) = skipZeros n g i := by
  fun_induction skipZeros n g i with
  | case1 i h ih => exact ih
  | case2 i h => rw [skipZeros]; simp [h]

theorem fold_go (ci : Bool) (c : Nat) :
    (if ci then (if 97 ≤ c ∧ c ≤ 122 then c - 32 else c) else c) = fold ci c := by
  cases ci <;> simp [fold]

theorem ordInt_cmpNat (a b : Nat) (h : a ≠ b) : ordInt (cmpNat a b) = if a < b then -1 else 1 := by
  unfold cmpNat
  by_cases h1 : a < b
  · simp [h1, ordInt]
  · have : a > b := by omega
    simp [h1, this, ordInt]

theorem ordInt_cmpBytes (a b : List Nat) (h : a ≠ b) : ordInt (cmpBytes a b) = if a < b then -1 else 1 := by
  by_cases h1 : a < b
  · simp [h1, (cmpBytes_lt_iff a b).mpr h1, ordInt]
  · simp only [h1, if_false]
    cases hc : cmpBytes a b
    · exact absurd ((cmpBytes_lt_iff a b).mp hc) h1
    · exact absurd ((cmpBytes_eq_iff a b).mp hc) h
    · rfl

/-- the loop, started with both indices at the same position `i`, is the chunk-level loop on the two suffixes -/
theorem goLoop_spec (ci : Bool) (l1 l2 : List Nat) (g1 g2 : Nat → Nat) (h1 : Reads g1 l1) (h2 : Reads g2 l2) (i : Nat) :
    goLoop ci l1.length l2.length g1 g2 i i = (ncmpLoop ci (l1.drop i) (l2.drop i)).map ordInt := by
  induction k : l1.length - i using Nat.strongRecOn generalizing i with
  | _ k ih =>
    rw [goLoop]
    by_cases hlt : i < l1.length ∧ i < l2.length
    · obtain ⟨hi1, hi2⟩ := hlt
      have e1 := List.drop_eq_getElem_cons hi1
      have e2 := List.drop_eq_getElem_cons hi2
      rw [← h1 i hi1] at e1
      rw [← h2 i hi2] at e2
      simp only [hi1, hi2, and_self, dite_true]
      conv => rhs; rw [e1, e2, ncmpLoop]
      by_cases hdd : isDigit (g1 i) = isDigit (g2 i)
      · by_cases hd : isDigit (g1 i) = false
        · have hd2 : isDigit (g2 i) = false := by rw [← hdd]; exact hd
          simp only [hd, hd2, bne_self_eq_false, Bool.false_eq_true, if_false, dite_true, fold_go]
          by_cases hf : fold ci (g1 i) = fold ci (g2 i)
          · simp only [hf, bne_self_eq_false, Bool.false_eq_true, if_false]
            exact ih (l1.length - (i + 1)) (by omega) (i + 1) rfl
          · have : (fold ci (g1 i) != fold ci (g2 i)) = true := by simpa using hf
            simp only [this, if_true, Option.map_some, ordInt_cmpNat _ _ hf]
        · have hd1 : isDigit (g1 i) = true := by simpa using hd
          have hd2 : isDigit (g2 i) = true := by rw [← hdd]; exact hd1
          obtain ⟨a1, a2, a3, a4, a5⟩ := chunk_index l1 g1 h1 i (by omega)
          obtain ⟨b1, b2, b3, b4, b5⟩ := chunk_index l2 g2 h2 i (by omega)
          rw [← e1, ← e2]
          simp only [hd1, hd2, bne_self_eq_false, Bool.false_eq_true, if_false, dite_false, skipZeros_idem, reduceCtorEq]
          have hl1 : skipDigits l1.length g1 (skipZeros l1.length g1 i) - skipZeros l1.length g1 i
              = (dg (l1.drop i)).length := by omega
          have hl2 : skipDigits l2.length g2 (skipZeros l2.length g2 i) - skipZeros l2.length g2 i
              = (dg (l2.drop i)).length := by omega
          rw [hl1, hl2, a3, b3]
          by_cases hlen : (dg (l1.drop i)).length = (dg (l2.drop i)).length
          · simp only [hlen, bne_self_eq_false, Bool.false_eq_true, if_false]
            by_cases hdg : dg (l1.drop i) = dg (l2.drop i)
            · simp only [hdg, bne_self_eq_false, Bool.false_eq_true, if_false]
              by_cases hz : zc (l1.drop i) = zc (l2.drop i)
              · have hnz : skipZeros l1.length g1 i = skipZeros l2.length g2 i := by omega
                have hee : skipDigits l2.length g2 (skipZeros l2.length g2 i)
                    = skipDigits l1.length g1 (skipZeros l1.length g1 i) := by omega
                have t2 : (skipZeros l1.length g1 i != skipZeros l2.length g2 i) = false := by simpa using hnz
                have t3 : (zc (l1.drop i) != zc (l2.drop i)) = false := by simpa using hz
                simp only [t2, t3, Bool.false_eq_true, if_false]
                rw [← a4, ← b4, hee]
                have hprog := digit_progress l1.length g1 i hi1 hd1
                rw [skipZeros_idem] at hprog
                exact ih _ (by omega) _ rfl
              · have hnz : skipZeros l1.length g1 i ≠ skipZeros l2.length g2 i := by omega
                have t1 : (zc (l1.drop i) != zc (l2.drop i)) = true := by simpa using hz
                have t2 : (skipZeros l1.length g1 i != skipZeros l2.length g2 i) = true := by simpa using hnz
                simp only [t1, t2, if_true, Option.map_some, ordInt_cmpNat _ _ hz]
                congr 1
                by_cases hh : zc (l1.drop i) < zc (l2.drop i)
                · have : skipZeros l1.length g1 i < skipZeros l2.length g2 i := by omega
                  simp [hh, this]
                · have : ¬ skipZeros l1.length g1 i < skipZeros l2.length g2 i := by omega
                  simp [hh, this]
            · have t1 : (dg (l1.drop i) != dg (l2.drop i)) = true := by simpa using hdg
              simp only [t1, if_true, Option.map_some, ordInt_cmpBytes _ _ hdg]
          · have t1 : ((dg (l1.drop i)).length != (dg (l2.drop i)).length) = true := by simpa using hlen
            simp only [t1, if_true, Option.map_some, ordInt_cmpNat _ _ hlen]
      · have t : (isDigit (g1 i) != isDigit (g2 i)) = true := by simpa using hdd
        simp only [t, if_true, Option.map_some]
        cases hx : isDigit (g1 i) <;> simp [ordInt]
    · simp only [hlt, dite_false]
      by_cases hi1 : i < l1.length
      · have hi2 : l2.length ≤ i := by omega
        rw [List.drop_eq_nil_of_le hi2, List.drop_eq_getElem_cons hi1, ncmpLoop]
        · rfl
        · simp; exact hi1
      · rw [List.drop_eq_nil_of_le (by omega), ncmpLoop]; rfl

/-- the index-level transcription computes the chunk-level model -/
theorem goCmp_spec (ci : Bool) (l1 l2 : List Nat) (g1 g2 : Nat → Nat) (h1 : Reads g1 l1) (h2 : Reads g2 l2) :
    goCmp ci l1.length l2.length g1 g2 = naturalCmp l1 l2 ci := by
  unfold goCmp naturalCmp ncmp
  rw [goLoop_spec ci l1 l2 g1 g2 h1 h2 0, goLoop_spec false l1 l2 g1 g2 h1 h2 0]
  simp only [List.drop_zero]
  cases hA : ncmpLoop ci l1 l2 with
  | some r => rfl
  | none =>
    simp only [Option.map_none]
    by_cases hl : l1.length = l2.length
    · simp only [hl, if_true]
      cases ci
      · simp [ordInt]
      · simp only [if_true]
        cases hB : ncmpLoop false l1 l2 with
        | some r => rfl
        | none => simp [cmpNat, ordInt]
    · simp only [hl, if_false]
      rw [ordInt_cmpNat _ _ hl]

theorem reads_getD (l : List Nat) : Reads (fun i => l.getD i 0) l := by
  intro i h; simp [List.getD, h]

theorem reads_array (a : Array Nat) : Reads (fun i => a.getD i 0) a.toList := by
  intro i h
  have h' : i < a.size := by simpa using h
  simp [Array.getD, h']

end NatSortGo

namespace NatSort

theorem rs_subset (l : List Nat) : ∀ x ∈ rs l, x ∈ l := by
  intro x hx
  have := recon l
  rw [← this]; simp [hx]

/-- the key depends on the case mode only through the folding of the bytes that occur -/
theorem key_congr (ci ci' : Bool) (s : List Nat) (h : ∀ c ∈ s, fold ci c = fold ci' c) : key ci s = key ci' s := by
  fun_induction key ci s with
  | case1 => simp [key]
  | case2 c t hd ih =>
    rw [key_digit_cons ci' c t hd, ih (fun x hx => h x (rs_subset _ x hx))]
  | case3 c t hd ih =>
    have hd' : isDigit c = false := by simpa using hd
    conv => rhs; rw [key]
    simp only [hd', Bool.false_eq_true, dite_false]
    rw [h c (by simp), ih (fun x hx => h x (by simp [hx]))]

theorem then_self (o : Ordering) : o.then o = o := by cases o <;> rfl

/-- without lower-case ASCII letters the two case modes coincide -/
theorem ncmp_ci_eq_cs (a b : List Nat) (ha : ∀ c ∈ a, ¬ (97 ≤ c ∧ c ≤ 122)) (hb : ∀ c ∈ b, ¬ (97 ≤ c ∧ c ≤ 122)) :
    ncmp a b true = ncmp a b false := by
  have f : ∀ c, ¬ (97 ≤ c ∧ c ≤ 122) → fold true c = fold false c := by
    intro c hc
    simp only [fold, Bool.true_and, Bool.false_and, Bool.false_eq_true, if_false]
    have : (decide (97 ≤ c) && decide (c ≤ 122)) = false := by
      simp only [Bool.and_eq_false_iff, decide_eq_false_iff_not]
      by_cases h97 : 97 ≤ c
      · right; exact fun h => hc ⟨h97, h⟩
      · left; exact h97
    simp [this]
  rw [ncmp_lex, ncmp_lex, key_congr true false a (fun c hc => f c (ha c hc)),
    key_congr true false b (fun c hc => f c (hb c hc))]
  simp [then_self]

end NatSort
