import Model.Mutex
/-! # Linearizability, mutual exclusion and progress of the generic mutex-bracket machine (`Model/Mutex.lean`).
    Core-only.  See the header of `Model/Mutex.lean` for how to instantiate. -/
namespace Mutex

variable {σ Op κ ρ : Type}

/-! ### small facts -/

theorem upd_same {α : Type} (f : Nat → α) (t : Nat) (v : α) : upd f t v t = v := by simp [upd]
theorem upd_other {α : Type} (f : Nat → α) (t i : Nat) (v : α) (h : i ≠ t) : upd f t v i = f i := by simp [upd, h]

theorem Reach.runs {S : Sys σ Op κ ρ} {k s k' s' r s''} (h : Reach S k s k' s') (hr : Runs S k' s' r s'') :
    Runs S k s r s'' := by
  induction h with
  | refl => exact hr
  | tail _ hd ih => exact ih (Runs.step hd hr)

/-- the micro-steps are deterministic: result and final state of a bracket are functions of its start -/
theorem Runs.det {S : Sys σ Op κ ρ} {k s r₁ s₁ r₂ s₂} (h₁ : Runs S k s r₁ s₁) (h₂ : Runs S k s r₂ s₂) :
    r₁ = r₂ ∧ s₁ = s₂ := by
  induction h₁ with
  | fin hd =>
    cases h₂ with
    | fin hd' => rw [hd] at hd'; cases hd'; exact ⟨rfl, rfl⟩
    | step hn _ => rw [hd] at hn; cases hn
  | step hn _ ih =>
    cases h₂ with
    | fin hd' => rw [hn] at hd'; cases hd'
    | step _ h' => exact ih h'

theorem SeqRuns.snoc {S : Sys σ Op κ ρ} {s s' s'' l t op r} (h : SeqRuns S s l s') (hr : Runs S (S.start op) s' r s'') :
    SeqRuns S s (l ++ [(t, op, r)]) s'' := by
  induction h with
  | nil => exact SeqRuns.cons hr SeqRuns.nil
  | cons h1 _ ih => exact SeqRuns.cons h1 (ih hr)

/-- a sequential execution is determined by the operations alone: two valid logs with the same operations have the
    same results and end in the same state -/
theorem SeqRuns.det {S : Sys σ Op κ ρ} {s l₁ s₁ l₂ s₂} (h₁ : SeqRuns S s l₁ s₁) (h₂ : SeqRuns S s l₂ s₂)
    (he : strip l₁ = strip l₂) : l₁ = l₂ ∧ s₁ = s₂ := by
  induction h₁ generalizing l₂ s₂ with
  | nil =>
    cases h₂ with
    | nil => exact ⟨rfl, rfl⟩
    | cons _ _ => simp [strip] at he
  | cons hr _ ih =>
    cases h₂ with
    | nil => simp [strip] at he
    | cons hr' hs' =>
      simp only [strip, List.map_cons, List.cons.injEq, Prod.mk.injEq] at he
      obtain ⟨⟨ht, ho⟩, hl⟩ := he
      subst ht; subst ho
      obtain ⟨e1, e2⟩ := Runs.det hr hr'
      subst e1; subst e2
      obtain ⟨e3, e4⟩ := ih hs' hl
      subst e3; subst e4
      exact ⟨rfl, rfl⟩

theorem strip_append (l₁ l₂ : List (Nat × Op × ρ)) : strip (l₁ ++ l₂) = strip l₁ ++ strip l₂ := by simp [strip]

theorem opsOf_append (t : Nat) (l₁ l₂ : List (Nat × Op)) : opsOf t (l₁ ++ l₂) = opsOf t l₁ ++ opsOf t l₂ := by
  simp [opsOf]
theorem opsOf_single_same (t : Nat) (op : Op) : opsOf t [(t, op)] = [op] := by simp [opsOf]
theorem opsOf_single_other (t i : Nat) (op : Op) (h : i ≠ t) : opsOf i [(t, op)] = [] := by
  have : (t == i) = false := by simp; exact fun e => h e.symm
  simp [opsOf, this]
theorem resOf_append (t : Nat) (l₁ l₂ : List (Nat × Op × ρ)) : resOf t (l₁ ++ l₂) = resOf t l₁ ++ resOf t l₂ := by
  simp [resOf]
theorem resOf_single_same (t : Nat) (op : Op) (r : ρ) : resOf t [(t, op, r)] = [r] := by simp [resOf]
theorem resOf_single_other (t i : Nat) (op : Op) (r : ρ) (h : i ≠ t) : resOf i [(t, op, r)] = [] := by
  have : (t == i) = false := by simp; exact fun e => h e.symm
  simp [resOf, this]

/-- the results of thread `t` are read off the log; as operations: the finished part of its acquisitions -/
theorem opsOf_strip (t : Nat) (l : List (Nat × Op × ρ)) : opsOf t (strip l) = ((l.filter fun x => x.1 == t).map (·.2.1)) := by
  induction l with
  | nil => rfl
  | cons x xs ih =>
    simp only [strip, List.map_cons, opsOf, List.filter_cons] at ih ⊢
    by_cases h : (x.1 == t) = true
    · simp only [h, if_true, List.map_cons]; rw [ih]
    · simp only [h]; exact ih

/-! ### the invariant of the locked machine -/

structure Inv (S : Sys σ Op κ ρ) (s₀ : σ) (progs : Nat → List Op) (c : Config σ Op κ ρ) : Prop where
  /-- the lock word names exactly the thread that is inside a bracket -/
  hold : ∀ t, ((c.threads t).cur.isSome = true ↔ c.holder = some t)
  /-- the log is a one-at-a-time execution; the shared state is its final state, advanced by the micro-steps of the
      operation in progress (if any) -/
  lin : ∃ sm, SeqRuns S s₀ c.log sm ∧
      match c.holder with
      | none => c.shared = sm ∧ c.acq = strip c.log
      | some t => ∃ op k, (c.threads t).cur = some (op, k) ∧ Reach S (S.start op) sm k c.shared ∧
                    c.acq = strip c.log ++ [(t, op)]
  res : ∀ t, (c.threads t).res = resOf t c.log
  ord : ∀ t, opsOf t c.acq ++ (c.threads t).todo = progs t

theorem inv_init (S : Sys σ Op κ ρ) (s₀ : σ) (progs : Nat → List Op) : Inv S s₀ progs (init s₀ progs) where
  hold := by intro t; simp [init]
  lin := ⟨s₀, SeqRuns.nil, by simp [init, strip]⟩
  res := by intro t; simp [init, resOf]
  ord := by intro t; simp [init, opsOf]

theorem inv_step (S : Sys σ Op κ ρ) (s₀ : σ) (progs : Nat → List Op) (c c' : Config σ Op κ ρ) (t : Nat)
    (hi : Inv S s₀ progs c) (hs : step S true c t = some c') : Inv S s₀ progs c' := by
  unfold step at hs
  cases hcur : (c.threads t).cur with
  | none =>
    rw [hcur] at hs
    simp only at hs
    cases htodo : (c.threads t).todo with
    | nil => rw [htodo] at hs; cases hs
    | cons op rest =>
      rw [htodo] at hs
      simp only [Bool.true_and] at hs
      cases hh : c.holder with
      | some h => rw [hh] at hs; simp at hs
      | none =>
        rw [hh] at hs
        simp only [Option.isSome_none, Bool.false_eq_true, if_false, Option.some.injEq] at hs
        subst hs
        obtain ⟨sm, hseq, hl⟩ := hi.lin
        rw [hh] at hl
        simp only at hl
        obtain ⟨hsh, hacq⟩ := hl
        refine ⟨?_, ?_, ?_, ?_⟩
        · intro i
          by_cases hit : i = t
          · subst hit; simp [upd_same]
          · simp only [upd_other _ _ _ _ hit]
            have := (hi.hold i)
            rw [hh] at this
            constructor
            · intro h1; exact absurd (this.1 h1) (by simp)
            · intro h1; simp only [Option.some.injEq] at h1; exact absurd h1.symm hit
        · refine ⟨sm, hseq, ?_⟩
          simp only
          refine ⟨op, S.start op, by simp [upd_same], ?_, by rw [hacq]⟩
          rw [hsh]; exact Reach.refl
        · intro i
          by_cases hit : i = t
          · subst hit; simp only [upd_same]; exact hi.res i
          · simp only [upd_other _ _ _ _ hit]; exact hi.res i
        · intro i
          by_cases hit : i = t
          · subst hit
            simp only [upd_same, opsOf_append, opsOf_single_same]
            have := hi.ord i
            rw [htodo] at this
            rw [← this]; simp
          · simp only [upd_other _ _ _ _ hit, opsOf_append, opsOf_single_other _ _ _ hit, List.append_nil]
            exact hi.ord i
  | some ok =>
    obtain ⟨op, k⟩ := ok
    rw [hcur] at hs
    simp only at hs
    have hholder : c.holder = some t := (hi.hold t).1 (by simp [hcur])
    obtain ⟨sm, hseq, hl⟩ := hi.lin
    rw [hholder] at hl
    simp only at hl
    obtain ⟨op', k', hc', hreach, hacq⟩ := hl
    rw [hcur] at hc'
    simp only [Option.some.injEq, Prod.mk.injEq] at hc'
    obtain ⟨e1, e2⟩ := hc'
    subst e1; subst e2
    cases hd : S.done k with
    | some r =>
      rw [hd] at hs
      simp only [Option.some.injEq] at hs
      subst hs
      refine ⟨?_, ?_, ?_, ?_⟩
      · intro i
        by_cases hit : i = t
        · subst hit; simp [upd_same]
        · simp only [upd_other _ _ _ _ hit]
          have := hi.hold i
          rw [hholder] at this
          constructor
          · intro h1; have := this.1 h1; simp only [Option.some.injEq] at this; exact absurd this.symm hit
          · intro h1; cases h1
      · refine ⟨c.shared, SeqRuns.snoc hseq (Reach.runs hreach (Runs.fin hd)), ?_⟩
        simp only
        refine ⟨trivial, ?_⟩
        rw [hacq, strip_append]; simp [strip]
      · intro i
        by_cases hit : i = t
        · subst hit
          simp only [upd_same, resOf_append, resOf_single_same]
          rw [hi.res i]
        · simp only [upd_other _ _ _ _ hit, resOf_append, resOf_single_other _ _ _ _ hit, List.append_nil]
          exact hi.res i
      · intro i
        by_cases hit : i = t
        · subst hit; simp only [upd_same]; exact hi.ord i
        · simp only [upd_other _ _ _ _ hit]; exact hi.ord i
    | none =>
      rw [hd] at hs
      simp only [Option.some.injEq] at hs
      subst hs
      refine ⟨?_, ?_, ?_, ?_⟩
      · intro i
        by_cases hit : i = t
        · subst hit; simp [upd_same, hholder]
        · simp only [upd_other _ _ _ _ hit]; exact hi.hold i
      · refine ⟨sm, hseq, ?_⟩
        simp only [hholder]
        exact ⟨op, (S.micro k c.shared).1, by simp [upd_same], Reach.tail hreach hd, hacq⟩
      · intro i
        by_cases hit : i = t
        · subst hit; simp only [upd_same]; exact hi.res i
        · simp only [upd_other _ _ _ _ hit]; exact hi.res i
      · intro i
        by_cases hit : i = t
        · subst hit; simp only [upd_same]; exact hi.ord i
        · simp only [upd_other _ _ _ _ hit]; exact hi.ord i

theorem inv_exec (S : Sys σ Op κ ρ) (s₀ : σ) (progs : Nat → List Op) (sch : List Nat) (c c' : Config σ Op κ ρ)
    (hi : Inv S s₀ progs c) (he : exec S true c sch = some c') : Inv S s₀ progs c' := by
  induction sch generalizing c with
  | nil => simp only [exec, Option.some.injEq] at he; subst he; exact hi
  | cons t ts ih =>
    simp only [exec] at he
    cases hs : step S true c t with
    | none => rw [hs] at he; cases he
    | some c₁ => rw [hs] at he; exact ih c₁ (inv_step S s₀ progs c c₁ t hi hs) he

/-- every configuration reached by any schedule of the locked machine satisfies the invariant -/
theorem inv_reachable (S : Sys σ Op κ ρ) (s₀ : σ) (progs : Nat → List Op) (sch : List Nat) (c : Config σ Op κ ρ)
    (he : exec S true (init s₀ progs) sch = some c) : Inv S s₀ progs c :=
  inv_exec S s₀ progs sch _ c (inv_init S s₀ progs) he

/-! ### the theorems -/

/-- **Mutual exclusion**: under every schedule at most one thread is inside a bracket. -/
theorem mutual_exclusion (S : Sys σ Op κ ρ) (s₀ : σ) (progs : Nat → List Op) (sch : List Nat) (c : Config σ Op κ ρ)
    (he : exec S true (init s₀ progs) sch = some c) (t t' : Nat)
    (h : (c.threads t).cur.isSome = true) (h' : (c.threads t').cur.isSome = true) : t = t' := by
  have hi := inv_reachable S s₀ progs sch c he
  have a := (hi.hold t).1 h
  have b := (hi.hold t').1 h'
  rw [a] at b; simpa using b

/-- **Linearizability**, for EVERY schedule of the locked machine.  With `c` the configuration reached:
    1. the log of finished operations — which is in the order in which they acquired the mutex — is a valid
       one-at-a-time execution from the initial state, ending in some state `sm`;
    2. whenever the mutex is free, the shared state IS `sm` and every acquisition is in the log; while it is held by
       `t`, the shared state is `sm` advanced by micro-steps of `t`'s operation only, which is the last acquisition;
    3. every thread's results are the results of that one-at-a-time execution;
    4. the acquisition order respects every thread's program order (its acquisitions followed by what it still has
       to do are its program). -/
theorem linearizable (S : Sys σ Op κ ρ) (s₀ : σ) (progs : Nat → List Op) (sch : List Nat) (c : Config σ Op κ ρ)
    (he : exec S true (init s₀ progs) sch = some c) :
    ∃ sm, SeqRuns S s₀ c.log sm ∧
      (c.holder = none → c.shared = sm ∧ c.acq = strip c.log) ∧
      (∀ t, c.holder = some t → ∃ op k, (c.threads t).cur = some (op, k) ∧ Reach S (S.start op) sm k c.shared ∧
          c.acq = strip c.log ++ [(t, op)]) ∧
      (∀ t, (c.threads t).res = resOf t c.log) ∧
      (∀ t, opsOf t c.acq ++ (c.threads t).todo = progs t) := by
  have hi := inv_reachable S s₀ progs sch c he
  obtain ⟨sm, hseq, hl⟩ := hi.lin
  refine ⟨sm, hseq, ?_, ?_, hi.res, hi.ord⟩
  · intro hn; rw [hn] at hl; exact hl
  · intro t ht; rw [ht] at hl; exact hl

/-- when every thread is done: the whole run is the sequential execution of all operations in acquisition order, and
    that order is an interleaving of the threads' programs (each program in its own order, complete) -/
theorem linearizable_complete (S : Sys σ Op κ ρ) (s₀ : σ) (progs : Nat → List Op) (sch : List Nat)
    (c : Config σ Op κ ρ) (he : exec S true (init s₀ progs) sch = some c) (hd : AllDone c) :
    SeqRuns S s₀ c.log c.shared ∧ c.acq = strip c.log ∧
      (∀ t, (c.threads t).res = resOf t c.log) ∧ (∀ t, opsOf t c.acq = progs t) := by
  have hi := inv_reachable S s₀ progs sch c he
  obtain ⟨sm, hseq, h0, _, hres, hord⟩ := linearizable S s₀ progs sch c he
  have hn : c.holder = none := by
    cases hh : c.holder with
    | none => rfl
    | some t =>
      have := (hi.hold t).2 hh
      rw [(hd t).2] at this; cases this
  obtain ⟨e1, e2⟩ := h0 hn
  refine ⟨by rw [e1]; exact hseq, e2, hres, ?_⟩
  intro t; have := hord t; rw [(hd t).1, List.append_nil] at this; exact this

/-- a sequential reference function computes what the micro-steps compute: on an invariant `I` of the instantiator's
    choice (`fun _ => True` if none is needed) a valid log is the reference execution of its operations -/
theorem seqRuns_seqExec (S : Sys σ Op κ ρ) (run : Op → σ → ρ × σ) (I : σ → Prop)
    (hrun : ∀ op s, I s → Runs S (S.start op) s (run op s).1 (run op s).2)
    (hI : ∀ op s, I s → I (run op s).2)
    (s : σ) (l : List (Nat × Op × ρ)) (s' : σ) (hs : I s) (h : SeqRuns S s l s') :
    seqExec run s (strip l) = (l, s') ∧ I s' := by
  induction h with
  | nil => exact ⟨rfl, hs⟩
  | @cons s1 s2 s3 t op r l' hr _ ih =>
    obtain ⟨e1, e2⟩ := Runs.det hr (hrun op s1 hs)
    subst e1
    have hs2 : I s2 := by rw [e2]; exact hI op s1 hs
    obtain ⟨ih1, ih2⟩ := ih hs2
    refine ⟨?_, ih2⟩
    simp only [strip, List.map_cons, seqExec]
    rw [← e2]
    have : seqExec run s2 (List.map (fun x => (x.1, x.2.1)) l') = (l', s3) := ih1
    rw [this]

/-- **Linearizability against a sequential reference function** (the form to instantiate): if the micro-steps of
    every operation compute `run` (on an invariant `I` that holds initially and is kept by `run`), then under EVERY
    schedule, whenever the mutex is free, the log with all results and the shared state are exactly those of calling
    `run` one operation at a time in acquisition order; each thread's results are its part of that log, and the order
    respects each thread's program order. -/
theorem linearizable_fun (S : Sys σ Op κ ρ) (run : Op → σ → ρ × σ) (I : σ → Prop)
    (hrun : ∀ op s, I s → Runs S (S.start op) s (run op s).1 (run op s).2)
    (hI : ∀ op s, I s → I (run op s).2)
    (s₀ : σ) (h0 : I s₀) (progs : Nat → List Op) (sch : List Nat) (c : Config σ Op κ ρ)
    (he : exec S true (init s₀ progs) sch = some c) (hfree : c.holder = none) :
    seqExec run s₀ c.acq = (c.log, c.shared) ∧ I c.shared ∧
      (∀ t, (c.threads t).res = resOf t c.log) ∧
      (∀ t, opsOf t c.acq ++ (c.threads t).todo = progs t) := by
  obtain ⟨sm, hseq, hf, _, hres, hord⟩ := linearizable S s₀ progs sch c he
  obtain ⟨e1, e2⟩ := hf hfree
  obtain ⟨h1, h2⟩ := seqRuns_seqExec S run I hrun hI s₀ c.log sm h0 hseq
  exact ⟨by rw [e1, e2]; exact h1, by rw [e1]; exact h2, hres, hord⟩

/-- **Progress / deadlock-freedom**: in every configuration reached by any schedule, some thread is enabled — unless
    every thread has finished its program.  (The holder of the mutex can always take its next micro-step or release;
    if the mutex is free, any thread with work left can acquire it.) -/
theorem progress (S : Sys σ Op κ ρ) (s₀ : σ) (progs : Nat → List Op) (sch : List Nat) (c : Config σ Op κ ρ)
    (he : exec S true (init s₀ progs) sch = some c) :
    (∃ t, (step S true c t).isSome = true) ∨ AllDone c := by
  have hi := inv_reachable S s₀ progs sch c he
  cases hh : c.holder with
  | some t =>
    left; refine ⟨t, ?_⟩
    have hc := (hi.hold t).2 hh
    cases hcur : (c.threads t).cur with
    | none => rw [hcur] at hc; cases hc
    | some ok =>
      obtain ⟨op, k⟩ := ok
      unfold step; rw [hcur]; simp only
      cases S.done k <;> simp
  | none =>
    have hnone : ∀ t, (c.threads t).cur = none := by
      intro t
      cases hcur : (c.threads t).cur with
      | none => rfl
      | some ok =>
        have := (hi.hold t).1 (by simp [hcur])
        rw [hh] at this; cases this
    by_cases hex : ∃ t, (c.threads t).todo ≠ []
    · left
      obtain ⟨t, ht⟩ := hex
      refine ⟨t, ?_⟩
      unfold step; rw [hnone t]; simp only
      cases htodo : (c.threads t).todo with
      | nil => exact absurd htodo ht
      | cons op rest => simp [hh]
    · right
      intro t
      refine ⟨?_, hnone t⟩
      apply Classical.byContradiction
      intro hne; exact hex ⟨t, hne⟩

/-- the single-action system: its bracket is one micro-step computing `f` -/
theorem runs_atomic (f : Op → σ → ρ × σ) (op : Op) (s : σ) :
    Runs (Sys.atomic f) ((Sys.atomic f).start op) s (f op s).1 (f op s).2 :=
  Runs.step rfl (Runs.fin rfl)

/-! ### bounded schedules -/

/-- `Runs` with the number of micro-steps -/
inductive RunsN (S : Sys σ Op κ ρ) : Nat → κ → σ → ρ → σ → Prop where
  | fin {k s r} : S.done k = some r → RunsN S 0 k s r s
  | step {n k s r s'} : S.done k = none → RunsN S n (S.micro k s).1 (S.micro k s).2 r s' → RunsN S (n+1) k s r s'

/-- `Reach` with the number of micro-steps -/
inductive ReachN (S : Sys σ Op κ ρ) : Nat → κ → σ → κ → σ → Prop where
  | refl {k s} : ReachN S 0 k s k s
  | tail {n k s k' s'} : ReachN S n k s k' s' → S.done k' = none → ReachN S (n+1) k s (S.micro k' s').1 (S.micro k' s').2

theorem RunsN.runs {S : Sys σ Op κ ρ} {n k s r s'} (h : RunsN S n k s r s') : Runs S k s r s' := by
  induction h with
  | fin hd => exact Runs.fin hd
  | step hn _ ih => exact Runs.step hn ih

theorem ReachN.reach {S : Sys σ Op κ ρ} {n k s k' s'} (h : ReachN S n k s k' s') : Reach S k s k' s' := by
  induction h with
  | refl => exact Reach.refl
  | tail _ hn ih => exact Reach.tail ih hn

/-- the steps taken so far are part of the (unique) complete run: they are at most as many, and the rest remains -/
theorem ReachN.le {S : Sys σ Op κ ρ} {m k s k' s'} (h : ReachN S m k s k' s') :
    ∀ {N r s''}, RunsN S N k s r s'' → m ≤ N ∧ RunsN S (N - m) k' s' r s'' := by
  induction h with
  | refl => intro N r s'' hr; exact ⟨Nat.zero_le _, by simpa using hr⟩
  | @tail n₀ _ _ _ _ _ hn ih =>
    intro N r s'' hr
    obtain ⟨hle, hrest⟩ := ih hr
    generalize hd : N - n₀ = d at hrest
    cases hrest with
    | fin hdone => rw [hn] at hdone; cases hdone
    | @step n' _ _ _ _ _ h' =>
      refine ⟨by omega, ?_⟩
      have : N - (n₀ + 1) = n' := by omega
      rw [this]; exact h'

/-- cost of a list of acquisitions -/
def total (g : Op → Nat) : List (Nat × Op) → Nat
  | [] => 0
  | x :: l => g x.2 + total g l

theorem total_append (g : Op → Nat) (l₁ l₂ : List (Nat × Op)) : total g (l₁ ++ l₂) = total g l₁ + total g l₂ := by
  induction l₁ with
  | nil => simp [total]
  | cons x l ih => simp only [List.cons_append, total, ih]; omega

/-- the step counter invariant: `len` steps have been taken so far -/
def Cnt (S : Sys σ Op κ ρ) (bound : Op → Nat) (s₀ : σ) (c : Config σ Op κ ρ) (len : Nat) : Prop :=
  ∃ sm, SeqRuns S s₀ c.log sm ∧
    match c.holder with
    | none => c.shared = sm ∧ len ≤ total (fun op => bound op + 2) (strip c.log)
    | some t => ∃ op k m, (c.threads t).cur = some (op, k) ∧ ReachN S m (S.start op) sm k c.shared ∧
                  len ≤ total (fun op => bound op + 2) (strip c.log) + 1 + m

theorem cnt_step (S : Sys σ Op κ ρ) (bound : Op → Nat)
    (hb : ∀ op s, ∃ n r s', n ≤ bound op ∧ RunsN S n (S.start op) s r s')
    (s₀ : σ) (progs : Nat → List Op) (c c' : Config σ Op κ ρ) (t len : Nat)
    (hi : Inv S s₀ progs c) (hc : Cnt S bound s₀ c len) (hs : step S true c t = some c') :
    Cnt S bound s₀ c' (len + 1) := by
  unfold step at hs
  cases hcur : (c.threads t).cur with
  | none =>
    rw [hcur] at hs
    simp only at hs
    cases htodo : (c.threads t).todo with
    | nil => rw [htodo] at hs; cases hs
    | cons op rest =>
      rw [htodo] at hs
      simp only [Bool.true_and] at hs
      cases hh : c.holder with
      | some h => rw [hh] at hs; simp at hs
      | none =>
        rw [hh] at hs
        simp only [Option.isSome_none, Bool.false_eq_true, if_false, Option.some.injEq] at hs
        subst hs
        obtain ⟨sm, hseq, hl⟩ := hc
        rw [hh] at hl
        simp only at hl
        obtain ⟨hsh, hlen⟩ := hl
        refine ⟨sm, hseq, ?_⟩
        simp only
        refine ⟨op, S.start op, 0, by simp [upd_same], ?_, by omega⟩
        rw [hsh]; exact ReachN.refl
  | some ok =>
    obtain ⟨op, k⟩ := ok
    rw [hcur] at hs
    simp only at hs
    have hholder : c.holder = some t := (hi.hold t).1 (by simp [hcur])
    obtain ⟨sm, hseq, hl⟩ := hc
    rw [hholder] at hl
    simp only at hl
    obtain ⟨op', k', m, hc', hreach, hlen⟩ := hl
    rw [hcur] at hc'
    simp only [Option.some.injEq, Prod.mk.injEq] at hc'
    obtain ⟨e1, e2⟩ := hc'
    subst e1; subst e2
    cases hd : S.done k with
    | some r =>
      rw [hd] at hs
      simp only [Option.some.injEq] at hs
      subst hs
      obtain ⟨N, r', s', hN, hrun⟩ := hb op sm
      obtain ⟨hle, _⟩ := ReachN.le hreach hrun
      refine ⟨c.shared, SeqRuns.snoc hseq (Reach.runs hreach.reach (Runs.fin hd)), ?_⟩
      simp only
      refine ⟨trivial, ?_⟩
      have e : strip [(t, op, r)] = ([(t, op)] : List (Nat × Op)) := rfl
      rw [strip_append, total_append, e]
      simp only [total]
      omega
    | none =>
      rw [hd] at hs
      simp only [Option.some.injEq] at hs
      subst hs
      refine ⟨sm, hseq, ?_⟩
      simp only [hholder]
      exact ⟨op, (S.micro k c.shared).1, m + 1, by simp [upd_same], ReachN.tail hreach hd, by omega⟩

theorem cnt_exec (S : Sys σ Op κ ρ) (bound : Op → Nat)
    (hb : ∀ op s, ∃ n r s', n ≤ bound op ∧ RunsN S n (S.start op) s r s')
    (s₀ : σ) (progs : Nat → List Op) (sch : List Nat) (c c' : Config σ Op κ ρ) (len : Nat)
    (hi : Inv S s₀ progs c) (hc : Cnt S bound s₀ c len) (he : exec S true c sch = some c') :
    Cnt S bound s₀ c' (len + sch.length) := by
  induction sch generalizing c len with
  | nil => simp only [exec, Option.some.injEq] at he; subst he; simpa using hc
  | cons t ts ih =>
    simp only [exec] at he
    cases hs : step S true c t with
    | none => rw [hs] at he; cases he
    | some c₁ =>
      rw [hs] at he
      have := ih c₁ (len + 1) (inv_step S s₀ progs c c₁ t hi hs) (cnt_step S bound hb s₀ progs c c₁ t len hi hc hs) he
      simp only [List.length_cons]
      have e : len + (ts.length + 1) = len + 1 + ts.length := by omega
      rw [e]; exact this

/-- **Bounded schedules**: if every operation, started in any state, finishes within `bound op` micro-steps, then every
    schedule of the locked machine is at most as long as the acquired operations allow: `bound op + 2` steps
    (acquire, micro-steps, release) per acquisition.  So no schedule runs for ever: with `progress`, every run of a
    fair scheduler ends with all threads done. -/
theorem schedule_bounded (S : Sys σ Op κ ρ) (bound : Op → Nat)
    (hb : ∀ op s, ∃ n r s', n ≤ bound op ∧ RunsN S n (S.start op) s r s')
    (s₀ : σ) (progs : Nat → List Op) (sch : List Nat) (c : Config σ Op κ ρ)
    (he : exec S true (init s₀ progs) sch = some c) :
    sch.length ≤ total (fun op => bound op + 2) c.acq := by
  have h0 : Cnt S bound s₀ (init s₀ progs : Config σ Op κ ρ) 0 := ⟨s₀, SeqRuns.nil, by simp [init, strip, total]⟩
  have hc := cnt_exec S bound hb s₀ progs sch _ c 0 (inv_init S s₀ progs) h0 he
  have hi := inv_reachable S s₀ progs sch c he
  obtain ⟨sm, _, hl⟩ := hc
  obtain ⟨sm', _, hl'⟩ := hi.lin
  cases hh : c.holder with
  | none =>
    rw [hh] at hl hl'
    simp only at hl hl'
    rw [hl'.2]; omega
  | some t =>
    rw [hh] at hl hl'
    simp only at hl hl'
    obtain ⟨op, k, m, hcur, hreach, hlen⟩ := hl
    obtain ⟨op', k', hcur', _, hacq⟩ := hl'
    rw [hcur] at hcur'
    simp only [Option.some.injEq, Prod.mk.injEq] at hcur'
    obtain ⟨e1, _⟩ := hcur'
    subst e1
    obtain ⟨N, r', s', hN, hrun⟩ := hb op sm
    obtain ⟨hle, _⟩ := ReachN.le hreach hrun
    rw [hacq, total_append]
    simp only [total]
    omega

/-! the acquired operations are bounded by the programs (finitely many threads) -/

def cost (g : Op → Nat) : List Op → Nat
  | [] => 0
  | op :: l => g op + cost g l

theorem cost_append (g : Op → Nat) (l₁ l₂ : List Op) : cost g (l₁ ++ l₂) = cost g l₁ + cost g l₂ := by
  induction l₁ with
  | nil => simp [cost]
  | cons x l ih => simp only [List.cons_append, cost, ih]; omega

def sumTo : Nat → (Nat → Nat) → Nat
  | 0, _ => 0
  | n+1, f => sumTo n f + f n

theorem sumTo_le (n : Nat) (f g : Nat → Nat) (h : ∀ t, t < n → f t ≤ g t) : sumTo n f ≤ sumTo n g := by
  induction n with
  | zero => simp [sumTo]
  | succ n ih =>
    simp only [sumTo]
    have := ih (fun t ht => h t (by omega))
    have := h n (by omega)
    omega

theorem sumTo_single (n t₀ a : Nat) (f : Nat → Nat) :
    sumTo n (fun t => (if t = t₀ then a else 0) + f t) = (if t₀ < n then a else 0) + sumTo n f := by
  induction n with
  | zero => simp [sumTo]
  | succ n ih =>
    simp only [sumTo, ih]
    by_cases h1 : t₀ < n
    · have : n ≠ t₀ := by omega
      have : t₀ < n + 1 := by omega
      simp [*]; omega
    · by_cases h2 : n = t₀
      · subst h2; simp; omega
      · have : ¬ t₀ < n + 1 := by omega
        simp [*]

theorem total_eq_sumTo (g : Op → Nat) (n : Nat) (l : List (Nat × Op)) (h : ∀ x ∈ l, x.1 < n) :
    total g l = sumTo n (fun t => cost g (opsOf t l)) := by
  induction l with
  | nil =>
    have : ∀ m, sumTo m (fun _ => 0) = 0 := by intro m; induction m with | zero => rfl | succ m ih => simp [sumTo, ih]
    simp [total, opsOf, cost, this]
  | cons x l ih =>
    obtain ⟨t₀, op⟩ := x
    have hlt : t₀ < n := h (t₀, op) (by simp)
    have ih' := ih (fun y hy => h y (List.mem_cons_of_mem _ hy))
    have e : (fun t => cost g (opsOf t ((t₀, op) :: l))) = (fun t => (if t = t₀ then g op else 0) + cost g (opsOf t l)) := by
      funext t
      by_cases ht : t = t₀
      · subst ht; simp [opsOf, cost]
      · have : (t₀ == t) = false := by simp; exact fun e => ht e.symm
        simp [opsOf, this, ht]
    rw [e, sumTo_single, ← ih']
    simp [total, hlt]

/-- with `n` threads (`progs t = []` for `t ≥ n`) every schedule is at most `Σ_{t<n} Σ_{op ∈ progs t} (bound op + 2)` long -/
theorem schedule_bounded_programs (S : Sys σ Op κ ρ) (bound : Op → Nat)
    (hb : ∀ op s, ∃ n r s', n ≤ bound op ∧ RunsN S n (S.start op) s r s')
    (s₀ : σ) (progs : Nat → List Op) (n : Nat) (hn : ∀ t, n ≤ t → progs t = [])
    (sch : List Nat) (c : Config σ Op κ ρ) (he : exec S true (init s₀ progs) sch = some c) :
    sch.length ≤ sumTo n (fun t => cost (fun op => bound op + 2) (progs t)) := by
  have h1 := schedule_bounded S bound hb s₀ progs sch c he
  have hi := inv_reachable S s₀ progs sch c he
  have hlt : ∀ x ∈ c.acq, x.1 < n := by
    intro x hx
    apply Classical.byContradiction
    intro hge
    have hp := hn x.1 (by omega)
    have ho := hi.ord x.1
    rw [hp] at ho
    have hmem : x.2 ∈ opsOf x.1 c.acq := by
      simp only [opsOf, List.mem_map, List.mem_filter]
      exact ⟨x, ⟨hx, by simp⟩, rfl⟩
    have : opsOf x.1 c.acq = [] := by
      cases hq : opsOf x.1 c.acq with
      | nil => rfl
      | cons a b => rw [hq] at ho; simp at ho
    rw [this] at hmem; cases hmem
  rw [total_eq_sumTo _ n c.acq hlt] at h1
  refine Nat.le_trans h1 (sumTo_le n _ _ ?_)
  intro t _
  have ho := hi.ord t
  rw [← ho, cost_append]; omega

end Mutex
