import Model.Mutex
/-! # Linearizability, mutual exclusion and progress of the generic mutex-bracket machine (`Model/Mutex.lean`).
    Core-only.  See the header of `Model/Mutex.lean` for how to instantiate. -/
namespace Mutex

variable {σ Op κ ρ : Type}

/-! ### small facts -/

theorem upd_same {α : Type} (f : Nat → α) (t : Nat) (v : α) : upd f t v t = v := by simp [upd]
theorem upd_other {α : Type} (f : Nat → α) (t i : Nat) (v : α) (h : i ≠ t) : upd f t v i = f i := by simp [upd, h]

theorem Reach.runs {S : Sys σ Op κ ρ} {k s k' s' r s''} (h : Reach S k s k' s') (hr : Runs S k' s' r s'') :
    Runs S k s r s'' := by
  induction h with
  | refl => exact hr
  | tail _ hd ih => exact ih (Runs.step hd hr)

/-- the micro-steps are deterministic: result and final state of a bracket are functions of its start -/
theorem Runs.det {S : Sys σ Op κ ρ} {k s r₁ s₁ r₂ s₂} (h₁ : Runs S k s r₁ s₁) (h₂ : Runs S k s r₂ s₂) :
    r₁ = r₂ ∧ s₁ = s₂ := by
  induction h₁ with
  | fin hd =>
    cases h₂ with
    | fin hd' => rw [hd] at hd'; cases hd'; exact ⟨rfl, rfl⟩
    | step hn _ => rw [hd] at hn; cases hn
  | step hn _ ih =>
    cases h₂ with
    | fin hd' => rw [hn] at hd'; cases hd'
    | step _ h' => exact ih h'

theorem SeqRuns.snoc {S : Sys σ Op κ ρ} {s s' s'' l t op r} (h : SeqRuns S s l s') (hr : Runs S (S.start op) s' r s'') :
    SeqRuns S s (l ++ [(t, op, r)]) s'' := by
  induction h with
  | nil => exact SeqRuns.cons hr SeqRuns.nil
  | cons h1 _ ih => exact SeqRuns.cons h1 (ih hr)

/-- a sequential execution is determined by the operations alone: two valid logs with the same operations have the
    same results and end in the same state -/
theorem SeqRuns.det {S : Sys σ Op κ ρ} {s l₁ s₁ l₂ s₂} (h₁ : SeqRuns S s l₁ s₁) (h₂ : SeqRuns S s l₂ s₂)
    (he : strip l₁ = strip l₂) : l₁ = l₂ ∧ s₁ = s₂ := by
  induction h₁ generalizing l₂ s₂ with
  | nil =>
    cases h₂ with
    | nil => exact ⟨rfl, rfl⟩
    | cons _ _ => simp [strip] at he
  | cons hr _ ih =>
    cases h₂ with
    | nil => simp [strip] at he
    | cons hr' hs' =>
      simp only [strip, List.map_cons, List.cons.injEq, Prod.mk.injEq] at he
      obtain ⟨⟨ht, ho⟩, hl⟩ := he
      subst ht; subst ho
      obtain ⟨e1, e2⟩ := Runs.det hr hr'
      subst e1; subst e2
      obtain ⟨e3, e4⟩ := ih hs' hl
      subst e3; subst e4
      exact ⟨rfl, rfl⟩

theorem strip_append (l₁ l₂ : List (Nat × Op × ρ)) : strip (l₁ ++ l₂) = strip l₁ ++ strip l₂ := by simp [strip]

theorem opsOf_append (t : Nat) (l₁ l₂ : List (Nat × Op)) : opsOf t (l₁ ++ l₂) = opsOf t l₁ ++ opsOf t l₂ := by
  simp [opsOf]
theorem opsOf_single_same (t : Nat) (op : Op) : opsOf t [(t, op)] = [op] := by simp [opsOf]
theorem opsOf_single_other (t i : Nat) (op : Op) (h : i ≠ t) : opsOf i [(t, op)] = [] := by
  have : (t == i) = false := by simp; exact fun e => h e.symm
  simp [opsOf, this]
theorem resOf_append (t : Nat) (l₁ l₂ : List (Nat × Op × ρ)) : resOf t (l₁ ++ l₂) = resOf t l₁ ++ resOf t l₂ := by
  simp [resOf]
theorem resOf_single_same (t : Nat) (op : Op) (r : ρ) : resOf t [(t, op, r)] = [r] := by simp [resOf]
theorem resOf_single_other (t i : Nat) (op : Op) (r : ρ) (h : i ≠ t) : resOf i [(t, op, r)] = [] := by
  have : (t == i) = false := by simp; exact fun e => h e.symm
  simp [resOf, this]

/-- the results of thread `t` are read off the log; as operations: the finished part of its acquisitions -/
theorem opsOf_strip (t : Nat) (l : List (Nat × Op × ρ)) : opsOf t (strip l) = ((l.filter fun x => x.1 == t).map (·.2.1)) := by
  induction l with
  | nil => rfl
  | cons x xs ih =>
    simp only [strip, List.map_cons, opsOf, List.filter_cons] at ih ⊢
    by_cases h : (x.1 == t) = true
    · simp only [h, if_true, List.map_cons]; rw [ih]
    · simp only [h]; exact ih

/-! ### the invariant of the locked machine -/

structure Inv (S : Sys σ Op κ ρ) (s₀ : σ) (progs : Nat → List Op) (c : Config σ Op κ ρ) : Prop where
  /-- the lock word names exactly the thread that is inside a bracket -/
  hold : ∀ t, ((c.threads t).cur.isSome = true ↔ c.holder = some t)
  /-- the log is a one-at-a-time execution; the shared state is its final state, advanced by the micro-steps of the
      operation in progress (if any) -/
  lin : ∃ sm, SeqRuns S s₀ c.log sm ∧
      match c.holder with
      | none => c.shared = sm ∧ c.acq = strip c.log
      | some t => ∃ op k, (c.threads t).cur = some (op, k) ∧ Reach S (S.start op) sm k c.shared ∧
                    c.acq = strip c.log ++ [(t, op)]
  res : ∀ t, (c.threads t).res = resOf t c.log
  ord : ∀ t, opsOf t c.acq ++ (c.threads t).todo = progs t

theorem inv_init (S : Sys σ Op κ ρ) (s₀ : σ) (progs : Nat → List Op) : Inv S s₀ progs (init s₀ progs) where
  hold := by intro t; simp [init]
  lin := ⟨s₀, SeqRuns.nil, by simp [init, strip]⟩
  res := by intro t; simp [init, resOf]
  ord := by intro t; simp [init, opsOf]

theorem inv_step (S : Sys σ Op κ ρ) (s₀ : σ) (progs : Nat → List Op) (c c' : Config σ Op κ ρ) (t : Nat)
    (hi : Inv S s₀ progs c) (hs : step S true c t = some c') : Inv S s₀ progs c' := by
  unfold step at hs
  cases hcur : (c.threads t).cur with
  | none =>
    rw [hcur] at hs
    simp only at hs
    cases htodo : (c.threads t).todo with
    | nil => rw [htodo] at hs; cases hs
    | cons op rest =>
      rw [htodo] at hs
      simp only [Bool.true_and] at hs
      cases hh : c.holder with
      | some h => rw [hh] at hs; simp at hs
      | none =>
        rw [hh] at hs
        simp only [Option.isSome_none, Bool.false_eq_true, if_false, Option.some.injEq] at hs
        subst hs
        obtain ⟨sm, hseq, hl⟩ := hi.lin
        rw [hh] at hl
        simp only at hl
        obtain ⟨hsh, hacq⟩ := hl
        refine ⟨?_, ?_, ?_, ?_⟩
        · intro i
          by_cases hit : i = t
          · subst hit; simp [upd_same]
          · simp only [upd_other _ _ _ _ hit]
            have := (hi.hold i)
            rw [hh] at this
            constructor
            · intro h1; exact absurd (this.1 h1) (by simp)
            · intro h1; simp only [Option.some.injEq] at h1; exact absurd h1.symm hit
        · refine ⟨sm, hseq, ?_⟩
          simp only
          refine ⟨op, S.start op, by simp [upd_same], ?_, by rw [hacq]⟩
          rw [hsh]; exact Reach.refl
        · intro i
          by_cases hit : i = t
          · subst hit; simp only [upd_same]; exact hi.res i
          · simp only [upd_other _ _ _ _ hit]; exact hi.res i
        · intro i
          by_cases hit : i = t
          · subst hit
            simp only [upd_same, opsOf_append, opsOf_single_same]
            have := hi.ord i
            rw [htodo] at this
            rw [← this]; simp
          · simp only [upd_other _ _ _ _ hit, opsOf_append, opsOf_single_other _ _ _ hit, List.append_nil]
            exact hi.ord i
  | some ok =>
    obtain ⟨op, k⟩ := ok
    rw [hcur] at hs
    simp only at hs
    have hholder : c.holder = some t := (hi.hold t).1 (by simp [hcur])
    obtain ⟨sm, hseq, hl⟩ := hi.lin
    rw [hholder] at hl
    simp only at hl
    obtain ⟨op', k', hc', hreach, hacq⟩ := hl
    rw [hcur] at hc'
    simp only [Option.some.injEq, Prod.mk.injEq] at hc'
    obtain ⟨e1, e2⟩ := hc'
    subst e1; subst e2
    cases hd : S.done k with
    | some r =>
      rw [hd] at hs
      simp only [Option.some.injEq] at hs
      subst hs
      refine ⟨?_, ?_, ?_, ?_⟩
      · intro i
        by_cases hit : i = t
        · subst hit; simp [upd_same]
        · simp only [upd_other _ _ _ _ hit]
          have := hi.hold i
          rw [hholder] at this
          constructor
          · intro h1; have := this.1 h1; simp only [Option.some.injEq] at this; exact absurd this.symm hit
          · intro h1; cases h1
      · refine ⟨c.shared, SeqRuns.snoc hseq (Reach.runs hreach (Runs.fin hd)), ?_⟩
        simp only
        refine ⟨trivial, ?_⟩
        rw [hacq, strip_append]; simp [strip]
      · intro i
        by_cases hit : i = t
        · subst hit
          simp only [upd_same, resOf_append, resOf_single_same]
          rw [hi.res i]
        · simp only [upd_other _ _ _ _ hit, resOf_append, resOf_single_other _ _ _ _ hit, List.append_nil]
          exact hi.res i
      · intro i
        by_cases hit : i = t
        · subst hit; simp only [upd_same]; exact hi.ord i
        · simp only [upd_other _ _ _ _ hit]; exact hi.ord i
    | none =>
      rw [hd] at hs
      simp only [Option.some.injEq] at hs
      subst hs
      refine ⟨?_, ?_, ?_, ?_⟩
      · intro i
        by_cases hit : i = t
        · subst hit; simp [upd_same, hholder]
        · simp only [upd_other _ _ _ _ hit]; exact hi.hold i
      · refine ⟨sm, hseq, ?_⟩
        simp only [hholder]
        exact ⟨op, (S.micro k c.shared).1, by simp [upd_same], Reach.tail hreach hd, hacq⟩
      · intro i
        by_cases hit : i = t
        · subst hit; simp only [upd_same]; exact hi.res i
        · simp only [upd_other _ _ _ _ hit]; exact hi.res i
      · intro i
        by_cases hit : i = t
        · subst hit; simp only [upd_same]; exact hi.ord i
        · simp only [upd_other _ _ _ _ hit]; exact hi.ord i

theorem inv_exec (S : Sys σ Op κ ρ) (s₀ : σ) (progs : Nat → List Op) (sch : List Nat) (c c' : Config σ Op κ ρ)
    (hi : Inv S s₀ progs c) (he : exec S true c sch = some c') : Inv S s₀ progs c' := by
  induction sch generalizing c with
  | nil => simp only [exec, Option.some.injEq] at he; subst he; exact hi
  | cons t ts ih =>
    simp only [exec] at he
    cases hs : step S true c t with
    | none => rw [hs] at he; cases he
    | some c₁ => rw [hs] at he; exact ih c₁ (inv_step S s₀ progs c c₁ t hi hs) he

/-- every configuration reached by any schedule of the locked machine satisfies the invariant -/
theorem inv_reachable (S : Sys σ Op κ ρ) (s₀ : σ) (progs : Nat → List Op) (sch : List Nat) (c : Config σ Op κ ρ)
    (he : exec S true (init s₀ progs) sch = some c) : Inv S s₀ progs c :=
  inv_exec S s₀ progs sch _ c (inv_init S s₀ progs) he

/-! ### the theorems -/

/-- **Mutual exclusion**: under every schedule at most one thread is inside a bracket. -/
theorem mutual_exclusion (S : Sys σ Op κ ρ) (s₀ : σ) (progs : Nat → List Op) (sch : List Nat) (c : Config σ Op κ ρ)
    (he : exec S true (init s₀ progs) sch = some c) (t t' : Nat)
    (h : (c.threads t).cur.isSome = true) (h' : (c.threads t').cur.isSome = true) : t = t' := by
  have hi := inv_reachable S s₀ progs sch c he
  have a := (hi.hold t).1 h
  have b := (hi.hold t').1 h'
  rw [a] at b; simpa using b

/-- **Linearizability**, for EVERY schedule of the locked machine.  With `c` the configuration reached:
    1. the log of finished operations — which is in the order in which they acquired the mutex — is a valid
       one-at-a-time execution from the initial state, ending in some state `sm`;
    2. whenever the mutex is free, the shared state IS `sm` and every acquisition is in the log; while it is held by
       `t`, the shared state is `sm` advanced by micro-steps of `t`'s operation only, which is the last acquisition;
    3. every thread's results are the results of that one-at-a-time execution;
    4. the acquisition order respects every thread's program order (its acquisitions followed by what it still has
       to do are its program). -/
theorem linearizable (S : Sys σ Op κ ρ) (s₀ : σ) (progs : Nat → List Op) (sch : List Nat) (c : Config σ Op κ ρ)
    (he : exec S true (init s₀ progs) sch = some c) :
    ∃ sm, SeqRuns S s₀ c.log sm ∧
      (c.holder = none → c.shared = sm ∧ c.acq = strip c.log) ∧
      (∀ t, c.holder = some t → ∃ op k, (c.threads t).cur = some (op, k) ∧ Reach S (S.start op) sm k c.shared ∧
          c.acq = strip c.log ++ [(t, op)]) ∧
      (∀ t, (c.threads t).res = resOf t c.log) ∧
      (∀ t, opsOf t c.acq ++ (c.threads t).todo = progs t) := by
  have hi := inv_reachable S s₀ progs sch c he
  obtain ⟨sm, hseq, hl⟩ := hi.lin
  refine ⟨sm, hseq, ?_, ?_, hi.res, hi.ord⟩
  · intro hn; rw [hn] at hl; exact hl
  · intro t ht; rw [ht] at hl; exact hl

/-- when every thread is done: the whole run is the sequential execution of all operations in acquisition order, and
    that order is an interleaving of the threads' programs (each program in its own order, complete) -/
theorem linearizable_complete (S : Sys σ Op κ ρ) (s₀ : σ) (progs : Nat → List Op) (sch : List Nat)
    (c : Config σ Op κ ρ) (he : exec S true (init s₀ progs) sch = some c) (hd : AllDone c) :
    SeqRuns S s₀ c.log c.shared ∧ c.acq = strip c.log ∧
      (∀ t, (c.threads t).res = resOf t c.log) ∧ (∀ t, opsOf t c.acq = progs t) := by
  have hi := inv_reachable S s₀ progs sch c he
  obtain ⟨sm, hseq, h0, _, hres, hord⟩ := linearizable S s₀ progs sch c he
  have hn : c.holder = none := by
    cases hh : c.holder with
    | none => rfl
    | some t =>
      have := (hi.hold t).2 hh
      rw [(hd t).2] at this; cases this
  obtain ⟨e1, e2⟩ := h0 hn
  refine ⟨by rw [e1]; exact hseq, e2, hres, ?_⟩
  intro t; have := hord t; rw [(hd t).1, List.append_nil] at this; exact this

/-- a sequential reference function computes what the micro-steps compute: on an invariant `I` of the instantiator's
    choice (`fun _ => True` if none is needed) a valid log is the reference execution of its operations -/
theorem seqRuns_seqExec (S : Sys σ Op κ ρ) (run : Op → σ → ρ × σ) (I : σ → Prop)
    (hrun : ∀ op s, I s → Runs S (S.start op) s (run op s).1 (run op s).2)
    (hI : ∀ op s, I s → I (run op s).2)
    (s : σ) (l : List (Nat × Op × ρ)) (s' : σ) (hs : I s) (h : SeqRuns S s l s') :
    seqExec run s (strip l) = (l, s') ∧ I s' := by
  induction h with
  | nil => exact ⟨rfl, hs⟩
  | @cons s1 s2 s3 t op r l' hr _ ih =>
    obtain ⟨e1, e2⟩ := Runs.det hr (hrun op s1 hs)
    subst e1
    have hs2 : I s2 := by rw [e2]; exact hI op s1 hs
    obtain ⟨ih1, ih2⟩ := ih hs2
    refine ⟨?_, ih2⟩
    simp only [strip, List.map_cons, seqExec]
    rw [← e2]
    have : seqExec run s2 (List.map (fun x => (x.1, x.2.1)) l') = (l', s3) := ih1
    rw [this]

/-- **Linearizability against a sequential reference function** (the form to instantiate): if the micro-steps of
    every operation compute `run` (on an invariant `I` that holds initially and is kept by `run`), then under EVERY
    schedule, whenever the mutex is free, the log with all results and the shared state are exactly those of calling
    `run` one operation at a time in acquisition order; each thread's results are its part of that log, and the order
    respects each thread's program order. -/
theorem linearizable_fun (S : Sys σ Op κ ρ) (run : Op → σ → ρ × σ) (I : σ → Prop)
    (hrun : ∀ op s, I s → Runs S (S.start op) s (run op s).1 (run op s).2)
    (hI : ∀ op s, I s → I (run op s).2)
    (s₀ : σ) (h0 : I s₀) (progs : Nat → List Op) (sch : List Nat) (c : Config σ Op κ ρ)
    (he : exec S true (init s₀ progs) sch = some c) (hfree : c.holder = none) :
    seqExec run s₀ c.acq = (c.log, c.shared) ∧ I c.shared ∧
      (∀ t, (c.threads t).res = resOf t c.log) ∧
      (∀ t, opsOf t c.acq ++ (c.threads t).todo = progs t) := by
  obtain ⟨sm, hseq, hf, _, hres, hord⟩ := linearizable S s₀ progs sch c he
  obtain ⟨e1, e2⟩ := hf hfree
  obtain ⟨h1, h2⟩ := seqRuns_seqExec S run I hrun hI s₀ c.log sm h0 hseq
  exact ⟨by rw [e1, e2]; exact h1, by rw [e1]; exact h2, hres, hord⟩

/-- **Progress / deadlock-freedom**: in every configuration reached by any schedule, some thread is enabled — unless
    every thread has finished its program.  (The holder of the mutex can always take its next micro-step or release;
    if the mutex is free, any thread with work left can acquire it.) -/
theorem progress (S : Sys σ Op κ ρ) (s₀ : σ) (progs : Nat → List Op) (sch : List Nat) (c : Config σ Op κ ρ)
    (he : exec S true (init s₀ progs) sch = some c) :
    (∃ t, (step S true c t).isSome = true) ∨ AllDone c := by
  have hi := inv_reachable S s₀ progs sch c he
  cases hh : c.holder with
  | some t =>
    left; refine ⟨t, ?_⟩
    have hc := (hi.hold t).2 hh
    cases hcur : (c.threads t).cur with
    | none => rw [hcur] at hc; cases hc
    | some ok =>
      obtain ⟨op, k⟩ := ok
      unfold step; rw [hcur]; simp only
      cases S.done k <;> simp
  | none =>
    have hnone : ∀ t, (c.threads t).cur = none := by
      intro t
      cases hcur : (c.threads t).cur with
      | none => rfl
      | some ok =>
        have := (hi.hold t).1 (by simp [hcur])
        rw [hh] at this; cases this
    by_cases hex : ∃ t, (c.threads t).todo ≠ []
    · left
      obtain ⟨t, ht⟩ := hex
      refine ⟨t, ?_⟩
      unfold step; rw [hnone t]; simp only
      cases htodo : (c.threads t).todo with
      | nil => exact absurd htodo ht
      | cons op rest => simp [hh]
    · right
      intro t
      refine ⟨?_, hnone t⟩
      apply Classical.byContradiction
      intro hne; exact hex ⟨t, hne⟩

/-- the single-action system: its bracket is one micro-step computing `f` -/
theorem runs_atomic (f : Op → σ → ρ × σ) (op : Op) (s : σ) :
    Runs (Sys.atomic f) ((Sys.atomic f).start op) s (f op s).1 (f op s).2 :=
  Runs.step rfl (Runs.fin rfl)

end Mutex
