import Lemmas.FixedTextForms
/-! C04 helper lemmas, part 5: `txt.CommaFromStringNum` on the texts `String()` produces. -/
namespace FixedText

theorem stripCommas_append (a b : Str) : stripCommas (a ++ b) = stripCommas a ++ stripCommas b := by
  simp [stripCommas]

theorem groups_strip (n : Nat) : ∀ (l : Str) (nc : Bool), l.length = 3 * n → (∀ c ∈ l, c ≠ 44) →
    stripCommas (groups nc l) = l := by
  induction n with
  | zero =>
    intro l nc hl _
    have : l = [] := List.eq_nil_of_length_eq_zero (by omega)
    subst this
    simp [groups, stripCommas]
  | succ n ih =>
    intro l nc hl hc
    match l, hl, hc with
    | a :: b :: c :: t, hl, hc =>
      have ht : t.length = 3 * n := by simp at hl; omega
      have ha : a ≠ 44 := hc a (by simp)
      have hb : b ≠ 44 := hc b (by simp)
      have hcc : c ≠ 44 := hc c (by simp)
      have iht := ih t true ht (fun d hd => hc d (by simp [hd]))
      unfold groups
      rw [stripCommas_append, stripCommas_append, iht]
      cases nc <;> simp [stripCommas, ha, hb, hcc]

theorem commaBody_strip (ip : Str) (h : ∀ c ∈ ip, c ≠ 44) : stripCommas (commaBody ip) = ip := by
  unfold commaBody
  rw [stripCommas_append]
  have hd : (ip.drop (ip.length % 3)).length = 3 * (ip.length / 3) := by
    rw [List.length_drop]; omega
  rw [groups_strip (ip.length / 3) _ _ hd (fun c hc => h c (List.mem_of_mem_drop hc))]
  by_cases hr : ip.length % 3 = 0
  · simp [hr, stripCommas]
  · rw [if_pos hr, stripCommas_id _ (fun c hc => h c (List.mem_of_mem_take hc))]
    exact List.take_append_drop _ _

theorem commaUnsigned_eval (ip : Str) (fp : Str) (hnd : ∀ d ∈ ip, d ≠ 46) (hfp : ∀ c ∈ fp, c ≠ 46) :
    commaUnsigned (ip ++ (if fp = [] then [] else 46 :: fp)) = commaBody ip ++ (if fp = [] then [] else 46 :: fp) := by
  unfold commaUnsigned
  by_cases hf : fp = []
  · rw [if_pos hf, List.append_nil, splitDot_nodot _ hnd]; simp
  · rw [if_neg hf, splitDot_dot _ _ hnd]
    show commaBody ip ++ [46] ++ (splitDot fp).1 = _
    rw [splitDot_nodot fp hfp]; simp

/-- `CommaFromStringNum` on sign ++ digits ++ optional fraction -/
theorem commaNum_eval (neg : Bool) (ip : Str) (fp : Str) (hip : ∀ c ∈ ip, isDigit c = true) (hne : ip ≠ [])
    (hfp : ∀ c ∈ fp, c ≠ 46) :
    commaNum ((if neg then [45] else []) ++ ip ++ (if fp = [] then [] else 46 :: fp)) =
      (if neg then [45] else []) ++ commaBody ip ++ (if fp = [] then [] else 46 :: fp) := by
  have hnd : ∀ d ∈ ip, d ≠ 46 := fun d hd => by have := isDigit_bounds d (hip d hd); omega
  cases neg
  · simp only [Bool.false_eq_true, if_false, List.nil_append]
    obtain ⟨c, t, rfl⟩ := List.exists_cons_of_ne_nil hne
    have hcb := isDigit_bounds c (hip c (by simp))
    rw [← commaUnsigned_eval _ fp hnd hfp]
    unfold commaNum
    split
    · rename_i heq; simp at heq; omega
    · rfl
  · simp only [if_true, List.append_assoc, List.singleton_append]
    show 45 :: commaUnsigned (ip ++ (if fp = [] then [] else 46 :: fp)) = _
    rw [commaUnsigned_eval _ fp hnd hfp]
    rfl

end FixedText
