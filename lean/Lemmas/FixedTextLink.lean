import Lemmas.FixedConv
import Lemmas.FixedTextLaws
/-! C04 helper lemmas, part 10: the integer `As` of this model and the one of the C03 model (`Fixed.F64.asInt`,
    `Fixed.F128.asInt`) are the same function on every representable raw value. -/
namespace FixedText

theorem conv_eq_toKind (t : Target) (z : Int) : conv t z = Fixed.toKind ⟨t.bits, t.signed⟩ z := rfl

theorem as64_eq_C03 (m : Int) (hm : 0 < m) (t : Target) (raw : Int) (hr : fits64 raw = true) :
    as64 m t raw = Fixed.F64.asInt ⟨t.bits, t.signed⟩ m raw := by
  have hq := fits64_tdiv raw m hm hr
  simp only [fits64, Bool.and_eq_true, decide_eq_true_eq] at hq
  unfold as64 Fixed.F64.asInt Fixed.F64.quo
  have : Fixed.wrap64 (raw.tdiv m) = raw.tdiv m := by unfold Fixed.wrap64; omega
  rw [this, conv_eq_toKind]

/-- `Int128.AsInt64` keeps the low 64 bits -/
theorem asInt64_eq_wrap64 (x : Int) : Fixed.F128.asInt64 x = wrap64 x := by
  unfold Fixed.F128.asInt64 Fixed.wrap64 wrap64
  simp only
  split <;> omega

theorem as128_eq_C03 : ∀ c ∈ Facts.fixedConfigs, ∀ (t : Target) (raw : Int), fits128 raw = true →
    as128 c.2 t raw = Fixed.F128.asInt ⟨t.bits, t.signed⟩ c.2 raw := by
  intro c hc t raw hr
  simp only [fits128, Bool.and_eq_true, decide_eq_true_eq] at hr
  have hm : Fixed.Mult c.2 := ⟨c, hc, rfl⟩
  unfold as128 Fixed.F128.asInt
  rw [Fixed.F128.quo_mult hm (by unfold Fixed.fits128; omega), asInt64_eq_wrap64, conv_eq_toKind]

end FixedText
