import Lemmas.BitSetOps
/-! C08: range masks over `BitVec 64` — word-at-a-time range operations.

The source handles the first and the last word of a range bit by bit.  The usual alternative (the shape of
control-ind5-c08, and of the broken variants ind4-c08-a / ind5-c08-a) handles EVERY word with one mask,
`MaxUint64 << startBit` in the first word, `MaxUint64 >> (63 - endBit)` in the last one, both in a single-word range.
This file proves that such an implementation computes exactly what the per-bit loops compute — words and count —
(`rangeLoopW_eq`, instantiated for Set / Clear / Flip), and shows by example what goes wrong when a single-word range
uses only one of the two bounds, or when the count is updated from the wrong population count. -/
namespace BS

/-- `MaxUint64 << startBit` -/
def maskFrom (s : Nat) : W := BitVec.allOnes 64 <<< s
/-- `MaxUint64 >> (63 - endBit)` -/
def maskTo (e : Nat) : W := BitVec.allOnes 64 >>> (63 - e)
/-- the bits `s … e` of a word -/
def rangeMask (s e : Nat) : W := maskFrom s &&& maskTo e

theorem maskFrom_bit (s k : Nat) (hk : k < 64) : (maskFrom s).getLsbD k = decide (s ≤ k) := by
  unfold maskFrom
  rw [BitVec.getLsbD_shiftLeft, BitVec.getLsbD_allOnes]
  by_cases h : s ≤ k
  · have h1 : ¬ k < s := by omega
    have h2 : k - s < 64 := by omega
    simp [hk, h, h1, h2]
  · have h1 : k < s := by omega
    simp [h, h1]

theorem maskTo_bit (e k : Nat) (he : e < 64) (hk : k < 64) : (maskTo e).getLsbD k = decide (k ≤ e) := by
  unfold maskTo
  rw [BitVec.getLsbD_ushiftRight, BitVec.getLsbD_allOnes]
  by_cases h : k ≤ e
  · have : 63 - e + k < 64 := by omega
    simp [h, this]
  · have : ¬ 63 - e + k < 64 := by omega
    simp [h, this]

theorem rangeMask_bit (s e k : Nat) (he : e < 64) (hk : k < 64) :
    (rangeMask s e).getLsbD k = decide (s ≤ k ∧ k ≤ e) := by
  unfold rangeMask
  rw [BitVec.getLsbD_and, maskFrom_bit s k hk, maskTo_bit e k he hk]
  by_cases h1 : s ≤ k <;> by_cases h2 : k ≤ e <;> simp [h1, h2]

theorem maskFrom_zero : maskFrom 0 = BitVec.allOnes 64 := by decide
theorem maskTo_63 : maskTo 63 = BitVec.allOnes 64 := by decide

/-! ### population counts of combined words -/

theorem countBits_sum4 (a b c d : W) (n : Nat) (hn : n ≤ 64)
    (h : ∀ k, k < 64 → (if a.getLsbD k then 1 else 0) + (if b.getLsbD k then 1 else 0)
        = (if c.getLsbD k then 1 else 0) + (if d.getLsbD k then (1 : Nat) else 0)) :
    countBits a n + countBits b n = countBits c n + countBits d n := by
  induction n with
  | zero => rfl
  | succ n ih =>
    have := ih (by omega)
    have hk := h n (by omega)
    simp only [countBits]
    omega

theorem popcount_sum4 (a b c d : W)
    (h : ∀ k, k < 64 → (if a.getLsbD k then 1 else 0) + (if b.getLsbD k then 1 else 0)
        = (if c.getLsbD k then 1 else 0) + (if d.getLsbD k then (1 : Nat) else 0)) :
    popcount a + popcount b = popcount c + popcount d := countBits_sum4 a b c d 64 (Nat.le_refl _) h

/-- bits gained by `w | m` -/
theorem popcount_or (w m : W) : popcount (w ||| m) = popcount w + popcount (m &&& ~~~w) := by
  have := popcount_sum4 (w ||| m) 0#64 w (m &&& ~~~w) (by
    intro k hk
    simp only [BitVec.getLsbD_or, BitVec.getLsbD_and, BitVec.getLsbD_not, BitVec.getLsbD_zero, hk, decide_true,
      Bool.true_and]
    cases w.getLsbD k <;> cases m.getLsbD k <;> rfl)
  rw [popcount_zero] at this; omega

/-- bits lost by `w &^ m` -/
theorem popcount_andNot (w m : W) : popcount (w &&& ~~~m) + popcount (w &&& m) = popcount w := by
  have := popcount_sum4 (w &&& ~~~m) (w &&& m) w 0#64 (by
    intro k hk
    simp only [BitVec.getLsbD_and, BitVec.getLsbD_not, BitVec.getLsbD_zero, hk, decide_true, Bool.true_and]
    cases w.getLsbD k <;> cases m.getLsbD k <;> rfl)
  rw [popcount_zero] at this; omega

/-- bits after `w ^ m` -/
theorem popcount_xor (w m : W) : popcount (w ^^^ m) + 2 * popcount (w &&& m) = popcount w + popcount m := by
  have h1 := popcount_sum4 (w ^^^ m) (w &&& m) (w ||| m) 0#64 (by
    intro k hk
    simp only [BitVec.getLsbD_xor, BitVec.getLsbD_and, BitVec.getLsbD_or, BitVec.getLsbD_zero]
    cases w.getLsbD k <;> cases m.getLsbD k <;> rfl)
  have h2 := popcount_sum4 (w ||| m) (w &&& m) w m (by
    intro k hk
    simp only [BitVec.getLsbD_and, BitVec.getLsbD_or]
    cases w.getLsbD k <;> cases m.getLsbD k <;> rfl)
  rw [popcount_zero] at h1; omega

/-! ### one word: the per-bit loop is one masked operation -/

/-- word-at-a-time bodies: new word and new count from the old word, the old count and the mask of the word -/
def maskSet (w : W) (set : Int) (m : W) : W × Int := (w ||| m, set + popcount (m &&& ~~~w))
def maskClear (w : W) (set : Int) (m : W) : W × Int := (w &&& ~~~m, set - popcount (w &&& m))
def maskFlip (w : W) (set : Int) (m : W) : W × Int := (w ^^^ m, set + popcount m - 2 * popcount (w &&& m))

theorem bitLoop_word {act : W → Int → Nat → W × Int} {f : Bool → Bool} (hs : BitSpec act f)
    (w : W) (s : Int) (j n : Nat) (hn : 0 < n) (h : j + n ≤ 64) (w' : W)
    (hw : ∀ k, k < 64 → w'.getLsbD k = if (rangeMask j (j + n - 1)).getLsbD k then f (w.getLsbD k) else w.getLsbD k) :
    (bitLoop act w s j n).1 = w' := by
  apply word_ext
  intro k hk
  rw [(bitLoop_spec hs n w s j h).1 k hk, hw k hk, rangeMask_bit j (j + n - 1) k (by omega) hk]
  by_cases c : j ≤ k ∧ k < j + n
  · have c' : j ≤ k ∧ k ≤ j + n - 1 := by omega
    simp [c, c']
  · have c' : ¬ (j ≤ k ∧ k ≤ j + n - 1) := by omega
    simp [c, c']

theorem bitLoop_maskSet (w : W) (s : Int) (j n : Nat) (hn : 0 < n) (h : j + n ≤ 64) :
    bitLoop bitSet w s j n = maskSet w s (rangeMask j (j + n - 1)) := by
  have hw := bitLoop_word bitSet_spec w s j n hn h (w ||| rangeMask j (j + n - 1)) (by
    intro k _; rw [BitVec.getLsbD_or]; cases (rangeMask j (j + n - 1)).getLsbD k <;> simp)
  apply Prod.ext
  · exact hw
  · show (bitLoop bitSet w s j n).2 = s + popcount (rangeMask j (j + n - 1) &&& ~~~w)
    rw [(bitLoop_spec bitSet_spec n w s j h).2, hw, popcount_or]; omega

theorem bitLoop_maskClear (w : W) (s : Int) (j n : Nat) (hn : 0 < n) (h : j + n ≤ 64) :
    bitLoop bitClear w s j n = maskClear w s (rangeMask j (j + n - 1)) := by
  have hw := bitLoop_word bitClear_spec w s j n hn h (w &&& ~~~rangeMask j (j + n - 1)) (by
    intro k hk; rw [BitVec.getLsbD_and, BitVec.getLsbD_not]
    cases (rangeMask j (j + n - 1)).getLsbD k <;> simp [hk])
  apply Prod.ext
  · exact hw
  · show (bitLoop bitClear w s j n).2 = s - popcount (w &&& rangeMask j (j + n - 1))
    have := popcount_andNot w (rangeMask j (j + n - 1))
    rw [(bitLoop_spec bitClear_spec n w s j h).2, hw]; omega

theorem bitLoop_maskFlip (w : W) (s : Int) (j n : Nat) (hn : 0 < n) (h : j + n ≤ 64) :
    bitLoop bitFlip w s j n = maskFlip w s (rangeMask j (j + n - 1)) := by
  have hw := bitLoop_word bitFlip_spec w s j n hn h (w ^^^ rangeMask j (j + n - 1)) (by
    intro k _; rw [BitVec.getLsbD_xor]
    cases (rangeMask j (j + n - 1)).getLsbD k <;> simp)
  apply Prod.ext
  · exact hw
  · show (bitLoop bitFlip w s j n).2 = s + popcount (rangeMask j (j + n - 1)) - 2 * popcount (w &&& rangeMask j (j + n - 1))
    have := popcount_xor w (rangeMask j (j + n - 1))
    rw [(bitLoop_spec bitFlip_spec n w s j h).2, hw]; omega

theorem allOnes_and_not (w : W) : BitVec.allOnes 64 &&& ~~~w = ~~~w := by
  apply word_ext; intro k hk
  rw [BitVec.getLsbD_and, BitVec.getLsbD_allOnes]; simp [hk]

theorem popcount_not (w : W) : popcount (~~~w) + popcount w = 64 :=
  popcount_compl w (~~~w) (fun k hk => by rw [BitVec.getLsbD_not]; simp [hk])

theorem wholeSet_mask (w : W) (s : Int) : wholeSet w s = maskSet w s (BitVec.allOnes 64) := by
  apply Prod.ext
  · show BitVec.allOnes 64 = w ||| BitVec.allOnes 64
    apply word_ext; intro k hk
    rw [BitVec.getLsbD_or, BitVec.getLsbD_allOnes]; simp [hk]
  · show s + ((dbpw : Int) - countSetBits w) = s + popcount (BitVec.allOnes 64 &&& ~~~w)
    have := popcount_not w
    rw [swarPopcount w, allOnes_and_not, dbpw_eq]
    simp only [Int.ofNat_eq_natCast]; omega

theorem and_allOnes' (w : W) : w &&& BitVec.allOnes 64 = w := by
  apply word_ext; intro k hk
  rw [BitVec.getLsbD_and, BitVec.getLsbD_allOnes]; simp [hk]

theorem wholeClear_mask (w : W) (s : Int) : wholeClear w s = maskClear w s (BitVec.allOnes 64) := by
  apply Prod.ext
  · show 0#64 = w &&& ~~~BitVec.allOnes 64
    apply word_ext; intro k hk
    rw [BitVec.getLsbD_and, BitVec.getLsbD_not, BitVec.getLsbD_allOnes]; simp [hk]
  · show s - countSetBits w = s - popcount (w &&& BitVec.allOnes 64)
    rw [swarPopcount w, and_allOnes']; rfl

theorem wholeFlip_mask (w : W) (s : Int) : wholeFlip w s = maskFlip w s (BitVec.allOnes 64) := by
  apply Prod.ext
  · rfl
  · show s + ((dbpw : Int) - 2 * countSetBits w) = s + popcount (BitVec.allOnes 64) - 2 * popcount (w &&& BitVec.allOnes 64)
    rw [swarPopcount w, and_allOnes', popcount_allOnes, dbpw_eq]
    simp only [Int.ofNat_eq_natCast]; omega

/-! ### all words: the word-at-a-time loop equals the loop of the source -/

/-- the mask of word `i` in a range from bit `sb` of word `i1` to bit `eb` of word `i2` -/
def wordMaskFor (i1 i2 sb eb i : Nat) : W :=
  (if i = i1 then maskFrom sb else BitVec.allOnes 64) &&& (if i = i2 then maskTo eb else BitVec.allOnes 64)

/-- `for i := i1; i <= i2; i++ { b.data[i], b.set = app(b.data[i], b.set, mask(i)) }`; the last argument is `i2 + 1 - i` -/
def rangeLoopW (app : W → Int → W → W × Int) (i1 i2 sb eb : Nat) (d : List W) (set : Int) (i : Nat) : Nat → List W × Int
  | 0 => (d, set)
  | n + 1 =>
    rangeLoopW app i1 i2 sb eb (d.set i (app (getW d i) set (wordMaskFor i1 i2 sb eb i)).1)
      (app (getW d i) set (wordMaskFor i1 i2 sb eb i)).2 (i + 1) n

/-- ANY word-at-a-time implementation whose body agrees with the fast path on a full mask and with the bit loop on a
    range mask computes the same words and the same count as the loop of the source.  A single-word range (`i1 = i2`)
    gets BOTH bounds (`maskFrom sb &&& maskTo eb`) and needs `sb ≤ eb`. -/
theorem rangeLoopW_eq {whole : W → Int → W × Int} {act : W → Int → Nat → W × Int} {app : W → Int → W → W × Int}
    (hwhole : ∀ w s, whole w s = app w s (BitVec.allOnes 64))
    (hbits : ∀ w s j n, 0 < n → j + n ≤ 64 → bitLoop act w s j n = app w s (rangeMask j (j + n - 1)))
    (i1 i2 sb eb : Nat) (hsb : sb < 64) (heb : eb < 64) (h12 : i1 ≤ i2) (hse : i1 = i2 → sb ≤ eb) (n : Nat) :
    ∀ (d : List W) (s : Int) (i : Nat), i1 ≤ i → i + n = i2 + 1 →
      rangeLoopW app i1 i2 sb eb d s i n = rangeLoop whole act i1 i2 eb d s i (if i = i1 then sb else 0) n := by
  induction n with
  | zero => intro d s i _ _; rfl
  | succ n ih =>
    intro d s i hi hin
    have hnext : (if i + 1 = i1 then sb else 0) = 0 := by
      have : i + 1 ≠ i1 := by omega
      simp [this]
    simp only [rangeLoopW, rangeLoop]
    by_cases hmid : (i != i1 && i != i2) = true
    · have hne1 : i ≠ i1 := by intro h; simp [h] at hmid
      have hne2 : i ≠ i2 := by intro h; simp [h] at hmid
      simp only [hmid, if_true]
      have hm : wordMaskFor i1 i2 sb eb i = BitVec.allOnes 64 := by
        unfold wordMaskFor; simp only [hne1, hne2, if_false]; exact and_allOnes' _
      rw [hm, ← hwhole]
      have hj : (if i = i1 then sb else 0) = 0 := by simp [hne1]
      rw [hj]
      have := ih (d.set i (whole (getW d i) s).1) (whole (getW d i) s).2 (i + 1) (by omega) (by omega)
      rw [hnext] at this; exact this
    · simp only [hmid, Bool.false_eq_true, if_false]
      have hedge : i = i1 ∨ i = i2 := by
        by_cases h1 : i = i1
        · exact Or.inl h1
        · by_cases h2 : i = i2
          · exact Or.inr h2
          · exfalso; apply hmid; simp [h1, h2]
      -- first bit and last bit handled in this word
      generalize hj : (if i = i1 then sb else 0) = j
      generalize hl : (if (i == i2) = true then eb + 1 else dbpw) = last
      have hlast : last = (if i = i2 then eb else 63) + 1 := by
        rw [← hl, dbpw_eq]; by_cases h : i = i2 <;> simp [h]
      have hjl : j < last := by
        rw [hlast, ← hj]
        by_cases h1 : i = i1
        · by_cases h2 : i = i2
          · have := hse (h1.symm.trans h2)
            rw [if_pos h1, if_pos h2]; omega
          · rw [if_pos h1, if_neg h2]; omega
        · by_cases h2 : i = i2
          · rw [if_neg h1, if_pos h2]; omega
          · rw [if_neg h1, if_neg h2]; omega
      have hl64 : last ≤ 64 := by
        rw [hlast]; by_cases h2 : i = i2
        · rw [if_pos h2]; omega
        · rw [if_neg h2]; omega
      have hm : wordMaskFor i1 i2 sb eb i = rangeMask j (j + (last - j) - 1) := by
        have e : j + (last - j) - 1 = (if i = i2 then eb else 63) := by omega
        rw [e, ← hj]
        unfold wordMaskFor rangeMask
        by_cases h1 : i = i1
        · by_cases h2 : i = i2
          · simp only [if_pos h1, if_pos h2]
          · simp only [if_pos h1, if_neg h2, maskTo_63]
        · by_cases h2 : i = i2
          · simp only [if_neg h1, if_pos h2, maskFrom_zero]
          · simp only [if_neg h1, if_neg h2, maskFrom_zero, maskTo_63]
      rw [hm, ← hbits _ _ _ _ (by omega) (by omega)]
      have := ih (d.set i (bitLoop act (getW d i) s j (last - j)).1) (bitLoop act (getW d i) s j (last - j)).2 (i + 1)
        (by omega) (by omega)
      rw [hnext] at this; exact this

/-- **SetRange / ClearRange / FlipRange, word at a time**: with `w | m`, `w &^ m`, `w ^ m` and the counts updated by the
    population count of the bits that actually change, the result is the one of the source's loops -/
theorem rangeLoopW_set (i1 i2 sb eb : Nat) (hsb : sb < 64) (heb : eb < 64) (h12 : i1 ≤ i2) (hse : i1 = i2 → sb ≤ eb)
    (d : List W) (s : Int) :
    rangeLoopW maskSet i1 i2 sb eb d s i1 (i2 + 1 - i1) = rangeLoop wholeSet bitSet i1 i2 eb d s i1 sb (i2 + 1 - i1) := by
  have := rangeLoopW_eq wholeSet_mask bitLoop_maskSet i1 i2 sb eb hsb heb h12 hse (i2 + 1 - i1) d s i1 (Nat.le_refl _) (by omega)
  simpa using this

theorem rangeLoopW_clear (i1 i2 sb eb : Nat) (hsb : sb < 64) (heb : eb < 64) (h12 : i1 ≤ i2) (hse : i1 = i2 → sb ≤ eb)
    (d : List W) (s : Int) :
    rangeLoopW maskClear i1 i2 sb eb d s i1 (i2 + 1 - i1) = rangeLoop wholeClear bitClear i1 i2 eb d s i1 sb (i2 + 1 - i1) := by
  have := rangeLoopW_eq wholeClear_mask bitLoop_maskClear i1 i2 sb eb hsb heb h12 hse (i2 + 1 - i1) d s i1 (Nat.le_refl _) (by omega)
  simpa using this

theorem rangeLoopW_flip (i1 i2 sb eb : Nat) (hsb : sb < 64) (heb : eb < 64) (h12 : i1 ≤ i2) (hse : i1 = i2 → sb ≤ eb)
    (d : List W) (s : Int) :
    rangeLoopW maskFlip i1 i2 sb eb d s i1 (i2 + 1 - i1) = rangeLoop wholeFlip bitFlip i1 i2 eb d s i1 sb (i2 + 1 - i1) := by
  have := rangeLoopW_eq wholeFlip_mask bitLoop_maskFlip i1 i2 sb eb hsb heb h12 hse (i2 + 1 - i1) d s i1 (Nat.le_refl _) (by omega)
  simpa using this

/-! ### the exported range operations, word at a time -/

def runRangeW (app : W → Int → W → W × Int) (b : T) (lo hi : Nat) : T :=
  { data := (rangeLoopW app (lo / 64) (hi / 64) (lo % 64) (hi % 64) b.data b.set (lo / 64) (hi / 64 + 1 - lo / 64)).1,
    set := (rangeLoopW app (lo / 64) (hi / 64) (lo % 64) (hi % 64) b.data b.set (lo / 64) (hi / 64 + 1 - lo / 64)).2 }

theorem runRangeW_eq {whole : W → Int → W × Int} {act : W → Int → Nat → W × Int} {app : W → Int → W → W × Int}
    (hwhole : ∀ w s, whole w s = app w s (BitVec.allOnes 64))
    (hbits : ∀ w s j n, 0 < n → j + n ≤ 64 → bitLoop act w s j n = app w s (rangeMask j (j + n - 1)))
    (b : T) (lo hi : Nat) (h : lo ≤ hi) :
    runRangeW app b lo hi = runRange whole act b lo hi (wordIdx lo) (wordIdx hi) := by
  have hl : lo % 64 < 64 := Nat.mod_lt _ (by decide)
  have hh : hi % 64 < 64 := Nat.mod_lt _ (by decide)
  have := rangeLoopW_eq hwhole hbits (lo / 64) (hi / 64) (lo % 64) (hi % 64) hl hh (Nat.div_le_div_right h)
    (fun e => by omega) (hi / 64 + 1 - lo / 64) b.data b.set (lo / 64) (Nat.le_refl _)
    (by have := Nat.div_le_div_right (c := 64) h; omega)
  simp only [if_true] at this
  unfold runRangeW runRange
  simp only [bitIndexForMask_wordMask, wordIdx_eq]
  rw [this]

def setRangeW (b : T) (start end_ : Nat) : T :=
  let se := if start > end_ then (end_, start) else (start, end_)
  runRangeW maskSet (ensureCapacity b (wordIdx se.2 + 1)) se.1 se.2

def flipRangeW (b : T) (start end_ : Nat) : T :=
  let se := if start > end_ then (end_, start) else (start, end_)
  runRangeW maskFlip (ensureCapacity b (wordIdx se.2 + 1)) se.1 se.2

def clearRangeW (b : T) (start end_ : Nat) : T :=
  let se := if start > end_ then (end_, start) else (start, end_)
  let len := b.data.length
  if wordIdx se.1 + 1 > len then b
  else runRangeW maskClear b se.1 (if wordIdx se.2 + 1 > len then len * 64 - 1 else se.2)

theorem setRangeW_eq (b : T) (s e : Nat) : setRangeW b s e = setRange b s e := by
  unfold setRangeW setRange
  simp only
  generalize hse : (if s > e then (e, s) else (s, e)) = se
  have hle : se.1 ≤ se.2 := by rw [← hse]; split <;> simp <;> omega
  exact runRangeW_eq wholeSet_mask bitLoop_maskSet _ _ _ hle

theorem flipRangeW_eq (b : T) (s e : Nat) : flipRangeW b s e = flipRange b s e := by
  unfold flipRangeW flipRange
  simp only
  generalize hse : (if s > e then (e, s) else (s, e)) = se
  have hle : se.1 ≤ se.2 := by rw [← hse]; split <;> simp <;> omega
  exact runRangeW_eq wholeFlip_mask bitLoop_maskFlip _ _ _ hle

theorem clearRangeW_eq (b : T) (s e : Nat) : clearRangeW b s e = clearRange b s e := by
  unfold clearRangeW clearRange
  simp only
  generalize hse : (if s > e then (e, s) else (s, e)) = se
  have hle : se.1 ≤ se.2 := by rw [← hse]; split <;> simp <;> omega
  split
  · rfl
  · rename_i h1
    rw [wordIdx_eq] at h1
    split
    · rename_i h2
      simp only [shl_eq]
      rw [runRangeW_eq wholeClear_mask bitLoop_maskClear b se.1 (b.data.length * 64 - 1) (by omega)]
      have : wordIdx (b.data.length * 64 - 1) = b.data.length - 1 := by rw [wordIdx_eq]; omega
      rw [this]
    · exact runRangeW_eq wholeClear_mask bitLoop_maskClear _ _ _ hle

end BS
