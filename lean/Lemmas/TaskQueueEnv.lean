import Lemmas.TaskQueueLive
import Model.TaskQueueEnv
/-! C15: the queue with callers outside the contract (Model/TaskQueueEnv.lean). Core Lean only. -/
namespace TQE
open TQ TQW

theorem estep_iff_enext (v : Variant) (c : Cfg) (e e' : ES) : EStep v c e e' ↔ ∃ l, enext v c e l = some e' := by
  constructor
  · intro h
    cases h
    case inner ts' h =>
      obtain ⟨l, hl⟩ := (tstep_iff_tnext v c e.ts ts').mp h
      exact ⟨.inner l, by simp [enext, hl]⟩
    case submitClosed h => exact ⟨.submitClosed, by simp [enext, h]⟩
  · rintro ⟨l, hl⟩
    cases l
    case inner l =>
      simp only [enext] at hl
      cases hn : tnext v c e.ts l with
      | none => simp [hn] at hl
      | some ts' =>
        simp [hn] at hl; subst hl
        exact EStep.inner e ts' ((tstep_iff_tnext v c e.ts ts').mpr ⟨l, hn⟩)
    case submitClosed =>
      simp only [enext] at hl
      split at hl
      · next h => cases hl; exact EStep.submitClosed e h
      · cases hl

/-- the queue part of a reachable state of the layer is a reachable state of the queue -/
theorem ereachable_ts (v : Variant) (c : Cfg) (e : ES) (h : EReachable v c e) : TReachable v c e.ts := by
  induction h with
  | init => exact TReachable.init
  | step e e' _ st ih =>
    cases st
    case inner ts' h => exact TReachable.step _ _ ih h
    case submitClosed h => exact ih

theorem ereachable_erunLabels (v : Variant) (c : Cfg) (ls : List ELabel) (e e' : ES) (he : EReachable v c e)
    (h : erunLabels v c e ls = some e') : EReachable v c e' := by
  induction ls generalizing e with
  | nil => simp [erunLabels] at h; subst h; exact he
  | cons l ls ih =>
    simp only [erunLabels] at h
    split at h
    · next e1 h1 => exact ih e1 (EReachable.step e e1 he ((estep_iff_enext v c e e1).mpr ⟨l, h1⟩)) h
    · cases h

/-- once `Shutdown` has been called no `Submit` is accepted any more, whatever the schedule: the rule `submit` is not
    enabled, in the protocol or in the threaded model (own queue included) -/
theorem no_accept_after_shutdown (v : Variant) (c : Cfg) (s : TS) (hs : 1 ≤ s.q.shut) (p : Bool) :
    tnext v c s (.q (.submit p)) = none ∧ ∀ i, tnext v c s (.nestedSubmit i) = none := by
  constructor
  · have : ¬ s.q.shut = 0 := by omega
    simp [tnext, isWorker, next, noH, this]
  · intro i
    have : ¬ s.q.shut = 0 := by omega
    simp only [tnext]
    split
    · simp [this]
    · rfl

/-- a step of the layer either is a step of the queue or leaves the queue untouched -/
theorem estep_ts (v : Variant) (c : Cfg) (e e' : ES) (st : EStep v c e e') :
    (TStep v c e.ts e'.ts ∧ e'.callerPanics = e.callerPanics) ∨
    (e'.ts = e.ts ∧ e'.callerPanics = e.callerPanics + 1 ∧ 1 ≤ e.ts.q.shut) := by
  cases st
  case inner ts' h => exact Or.inl ⟨h, rfl⟩
  case submitClosed h => exact Or.inr ⟨rfl, rfl, h⟩

def IsERun (v : Variant) (c : Cfg) (run : Nat → ES) : Prop :=
  ∀ i, EStep v c (run i) (run (i + 1)) ∨ (run (i + 1) = run i ∧ ¬ ∃ e', EStep v c (run i) e')

/-- the measure: the variant of the queue plus the late `Submit` calls still to come (at most `K` in the whole run) -/
theorem erun_inv (v : Variant) (c : Cfg) (hv : InDomain v) (hw : 1 ≤ c.workers) (e : ES) (h : EReachable v c e)
    (hs : 1 ≤ e.ts.q.shut) (K : Nat) (run : Nat → ES) (h0 : run 0 = e) (hrun : IsERun v c run)
    (hK : ∀ i, (run i).callerPanics ≤ e.callerPanics + K) (i : Nat) :
    EReachable v c (run i) ∧ 1 ≤ (run i).ts.q.shut ∧
    (mu2 (run i).ts + (e.callerPanics + K - (run i).callerPanics) + i ≤ mu2 e.ts + K ∨ (run i).ts.q.shut = 2) := by
  induction i with
  | zero => rw [h0]; exact ⟨h, hs, Or.inl (by omega)⟩
  | succ i ih =>
    obtain ⟨hr, hs1, hm⟩ := ih
    have htr := ereachable_ts v c _ hr
    obtain ⟨hq, L⟩ := simulation v c hv.1.1 hv.1.2 _ htr
    have hKi := hK i
    have hKi1 := hK (i + 1)
    rcases hrun i with st | ⟨heq, hstuck⟩
    · have hr' := EReachable.step _ _ hr st
      rcases estep_ts v c _ _ st with ⟨hst, hcp⟩ | ⟨hts, hcp, _⟩
      · have hm' := mu2_step v c hv.1 _ _ L hs1 hst
        refine ⟨hr', hm'.2, ?_⟩
        rcases hm with hm | hm
        · left; rw [hcp]; omega
        · right
          obtain ⟨h1, _⟩ := sim_step v c hv.1.1 hv.1.2 _ _ L hst
          rcases h1 with ⟨hst', _⟩ | ⟨heq', _⟩
          · exact shut_two_stable _ _ _ hst' hm
          · rw [heq']; exact hm
      · refine ⟨hr', by rw [hts]; exact hs1, ?_⟩
        rcases hm with hm | hm
        · left; rw [hts, hcp]; rw [hcp] at hKi1; omega
        · right; rw [hts]; exact hm
    · rw [heq]
      refine ⟨hr, hs1, Or.inr ?_⟩
      have hfin : (run i).ts.q.pc = .fin := by
        cases hp : (run i).ts.q.pc with
        | fin => rfl
        | _ =>
          exfalso
          obtain ⟨ts', st⟩ := tprogress v c hv hw (run i).ts htr hs1 (by rw [hp]; simp)
          exact hstuck ⟨_, EStep.inner (run i) ts' st⟩
      exact finShut _ _ hq hfin

/-- **Shutdown returns although callers keep calling Submit after it** (each such call panics in its caller): in every
    run with at most `K` such calls, within `mu2 + K + 1` steps -/
theorem eshutdown_returns (v : Variant) (c : Cfg) (hv : InDomain v) (hw : 1 ≤ c.workers) (e : ES) (h : EReachable v c e)
    (hs : 1 ≤ e.ts.q.shut) (K : Nat) (run : Nat → ES) (h0 : run 0 = e) (hrun : IsERun v c run)
    (hK : ∀ i, (run i).callerPanics ≤ e.callerPanics + K) : (run (mu2 e.ts + K + 1)).ts.q.shut = 2 := by
  obtain ⟨_, _, hm⟩ := erun_inv v c hv hw e h hs K run h0 hrun hK (mu2 e.ts + K + 1)
  rcases hm with hm | hm
  · omega
  · exact hm

end TQE
