import Mathlib.Order.Defs.LinearOrder
import Lemmas.QuadTreeTree
/-! Pruning laws that need NO arithmetic: `geom`'s predicates only COMPARE the four values `X`, `Y`, `Right()`, `Bottom()`
    of each rectangle, so for any linearly ordered coordinate type with ARBITRARY `+` and `-` (rounding like `float64`,
    wrapping like `int`, anything) containment in a node's rectangle implies the node test of the point and the
    intersection queries; for the two containment queries it does so as soon as the rectangle in the middle has a
    representable point (`X < Right()` and `Y < Bottom()`: `QT.Proper`) — which is exactly what fails in the known
    findings of C07 (a float width absorbed by rounding, an int `X+Width` that wraps).  The query theorems are restated
    with a pruning hypothesis restricted to STORED items. -/
namespace QT
open Geom

section Order
variable {α : Type} [LinearOrder α] [Add α] [Sub α] [OfNat α 0]

/-- the rectangle has a representable point as the machine computes its far edges -/
def Proper (r : Rect α) : Prop := r.x < r.right ∧ r.y < r.bottom

theorem contains_iff_ord (r i : Rect α) : r.contains i = true ↔
    r.empty = false ∧ i.empty = false ∧ r.x ≤ i.x ∧ r.y ≤ i.y ∧ i.right ≤ r.right ∧ i.bottom ≤ r.bottom := by
  unfold Rect.contains
  cases hr : r.empty <;> cases hi : i.empty <;> simp [and_assoc]

theorem intersects_iff_ord (r o : Rect α) : r.intersects o = true ↔
    r.empty = false ∧ o.empty = false ∧ r.x < o.right ∧ r.y < o.bottom ∧ o.x < r.right ∧ o.y < r.bottom := by
  unfold Rect.intersects
  cases hr : r.empty <;> cases ho : o.empty <;> simp [and_assoc]

theorem inRect_iff_ord (p : Point α) (r : Rect α) : p.inRect r = true ↔
    r.empty = false ∧ r.x ≤ p.x ∧ r.y ≤ p.y ∧ p.x < r.right ∧ p.y < r.bottom := by
  unfold Point.inRect
  cases hr : r.empty <;> simp [and_assoc]

theorem prune_point_ord (a b : Rect α) (p : Point α) (h : a.contains b = true) (hp : p.inRect b = true) :
    p.inRect a = true := by
  rw [contains_iff_ord] at h; rw [inRect_iff_ord] at hp ⊢
  obtain ⟨a0, _, a1, a2, a3, a4⟩ := h
  obtain ⟨_, p1, p2, p3, p4⟩ := hp
  exact ⟨a0, le_trans a1 p1, le_trans a2 p2, lt_of_lt_of_le p3 a3, lt_of_lt_of_le p4 a4⟩

theorem prune_intersects_ord (a b q : Rect α) (h : a.contains b = true) (hq : b.intersects q = true) :
    a.intersects q = true := by
  rw [contains_iff_ord] at h; rw [intersects_iff_ord] at hq ⊢
  obtain ⟨a0, _, a1, a2, a3, a4⟩ := h
  obtain ⟨_, q0, q1, q2, q3, q4⟩ := hq
  exact ⟨a0, q0, lt_of_le_of_lt a1 q1, lt_of_le_of_lt a2 q2, lt_of_lt_of_le q3 a3, lt_of_lt_of_le q4 a4⟩

theorem prune_containsRect_ord (a b q : Rect α) (hq : q.empty = false → Proper q) (h : a.contains b = true)
    (h2 : b.contains q = true) : a.intersects q = true := by
  rw [contains_iff_ord] at h h2; rw [intersects_iff_ord]
  obtain ⟨a0, _, a1, a2, a3, a4⟩ := h
  obtain ⟨_, q0, b1, b2, b3, b4⟩ := h2
  have hq := hq q0
  exact ⟨a0, q0, lt_of_le_of_lt (le_trans a1 b1) hq.1, lt_of_le_of_lt (le_trans a2 b2) hq.2,
    lt_of_lt_of_le hq.1 (le_trans b3 a3), lt_of_lt_of_le hq.2 (le_trans b4 a4)⟩

theorem prune_containedBy_ord (a b q : Rect α) (hb : Proper b) (h : a.contains b = true) (h2 : q.contains b = true) :
    a.intersects q = true := by
  rw [contains_iff_ord] at h h2; rw [intersects_iff_ord]
  obtain ⟨a0, _, a1, a2, a3, a4⟩ := h
  obtain ⟨q0, _, b1, b2, b3, b4⟩ := h2
  exact ⟨a0, q0, lt_of_le_of_lt a1 (lt_of_lt_of_le hb.1 b3), lt_of_le_of_lt a2 (lt_of_lt_of_le hb.2 b4),
    lt_of_le_of_lt b1 (lt_of_lt_of_le hb.1 a3), lt_of_le_of_lt b2 (lt_of_lt_of_le hb.2 a4)⟩
end Order

/-- Go's `int` comparisons: `Int64` with its own `≤`, `<`, `min`, `max` is a linear order (arithmetic plays no role) -/
@[reducible] def linearOrderInt64 : LinearOrder Int64 where
  le := (· ≤ ·)
  lt := (· < ·)
  le_refl a := Int64.le_iff_toInt_le.mpr (Int.le_refl _)
  le_trans a b c h1 h2 := Int64.le_iff_toInt_le.mpr (Int.le_trans (Int64.le_iff_toInt_le.mp h1) (Int64.le_iff_toInt_le.mp h2))
  le_antisymm a b h1 h2 := Int64.toInt_inj.mp (Int.le_antisymm (Int64.le_iff_toInt_le.mp h1) (Int64.le_iff_toInt_le.mp h2))
  le_total a b := by
    rcases Int.le_total a.toInt b.toInt with h | h
    · exact Or.inl (Int64.le_iff_toInt_le.mpr h)
    · exact Or.inr (Int64.le_iff_toInt_le.mpr h)
  lt_iff_le_not_ge a b := by
    rw [Int64.lt_iff_toInt_lt, Int64.le_iff_toInt_le, Int64.le_iff_toInt_le]; omega
  toDecidableLE := inferInstance
  toDecidableEq := inferInstance
  toDecidableLT := inferInstance
  min := min
  max := max
  min_def a b := rfl
  max_def a b := rfl


/-! the query lemmas with a pruning hypothesis about stored items only -/
variable {R P : Type} [L : RectOps R P]

theorem Node.find_eq_filter_mem (pr : R → Bool) (f : Item R → Bool) (n : Node R) (h : Node.Inv n)
    (hpr : ∀ (a : R), ∀ it ∈ n.all, L.contains a it.rect = true → f it = true → pr a = true) :
    Node.find pr f n = n.all.filter f := by
  induction n with
  | leaf r cs =>
    simp only [Node.find, Node.all]
    split
    · rfl
    · rename_i hq
      symm
      rw [List.filter_eq_nil_iff]
      intro it hit hi
      exact hq (hpr r it hit (h it hit) hi)
  | split r cs c0 c1 c2 c3 ih0 ih1 ih2 ih3 =>
    obtain ⟨hall, h0, h1, h2, h3⟩ := h
    have m0 : ∀ it ∈ c0.all, it ∈ (Node.split r cs c0 c1 c2 c3).all := fun it h => by simp [Node.all, h]
    have m1 : ∀ it ∈ c1.all, it ∈ (Node.split r cs c0 c1 c2 c3).all := fun it h => by simp [Node.all, h]
    have m2 : ∀ it ∈ c2.all, it ∈ (Node.split r cs c0 c1 c2 c3).all := fun it h => by simp [Node.all, h]
    have m3 : ∀ it ∈ c3.all, it ∈ (Node.split r cs c0 c1 c2 c3).all := fun it h => by simp [Node.all, h]
    simp only [Node.find, Node.all]
    split
    · rw [ih0 h0 (fun a it hit => hpr a it (m0 it hit)), ih1 h1 (fun a it hit => hpr a it (m1 it hit)),
        ih2 h2 (fun a it hit => hpr a it (m2 it hit)), ih3 h3 (fun a it hit => hpr a it (m3 it hit))]
      simp [List.filter_append]
    · rename_i hq
      symm
      rw [List.filter_eq_nil_iff]
      intro it hit hi
      exact hq (hpr r it hit (hall it hit) hi)

theorem tree_find_perm_mem (bounds : Nat → R) (t : Tree R) (h : TInv bounds t) (pr : R → Bool) (f : Item R → Bool)
    (hpr : ∀ (a : R), ∀ it ∈ t.all, L.contains a it.rect = true → f it = true → pr a = true) :
    (t.find pr f).Perm (t.all.filter f) := by
  unfold Tree.find
  rw [all_eq, List.filter_append]
  cases hroot : t.root with
  | none => simp [rootAll]
  | some r =>
    simp only [rootAll]
    rw [Node.find_eq_filter_mem pr f r (h.root r hroot)
      (fun a it hit => hpr a it (by rw [all_eq, hroot]; exact List.mem_append_right _ hit))]
    exact List.perm_append_comm

end QT
