import Lemmas.QuadTreeTree
import Model.QuadTreeI64
/-! Pruning laws that need NO arithmetic and almost no order theory: `geom`'s predicates only COMPARE the four values `X`,
    `Y`, `Right()`, `Bottom()` of each rectangle, so for ANY coordinate type with a `≤` and a `<` that satisfy the three
    transitivity laws of `QT.OrdLaws` — no antisymmetry, no totality, nothing about `min`/`max` (they only shape the
    root that `Reorganize` computes), ARBITRARY `+` and `-` (rounding like `float64`, wrapping like `int`) — containment
    in a node's rectangle implies the node test of the point and the intersection queries; for the two containment
    queries it does so as soon as the rectangle in the middle has a representable point (`X < Right()` and
    `Y < Bottom()`: `QT.Proper`) — which is exactly what fails in the known findings of C07 (a float width absorbed by
    rounding, an int `X+Width` that wraps).  IEEE-754 comparisons satisfy the three laws for ALL doubles (a NaN makes a
    premise false; `-0` and `+0` compare equal, which no law forbids), machine integers satisfy them (`ordLawsInt64`).
    The query theorems are restated with a pruning hypothesis restricted to STORED items.  Core Lean only. -/
namespace QT
open Geom

/-- all that the pruning argument needs of the comparisons of the coordinate type -/
structure OrdLaws (α : Type) [LE α] [LT α] : Prop where
  le_trans : ∀ a b c : α, a ≤ b → b ≤ c → a ≤ c
  lt_of_lt_of_le : ∀ a b c : α, a < b → b ≤ c → a < c
  lt_of_le_of_lt : ∀ a b c : α, a ≤ b → b < c → a < c

theorem ordLawsInt : OrdLaws Int := ⟨fun _ _ _ => Int.le_trans, fun _ _ _ => Int.lt_of_lt_of_le, fun _ _ _ => Int.lt_of_le_of_lt⟩

/-- Go's `int` comparisons -/
theorem ordLawsInt64 : OrdLaws Int64 where
  le_trans a b c h1 h2 := by rw [Int64.le_iff_toInt_le] at *; omega
  lt_of_lt_of_le a b c h1 h2 := by rw [Int64.lt_iff_toInt_lt] at *; rw [Int64.le_iff_toInt_le] at h2; omega
  lt_of_le_of_lt a b c h1 h2 := by rw [Int64.lt_iff_toInt_lt] at *; rw [Int64.le_iff_toInt_le] at h1; omega

set_option linter.unusedSectionVars false
section Order
variable {α : Type} [LE α] [LT α] [DecidableLE α] [DecidableLT α] [Max α] [Min α] [Add α] [Sub α] [OfNat α 0]

/-- the rectangle has a representable point as the machine computes its far edges -/
def Proper (r : Rect α) : Prop := r.x < r.right ∧ r.y < r.bottom

theorem contains_iff_ord (r i : Rect α) : r.contains i = true ↔
    r.empty = false ∧ i.empty = false ∧ r.x ≤ i.x ∧ r.y ≤ i.y ∧ i.right ≤ r.right ∧ i.bottom ≤ r.bottom := by
  unfold Rect.contains
  cases hr : r.empty <;> cases hi : i.empty <;> simp [and_assoc]

theorem intersects_iff_ord (r o : Rect α) : r.intersects o = true ↔
    r.empty = false ∧ o.empty = false ∧ r.x < o.right ∧ r.y < o.bottom ∧ o.x < r.right ∧ o.y < r.bottom := by
  unfold Rect.intersects
  cases hr : r.empty <;> cases ho : o.empty <;> simp [and_assoc]

theorem inRect_iff_ord (p : Point α) (r : Rect α) : p.inRect r = true ↔
    r.empty = false ∧ r.x ≤ p.x ∧ r.y ≤ p.y ∧ p.x < r.right ∧ p.y < r.bottom := by
  unfold Point.inRect
  cases hr : r.empty <;> simp [and_assoc]

theorem prune_point_ord (O : OrdLaws α) (a b : Rect α) (p : Point α) (h : a.contains b = true) (hp : p.inRect b = true) :
    p.inRect a = true := by
  rw [contains_iff_ord] at h; rw [inRect_iff_ord] at hp ⊢
  obtain ⟨a0, _, a1, a2, a3, a4⟩ := h
  obtain ⟨_, p1, p2, p3, p4⟩ := hp
  exact ⟨a0, O.le_trans _ _ _ a1 p1, O.le_trans _ _ _ a2 p2, O.lt_of_lt_of_le _ _ _ p3 a3, O.lt_of_lt_of_le _ _ _ p4 a4⟩

theorem prune_intersects_ord (O : OrdLaws α) (a b q : Rect α) (h : a.contains b = true) (hq : b.intersects q = true) :
    a.intersects q = true := by
  rw [contains_iff_ord] at h; rw [intersects_iff_ord] at hq ⊢
  obtain ⟨a0, _, a1, a2, a3, a4⟩ := h
  obtain ⟨_, q0, q1, q2, q3, q4⟩ := hq
  exact ⟨a0, q0, O.lt_of_le_of_lt _ _ _ a1 q1, O.lt_of_le_of_lt _ _ _ a2 q2, O.lt_of_lt_of_le _ _ _ q3 a3, O.lt_of_lt_of_le _ _ _ q4 a4⟩

theorem prune_containsRect_ord (O : OrdLaws α) (a b q : Rect α) (hq : q.empty = false → Proper q) (h : a.contains b = true)
    (h2 : b.contains q = true) : a.intersects q = true := by
  rw [contains_iff_ord] at h h2; rw [intersects_iff_ord]
  obtain ⟨a0, _, a1, a2, a3, a4⟩ := h
  obtain ⟨_, q0, b1, b2, b3, b4⟩ := h2
  have hq := hq q0
  exact ⟨a0, q0, O.lt_of_le_of_lt _ _ _ (O.le_trans _ _ _ a1 b1) hq.1, O.lt_of_le_of_lt _ _ _ (O.le_trans _ _ _ a2 b2) hq.2,
    O.lt_of_lt_of_le _ _ _ hq.1 (O.le_trans _ _ _ b3 a3), O.lt_of_lt_of_le _ _ _ hq.2 (O.le_trans _ _ _ b4 a4)⟩

theorem prune_containedBy_ord (O : OrdLaws α) (a b q : Rect α) (hb : Proper b) (h : a.contains b = true) (h2 : q.contains b = true) :
    a.intersects q = true := by
  rw [contains_iff_ord] at h h2; rw [intersects_iff_ord]
  obtain ⟨a0, _, a1, a2, a3, a4⟩ := h
  obtain ⟨q0, _, b1, b2, b3, b4⟩ := h2
  exact ⟨a0, q0, O.lt_of_le_of_lt _ _ _ a1 (O.lt_of_lt_of_le _ _ _ hb.1 b3), O.lt_of_le_of_lt _ _ _ a2 (O.lt_of_lt_of_le _ _ _ hb.2 b4),
    O.lt_of_le_of_lt _ _ _ b1 (O.lt_of_lt_of_le _ _ _ hb.1 a3), O.lt_of_le_of_lt _ _ _ b2 (O.lt_of_lt_of_le _ _ _ hb.2 a4)⟩
end Order

/-! the query lemmas with a pruning hypothesis about stored items only -/
variable {R P : Type} [L : RectOps R P]

theorem Node.find_eq_filter_mem (pr : R → Bool) (f : Item R → Bool) (n : Node R) (h : Node.Inv n)
    (hpr : ∀ (a : R), ∀ it ∈ n.all, L.contains a it.rect = true → f it = true → pr a = true) :
    Node.find pr f n = n.all.filter f := by
  induction n with
  | leaf r cs =>
    simp only [Node.find, Node.all]
    split
    · rfl
    · rename_i hq
      symm
      rw [List.filter_eq_nil_iff]
      intro it hit hi
      exact hq (hpr r it hit (h it hit) hi)
  | split r cs c0 c1 c2 c3 ih0 ih1 ih2 ih3 =>
    obtain ⟨hall, h0, h1, h2, h3⟩ := h
    have m0 : ∀ it ∈ c0.all, it ∈ (Node.split r cs c0 c1 c2 c3).all := fun it h => by simp [Node.all, h]
    have m1 : ∀ it ∈ c1.all, it ∈ (Node.split r cs c0 c1 c2 c3).all := fun it h => by simp [Node.all, h]
    have m2 : ∀ it ∈ c2.all, it ∈ (Node.split r cs c0 c1 c2 c3).all := fun it h => by simp [Node.all, h]
    have m3 : ∀ it ∈ c3.all, it ∈ (Node.split r cs c0 c1 c2 c3).all := fun it h => by simp [Node.all, h]
    simp only [Node.find, Node.all]
    split
    · rw [ih0 h0 (fun a it hit => hpr a it (m0 it hit)), ih1 h1 (fun a it hit => hpr a it (m1 it hit)),
        ih2 h2 (fun a it hit => hpr a it (m2 it hit)), ih3 h3 (fun a it hit => hpr a it (m3 it hit))]
      simp [List.filter_append]
    · rename_i hq
      symm
      rw [List.filter_eq_nil_iff]
      intro it hit hi
      exact hq (hpr r it hit (hall it hit) hi)

theorem tree_find_perm_mem (bounds : Nat → R) (t : Tree R) (h : TInv bounds t) (pr : R → Bool) (f : Item R → Bool)
    (hpr : ∀ (a : R), ∀ it ∈ t.all, L.contains a it.rect = true → f it = true → pr a = true) :
    (t.find pr f).Perm (t.all.filter f) := by
  unfold Tree.find
  rw [all_eq, List.filter_append]
  cases hroot : t.root with
  | none => simp [rootAll]
  | some r =>
    simp only [rootAll]
    rw [Node.find_eq_filter_mem pr f r (h.root r hroot)
      (fun a it hit => hpr a it (by rw [all_eq, hroot]; exact List.mem_append_right _ hit))]
    exact List.perm_append_comm

end QT
