import Lemmas.RateLimiter
/-! The grant log: what was granted in which period, and how `used` / `last` account for it.  Core Lean. -/
namespace RL

/-- total amount granted in period `p` to limiter `x` and everything below it (a grant to `l` counts for every
    limiter on `l`'s chain) -/
def gsum (p x : Nat) : List Grant → Nat
  | [] => 0
  | g :: gs => (if g.period = p ∧ x ∈ g.chain then g.amt else 0) + gsum p x gs

theorem gsum_append (p x : Nat) (a b : List Grant) : gsum p x (a ++ b) = gsum p x a + gsum p x b := by
  induction a with
  | nil => simp [gsum]
  | cons g gs ih => simp only [List.cons_append, gsum, ih]; omega

theorem gsum_zero_of_period (p x : Nat) (log : List Grant) (h : ∀ g ∈ log, g.period ≠ p) : gsum p x log = 0 := by
  induction log with
  | nil => rfl
  | cons g gs ih =>
    have h1 := h g List.mem_cons_self
    have h2 := ih (fun g' hg' => h g' (List.mem_cons_of_mem _ hg'))
    simp [gsum, h1, h2]

theorem gsum_zero_of_notin (p x : Nat) (log : List Grant) (h : ∀ g ∈ log, x ∉ g.chain) : gsum p x log = 0 := by
  induction log with
  | nil => rfl
  | cons g gs ih =>
    have h1 := h g List.mem_cons_self
    have h2 := ih (fun g' hg' => h g' (List.mem_cons_of_mem _ hg'))
    simp [gsum, h1, h2]

/-- what the service loop grants is exactly what it adds to `used` -/
theorem service_used_eq (cap : Nat → Nat) (chain : Nat → List Nat) (closed : Nat → Bool) (p : Nat)
    (used : Nat → Nat) (w : List Req) (x : Nat) :
    (service cap chain closed p used w).used x = used x + gsum p x (service cap chain closed p used w).grants := by
  induction w generalizing used with
  | nil => simp [service, gsum]
  | cons r rs ih =>
    unfold service
    split
    · exact ih used
    · split
      · exact ih used
      · split
        · have := ih (charge used (chain r.lim) r.amt)
          simp only [gsum, true_and] at this ⊢
          rw [this]
          unfold charge
          split <;> omega
        · exact ih used

/-- every grant of the service loop belongs to a request of the queue whose limiter is open -/
theorem service_grants (cap : Nat → Nat) (chain : Nat → List Nat) (closed : Nat → Bool) (p : Nat)
    (used : Nat → Nat) (w : List Req) :
    ∀ g ∈ (service cap chain closed p used w).grants,
      g.period = p ∧ ∃ r ∈ w, g.id = r.id ∧ g.lim = r.lim ∧ g.amt = r.amt ∧ g.chain = chain r.lim ∧ closed r.lim = false := by
  induction w generalizing used with
  | nil => intro g hg; simp [service] at hg
  | cons r rs ih =>
    have lift : ∀ (u : Nat → Nat), ∀ g ∈ (service cap chain closed p u rs).grants,
        g.period = p ∧ ∃ r' ∈ r :: rs, g.id = r'.id ∧ g.lim = r'.lim ∧ g.amt = r'.amt ∧ g.chain = chain r'.lim ∧ closed r'.lim = false := by
      intro u g hg
      obtain ⟨h1, r', hr', h2⟩ := ih u g hg
      exact ⟨h1, r', List.mem_cons_of_mem _ hr', h2⟩
    unfold service
    split
    · exact lift used
    · rename_i hc
      split
      · exact lift used
      · split
        · intro g hg
          rcases List.mem_cons.mp hg with h | h
          · subst h
            exact ⟨rfl, r, List.mem_cons_self, rfl, rfl, rfl, rfl, by simpa using hc⟩
          · exact lift _ g h
        · exact lift used

/-- `nil` answers of the service loop are exactly its grants -/
theorem service_ok_granted (cap : Nat → Nat) (chain : Nat → List Nat) (closed : Nat → Bool) (p : Nat)
    (used : Nat → Nat) (w : List Req) (id : Nat) :
    (id, Ans.ok) ∈ (service cap chain closed p used w).answers →
      ∃ g ∈ (service cap chain closed p used w).grants, g.id = id := by
  induction w generalizing used with
  | nil => intro h; simp [service] at h
  | cons r rs ih =>
    unfold service
    split
    · intro h
      rcases List.mem_cons.mp h with h | h
      · cases h
      · exact ih used h
    · split
      · intro h
        rcases List.mem_cons.mp h with h | h
        · cases h
        · exact ih used h
      · split
        · intro h
          rcases List.mem_cons.mp h with h | h
          · refine ⟨_, List.mem_cons_self, ?_⟩
            simp at h; exact h.symm
          · obtain ⟨g, hg, hid⟩ := ih _ h
            exact ⟨g, List.mem_cons_of_mem _ hg, hid⟩
        · exact ih used

structure GrantInv (s : S) : Prop where
  period_le : ∀ g ∈ s.glog, g.period ≤ s.ticks
  chain_eq : ∀ g ∈ s.glog, g.lim < s.n ∧ g.chain = s.chain g.lim
  cur_le : ∀ x, gsum s.ticks x s.glog ≤ s.used x
  cur_eq : ∀ x, x < s.n → resets s x = true → gsum s.ticks x s.glog = s.used x
  past : s.setCaps = 0 → ∀ p, p < s.ticks → ∀ x, gsum p x s.glog ≤ s.cap x
  last_eq : ∀ x, x < s.n → resets s x = true → s.last x = if s.ticks = 0 then 0 else gsum (s.ticks - 1) x s.glog

theorem GrantInv.notin {s : S} (gi : GrantInv s) (t : Tree s) : ∀ g ∈ s.glog, s.n ∉ g.chain := by
  intro g hg hn
  have := gi.chain_eq g hg
  rw [this.2] at hn
  have := (t.lt _ _ hn).1
  omega

theorem gsum_cons (p x : Nat) (g : Grant) (gs : List Grant) :
    gsum p x (g :: gs) = (if g.period = p ∧ x ∈ g.chain then g.amt else 0) + gsum p x gs := rfl

theorem grantInv_init (c : Nat) : GrantInv (init c) where
  period_le := by intro g hg; simp [init] at hg
  chain_eq := by intro g hg; simp [init] at hg
  cur_le := by intro x; simp [init, gsum]
  cur_eq := by intro x _ _; simp [init, gsum]
  past := by intro _ p hp; simp [init] at hp
  last_eq := by intro x _ _; simp [init]

/-- a step that leaves the tree, the counters and the log alone -/
theorem grantInv_same {s s' : S} (gi : GrantInv s) (h1 : s'.glog = s.glog) (h2 : s'.ticks = s.ticks) (h3 : s'.n = s.n)
    (h4 : s'.chain = s.chain) (h5 : s'.used = s.used) (h6 : s'.cap = s.cap) (h7 : s'.last = s.last)
    (h8 : ∀ x, resets s' x = true → resets s x = true) (h9 : s'.setCaps = s.setCaps) : GrantInv s' where
  period_le := by rw [h1, h2]; exact gi.period_le
  chain_eq := by rw [h1, h3, h4]; exact gi.chain_eq
  cur_le := by rw [h1, h2, h5]; exact gi.cur_le
  cur_eq := by rw [h1, h2, h3, h5]; exact fun x hx hr => gi.cur_eq x hx (h8 x hr)
  past := by rw [h1, h2, h6, h9]; exact gi.past
  last_eq := by rw [h1, h2, h3, h7]; exact fun x hx hr => gi.last_eq x hx (h8 x hr)

/-- a grant of `amt` to `l` in the current period, charged along `l`'s chain -/
theorem grantInv_grant {s s' : S} (gi : GrantInv s) (l amt : Nat) (hl : l < s.n)
    (h1 : s'.glog = ⟨s.nextReq, l, s.chain l, amt, s.ticks⟩ :: s.glog) (h2 : s'.ticks = s.ticks) (h3 : s'.n = s.n)
    (h4 : s'.chain = s.chain) (h5 : s'.used = charge s.used (s.chain l) amt) (h6 : s'.cap = s.cap)
    (h7 : s'.last = s.last) (h8 : ∀ x, resets s' x = resets s x) (h9 : s'.setCaps = s.setCaps) : GrantInv s' where
  period_le := by
    rw [h1, h2]; intro g hg
    rcases List.mem_cons.mp hg with h | h
    · subst h; exact Nat.le_refl _
    · exact gi.period_le g h
  chain_eq := by
    rw [h1, h3, h4]; intro g hg
    rcases List.mem_cons.mp hg with h | h
    · subst h; exact ⟨hl, rfl⟩
    · exact gi.chain_eq g h
  cur_le := by
    rw [h1, h2, h5]; intro x
    have := gi.cur_le x
    simp only [gsum_cons, charge, true_and]
    split <;> omega
  cur_eq := by
    rw [h1, h2, h3, h5]; intro x hx hr
    have := gi.cur_eq x hx (by rw [← h8]; exact hr)
    simp only [gsum_cons, charge, true_and]
    split <;> omega
  past := by
    rw [h1, h2, h6, h9]; intro hz p hp x
    have := gi.past hz p hp x
    have hne : ¬ (s.ticks = p ∧ x ∈ s.chain l) := by omega
    simp only [gsum_cons, hne, if_false]
    omega
  last_eq := by
    rw [h1, h2, h3, h7]; intro x hx hr
    have := gi.last_eq x hx (by rw [← h8]; exact hr)
    rw [this]
    by_cases h0 : s.ticks = 0
    · simp [h0]
    · have hne : ¬ (s.ticks = s.ticks - 1 ∧ x ∈ s.chain l) := by omega
      simp only [h0, if_false, gsum_cons, hne]
      omega

theorem resets_newChild (s : S) (p c : Nat) (t : Tree s) (x : Nat) (hx : x < s.n) :
    resets (doNewChild s p c) x = resets s x := by
  have hxn : x ≠ s.n := by omega
  have hc : (doNewChild s p c).chain x = s.chain x := by simp [doNewChild, upd, hxn]
  have key : ∀ y ∈ s.chain x, (doNewChild s p c).unlinked y = s.unlinked y := by
    intro y hy
    have : y ≠ s.n := by have := (t.lt x y hy).1; omega
    simp [doNewChild, upd, this]
  unfold resets
  rw [hc, Bool.eq_iff_iff]
  simp only [List.all_eq_true]
  constructor
  · intro h y hy; rw [← key y hy]; exact h y hy
  · intro h y hy; rw [key y hy]; exact h y hy

theorem grantInv_newChild (s : S) (p c : Nat) (t : Tree s) (gi : GrantInv s) : GrantInv (doNewChild s p c) where
  period_le := gi.period_le
  chain_eq := by
    intro g hg
    have := gi.chain_eq g hg
    have hne : g.lim ≠ s.n := by omega
    refine ⟨Nat.lt_succ_of_lt this.1, ?_⟩
    show g.chain = upd s.chain s.n (s.n :: s.chain p) g.lim
    simp [upd, hne, this.2]
  cur_le := by
    intro x
    show gsum s.ticks x s.glog ≤ upd s.used s.n 0 x
    unfold upd
    split
    · rename_i h; subst h
      rw [gsum_zero_of_notin _ _ _ (gi.notin t)]; exact Nat.le_refl _
    · exact gi.cur_le x
  cur_eq := by
    intro x hx hr
    show gsum s.ticks x s.glog = upd s.used s.n 0 x
    unfold upd
    split
    · rename_i h; subst h
      exact gsum_zero_of_notin _ _ _ (gi.notin t)
    · rename_i h
      have hx : x < s.n := by have : x < s.n + 1 := hx; omega
      rw [resets_newChild s p c t x hx] at hr
      exact gi.cur_eq x hx hr
  past := by
    intro hz q hq x
    show gsum q x s.glog ≤ upd s.cap s.n c x
    unfold upd
    split
    · rename_i h; subst h
      rw [gsum_zero_of_notin _ _ _ (gi.notin t)]; exact Nat.zero_le _
    · exact gi.past hz q hq x
  last_eq := by
    intro x hx hr
    show upd s.last s.n 0 x = if s.ticks = 0 then 0 else gsum (s.ticks - 1) x s.glog
    unfold upd
    split
    · rename_i h; subst h
      rw [gsum_zero_of_notin _ _ _ (gi.notin t)]; simp
    · rename_i h
      have hx : x < s.n := by have : x < s.n + 1 := hx; omega
      rw [resets_newChild s p c t x hx] at hr
      exact gi.last_eq x hx hr

theorem resets_closeChild (s : S) (l x : Nat) (h : resets (doCloseChild s l) x = true) : resets s x = true := by
  simp only [resets, List.all_eq_true] at h ⊢
  intro y hy
  have := h y hy
  by_cases hyl : y = l
  · simp [doCloseChild, upd, hyl] at this
  · simpa [doCloseChild, upd, hyl] using this

theorem grantInv_tick (s : S) (ci : CapInv s) (qo : QueueOk s) (gi : GrantInv s) : GrantInv (doTickRuns s) := by
  have hsv := service_grants s.cap s.chain s.closed (s.ticks + 1) (fun x => if resets s x then 0 else s.used x) s.waiting
  have hue := service_used_eq s.cap s.chain s.closed (s.ticks + 1) (fun x => if resets s x then 0 else s.used x) s.waiting
  -- abbreviations for the components of the new state
  have hglog : (doTickRuns s).glog = (service s.cap s.chain s.closed (s.ticks + 1)
      (fun x => if resets s x then 0 else s.used x) s.waiting).grants ++ s.glog := rfl
  have hused : (doTickRuns s).used = (service s.cap s.chain s.closed (s.ticks + 1)
      (fun x => if resets s x then 0 else s.used x) s.waiting).used := rfl
  generalize (service s.cap s.chain s.closed (s.ticks + 1) (fun x => if resets s x then 0 else s.used x) s.waiting) = t
    at hsv hue hglog hused
  have hold : ∀ q x, q ≤ s.ticks → gsum q x t.grants = 0 := by
    intro q x hq
    apply gsum_zero_of_period
    intro g hg
    have := (hsv g hg).1
    omega
  have hnew : ∀ x, gsum (s.ticks + 1) x s.glog = 0 := by
    intro x
    apply gsum_zero_of_period
    intro g hg
    have := gi.period_le g hg
    omega
  refine ⟨?_, ?_, ?_, ?_, ?_, ?_⟩
  · rw [hglog]; intro g hg
    show g.period ≤ s.ticks + 1
    rcases List.mem_append.mp hg with h | h
    · have := (hsv g h).1; omega
    · have := gi.period_le g h; omega
  · rw [hglog]; intro g hg
    show g.lim < s.n ∧ g.chain = s.chain g.lim
    rcases List.mem_append.mp hg with h | h
    · obtain ⟨_, r, hr, _, hlim, _, hch, _⟩ := hsv g h
      rw [hlim]; exact ⟨(qo r hr).1, hch⟩
    · exact gi.chain_eq g h
  · rw [hglog, hused]; intro x
    show gsum (s.ticks + 1) x (t.grants ++ s.glog) ≤ t.used x
    rw [gsum_append, hnew x, hue x]; omega
  · rw [hglog, hused]; intro x hx hr
    show gsum (s.ticks + 1) x (t.grants ++ s.glog) = t.used x
    have hr : resets s x = true := hr
    rw [gsum_append, hnew x, hue x]
    simp [hr]
  · rw [hglog]; intro hz q hq x
    have hz : s.setCaps = 0 := hz
    have hq : q < s.ticks + 1 := hq
    show gsum q x (t.grants ++ s.glog) ≤ s.cap x
    rw [gsum_append, hold q x (by omega)]
    by_cases h : q = s.ticks
    · subst h; have := gi.cur_le x; have := ci hz x; omega
    · have := gi.past hz q (by omega) x; omega
  · rw [hglog]; intro x hx hr
    have hr : resets s x = true := hr
    show (if resets s x then s.used x else s.last x) = if s.ticks + 1 = 0 then 0 else gsum (s.ticks + 1 - 1) x (t.grants ++ s.glog)
    rw [gsum_append]
    simp only [hr, if_true, Nat.add_sub_cancel, Nat.succ_ne_zero, if_false]
    rw [hold s.ticks x (Nat.le_refl _), gi.cur_eq x hx hr]; omega

end RL
