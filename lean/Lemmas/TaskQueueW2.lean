import Lemmas.TaskQueueW
/-! C15, threaded model: derived bound, workers never die, handler calls, liveness. Core Lean only. -/
set_option linter.unusedSimpArgs false
namespace TQW
open TQ

/-- programs that keep the recover in `runTask` and whose dispatcher does not run tasks (the code is one) -/
def Sound (v : Variant) : Prop := v.recovers = true ∧ v.dispatcherRuns = false
/-- … and whose tasks do not call `Submit` on their own queue (the domain of the liveness theorems) -/
def InDomain (v : Variant) : Prop := Sound v ∧ ∀ t, v.nest t = 0

theorem code_inDomain : InDomain code := ⟨⟨rfl, rfl⟩, fun _ => rfl⟩

/-- **derived bound**: tasks are executed only by worker threads, one per thread, and there are `workers` threads -/
theorem executing_le_workers (v : Variant) (c : Cfg) (hv : Sound v) (s : TS) (h : TReachable v c s) :
    (executing s).length ≤ c.workers ∧ s.dexec = none ∧ s.ws.length = c.workers := by
  obtain ⟨_, L⟩ := simulation v c hv.1 hv.2 s h
  have h1 := runningOf_length s.ws
  have h2 := cnt_total s.ws
  refine ⟨?_, L.nodexec, L.len⟩
  simp only [executing, L.nodexec, Option.toList, List.append_nil]
  have := L.len
  omega

theorem not_mem_of_cnt_zero (f : W → Nat) (ws : List W) (h : cnt f ws = 0) (w : W) (hw : w ∈ ws) : f w = 0 := by
  induction ws with
  | nil => cases hw
  | cons x r ih =>
    simp only [cnt] at h
    rcases List.mem_cons.mp hw with e | e
    · subst e; omega
    · exact ih (by omega) e

/-- **no worker ever dies**: every panic is recovered before it reaches the top of the goroutine -/
theorem no_worker_dies (v : Variant) (c : Cfg) (hv : Sound v) (s : TS) (h : TReachable v c s) : W.dead ∉ s.ws := by
  obtain ⟨_, L⟩ := simulation v c hv.1 hv.2 s h
  intro hm
  have := not_mem_of_cnt_zero wdead s.ws L.nodead _ hm
  simp [wdead] at this

/-- a thread that is unwinding or handling is never blocked: its next step is enabled whatever the rest of the system
    does (with the recover in place), and leads towards `reporting` -/
theorem recovery_never_blocks (v : Variant) (c : Cfg) (hv : v.recovers = true) (s : TS) (i t : Nat) :
    (s.ws[i]? = some (.unwinding t) → ∃ s', TStep v c s s' ∧ (s'.ws = s.ws.set i (.handling t) ∨ s'.ws = s.ws.set i .reporting)) ∧
    (s.ws[i]? = some (.handling t) → ∃ s', TStep v c s s' ∧ s'.ws = s.ws.set i .reporting ∧ s'.hcalls = t :: s.hcalls) ∧
    (s.ws[i]? = some (.unwindingH t) → ∃ s', TStep v c s s' ∧ s'.ws = s.ws.set i .reporting) := by
  refine ⟨fun hi => ?_, fun hi => ⟨_, TStep.handlerRet s i t hi, rfl, rfl⟩, fun hi => ⟨_, TStep.guardRecover s i t hi, rfl⟩⟩
  cases hh : c.handler
  · exact ⟨_, TStep.recoverN s i t hi hv hh, Or.inr rfl⟩
  · exact ⟨_, TStep.recoverH s i t hi hv hh, Or.inl rfl⟩

/-! ### handler calls -/

def wpend (id : Nat) : W → Nat
  | .unwinding t => if t = id then 1 else 0
  | .handling t => if t = id then 1 else 0
  | _ => 0
def whandling : W → Nat | .handling _ => 1 | _ => 0

/-- non-worker rules keep `finished`, and `pan` only grows by the id that is being accepted -/
theorem next_keeps2 (c : Cfg) (q q' : S) (l : Label) (hl : isWorker l = false) (h : next c q l = some q') :
    q'.finished = q.finished ∧ (q'.pan = q.pan ∨ q'.pan = q.nextId :: q.pan) := by
  cases l
  case take => simp [isWorker] at hl
  case finish t => simp [isWorker] at hl
  case report => simp [isWorker] at hl
  case submit p =>
    simp only [next] at h
    split at h
    · cases h; cases p
      · exact ⟨rfl, Or.inl rfl⟩
      · exact ⟨rfl, Or.inr rfl⟩
    · cases h
  all_goals
    simp only [next] at h
    (repeat' split at h) <;> first | (cases h; exact ⟨rfl, Or.inl rfl⟩) | cases h

/-- with a handler installed: calls made + calls still to come (threads unwinding from, or handling, the panic of that
    task) = panicking tasks that have ended -/
def HCalls (s : TS) : Prop :=
  ∀ id, s.hcalls.count id + cnt (wpend id) s.ws = if id ∈ s.q.pan then s.q.finished.count id else 0

theorem hcalls_step (v : Variant) (c : Cfg) (hv : v.recovers = true) (hh : c.handler = true) (s s' : TS)
    (hc : Conservation s.q) (H : HCalls s) (st : TStep v c s s') (hdisp : s.dexec = none) : HCalls s' := by
  intro id
  have hid := H id
  cases st
  case other l q' hl h =>
    obtain ⟨hf, hp⟩ := next_keeps2 (noH c) s.q q' l hl h
    show s.hcalls.count id + cnt (wpend id) s.ws = if id ∈ q'.pan then q'.finished.count id else 0
    rw [hf]
    rcases hp with hp | hp
    · rw [hp]; exact hid
    · rw [hp]
      by_cases e : id = s.q.nextId
      · have hcons := hc id
        simp only [places, List.count_append] at hcons
        have hlt : ¬ id < s.q.nextId := by omega
        simp only [hlt, if_false] at hcons
        have hf0 : s.q.finished.count id = 0 := by omega
        rw [hid, hf0]; simp
      · have : (id ∈ s.q.nextId :: s.q.pan) ↔ id ∈ s.q.pan := by simp [e]
        simp only [this]; exact hid
  case take i t rest hi hq =>
    obtain ⟨a, b, h1, h2⟩ := split_at s.ws i .idle (.running t (v.nest t)) hi
    show s.hcalls.count id + cnt (wpend id) (s.ws.set i _) = _
    rw [h2, cnt_append]; rw [h1, cnt_append] at hid
    simpa [cnt, wpend] using hid
  case ret i t hi hp =>
    obtain ⟨a, b, h1, h2⟩ := split_at s.ws i (.running t 0) .reporting hi
    show s.hcalls.count id + cnt (wpend id) (s.ws.set i _) = if id ∈ s.q.pan then (t :: s.q.finished).count id else 0
    rw [h2, cnt_append]; rw [h1, cnt_append] at hid
    by_cases e : id = t
    · subst e; simp [hp, cnt, wpend] at hid ⊢; exact hid
    · have e' : (t == id) = false := by simpa using fun h => e h.symm
      simp only [List.count_cons, e']
      simpa [cnt, wpend] using hid
  case panic i t hi hp =>
    obtain ⟨a, b, h1, h2⟩ := split_at s.ws i (.running t 0) (.unwinding t) hi
    show s.hcalls.count id + cnt (wpend id) (s.ws.set i _) = if id ∈ s.q.pan then (t :: s.q.finished).count id else 0
    rw [h2, cnt_append]; rw [h1, cnt_append] at hid
    by_cases e : id = t
    · subst e; simp [hp, cnt, wpend] at hid ⊢; omega
    · have e' : (t == id) = false := by simpa using fun h => e h.symm
      have e2 : ¬ t = id := fun h => e h.symm
      simp only [List.count_cons, e']
      simpa [cnt, wpend, e2] using hid
  case recoverH i t hi hv' hh' =>
    obtain ⟨a, b, h1, h2⟩ := split_at s.ws i (.unwinding t) (.handling t) hi
    show s.hcalls.count id + cnt (wpend id) (s.ws.set i _) = _
    rw [h2, cnt_append]; rw [h1, cnt_append] at hid
    simpa [cnt, wpend] using hid
  case recoverN i t hi hv' hh' => rw [hh] at hh'; cases hh'
  case die i t hi hv' => rw [hv] at hv'; cases hv'
  case handlerRet i t hi =>
    obtain ⟨a, b, h1, h2⟩ := split_at s.ws i (.handling t) .reporting hi
    show (t :: s.hcalls).count id + cnt (wpend id) (s.ws.set i _) = _
    rw [h2, cnt_append]; rw [h1, cnt_append] at hid
    by_cases e : t = id
    · simp [e, cnt, wpend] at hid ⊢; omega
    · have e' : (t == id) = false := by simpa using e
      simp only [List.count_cons, e']
      simpa [cnt, wpend, e] using hid
  case handlerPanic i t hi =>
    obtain ⟨a, b, h1, h2⟩ := split_at s.ws i (.handling t) (.unwindingH t) hi
    show (t :: s.hcalls).count id + cnt (wpend id) (s.ws.set i _) = _
    rw [h2, cnt_append]; rw [h1, cnt_append] at hid
    by_cases e : t = id
    · simp [e, cnt, wpend] at hid ⊢; omega
    · have e' : (t == id) = false := by simpa using e
      simp only [List.count_cons, e']
      simpa [cnt, wpend, e] using hid
  case guardRecover i t hi =>
    obtain ⟨a, b, h1, h2⟩ := split_at s.ws i (.unwindingH t) .reporting hi
    show s.hcalls.count id + cnt (wpend id) (s.ws.set i _) = _
    rw [h2, cnt_append]; rw [h1, cnt_append] at hid
    simpa [cnt, wpend] using hid
  case report i hi hr =>
    obtain ⟨a, b, h1, h2⟩ := split_at s.ws i .reporting .idle hi
    show s.hcalls.count id + cnt (wpend id) (s.ws.set i _) = _
    rw [h2, cnt_append]; rw [h1, cnt_append] at hid
    simpa [cnt, wpend] using hid
  case nestedSubmit i t k hi h1' h2' =>
    obtain ⟨a, b, h1, h2⟩ := split_at s.ws i (.running t (k + 1)) (.running t k) hi
    show s.hcalls.count id + cnt (wpend id) (s.ws.set i _) = _
    rw [h2, cnt_append]; rw [h1, cnt_append] at hid
    simpa [cnt, wpend] using hid
  case dispStart i b hp hb hv' hd hw hf => exact hid
  case dispEnd i b hd hp => rw [hdisp] at hd; cases hd

theorem hcalls_inv (v : Variant) (c : Cfg) (hv : Sound v) (hh : c.handler = true) (s : TS) (h : TReachable v c s) :
    HCalls s := by
  induction h with
  | init =>
    intro id
    have : ∀ n, cnt (wpend id) (List.replicate n W.idle) = 0 := by
      intro n; induction n with
      | zero => rfl
      | succ n ih => simp [List.replicate_succ, cnt, wpend, ih]
    simp [init, this]
  | step s s' hr st ih =>
    obtain ⟨hq, L⟩ := simulation v c hv.1 hv.2 s hr
    exact hcalls_step v c hv.1 hh s s' (conservation _ _ hq) ih st L.nodexec

/-- without a handler: no call, and no thread is ever in the handler -/
theorem nohandler_inv (v : Variant) (c : Cfg) (hh : c.handler = false) (s : TS) (h : TReachable v c s) :
    s.hcalls = [] ∧ cnt whandling s.ws = 0 := by
  induction h with
  | init =>
    have : ∀ n, cnt whandling (List.replicate n W.idle) = 0 := by
      intro n; induction n with
      | zero => rfl
      | succ n ih => simp [List.replicate_succ, cnt, whandling, ih]
    simp [init, this]
  | step s s' _ st ih =>
    obtain ⟨ih1, ih2⟩ := ih
    have key : ∀ (i : Nat) (w w' : W), s.ws[i]? = some w → whandling w' ≤ whandling w →
        cnt whandling (s.ws.set i w') = 0 := by
      intro i w w' hi hle
      obtain ⟨a, b, h1, h2⟩ := split_at s.ws i w w' hi
      rw [h2, cnt_append]; rw [h1, cnt_append] at ih2
      simp only [cnt] at ih2 ⊢; omega
    have nohand : ∀ (i t : Nat), s.ws[i]? = some (W.handling t) → False := by
      intro i t hi
      obtain ⟨a, b, h1, _⟩ := split_at s.ws i _ W.idle hi
      rw [h1, cnt_append] at ih2
      simp [cnt, whandling] at ih2
    cases st
    case other l q' hl h => exact ⟨ih1, ih2⟩
    case take i t rest hi hq => exact ⟨ih1, key i _ _ hi (by simp [whandling])⟩
    case ret i t hi hp => exact ⟨ih1, key i _ _ hi (by simp [whandling])⟩
    case panic i t hi hp => exact ⟨ih1, key i _ _ hi (by simp [whandling])⟩
    case recoverH i t hi hv hh' => rw [hh] at hh'; cases hh'
    case recoverN i t hi hv hh' => exact ⟨ih1, key i _ _ hi (by simp [whandling])⟩
    case die i t hi hv => exact ⟨ih1, key i _ _ hi (by simp [whandling])⟩
    case handlerRet i t hi => exact (nohand i t hi).elim
    case handlerPanic i t hi => exact (nohand i t hi).elim
    case guardRecover i t hi => exact ⟨ih1, key i _ _ hi (by simp [whandling])⟩
    case report i hi hr => exact ⟨ih1, key i _ _ hi (by simp [whandling])⟩
    case nestedSubmit i t k hi h1 h2 => exact ⟨ih1, key i _ _ hi (by simp [whandling])⟩
    case dispStart i b hp hb hv hd hw hf => exact ⟨ih1, ih2⟩
    case dispEnd i b hd hp => exact ⟨ih1, ih2⟩

theorem wpend_le_wmid (id : Nat) (ws : List W) : cnt (wpend id) ws ≤ cnt wmid ws := by
  induction ws with
  | nil => exact Nat.le_refl _
  | cons w r ih =>
    cases w <;> simp only [cnt, wpend, wmid] <;> (try split) <;> omega

/-! ### tasks in the domain do not submit: every running thread can end its task -/

def wnest : W → Nat | .running _ (_ + 1) => 1 | _ => 0

theorem nonest_inv (v : Variant) (c : Cfg) (hn : ∀ t, v.nest t = 0) (s : TS) (h : TReachable v c s) : cnt wnest s.ws = 0 := by
  induction h with
  | init =>
    have : ∀ n, cnt wnest (List.replicate n W.idle) = 0 := by
      intro n; induction n with
      | zero => rfl
      | succ n ih => simp [List.replicate_succ, cnt, wnest, ih]
    simp [init, this]
  | step s s' _ st ih =>
    have key : ∀ (i : Nat) (w w' : W), s.ws[i]? = some w → wnest w' = 0 → cnt wnest (s.ws.set i w') = 0 := by
      intro i w w' hi hle
      obtain ⟨a, b, h1, h2⟩ := split_at s.ws i w w' hi
      rw [h2, cnt_append]; rw [h1, cnt_append] at ih
      simp only [cnt] at ih ⊢; omega
    cases st
    case other l q' hl h => exact ih
    case take i t rest hi hq => exact key i _ _ hi (by rw [hn t]; rfl)
    case ret i t hi hp => exact key i _ _ hi rfl
    case panic i t hi hp => exact key i _ _ hi rfl
    case recoverH i t hi hv hh' => exact key i _ _ hi rfl
    case recoverN i t hi hv hh' => exact key i _ _ hi rfl
    case die i t hi hv => exact key i _ _ hi rfl
    case handlerRet i t hi => exact key i _ _ hi rfl
    case handlerPanic i t hi => exact key i _ _ hi rfl
    case guardRecover i t hi => exact key i _ _ hi rfl
    case report i hi hr => exact key i _ _ hi rfl
    case nestedSubmit i t k hi h1 h2 =>
      exfalso
      obtain ⟨a, b, h1, _⟩ := split_at s.ws i _ W.idle hi
      rw [h1, cnt_append] at ih
      simp [cnt, wnest] at ih
    case dispStart i b hp hb hv hd hw hf => exact ih
    case dispEnd i b hd hp => exact ih

/-! ### liveness -/

/-- a step of `TQ.Step`, sorted by who takes it -/
theorem step_cases (c : Cfg) (q q' : S) (st : Step c q q') :
    (∃ l, isWorker l = false ∧ next c q l = some q') ∨
    (∃ t rest, q.tq = t :: rest ∧ q.running.length + q.reporting < c.workers) ∨
    (∃ t, t ∈ q.running) ∨ (0 < q.reporting ∧ q.ready < c.workers) := by
  cases st
  case take t rest h1 h2 => exact Or.inr (Or.inl ⟨t, rest, h1, h2⟩)
  case finish t h => exact Or.inr (Or.inr (Or.inl ⟨t, h⟩))
  case report h1 h2 => exact Or.inr (Or.inr (Or.inr ⟨h1, h2⟩))
  case submit p h1 h2 => exact Or.inl ⟨.submit p, rfl, by simp [next, h1, h2]⟩
  case shutdown h1 => exact Or.inl ⟨.shutdown, rfl, by simp [next, h1]⟩
  case recv t rest h1 h2 => exact Or.inl ⟨.recv, rfl, by simp [next, h1, h2]⟩
  case closed h1 h2 h3 => exact Or.inl ⟨.closed, rfl, by simp [next, h1, h2, h3]⟩
  case selReadyEmpty h1 h2 h3 => exact Or.inl ⟨.selReadyEmpty, rfl, by simp [next, h1, h2, h3]⟩
  case selReadyBacklog h1 h2 h3 => exact Or.inl ⟨.selReadyBacklog, rfl, by simp [next, h1, h2, h3]⟩
  case handoff t h1 h2 => exact Or.inl ⟨.handoff, rfl, by simp [next, h1, h2]⟩
  case toBacklog t h1 h2 h3 => exact Or.inl ⟨.toBacklog, rfl, by simp [next, h1, h2, h3]⟩
  case toWait t h1 h2 h3 => exact Or.inl ⟨.toWait, rfl, by simp [next, h1, h2, h3]⟩
  case waitReady t h1 h2 => exact Or.inl ⟨.waitReady, rfl, by simp [next, h1, h2]⟩
  case sendDirect t h1 h2 => exact Or.inl ⟨.sendDirect, rfl, by simp [next, h1, h2]⟩
  case sendBacklog t b rest h1 h2 h3 => exact Or.inl ⟨.sendBacklog, rfl, by simp [next, h1, h2, h3]⟩
  case sendBacklog2 b rest h1 h2 h3 => exact Or.inl ⟨.sendBacklog2, rfl, by simp [next, h1, h2, h3]⟩
  case drainSend i b h1 h2 h3 => exact Or.inl ⟨.drainSend, rfl, by simp [next, h1, h2, h3]⟩
  case drainReady i h1 h2 h3 => exact Or.inl ⟨.drainReady, rfl, by simp [next, h1, h2, h3]⟩
  case drainDone i h1 h2 => exact Or.inl ⟨.drainDone, rfl, by simp [next, h1, h2]⟩
  case finalReady h1 h2 h3 => exact Or.inl ⟨.finalReady, rfl, by simp [next, h1, h2, h3]⟩
  case finalClose h1 h2 => exact Or.inl ⟨.finalClose, rfl, by simp [next, h1, h2]⟩
  case signalDone h1 h2 => exact Or.inl ⟨.signalDone, rfl, by simp [next, h1, h2]⟩

/-- **no deadlock after Shutdown** in the threaded program -/
theorem tprogress (v : Variant) (c : Cfg) (hv : InDomain v) (hw : 1 ≤ c.workers) (s : TS) (h : TReachable v c s)
    (hs : 1 ≤ s.q.shut) (hp : s.q.pc ≠ .fin) : ∃ s', TStep v c s s' := by
  obtain ⟨hq, L⟩ := simulation v c hv.1.1 hv.1.2 s h
  obtain ⟨q', st⟩ := progress (noH c) hw s.q hq hs hp
  have hnest := nonest_inv v c hv.2 s h
  rcases step_cases _ _ _ st with ⟨l, hl, hn⟩ | ⟨t, rest, hq1, hg⟩ | ⟨t, ht⟩ | ⟨hr, hrd⟩
  · exact ⟨_, TStep.other s l q' hl hn⟩
  · -- some thread is idle
    have htot := cnt_total s.ws
    have hlen := runningOf_length s.ws
    have := L.perm.length_eq
    have hidle : 0 < cnt widle s.ws := by
      have := L.rep; have := L.len; have := L.nodead
      have : (noH c).workers = c.workers := rfl
      omega
    obtain ⟨i, w, hi, hwi⟩ := exists_of_cnt_pos widle s.ws hidle
    cases w <;> simp [widle] at hwi
    exact ⟨_, TStep.take s i t rest hi hq1⟩
  · have : t ∈ runningOf s.ws := L.perm.mem_iff.mp ht
    obtain ⟨i, k, hi⟩ := exists_running_of_mem s.ws t this
    cases k with
    | zero =>
      by_cases hpan : t ∈ s.q.pan
      · exact ⟨_, TStep.panic s i t hi hpan⟩
      · exact ⟨_, TStep.ret s i t hi hpan⟩
    | succ k =>
      exfalso
      obtain ⟨a, b, h1, _⟩ := split_at s.ws i _ W.idle hi
      rw [h1, cnt_append] at hnest
      simp [cnt, wnest] at hnest
  · have hmid : 0 < cnt wmid s.ws := by rw [← L.rep]; exact hr
    obtain ⟨i, w, hi, hwi⟩ := exists_of_cnt_pos wmid s.ws hmid
    cases w <;> simp [wmid] at hwi
    case unwinding t => exact ((recovery_never_blocks v c hv.1.1 s i t).1 hi).imp fun _ h => h.1
    case handling t => exact ⟨_, TStep.handlerRet s i t hi⟩
    case unwindingH t => exact ⟨_, TStep.guardRecover s i t hi⟩
    case reporting => exact ⟨_, TStep.report s i hi hrd⟩

/-- the variant of the threaded program -/
def mu2 (s : TS) : Nat := 4 * mu s.q + cnt wextra s.ws

theorem mu2_step (v : Variant) (c : Cfg) (hv : Sound v) (s s' : TS) (L : Link c s) (hs : 1 ≤ s.q.shut)
    (st : TStep v c s s') : mu2 s' < mu2 s ∧ 1 ≤ s'.q.shut := by
  obtain ⟨h1, _⟩ := sim_step v c hv.1 hv.2 s s' L st
  unfold mu2
  rcases h1 with ⟨hst, hex⟩ | ⟨heq, hex⟩
  · have := mu_step (noH c) s.q s'.q hs hst
    exact ⟨by omega, this.2⟩
  · rw [heq]; exact ⟨by omega, hs⟩

def IsRun (v : Variant) (c : Cfg) (run : Nat → TS) : Prop :=
  ∀ i, TStep v c (run i) (run (i + 1)) ∨ (run (i + 1) = run i ∧ ¬ ∃ s', TStep v c (run i) s')

theorem trun_inv (v : Variant) (c : Cfg) (hv : InDomain v) (hw : 1 ≤ c.workers) (s : TS) (h : TReachable v c s)
    (hs : 1 ≤ s.q.shut) (run : Nat → TS) (h0 : run 0 = s) (hrun : IsRun v c run) (i : Nat) :
    TReachable v c (run i) ∧ 1 ≤ (run i).q.shut ∧ (mu2 (run i) + i ≤ mu2 s ∨ (run i).q.shut = 2) := by
  induction i with
  | zero => rw [h0]; exact ⟨h, hs, Or.inl (by omega)⟩
  | succ i ih =>
    obtain ⟨hr, hs1, hm⟩ := ih
    obtain ⟨hq, L⟩ := simulation v c hv.1.1 hv.1.2 _ hr
    rcases hrun i with st | ⟨heq, hstuck⟩
    · have hm' := mu2_step v c hv.1 _ _ L hs1 st
      refine ⟨TReachable.step _ _ hr st, hm'.2, ?_⟩
      rcases hm with hm | hm
      · left; omega
      · right
        obtain ⟨h1, _⟩ := sim_step v c hv.1.1 hv.1.2 _ _ L st
        rcases h1 with ⟨hst, _⟩ | ⟨heq, _⟩
        · exact shut_two_stable _ _ _ hst hm
        · rw [heq]; exact hm
    · rw [heq]
      refine ⟨hr, hs1, Or.inr ?_⟩
      have hfin : (run i).q.pc = .fin := by
        cases hp : (run i).q.pc with
        | fin => rfl
        | _ => exact absurd (tprogress v c hv hw (run i) hr hs1 (by rw [hp]; simp)) hstuck
      exact finShut _ _ hq hfin

/-- **Shutdown returns** in the threaded program: within `mu2 s + 1` steps of any run -/
theorem tshutdown_returns (v : Variant) (c : Cfg) (hv : InDomain v) (hw : 1 ≤ c.workers) (s : TS) (h : TReachable v c s)
    (hs : 1 ≤ s.q.shut) (run : Nat → TS) (h0 : run 0 = s) (hrun : IsRun v c run) : (run (mu2 s + 1)).q.shut = 2 := by
  obtain ⟨_, _, hm⟩ := trun_inv v c hv hw s h hs run h0 hrun (mu2 s + 1)
  rcases hm with hm | hm
  · omega
  · exact hm

end TQW
