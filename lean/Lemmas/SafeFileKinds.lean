import Model.SafeFileKinds
import Lemmas.SafeFileHist
import Lemmas.SafeFileRaceHist
/-! C14, extension: the simulation between the File API running against the kernel with node kinds (`File.stepsK`,
    `applyActK`) and the abstract specification `AbsK`. -/
namespace Safe

structure RelK (m : Nat) (tmp dst : Path) (fs0 : KFS) (clean : Bool) (f : File) (fs : KFS) (s : AbsK) : Prop where
  htmp : f.tmp = tmp
  hdst : f.dst = dst
  phase : s.phase = f.phase
  dest : fs dst = s.dest
  tmpc : f.closed = false → fs tmp = some (.file ⟨s.pending, m⟩)
  inv1 : f.committed = true → f.closed = true
  inv2 : f.closed = true → f.fdOpen = false
  others : ∀ q, q ≠ tmp → q ≠ dst → fs q = fs0 q
  gone : clean = true → f.closed = true → fs tmp = none

theorem runK_nil (u : Nat) (fs : KFS) : runK u fs [] = fs := rfl

theorem runK_cons (u : Nat) (fs : KFS) (a : Act2) (l : List Act2) : runK u fs (a :: l) = runK u (applyActK u fs a) l := rfl

theorem runK_append (u : Nat) (fs : KFS) (a b : List Act2) : runK u fs (a ++ b) = runK u (runK u fs a) b := by
  induction a generalizing fs with
  | nil => rfl
  | cons x a ih => simp [runK, ih]

theorem kernelize_unlinkFails (fs : KFS) (f : File) (o : OpU) : (kernelize fs f o).unlinkFails = o.unlinkFails := by
  cases o <;> rfl

theorem AbsK.step_done (m : Nat) (s : AbsK) (h : ∀ b, s.phase ≠ .writing b) (o : OpU) : (s.step m o).1 = s := by
  obtain ⟨ph, pend, dest⟩ := s
  cases ph with
  | writing b => exact absurd rfl (h b)
  | committed => cases o <;> simp [AbsK.step]
  | aborted => cases o <;> simp [AbsK.step]

theorem AbsK.steps_done (m : Nat) (s : AbsK) (h : ∀ b, s.phase ≠ .writing b) (ops : List OpU) : (s.steps m ops).1 = s := by
  induction ops with
  | nil => rfl
  | cons o os ih => simp only [AbsK.steps, AbsK.step_done m s h o, ih]

/-- **one call against the kernel**: model and abstract specification stay related and return the same result -/
theorem stepK_sim (u m : Nat) (tmp dst : Path) (hne : tmp ≠ dst) (fs0 : KFS) (clean : Bool) (f : File) (fs : KFS) (s : AbsK)
    (o : OpU) (R : RelK m tmp dst fs0 clean f fs s) :
    RelK m tmp dst fs0 (clean && !o.unlinkFails) (f.stepU (kernelize fs f o)).1
      (runK u fs (f.stepU (kernelize fs f o)).2.2) (s.step m o).1 ∧
    (f.stepU (kernelize fs f o)).2.1 = (s.step m o).2 := by
  have hd : dst ≠ tmp := fun e => hne e.symm
  obtain ⟨ftmp, fdst, cm, cl, fd⟩ := f
  obtain ⟨ph, pend, dest⟩ := s
  obtain ⟨h1, h2, h3, h4, h5, h6, h7, h8, h9⟩ := R
  simp only at h1 h2 h5 h6 h7 h9
  subst h1 h2
  simp only [File.phase] at h3
  cases cl with
  | true =>
    have hfd : fd = false := h7 rfl
    subst hfd
    have hst := stepU_closed { tmp := ftmp, dst := fdst, committed := cm, closed := true, fdOpen := false } rfl rfl
      (kernelize fs { tmp := ftmp, dst := fdst, committed := cm, closed := true, fdOpen := false } o)
    have hph : ∀ b, ph ≠ .writing b := by
      intro b e; subst e; cases cm <;> simp at h3
    have hs := AbsK.step_done m ⟨ph, pend, dest⟩ hph o
    refine ⟨?_, ?_⟩
    · rw [hst.1, hst.2, hs, runK_nil]
      exact ⟨rfl, rfl, h3, h4, fun h => by simp at h, h6, fun _ => rfl, h8, fun hc _ => h9 (by
        cases clean <;> simp at hc ⊢) rfl⟩
    · cases cm with
      | true =>
        subst h3
        cases o <;> simp [kernelize, File.stepU, File.write, File.commitU, File.closeU, File.closeFdU, AbsK.step]
      | false =>
        simp at h3; subst h3
        cases o <;> simp [kernelize, File.stepU, File.write, File.commitU, File.closeU, File.closeFdU, AbsK.step]
  | false =>
    have hcm : cm = false := by
      cases cm with
      | false => rfl
      | true => exact absurd (h6 rfl) (by simp)
    subst hcm
    simp at h3
    subst h3
    have htmpc := h5 rfl
    cases o with
    | write c fails =>
      cases fd <;> cases fails <;>
        refine ⟨⟨rfl, rfl, ?_, ?_, ?_, ?_, ?_, ?_, ?_⟩, ?_⟩ <;>
        simp_all [kernelize, File.stepU, File.write, AbsK.step, File.phase, OpU.unlinkFails, runK, applyActK, KFS.set]
    | closeFd a =>
      cases fd <;> cases a <;>
        refine ⟨⟨rfl, rfl, ?_, ?_, ?_, ?_, ?_, ?_, ?_⟩, ?_⟩ <;>
        simp_all [kernelize, File.stepU, File.closeFdU, AbsK.step, File.phase, OpU.unlinkFails, runK, applyActK, KFS.set]
    | close a c =>
      cases fd <;> cases a <;> cases c <;>
        refine ⟨⟨rfl, rfl, ?_, ?_, ?_, ?_, ?_, ?_, ?_⟩, ?_⟩ <;>
        simp_all [kernelize, File.stepU, File.closeU, rmAct, AbsK.step, File.phase, OpU.unlinkFails, runK, applyActK, KFS.set]
    | commit a b c =>
      by_cases hdir : dest = some Node.dir
      · subst hdir
        cases fd <;> cases a <;> cases b <;> cases c <;>
          refine ⟨⟨?_, ?_, ?_, ?_, ?_, ?_, ?_, ?_, ?_⟩, ?_⟩ <;>
          simp_all [kernelize, File.stepU, File.commitU, rmAct, AbsK.step, File.phase, OpU.unlinkFails, runK, applyActK, KFS.set]
      · cases fd <;> cases a <;> cases b <;> cases c <;>
          refine ⟨⟨?_, ?_, ?_, ?_, ?_, ?_, ?_, ?_, ?_⟩, ?_⟩ <;>
          simp_all [kernelize, File.stepU, File.commitU, rmAct, AbsK.step, File.phase, OpU.unlinkFails, runK, applyActK, KFS.set]

/-- **one call, every kill point inside it** -/
theorem stepK_prefix (u m : Nat) (tmp dst : Path) (hne : tmp ≠ dst) (fs0 : KFS) (clean : Bool) (f : File) (fs : KFS) (s : AbsK)
    (o : OpU) (R : RelK m tmp dst fs0 clean f fs s) (k : Nat) :
    runK u fs ((f.stepU (kernelize fs f o)).2.2.take k) dst = fs dst ∨
    runK u fs ((f.stepU (kernelize fs f o)).2.2.take k) dst = (s.step m o).1.dest := by
  have hd : dst ≠ tmp := fun e => hne e.symm
  obtain ⟨ftmp, fdst, cm, cl, fd⟩ := f
  obtain ⟨ph, pend, dest⟩ := s
  obtain ⟨h1, h2, h3, h4, h5, h6, h7, h8, h9⟩ := R
  simp only at h1 h2 h5 h6 h7 h9
  subst h1 h2
  simp only [File.phase] at h3
  cases cl with
  | true =>
    have hfd : fd = false := h7 rfl
    subst hfd
    have hst := stepU_closed { tmp := ftmp, dst := fdst, committed := cm, closed := true, fdOpen := false } rfl rfl
      (kernelize fs { tmp := ftmp, dst := fdst, committed := cm, closed := true, fdOpen := false } o)
    left; rw [hst.2, List.take_nil]; rfl
  | false =>
    have hcm : cm = false := by
      cases cm with
      | false => rfl
      | true => exact absurd (h6 rfl) (by simp)
    subst hcm
    simp at h3
    subst h3
    have htmpc := h5 rfl
    cases o with
    | write c fails =>
      left
      cases fd <;> cases fails <;> rcases k with _ | k <;>
        simp_all [kernelize, File.stepU, File.write, runK, applyActK, KFS.set]
    | closeFd a =>
      left
      cases fd <;> cases a <;> rcases k with _ | k <;>
        simp_all [kernelize, File.stepU, File.closeFdU, runK, applyActK, KFS.set]
    | close a c =>
      left
      cases fd <;> cases a <;> cases c <;> rcases k with _ | _ | k <;>
        simp_all [kernelize, File.stepU, File.closeU, rmAct, runK, applyActK, KFS.set]
    | commit a b c =>
      by_cases hdir : dest = some Node.dir
      · subst hdir
        cases fd <;> cases a <;> cases b <;> cases c <;> rcases k with _ | _ | _ | k <;>
          simp_all [kernelize, File.stepU, File.commitU, rmAct, AbsK.step, runK, applyActK, KFS.set]
      · cases fd <;> cases a <;> cases b <;> cases c <;> rcases k with _ | _ | _ | k <;>
          simp_all [kernelize, File.stepU, File.commitU, rmAct, AbsK.step, runK, applyActK, KFS.set]

theorem runK_take_append (u : Nat) (fs : KFS) (a b : List Act2) (k : Nat) :
    runK u fs ((a ++ b).take k) = runK u (runK u fs (a.take k)) (b.take (k - a.length)) := by
  rw [List.take_append, runK_append]

theorem stepsK_nil (u : Nat) (fs : KFS) (f : File) : File.stepsK u fs f [] = (f, [], []) := rfl

theorem stepsK_cons (u : Nat) (fs : KFS) (f : File) (o : OpU) (os : List OpU) :
    File.stepsK u fs f (o :: os) =
      ((File.stepsK u (runK u fs (f.stepU (kernelize fs f o)).2.2) (f.stepU (kernelize fs f o)).1 os).1,
       (f.stepU (kernelize fs f o)).2.1 ::
         (File.stepsK u (runK u fs (f.stepU (kernelize fs f o)).2.2) (f.stepU (kernelize fs f o)).1 os).2.1,
       (f.stepU (kernelize fs f o)).2.2 ++
         (File.stepsK u (runK u fs (f.stepU (kernelize fs f o)).2.2) (f.stepU (kernelize fs f o)).1 os).2.2) := rfl

theorem absKSteps_cons (m : Nat) (s : AbsK) (o : OpU) (os : List OpU) :
    s.steps m (o :: os) = (((s.step m o).1.steps m os).1, (s.step m o).2 :: ((s.step m o).1.steps m os).2) := rfl

/-- **a whole history against the kernel refines the abstract specification** -/
theorem stepsK_sim (u m : Nat) (tmp dst : Path) (hne : tmp ≠ dst) (fs0 : KFS) (ops : List OpU) :
    ∀ (clean : Bool) (f : File) (fs : KFS) (s : AbsK), RelK m tmp dst fs0 clean f fs s →
      RelK m tmp dst fs0 (clean && allClean ops) (File.stepsK u fs f ops).1 (runK u fs (File.stepsK u fs f ops).2.2)
        (s.steps m ops).1 ∧
      (File.stepsK u fs f ops).2.1 = (s.steps m ops).2 := by
  induction ops with
  | nil =>
    intro clean f fs s R
    simp only [stepsK_nil, AbsK.steps, runK_nil, allClean, Bool.and_true]
    exact ⟨R, trivial⟩
  | cons o os ih =>
    intro clean f fs s R
    obtain ⟨R1, hr1⟩ := stepK_sim u m tmp dst hne fs0 clean f fs s o R
    obtain ⟨R2, hr2⟩ := ih _ _ _ _ R1
    rw [stepsK_cons, absKSteps_cons]
    simp only [runK_append, allClean]
    refine ⟨?_, by rw [hr1, hr2]⟩
    rw [← Bool.and_assoc]
    exact R2

/-- one abstract step leaves the destination alone or is the (successful) Commit -/
theorem AbsK.step_dest (m : Nat) (s : AbsK) (o : OpU) :
    (s.step m o).1.dest = s.dest ∨ (s.step m o).1.phase = .committed := by
  obtain ⟨ph, pend, dest⟩ := s
  cases o with
  | write c fails => cases ph with
    | writing b => cases b <;> cases fails <;> simp [AbsK.step]
    | committed => simp [AbsK.step]
    | aborted => simp [AbsK.step]
  | commit a b c => cases ph with
    | writing fd => cases fd <;> simp [AbsK.step] <;> split <;> simp
    | committed => simp [AbsK.step]
    | aborted => simp [AbsK.step]
  | close a c => cases ph with
    | writing fd => cases fd <;> simp [AbsK.step]
    | committed => simp [AbsK.step]
    | aborted => simp [AbsK.step]
  | closeFd a => cases ph with
    | writing fd => cases fd <;> simp [AbsK.step]
    | committed => simp [AbsK.step]
    | aborted => simp [AbsK.step]

/-- **a whole history against the kernel, every kill point** -/
theorem stepsK_prefix (u m : Nat) (tmp dst : Path) (hne : tmp ≠ dst) (fs0 : KFS) (ops : List OpU) :
    ∀ (clean : Bool) (f : File) (fs : KFS) (s : AbsK) (k : Nat), RelK m tmp dst fs0 clean f fs s →
      runK u fs ((File.stepsK u fs f ops).2.2.take k) dst = fs dst ∨
      runK u fs ((File.stepsK u fs f ops).2.2.take k) dst = (s.steps m ops).1.dest := by
  induction ops with
  | nil => intro clean f fs s k R; left; simp [stepsK_nil, runK_nil]
  | cons o os ih =>
    intro clean f fs s k R
    obtain ⟨R1, _⟩ := stepK_sim u m tmp dst hne fs0 clean f fs s o R
    rw [stepsK_cons, absKSteps_cons]
    simp only
    rw [runK_take_append]
    have hfin : (s.step m o).1.dest = s.dest ∨ ((s.step m o).1.steps m os).1.dest = (s.step m o).1.dest := by
      rcases AbsK.step_dest m s o with h | h
      · exact Or.inl h
      · right
        rw [AbsK.steps_done m (s.step m o).1 (by intro b e; rw [h] at e; cases e) os]
    by_cases hk : k ≤ (f.stepU (kernelize fs f o)).2.2.length
    · have h0 : k - (f.stepU (kernelize fs f o)).2.2.length = 0 := by omega
      rw [h0, List.take_zero, runK_nil]
      rcases stepK_prefix u m tmp dst hne fs0 clean f fs s o R k with h | h
      · exact Or.inl h
      · rcases hfin with h2 | h2
        · left; rw [h, h2, R.dest]
        · right; rw [h, h2]
    · rw [List.take_of_length_le (by omega)]
      rcases ih _ _ _ _ (k - (f.stepU (kernelize fs f o)).2.2.length) R1 with h | h
      · rw [h, R1.dest]
        rcases hfin with h2 | h2
        · left; rw [h2, R.dest]
        · right; rw [h2]
      · exact Or.inr h

/-- the start: the handle `CreateWithMode` returns, the temporary name having been free (`O_EXCL`) -/
theorem rel_initK (u mode : Nat) (tmp dst : Path) (hne : tmp ≠ dst) (fs : KFS) :
    RelK (lessUmask mode u) tmp dst fs true { tmp := tmp, dst := dst }
      (fs.set tmp (some (.file ⟨[], lessUmask mode u⟩))) ⟨.writing true, [], fs dst⟩ := by
  have hd : dst ≠ tmp := fun e => hne e.symm
  refine ⟨rfl, rfl, rfl, ?_, ?_, ?_, ?_, ?_, ?_⟩
  · simp [KFS.set, hd]
  · intro _; simp [KFS.set]
  · intro h; simp at h
  · intro h; simp at h
  · intro q hq _; simp [KFS.set, hq]
  · intro _ h; simp at h

/-- what a history commits against the kernel: as `committedU`, and nothing when the destination is a directory -/
def committedK (destIsDir : Bool) (fdOpen : Bool) (ops : List OpU) : Option Bytes :=
  if destIsDir then none else committedU fdOpen ops

/-- the abstract specification in closed form -/
theorem AbsK.steps_dest (m : Nat) (ops : List OpU) :
    ∀ (fd : Bool) (w : Bytes) (d : Option Node),
      ((⟨.writing fd, w, d⟩ : AbsK).steps m ops).1.dest =
        match committedK (decide (d = some .dir)) fd ops with
        | some p => some (.file ⟨w ++ p, m⟩)
        | none => d := by
  induction ops with
  | nil => intro fd w d; simp [AbsK.steps, committedK, committedU]
  | cons o os ih =>
    intro fd w d
    rw [absKSteps_cons]
    have hdone : ∀ s : AbsK, (∀ b, s.phase ≠ .writing b) → (s.steps m os).1.dest = s.dest := fun s h => by
      rw [AbsK.steps_done m s h os]
    by_cases hdir : d = some Node.dir
    · subst hdir
      cases o with
      | write c fails =>
        cases fd <;> cases fails <;> simp only [AbsK.step, Bool.false_eq_true, if_false, if_true] <;> rw [ih] <;>
          simp [committedK]
      | closeFd a => cases fd <;> simp only [AbsK.step] <;> rw [ih] <;> simp [committedK]
      | close a c => cases fd <;> simp only [AbsK.step] <;> rw [hdone _ (by intro b e; cases e)] <;> simp [committedK]
      | commit a b c =>
        cases fd <;> simp [AbsK.step] <;> rw [hdone _ (by intro b e; simp at e)] <;> simp [committedK]
    · have hd : decide (d = some Node.dir) = false := by simp [hdir]
      cases o with
      | write c fails =>
        cases fd <;> cases fails <;> simp only [AbsK.step, Bool.false_eq_true, if_false, if_true] <;> rw [ih] <;>
          simp only [committedK, hd, committedU] <;> cases committedU _ os <;> simp
      | closeFd a => cases fd <;> simp only [AbsK.step] <;> rw [ih] <;> simp [committedK, hd, committedU]
      | close a c =>
        cases fd <;> simp only [AbsK.step] <;> rw [hdone _ (by intro b e; cases e)] <;> simp [committedK, hd, committedU]
      | commit a b c =>
        cases fd <;> cases a <;> cases b <;> simp [AbsK.step, hdir] <;>
          rw [hdone _ (by intro b e; simp at e)] <;> simp [committedK, hd, committedU]

/-! ## frame: the system calls of a history name the temporary file and the destination only -/

theorem applyK_untouched (u : Nat) (fs : KFS) (q : Path) (a : Act2) (h : q ∉ targets2 a) : applyActK u fs a q = fs q := by
  cases a with
  | base b =>
    cases b with
    | createExcl p m =>
      simp [targets2, targets] at h
      simp only [applyActK]; split <;> simp [KFS.set, h]
    | write p c =>
      simp [targets2, targets] at h
      simp only [applyActK]
      cases hp : fs p with
      | none => rfl
      | some n => cases n <;> simp [KFS.set, h]
    | unlink p =>
      simp [targets2, targets] at h
      simp only [applyActK]; split <;> simp [KFS.set, h]
    | rename s d =>
      simp [targets2, targets] at h
      simp only [applyActK]
      cases hs : fs s with
      | none => rfl
      | some n => by_cases hdd : fs d = some Node.dir <;> simp [KFS.set, h.1, h.2, hdd]
    | writeFail _ _ => rfl
    | close _ => rfl
    | closeFail _ => rfl
    | renameFail _ _ => rfl
  | openFail _ _ _ => rfl
  | unlinkFail _ => rfl

theorem runK_untouched (u : Nat) (fs : KFS) (q : Path) (as : List Act2) (h : ∀ a ∈ as, q ∉ targets2 a) :
    runK u fs as q = fs q := by
  induction as generalizing fs with
  | nil => rfl
  | cons a as ih =>
    simp only [runK]
    rw [ih _ (fun b hb => h b (by simp [hb])), applyK_untouched u fs q a (h a (by simp))]

theorem stepsK_local (u : Nat) (tmp dst : Path) (ops : List OpU) :
    ∀ (fs : KFS) (f : File), f.tmp = tmp → f.dst = dst → ∀ x ∈ (File.stepsK u fs f ops).2.2, LocalTo2 tmp dst x := by
  induction ops with
  | nil => intro fs f _ _ x hx; simp [stepsK_nil] at hx
  | cons o os ih =>
    intro fs f ht hd x hx
    rw [stepsK_cons] at hx
    simp only at hx
    rcases List.mem_append.mp hx with h | h
    · have := stepU_local f (kernelize fs f o) x h
      rw [ht, hd] at this
      exact this
    · exact ih _ _ (by rw [(stepU_names f _).1, ht]) (by rw [(stepU_names f _).2, hd]) x h

/-! ## what strace shows: `os.Rename`'s own refusal of a directory issues no system call -/

/-- every kill point of the visible sequence is a kill point of the logical one (the elided call has no effect) -/
theorem osRenameView_prefix (u : Nat) (l : List Act2) :
    ∀ (fs : KFS) (k : Nat), ∃ k', runK u fs ((osRenameView u fs l).take k) = runK u fs (l.take k') := by
  induction l with
  | nil => intro fs k; exact ⟨0, by simp [osRenameView]⟩
  | cons a as ih =>
    intro fs k
    have keep : ∃ k', runK u fs ((a :: osRenameView u (applyActK u fs a) as).take k) = runK u fs ((a :: as).take k') := by
      cases k with
      | zero => exact ⟨0, by simp⟩
      | succ k =>
        obtain ⟨k', hk'⟩ := ih (applyActK u fs a) k
        exact ⟨k' + 1, by simp only [List.take_succ_cons, runK]; exact hk'⟩
    cases a with
    | base b =>
      cases b with
      | renameFail s d =>
        by_cases hdir : fs d = some Node.dir
        · obtain ⟨k', hk'⟩ := ih fs k
          refine ⟨k' + 1, ?_⟩
          simp only [osRenameView, hdir, if_true, List.take_succ_cons, runK]
          exact hk'
        · simpa [osRenameView, hdir] using keep
      | createExcl _ _ => simpa [osRenameView] using keep
      | write _ _ => simpa [osRenameView] using keep
      | writeFail _ _ => simpa [osRenameView] using keep
      | close _ => simpa [osRenameView] using keep
      | closeFail _ => simpa [osRenameView] using keep
      | rename _ _ => simpa [osRenameView] using keep
      | unlink _ => simpa [osRenameView] using keep
    | openFail _ _ _ => simpa [osRenameView] using keep
    | unlinkFail _ => simpa [osRenameView] using keep

theorem osRenameView_run (u : Nat) (l : List Act2) : ∀ fs : KFS, runK u fs (osRenameView u fs l) = runK u fs l := by
  induction l with
  | nil => intro fs; rfl
  | cons a as ih =>
    intro fs
    have keep : runK u fs (a :: osRenameView u (applyActK u fs a) as) = runK u fs (a :: as) := by
      simp only [runK]; exact ih _
    cases a with
    | base b =>
      cases b with
      | renameFail s d =>
        by_cases hdir : fs d = some Node.dir
        · simp only [osRenameView, hdir, if_true, runK]; exact ih fs
        · simpa [osRenameView, hdir] using keep
      | createExcl _ _ => simpa [osRenameView] using keep
      | write _ _ => simpa [osRenameView] using keep
      | writeFail _ _ => simpa [osRenameView] using keep
      | close _ => simpa [osRenameView] using keep
      | closeFail _ => simpa [osRenameView] using keep
      | rename _ _ => simpa [osRenameView] using keep
      | unlink _ => simpa [osRenameView] using keep
    | openFail _ _ _ => simpa [osRenameView] using keep
    | unlinkFail _ => simpa [osRenameView] using keep

end Safe
