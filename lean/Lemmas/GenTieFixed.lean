import Lemmas.Fixed64
import Lemmas.GenTie
/-! C03, translator tie: the bridge between the definitions that `gossa/ssagen` regenerates from package
    `xmath/fixed/f64` (`Generated/SSA_F64.lean`: Go `int64` = `BitVec 64`) and the hand-written model
    (`Model/Fixed.lean`: raw values are `Int`s reduced by `wrap64` after every machine operation).

    `toInt` of every word operation is the model's operation on the `toInt`s (`toInt_add` … `toInt_srem`; Go's
    truncated division is `BitVec.sdiv` / `srem`, and `MinInt64 / -1` wraps on both sides), so pushing `toInt` through a
    generated definition yields a term over `Int`, `wrap64`, `Int.tdiv`, `Int.tmod` that is compared with the unfolded
    model: syntactically when the Go code has the shape the model was transcribed from, otherwise by linear arithmetic
    over the facts of truncated division by the multiplier (`divpack`). -/

namespace GenTieFixed
open Fixed
abbrev W := BitVec 64

theorem wrap64_eq_bmod (x : Int) : wrap64 x = x.bmod (2 ^ 64) := by
  unfold wrap64
  rw [Int.bmod_eq_emod]
  split <;> omega

/-- every `int64` value is representable -/
theorem fits_toInt (a : W) : fits64 a.toInt := by
  unfold fits64; rw [GenTie.toInt_eq]; have := a.isLt; split <;> omega

theorem toInt_add (a b : W) : (a + b).toInt = wrap64 (a.toInt + b.toInt) := by
  rw [BitVec.toInt_add, wrap64_eq_bmod]
theorem toInt_sub (a b : W) : (a - b).toInt = wrap64 (a.toInt - b.toInt) := by
  rw [BitVec.toInt_sub, wrap64_eq_bmod]
theorem toInt_mul (a b : W) : (a * b).toInt = wrap64 (a.toInt * b.toInt) := by
  rw [BitVec.toInt_mul, wrap64_eq_bmod]
theorem toInt_neg (a : W) : (-a).toInt = wrap64 (-a.toInt) := by
  rw [BitVec.toInt_neg, wrap64_eq_bmod]
/-- Go `a / b` on `int64` (also for `b = 0`, where Go panics: both sides are 0, and for `MinInt64 / -1`) -/
theorem toInt_sdiv (a b : W) : (BitVec.sdiv a b).toInt = wrap64 (a.toInt.tdiv b.toInt) := by
  rw [BitVec.toInt_sdiv, wrap64_eq_bmod]
/-- Go `a % b` on `int64` -/
theorem toInt_srem (a b : W) : (BitVec.srem a b).toInt = a.toInt.tmod b.toInt := BitVec.toInt_srem a b
theorem toInt_ite (c : Prop) [Decidable c] (a b : W) : (if c then a else b).toInt = if c then a.toInt else b.toInt := by
  split <;> rfl
theorem eq_iff_toInt (a b : W) : a = b ↔ a.toInt = b.toInt := BitVec.toInt_inj.symm
theorem wrap64_of_fits' (x : Int) (h : fits64 x) : wrap64 x = x := wrap64_of_fits h

/-- what the proofs need to know about truncated division of a representable `a` by a multiplier `m` of the table -/
theorem divpack (m a : Int) (hm : Mult m) (ha : fits64 a) :
    a = a.tdiv m * m + a.tmod m ∧ -m < a.tmod m ∧ a.tmod m < m ∧
    (0 ≤ a → 0 ≤ a.tmod m ∧ 0 ≤ a.tdiv m * m ∧ a.tdiv m * m ≤ a) ∧
    (a ≤ 0 → a.tmod m ≤ 0 ∧ a ≤ a.tdiv m * m ∧ a.tdiv m * m ≤ 0) ∧
    wrap64 (a.tdiv m) = a.tdiv m ∧ wrap64 (a.tdiv m * m) = a.tdiv m * m ∧ a - a.tmod m = a.tdiv m * m ∧
    10 ≤ m ∧ m ≤ 10000000000000000 ∧ m = 2 * m.tdiv 2 := by
  obtain ⟨h1, h2, h3, h4, h5⟩ := Spec.tdivmod_char a m hm.pos
  have t := Spec.trunc_spec m a hm.pos
  unfold Spec.fxTrunc at t
  refine ⟨h1, h2, h3, ?_, ?_, wrap64_of_fits (fits64_tdiv ha hm.pos), wrap64_of_fits (fits64_tdiv_mul ha), by omega,
    hm.ge, hm.le, hm.even⟩
  · intro h; exact ⟨(h4 h).1, (t.2.2.1 h).1, (t.2.2.1 h).2⟩
  · intro h; exact ⟨(h5 h).1, (t.2.2.2 h).1, (t.2.2.2 h).2⟩

end GenTieFixed

/-! ## the proof script -/

/-- unfold the generated definitions (`gen_def`) and the model definitions `defs`, push `toInt` through the word
    operations (`GenTieFixed.toInt_add` …) — in the goal and in every hypothesis -/
syntax "fx_push" "[" Lean.Parser.Tactic.simpLemma,* "]" : tactic
macro_rules
  | `(tactic| fx_push []) => `(tactic| fx_push [eq_self_iff_true])
  | `(tactic| fx_push [$ls,*]) => `(tactic|
      simp only [gen_def, $ls,*, Fixed.F64.add, Fixed.F64.sub, Fixed.F64.mulI, Fixed.F64.negI, Fixed.F64.quo,
        GenTieFixed.toInt_ite, GenTieFixed.toInt_add, GenTieFixed.toInt_sub, GenTieFixed.toInt_mul,
        GenTieFixed.toInt_neg, GenTieFixed.toInt_sdiv, GenTieFixed.toInt_srem, GenTieFixed.eq_iff_toInt, ne_eq,
        BitVec.reduceToInt, ge_iff_le, gt_iff_lt] at *)

/-- close the pushed goal: syntactic identity; else split every `if` with `wrap64 …` kept as opaque terms; else remove
    every wrap whose argument the facts in the context prove representable, move signs out of the truncated divisions,
    split, and decide by linear arithmetic (the remaining wraps unfolded last); as a last attempt the same after putting
    sums and products into a normal order (`ac_nf`: `value * f` for `f * value`) -/
macro "fx_close" : tactic => `(tactic| first
  | with_reducible rfl
  | ((try split_ifs) <;> first | with_reducible rfl | omega)
  | ((try simp (disch := (simp only [Fixed.fits64]; omega)) only [GenTieFixed.wrap64_of_fits']) <;>
     (try simp only [Int.neg_tdiv, Int.neg_tmod, Int.neg_neg]) <;> (try split_ifs) <;>
       first | with_reducible rfl | omega | ((try simp only [Fixed.wrap64] at *) <;> gen_guard 14 <;> omega))
  | ((try ac_nf at *) <;> (try simp (disch := (simp only [Fixed.fits64]; omega)) only [GenTieFixed.wrap64_of_fits']) <;>
     (try simp only [Int.neg_tdiv, Int.neg_tmod, Int.neg_neg]) <;> (try split_ifs) <;>
       first | with_reducible rfl | omega | ((try simp only [Fixed.wrap64] at *) <;> gen_guard 14 <;> omega)))

/-- `fx_tie [model defs]`: push, then close; `fx_tie [model defs] using hM w`: the facts of truncated division of the
    word `w` by the multiplier (`hM : Mult M.toInt`, `GenTieFixed.divpack`) are available to the closing step -/
syntax "fx_tie" "[" Lean.Parser.Tactic.simpLemma,* "]" (" using " ident term:max)? : tactic
macro_rules
  | `(tactic| fx_tie [$ls,*]) => `(tactic| (fx_push [$ls,*]) <;> fx_close)
  | `(tactic| fx_tie [$ls,*] using $hM $w) => `(tactic|
      (obtain ⟨h1, h2, h3, h4, h5, hw1, hw2, hw3, h8, h9, h10⟩ := GenTieFixed.divpack _ _ $hM (GenTieFixed.fits_toInt $w)
       have hf := GenTieFixed.fits_toInt $w
       simp only [Fixed.fits64] at hf
       (fx_push [$ls,*]) <;> first
         | ((try simp only [hw1, hw2, hw3]) <;> fx_close)
         | ((try ac_nf at *) <;> (try simp only [hw1, hw2, hw3]) <;> fx_close)))
