import Lemmas.FixedFloatConv

/-! C03 float paths, part 5: `f64.As[float64]` against `f128.As[float64]` on a common raw value.  f64 rounds the exact
    quotient `raw / mult` once (to 53 bits); f128 rounds it to 128 bits first and then to 53.  Proved here: the two
    results are within one part in `2^52` of each other, and the 128-bit quotient lies strictly on the same side as the
    exact quotient of every point of the 53-bit rounding grid of its binade (a non-zero distance of `A/10^D` from a
    grid point of unit `2^t` is at least `min(1, 2^t)/10^D`).  NOT proved: the bookkeeping inside `roundRatN` that turns
    "same side of every rounding boundary" into "same bits" (monotonicity of the rounding function). -/
namespace Fixed.FloatLemmas
open GoSem.F64 Fixed.Rat

/-- a non-zero distance of `A/m` from a grid point `M·2^t` is at least `min(1, 2^t)/m` -/
theorem grid_gap (A M : ℕ) (m : ℤ) (hm : 0 < m) (t : ℤ) (hne : (A : ℚ) / m ≠ (M : ℚ) * (2 : ℚ) ^ t) :
    min 1 ((2 : ℚ) ^ t) / m ≤ |(A : ℚ) / m - (M : ℚ) * (2 : ℚ) ^ t| := by
  have hmq : (0 : ℚ) < (m : ℚ) := by exact_mod_cast hm
  by_cases ht : 0 ≤ t
  · obtain ⟨n, rfl⟩ := Int.eq_ofNat_of_zero_le ht
    have e : (A : ℚ) / m - (M : ℚ) * (2 : ℚ) ^ (n : ℤ) = (((A : ℤ) - (M : ℤ) * 2 ^ n * m : ℤ) : ℚ) / m := by
      rw [zpow_natCast]; push_cast; field_simp
    have hz : ((A : ℤ) - (M : ℤ) * 2 ^ n * m) ≠ 0 := by
      intro h0
      apply hne
      have : (A : ℚ) / m - (M : ℚ) * (2 : ℚ) ^ (n : ℤ) = 0 := by rw [e, h0]; simp
      linarith
    have h1 : (1 : ℚ) ≤ |((((A : ℤ) - (M : ℤ) * 2 ^ n * m : ℤ)) : ℚ)| := by
      rw [← Int.cast_abs]; exact_mod_cast Int.one_le_abs hz
    rw [e, abs_div, abs_of_pos hmq]
    exact div_le_div_of_nonneg_right (le_trans (min_le_left _ _) h1) (le_of_lt hmq)
  · obtain ⟨n, hn⟩ : ∃ n : ℕ, t = -(n : ℤ) := ⟨(-t).toNat, by omega⟩
    subst hn
    have hP : (0 : ℚ) < (2 : ℚ) ^ n := by positivity
    have hu : (2 : ℚ) ^ (-(n : ℤ)) = 1 / (2 : ℚ) ^ n := by rw [zpow_neg, zpow_natCast]; simp
    have e : (A : ℚ) / m - (M : ℚ) * (2 : ℚ) ^ (-(n : ℤ))
        = (((A : ℤ) * 2 ^ n - (M : ℤ) * m : ℤ) : ℚ) / ((m : ℚ) * (2 : ℚ) ^ n) := by
      rw [hu]; push_cast; field_simp
    have hz : ((A : ℤ) * 2 ^ n - (M : ℤ) * m) ≠ 0 := by
      intro h0
      apply hne
      have : (A : ℚ) / m - (M : ℚ) * (2 : ℚ) ^ (-(n : ℤ)) = 0 := by rw [e, h0]; simp
      linarith
    have h1 : (1 : ℚ) ≤ |((((A : ℤ) * 2 ^ n - (M : ℤ) * m : ℤ)) : ℚ)| := by
      rw [← Int.cast_abs]; exact_mod_cast Int.one_le_abs hz
    rw [e, abs_div, abs_of_pos (mul_pos hmq hP)]
    have e2 : min 1 ((2 : ℚ) ^ (-(n : ℤ))) / m ≤ 1 / ((m : ℚ) * (2 : ℚ) ^ n) := by
      rw [hu, div_le_div_iff₀ hmq (mul_pos hmq hP)]
      have : min 1 (1 / (2 : ℚ) ^ n) ≤ 1 / (2 : ℚ) ^ n := min_le_right _ _
      have h2 : min 1 (1 / (2 : ℚ) ^ n) * ((m : ℚ) * (2 : ℚ) ^ n) ≤ 1 / (2 : ℚ) ^ n * ((m : ℚ) * (2 : ℚ) ^ n) :=
        mul_le_mul_of_nonneg_right this (le_of_lt (mul_pos hmq hP))
      have h3 : 1 / (2 : ℚ) ^ n * ((m : ℚ) * (2 : ℚ) ^ n) = 1 * m := by field_simp
      linarith
    exact le_trans e2 (div_le_div_of_nonneg_right h1 (le_of_lt (mul_pos hmq hP)))

/-- **the 128-bit quotient keeps the side of every 53-bit rounding boundary.**  `x = |raw|/mult` with `|raw| ≤ 2^63`;
    `x'` any number within `x/2^128` of it (what `big.Float.Quo` at precision 128 returns, `roundPrec_val`); `M·2^t` any
    point of a grid whose unit `2^t` is at least `x/2^54` (the rounding boundaries of the binade of `x` are multiples of
    half a unit in the last place, `2^t` with `x < 2^(t+54)`).  If `x` is not that point, `x'` is strictly on the same
    side of it. -/
theorem as_quotient_same_side (m a : ℤ) (hm : Mult m) (ha : fits64 a) (x' : ℚ)
    (hx' : |x' - (|value m a|)| ≤ |value m a| / 2 ^ 128) (M : ℕ) (t : ℤ)
    (hr : |value m a| < (2 : ℚ) ^ (t + 54)) (hne : |value m a| ≠ (M : ℚ) * (2 : ℚ) ^ t) :
    (x' < (M : ℚ) * (2 : ℚ) ^ t ↔ |value m a| < (M : ℚ) * (2 : ℚ) ^ t) ∧ x' ≠ (M : ℚ) * (2 : ℚ) ^ t := by
  have hm0 := hm.pos
  have hmq : (0 : ℚ) < (m : ℚ) := by exact_mod_cast hm0
  have hmle : (m : ℚ) ≤ 10000000000000000 := by exact_mod_cast hm.le
  have hx : |value m a| = ((a.natAbs : ℕ) : ℚ) / m := by
    unfold value; rw [abs_div, abs_of_pos hmq, Nat.cast_natAbs, Int.cast_abs]
  rw [hx] at hx' hr hne ⊢
  have hA : ((a.natAbs : ℕ) : ℚ) ≤ 2 ^ 63 := by
    have : a.natAbs ≤ 2 ^ 63 := by unfold fits64 at ha; omega
    exact_mod_cast this
  have gap := grid_gap a.natAbs M m hm0 t hne
  have hu := zp_pos t
  rw [zp_add] at hr
  have h54 : (2 : ℚ) ^ (54 : ℤ) = 2 ^ 54 := by norm_num
  rw [h54] at hr
  generalize (2 : ℚ) ^ t = u at *
  generalize hxx : ((a.natAbs : ℕ) : ℚ) / m = x at *
  have hx0 : 0 ≤ x := by rw [← hxx]; positivity
  have hxle : x ≤ 2 ^ 63 / m := by rw [← hxx]; exact div_le_div_of_nonneg_right hA (le_of_lt hmq)
  -- the rounding error is strictly below the gap
  have herr : x / 2 ^ 128 < min 1 u / m := by
    rw [lt_div_iff₀ hmq]
    by_cases h1 : 1 ≤ u
    · rw [min_eq_left h1]
      have : x * m ≤ 2 ^ 63 := by rw [le_div_iff₀ hmq] at hxle; exact hxle
      have e : x / 2 ^ 128 * m = x * m / 2 ^ 128 := by ring
      rw [e, div_lt_iff₀ (by norm_num)]
      linarith
    · rw [min_eq_right (le_of_lt (not_le.mp h1))]
      have e : x / 2 ^ 128 * m = x * (m / 2 ^ 128) := by ring
      rw [e]
      have h2 : x * (m / 2 ^ 128) ≤ x * (10000000000000000 / 2 ^ 128) :=
        mul_le_mul_of_nonneg_left (div_le_div_of_nonneg_right hmle (by norm_num)) hx0
      have h3 : x * (10000000000000000 / 2 ^ 128) < u * 2 ^ 54 * (10000000000000000 / 2 ^ 128) :=
        mul_lt_mul_of_pos_right hr (by norm_num)
      have h4 : u * 2 ^ 54 * (10000000000000000 / 2 ^ 128) ≤ u := by
        have : (2 : ℚ) ^ 54 * (10000000000000000 / 2 ^ 128) ≤ 1 := by norm_num
        nlinarith
      linarith
  obtain ⟨b1, b2⟩ := abs_le.mp hx'
  generalize (M : ℚ) * u = g at *
  rcases lt_or_gt_of_ne hne with hlt | hgt
  · rw [abs_of_neg (by linarith)] at gap
    exact ⟨⟨fun _ => hlt, fun _ => by linarith⟩, by linarith⟩
  · rw [abs_of_pos (by linarith)] at gap
    exact ⟨⟨fun h => by linarith, fun h => by linarith⟩, by linarith⟩

/-- the same for the quotient the model of `f128.As` actually forms (`F128.quo128`: `Quo` at precision 128, as numerator
    and denominator): it lies strictly on the same side as `|raw|/mult` of every grid point `M·2^t` with
    `|raw|/mult < 2^(t+54)` that `|raw|/mult` is not equal to -/
theorem quo128_same_side (m a : ℤ) (hm : Mult m) (ha : fits64 a) (h0 : a ≠ 0) (M : ℕ) (t : ℤ)
    (hr : |value m a| < (2 : ℚ) ^ (t + 54)) (hne : |value m a| ≠ (M : ℚ) * (2 : ℚ) ^ t) :
    (((F128.quo128 a.natAbs m.toNat).1 : ℚ) / ((F128.quo128 a.natAbs m.toNat).2 : ℚ) < (M : ℚ) * (2 : ℚ) ^ t
      ↔ |value m a| < (M : ℚ) * (2 : ℚ) ^ t) ∧
    ((F128.quo128 a.natAbs m.toNat).1 : ℚ) / ((F128.quo128 a.natAbs m.toNat).2 : ℚ) ≠ (M : ℚ) * (2 : ℚ) ^ t := by
  obtain ⟨hA, hD, hρ, _, _, _⟩ := ratio_facts m a hm h0
  obtain ⟨_, _, p3, _, _⟩ := roundPrec_val 128 a.natAbs m.toNat (by norm_num) hA hD
  unfold F128.quo128
  simp only []
  rw [num_den_val]
  rw [hρ] at p3
  exact as_quotient_same_side m a hm ha _ p3 M t hr hne

/-- **the two `As[float64]` results are close**: both are finite and they differ by at most `2^-52 + 2^-127` of the
    value, i.e. they are the same float or neighbours (`2^-53` for the single rounding of f64 plus `2^-53·(1 + 2^-128) + 2^-128` for the two roundings of f128) -/
theorem as_float_twin_close (m a : ℤ) (hm : Mult m) (ha : fits64 a) :
    |fval (F64.asFloat m a) - fval (F128.asFloat m a)| ≤ |value m a| * (1 / 2 ^ 52 + 1 / 2 ^ 127) := by
  obtain ⟨_, _, _, _, h1⟩ := f64_as_val m a hm ha
  obtain ⟨_, _, _, _, h2⟩ := f128_as_val m a hm (fits128_of_fits64 ha)
  have h0 : (0 : ℚ) ≤ |value m a| := abs_nonneg _
  have tri : |fval (F64.asFloat m a) - fval (F128.asFloat m a)|
      ≤ |fval (F64.asFloat m a) - value m a| + |fval (F128.asFloat m a) - value m a| := by
    have e : fval (F64.asFloat m a) - fval (F128.asFloat m a)
        = (fval (F64.asFloat m a) - value m a) - (fval (F128.asFloat m a) - value m a) := by ring
    rw [e]; exact abs_sub _ _
  have k : |value m a| / 2 ^ 53 + |value m a| * (1 / 2 ^ 53 + 1 / 2 ^ 181 + 1 / 2 ^ 128) ≤ |value m a| * (1 / 2 ^ 52 + 1 / 2 ^ 127) := by
    have : (1 : ℚ) / 2 ^ 53 + (1 / 2 ^ 53 + 1 / 2 ^ 181 + 1 / 2 ^ 128) ≤ 1 / 2 ^ 52 + 1 / 2 ^ 127 := by norm_num
    have h3 := mul_le_mul_of_nonneg_left this h0
    have e1 : |value m a| / 2 ^ 53 + |value m a| * (1 / 2 ^ 53 + 1 / 2 ^ 181 + 1 / 2 ^ 128)
        = |value m a| * (1 / 2 ^ 53 + (1 / 2 ^ 53 + 1 / 2 ^ 181 + 1 / 2 ^ 128)) := by ring
    rw [e1]; exact h3
  linarith

/-- **the domain of f128.From on a float, stated on the INPUT**: a finite float whose scaled magnitude stays two raw units
    below `2^127` converts without saturation -/
theorem f128_from_defined (p : ℕ × ℤ) (hp : p ∈ Facts.fixedConfigs) (s : Bool) (m : ℕ) (e : ℤ)
    (hb : (m : ℚ) * (2 : ℚ) ^ e * (p.2 : ℚ) + 2 ≤ 2 ^ 127) :
    ∃ r, F128.fromFloat p.2 p.1 (.fin s m e) = some r ∧ F128.minRaw < r ∧ r < F128.maxRaw := by
  have htab : ∀ q ∈ Facts.fixedConfigs, q.2 = (10 : ℤ) ^ q.1 := by decide
  have hm := htab p hp
  rw [hm] at hb ⊢
  generalize p.1 = D at *
  simp only [F128.fromFloat]
  rw [parseDigits_eq]
  have g := f128_from_mag D m e
  generalize F128.textDigits D m e / 10 = v at *
  push_cast at hb
  obtain ⟨g1, g2⟩ := abs_le.mp g
  have hv : (v : ℚ) < 2 ^ 127 - 1 := by linarith
  have hvn : v < 2 ^ 127 - 1 := by
    have : (v : ℚ) < ((2 ^ 127 - 1 : ℕ) : ℚ) := by
      rw [Nat.cast_sub (Nat.one_le_two_pow)]; push_cast; exact hv
    exact_mod_cast this
  refine ⟨if s then -(v : ℤ) else (v : ℤ), ?_, ?_, ?_⟩
  · congr 1
    unfold F128.clamp F128.maxRaw F128.minRaw
    cases s <;> simp <;> omega
  · unfold F128.minRaw; cases s <;> simp <;> omega
  · unfold F128.maxRaw; cases s <;> simp <;> omega

end Fixed.FloatLemmas
