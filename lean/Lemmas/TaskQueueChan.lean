import Lemmas.TaskQueueW2
import Model.TaskQueueChan
/-! C15: what the rules of the model do to the channels, in the vocabulary of the extractor (`Model/TaskQueueChan.lean`).

  * `labelOps` / `tlabelOps` — for every rule of `TQ.next` / `TQW.tnext`: which goroutine role performs which kind of
    operation on which channel (hand-written; it is the reading of the model that `Props/C15Chan.lean` compares with
    the operations found in the Go source);
  * `view` — the channel part of a model state; `effect` — what an operation of a given kind on a given channel does to
    it, with the blocking condition of a Go channel of the given capacity (`capOf`);
  * `label_effect` / `tlabel_effect` — the rules DO exactly that: every firing of a rule changes the channels as its
    declared operations say (a send appends one element and needs room below the capacity, a receive takes the head and
    needs a non-empty buffer — or, on `in`, a closed and drained channel —, a close sets the flag, the unbuffered `done`
    moves only as a rendezvous of the dispatcher's send with `Shutdown`'s receive) and changes nothing else; a rule
    with no declared operation leaves every channel as it was. -/
namespace TQChan
open TQ TQW

/-- the channel operations performed by a rule of the protocol `TQ.next` -/
def labelOps : Label → List (Role × Kind × Chan)
  | .submit _ => [(.submit, .send, .in_)]
  | .shutdown => [(.shutdown, .close, .in_)]
  | .take => [(.worker, .rangeRecv, .tasks)]
  | .finish _ => []
  | .report => [(.worker, .send, .ready)]
  | .recv => [(.dispatcher, .recvSel, .in_)]
  | .closed => [(.dispatcher, .recvSel, .in_)]            -- the receive on the closed channel yields nil
  | .selReadyEmpty => [(.dispatcher, .recvSel, .ready)]
  | .selReadyBacklog => [(.dispatcher, .recvSel, .ready)]
  | .handoff => [(.dispatcher, .sendNB, .tasks)]
  | .toBacklog => []                                      -- the `default:` of the non-blocking select, or no attempt
  | .toWait => []
  | .waitReady => [(.dispatcher, .recv, .ready)]
  | .sendDirect => [(.dispatcher, .send, .tasks)]
  | .sendBacklog => [(.dispatcher, .send, .tasks)]
  | .sendBacklog2 => [(.dispatcher, .send, .tasks)]
  | .drainSend => [(.dispatcher, .sendSel, .tasks)]
  | .drainReady => [(.dispatcher, .recvSel, .ready)]
  | .drainDone => []
  | .finalReady => [(.dispatcher, .recv, .ready)]
  | .finalClose => [(.dispatcher, .close, .tasks)]
  | .signalDone => [(.dispatcher, .send, .done), (.shutdown, .recv, .done)]

/-- … by a rule of the threaded model -/
def tlabelOps : TLabel → List (Role × Kind × Chan)
  | .q l => labelOps l
  | .take _ => [(.worker, .rangeRecv, .tasks)]
  | .report _ => [(.worker, .send, .ready)]
  | .nestedSubmit _ => [(.worker, .send, .in_)]           -- a task that submits to its own queue: not in the code's table
  | _ => []

/-- the channel part of a state -/
structure ChanState where
  inq : List Nat
  inClosed : Bool
  tq : List Nat
  tClosed : Bool
  ready : Nat
  doneSignalled : Bool
deriving DecidableEq, Repr

def view (s : S) : ChanState :=
  { inq := s.inq, inClosed := decide (1 ≤ s.shut), tq := s.tq, tClosed := s.tclosed, ready := s.ready,
    doneSignalled := decide (s.shut = 2) }

/-- the capacities the guards of the model use -/
def capOf (c : Cfg) : Chan → Nat
  | .in_ => c.inCap
  | .tasks => c.workers
  | .ready => c.workers
  | _ => 0

def isSend : Kind → Bool | .send | .sendSel | .sendNB => true | _ => false
def isRecv : Kind → Bool | .recv | .recvSel | .recvNB | .rangeRecv => true | _ => false

/-- one operation on a buffered channel, with Go's blocking condition -/
def opEffect (c : Cfg) (k : Kind) (ch : Chan) (v v' : ChanState) : Prop :=
  match ch with
  | .in_ =>
    (isSend k = true ∧ v.inClosed = false ∧ v.inq.length < capOf c .in_ ∧ ∃ x, v' = { v with inq := v.inq ++ [x] }) ∨
    (isRecv k = true ∧ ((∃ x rest, v.inq = x :: rest ∧ v' = { v with inq := rest }) ∨
                         (v.inq = [] ∧ v.inClosed = true ∧ v' = v))) ∨
    (k = .close ∧ v.inClosed = false ∧ v' = { v with inClosed := true })
  | .tasks =>
    (isSend k = true ∧ v.tClosed = false ∧ v.tq.length < capOf c .tasks ∧ ∃ x, v' = { v with tq := v.tq ++ [x] }) ∨
    (isRecv k = true ∧ ∃ x rest, v.tq = x :: rest ∧ v' = { v with tq := rest }) ∨
    (k = .close ∧ v.tClosed = false ∧ v' = { v with tClosed := true })
  | .ready =>
    (isSend k = true ∧ v.ready < capOf c .ready ∧ v' = { v with ready := v.ready + 1 }) ∨
    (isRecv k = true ∧ 0 < v.ready ∧ v' = { v with ready := v.ready - 1 })
  | _ => False

/-- the effect of the operations of one rule -/
def effect (c : Cfg) (ops : List (Role × Kind × Chan)) (v v' : ChanState) : Prop :=
  match ops with
  | [] => v' = v
  | [(.dispatcher, .send, .done), (.shutdown, .recv, .done)] =>
    -- capacity 0: the send completes only together with the receive of `Shutdown`, which is past its `close(in)`
    v.inClosed = true ∧ v.doneSignalled = false ∧ v' = { v with doneSignalled := true }
  | [(_, k, ch)] => opEffect c k ch v v'
  | _ => False

/-- `tclosed` is set by `finalClose` only, after which the dispatcher sends nothing more: the dispatcher is at `ds`/`fin` -/
theorem tclosed_pc (c : Cfg) (s : S) (h : Reachable c s) : s.tclosed = true → (s.pc = .ds ∨ s.pc = .fin) := by
  induction h with
  | init => intro h; cases h
  | step s s' _ st ih =>
    cases st <;> simp_all

theorem not_tclosed (c : Cfg) (s : S) (hr : Reachable c s) (h1 : s.pc ≠ .ds) (h2 : s.pc ≠ .fin) :
    (view s).tClosed = false := by
  show s.tclosed = false
  cases h : s.tclosed
  · rfl
  · rcases tclosed_pc c s hr h with h' | h' <;> contradiction

/-- **every rule of the protocol does to the channels exactly what its declared operations say** -/
theorem label_effect (c : Cfg) (s s' : S) (l : Label) (hr : Reachable c s) (h : next c s l = some s') :
    effect c (labelOps l) (view s) (view s') := by
  cases l <;> simp only [next] at h
  case submit p =>
    split at h
    · next hg =>
      cases h
      simp only [effect, labelOps, opEffect]
      refine Or.inl ⟨by trivial, by simp [view, hg.1], hg.2, s.nextId, ?_⟩
      simp [view, hg.1]
    · cases h
  case shutdown =>
    split at h
    · next hg =>
      cases h
      simp only [effect, labelOps, opEffect]
      refine Or.inr (Or.inr ⟨by trivial, by simp [view, hg], ?_⟩)
      simp [view, hg]
    · cases h
  case take =>
    split at h
    · next t rest hq =>
      split at h
      · cases h
        simp only [effect, labelOps, opEffect]
        exact Or.inr (Or.inl ⟨by trivial, t, rest, hq, rfl⟩)
      · cases h
    · cases h
  case finish t =>
    split at h
    · cases h; simp [effect, labelOps, view]
    · cases h
  case report =>
    split at h
    · next hg =>
      cases h
      simp only [effect, labelOps, opEffect]
      exact Or.inl ⟨by trivial, hg.2, rfl⟩
    · cases h
  case recv =>
    split at h
    · next t rest hq =>
      split at h
      · cases h
        simp only [effect, labelOps, opEffect]
        exact Or.inr (Or.inl ⟨by trivial, Or.inl ⟨t, rest, hq, rfl⟩⟩)
      · cases h
    · cases h
  case closed =>
    split at h
    · next hg =>
      cases h
      simp only [effect, labelOps, opEffect]
      exact Or.inr (Or.inl ⟨by trivial, Or.inr ⟨hg.2.1, by simp [view, hg.2.2], rfl⟩⟩)
    · cases h
  case selReadyEmpty =>
    split at h
    · next hg =>
      cases h
      simp only [effect, labelOps, opEffect]
      exact Or.inr ⟨by trivial, hg.2.1, rfl⟩
    · cases h
  case selReadyBacklog =>
    split at h
    · next hg =>
      cases h
      simp only [effect, labelOps, opEffect]
      exact Or.inr ⟨by trivial, hg.2.1, rfl⟩
    · cases h
  case handoff =>
    split at h
    · next t hp =>
      split at h
      · next hg =>
        cases h
        simp only [effect, labelOps, opEffect]
        refine Or.inl ⟨by trivial, ?_, hg.2, t, rfl⟩
        exact not_tclosed c s hr (by simp [hp]) (by simp [hp])
      · cases h
    · cases h
  case toBacklog =>
    split at h
    · split at h
      · cases h; simp [effect, labelOps, view]
      · cases h
    · cases h
  case toWait =>
    split at h
    · split at h
      · cases h; simp [effect, labelOps, view]
      · cases h
    · cases h
  case waitReady =>
    split at h
    · split at h
      · next hg =>
        cases h
        simp only [effect, labelOps, opEffect]
        exact Or.inr ⟨by trivial, hg, rfl⟩
      · cases h
    · cases h
  case sendDirect =>
    split at h
    · next t hp =>
      split at h
      · next hg =>
        cases h
        simp only [effect, labelOps, opEffect]
        refine Or.inl ⟨by trivial, ?_, hg, t, rfl⟩
        exact not_tclosed c s hr (by simp [hp]) (by simp [hp])
      · cases h
    · cases h
  case sendBacklog =>
    split at h
    · next t b rest hp hb =>
      split at h
      · next hg =>
        cases h
        simp only [effect, labelOps, opEffect]
        refine Or.inl ⟨by trivial, ?_, hg, b, rfl⟩
        exact not_tclosed c s hr (by simp [hp]) (by simp [hp])
      · cases h
    · cases h
  case sendBacklog2 =>
    split at h
    · next b rest hp hb =>
      split at h
      · next hg =>
        cases h
        simp only [effect, labelOps, opEffect]
        refine Or.inl ⟨by trivial, ?_, hg, b, rfl⟩
        exact not_tclosed c s hr (by simp [hp]) (by simp [hp])
      · cases h
    · cases h
  case drainSend =>
    split at h
    · next i hp =>
      split at h
      · next b hb =>
        split at h
        · next hg =>
          cases h
          simp only [effect, labelOps, opEffect]
          refine Or.inl ⟨by trivial, ?_, hg, b, rfl⟩
          exact not_tclosed c s hr (by simp [hp]) (by simp [hp])
        · cases h
      · cases h
    · cases h
  case drainReady =>
    split at h
    · split at h
      · next hg =>
        cases h
        simp only [effect, labelOps, opEffect]
        exact Or.inr ⟨by trivial, hg.2, rfl⟩
      · cases h
    · cases h
  case drainDone =>
    split at h
    · split at h
      · cases h; simp [effect, labelOps, view]
      · cases h
    · cases h
  case finalReady =>
    split at h
    · next hg =>
      cases h
      simp only [effect, labelOps, opEffect]
      exact Or.inr ⟨by trivial, hg.2.2, rfl⟩
    · cases h
  case finalClose =>
    split at h
    · next hg =>
      cases h
      simp only [effect, labelOps, opEffect]
      refine Or.inr (Or.inr ⟨by trivial, ?_, rfl⟩)
      exact not_tclosed c s hr (by simp [hg.1]) (by simp [hg.1])
    · cases h
  case signalDone =>
    split at h
    · next hg =>
      cases h
      simp only [effect, labelOps, view]
      refine ⟨by simp [view, hg.2], by simp [view, hg.2], ?_⟩
      simp [view, hg.2]
    · cases h

/-- closes a goal `view q' = view q` for a rule that does not touch the channels -/
macro "tq_noop" h:ident : tactic =>
  `(tactic| ((repeat' (split at $h:ident)) <;> (first | (cases $h:ident; done) | (cases $h:ident; rfl))))

/-- **every rule of the threaded model does to the channels exactly what its declared operations say**; in particular
    the steps of a task (`ret`, `panic`), of the recovery (`recoverH`, `recoverN`, `handlerRet`, `handlerPanic`,
    `guardRecover`) and a dying thread touch no channel -/
theorem tlabel_effect (v : Variant) (c : Cfg) (hv : Sound v) (s s' : TS) (l : TLabel) (hr : TReachable v c s)
    (h : tnext v c s l = some s') : effect c (tlabelOps l) (view s.q) (view s'.q) := by
  have hq := (simulation v c hv.1 hv.2 s hr).1
  cases l <;> simp only [tnext] at h
  case q l =>
    split at h
    · cases h
    · cases hn : next (noH c) s.q l with
      | none => simp [hn] at h
      | some q' =>
        simp [hn] at h
        subst h
        exact label_effect (noH c) s.q q' l hq hn
  case take i =>
    split at h
    · next t rest hi hq' =>
      cases h
      simp only [tlabelOps, effect, opEffect]
      exact Or.inr (Or.inl ⟨by trivial, t, rest, hq', rfl⟩)
    · cases h
  case report i =>
    split at h
    · split at h
      · next hg =>
        cases h
        simp only [tlabelOps, effect, opEffect]
        exact Or.inl ⟨by trivial, hg, rfl⟩
      · cases h
    · cases h
  case nestedSubmit i =>
    split at h
    · split at h
      · next hg =>
        cases h
        simp only [tlabelOps, effect, opEffect]
        refine Or.inl ⟨by trivial, by simp [view, hg.1], hg.2, s.q.nextId, ?_⟩
        simp [view, hg.1]
      · cases h
    · cases h
  case ret i => simp only [tlabelOps, effect]; tq_noop h
  case panic i => simp only [tlabelOps, effect]; tq_noop h
  case recoverH i => simp only [tlabelOps, effect]; tq_noop h
  case recoverN i => simp only [tlabelOps, effect]; tq_noop h
  case die i => simp only [tlabelOps, effect]; tq_noop h
  case handlerRet i => simp only [tlabelOps, effect]; tq_noop h
  case handlerPanic i => simp only [tlabelOps, effect]; tq_noop h
  case guardRecover i => simp only [tlabelOps, effect]; tq_noop h
  case dispStart => simp only [tlabelOps, effect]; tq_noop h
  case dispEnd => simp only [tlabelOps, effect]; tq_noop h

/-- one label of every shape the program as it is can fire (all rules but `nestedSubmit` — tasks of the domain do not
    submit to their own queue — and the rules `dispStart`/`dispEnd`/`die` of the contrast variants, which perform no
    channel operation anyway) -/
def codeLabels : List TLabel :=
  [.q (.submit false), .q .shutdown, .q .recv, .q .closed, .q .selReadyEmpty, .q .selReadyBacklog, .q .handoff, .q .toBacklog,
   .q .toWait, .q .waitReady, .q .sendDirect, .q .sendBacklog, .q .sendBacklog2, .q .drainSend, .q .drainReady, .q .drainDone,
   .q .finalReady, .q .finalClose, .q .signalDone, .take 0, .ret 0, .panic 0, .recoverH 0, .recoverN 0, .handlerRet 0,
   .handlerPanic 0, .guardRecover 0, .report 0]

/-- the channel operations of the model: what the rules of `codeLabels` declare -/
def modelOps : List (Role × Kind × Chan) := (codeLabels.flatMap tlabelOps).eraseDups

theorem no_nested_thread (ws : List W) (h : cnt wnest ws = 0) (i t k : Nat) : ws[i]? ≠ some (.running t (k + 1)) := by
  intro hi
  obtain ⟨a, b, h1, _⟩ := split_at ws i _ .idle hi
  rw [h1, cnt_append] at h
  simp [cnt, wnest] at h

/-- **in the domain, whatever fires performs only operations of `modelOps`** (so `modelOps` is the complete list of
    channel operations of the modelled program, not a selection) -/
theorem fired_ops_in_modelOps (v : Variant) (c : Cfg) (hv : InDomain v) (s s' : TS) (l : TLabel) (hr : TReachable v c s)
    (h : tnext v c s l = some s') : ∀ o ∈ tlabelOps l, o ∈ modelOps := by
  cases l
  case q l =>
    cases l
    case take => simp [tnext, isWorker] at h
    case finish t => simp [tnext, isWorker] at h
    case report => simp [tnext, isWorker] at h
    all_goals (simp only [tlabelOps, labelOps]; decide)
  case nestedSubmit i =>
    exfalso
    have hn := nonest_inv v c hv.2 s hr
    simp only [tnext] at h
    split at h
    · next t k hi => exact no_nested_thread s.ws hn i t k hi
    · cases h
  all_goals (simp only [tlabelOps]; decide)

end TQChan
