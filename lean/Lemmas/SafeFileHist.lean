import Model.SafeFileHist
import Lemmas.SafeFileTemp
/-! C14, extension: the simulation between the action model of the `safe.File` API (with a fault on every system call) and
    its abstract specification `Abs`, and the transfer lemmas for `writeFileMulti`. -/
namespace Safe

def OpU.unlinkFails : OpU → Bool
  | .commit _ _ c => c
  | .close _ c => c
  | _ => false

/-- the simulation relation: handle `f` and directory `fs` of the action model against the abstract state `s`
    (`fs0`: the directory before the handle was created; `clean`: no unlink has failed so far) -/
structure Rel (m : Nat) (tmp dst : Path) (fs0 : FS) (clean : Bool) (f : File) (fs : FS) (s : Abs) : Prop where
  htmp : f.tmp = tmp
  hdst : f.dst = dst
  phase : s.phase = f.phase
  dest : fs dst = s.dest
  tmpc : f.closed = false → fs tmp = some ⟨s.pending, m⟩
  inv1 : f.committed = true → f.closed = true
  inv2 : f.closed = true → f.fdOpen = false
  others : ∀ q, q ≠ tmp → q ≠ dst → fs q = fs0 q
  gone : clean = true → f.closed = true → fs tmp = none

theorem run2_nil (u : Nat) (fs : FS) : run2 u fs [] = fs := rfl

theorem run2_cons (u : Nat) (fs : FS) (a : Act2) (l : List Act2) :
    run2 u fs (a :: l) = run2 u (applyAct2 u fs a) l := rfl

/-- a handle that has been closed issues no system call, whatever is called on it, and does not change -/
theorem stepU_closed (f : File) (hcl : f.closed = true) (hfd : f.fdOpen = false) (o : OpU) :
    (f.stepU o).1 = f ∧ (f.stepU o).2.2 = [] := by
  cases o with
  | write c fails => simp [File.stepU, File.write, hfd]
  | commit a b c => by_cases hc : f.committed = true <;> simp [File.stepU, File.commitU, hc, hcl]
  | close a c => by_cases hc : f.committed = true <;> simp [File.stepU, File.closeU, hc, hcl]
  | closeFd a => simp [File.stepU, File.closeFdU, hfd]

/-- the abstract specification in a finished phase: nothing changes any more -/
theorem Abs.step_done (m : Nat) (s : Abs) (h : ∀ b, s.phase ≠ .writing b) (o : OpU) : (s.step m o).1 = s := by
  obtain ⟨ph, pend, dest⟩ := s
  cases ph with
  | writing b => exact absurd rfl (h b)
  | committed => cases o <;> simp [Abs.step]
  | aborted => cases o <;> simp [Abs.step]

theorem Abs.steps_done (m : Nat) (s : Abs) (h : ∀ b, s.phase ≠ .writing b) (ops : List OpU) : (s.steps m ops).1 = s := by
  induction ops with
  | nil => rfl
  | cons o os ih => simp only [Abs.steps, Abs.step_done m s h o, ih]

/-- one abstract step leaves the destination alone or is the (successful) Commit -/
theorem Abs.step_dest (m : Nat) (s : Abs) (o : OpU) :
    (s.step m o).1.dest = s.dest ∨ (s.step m o).1.phase = .committed := by
  obtain ⟨ph, pend, dest⟩ := s
  cases o with
  | write c fails => cases ph with
    | writing b => cases b <;> cases fails <;> simp [Abs.step]
    | committed => simp [Abs.step]
    | aborted => simp [Abs.step]
  | commit a b c => cases ph with
    | writing fd => cases fd <;> cases a <;> cases b <;> simp [Abs.step]
    | committed => simp [Abs.step]
    | aborted => simp [Abs.step]
  | close a c => cases ph with
    | writing fd => cases fd <;> simp [Abs.step]
    | committed => simp [Abs.step]
    | aborted => simp [Abs.step]
  | closeFd a => cases ph with
    | writing fd => cases fd <;> simp [Abs.step]
    | committed => simp [Abs.step]
    | aborted => simp [Abs.step]

/-- **one call**: the action model and the abstract specification stay related, and return the same result -/
theorem stepU_sim (u m : Nat) (tmp dst : Path) (hne : tmp ≠ dst) (fs0 : FS) (clean : Bool) (f : File) (fs : FS) (s : Abs)
    (o : OpU) (R : Rel m tmp dst fs0 clean f fs s) :
    Rel m tmp dst fs0 (clean && !o.unlinkFails) (f.stepU o).1 (run2 u fs (f.stepU o).2.2) (s.step m o).1 ∧
    (f.stepU o).2.1 = (s.step m o).2 := by
  have hd : dst ≠ tmp := fun e => hne e.symm
  obtain ⟨ftmp, fdst, cm, cl, fd⟩ := f
  obtain ⟨ph, pend, dest⟩ := s
  obtain ⟨h1, h2, h3, h4, h5, h6, h7, h8, h9⟩ := R
  simp only at h1 h2 h5 h6 h7 h9
  subst h1 h2
  simp only [File.phase] at h3
  cases cl with
  | true =>
    -- finished: no system call, nothing changes
    have hfd : fd = false := h7 rfl
    subst hfd
    have hst := stepU_closed { tmp := ftmp, dst := fdst, committed := cm, closed := true, fdOpen := false } rfl rfl o
    have hph : ∀ b, ph ≠ .writing b := by
      intro b e; subst e; cases cm <;> simp at h3
    have hs := Abs.step_done m ⟨ph, pend, dest⟩ hph o
    refine ⟨?_, ?_⟩
    · rw [hst.1, hst.2, hs, run2_nil]
      exact ⟨rfl, rfl, h3, h4, fun h => by simp at h, h6, fun _ => rfl, h8, fun hc _ => h9 (by
        cases clean <;> simp at hc ⊢) rfl⟩
    · cases cm with
      | true => subst h3; cases o <;> simp [File.stepU, File.write, File.commitU, File.closeU, File.closeFdU, Abs.step]
      | false => simp at h3; subst h3; cases o <;> simp [File.stepU, File.write, File.commitU, File.closeU, File.closeFdU, Abs.step]
  | false =>
    have hcm : cm = false := by
      cases cm with
      | false => rfl
      | true => exact absurd (h6 rfl) (by simp)
    subst hcm
    simp at h3
    subst h3
    have htmpc := h5 rfl
    cases o with
    | write c fails =>
      cases fd <;> cases fails <;>
        refine ⟨⟨rfl, rfl, ?_, ?_, ?_, ?_, ?_, ?_, ?_⟩, ?_⟩ <;>
        simp_all [File.stepU, File.write, Abs.step, File.phase, run2, applyAct2, applyAct, FS.set]
    | closeFd a =>
      cases fd <;> cases a <;>
        refine ⟨⟨rfl, rfl, ?_, ?_, ?_, ?_, ?_, ?_, ?_⟩, ?_⟩ <;>
        simp_all [File.stepU, File.closeFdU, Abs.step, File.phase, OpU.unlinkFails, run2, applyAct2, applyAct, FS.set]
    | close a c =>
      cases fd <;> cases a <;> cases c <;>
        refine ⟨⟨rfl, rfl, ?_, ?_, ?_, ?_, ?_, ?_, ?_⟩, ?_⟩ <;>
        simp_all [File.stepU, File.closeU, rmAct, Abs.step, File.phase, OpU.unlinkFails, run2, applyAct2, applyAct, FS.set]
    | commit a b c =>
      cases fd <;> cases a <;> cases b <;> cases c <;>
        refine ⟨⟨rfl, rfl, ?_, ?_, ?_, ?_, ?_, ?_, ?_⟩, ?_⟩ <;>
        simp_all [File.stepU, File.commitU, rmAct, Abs.step, File.phase, OpU.unlinkFails, run2, applyAct2, applyAct, FS.set]

/-- **one call, every kill point inside it**: after any prefix of the system calls of one call the destination is what
    it was before the call, or what the abstract specification says it is after the call -/
theorem stepU_prefix (u m : Nat) (tmp dst : Path) (hne : tmp ≠ dst) (fs0 : FS) (clean : Bool) (f : File) (fs : FS) (s : Abs)
    (o : OpU) (R : Rel m tmp dst fs0 clean f fs s) (k : Nat) :
    run2 u fs ((f.stepU o).2.2.take k) dst = fs dst ∨ run2 u fs ((f.stepU o).2.2.take k) dst = (s.step m o).1.dest := by
  have hd : dst ≠ tmp := fun e => hne e.symm
  obtain ⟨ftmp, fdst, cm, cl, fd⟩ := f
  obtain ⟨ph, pend, dest⟩ := s
  obtain ⟨h1, h2, h3, h4, h5, h6, h7, h8, h9⟩ := R
  simp only at h1 h2 h5 h6 h7 h9
  subst h1 h2
  simp only [File.phase] at h3
  cases cl with
  | true =>
    have hfd : fd = false := h7 rfl
    subst hfd
    have hst := stepU_closed { tmp := ftmp, dst := fdst, committed := cm, closed := true, fdOpen := false } rfl rfl o
    left; rw [hst.2, List.take_nil]; rfl
  | false =>
    have hcm : cm = false := by
      cases cm with
      | false => rfl
      | true => exact absurd (h6 rfl) (by simp)
    subst hcm
    simp at h3
    subst h3
    have htmpc := h5 rfl
    cases o with
    | write c fails =>
      left
      cases fd <;> cases fails <;> rcases k with _ | k <;>
        simp_all [File.stepU, File.write, run2, applyAct2, applyAct, FS.set]
    | closeFd a =>
      left
      cases fd <;> cases a <;> rcases k with _ | k <;>
        simp_all [File.stepU, File.closeFdU, run2, applyAct2, applyAct, FS.set]
    | close a c =>
      left
      cases fd <;> cases a <;> cases c <;> rcases k with _ | _ | k <;>
        simp_all [File.stepU, File.closeU, rmAct, run2, applyAct2, applyAct, FS.set]
    | commit a b c =>
      cases fd <;> cases a <;> cases b <;> cases c <;> rcases k with _ | _ | _ | k <;>
        simp_all [File.stepU, File.commitU, rmAct, Abs.step, run2, applyAct2, applyAct, FS.set]

theorem run2_take_append (u : Nat) (fs : FS) (a b : List Act2) (k : Nat) :
    run2 u fs ((a ++ b).take k) = run2 u (run2 u fs (a.take k)) (b.take (k - a.length)) := by
  rw [List.take_append, run2_append]

theorem stepsU_nil (f : File) : f.stepsU [] = (f, [], []) := rfl

theorem stepsU_cons (f : File) (o : OpU) (os : List OpU) :
    f.stepsU (o :: os) = (((f.stepU o).1.stepsU os).1, (f.stepU o).2.1 :: ((f.stepU o).1.stepsU os).2.1,
      (f.stepU o).2.2 ++ ((f.stepU o).1.stepsU os).2.2) := rfl

theorem absSteps_cons (m : Nat) (s : Abs) (o : OpU) (os : List OpU) :
    s.steps m (o :: os) = (((s.step m o).1.steps m os).1, (s.step m o).2 :: ((s.step m o).1.steps m os).2) := rfl

def allClean : List OpU → Bool
  | [] => true
  | o :: os => !o.unlinkFails && allClean os

/-- **a whole history refines the abstract specification**: same results call by call, and the two stay related -/
theorem stepsU_sim (u m : Nat) (tmp dst : Path) (hne : tmp ≠ dst) (fs0 : FS) (ops : List OpU) :
    ∀ (clean : Bool) (f : File) (fs : FS) (s : Abs), Rel m tmp dst fs0 clean f fs s →
      Rel m tmp dst fs0 (clean && allClean ops) (f.stepsU ops).1 (run2 u fs (f.stepsU ops).2.2) (s.steps m ops).1 ∧
      (f.stepsU ops).2.1 = (s.steps m ops).2 := by
  induction ops with
  | nil =>
    intro clean f fs s R
    simp only [stepsU_nil, Abs.steps, run2_nil, allClean, Bool.and_true]
    exact ⟨R, trivial⟩
  | cons o os ih =>
    intro clean f fs s R
    obtain ⟨R1, hr1⟩ := stepU_sim u m tmp dst hne fs0 clean f fs s o R
    obtain ⟨R2, hr2⟩ := ih _ _ _ _ R1
    rw [stepsU_cons, absSteps_cons]
    simp only [run2_append, allClean]
    refine ⟨?_, by rw [hr1, hr2]⟩
    rw [← Bool.and_assoc]
    exact R2

/-- **a whole history, every kill point**: after any prefix of all its system calls the destination is what it was
    before, or what the abstract specification says it is at the end of the history -/
theorem stepsU_prefix (u m : Nat) (tmp dst : Path) (hne : tmp ≠ dst) (fs0 : FS) (ops : List OpU) :
    ∀ (clean : Bool) (f : File) (fs : FS) (s : Abs) (k : Nat), Rel m tmp dst fs0 clean f fs s →
      run2 u fs ((f.stepsU ops).2.2.take k) dst = fs dst ∨
      run2 u fs ((f.stepsU ops).2.2.take k) dst = (s.steps m ops).1.dest := by
  induction ops with
  | nil => intro clean f fs s k R; left; simp [stepsU_nil, run2_nil]
  | cons o os ih =>
    intro clean f fs s k R
    obtain ⟨R1, _⟩ := stepU_sim u m tmp dst hne fs0 clean f fs s o R
    rw [stepsU_cons, absSteps_cons]
    simp only
    rw [run2_take_append]
    -- what the abstract step does to the destination
    have hfin : (s.step m o).1.dest = s.dest ∨ ((s.step m o).1.steps m os).1.dest = (s.step m o).1.dest := by
      rcases Abs.step_dest m s o with h | h
      · exact Or.inl h
      · right
        rw [Abs.steps_done m (s.step m o).1 (by intro b e; rw [h] at e; cases e) os]
    by_cases hk : k ≤ (f.stepU o).2.2.length
    · have h0 : k - (f.stepU o).2.2.length = 0 := by omega
      rw [h0, List.take_zero, run2_nil]
      rcases stepU_prefix u m tmp dst hne fs0 clean f fs s o R k with h | h
      · exact Or.inl h
      · rcases hfin with h2 | h2
        · left; rw [h, h2, R.dest]
        · right; rw [h, h2]
    · rw [List.take_of_length_le (by omega)]
      rcases ih _ _ _ _ (k - (f.stepU o).2.2.length) R1 with h | h
      · rw [h, R1.dest]
        rcases hfin with h2 | h2
        · left; rw [h2, R.dest]
        · right; rw [h2]
      · exact Or.inr h

/-! ## several faults in one `WriteFileWithMode` -/

theorem failClose_apply (u : Nat) (fs : FS) (a : Act2) : applyAct2 u fs (failClose a) = applyAct2 u fs a := by
  cases a with
  | base b => cases b <;> rfl
  | openFail _ _ _ => rfl
  | unlinkFail _ => rfl

theorem run2_map_failClose (u : Nat) (fs : FS) (l : List Act2) : run2 u fs (l.map failClose) = run2 u fs l := by
  induction l generalizing fs with
  | nil => rfl
  | cons a as ih => simp only [List.map_cons, run2_cons, failClose_apply, ih]

theorem run2_take_map_failClose (u : Nat) (fs : FS) (l : List Act2) (k : Nat) :
    run2 u fs ((l.map failClose).take k) = run2 u fs (l.take k) := by
  rw [← List.map_take, run2_map_failClose]

theorem failClose_id (l : List Act2) (h : ∀ a ∈ l, ∀ p, a ≠ .base (.close p)) : l.map failClose = l := by
  induction l with
  | nil => rfl
  | cons a as ih =>
    have ha : failClose a = a := by
      cases a with
      | base b =>
        cases b with
        | close p => exact absurd rfl (h _ (List.mem_cons_self) p)
        | _ => rfl
      | openFail _ _ _ => rfl
      | unlinkFail _ => rfl
    rw [List.map_cons, ha, ih (fun a ha p => h a (List.mem_cons_of_mem _ ha) p)]

theorem onlyWrites_map_base_noClose (tmp : Path) (l : List Act) (h : OnlyWrites tmp l) :
    ∀ a ∈ l.map Act2.base, ∀ p, a ≠ .base (.close p) := by
  intro a ha p e
  subst e
  simp only [List.mem_map] at ha
  obtain ⟨x, hx, hxe⟩ := ha
  injection hxe with hxe
  subst hxe
  rcases h _ hx with ⟨c, hc⟩ | ⟨n, hn⟩
  · cases hc
  · cases hn

theorem fails_noClose (l : List Act2) (h : ∀ a ∈ l, a.isFail = true) : ∀ a ∈ l, ∀ p, a ≠ .base (.close p) := by
  intro a ha p e
  subst e
  have := h _ ha
  simp [Act2.isFail] at this

/-- `writeFileMulti` against `writeFileFull`: the same result whatever the close(2) of the deferred `Close` does (the
    primary error is what comes back), and the same system calls — except that on the paths that do not reach `Commit`
    that one `close` is a failing one -/
theorem writeFileMulti_rel (code : Str → Path) (tmpdir filename : Str) (N mode : Nat) (pieces : List Bytes) (cb : CbMode)
    (fault : Fault) (rands : Nat → Nat) (ofaults : Nat → Option OpenFault) (cf2 uf : Bool) (fs : FS) :
    (writeFileMulti code tmpdir filename N mode pieces cb fault rands ofaults cf2 uf fs).1 =
      (writeFileFull code tmpdir filename N mode pieces cb fault rands ofaults uf fs).1 ∧
    ((writeFileMulti code tmpdir filename N mode pieces cb fault rands ofaults cf2 uf fs).2 =
        (writeFileFull code tmpdir filename N mode pieces cb fault rands ofaults uf fs).2 ∨
     (writeFileMulti code tmpdir filename N mode pieces cb fault rands ofaults cf2 uf fs).2 =
        (writeFileFull code tmpdir filename N mode pieces cb fault rands ofaults uf fs).2.map failClose) := by
  cases cf2 with
  | false => exact ⟨rfl, Or.inl rfl⟩
  | true =>
    obtain ⟨fails, hfail, _, hcase⟩ := createWithMode_spec code tmpdir filename mode rands ofaults fs
    rcases hcase with ⟨c', j, _, _, _, heq, _, _⟩ | ⟨hno, _⟩
    · generalize code (tempName tmpdir (dirOf c') safePattern (rands j)) = tmp at heq
      generalize code c' = dst at heq
      unfold writeFileMulti writeFileFull
      rw [heq]
      simp only
      have hcb := callback_onlyWrites N ({ tmp := tmp, dst := dst } : File) cb fault.stopRes pieces { failIn := fault.writeAt } fault.cbAt
      generalize callback N { tmp := tmp, dst := dst } cb fault.stopRes { failIn := fault.writeAt } fault.cbAt pieces = c
        at hcb ⊢
      have hpre : (fails ++ [Act2.base (.createExcl tmp mode)]).map failClose = fails ++ [Act2.base (.createExcl tmp mode)] := by
        rw [List.map_append, failClose_id fails (fails_noClose fails hfail)]; rfl
      have hcw : (c.2.2.map Act2.base).map failClose = c.2.2.map Act2.base :=
        failClose_id _ (onlyWrites_map_base_noClose tmp _ hcb)
      have hclose : ∀ l : List Act2, l.map failClose = l →
          (l ++ (({ tmp := tmp, dst := dst } : File).closeU false uf).2.2).map failClose =
            l ++ (({ tmp := tmp, dst := dst } : File).closeU true uf).2.2 := by
        intro l hl
        rw [List.map_append, hl]
        cases uf <;> simp [File.closeU, rmAct, failClose]
      by_cases h1 : c.2.1 ≠ .ok
      · simp only [if_pos h1]
        refine ⟨trivial, Or.inr ?_⟩
        rw [hclose _ (by rw [List.map_append, hpre, hcw])]
      · simp only [if_neg h1]
        have hfl := bwFlush_onlyWrites ({ tmp := tmp, dst := dst } : File) c.1
        generalize c.1.flush ({ tmp := tmp, dst := dst } : File) = fl at hfl ⊢
        have hfw : (fl.2.map Act2.base).map failClose = fl.2.map Act2.base :=
          failClose_id _ (onlyWrites_map_base_noClose tmp _ hfl)
        by_cases h2 : fl.1.err = true
        · simp only [if_pos h2]
          refine ⟨trivial, Or.inr ?_⟩
          rw [hclose _ (by rw [List.map_append, List.map_append, hpre, hcw, hfw])]
        · simp only [if_neg h2]
          -- after Commit the handle is committed: the deferred Close does nothing whatever close(2) would do
          have hcomm : ∀ a b, ((({ tmp := tmp, dst := dst } : File).commitU a b uf).1.closeU true uf) =
              ((({ tmp := tmp, dst := dst } : File).commitU a b uf).1.closeU false uf) := by
            intro a b
            cases a <;> cases b <;> simp [File.commitU, File.closeU]
          rw [hcomm]
          exact ⟨rfl, Or.inl rfl⟩
    · have : ∀ cf, writeFileMulti code tmpdir filename N mode pieces cb fault rands ofaults cf uf fs =
          ((createWithMode code tmpdir filename mode rands ofaults fs).1.err,
           (createWithMode code tmpdir filename mode rands ofaults fs).2) := by
        intro cf
        unfold writeFileMulti
        generalize createWithMode code tmpdir filename mode rands ofaults fs = r at hno
        obtain ⟨r1, r2⟩ := r
        cases r1 with
        | ok f => exact absurd rfl (hno f)
        | invalid => rfl
        | temp e => rfl
      have hfull : writeFileFull code tmpdir filename N mode pieces cb fault rands ofaults uf fs =
          writeFileMulti code tmpdir filename N mode pieces cb fault rands ofaults false uf fs := rfl
      rw [hfull, this true, this false]
      exact ⟨rfl, Or.inl rfl⟩

/-! ## the start of a history: the handle `CreateWithMode` returns -/

theorem rel_init (u mode : Nat) (tmp dst : Path) (hne : tmp ≠ dst) (fs : FS) :
    Rel (lessUmask mode u) tmp dst fs true { tmp := tmp, dst := dst } (fs.set tmp (some ⟨[], lessUmask mode u⟩))
      ⟨.writing true, [], fs dst⟩ := by
  have hd : dst ≠ tmp := fun e => hne e.symm
  refine ⟨rfl, rfl, rfl, ?_, ?_, ?_, ?_, ?_, ?_⟩
  · simp [FS.set, hd]
  · intro _; simp [FS.set]
  · intro h; simp at h
  · intro h; simp at h
  · intro q hq _; simp [FS.set, hq]
  · intro _ h; simp at h

/-- a handle in a finished phase is closed -/
theorem phase_done_closed (f : File) (inv1 : f.committed = true → f.closed = true) (h : ∀ b, f.phase ≠ .writing b) :
    f.closed = true := by
  unfold File.phase at h
  cases hc : f.committed with
  | true => exact inv1 hc
  | false =>
    cases hcl : f.closed with
    | true => rfl
    | false => simp [hc, hcl] at h

/-- the directory right after `CreateWithMode`: the old one plus the empty temporary file -/
theorem create_state (u mode : Nat) (fs : FS) (tmp dst : Path) :
    run2 u fs ((File.create tmp dst mode).2.map Act2.base) = fs.set tmp (some ⟨[], lessUmask mode u⟩) := rfl

/-- a handle in the writing phase has not been closed -/
theorem phase_writing_not_closed (f : File) (b : Bool) (h : f.phase = .writing b) : f.closed = false := by
  unfold File.phase at h
  cases hc : f.committed <;> cases hcl : f.closed <;> simp [hc, hcl] at h ⊢

/-- what a history commits: `some p` when its first `Commit`/`Close` is a `Commit` whose close and rename succeed, `p`
    being the bytes accepted before it; `none` when it commits nothing (as `committed` for the first model) -/
def committedU (fdOpen : Bool) : List OpU → Option Bytes
  | [] => none
  | .write c fails :: os => (committedU fdOpen os).map ((if fdOpen && !fails then c else []) ++ ·)
  | .closeFd _ :: os => committedU false os
  | .commit a b _ :: _ => if fdOpen && !a && !b then some [] else none
  | .close _ _ :: _ => none

/-- the abstract specification in closed form: at the end of a history the destination holds the bytes accepted before
    the first `Commit`/`Close` if that is a successful `Commit`, and is what it was otherwise -/
theorem Abs.steps_dest (m : Nat) (ops : List OpU) :
    ∀ (fd : Bool) (w : Bytes) (d : Option FileData),
      ((⟨.writing fd, w, d⟩ : Abs).steps m ops).1.dest =
        match committedU fd ops with
        | some p => some ⟨w ++ p, m⟩
        | none => d := by
  induction ops with
  | nil => intro fd w d; rfl
  | cons o os ih =>
    intro fd w d
    rw [absSteps_cons]
    cases o with
    | write c fails =>
      cases fd <;> cases fails <;> simp only [Abs.step, committedU, Bool.and_true, Bool.and_false, Bool.not_true,
        Bool.not_false, Bool.false_and, Bool.true_and, if_true, if_false, Bool.false_eq_true] <;> rw [ih] <;>
        cases committedU _ os <;> simp
    | closeFd a =>
      cases fd <;> simp only [Abs.step, committedU] <;> rw [ih]
    | close a c =>
      have : ∀ s : Abs, (∀ b, s.phase ≠ .writing b) → (s.steps m os).1.dest = s.dest := fun s h => by
        rw [Abs.steps_done m s h os]
      cases fd <;> simp only [Abs.step, committedU] <;> rw [this _ (by intro b e; cases e)]
    | commit a b c =>
      have : ∀ s : Abs, (∀ b, s.phase ≠ .writing b) → (s.steps m os).1.dest = s.dest := fun s h => by
        rw [Abs.steps_done m s h os]
      cases fd <;> cases a <;> cases b <;> simp only [Abs.step, committedU] <;>
        rw [this _ (by intro b e; simp at e)] <;> simp

end Safe
