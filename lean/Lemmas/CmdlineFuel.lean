import Lemmas.CmdlineConv
namespace Cmd

theorem leadingInt_len : ∀ (s : Str) (x v : Nat) (r : Str), leadingInt s x = some (v, r) → r.length ≤ s.length := by
  intro s
  induction s with
  | nil => intro x v r h; simp [leadingInt] at h; simp [h.2.symm]
  | cons c t ih =>
    intro x v r h
    unfold leadingInt at h
    by_cases hd : dIsDigit c = true
    · simp only [hd, if_true] at h
      by_cases h1 : x > 2 ^ 63 / 10
      · simp [h1] at h
      · simp only [h1, if_false] at h
        by_cases h2 : x * 10 + (c - 48) > 2 ^ 63
        · simp [h2] at h
        · simp only [h2, if_false] at h
          have := ih _ v r h
          simp only [List.length_cons]; omega
    · simp only [hd] at h
      simp only [Bool.false_eq_true, if_false, Option.some.injEq, Prod.mk.injEq] at h
      rw [← h.2]; exact Nat.le_refl _

theorem leadingFraction_len : ∀ (s : Str) (x sc : Nat) (ov : Bool), (leadingFraction s x sc ov).2.2.length ≤ s.length := by
  intro s
  induction s with
  | nil => intro x sc ov; simp [leadingFraction]
  | cons c t ih =>
    intro x sc ov
    unfold leadingFraction
    by_cases hd : dIsDigit c = true
    · simp only [hd, if_true]
      split
      · have := ih x sc true; simp only [List.length_cons]; omega
      · split
        · have := ih x sc true; simp only [List.length_cons]; omega
        · split
          · have := ih x sc true; simp only [List.length_cons]; omega
          · have := ih (x * 10 + (c - 48)) (SoftFloat.mul SoftFloat.f64 sc (f64OfNat 10)) false
            simp only [List.length_cons]; omega
    · simp [hd]

theorem takeUnit_len : ∀ s : Str, (takeUnit s).1.length + (takeUnit s).2.length = s.length := by
  intro s
  induction s with
  | nil => simp [takeUnit]
  | cons c t ih =>
    unfold takeUnit
    by_cases h : (c = 46 || dIsDigit c) = true
    · simp [h]
    · simp only [h]; simp only [Bool.false_eq_true, if_false, List.length_cons]; omega

end Cmd

namespace Cmd

theorem fracPart_len (s1 : Str) : (fracPart s1).2.2.1.length ≤ s1.length := by
  unfold fracPart
  split
  · rename_i t
    have := leadingFraction_len t 0 (f64OfNat 1) false
    simp only [List.length_cons]; omega
  · exact Nat.le_refl _

/-- every `number unit` group consumes at least one byte (its unit is not empty) -/
theorem durGroupRaw_shrinks (s : Str) (d : Nat) (p : Nat × Str) (h : durGroupRaw s d = some p) :
    p.2.length < s.length := by
  unfold durGroupRaw at h
  cases s with
  | nil => simp at h
  | cons c rest =>
    simp only at h
    by_cases hg : (!(c = 46 || dIsDigit c)) = true
    · simp [hg] at h
    · simp only [hg] at h
      cases hli : leadingInt (c :: rest) 0 with
      | none => simp [hli] at h
      | some vs =>
        obtain ⟨v, s1⟩ := vs
        simp only [hli] at h
        have h1 := leadingInt_len _ _ _ _ hli
        have h2 := fracPart_len s1
        have h3 := takeUnit_len (fracPart s1).2.2.1
        generalize fracPart s1 = fr at h h2 h3
        by_cases ha : (s1.length == (c :: rest).length && !fr.2.2.2) = true
        · rw [if_pos ha] at h; cases h
        · rw [if_neg ha] at h
          by_cases hu : (takeUnit fr.2.2.1).1 = []
          · rw [if_pos hu] at h; cases h
          · rw [if_neg hu] at h
            have hpos : 0 < (takeUnit fr.2.2.1).1.length := List.length_pos_iff.mpr hu
            cases huo : unitOf (takeUnit fr.2.2.1).1 with
            | none => rw [huo] at h; cases h
            | some unit =>
              rw [huo] at h
              simp only at h
              by_cases hv : v > 2 ^ 63 / unit
              · rw [if_pos hv] at h; cases h
              · rw [if_neg hv] at h
                generalize (if fr.1 > 0 then v * unit + truncU (SoftFloat.mul SoftFloat.f64 (f64OfNat fr.1)
                  (SoftFloat.div SoftFloat.f64 (f64OfNat unit) fr.2.1)) else v * unit) = v2 at h
                by_cases h63 : v2 > 2 ^ 63
                · rw [if_pos h63] at h; cases h
                · rw [if_neg h63] at h
                  cases h
                  simp only [List.length_cons] at *
                  omega

end Cmd

namespace Cmd

theorem durGroup_shrinks (s : Str) (d : Nat) (p : Nat × Str) (h : durGroup s d = some p) : p.2.length < s.length := by
  unfold durGroup at h
  cases hr : durGroupRaw s d with
  | none => rw [hr] at h; cases h
  | some q =>
    rw [hr] at h
    simp only at h
    by_cases hq : q.1 > 2 ^ 63
    · rw [if_pos hq] at h; cases h
    · rw [if_neg hq] at h
      have hp : q = p := Option.some.inj h
      subst hp
      exact durGroupRaw_shrinks s d q hr

/-- **the fuel never runs out**: any two amounts of fuel of at least the length of the text give the same answer, so the
    answer `none` of `durLoop s.length s d` is a refusal by one of the rules of `ParseDuration`, never exhaustion -/
theorem durLoop_fuel : ∀ (n m : Nat) (s : Str) (d : Nat), s.length ≤ n → s.length ≤ m → durLoop n s d = durLoop m s d := by
  intro n
  induction n with
  | zero =>
    intro m s d hn _
    have hs : s = [] := List.length_eq_zero_iff.mp (by omega)
    subst hs
    cases m <;> simp [durLoop]
  | succ n ih =>
    intro m s d hn hm
    by_cases hs : s = []
    · subst hs; cases m <;> simp [durLoop]
    · have hpos : 0 < s.length := List.length_pos_iff.mpr hs
      obtain ⟨m', rfl⟩ : ∃ m', m = m' + 1 := ⟨m - 1, by omega⟩
      unfold durLoop
      simp only [hs, if_false]
      cases hg : durGroup s d with
      | none => rfl
      | some p =>
        have := durGroup_shrinks s d p hg
        exact ih m' p.2 p.1 (by omega) (by omega)

/-- with ANY larger fuel the loop only ends on the empty text: exhaustion (`fuel = 0` with text left) is unreachable from
    `fuel ≥ length` -/
theorem durLoop_fuel_succ (s : Str) (d k : Nat) : durLoop (s.length + k) s d = durLoop s.length s d :=
  durLoop_fuel _ _ s d (by omega) (Nat.le_refl _)

end Cmd
