import Model.NotifierConc
import Lemmas.MutexLin
import Lemmas.RWMutexLin
import Lemmas.NotifierDelivery
/-! C17, concurrent use: the micro-steps of every bracket compute the sequential reference `rrun`; every schedule of the
    interleaved machine projects to a schedule of the bracket machine; the goroutine-local callback lists are those of
    the one-at-a-time execution; callback steps commute with everything. -/
namespace NtC
open Nt Mutex

/-! ### the micro-steps compute `rrun` -/

theorem runs_ret (r : RRes) (s : NSt) : Runs sys (.ret r) s r s := Runs.fin rfl

theorem runs_regLoop (t : Nat) (p : Int) (rest : List Name) (s : NSt) :
    Runs sys (.regLoop t p rest) s .unit (rest.foldl (regStep t p) s) := by
  induction rest generalizing s with
  | nil => exact Runs.step rfl (runs_ret _ _)
  | cons n rest ih => exact Runs.step rfl (ih (regStep t p s n))

theorem runs_unregLoop (t : Nat) (rest : List Name) (s : NSt) :
    Runs sys (.unregLoop t rest) s .unit
      { s with prod := rest.foldl (unregStep t) s.prod, names := assocDel s.names t } := by
  induction rest generalizing s with
  | nil => exact Runs.step rfl (runs_ret _ _)
  | cons n rest ih => exact Runs.step rfl (ih { s with prod := unregStep t s.prod n })

theorem runs_collectLoop (rest : List Name) (acc : List (Nat × Int)) (s : NSt) :
    Runs sys (.collectLoop rest acc) s (.table (rest.foldl (gatherStep s.prod) acc)) s := by
  induction rest generalizing acc with
  | nil => exact Runs.step rfl (runs_ret _ _)
  | cons pre rest ih => exact Runs.step rfl (ih (gatherStep s.prod acc pre))

/-- every bracket, run micro-step by micro-step, returns what the sequential model returns and leaves the state the
    sequential model leaves -/
theorem runs_op (op : ROp) (s : NSt) : Runs sys (sys.start op) s (rrun op s).1 (rrun op s).2 := by
  cases op with
  | register t p raws =>
    refine Runs.step rfl ?_
    show Runs sys (micro (.start (.register t p raws)) s).1 (micro (.start (.register t p raws)) s).2 _ _
    simp only [micro, rrun, register]
    by_cases h : normNames raws = []
    · simp only [h, if_true]; exact runs_ret _ _
    · simp only [h, if_false]; exact runs_regLoop _ _ _ _
  | unregister t =>
    refine Runs.step rfl ?_
    show Runs sys (micro (.start (.unregister t)) s).1 (micro (.start (.unregister t)) s).2 _ _
    simp only [micro, rrun, unregister]
    cases hg : assocGet s.names t with
    | none => exact runs_ret _ _
    | some ns => exact runs_unregLoop t ns _
  | collect raw =>
    refine Runs.step rfl ?_
    show Runs sys (micro (.start (.collect raw)) s).1 (micro (.start (.collect raw)) s).2 _ _
    simp only [micro, rrun, collectTbl]
    by_cases h : s.enabled = true
    · simp only [h, if_true]; exact runs_collectLoop _ _ _
    · simp only [h, if_false]; exact runs_ret _ _
  | setEnabled b => exact Runs.step rfl (runs_ret _ _)
  | reset => exact Runs.step rfl (runs_ret _ _)
  | enabledQ => exact Runs.step rfl (runs_ret _ _)
  | levelQ => exact Runs.step rfl (runs_ret _ _)
  | startSnap => exact Runs.step rfl (runs_ret _ _)
  | endSnap => exact Runs.step rfl (runs_ret _ _)
  | copyOut => exact Runs.step rfl (runs_ret _ _)
  | mergeIn p nm b => exact Runs.step rfl (runs_ret _ _)

/-! ### projection to the bracket machine -/

variable (pan : Nat → Bool) (nid : Nat) (lock : Bool)

/-- a step of the interleaved machine is either a callback (the bracket machine does not move) or a step of the bracket
    machine -/
theorem cstep_m (C C' : Conf) (t : Nat) (h : cstep pan nid lock C t = some C') :
    ((C.loc t).pending ≠ [] ∧ C'.m = C.m) ∨ ((C.loc t).pending = [] ∧ Mutex.step sys lock C.m t = some C'.m) := by
  unfold cstep at h
  cases hp : (C.loc t).pending with
  | cons e rest =>
    rw [hp] at h; simp only [Option.some.injEq] at h; subst h
    exact Or.inl ⟨by simp, rfl⟩
  | nil =>
    rw [hp] at h; simp only at h
    cases hs : Mutex.step sys lock C.m t with
    | none => rw [hs] at h; cases h
    | some m' =>
      rw [hs] at h; simp only at h
      right; refine ⟨rfl, ?_⟩
      cases hr : returning C.m t with
      | none => rw [hr] at h; simp only [Option.some.injEq] at h; subst h; rfl
      | some x => rw [hr] at h; simp only [Option.some.injEq] at h; subst h; rfl

/-- every schedule of the interleaved machine contains a schedule of the bracket machine between the same bracket
    configurations (the callback steps removed) -/
theorem cexec_proj (sch : List Nat) (C C' : Conf) (h : cexec pan nid lock C sch = some C') :
    ∃ sch', sch'.Sublist sch ∧ Mutex.exec sys lock C.m sch' = some C'.m := by
  induction sch generalizing C with
  | nil => simp only [cexec, Option.some.injEq] at h; subst h; exact ⟨[], List.Sublist.refl _, rfl⟩
  | cons t ts ih =>
    simp only [cexec] at h
    cases hs : cstep pan nid lock C t with
    | none => rw [hs] at h; cases h
    | some C1 =>
      rw [hs] at h; simp only at h
      obtain ⟨sch', hsub, he⟩ := ih C1 h
      rcases cstep_m pan nid lock C C1 t hs with ⟨_, hm⟩ | ⟨_, hm⟩
      · exact ⟨sch', List.Sublist.cons _ hsub, by rw [← hm]; exact he⟩
      · exact ⟨t :: sch', List.Sublist.cons₂ _ hsub, by simp only [Mutex.exec, hm]; exact he⟩

/-! ### the goroutine-local data are those of the one-at-a-time execution -/

/-- the local code replayed over a log of finished brackets -/
def logLocal : (Nat → Local) → List (Nat × ROp × RRes) → (Nat → Local)
  | L, [] => L
  | L, (t, op, r) :: l => logLocal (upd L t (onReturn pan nid (flush (L t)) op r)) l

theorem logLocal_snoc (L : Nat → Local) (l : List (Nat × ROp × RRes)) (t : Nat) (op : ROp) (r : RRes) :
    logLocal pan nid L (l ++ [(t, op, r)]) =
      upd (logLocal pan nid L l) t (onReturn pan nid (flush (logLocal pan nid L l t)) op r) := by
  induction l generalizing L with
  | nil => rfl
  | cons x l ih => obtain ⟨t', op', r'⟩ := x; simp only [List.cons_append, logLocal]; exact ih _

/-- replaying the log of the sequential execution is the sequential reference `seqLocal` -/
theorem logLocal_seqExec (acq : List (Nat × ROp)) (L : Nat → Local) (s : NSt) :
    logLocal pan nid L (seqExec rrun s acq).1 = seqLocal pan nid L s acq := by
  induction acq generalizing L s with
  | nil => rfl
  | cons x l ih => obtain ⟨t, op⟩ := x; simp only [seqExec, logLocal, seqLocal]; exact ih _ _

/-- the link between the goroutine-local data and the log of finished brackets -/
def LocalInv (C : Conf) : Prop :=
  ∀ t, (C.loc t).en = (logLocal pan nid (fun _ => {}) C.m.log t).en ∧
       (C.loc t).all = (logLocal pan nid (fun _ => {}) C.m.log t).all

theorem step_log_of_returning_none (m m' : Mutex.Config NSt ROp PC RRes) (t : Nat)
    (hs : Mutex.step sys lock m t = some m') (hr : returning m t = none) : m'.log = m.log := by
  unfold Mutex.step at hs
  cases hcur : (m.threads t).cur with
  | none =>
    rw [hcur] at hs; simp only at hs
    cases htodo : (m.threads t).todo with
    | nil => rw [htodo] at hs; cases hs
    | cons op rest =>
      rw [htodo] at hs; simp only at hs
      split at hs
      · cases hs
      · simp only [Option.some.injEq] at hs; subst hs; rfl
  | some ok =>
    obtain ⟨op, k⟩ := ok
    rw [hcur] at hs; simp only at hs
    cases k with
    | ret r => simp [returning, hcur] at hr
    | start op' => simp only [sys, Option.some.injEq] at hs; subst hs; rfl
    | regLoop a b c => simp only [sys, Option.some.injEq] at hs; subst hs; rfl
    | unregLoop a b => simp only [sys, Option.some.injEq] at hs; subst hs; rfl
    | collectLoop a b => simp only [sys, Option.some.injEq] at hs; subst hs; rfl

theorem step_log_of_returning_some (m m' : Mutex.Config NSt ROp PC RRes) (t : Nat) (op : ROp) (r : RRes)
    (hs : Mutex.step sys lock m t = some m') (hr : returning m t = some (op, r)) : m'.log = m.log ++ [(t, op, r)] := by
  unfold Mutex.step at hs
  cases hcur : (m.threads t).cur with
  | none => simp [returning, hcur] at hr
  | some ok =>
    obtain ⟨op', k⟩ := ok
    rw [hcur] at hs; simp only at hs
    cases k with
    | ret r' =>
      simp only [returning, hcur, Option.some.injEq, Prod.mk.injEq] at hr
      obtain ⟨rfl, rfl⟩ := hr
      simp only [sys, Option.some.injEq] at hs; subst hs; rfl
    | start op' => simp [returning, hcur] at hr
    | regLoop a b c => simp [returning, hcur] at hr
    | unregLoop a b => simp [returning, hcur] at hr
    | collectLoop a b => simp [returning, hcur] at hr

theorem localInv_init (s₀ : NSt) (progs : Nat → List ROp) : LocalInv pan nid (cinit s₀ progs) := by
  intro t; simp [cinit, Mutex.init, logLocal]

theorem localInv_step (C C' : Conf) (t : Nat) (hi : LocalInv pan nid C) (h : cstep pan nid lock C t = some C') :
    LocalInv pan nid C' := by
  unfold cstep at h
  cases hp : (C.loc t).pending with
  | cons e rest =>
    rw [hp] at h; simp only [Option.some.injEq] at h; subst h
    intro u
    by_cases hu : u = t
    · subst hu
      simp only [upd_same]
      refine ⟨(hi u).1, ?_⟩
      rw [← (hi u).2]
      simp [Local.all, hp]
    · simp only [upd_other _ _ _ _ hu]; exact hi u
  | nil =>
    rw [hp] at h; simp only at h
    cases hs : Mutex.step sys lock C.m t with
    | none => rw [hs] at h; cases h
    | some m' =>
      rw [hs] at h; simp only at h
      cases hr : returning C.m t with
      | none =>
        rw [hr] at h; simp only [Option.some.injEq] at h; subst h
        intro u; simp only; rw [step_log_of_returning_none lock C.m m' t hs hr]; exact hi u
      | some x =>
        obtain ⟨op, r⟩ := x
        rw [hr] at h; simp only [Option.some.injEq] at h; subst h
        intro u
        simp only
        rw [step_log_of_returning_some lock C.m m' t op r hs hr, logLocal_snoc]
        by_cases hu : u = t
        · subst hu
          simp only [upd_same]
          have e : C.loc u = flush (logLocal pan nid (fun _ => {}) C.m.log u) := by
            have h1 := (hi u).1
            have h2 := (hi u).2
            simp only [Local.all, hp, List.append_nil] at h2
            cases hl : C.loc u with
            | mk en pending made =>
              rw [hl] at h1 h2 hp
              simp only at h1 h2 hp
              simp [flush, h1, h2, hp]
          rw [e]; exact ⟨rfl, rfl⟩
        · simp only [upd_other _ _ _ _ hu]; exact hi u

theorem localInv_exec (sch : List Nat) (C C' : Conf) (hi : LocalInv pan nid C)
    (h : cexec pan nid lock C sch = some C') : LocalInv pan nid C' := by
  induction sch generalizing C with
  | nil => simp only [cexec, Option.some.injEq] at h; subst h; exact hi
  | cons t ts ih =>
    simp only [cexec] at h
    cases hs : cstep pan nid lock C t with
    | none => rw [hs] at h; cases h
    | some C1 => rw [hs] at h; exact ih C1 (localInv_step pan nid lock C C1 t hi hs) h

/-! ### callback steps are local -/

theorem upd_comm {α : Type} (f : Nat → α) (t u : Nat) (a b : α) (h : t ≠ u) :
    upd (upd f t a) u b = upd (upd f u b) t a := by
  funext i; unfold upd
  by_cases h1 : i = u
  · subst h1
    have : ¬ i = t := fun e => h e.symm
    simp [this]
  · simp [h1]

/-- a callback step: defined whenever the local snapshot is not exhausted, whatever the rest of the system looks like;
    it leaves the bracket machine (shared state, lock word, every goroutine's bracket) and every other goroutine's local
    data untouched, and its effect on the goroutine's own data is a function of those data alone -/
theorem callback_step_local (C : Conf) (t : Nat) (e : Event) (rest : List Event) (hp : (C.loc t).pending = e :: rest) :
    cstep pan nid lock C t =
      some { C with loc := upd C.loc t { (C.loc t) with pending := rest, made := (C.loc t).made ++ [e] } } := by
  unfold cstep; rw [hp]

/-- a callback step of goroutine `t` commutes with ANY step of any other goroutine `u` -/
theorem callback_commutes (C : Conf) (t u : Nat) (htu : t ≠ u) (hp : (C.loc t).pending ≠ []) :
    (cstep pan nid lock C t).bind (fun C1 => cstep pan nid lock C1 u) =
    (cstep pan nid lock C u).bind (fun C1 => cstep pan nid lock C1 t) := by
  cases hpt : (C.loc t).pending with
  | nil => exact absurd hpt hp
  | cons e rest =>
    have hut : u ≠ t := fun e => htu e.symm
    rw [callback_step_local pan nid lock C t e rest hpt]
    simp only [Option.bind_some]
    -- the step of u, from C and from C after t's callback
    unfold cstep
    simp only [upd_other _ _ _ _ hut]
    cases hpu : (C.loc u).pending with
    | cons e' rest' =>
      simp only [Option.bind_some, upd_other _ _ _ _ htu, hpt, upd_same]
      rw [upd_comm _ t u _ _ htu]
    | nil =>
      simp only
      cases hs : Mutex.step sys lock C.m u with
      | none => simp
      | some m' =>
        simp only
        cases hr : returning C.m u with
        | none => simp only [Option.bind_some, hpt]
        | some x =>
          obtain ⟨op, r⟩ := x
          simp only [Option.bind_some, upd_other _ _ _ _ htu, hpt]
          rw [upd_comm _ t u _ _ htu]

/-! ### the invariant of the registry along the one-at-a-time execution -/

/-- the copy handed to the destination half of `RegisterFromNotifier` is a consistent registry (it is: it was copied
    inside a bracket of the source notifier, `opOk_copyOut`) -/
def OpOk : ROp → Prop
  | .mergeIn p nm b => Inv (ofMaps p nm b)
  | _ => True

theorem opOk_copyOut (s : NSt) (h : Inv s) : Inv (ofMaps s.prod s.names s.batch) :=
  ⟨h.prodKeys, h.sets, h.nameKeys, h.consistent, h.nonempty, h.batchIff, h.batchNodup, fun _ => rfl⟩

/-- the two halves of `RegisterFromNotifier` compose to the sequential `mergeFrom` -/
theorem mergeIn_copyOut (s o : NSt) : (rrun (.mergeIn o.prod o.names o.batch) s).2 = mergeFrom s o := rfl

/-- brackets taken with `RLock` do not write -/
theorem rrun_read_pure (s : NSt) (raw : List Nat) :
    (rrun .enabledQ s).2 = s ∧ (rrun .levelQ s).2 = s ∧ (rrun (.collect raw) s).2 = s ∧ (rrun .copyOut s).2 = s :=
  ⟨rfl, rfl, rfl, rfl⟩

theorem inv_rrun (op : ROp) (s : NSt) (h : Inv s) (ho : OpOk op) : Inv (rrun op s).2 := by
  cases op with
  | register t p raws => exact inv_register s h t p raws
  | unregister t => exact inv_unregister s h t
  | setEnabled b => exact inv_setEnabled s h b
  | reset => exact inv_reset s
  | enabledQ => exact h
  | levelQ => exact h
  | startSnap => exact inv_startBatch s h
  | endSnap => exact inv_endBatch s h
  | collect raw => exact h
  | copyOut => exact h
  | mergeIn p nm b => exact inv_mergeFrom s _ h ho

theorem inv_seqExec (acq : List (Nat × ROp)) (s : NSt) (h : Inv s) (ho : ∀ x ∈ acq, OpOk x.2) :
    Inv (seqExec rrun s acq).2 := by
  induction acq generalizing s with
  | nil => exact h
  | cons x l ih =>
    obtain ⟨t, op⟩ := x
    simp only [seqExec]
    exact ih _ (inv_rrun op s h (ho (t, op) (by simp))) (fun y hy => ho y (List.mem_cons_of_mem _ hy))

theorem mem_opsOf (t : Nat) (op : ROp) (l : List (Nat × ROp)) (h : (t, op) ∈ l) : op ∈ opsOf t l := by
  unfold opsOf
  exact List.mem_map.mpr ⟨(t, op), List.mem_filter.mpr ⟨h, by simp⟩, rfl⟩

/-! ### the one-at-a-time reference, taken apart -/

theorem seqExec_append (run : ROp → NSt → RRes × NSt) (s : NSt) (a b : List (Nat × ROp)) :
    (seqExec run s (a ++ b)).2 = (seqExec run (seqExec run s a).2 b).2 := by
  induction a generalizing s with
  | nil => rfl
  | cons x l ih => obtain ⟨t, op⟩ := x; simp only [List.cons_append, seqExec]; exact ih _

theorem seqLocal_append (L : Nat → Local) (s : NSt) (a b : List (Nat × ROp)) :
    seqLocal pan nid L s (a ++ b) = seqLocal pan nid (seqLocal pan nid L s a) (seqExec rrun s a).2 b := by
  induction a generalizing L s with
  | nil => rfl
  | cons x l ih => obtain ⟨t, op⟩ := x; simp only [List.cons_append, seqLocal, seqExec]; exact ih _ _

/-- brackets of other goroutines do not touch the local data of `t` -/
theorem seqLocal_other (L : Nat → Local) (s : NSt) (l : List (Nat × ROp)) (t : Nat) (h : ∀ x ∈ l, x.1 ≠ t) :
    seqLocal pan nid L s l t = L t := by
  induction l generalizing L s with
  | nil => rfl
  | cons x l ih =>
    obtain ⟨u, op⟩ := x
    simp only [seqLocal]
    rw [ih _ _ (fun y hy => h y (List.mem_cons_of_mem _ hy))]
    have : t ≠ u := fun e => h (u, op) (by simp) e.symm
    exact upd_other _ _ _ _ this

theorem onReturn_made (l : Local) (op : ROp) (r : RRes) : (onReturn pan nid l op r).made = l.made := by
  cases op <;> cases r <;> rfl

theorem onReturn_flush_all (l : Local) (op : ROp) (r : RRes) :
    (onReturn pan nid (flush l) op r).all = l.all ++ (onReturn pan nid (flush l) op r).pending := by
  simp only [Local.all, onReturn_made]; rfl

/-- the callback list of a goroutine only grows -/
theorem seqLocal_all_ext (L : Nat → Local) (s : NSt) (l : List (Nat × ROp)) (t : Nat) :
    ∃ ext, (seqLocal pan nid L s l t).all = (L t).all ++ ext := by
  induction l generalizing L s with
  | nil => exact ⟨[], by simp [seqLocal]⟩
  | cons x l ih =>
    obtain ⟨u, op⟩ := x
    simp only [seqLocal]
    obtain ⟨ext, he⟩ := ih (upd L u (onReturn pan nid (flush (L u)) op (rrun op s).1)) (rrun op s).2
    by_cases hu : t = u
    · subst hu
      rw [upd_same, onReturn_flush_all] at he
      exact ⟨(onReturn pan nid (flush (L t)) op (rrun op s).1).pending ++ ext, by rw [he, List.append_assoc]⟩
    · rw [upd_other _ _ _ _ hu] at he; exact ⟨ext, he⟩

/-- sorting the collected table is the delivery list of the sequential model -/
theorem sortTbl_collectTbl (s : NSt) (raw : List Nat) : sortTbl (collectTbl s raw) = notify s raw := by
  unfold sortTbl collectTbl notify
  by_cases he : s.enabled = true
  · simp only [he, if_true, Bool.not_true, Bool.false_eq_true, if_false]
    by_cases hn : normalize raw = []
    · simp [hn, prefixes, gather]
    · simp only [hn, if_false]; rfl
  · have : s.enabled = false := by cases hb : s.enabled <;> simp_all
    simp [this]

/-- **the callbacks of one `Notify`**: if goroutine `t`'s two brackets of a `Notify(raw)` are linearized at positions
    `pre₁` (the `Enabled()` check) and `pre₁ ++ _ :: mid` (the collection), with anything of other goroutines in between,
    then in the one-at-a-time execution `t`'s callback list is `before ++ snapshot ++ after` where the snapshot is
    the delivery of the sequential model at ONE registry state `sL` of that execution — the state at the collection if the
    check saw the notifier enabled, the state at the check otherwise -/
theorem seqLocal_notify (s₀ : NSt) (pre₁ mid post : List (Nat × ROp)) (t : Nat) (raw : List Nat)
    (hmid : ∀ x ∈ mid, x.1 ≠ t) :
    let s₁ := (seqExec rrun s₀ pre₁).2
    let s₂ := (seqExec rrun s₁ mid).2
    let sL := if s₁.enabled then s₂ else s₁
    ∃ after, (seqLocal pan nid (fun _ => {}) s₀ (pre₁ ++ (t, .enabledQ) :: (mid ++ (t, .collect raw) :: post)) t).all =
      (seqLocal pan nid (fun _ => {}) s₀ pre₁ t).all ++ deliverAll pan nid (normalize raw) (notify sL raw) ++ after := by
  intro s₁ s₂ sL
  rw [seqLocal_append]
  simp only [seqLocal]
  rw [seqLocal_append]
  simp only [seqLocal]
  generalize hL1 : seqLocal pan nid (fun _ => {}) s₀ pre₁ = L1
  -- after the Enabled() bracket
  have hs1 : (rrun .enabledQ (seqExec rrun s₀ pre₁).2).2 = s₁ := rfl
  rw [hs1]
  generalize hL2 : upd L1 t (onReturn pan nid (flush (L1 t)) .enabledQ (rrun .enabledQ s₁).1) = L2
  have hL2t : L2 t = { flush (L1 t) with en := s₁.enabled } := by rw [← hL2, upd_same]; rfl
  -- the brackets of the others
  have hL3 : seqLocal pan nid L2 s₁ mid t = L2 t := seqLocal_other pan nid L2 s₁ mid t hmid
  rw [hL3]
  have hs2 : (rrun (.collect raw) (seqExec rrun s₁ mid).2).2 = s₂ := rfl
  rw [hs2]
  obtain ⟨ext, he⟩ := seqLocal_all_ext pan nid
    (upd (seqLocal pan nid L2 s₁ mid) t (onReturn pan nid (flush (L2 t)) (.collect raw) (rrun (.collect raw) s₂).1)) s₂ post t
  refine ⟨ext, ?_⟩
  show (seqLocal pan nid (upd (seqLocal pan nid L2 s₁ mid) t
      (onReturn pan nid (flush (L2 t)) (.collect raw) (rrun (.collect raw) s₂).1)) s₂ post t).all = _
  rw [he, upd_same, onReturn_flush_all]
  have hall : (L2 t).all = (L1 t).all := by rw [hL2t]; simp [Local.all, flush]
  have hen : (flush (L2 t)).en = s₁.enabled := by rw [hL2t]; rfl
  have hpend : (onReturn pan nid (flush (L2 t)) (.collect raw) (rrun (.collect raw) s₂).1).pending =
      deliverAll pan nid (normalize raw) (notify sL raw) := by
    show (if (flush (L2 t)).en = true then deliverAll pan nid (normalize raw) (sortTbl (collectTbl s₂ raw)) else []) = _
    rw [hen, sortTbl_collectTbl]
    by_cases h1 : s₁.enabled = true
    · simp [sL, h1]
    · have h1' : s₁.enabled = false := by cases hb : s₁.enabled <;> simp_all
      simp [sL, h1', notify, deliverAll]
  rw [hall, hpend]

/-- the callbacks of any one bracket of goroutine `t`, in the one-at-a-time execution: what the local code installs for
    the result the bracket returns at its position -/
theorem seqLocal_bracket (s₀ : NSt) (pre post : List (Nat × ROp)) (t : Nat) (op : ROp) :
    let s := (seqExec rrun s₀ pre).2
    let lt := seqLocal pan nid (fun _ => {}) s₀ pre t
    ∃ after, (seqLocal pan nid (fun _ => {}) s₀ (pre ++ (t, op) :: post) t).all =
      lt.all ++ (onReturn pan nid (flush lt) op (rrun op s).1).pending ++ after := by
  intro s lt
  rw [seqLocal_append]
  simp only [seqLocal]
  obtain ⟨ext, he⟩ := seqLocal_all_ext pan nid
    (upd (seqLocal pan nid (fun _ => {}) s₀ pre) t (onReturn pan nid (flush lt) op (rrun op s).1)) (rrun op s).2 post t
  refine ⟨ext, ?_⟩
  show (seqLocal pan nid (upd (seqLocal pan nid (fun _ => {}) s₀ pre) t
      (onReturn pan nid (flush lt) op (rrun op s).1)) (rrun op s).2 post t).all = _
  rw [he, upd_same, onReturn_flush_all]

/-! ### the counter-example without the mutex (used by `C17.unlocked_not_linearizable`) -/

/-- the goroutines of the counter-example: 0 calls `Register(t5, 1, "a", "b")`, 1 calls `Unregister(t5)` -/
def raceProgs : Nat → List ROp := fun t =>
  if t = 0 then [.register 5 1 [[97], [98]]] else if t = 1 then [.unregister 5] else []

/-- goroutine 1 runs its whole `Unregister` between the two iterations of goroutine 0's `Register` loop -/
def raceSchedule : List Nat := [0, 0, 0, 1, 1, 1, 1, 1, 0, 0, 0]

/-- what one can see of the registry: is t5 registered for "a", for "b", has it a name-map entry -/
def raceObs (s : NSt) : Option Int × Option Int × Bool :=
  (lookup s.prod [[97]] 5, lookup s.prod [[98]] 5, (assocGet s.names 5).isSome)

/-! ### the readers-writer lock: read brackets do not write (premise of `RW.linearizable`) -/

/-- the control states of the read brackets (`Enabled`, `BatchLevel`, the ancestor walk) -/
def ROk : PC → Prop
  | .start op => isRead op = true
  | .collectLoop _ _ => True
  | .ret _ => True
  | _ => False

theorem readOnly_sys : RW.ReadOnly sys isRead ROk where
  start := fun _ h => h
  step := fun k s hk => by
    cases k with
    | start op =>
      cases op <;> simp only [ROk, isRead, Bool.false_eq_true] at hk
      · exact ⟨rfl, trivial⟩
      · exact ⟨rfl, trivial⟩
      · show (micro (.start (.collect _)) s).2 = s ∧ ROk (micro (.start (.collect _)) s).1
        simp only [micro]
        split <;> exact ⟨rfl, trivial⟩
    | collectLoop rest acc => cases rest <;> exact ⟨rfl, trivial⟩
    | ret r => exact ⟨rfl, trivial⟩
    | regLoop _ _ _ => exact hk.elim
    | unregLoop _ _ => exact hk.elim

/-- two goroutines notify "a" while a third registers: used by `C17.readers_overlap` -/
def rwProgs : Nat → List ROp := fun t =>
  if t = 0 then [.collect [97]] else if t = 1 then [.collect [97]] else if t = 2 then [.register 5 1 [[97]]] else []

/-- the classification that wrongly puts `Register` / `Unregister` under the read half -/
def isReadWrong : ROp → Bool := fun _ => true

end NtC
