import Model.NotifierConc
import Lemmas.MutexLin
import Lemmas.NotifierDelivery
/-! C17, concurrent use: the micro-steps of every bracket compute the sequential reference `rrun`; every schedule of the
    interleaved machine projects to a schedule of the bracket machine; the goroutine-local callback lists are those of
    the one-at-a-time execution; callback steps commute with everything. -/
namespace NtC
open Nt Mutex

/-! ### the micro-steps compute `rrun` -/

theorem runs_ret (r : RRes) (s : NSt) : Runs sys (.ret r) s r s := Runs.fin rfl

theorem runs_regLoop (t : Nat) (p : Int) (rest : List Name) (s : NSt) :
    Runs sys (.regLoop t p rest) s .unit (rest.foldl (regStep t p) s) := by
  induction rest generalizing s with
  | nil => exact Runs.step rfl (runs_ret _ _)
  | cons n rest ih => exact Runs.step rfl (ih (regStep t p s n))

theorem runs_unregLoop (t : Nat) (rest : List Name) (s : NSt) :
    Runs sys (.unregLoop t rest) s .unit
      { s with prod := rest.foldl (unregStep t) s.prod, names := assocDel s.names t } := by
  induction rest generalizing s with
  | nil => exact Runs.step rfl (runs_ret _ _)
  | cons n rest ih => exact Runs.step rfl (ih { s with prod := unregStep t s.prod n })

theorem runs_collectLoop (rest : List Name) (acc : List (Nat × Int)) (s : NSt) :
    Runs sys (.collectLoop rest acc) s (.table (rest.foldl (gatherStep s.prod) acc)) s := by
  induction rest generalizing acc with
  | nil => exact Runs.step rfl (runs_ret _ _)
  | cons pre rest ih => exact Runs.step rfl (ih (gatherStep s.prod acc pre))

/-- every bracket, run micro-step by micro-step, returns what the sequential model returns and leaves the state the
    sequential model leaves -/
theorem runs_op (op : ROp) (s : NSt) : Runs sys (sys.start op) s (rrun op s).1 (rrun op s).2 := by
  cases op with
  | register t p raws =>
    refine Runs.step rfl ?_
    show Runs sys (micro (.start (.register t p raws)) s).1 (micro (.start (.register t p raws)) s).2 _ _
    simp only [micro, rrun, register]
    by_cases h : normNames raws = []
    · simp only [h, if_true]; exact runs_ret _ _
    · simp only [h, if_false]; exact runs_regLoop _ _ _ _
  | unregister t =>
    refine Runs.step rfl ?_
    show Runs sys (micro (.start (.unregister t)) s).1 (micro (.start (.unregister t)) s).2 _ _
    simp only [micro, rrun, unregister]
    cases hg : assocGet s.names t with
    | none => exact runs_ret _ _
    | some ns => exact runs_unregLoop t ns _
  | collect raw =>
    refine Runs.step rfl ?_
    show Runs sys (micro (.start (.collect raw)) s).1 (micro (.start (.collect raw)) s).2 _ _
    simp only [micro, rrun, collectTbl]
    by_cases h : s.enabled = true
    · simp only [h, if_true]; exact runs_collectLoop _ _ _
    · simp only [h, if_false]; exact runs_ret _ _
  | setEnabled b => exact Runs.step rfl (runs_ret _ _)
  | reset => exact Runs.step rfl (runs_ret _ _)
  | enabledQ => exact Runs.step rfl (runs_ret _ _)
  | levelQ => exact Runs.step rfl (runs_ret _ _)
  | startSnap => exact Runs.step rfl (runs_ret _ _)
  | endSnap => exact Runs.step rfl (runs_ret _ _)
  | copyOut => exact Runs.step rfl (runs_ret _ _)
  | mergeIn p nm b => exact Runs.step rfl (runs_ret _ _)

/-! ### projection to the bracket machine -/

variable (pan : Nat → Bool) (nid : Nat) (lock : Bool)

/-- a step of the interleaved machine is either a callback (the bracket machine does not move) or a step of the bracket
    machine -/
theorem cstep_m (C C' : Conf) (t : Nat) (h : cstep pan nid lock C t = some C') :
    ((C.loc t).pending ≠ [] ∧ C'.m = C.m) ∨ ((C.loc t).pending = [] ∧ Mutex.step sys lock C.m t = some C'.m) := by
  unfold cstep at h
  cases hp : (C.loc t).pending with
  | cons e rest =>
    rw [hp] at h; simp only [Option.some.injEq] at h; subst h
    exact Or.inl ⟨by simp, rfl⟩
  | nil =>
    rw [hp] at h; simp only at h
    cases hs : Mutex.step sys lock C.m t with
    | none => rw [hs] at h; cases h
    | some m' =>
      rw [hs] at h; simp only at h
      right; refine ⟨rfl, ?_⟩
      cases hr : returning C.m t with
      | none => rw [hr] at h; simp only [Option.some.injEq] at h; subst h; rfl
      | some x => rw [hr] at h; simp only [Option.some.injEq] at h; subst h; rfl

/-- every schedule of the interleaved machine contains a schedule of the bracket machine between the same bracket
    configurations (the callback steps removed) -/
theorem cexec_proj (sch : List Nat) (C C' : Conf) (h : cexec pan nid lock C sch = some C') :
    ∃ sch', sch'.Sublist sch ∧ Mutex.exec sys lock C.m sch' = some C'.m := by
  induction sch generalizing C with
  | nil => simp only [cexec, Option.some.injEq] at h; subst h; exact ⟨[], List.Sublist.refl _, rfl⟩
  | cons t ts ih =>
    simp only [cexec] at h
    cases hs : cstep pan nid lock C t with
    | none => rw [hs] at h; cases h
    | some C1 =>
      rw [hs] at h; simp only at h
      obtain ⟨sch', hsub, he⟩ := ih C1 h
      rcases cstep_m pan nid lock C C1 t hs with ⟨_, hm⟩ | ⟨_, hm⟩
      · exact ⟨sch', List.Sublist.cons _ hsub, by rw [← hm]; exact he⟩
      · exact ⟨t :: sch', List.Sublist.cons₂ _ hsub, by simp only [Mutex.exec, hm]; exact he⟩

/-! ### the goroutine-local data are those of the one-at-a-time execution -/

/-- the local code replayed over a log of finished brackets -/
def logLocal : (Nat → Local) → List (Nat × ROp × RRes) → (Nat → Local)
  | L, [] => L
  | L, (t, op, r) :: l => logLocal (upd L t (onReturn pan nid (flush (L t)) op r)) l

theorem logLocal_snoc (L : Nat → Local) (l : List (Nat × ROp × RRes)) (t : Nat) (op : ROp) (r : RRes) :
    logLocal pan nid L (l ++ [(t, op, r)]) =
      upd (logLocal pan nid L l) t (onReturn pan nid (flush (logLocal pan nid L l t)) op r) := by
  induction l generalizing L with
  | nil => rfl
  | cons x l ih => obtain ⟨t', op', r'⟩ := x; simp only [List.cons_append, logLocal]; exact ih _

/-- replaying the log of the sequential execution is the sequential reference `seqLocal` -/
theorem logLocal_seqExec (acq : List (Nat × ROp)) (L : Nat → Local) (s : NSt) :
    logLocal pan nid L (seqExec rrun s acq).1 = seqLocal pan nid L s acq := by
  induction acq generalizing L s with
  | nil => rfl
  | cons x l ih => obtain ⟨t, op⟩ := x; simp only [seqExec, logLocal, seqLocal]; exact ih _ _

/-- the link between the goroutine-local data and the log of finished brackets -/
def LocalInv (C : Conf) : Prop :=
  ∀ t, (C.loc t).en = (logLocal pan nid (fun _ => {}) C.m.log t).en ∧
       (C.loc t).all = (logLocal pan nid (fun _ => {}) C.m.log t).all

theorem step_log_of_returning_none (m m' : Mutex.Config NSt ROp PC RRes) (t : Nat)
    (hs : Mutex.step sys lock m t = some m') (hr : returning m t = none) : m'.log = m.log := by
  unfold Mutex.step at hs
  cases hcur : (m.threads t).cur with
  | none =>
    rw [hcur] at hs; simp only at hs
    cases htodo : (m.threads t).todo with
    | nil => rw [htodo] at hs; cases hs
    | cons op rest =>
      rw [htodo] at hs; simp only at hs
      split at hs
      · cases hs
      · simp only [Option.some.injEq] at hs; subst hs; rfl
  | some ok =>
    obtain ⟨op, k⟩ := ok
    rw [hcur] at hs; simp only at hs
    cases k with
    | ret r => simp [returning, hcur] at hr
    | start op' => simp only [sys, Option.some.injEq] at hs; subst hs; rfl
    | regLoop a b c => simp only [sys, Option.some.injEq] at hs; subst hs; rfl
    | unregLoop a b => simp only [sys, Option.some.injEq] at hs; subst hs; rfl
    | collectLoop a b => simp only [sys, Option.some.injEq] at hs; subst hs; rfl

theorem step_log_of_returning_some (m m' : Mutex.Config NSt ROp PC RRes) (t : Nat) (op : ROp) (r : RRes)
    (hs : Mutex.step sys lock m t = some m') (hr : returning m t = some (op, r)) : m'.log = m.log ++ [(t, op, r)] := by
  unfold Mutex.step at hs
  cases hcur : (m.threads t).cur with
  | none => simp [returning, hcur] at hr
  | some ok =>
    obtain ⟨op', k⟩ := ok
    rw [hcur] at hs; simp only at hs
    cases k with
    | ret r' =>
      simp only [returning, hcur, Option.some.injEq, Prod.mk.injEq] at hr
      obtain ⟨rfl, rfl⟩ := hr
      simp only [sys, Option.some.injEq] at hs; subst hs; rfl
    | start op' => simp [returning, hcur] at hr
    | regLoop a b c => simp [returning, hcur] at hr
    | unregLoop a b => simp [returning, hcur] at hr
    | collectLoop a b => simp [returning, hcur] at hr

theorem localInv_init (s₀ : NSt) (progs : Nat → List ROp) : LocalInv pan nid (cinit s₀ progs) := by
  intro t; simp [cinit, Mutex.init, logLocal]

theorem localInv_step (C C' : Conf) (t : Nat) (hi : LocalInv pan nid C) (h : cstep pan nid lock C t = some C') :
    LocalInv pan nid C' := by
  unfold cstep at h
  cases hp : (C.loc t).pending with
  | cons e rest =>
    rw [hp] at h; simp only [Option.some.injEq] at h; subst h
    intro u
    by_cases hu : u = t
    · subst hu
      simp only [upd_same]
      refine ⟨(hi u).1, ?_⟩
      rw [← (hi u).2]
      simp [Local.all, hp]
    · simp only [upd_other _ _ _ _ hu]; exact hi u
  | nil =>
    rw [hp] at h; simp only at h
    cases hs : Mutex.step sys lock C.m t with
    | none => rw [hs] at h; cases h
    | some m' =>
      rw [hs] at h; simp only at h
      cases hr : returning C.m t with
      | none =>
        rw [hr] at h; simp only [Option.some.injEq] at h; subst h
        intro u; simp only; rw [step_log_of_returning_none lock C.m m' t hs hr]; exact hi u
      | some x =>
        obtain ⟨op, r⟩ := x
        rw [hr] at h; simp only [Option.some.injEq] at h; subst h
        intro u
        simp only
        rw [step_log_of_returning_some lock C.m m' t op r hs hr, logLocal_snoc]
        by_cases hu : u = t
        · subst hu
          simp only [upd_same]
          have e : C.loc u = flush (logLocal pan nid (fun _ => {}) C.m.log u) := by
            have h1 := (hi u).1
            have h2 := (hi u).2
            simp only [Local.all, hp, List.append_nil] at h2
            cases hl : C.loc u with
            | mk en pending made =>
              rw [hl] at h1 h2 hp
              simp only at h1 h2 hp
              simp [flush, h1, h2, hp]
          rw [e]; exact ⟨rfl, rfl⟩
        · simp only [upd_other _ _ _ _ hu]; exact hi u

theorem localInv_exec (sch : List Nat) (C C' : Conf) (hi : LocalInv pan nid C)
    (h : cexec pan nid lock C sch = some C') : LocalInv pan nid C' := by
  induction sch generalizing C with
  | nil => simp only [cexec, Option.some.injEq] at h; subst h; exact hi
  | cons t ts ih =>
    simp only [cexec] at h
    cases hs : cstep pan nid lock C t with
    | none => rw [hs] at h; cases h
    | some C1 => rw [hs] at h; exact ih C1 (localInv_step pan nid lock C C1 t hi hs) h

/-! ### callback steps are local -/

theorem upd_comm {α : Type} (f : Nat → α) (t u : Nat) (a b : α) (h : t ≠ u) :
    upd (upd f t a) u b = upd (upd f u b) t a := by
  funext i; unfold upd
  by_cases h1 : i = u
  · subst h1
    have : ¬ i = t := fun e => h e.symm
    simp [this]
  · simp [h1]

/-- a callback step: defined whenever the local snapshot is not exhausted, whatever the rest of the system looks like;
    it leaves the bracket machine (shared state, lock word, every goroutine's bracket) and every other goroutine's local
    data untouched, and its effect on the goroutine's own data is a function of those data alone -/
theorem callback_step_local (C : Conf) (t : Nat) (e : Event) (rest : List Event) (hp : (C.loc t).pending = e :: rest) :
    cstep pan nid lock C t =
      some { C with loc := upd C.loc t { (C.loc t) with pending := rest, made := (C.loc t).made ++ [e] } } := by
  unfold cstep; rw [hp]

/-- a callback step of goroutine `t` commutes with ANY step of any other goroutine `u` -/
theorem callback_commutes (C : Conf) (t u : Nat) (htu : t ≠ u) (hp : (C.loc t).pending ≠ []) :
    (cstep pan nid lock C t).bind (fun C1 => cstep pan nid lock C1 u) =
    (cstep pan nid lock C u).bind (fun C1 => cstep pan nid lock C1 t) := by
  cases hpt : (C.loc t).pending with
  | nil => exact absurd hpt hp
  | cons e rest =>
    have hut : u ≠ t := fun e => htu e.symm
    rw [callback_step_local pan nid lock C t e rest hpt]
    simp only [Option.bind_some]
    -- the step of u, from C and from C after t's callback
    unfold cstep
    simp only [upd_other _ _ _ _ hut]
    cases hpu : (C.loc u).pending with
    | cons e' rest' =>
      simp only [Option.bind_some, upd_other _ _ _ _ htu, hpt, upd_same]
      rw [upd_comm _ t u _ _ htu]
    | nil =>
      simp only
      cases hs : Mutex.step sys lock C.m u with
      | none => simp
      | some m' =>
        simp only
        cases hr : returning C.m u with
        | none => simp only [Option.bind_some, hpt]
        | some x =>
          obtain ⟨op, r⟩ := x
          simp only [Option.bind_some, upd_other _ _ _ _ htu, hpt]
          rw [upd_comm _ t u _ _ htu]

end NtC
