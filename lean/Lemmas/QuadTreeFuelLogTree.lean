import Lemmas.QuadTreeFuelTree
import Lemmas.QuadTreeFuelLog
/-! Lifting the logarithmic depth bound (`Lemmas/QuadTreeFuelLog.lean`) to whole histories, exactly as
    `Lemmas/QuadTreeFuelTree.lean` lifts the `W + H` bound (`QT.InBox`, `QT.union_within`, `QT.fold_union_box` are shared;
    `FInv`, `reorganize_root`, `apply_finv`, `run_finv` are repeated for `QT.LogFuel.Good`). -/
namespace QT
namespace LogFuel
open Geom

structure FInv (box : RI) (t : Tree RI) : Prop where
  root : ∀ r, t.root = some r → Good r ∧ r.rect.empty = false ∧ box.contains r.rect = true
  items : ∀ it ∈ t.all, box.contains it.rect = true

theorem meas_mono (box r : RI) (h : box.contains r = true) : meas r ≤ meas box := by
  rw [Rect.contains_iff_Contains] at h
  obtain ⟨_, _, h1, h2, h3, h4⟩ := h
  simp only [Rect.right, Rect.bottom] at h3 h4
  unfold meas
  have : (max r.w r.h).toNat - 1 ≤ (max box.w box.h).toNat - 1 := by omega
  have := lg_mono _ _ this
  omega

/-- the root that `Reorganize` builds -/
theorem reorganize_root (box : RI) (fuel : Nat) (t : Tree RI) (hitems : ∀ it ∈ t.all, box.contains it.rect = true) :
    ∀ r, (t.reorganize fuel).root = some r → Good r ∧ r.rect.empty = false ∧ box.contains r.rect = true := by
  intro r hr
  unfold Tree.reorganize at hr
  simp only at hr
  split at hr
  · cases hr
  · rename_i hemp
    simp only [Option.some.injEq] at hr
    have hne : t.all ≠ [] := by intro e; rw [e] at hemp; simp at hemp
    have hb := fold_union_box box t.all hitems RectOps.zero (Or.inl lawsInt.zero_empty) (Or.inl hne)
    have hrne : (t.all.foldl (fun (r : RI) (one : Item RI) => RectOps.union r one.rect) RectOps.zero).empty = false := by
      have := (Rect.contains_iff_Contains _ _).mp hb
      exact (Rect.empty_false_iff _).mpr this.2.1
    obtain ⟨a, b⟩ := reorgFold_good (t.all.foldl (fun (r : RI) (one : Item RI) => RectOps.union r one.rect) RectOps.zero) t.thr fuel t.all
      (Node.leaf (t.all.foldl (fun (r : RI) (one : Item RI) => RectOps.union r one.rect) RectOps.zero) [], []) trivial rfl hrne
    subst hr
    exact ⟨a, by rw [b]; exact hrne, by rw [b]; exact hb⟩

theorem apply_finv (bounds : Nat → RI) (box : RI) (fuel : Nat) (t : Tree RI) (h : TInv bounds t) (hf : FInv box t)
    (op : Op RI) (hop : OpOK bounds op) (hbox : InBox box op) : FInv box (t.apply fuel op) := by
  cases op with
  | insert it =>
    simp only [Tree.apply]
    cases he : RectOps.empty it.rect with
    | true =>
      have : t.insert fuel it = t := by simp [Tree.insert, he]
      rw [this]; exact hf
    | false =>
      have hin : box.contains it.rect = true := by
        rcases hbox with hb | hb
        · have he' : it.rect.empty = false := he
          rw [he'] at hb; cases hb
        · exact hb
      obtain ⟨_, hp⟩ := insert_ok bounds fuel t h it hop he
      have hitems : ∀ x ∈ (t.insert fuel it).all, box.contains x.rect = true := by
        intro x hx
        rcases List.mem_cons.mp (hp.subset hx) with e | e
        · subst e; exact hin
        · exact hf.items x e
      refine ⟨?_, hitems⟩
      -- the root
      have hout : ∀ (t1 : Tree RI), t1.root = t.root → t1.outside = t.outside ++ [it] →
          ∀ r, (if t1.outside.length > t1.thr then t1.reorganize fuel else t1).root = some r →
            Good r ∧ r.rect.empty = false ∧ box.contains r.rect = true := by
        intro t1 e1 e2 r hr
        split at hr
        · refine reorganize_root box fuel t1 ?_ r hr
          intro x hx
          rw [all_eq, e1, e2] at hx
          rcases List.mem_append.mp hx with e | e
          · rcases List.mem_append.mp e with e | e
            · exact hf.items x (by rw [all_eq]; exact List.mem_append_left _ e)
            · simp only [List.mem_singleton] at e; subst e; exact hin
          · exact hf.items x (by rw [all_eq]; exact List.mem_append_right _ e)
        · exact hf.root r (e1 ▸ hr)
      unfold Tree.insert
      rw [if_neg (by simp [he])]
      simp only
      cases hroot : t.root with
      | none => simp only; exact hout _ hroot.symm rfl
      | some r0 =>
        simp only
        split
        · intro r hr
          simp only [Option.some.injEq] at hr
          obtain ⟨g, ne, hb⟩ := hf.root r0 hroot
          obtain ⟨a, b⟩ := insert_good t.nodeThr fuel r0 it g ne
          subst hr
          exact ⟨a, by rw [b]; exact ne, by rw [b]; exact hb⟩
        · exact hout _ hroot.symm rfl
  | remove id b =>
    simp only [Tree.apply]
    have hb : b = bounds id := hop
    subst hb
    obtain ⟨_, c⟩ := remove_ok bounds t h id
    have hitems : ∀ x ∈ (t.remove id (bounds id)).all, box.contains x.rect = true := by
      intro x hx
      rcases c with ⟨y, _, hp⟩ | ⟨he, _⟩
      · exact hf.items x (hp.symm.subset (List.mem_cons_of_mem _ hx))
      · rw [he] at hx; exact hf.items x hx
    refine ⟨?_, hitems⟩
    unfold Tree.remove
    cases ho : Node.swapRemove t.outside id with
    | some o' => simp only; exact hf.root
    | none =>
      simp only
      cases hroot : t.root with
      | none => simp only; intro r hr; rw [hroot] at hr; cases hr
      | some r0 =>
        simp only
        cases hr : Node.remove id (bounds id) r0 with
        | some r' =>
          simp only
          intro r hr'
          simp only [Option.some.injEq] at hr'
          obtain ⟨g, ne, hb⟩ := hf.root r0 hroot
          obtain ⟨e1, _, hg⟩ := remove_shape id (bounds id) r0 r' hr
          subst hr'
          exact ⟨hg g, by rw [e1]; exact ne, by rw [e1]; exact hb⟩
        | none =>
          simp only
          intro r hr'; rw [hroot] at hr'; exact hf.root r (by rw [hroot]; exact hr')
  | reorganize =>
    simp only [Tree.apply]
    exact ⟨reorganize_root box fuel t hf.items, fun x hx => hf.items x ((reorganize_perm fuel t).subset hx)⟩
  | clear =>
    simp only [Tree.apply]
    exact ⟨fun r hr => by simp [Tree.clear] at hr, fun x hx => by simp [Tree.clear, Tree.all] at hx⟩
  | setThreshold k =>
    simp only [Tree.apply]
    exact ⟨hf.root, hf.items⟩

theorem run_finv_aux (bounds : Nat → RI) (box : RI) (fuel : Nat) (ops : List (Op RI))
    (hops : ∀ op ∈ ops, OpOK bounds op) (hbox : ∀ op ∈ ops, InBox box op)
    (t : Tree RI) (h : TInv bounds t) (hf : FInv box t) :
    FInv box (ops.foldl (Tree.apply fuel) t) := by
  induction ops generalizing t with
  | nil => exact hf
  | cons op rest ih =>
    simp only [List.foldl_cons]
    exact ih (fun o ho => hops o (by simp [ho])) (fun o ho => hbox o (by simp [ho])) _
      (apply_ok bounds fuel t h op (hops op (by simp))).1
      (apply_finv bounds box fuel t h hf op (hops op (by simp)) (hbox op (by simp)))

theorem run_finv (bounds : Nat → RI) (box : RI) (fuel : Nat) (k : Int) (ops : List (Op RI))
    (hops : ∀ op ∈ ops, OpOK bounds op) (hbox : ∀ op ∈ ops, InBox box op) : FInv box (Tree.run fuel k ops) :=
  run_finv_aux bounds box fuel ops hops hbox _ (empty_inv bounds k)
    ⟨fun r hr => by simp [Tree.empty] at hr, fun x hx => by simp [Tree.empty, Tree.all] at hx⟩


/-! ### the fuel is not an observable: whole histories do not depend on it beyond the logarithmic bound -/

theorem reorgFold_indep (rect : RI) (threshold f f' : Nat) (hne : rect.empty = false) (h1 : meas rect ≤ f)
    (h2 : meas rect ≤ f') (l : List (Item RI)) (s : Node RI × List (Item RI)) (hg : Good s.1) (hr : s.1.rect = rect) :
    l.foldl (Tree.reorgStep rect threshold f) s = l.foldl (Tree.reorgStep rect threshold f') s := by
  induction l generalizing s with
  | nil => rfl
  | cons c t ih =>
    simp only [List.foldl_cons]
    have e : Tree.reorgStep rect threshold f s c = Tree.reorgStep rect threshold f' s c := by
      unfold Tree.reorgStep
      rw [insert_fuel_indep threshold f f' s.1 c hg (by rw [hr]; exact hne) (by rw [hr]; exact h1) (by rw [hr]; exact h2)]
    rw [← e]
    apply ih
    · unfold Tree.reorgStep
      split
      · exact (insert_good threshold f s.1 c hg (by rw [hr]; exact hne)).1
      · exact hg
    · unfold Tree.reorgStep
      split
      · rw [(insert_good threshold f s.1 c hg (by rw [hr]; exact hne)).2]; exact hr
      · exact hr

theorem reorganize_indep (box : RI) (f f' : Nat) (t : Tree RI) (hitems : ∀ it ∈ t.all, box.contains it.rect = true)
    (h1 : meas box ≤ f) (h2 : meas box ≤ f') : t.reorganize f = t.reorganize f' := by
  unfold Tree.reorganize
  simp only
  split
  · rfl
  · rename_i hemp
    have hne : t.all ≠ [] := by intro e; rw [e] at hemp; simp at hemp
    have hb := fold_union_box box t.all hitems RectOps.zero (Or.inl lawsInt.zero_empty) (Or.inl hne)
    have hrne : (t.all.foldl (fun (r : RI) (one : Item RI) => RectOps.union r one.rect) RectOps.zero).empty = false := by
      have := (Rect.contains_iff_Contains _ _).mp hb
      exact (Rect.empty_false_iff _).mpr this.2.1
    have hm := meas_mono box _ hb
    rw [reorgFold_indep _ t.thr f f' hrne (by omega) (by omega) t.all (Node.leaf _ [], []) trivial rfl]

theorem apply_indep (bounds : Nat → RI) (box : RI) (f f' : Nat) (t : Tree RI) (hf : FInv box t)
    (op : Op RI) (hop : OpOK bounds op) (hbox : InBox box op) (h1 : meas box ≤ f) (h2 : meas box ≤ f') :
    t.apply f op = t.apply f' op := by
  cases op with
  | insert it =>
    simp only [Tree.apply]
    cases he : RectOps.empty it.rect with
    | true => simp [Tree.insert, he]
    | false =>
      have hin : box.contains it.rect = true := by
        rcases hbox with hb | hb
        · have he' : it.rect.empty = false := he
          rw [he'] at hb; cases hb
        · exact hb
      have hout : ∀ (t1 : Tree RI), t1.root = t.root → t1.outside = t.outside ++ [it] →
          (if t1.outside.length > t1.thr then t1.reorganize f else t1) =
          (if t1.outside.length > t1.thr then t1.reorganize f' else t1) := by
        intro t1 e1 e2
        split
        · refine reorganize_indep box f f' t1 ?_ h1 h2
          intro x hx
          rw [all_eq, e1, e2] at hx
          rcases List.mem_append.mp hx with e | e
          · rcases List.mem_append.mp e with e | e
            · exact hf.items x (by rw [all_eq]; exact List.mem_append_left _ e)
            · simp only [List.mem_singleton] at e; subst e; exact hin
          · exact hf.items x (by rw [all_eq]; exact List.mem_append_right _ e)
        · rfl
      unfold Tree.insert
      rw [if_neg (by simp [he]), if_neg (by simp [he])]
      simp only
      cases hroot : t.root with
      | none => simp only; exact hout _ hroot.symm rfl
      | some r0 =>
        simp only
        obtain ⟨g, ne, hb⟩ := hf.root r0 hroot
        have hm := meas_mono box _ hb
        rw [insert_fuel_indep t.nodeThr f f' r0 it g ne (by omega) (by omega)]
        split
        · rfl
        · exact hout _ hroot.symm rfl
  | remove id b => rfl
  | reorganize => exact reorganize_indep box f f' t hf.items h1 h2
  | clear => rfl
  | setThreshold k => rfl

/-- **whole histories do not depend on the fuel**: inside a box, any two fuels of at least the logarithmic measure of
    the box build the same tree -/
theorem run_indep (bounds : Nat → RI) (box : RI) (f f' : Nat) (k : Int) (ops : List (Op RI))
    (hops : ∀ op ∈ ops, OpOK bounds op) (hbox : ∀ op ∈ ops, InBox box op) (h1 : meas box ≤ f) (h2 : meas box ≤ f') :
    Tree.run f k ops = Tree.run f' k ops := by
  have aux : ∀ (ops : List (Op RI)) (t : Tree RI), (∀ op ∈ ops, OpOK bounds op) → (∀ op ∈ ops, InBox box op) →
      TInv bounds t → FInv box t → ops.foldl (Tree.apply f) t = ops.foldl (Tree.apply f') t := by
    intro ops
    induction ops with
    | nil => intros; rfl
    | cons op rest ih =>
      intro t ho hb ht hf
      simp only [List.foldl_cons]
      rw [← apply_indep bounds box f f' t hf op (ho op (by simp)) (hb op (by simp)) h1 h2]
      exact ih _ (fun o h => ho o (by simp [h])) (fun o h => hb o (by simp [h]))
        (apply_ok bounds f t ht op (ho op (by simp))).1
        (apply_finv bounds box f t ht hf op (ho op (by simp)) (hb op (by simp)))
  exact aux ops _ hops hbox (empty_inv bounds k)
    ⟨fun r hr => by simp [Tree.empty] at hr, fun x hx => by simp [Tree.empty, Tree.all] at hx⟩

end LogFuel
end QT
