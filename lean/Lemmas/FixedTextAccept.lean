import Lemmas.FixedTextLiteralAll
/-! C04 helper lemmas, part 11: the anatomy of EVERY text the plain branch of `FromString` accepts — sign, digits,
    optionally '.' and at most `p` fraction digits that count, then bytes that are ignored — and the value returned for it. -/
namespace FixedText

theorem splitDot_recon : ∀ t : Str,
    t = (splitDot t).1 ++ (match (splitDot t).2 with | none => [] | some q => 46 :: q)
  | [] => by simp [splitDot]
  | c :: t => by
    by_cases h : c = 46
    · subst h; simp [splitDot]
    · have ih := splitDot_recon t
      simp only [splitDot, if_neg h]
      rw [List.cons_append, ← ih]

theorem parseUnsigned_inv (ds : Str) (n : Nat) (h : parseUnsigned ds = some n) :
    ds ≠ [] ∧ (∀ c ∈ ds, isDigit c = true) ∧ n = parseDigits ds := by
  unfold parseUnsigned at h
  split at h
  · cases h
  · rename_i hc
    have hc' : ds ≠ [] ∧ ds.all isDigit = true := by
      constructor
      · intro h0; exact hc (Or.inl h0)
      · cases hh : ds.all isDigit with
        | true => rfl
        | false => exact absurd (Or.inr hh) hc
    refine ⟨hc'.1, ?_, (Option.some.inj h).symm⟩
    have := hc'.2
    rw [List.all_eq_true] at this
    exact this

/-- what `parseSigned` accepts: an optional sign and at least one digit -/
theorem parseSigned_inv (s : Str) (z : Int) (h : parseSigned s = some z) :
    ∃ (sg : Sign) (ds : Str), s = sg.bytes ++ ds ∧ ds ≠ [] ∧ (∀ c ∈ ds, isDigit c = true) ∧
      z = (if sg = .minus then -(parseDigits ds : Int) else (parseDigits ds : Int)) := by
  cases s with
  | nil =>
    have h' : (parseUnsigned []).map (fun n => (n : Int)) = some z := h
    simp [parseUnsigned] at h'
  | cons c t =>
    by_cases h45 : c = 45
    · subst h45
      have h' : (parseUnsigned t).map (fun n => -(n : Int)) = some z := h
      cases hu : parseUnsigned t with
      | none => rw [hu] at h'; cases h'
      | some n =>
        rw [hu] at h'
        obtain ⟨h1, h2, h3⟩ := parseUnsigned_inv t n hu
        refine ⟨.minus, t, rfl, h1, h2, ?_⟩
        have h'' : -(n : Int) = z := Option.some.inj h'
        rw [← h'', h3]; rfl
    · by_cases h43 : c = 43
      · subst h43
        have h' : (parseUnsigned t).map (fun n => (n : Int)) = some z := h
        cases hu : parseUnsigned t with
        | none => rw [hu] at h'; cases h'
        | some n =>
          rw [hu] at h'
          obtain ⟨h1, h2, h3⟩ := parseUnsigned_inv t n hu
          refine ⟨.plus, t, rfl, h1, h2, ?_⟩
          have h'' : (n : Int) = z := Option.some.inj h'
          rw [← h'', h3]; rfl
      · have h' : (parseUnsigned (c :: t)).map (fun n => (n : Int)) = some z := by
          unfold parseSigned at h
          split at h
          · rename_i heq; cases heq; exact absurd rfl h45
          · rename_i heq; cases heq; exact absurd rfl h43
          · exact h
        cases hu : parseUnsigned (c :: t) with
        | none => rw [hu] at h'; cases h'
        | some n =>
          rw [hu] at h'
          obtain ⟨h1, h2, h3⟩ := parseUnsigned_inv (c :: t) n hu
          refine ⟨.none, c :: t, rfl, h1, h2, ?_⟩
          have h'' : (n : Int) = z := Option.some.inj h'
          rw [← h'', h3]; rfl

/-- the `switch parts[0]` of f128, read backwards: sign bytes ++ digits (possibly none), the scaled magnitude, the flag -/
theorem head128_inv (m : Int) (p0 : Str) (value : Int) (neg : Bool) (h : head128 m p0 = some (value, neg)) :
    ∃ (sg : Sign) (ip : Str), p0 = sg.bytes ++ ip ∧ (∀ c ∈ ip, isDigit c = true) ∧
      value = (parseDigits ip : Int) * m ∧ neg = decide (sg = .minus) := by
  unfold head128 at h
  split at h
  · rename_i hc
    cases h
    rcases hc with hc | hc
    · exact ⟨.none, [], by simp [hc, Sign.bytes], by simp, by simp [parseDigits], rfl⟩
    · exact ⟨.plus, [], by simp [hc, Sign.bytes], by simp, by simp [parseDigits], rfl⟩
  · split at h
    · rename_i hc
      cases h
      rcases hc with hc | hc
      · exact ⟨.minus, [], by simp [hc, Sign.bytes], by simp, by simp [parseDigits], rfl⟩
      · exact ⟨.minus, [48], by simp [hc, Sign.bytes], by decide, by simp [parseDigits], rfl⟩
    · split at h
      · cases h
      · rename_i z hz
        obtain ⟨sg, ds, hp0, hne, hd, hzv⟩ := parseSigned_inv p0 z hz
        refine ⟨sg, ds, hp0, hd, ?_⟩
        by_cases hs : sg = .minus
        · subst hs
          simp only [if_true] at hzv
          split at h
          · cases h
            refine ⟨by rw [hzv]; simp, rfl⟩
          · rename_i hneg
            cases h
            have h0 : (parseDigits ds : Int) = 0 := by omega
            refine ⟨by rw [hzv, h0]; simp, ?_⟩
            simp [hp0, Sign.bytes]
        · rw [if_neg hs] at hzv
          have hnn : ¬ z < 0 := by rw [hzv]; omega
          rw [if_neg hnn] at h
          cases h
          refine ⟨by rw [hzv], ?_⟩
          cases sg with
          | none =>
            obtain ⟨c, t, rfl⟩ := List.exists_cons_of_ne_nil hne
            have hc := isDigit_bounds c (hd c (by simp))
            simp [hp0, Sign.bytes]; omega
          | minus => exact absurd rfl hs
          | plus => simp [hp0, Sign.bytes]

theorem fracBuf_take (p : Nat) (q : Str) : fracBuf p q = fracBuf p (q.take p) := by
  rw [fracBuf_eq, fracBuf_eq]
  by_cases h : q.length ≤ p
  · rw [List.take_of_length_le h]
  · have h1 : p - q.length = 0 := by omega
    have h2 : (q.take p).length = p := by rw [List.length_take]; omega
    rw [h1, h2, Nat.sub_self]
    simp [List.take_take]

/-- the fraction block accepts exactly digit prefixes: if `"1" + q` padded and cut parses, the first `p` bytes of `q`
    are digits and the number read is `10^p + ⌊0.(q.take p)·10^p⌋` -/
theorem parseSigned_fracBuf_inv (p : Nat) (q : Str) (fr : Int) (h : parseSigned (fracBuf p q) = some fr) :
    (∀ c ∈ q.take p, isDigit c = true) ∧ fr = ((10^p + fracVal p (some (q.take p)) : Nat) : Int) := by
  rw [fracBuf_take] at h
  have hlen : (q.take p).length ≤ p := by rw [List.length_take]; omega
  generalize q.take p = fp at *
  have hd : ∀ c ∈ fp, isDigit c = true := by
    rw [fracBuf_eq] at h
    obtain ⟨sg, ds, hs, _, hds, _⟩ := parseSigned_inv _ _ h
    have hds' : ds = 49 :: (fp ++ List.replicate (p - fp.length) 48).take p := by
      cases sg with
      | none => simpa [Sign.bytes] using hs.symm
      | minus => simp [Sign.bytes] at hs
      | plus => simp [Sign.bytes] at hs
    intro c hc
    apply hds
    rw [hds', List.take_of_length_le (by simp; omega)]
    simp [hc]
  refine ⟨hd, ?_⟩
  have := (parseSigned_fracBuf p fp hd).1
  rw [this] at h
  exact (Option.some.inj h).symm

/-- **f128: anatomy of every accepted text.**  If the plain branch returns a value, the comma-free text is
    sign ++ digits, optionally '.' ++ fraction digits ++ ignored bytes (ignored bytes only behind `p` fraction digits), and the
    value is the truncated value of that literal, saturated -/
theorem fromStr128_accepts (p : Nat) (s : Str) (v : Int) (h : fromStr128 p (10^p) s = .ok v) :
    ∃ (sg : Sign) (ip : Str) (fo : Option Str) (junk : Str),
      (∀ c ∈ ip, isDigit c = true) ∧ (∀ fp, fo = some fp → (∀ c ∈ fp, isDigit c = true) ∧ (junk ≠ [] → fp.length = p)) ∧
      (fo = none → junk = []) ∧ stripCommas s = litText sg ip fo ++ junk ∧ v = sat128 (litVal p sg ip fo) := by
  unfold fromStr128 at h
  split at h
  · cases h
  · simp only at h
    split at h
    · cases h
    · have hrec := splitDot_recon (stripCommas s)
      generalize stripCommas s = t at *
      split at h
      · cases h
      · rename_i value neg hhead
        obtain ⟨sg, ip, hp0, hipd, hval, hneg⟩ := head128_inv _ _ _ _ hhead
        cases hq : (splitDot t).2 with
        | none =>
          rw [hq] at h hrec
          simp only [tail128] at h
          refine ⟨sg, ip, none, [], hipd, (by intro fp hfp; cases hfp), fun _ => rfl, ?_, ?_⟩
          · rw [hrec, hp0]; simp [litText]
          · have := Res.ok.inj h
            rw [← this, hval, hneg]
            unfold litVal
            simp only [fracVal, Nat.add_zero]
            by_cases hs : sg = .minus
            · simp [hs]
            · simp [hs]
        | some q =>
          rw [hq] at h hrec
          simp only [tail128] at h
          split at h
          · cases h
          · rename_i fr hfr
            obtain ⟨hfd, hfv⟩ := parseSigned_fracBuf_inv p q fr hfr
            refine ⟨sg, ip, some (q.take p), q.drop p, hipd, ?_, (by intro h0; cases h0), ?_, ?_⟩
            · intro fp hfp
              cases hfp
              refine ⟨hfd, ?_⟩
              intro hj
              rw [List.length_take]
              have : p < q.length := by
                by_contra hc
                exact hj (List.drop_eq_nil_of_le (by omega))
              omega
            · rw [hrec, hp0]
              simp [litText, List.take_append_drop]
            · have := Res.ok.inj h
              rw [← this, hval, hneg, hfv]
              unfold litVal
              by_cases hs : sg = .minus
              · simp only [hs, decide_true, if_true]
                congr 1
                push_cast
                omega
              · simp only [hs, decide_false, if_false, Bool.false_eq_true]
                congr 1
                push_cast
                omega

theorem parseInt64_inv (s : Str) (z : Int) (h : parseInt64 s = some z) : parseSigned s = some z ∧ fits64 z = true := by
  unfold parseInt64 at h
  split at h
  · rename_i w hw
    split at h
    · rename_i hf
      cases h
      exact ⟨hw, hf⟩
    · cases h
  · cases h

/-- the `switch parts[0]` of f64, read backwards -/
theorem head64_inv (m : Int) (p0 : Str) (value : Int) (neg : Bool) (h : head64 m p0 = some (value, neg)) :
    ∃ (sg : Sign) (ip : Str), p0 = sg.bytes ++ ip ∧ (∀ c ∈ ip, isDigit c = true) ∧
      C64 value ((parseDigits ip : Int) * m) ∧ neg = decide (sg = .minus) ∧ ipFits64 sg ip = true := by
  unfold head64 at h
  split at h
  · rename_i hc
    cases h
    rcases hc with hc | hc
    · exact ⟨.none, [], by simp [hc, Sign.bytes], by simp, ⟨0, by simp [parseDigits]⟩, rfl, by decide⟩
    · exact ⟨.plus, [], by simp [hc, Sign.bytes], by simp, ⟨0, by simp [parseDigits]⟩, rfl, by decide⟩
  · split at h
    · rename_i hc
      cases h
      rcases hc with hc | hc
      · exact ⟨.minus, [], by simp [hc, Sign.bytes], by simp, ⟨0, by simp [parseDigits]⟩, rfl, by decide⟩
      · exact ⟨.minus, [48], by simp [hc, Sign.bytes], by decide, ⟨0, by simp [parseDigits]⟩, rfl, by decide⟩
    · split at h
      · cases h
      · rename_i z hz
        obtain ⟨hz1, hzf⟩ := parseInt64_inv p0 z hz
        obtain ⟨sg, ds, hp0, hne, hd, hzv⟩ := parseSigned_inv p0 z hz1
        have hfit : ipFits64 sg ds = true := by unfold ipFits64; rw [← hzv]; exact hzf
        refine ⟨sg, ds, hp0, hd, ?_⟩
        by_cases hs : sg = .minus
        · subst hs
          simp only [if_true] at hzv
          split at h
          · cases h
            refine ⟨?_, rfl, hfit⟩
            subst hzv
            have : C64 (wrap64 (wrap64 (- -(parseDigits ds : Int)) * m)) ((- -(parseDigits ds : Int)) * m) :=
              C64.trans (C64.wrap _) (C64.mul _ (C64.wrap _))
            simpa using this
          · rename_i hneg
            cases h
            have h0 : (parseDigits ds : Int) = 0 := by omega
            refine ⟨?_, ?_, hfit⟩
            · have := C64.wrap (z * m)
              rw [hzv, h0] at this
              rw [hzv, h0]
              simpa using this
            · simp [hp0, Sign.bytes]
        · rw [if_neg hs] at hzv
          have hnn : ¬ z < 0 := by rw [hzv]; omega
          rw [if_neg hnn] at h
          cases h
          refine ⟨by rw [hzv]; exact C64.wrap _, ?_, hfit⟩
          cases sg with
          | none =>
            obtain ⟨c, t, rfl⟩ := List.exists_cons_of_ne_nil hne
            have hc := isDigit_bounds c (hd c (by simp))
            simp [hp0, Sign.bytes]; omega
          | minus => exact absurd rfl hs
          | plus => simp [hp0, Sign.bytes]

/-- **f64: anatomy of every accepted text.**  If the plain branch returns a value, the comma-free text is
    sign ++ digits (a number inside int64), optionally '.' ++ fraction digits ++ ignored bytes (ignored bytes only behind `p`
    fraction digits), and the value is the truncated value of that literal modulo 2^64 -/
theorem fromStr64_accepts (p : Nat) (s : Str) (v : Int) (h : fromStr64 p (10^p) s = .ok v) :
    ∃ (sg : Sign) (ip : Str) (fo : Option Str) (junk : Str),
      (∀ c ∈ ip, isDigit c = true) ∧ (∀ fp, fo = some fp → (∀ c ∈ fp, isDigit c = true) ∧ (junk ≠ [] → fp.length = p)) ∧
      (fo = none → junk = []) ∧ stripCommas s = litText sg ip fo ++ junk ∧ ipFits64 sg ip = true ∧
      v = wrap64 (litVal p sg ip fo) := by
  unfold fromStr64 at h
  split at h
  · cases h
  · simp only at h
    split at h
    · cases h
    · have hrec := splitDot_recon (stripCommas s)
      generalize stripCommas s = t at *
      split at h
      · cases h
      · rename_i value neg hhead
        have hvfit := head64_fits _ _ _ _ hhead
        obtain ⟨sg, ip, hp0, hipd, hC, hneg, hfit⟩ := head64_inv _ _ _ _ hhead
        cases hq : (splitDot t).2 with
        | none =>
          rw [hq] at h hrec
          simp only [tail64] at h
          refine ⟨sg, ip, none, [], hipd, (by intro fp hfp; cases hfp), fun _ => rfl, ?_, hfit, ?_⟩
          · rw [hrec, hp0]; simp [litText]
          · have := Res.ok.inj h
            rw [← this, hneg]
            have hV : ((parseDigits ip * 10^p + fracVal p none : Nat) : Int) = (parseDigits ip : Int) * 10^p := by
              simp [fracVal]
            unfold litVal
            rw [hV]
            by_cases hs : sg = .minus
            · simp only [hs, decide_true, if_true]
              exact C64.wrap_congr (C64.neg hC)
            · simp only [hs, decide_false, if_false, Bool.false_eq_true]
              rw [← wrap64_of_fits value hvfit]
              exact C64.wrap_congr hC
        | some q =>
          rw [hq] at h hrec
          simp only [tail64] at h
          split at h
          · cases h
          · rename_i fr hfr
            obtain ⟨hfr1, _⟩ := parseInt64_inv _ _ hfr
            obtain ⟨hfd, hfv⟩ := parseSigned_fracBuf_inv p q fr hfr1
            refine ⟨sg, ip, some (q.take p), q.drop p, hipd, ?_, (by intro h0; cases h0), ?_, hfit, ?_⟩
            · intro fp hfp
              cases hfp
              refine ⟨hfd, ?_⟩
              intro hj
              rw [List.length_take]
              have : p < q.length := by
                by_contra hc
                exact hj (List.drop_eq_nil_of_le (by omega))
              omega
            · rw [hrec, hp0]
              simp [litText, List.take_append_drop]
            · have := Res.ok.inj h
              rw [← this, hneg, hfv]
              generalize hF : fracVal p (some (q.take p)) = F
              have hV : ((parseDigits ip * 10^p + F : Nat) : Int) = (parseDigits ip : Int) * 10^p + (F : Int) := by
                push_cast; ring
              have hsub : ((10^p + F : Nat) : Int) - 10^p = (F : Int) := by push_cast; ring
              unfold litVal
              rw [hF, hV, hsub]
              have hC2 : C64 (wrap64 (value + (F : Int))) ((parseDigits ip : Int) * 10^p + (F : Int)) :=
                C64.trans (C64.wrap _) (C64.add hC (C64.refl _))
              by_cases hs : sg = .minus
              · simp only [hs, decide_true, if_true]
                exact C64.wrap_congr (C64.neg hC2)
              · simp only [hs, decide_false, if_false, Bool.false_eq_true]
                rw [← wrap64_of_fits _ (wrap64_fits (value + (F : Int)))]
                exact C64.wrap_congr hC2

end FixedText
