import Lemmas.ExtractErrors
/-! C19: on the kinds the zip reader yields, an iteration of the zip loop is the iteration of the tar loop (except
    that an unreadable symbolic-link payload fails at once), so every error-free zip run is a tar run and the
    tar theorems about error-free runs carry over. -/
namespace Ex

theorem zipOne_eq_tarOne (fs : FS) (root : P) (mask : Nat) (e : Entry)
    (hk : e.kind = .reg ∨ e.kind = .dir ∨ (e.kind = .symlink ∧ e.short = false)) :
    zipOne fs root mask e = tarOne fs root mask e := by
  rcases hk with hk | hk | ⟨hk, hs⟩
  · simp [zipOne, tarOne, hk]
  · simp [zipOne, tarOne, hk]
  · simp [zipOne, tarOne, hk, hs]

theorem zipOne_symlink_short (fs : FS) (root : P) (mask : Nat) (e : Entry) (hk : e.kind = .symlink)
    (hs : e.short = true) : (zipOne fs root mask e).2 = false :=
  zipOne_short fs root mask e hs (by rw [hk]; exact fun h => by cases h)

theorem zipExtract_cons (fs : FS) (root : P) (mask : Nat) (e : Entry) (es : List Entry) :
    zipExtract fs root mask (e :: es) =
      if (zipOne fs root mask e).2 = true then zipExtract (zipOne fs root mask e).1 root mask es
      else ((zipOne fs root mask e).1, false) := by
  unfold zipExtract; rw [extractWith_cons]

theorem zipExtract_eq_tarExtract (root : P) (mask : Nat) (es : List Entry) (fs : FS)
    (hk : ∀ e ∈ es, e.kind = .reg ∨ e.kind = .dir ∨ e.kind = .symlink)
    (hok : (zipExtract fs root mask es).2 = true) : zipExtract fs root mask es = tarExtract fs root mask es := by
  induction es generalizing fs with
  | nil => rfl
  | cons x xs ih =>
    rw [zipExtract_cons] at hok ⊢
    rw [tarExtract_cons]
    by_cases hb : (zipOne fs root mask x).2 = true
    · rw [if_pos hb] at hok
      have hx : x.kind = .reg ∨ x.kind = .dir ∨ (x.kind = .symlink ∧ x.short = false) := by
        rcases hk x (by simp) with h | h | h
        · exact Or.inl h
        · exact Or.inr (Or.inl h)
        · refine Or.inr (Or.inr ⟨h, ?_⟩)
          cases hs : x.short with
          | false => rfl
          | true => rw [zipOne_symlink_short fs root mask x h hs] at hb; cases hb
      have heq := zipOne_eq_tarOne fs root mask x hx
      rw [if_pos hb, ← heq, if_pos hb]
      exact ih _ (fun e he => hk e (by simp [he])) hok
    · rw [if_neg hb] at hok; cases hok

end Ex
