import Lemmas.EvalTotal
/-! C09, robustness of `Evaluate`: every operand text and every call-argument text stored in the tree that
    `parseTop ops fns s` returns is a contiguous piece (an infix) of the input `s`.  In particular the tree of a text
    without `$` holds no `$` anywhere.  Core Lean only. -/
namespace Eval

/-! ### `strings.TrimSpace` returns a contiguous piece of its argument -/

theorem trimWith_suffix (f : Bytes → Nat) (fuel : Nat) (s : Bytes) : trimWith f fuel s <:+ s := by
  induction fuel generalizing s with
  | zero => exact List.suffix_refl _
  | succ n ih =>
    unfold trimWith
    split
    · exact List.suffix_refl _
    · exact (ih _).trans (List.drop_suffix _ _)

theorem trimLeft_suffix (s : Bytes) : trimLeft s <:+ s := trimWith_suffix _ _ _

theorem trimRight_prefix (s : Bytes) : trimRight s <+: s := by
  unfold trimRight
  have h := List.reverse_prefix.mpr (trimWith_suffix trailSpace s.length s.reverse)
  simpa using h

theorem trimSpace_infix (s : Bytes) : trimSpace s <:+: s :=
  (trimRight_prefix _).isInfix.trans (trimLeft_suffix s).isInfix

/-! ### the text captured by `processFunction` and what is left are the text that was there -/

theorem captureArgs_append (ops : List Op) (fuel parens : Nat) (pre rest acc args : Bytes) (o : Op) (p r : Bytes)
    (h : captureArgs ops fuel parens pre rest acc = .ok (args, o, p, r)) : acc ++ rest = args ++ r := by
  induction fuel generalizing parens pre rest acc with
  | zero => simp [captureArgs] at h
  | succ n ih =>
    rw [captureArgs_succ] at h
    cases hno : nextOperator ops pre rest with
    | none => simp [hno] at h
    | some q =>
      obtain ⟨sk, o', p', r'⟩ := q
      obtain ⟨_, _, hrest, _, _⟩ := nextOperator_spec _ _ _ _ _ _ _ hno
      simp only [hno] at h
      by_cases hz : parensStep o' parens = 0
      · rw [if_pos hz] at h
        injection h with h
        injection h with h1 h
        injection h with h2 h
        injection h with h3 h4
        subst h1 h4
        simp [hrest]
      · rw [if_neg hz] at h
        cases r' with
        | nil => simp at h
        | cons c t =>
          simp only [] at h
          have := ih _ _ _ _ h
          rw [← this, hrest]
          simp

/-! ### the invariant -/

/-- every operand text and every argument text in the tree is a contiguous piece of `s` -/
def Node.Infix (s : Bytes) : Node → Prop
  | .nil => True
  | .operand _ v => v <:+: s
  | .func _ _ args => args <:+: s
  | .tree l r _ _ => l.Infix s ∧ r.Infix s

def St.Infix (s : Bytes) (st : St) : Prop := ∀ n ∈ st.opds, n.Infix s

theorem St.Infix_empty (s : Bytes) : St.Infix s {} := by
  intro n hn
  simp at hn

theorem processTree_infix (s : Bytes) (st st' : St) (hst : st.Infix s) (h : processTree st = .ok st') :
    st'.Infix s := by
  obtain ⟨opds, ops⟩ := st
  cases ops with
  | nil => simp [processTree] at h
  | cons e rest =>
    rcases opds with _ | ⟨x, _ | ⟨y, t⟩⟩
    · simp [processTree] at h
      subst h
      simp [St.Infix, Node.Infix]
    · simp [processTree] at h
      subst h
      simp [St.Infix] at hst
      simp [St.Infix, Node.Infix, hst]
    · simp [processTree] at h
      subst h
      simp [St.Infix] at hst
      obtain ⟨hx, hy, ht⟩ := hst
      simp [St.Infix, Node.Infix, hx, hy]
      exact ht

theorem reduceWhile_infix (s : Bytes) (p : OpEntry → Bool) (fuel : Nat) (st st' : St) (hst : st.Infix s)
    (h : reduceWhile p fuel st = .ok st') : st'.Infix s := by
  induction fuel generalizing st with
  | zero => simp [reduceWhile] at h
  | succ n ih =>
    unfold reduceWhile at h
    cases hops : st.ops with
    | nil => simp [hops] at h; subst h; exact hst
    | cons e rest =>
      simp only [hops] at h
      by_cases hp : p e = true
      · simp only [hp, if_true] at h
        cases hpt : processTree st with
        | ok st'' =>
          simp only [hpt] at h
          exact ih _ (processTree_infix s _ _ hst hpt) h
        | err => simp [hpt] at h
        | panic => simp [hpt] at h
      · simp [hp] at h; subst h; exact hst

theorem pushOperand_infix (s : Bytes) (st : St) (un : Option Op) (text : Bytes) (hst : st.Infix s)
    (ht : text <:+: s) : (pushOperand st un text).Infix s := by
  intro n hn
  simp only [pushOperand, List.mem_cons] at hn
  rcases hn with rfl | hn
  · simpa [Node.Infix] using ht
  · exact hst n hn

theorem closeParen_infix (s : Bytes) (st st' : St) (hst : st.Infix s) (h : closeParen st = .ok st') :
    st'.Infix s := by
  unfold closeParen at h
  split at h
  · simp at h
  · simp at h
  · rename_i st1 hrw
    have h1 := reduceWhile_infix s _ _ _ _ hst hrw
    split at h
    · simp at h
    · split at h
      · simp at h
      · split at h
        · injection h with h; subst h; exact h1
        · split at h
          · simp at h
          · rename_i x t hopds
            injection h with h; subst h
            intro n hn
            simp only [List.mem_cons] at hn
            have hx := h1 x (by simp [hopds])
            rcases hn with rfl | hn
            · simp [Node.Infix, hx]
            · exact h1 n (by simp [hopds, hn])

theorem pushBinary_infix (s : Bytes) (st st' : St) (op : Op) (un : Option Op) (hst : st.Infix s)
    (h : pushBinary st op un = .ok st') : st'.Infix s := by
  unfold pushBinary at h
  split at h
  · simp at h
  · simp at h
  · rename_i st1 hrw
    injection h with h; subst h
    exact reduceWhile_infix s _ _ _ st1 hst hrw

theorem callFunction_infix (s : Bytes) (fns : List Bytes) (st st' : St) (args : Bytes) (hst : st.Infix s)
    (ha : args <:+: s) (h : callFunction fns st args = .ok st') : st'.Infix s := by
  unfold callFunction at h
  split at h
  · simp at h
  · rename_i un v rest hopds
    split at h
    · injection h with h; subst h
      intro n hn
      simp only [List.mem_cons] at hn
      rcases hn with rfl | hn
      · simpa [Node.Infix] using ha
      · exact hst n (by simp [hopds, hn])
    · simp at h
  · simp at h

theorem processOperator_infix (s : Bytes) (ops : List Op) (fns : List Bytes) (pre rest : Bytes) (st : St) (op : Op)
    (hv : Bool) (un : Option Op) (p' r' : Bytes) (last : Op) (st' : St) (hst : st.Infix s) (hsuf : rest <:+ s)
    (h : processOperator ops fns pre rest st op hv un = .ok (p', r', last, st')) : st'.Infix s ∧ r' <:+ rest := by
  unfold processOperator at h
  split at h
  · split at h
    · simp at h
    · rename_i c t
      split at h
      · simp at h
      · simp at h
      · rename_i args o p r hca
        have happ := captureArgs_append _ _ _ _ _ _ _ _ _ _ hca
        simp only [List.nil_append] at happ
        have hts : t <:+ c :: t := List.suffix_cons c t
        split at h
        · simp at h
        · simp at h
        · rename_i st1 hcf
          injection h with h
          injection h with _ h
          injection h with h2 h
          injection h with _ h
          subst h h2
          refine ⟨callFunction_infix s _ _ _ _ hst ?_ hcf, ?_⟩
          · have h1 : args <+: t := ⟨r, happ.symm⟩
            exact h1.isInfix.trans (hts.trans hsuf).isInfix
          · rw [advance_snd]
            have h1 : r <:+ t := ⟨args, happ.symm⟩
            exact (List.drop_suffix _ _).trans (h1.trans hts)
  · split at h
    · simp at h
    · simp at h
    · rename_i st1 hc
      injection h with h
      injection h with _ h
      injection h with h2 h
      injection h with _ h
      subst h h2
      refine ⟨?_, ?_⟩
      · split at hc
        · injection hc with hc; subst hc; exact hst
        · split at hc
          · exact closeParen_infix s _ _ hst hc
          · exact pushBinary_infix s _ _ _ _ hst hc
      · rw [advance_snd]
        exact List.drop_suffix _ _

theorem operatorPhase_cont_infix (s : Bytes) (ops : List Op) (fns : List Bytes) (pre rest : Bytes) (op : Op) (st : St)
    (hv : Bool) (un : Option Op) (p' r' : Bytes) (st' : St) (hv' : Bool) (un' : Option Op) (hst : st.Infix s)
    (hsuf : rest <:+ s) (h : operatorPhase ops fns pre rest op st hv un = .cont p' r' st' hv' un') :
    st'.Infix s ∧ r' <:+ rest := by
  unfold operatorPhase at h
  split at h
  · split at h
    · simp at h
    · injection h with h1 h2 h3 h4 h5
      subst h3 h2
      refine ⟨hst, ?_⟩
      rw [advance_snd]
      exact List.drop_suffix _ _
  · split at h
    · simp at h
    · simp at h
    · rename_i p r last st'' hpo
      injection h with h1 h2 h3 h4 h5
      subst h3 h2
      exact processOperator_infix s _ _ _ _ _ _ _ _ _ _ _ _ hst hsuf hpo

theorem operatorPhase_done_infix (s : Bytes) (ops : List Op) (fns : List Bytes) (pre rest : Bytes) (op : Op) (st : St)
    (hv : Bool) (un : Option Op) (st' : St)
    (h : operatorPhase ops fns pre rest op st hv un = .done (.ok st')) : st'.Infix s := by
  unfold operatorPhase at h
  split at h
  · split at h <;> simp at h
  · split at h <;> simp at h

theorem scanStep_cont_infix (s : Bytes) (ops : List Op) (fns : List Bytes) (pre : Bytes) (c : Nat) (t : Bytes) (st : St)
    (hv : Bool) (un : Option Op) (p' r' : Bytes) (st' : St) (hv' : Bool) (un' : Option Op) (hst : st.Infix s)
    (hsuf : c :: t <:+ s) (h : scanStep ops fns pre c t st hv un = .cont p' r' st' hv' un') :
    st'.Infix s ∧ r' <:+ c :: t := by
  unfold scanStep at h
  split at h
  · split at h <;> simp at h
  · rename_i sk op p r hno
    obtain ⟨_, _, hrest, _, _⟩ := nextOperator_spec _ _ _ _ _ _ _ hno
    have hr : r <:+ c :: t := ⟨sk, hrest.symm⟩
    have hsk : sk <+: c :: t := ⟨r, hrest.symm⟩
    split at h
    · obtain ⟨a, b⟩ := operatorPhase_cont_infix s _ _ _ _ _ _ _ _ _ _ _ _ _ hst (hr.trans hsuf) h
      exact ⟨a, b.trans hr⟩
    · split at h
      · simp at h
      · have hop : trimSpace sk <:+: s := (trimSpace_infix sk).trans (hsk.isInfix.trans hsuf.isInfix)
        obtain ⟨a, b⟩ := operatorPhase_cont_infix s _ _ _ _ _ _ _ _ _ _ _ _ _
          (pushOperand_infix s _ _ _ hst hop) (hr.trans hsuf) h
        exact ⟨a, b.trans hr⟩

theorem scanStep_done_infix (s : Bytes) (ops : List Op) (fns : List Bytes) (pre : Bytes) (c : Nat) (t : Bytes) (st : St)
    (hv : Bool) (un : Option Op) (st' : St) (hst : st.Infix s) (hsuf : c :: t <:+ s)
    (h : scanStep ops fns pre c t st hv un = .done (.ok st')) : st'.Infix s := by
  unfold scanStep at h
  split at h
  · split at h
    · simp at h
    · injection h with h
      injection h with h
      subst h
      exact pushOperand_infix s _ _ _ hst ((trimSpace_infix _).trans hsuf.isInfix)
  · split at h
    · exact operatorPhase_done_infix s _ _ _ _ _ _ _ _ _ h
    · split at h
      · simp at h
      · exact operatorPhase_done_infix s _ _ _ _ _ _ _ _ _ h

theorem parseLoop_infix (s : Bytes) (ops : List Op) (fns : List Bytes) (pre rest : Bytes) (st : St) (hv : Bool)
    (un : Option Op) (st' : St) (hst : st.Infix s) (hsuf : rest <:+ s)
    (h : parseLoop ops fns pre rest st hv un = .ok st') : st'.Infix s := by
  induction hn : rest.length using Nat.strongRecOn generalizing pre rest st hv un with
  | ind n ih =>
    cases rest with
    | nil =>
      rw [parseLoop] at h
      injection h with h; subst h; exact hst
    | cons c t =>
      rw [parseLoop] at h
      split at h
      · exact ih t.length (by simp at hn; omega) _ _ _ _ _ hst ((List.suffix_cons c t).trans hsuf) h rfl
      · cases hs : scanStep ops fns pre c t st hv un with
        | done r =>
          simp only [hs] at h
          subst h
          exact scanStep_done_infix s _ _ _ _ _ _ _ _ _ hst hsuf hs
        | cont p r st1 hv' un' =>
          simp only [hs] at h
          obtain ⟨a, b⟩ := scanStep_cont_infix s _ _ _ _ _ _ _ _ _ _ _ _ _ hst hsuf hs
          split at h
          · rename_i hp
            exact ih r.length (by omega) _ _ _ _ _ a (b.trans hsuf) h rfl
          · simp at h

theorem finish_infix (s : Bytes) (fuel : Nat) (st st' : St) (hst : st.Infix s) (h : finish fuel st = .ok st') :
    st'.Infix s := by
  induction fuel generalizing st with
  | zero => simp [finish] at h
  | succ n ih =>
    unfold finish at h
    cases hops : st.ops with
    | nil => simp [hops] at h; subst h; exact hst
    | cons e rest =>
      simp only [hops] at h
      cases hpt : processTree st with
      | ok st'' =>
        simp only [hpt] at h
        exact ih _ (processTree_infix s _ _ hst hpt) h
      | err => simp [hpt] at h
      | panic => simp [hpt] at h

/-- every operand text and every argument text in the tree returned for `s` is a contiguous piece of `s` -/
theorem parseTop_infix (ops : List Op) (fns : List Bytes) (s : Bytes) (n : Node)
    (h : parseTop ops fns s = .ok (some n)) : n.Infix s := by
  unfold parseTop at h
  split at h
  · simp at h
  · simp at h
  · rename_i st hp
    split at h
    · simp at h
    · simp at h
    · rename_i st' hf
      have hok := finish_infix s _ _ _
        (parseLoop_infix s ops fns _ _ _ _ _ _ (St.Infix_empty _) (List.suffix_refl _) hp) hf
      injection h with h
      exact hok n (List.mem_of_mem_head? h)

end Eval
