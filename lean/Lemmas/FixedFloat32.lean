import Lemmas.FixedFloatConv

/-! C03 float paths, part 3: the **float32 kinds** of `From` / `As`.

    A float32 is carried in the binary64 model as the datum of the same value (`Fixed.round32`: nearest-even rounding to
    24 bits inside the float32 exponent range, the result re-encoded by `ofRat`).  This file proves
    * `ofRat_dyadic`   : `ofRat` is exact on every `q·2^t` with at most 52 significant bits (so the re-encoding inside
                         `round32` does not round a second time),
    * `round32_val`    : value of a float32 rounding (overflow only from `2^127` on; relative error `2^-24` in the normal
                         range, absolute error `2^-150` below it; the result is a float32 value `q·2^t`, `q ≤ 2^24`,
                         `t ≥ -149`),
    * the bounds of `f64.As`, `f128.As` to `float32` (`f64.From` of a `float32`: Lemmas/FixedFloat32From.lean). -/
namespace Fixed.FloatLemmas
open GoSem.F64 Fixed.Rat

/-- `x` is a value of the float32 grid: at most 24 significant bits above the subnormal exponent `-149` -/
def IsF32 (x : ℚ) : Prop := ∃ q : ℕ, ∃ t : ℤ, q ≤ 2 ^ 24 ∧ -149 ≤ t ∧ x = (q : ℚ) * (2 : ℚ) ^ t

theorem decode_signBit (neg : Bool) : decode (signBit neg) = .fin neg 0 (-1074) := by
  have := decode_sub neg 0 (by norm_num)
  simpa using this

theorem ofRat_zero (neg : Bool) (d : ℕ) : ofRat neg 0 d = .fin neg 0 (-1074) := by
  unfold ofRat roundRatN
  simp [decode_signBit]

/-- **`ofRat` does not round a dyadic value of at most 52 significant bits** inside the binary64 range -/
theorem ofRat_dyadic (neg : Bool) (q : ℕ) (t : ℤ) (hq0 : 0 < q) (hq : q ≤ 2 ^ 52) (ht : -1074 ≤ t)
    (hhi : (q : ℚ) * (2 : ℚ) ^ t < (2 : ℚ) ^ (1023 : ℤ)) :
    ∃ m e, ofRat neg (num q t) (den t) = .fin neg m e ∧ (m : ℚ) * (2 : ℚ) ^ e = (q : ℚ) * (2 : ℚ) ^ t := by
  have hv := num_den_val q t
  have hD : 0 < den t := den_pos t
  have hA : 0 < num q t := by
    rcases Nat.eq_zero_or_pos (num q t) with h | h
    · rw [h] at hv
      have : (0 : ℚ) < (q : ℚ) * (2 : ℚ) ^ t := mul_pos (by exact_mod_cast hq0) (zp_pos t)
      simp at hv
      rcases hv with h' | h'
      · omega
      · exact absurd h' (ne_of_gt (zp_pos t))
    · exact h
  unfold ofRat
  rcases roundRatN_val neg (num q t) (den t) hA hD with ⟨_, h⟩ | ⟨m, e, h1, he, _, hn, hb, _⟩
  · rw [hv] at h; exact absurd h (not_le.mpr hhi)
  · refine ⟨m, e, h1, ?_⟩
    rw [hv] at hb
    have hqq : (q : ℚ) ≤ 2 ^ 52 := by exact_mod_cast hq
    have hze := zp_pos e
    have hzt := zp_pos t
    obtain ⟨b1, b2⟩ := abs_le.mp hb
    -- the exponent of the result is not above `t`
    have hle : e ≤ t := by
      rcases hn with h52 | h52
      · by_contra hcon
        have h2 : t + 1 ≤ e := by omega
        have h3 : (2 : ℚ) ^ (t + 1) ≤ (2 : ℚ) ^ e := zp_le h2
        rw [zp_add] at h3
        have h4 : (2 : ℚ) ^ (1 : ℤ) = 2 := by norm_num
        rw [h4] at h3
        have hm52 : (2 : ℚ) ^ 52 ≤ (m : ℚ) := by exact_mod_cast h52
        have k1 : (q : ℚ) * (2 : ℚ) ^ t ≤ 2 ^ 52 * (2 : ℚ) ^ t := mul_le_mul_of_nonneg_right hqq (le_of_lt hzt)
        have k2 : (2 : ℚ) ^ 52 * (2 : ℚ) ^ e ≤ (m : ℚ) * (2 : ℚ) ^ e := mul_le_mul_of_nonneg_right hm52 (le_of_lt hze)
        nlinarith
      · omega
    obtain ⟨k, hk⟩ : ∃ k : ℕ, t = e + (k : ℤ) := ⟨(t - e).toNat, by omega⟩
    have hpk : (2 : ℚ) ^ t = ((2 ^ k : ℕ) : ℚ) * (2 : ℚ) ^ e := by
      rw [hk, zp_add, zp_nat]; ring
    rw [hpk] at b1 b2 ⊢
    have c1 : -(1 / 2 : ℚ) ≤ (m : ℚ) - (q : ℚ) * ((2 ^ k : ℕ) : ℚ) := by
      by_contra hcon
      have := not_le.mp hcon
      nlinarith
    have c2 : (m : ℚ) - (q : ℚ) * ((2 ^ k : ℕ) : ℚ) ≤ 1 / 2 := by
      by_contra hcon
      have := not_le.mp hcon
      nlinarith
    have hz : (m : ℤ) - ((q * 2 ^ k : ℕ) : ℤ) = 0 := by
      by_contra hne
      have h1' : (1 : ℤ) ≤ |(m : ℤ) - ((q * 2 ^ k : ℕ) : ℤ)| := Int.one_le_abs hne
      have h2' : (1 : ℚ) ≤ |(((m : ℤ) - ((q * 2 ^ k : ℕ) : ℤ) : ℤ) : ℚ)| := by
        rw [← Int.cast_abs]; exact_mod_cast h1'
      push_cast at h2'
      have : |(m : ℚ) - (q : ℚ) * 2 ^ k| ≤ 1 / 2 := by
        rw [abs_le]; push_cast at c1 c2; exact ⟨c1, c2⟩
      linarith
    have hmq : (m : ℚ) = (q : ℚ) * ((2 ^ k : ℕ) : ℚ) := by
      have : (m : ℤ) = ((q * 2 ^ k : ℕ) : ℤ) := by omega
      have h' : (m : ℕ) = q * 2 ^ k := by exact_mod_cast this
      rw [h']; push_cast; ring
    rw [hmq]; ring

/-- **value of a float32 rounding** of a positive rational `a/d` (sign `neg`): overflow to the infinity only from
    `2^127` on; otherwise a finite float32 value, within `2^-24` (relative) of `a/d` in the float32 normal range and
    within `2^-150` (half the subnormal spacing) below it -/
theorem round32_val (neg : Bool) (a d : ℕ) (ha : 0 < a) (hd : 0 < d) :
    (round32 neg a d = .inf neg ∧ (2 : ℚ) ^ (127 : ℤ) ≤ (a : ℚ) / d) ∨
    (∃ m e, round32 neg a d = .fin neg m e ∧ IsF32 ((m : ℚ) * (2 : ℚ) ^ e) ∧
      ((2 : ℚ) ^ (-126 : ℤ) ≤ (a : ℚ) / d → |(m : ℚ) * (2 : ℚ) ^ e - (a : ℚ) / d| ≤ (a : ℚ) / d / 2 ^ 24) ∧
      ((a : ℚ) / d < (2 : ℚ) ^ (-126 : ℤ) → |(m : ℚ) * (2 : ℚ) ^ e - (a : ℚ) / d| ≤ (2 : ℚ) ^ (-150 : ℤ))) := by
  obtain ⟨s1, s2⟩ := expP_spec 24 a d (by norm_num) ha hd
  have hab : (a == 0) = false := by simp; omega
  unfold round32
  rw [hab]
  simp only [Bool.false_eq_true, if_false]
  by_cases hc : expP 24 a d < -149
  · -- below the float32 normal range: fixed exponent -149
    rw [if_pos hc]
    obtain ⟨g1, g2⟩ := round_at a d (-149) hd
    obtain ⟨f1, _⟩ := mk_floor a d (-149) hd
    generalize hq0 : (mk a d (-149)).1 = q0 at *
    generalize hq : roundQ q0 (mk a d (-149)).2.1 (mk a d (-149)).2.2 = q at *
    have hsmall : (a : ℚ) / d < (2 : ℚ) ^ (-126 : ℤ) := by
      refine lt_of_lt_of_le s2 (zp_le ?_)
      push_cast; omega
    have hz := zp_pos (-149)
    have hq0lt : q0 < 2 ^ 23 := by
      have h1 : (q0 : ℚ) < (2 : ℚ) ^ (-126 : ℤ) / (2 : ℚ) ^ (-149 : ℤ) :=
        lt_of_le_of_lt f1 (div_lt_div_of_pos_right hsmall hz)
      have h2 : (2 : ℚ) ^ (-126 : ℤ) / (2 : ℚ) ^ (-149 : ℤ) = ((2 ^ 23 : ℕ) : ℚ) := by
        rw [← zpow_sub₀ (by norm_num)]; norm_num
      rw [h2] at h1
      exact_mod_cast h1
    have hqle : q ≤ 2 ^ 24 := by rcases g1 with h | h <;> omega
    have hno : ¬ (q * 2 ^ ((-149 : ℤ) + 149).toNat ≥ 2 ^ (128 + 149)) := by
      have : ((-149 : ℤ) + 149).toNat = 0 := by norm_num
      rw [this]
      have : (2 : ℕ) ^ 24 < 2 ^ (128 + 149) := Nat.pow_lt_pow_right (by norm_num) (by norm_num)
      omega
    rw [if_neg hno]
    right
    have h150 : (2 : ℚ) ^ (-149 : ℤ) / 2 = (2 : ℚ) ^ (-150 : ℤ) := by
      rw [show (-150 : ℤ) = -149 + -1 by norm_num, zp_add]; norm_num
    rw [h150] at g2
    rcases Nat.eq_zero_or_pos q with hq00 | hqpos
    · subst hq00
      have hn0 : num 0 (-149) = 0 := by unfold num; simp
      rw [hn0, ofRat_zero]
      refine ⟨0, -1074, rfl, ⟨0, -149, by norm_num, by norm_num, by simp⟩, fun h => absurd h (not_le.mpr hsmall), fun _ => ?_⟩
      simpa using g2
    · have hhi : (q : ℚ) * (2 : ℚ) ^ (-149 : ℤ) < (2 : ℚ) ^ (1023 : ℤ) := by
        have h1 : (q : ℚ) ≤ ((2 ^ 24 : ℕ) : ℚ) := by exact_mod_cast hqle
        rw [← zp_nat] at h1
        calc (q : ℚ) * (2 : ℚ) ^ (-149 : ℤ) ≤ (2 : ℚ) ^ ((24 : ℕ) : ℤ) * (2 : ℚ) ^ (-149 : ℤ) :=
              mul_le_mul_of_nonneg_right h1 (le_of_lt hz)
          _ = (2 : ℚ) ^ (((24 : ℕ) : ℤ) + -149) := (zp_add _ _).symm
          _ < (2 : ℚ) ^ (1023 : ℤ) := zp_lt_iff.mpr (by norm_num)
      obtain ⟨m, e, h1, h2⟩ := ofRat_dyadic neg q (-149) hqpos
        (le_trans hqle (Nat.pow_le_pow_right (by norm_num) (by norm_num))) (by norm_num) hhi
      refine ⟨m, e, h1, ⟨q, -149, hqle, le_refl _, h2⟩, fun h => absurd h (not_le.mpr hsmall), fun _ => ?_⟩
      rw [h2]; exact g2
  · -- 24 significant bits at the exponent found by the search
    rw [if_neg hc]
    obtain ⟨p1, p2, p3, _, _⟩ := roundPrec_val 24 a d (by norm_num) ha hd
    unfold roundPrec at p1 p2 p3
    simp only [] at p1 p2 p3
    generalize ht : expP 24 a d = t at *
    generalize hq : roundQ (mk a d t).1 (mk a d t).2.1 (mk a d t).2.2 = q at *
    have htge : -149 ≤ t := by omega
    have hz := zp_pos t
    have hρ : (0 : ℚ) < (a : ℚ) / d := div_pos (by exact_mod_cast ha) (by exact_mod_cast hd)
    have hnorm : (2 : ℚ) ^ (-126 : ℤ) ≤ (a : ℚ) / d := by
      refine le_trans (zp_le ?_) s1
      push_cast; omega
    have hcast : (((2 : ℕ) ^ (t + 149).toNat : ℕ) : ℚ) = (2 : ℚ) ^ (t + 149) := by
      rw [← zp_nat]; congr 1; omega
    obtain ⟨b1, b2⟩ := abs_le.mp p3
    by_cases ho : q * 2 ^ (t + 149).toNat ≥ 2 ^ (128 + 149)
    · rw [if_pos ho]
      left
      refine ⟨rfl, ?_⟩
      have h1 : (((2 : ℕ) ^ (128 + 149) : ℕ) : ℚ) ≤ ((q * 2 ^ (t + 149).toNat : ℕ) : ℚ) := by exact_mod_cast ho
      rw [Nat.cast_mul, hcast, zp_add, ← zp_nat] at h1
      have h277 : (2 : ℚ) ^ (((128 + 149 : ℕ) : ℕ) : ℤ) = (2 : ℚ) ^ (128 : ℤ) * (2 : ℚ) ^ (149 : ℤ) := by
        rw [← zp_add]; norm_num
      rw [h277, ← mul_assoc] at h1
      have h128 : (2 : ℚ) ^ (128 : ℤ) ≤ (q : ℚ) * (2 : ℚ) ^ t := le_of_mul_le_mul_right h1 (zp_pos 149)
      have e128 : (2 : ℚ) ^ (128 : ℤ) = 2 * (2 : ℚ) ^ (127 : ℤ) := by
        rw [show (128 : ℤ) = 1 + 127 by norm_num, zp_add]; norm_num
      rw [e128] at h128
      have hsm : (a : ℚ) / d / 2 ^ 24 ≤ (a : ℚ) / d := div_le_self (le_of_lt hρ) (by norm_num)
      linarith
    · rw [if_neg ho]
      right
      have hlt : (q : ℚ) * (2 : ℚ) ^ t < (2 : ℚ) ^ (128 : ℤ) := by
        have h1 : ((q * 2 ^ (t + 149).toNat : ℕ) : ℚ) < (((2 : ℕ) ^ (128 + 149) : ℕ) : ℚ) := by
          exact_mod_cast (not_le.mp ho)
        rw [Nat.cast_mul, hcast, zp_add, ← zp_nat] at h1
        have h277 : (2 : ℚ) ^ (((128 + 149 : ℕ) : ℕ) : ℤ) = (2 : ℚ) ^ (128 : ℤ) * (2 : ℚ) ^ (149 : ℤ) := by
          rw [← zp_add]; norm_num
        rw [h277, ← mul_assoc] at h1
        exact lt_of_mul_lt_mul_right h1 (le_of_lt (zp_pos 149))
      have hqpos : 0 < q := Nat.lt_of_lt_of_le (Nat.pow_pos (by norm_num)) p1
      obtain ⟨m, e, h1, h2⟩ := ofRat_dyadic neg q t hqpos
        (le_trans p2 (Nat.pow_le_pow_right (by norm_num) (by norm_num))) (by omega)
        (lt_trans hlt (zp_lt_iff.mpr (by norm_num)))
      refine ⟨m, e, h1, ⟨q, t, p2, htge, h2⟩, fun _ => ?_, fun h => absurd hnorm (not_le.mpr h)⟩
      rw [h2]; exact p3


theorem fval_fin (s : Bool) (m : ℕ) (e : ℤ) : fval (.fin s m e) = sgn s * ((m : ℚ) * (2 : ℚ) ^ e) := rfl

theorem isF32_zero : IsF32 0 := ⟨0, 0, by norm_num, by norm_num, by simp⟩

/-! ## f64.As to float32 -/

/-- `f64.As[T, float32]` (`ParseFloat(f.String(), 32)` = the float32 nearest to `raw / mult`) is finite, a float32
    value, and within `2^-24` (relative; half a unit in the last place of a float32) of `raw / mult` -/
theorem f64_as32_val (m a : ℤ) (hm : Mult m) (ha : fits64 a) :
    ∃ s mm e, F64.asFloat32 m a = .fin s mm e ∧ IsF32 |fval (F64.asFloat32 m a)| ∧
      |fval (F64.asFloat32 m a) - value m a| ≤ |value m a| / 2 ^ 24 := by
  unfold F64.asFloat32
  by_cases h0 : a = 0
  · subst h0
    have e0 : round32 (decide ((0 : ℤ) < 0)) (0 : ℤ).natAbs m.toNat = .fin false 0 (-1074) := by
      simp [round32]
    rw [e0]
    refine ⟨false, 0, -1074, rfl, ?_, ?_⟩
    · simpa [fval] using isF32_zero
    · simp [fval, value]
  · obtain ⟨hA, hD, hρ, hlo, hhi, hv⟩ := ratio_facts m a hm h0
    have ha2 : |(a : ℚ)| ≤ 2 ^ 63 := by
      rw [← Int.cast_abs]
      have : |a| ≤ 2 ^ 63 := by unfold fits64 at ha; rw [abs_le]; omega
      exact_mod_cast this
    rcases round32_val (decide (a < 0)) a.natAbs m.toNat hA hD with ⟨_, h⟩ | ⟨mm, e, h1, hf, hn, _⟩
    · exfalso
      rw [hρ] at h
      have : (2 : ℚ) ^ (63 : ℕ) < (2 : ℚ) ^ (127 : ℤ) := by
        have := zp_lt_iff.mpr (show (63 : ℤ) < 127 by norm_num)
        have e : (2 : ℚ) ^ (63 : ℤ) = (2 : ℚ) ^ (63 : ℕ) := by norm_num
        rw [e] at this; exact this
      linarith
    · have h0' : (0 : ℚ) ≤ (mm : ℚ) * (2 : ℚ) ^ e := mul_nonneg (Nat.cast_nonneg _) (le_of_lt (zp_pos e))
      refine ⟨_, mm, e, h1, ?_, ?_⟩
      · rw [h1]; unfold fval; rw [abs_sgn_mul, abs_of_nonneg h0']; exact hf
      · have hb := hn (by rw [hρ]; exact le_trans (zp_le (by norm_num)) hlo)
        rw [hρ] at hb
        rw [h1]; unfold fval
        conv_lhs => rw [hv]
        rw [← mul_sub, abs_sgn_mul]
        exact hb

/-! ## f128.As to float32 -/

/-- `f128.As[T, float32]` = `float32(f64)` of the float64 result (128-bit quotient → float64 → float32, three
    roundings): finite, a float32 value, and within `2^-24 + 2^-52` (relative) of `raw / mult`, hence within one part
    in `2^23` -/
theorem f128_as32_val (m a : ℤ) (hm : Mult m) (ha : fits128 a) :
    ∃ s mm e, F128.asFloat32 m a = .fin s mm e ∧ IsF32 |fval (F128.asFloat32 m a)| ∧
      |fval (F128.asFloat32 m a) - value m a| ≤ |value m a| * (1 / 2 ^ 24 + 1 / 2 ^ 52) := by
  unfold F128.asFloat32
  by_cases h0 : a = 0
  · subst h0
    have e0 : toF32 (F128.asFloat m 0) = .fin false 0 (-1074) := by
      simp [F128.asFloat, GoSem.F64.zero, toF32, round32, num]
    rw [e0]
    refine ⟨false, 0, -1074, rfl, ?_, ?_⟩
    · simpa [fval] using isF32_zero
    · simp [fval, value]
  · obtain ⟨hA, hD, hρ, hlo, hhi, hv⟩ := ratio_facts m a hm h0
    obtain ⟨s, mm, e, h1, h2⟩ := f128_as_val m a hm ha
    rw [h1] at h2 ⊢
    rw [fval_fin] at h2
    simp only [toF32]
    have hm10 : (10 : ℚ) ≤ (m : ℚ) := by exact_mod_cast hm.ge
    have hmq : (0 : ℚ) < (m : ℚ) := by linarith
    have ha2 : |(a : ℚ)| ≤ 2 ^ 127 := by
      rw [← Int.cast_abs]
      have : |a| ≤ 2 ^ 127 := by unfold fits128 at ha; rw [abs_le]; omega
      exact_mod_cast this
    have hρv : |value m a| = |(a : ℚ)| / m := by unfold value; rw [abs_div, abs_of_pos hmq]
    generalize hr : |value m a| = ρ at *
    have hρ0 : 0 < ρ := lt_of_lt_of_le (zp_pos _) hlo
    have hρhi : ρ ≤ 2 ^ 127 / 10 := by
      rw [hρv, div_le_iff₀ hmq]
      have : (0 : ℚ) ≤ (2 : ℚ) ^ 127 / 10 := by positivity
      nlinarith
    have hy0 : (0 : ℚ) ≤ (mm : ℚ) * (2 : ℚ) ^ e := mul_nonneg (Nat.cast_nonneg _) (le_of_lt (zp_pos e))
    generalize hyy : (mm : ℚ) * (2 : ℚ) ^ e = y at *
    -- the float64 result is within ε of ρ
    have hε : (1 : ℚ) / 2 ^ 53 + 1 / 2 ^ 181 + 1 / 2 ^ 128 ≤ 1 / 2 ^ 52 := by norm_num
    have hyρ : |y - ρ| ≤ ρ * (1 / 2 ^ 52) := by
      have t1 : |y - ρ| ≤ |sgn s * y - value m a| := by
        have := abs_abs_sub_abs_le (sgn s * y) (value m a)
        rw [abs_sgn_mul, abs_of_nonneg hy0, hr] at this
        exact this
      exact le_trans t1 (le_trans h2 (mul_le_mul_of_nonneg_left hε (le_of_lt hρ0)))
    obtain ⟨y1, y2⟩ := abs_le.mp hyρ
    have hypos : 0 < y := by nlinarith
    have hNpos : 0 < num mm e := by
      rcases Nat.eq_zero_or_pos (num mm e) with h | h
      · have hy := num_den_val mm e
        rw [h, hyy] at hy; simp at hy; linarith
      · exact h
    have hy := num_den_val mm e
    rw [hyy] at hy
    rcases round32_val s (num mm e) (den e) hNpos (den_pos e) with ⟨_, h⟩ | ⟨m2, e2, g1, gf, gn, _⟩
    · exfalso
      rw [hy] at h
      have e127 : (2 : ℚ) ^ (127 : ℤ) = (2 : ℚ) ^ (127 : ℕ) := by norm_num
      rw [e127] at h
      nlinarith
    · have h0' : (0 : ℚ) ≤ (m2 : ℚ) * (2 : ℚ) ^ e2 := mul_nonneg (Nat.cast_nonneg _) (le_of_lt (zp_pos e2))
      refine ⟨s, m2, e2, g1, ?_, ?_⟩
      · rw [g1]; unfold fval; rw [abs_sgn_mul, abs_of_nonneg h0']; exact gf
      · have ylo : (2 : ℚ) ^ (-126 : ℤ) ≤ y := by
          have c1 : (2 : ℚ) ^ (-126 : ℤ) ≤ (2 : ℚ) ^ (-55 : ℤ) := zp_le (by norm_num)
          have c2 : (2 : ℚ) ^ (-55 : ℤ) = (2 : ℚ) ^ (-54 : ℤ) / 2 := by
            rw [show (-55 : ℤ) = -54 + -1 by norm_num, zp_add]; norm_num
          have c3 : ρ * (1 / 2 ^ 52) ≤ ρ / 2 := by
            rw [← div_eq_mul_one_div]
            exact div_le_div_of_nonneg_left (le_of_lt hρ0) (by norm_num) (by norm_num)
          generalize (2 : ℚ) ^ (-126 : ℤ) = k1 at *
          generalize (2 : ℚ) ^ (-55 : ℤ) = k2 at *
          generalize (2 : ℚ) ^ (-54 : ℤ) = k3 at *
          linarith
        have hb := gn (by rw [hy]; exact ylo)
        rw [hy] at hb
        rw [g1]
        generalize hzz : (m2 : ℚ) * (2 : ℚ) ^ e2 = z at *
        -- |sgn s * z - v| ≤ |sgn s * z - sgn s * y| + |sgn s * y - v|
        have tri : |sgn s * z - value m a| ≤ |z - y| + |sgn s * y - value m a| := by
          have : sgn s * z - value m a = sgn s * (z - y) + (sgn s * y - value m a) := by ring
          rw [this]
          exact le_trans (abs_add_le _ _) (by rw [abs_sgn_mul])
        have hyb : y / 2 ^ 24 ≤ ρ * (1 / 2 ^ 24) + ρ * (1 / 2 ^ 76) := by
          have : y ≤ ρ + ρ * (1 / 2 ^ 52) := by linarith
          have h24 : y / 2 ^ 24 ≤ (ρ + ρ * (1 / 2 ^ 52)) / 2 ^ 24 :=
            div_le_div_of_nonneg_right this (by norm_num)
          have e2' : (ρ + ρ * (1 / 2 ^ 52)) / 2 ^ 24 = ρ * (1 / 2 ^ 24) + ρ * (1 / 2 ^ 76) := by
            ring
          linarith
        have hε2 : ρ * (1 / 2 ^ 53 + 1 / 2 ^ 181 + 1 / 2 ^ 128) + ρ * (1 / 2 ^ 76) ≤ ρ * (1 / 2 ^ 52) := by
          rw [← mul_add]
          exact mul_le_mul_of_nonneg_left (by norm_num) (le_of_lt hρ0)
        rw [fval_fin, hzz]
        calc |sgn s * z - value m a| ≤ |z - y| + |sgn s * y - value m a| := tri
          _ ≤ (ρ * (1 / 2 ^ 24) + ρ * (1 / 2 ^ 76)) + ρ * (1 / 2 ^ 53 + 1 / 2 ^ 181 + 1 / 2 ^ 128) := by
              linarith
          _ ≤ ρ * (1 / 2 ^ 24 + 1 / 2 ^ 52) := by
              rw [mul_add]; linarith

end Fixed.FloatLemmas
