import Lean.Meta.Tactic.Simp.RegisterCommand
import Lean.Elab.Command
/-! C01, translator tie: the simp sets that `gossa/ssagen` tags the regenerated definitions with, so that the proof
    script of `Props/C01Gen.lean` can unfold them without naming them (a helper function that a refactoring of the Go
    code introduces is unfolded like any other). -/

/-- every function definition of `Generated/SSA_Num.lean` -/
register_simp_attr gen_def

/-- the tie theorems `Gen.X = model function` themselves, in the order they are proved: a later proof rewrites the
    calls of already tied functions into the model before it unfolds anything (compositional ties) -/
register_simp_attr gen_eq

/-- the function definitions of a generated file that builds on ANOTHER generated file (`SSA_F128.lean` on
    `SSA_Num.lean`): its own definitions only, so that a proof can unfold local helpers without unfolding the imported
    definitions, which it rewrites into the model by their ties -/
register_simp_attr gen_local

/-- every package-level constant of `Generated/SSA_Num.lean` (unfolded after the functions) -/
register_simp_attr gen_const

open Lean Elab Command in
/-- `when_translated Gen.X in <command>`: the command (a theorem about the regenerated definition `Gen.X`) is elaborated
    only when the translator produced `Gen.X` in this run.  A function that a change of the Go code moves outside the
    translated fragment (an implementation through `math/big`, say) has no tie any more — `./check C03` records that as
    reduced coverage; the differential run still covers the function — instead of a proof that no longer checks. -/
elab "when_translated " id:ident " in " cmd:command : command => do
  if (← getEnv).contains id.getId then elabCommand cmd
  else logInfo m!"{id.getId} is outside the translated fragment: no tie for it in this run"

