import Lean.Meta.Tactic.Simp.RegisterCommand
import Lean.Elab.Command
/-! C01, translator tie: the simp sets that `gossa/ssagen` tags the regenerated definitions with, so that the proof
    script of `Props/C01Gen.lean` can unfold them without naming them (a helper function that a refactoring of the Go
    code introduces is unfolded like any other). -/

/-- every function definition of `Generated/SSA_Num.lean` -/
register_simp_attr gen_def

/-- every package-level constant of `Generated/SSA_Num.lean` (unfolded after the functions) -/
register_simp_attr gen_const

open Lean Elab Command in
/-- `when_translated Gen.X in <command>`: the command (a theorem about the regenerated definition `Gen.X`) is elaborated
    only when the translator produced `Gen.X` in this run.  A function that a change of the Go code moves outside the
    translated fragment (an implementation through `math/big`, say) has no tie any more — `./check C03` records that as
    reduced coverage; the differential run still covers the function — instead of a proof that no longer checks. -/
elab "when_translated " id:ident " in " cmd:command : command => do
  if (← getEnv).contains id.getId then elabCommand cmd
  else logInfo m!"{id.getId} is outside the translated fragment: no tie for it in this run"

