import Lean.Meta.Tactic.Simp.RegisterCommand
/-! C01, translator tie: the simp sets that `gossa/ssagen` tags the regenerated definitions with, so that the proof
    script of `Props/C01Gen.lean` can unfold them without naming them (a helper function that a refactoring of the Go
    code introduces is unfolded like any other). -/

/-- every function definition of `Generated/SSA_Num.lean` -/
register_simp_attr gen_def

/-- every package-level constant of `Generated/SSA_Num.lean` (unfolded after the functions) -/
register_simp_attr gen_const
