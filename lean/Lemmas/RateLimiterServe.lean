import Lemmas.RateLimiterLive
/-! Every queued request is answered: the head of the queue is answered by every tick, so a request with `k` requests
    ahead of it is answered after at most `k + 1` served ticks (or by the final drain).  Core Lean. -/
namespace RL

/-- the head of the queue leaves the queue with an answer whenever it is closed, too big, or fits -/
theorem service_head_removed (cap : Nat → Nat) (chain : Nat → List Nat) (closed : Nat → Bool) (p : Nat)
    (used : Nat → Nat) (r : Req) (rs : List Req)
    (h : closed r.lim = true ∨ r.amt > effCap cap (chain r.lim) (cap r.lim) ∨
         (used 0 < cap 0 ∧ fits cap used (chain r.lim) r.amt = true)) :
    (service cap chain closed p used (r :: rs)).waiting.Sublist rs ∧
    ∃ a, (r.id, a) ∈ (service cap chain closed p used (r :: rs)).answers := by
  simp only [service]
  split
  · exact ⟨service_waiting_sub _ _ _ _ _ _, _, List.mem_cons_self⟩
  · rename_i hc
    split
    · exact ⟨service_waiting_sub _ _ _ _ _ _, _, List.mem_cons_self⟩
    · rename_i hb
      split
      · exact ⟨service_waiting_sub _ _ _ _ _ _, _, List.mem_cons_self⟩
      · rename_i hf
        rcases h with h | h | h
        · exact absurd h hc
        · exact absurd h hb
        · exact absurd h hf

/-- **every tick answers the head of the queue** (closed → "closed"; above the smallest cap of its chain → cap error;
    otherwise it fits into the freshly reset period and is granted), and nothing that was behind it moves ahead -/
theorem head_answered {c : Nat} {s : S} (h : Reachable c s) (r : Req) (rest : List Req) (hw : s.waiting = r :: rest) :
    (doTickRuns s).waiting.Sublist rest ∧ ∃ a, (r.id, a) ∈ (doTickRuns s).answered := by
  have t := tree h
  have hr : r ∈ s.waiting := by rw [hw]; exact List.mem_cons_self
  obtain ⟨hl, ha, _⟩ := queueOk h r hr
  have key : s.closed r.lim = true ∨ r.amt > effCap s.cap (s.chain r.lim) (s.cap r.lim) ∨
      ((fun x => if resets s x then 0 else s.used x) 0 < s.cap 0 ∧
        fits s.cap (fun x => if resets s x then 0 else s.used x) (s.chain r.lim) r.amt = true) := by
    cases ho : s.closed r.lim with
    | true => exact Or.inl rfl
    | false =>
      by_cases hb : r.amt > effCap s.cap (s.chain r.lim) (s.cap r.lim)
      · exact Or.inr (Or.inl hb)
      · have hfit := ((le_effCap_iff s.cap (s.chain r.lim) (s.cap r.lim) r.amt).mp (by omega)).2
        have hres := open_resets t r.lim ho
        refine Or.inr (Or.inr ⟨?_, ?_⟩)
        · have h1 := hres 0 (t.root _ hl)
          have h2 := hfit 0 (t.root _ hl)
          simp only [h1, if_true]; omega
        · rw [fits_iff]; intro x hx
          simp only [hres x hx, if_true]
          have := hfit x hx; omega
  have := service_head_removed s.cap s.chain s.closed (s.ticks + 1) (fun x => if resets s x then 0 else s.used x) r rest key
  rw [← hw] at this
  obtain ⟨h1, a, h2⟩ := this
  exact ⟨h1, a, List.mem_append_left _ h2⟩

/-- request `id` is in the queue -/
def Waiting (s : S) (id : Nat) : Prop := ∃ r ∈ s.waiting, r.id = id

/-- the number of queued requests that arrived before `id` -/
def ahead (s : S) (id : Nat) : Nat := (s.waiting.filter (fun r => decide (r.id < id))).length

theorem ahead_mono {c : Nat} {s s' : S} (h : Reachable c s) (st : Step s s') (id : Nat) (hid : id < s.nextReq) :
    ahead s' id ≤ ahead s id := by
  cases st with
  | useWait l amt hl ha h0 h1 h2 h3 =>
    show ((s.waiting ++ [(⟨l, amt, s.nextReq⟩ : Req)]).filter (fun r => decide (r.id < id))).length ≤ _
    have : ¬ s.nextReq < id := by omega
    simp [List.filter_append, ahead, this]
  | tickRuns h1 h0 =>
    exact ((service_waiting_sub _ _ _ _ _ _).filter _).length_le
  | drain h1 h0 => exact Nat.zero_le _
  | _ => exact Nat.le_refl _

/-- a served tick answers `id` or brings it closer to the head -/
theorem ahead_tick {c : Nat} {s : S} (h : Reachable c s) (id : Nat) (hw : Waiting s id) :
    ¬ Waiting (doTickRuns s) id ∨ ahead (doTickRuns s) id < ahead s id := by
  obtain ⟨r0, hr0, hid⟩ := hw
  cases hq : s.waiting with
  | nil => rw [hq] at hr0; cases hr0
  | cons r rest =>
    obtain ⟨hsub, _⟩ := head_answered h r rest hq
    have hsorted := queue_sorted h
    rw [hq] at hsorted hr0
    have hlt : ∀ r' ∈ rest, r.id < r'.id := (List.pairwise_cons.mp hsorted).1
    by_cases he : r.id = id
    · left
      rintro ⟨r', hr', hid'⟩
      have := hlt r' (hsub.subset hr')
      omega
    · right
      have hrest : r0 ∈ rest := by
        rcases List.mem_cons.mp hr0 with h' | h'
        · subst h'; exact absurd hid he
        · exact h'
      have hrid : r.id < id := by have := hlt r0 hrest; omega
      have e : ahead s id = (rest.filter (fun r => decide (r.id < id))).length + 1 := by
        simp [ahead, hq, List.filter_cons, hrid]
      rw [e]
      exact Nat.lt_succ_of_le ((hsub.filter _).length_le)

/-- time passes and the ticker goroutine is scheduled: until it has drained the queue after root `Close`, it runs the body
    of a tick — or that final drain — again and again -/
def TicksServed (run : Nat → S) : Prop :=
  ∀ i, ((run i).tpc = .dunl ∨ (run i).tpc = .tend) ∨
       ∃ j, i ≤ j ∧ (((run j).tpc = .tcrit ∧ run (j + 1) = doTickRuns (run j)) ∨
                     ((run j).tpc = .dcrit ∧ run (j + 1) = doDrain (run j)))

theorem waiting_lt_nextReq {c : Nat} {s : S} (h : Reachable c s) (id : Nat) (hw : Waiting s id) : id < s.nextReq := by
  obtain ⟨r, hr, hid⟩ := hw
  have := (queueOk h r hr).2.2
  omega

/-- every queued request leaves the queue -/
theorem eventually_not_waiting {c : Nat} {run : Nat → S} (r : IsRun c run) (ts : TicksServed run) (id : Nat) :
    ∀ n i, ahead (run i) id ≤ n → Waiting (run i) id → ∃ j, i ≤ j ∧ ¬ Waiting (run j) id := by
  -- between two instants the request leaves the queue or the number of requests ahead of it does not grow
  have seg : ∀ i, Waiting (run i) id → ∀ k, i ≤ k →
      (∃ m, i ≤ m ∧ m ≤ k ∧ ¬ Waiting (run m) id) ∨ (Waiting (run k) id ∧ ahead (run k) id ≤ ahead (run i) id) := by
    intro i hw k hk
    induction k with
    | zero =>
      right
      have : i = 0 := by omega
      subst this; exact ⟨hw, Nat.le_refl _⟩
    | succ k ih =>
      by_cases hik : i ≤ k
      · rcases ih hik with ⟨m, h1, h2, h3⟩ | ⟨hwk, hak⟩
        · exact Or.inl ⟨m, h1, by omega, h3⟩
        · by_cases hw' : Waiting (run (k + 1)) id
          · right
            exact ⟨hw', Nat.le_trans
              (ahead_mono (r.reach k) (r.step k) id (waiting_lt_nextReq (r.reach k) id hwk)) hak⟩
          · exact Or.inl ⟨k + 1, by omega, Nat.le_refl _, hw'⟩
      · have : i = k + 1 := by omega
        subst this; exact Or.inr ⟨hw, Nat.le_refl _⟩
  -- up to the next served tick (or the drain)
  have core : ∀ n i, ahead (run i) id ≤ n → Waiting (run i) id →
      (∃ j, i ≤ j ∧ ¬ Waiting (run j) id) ∨ (∃ j, i ≤ j ∧ Waiting (run j) id ∧ ahead (run j) id < n) := by
    intro n i hn hw
    rcases ts i with hend | ⟨j, hj, hserved⟩
    · left
      refine ⟨i, Nat.le_refl _, ?_⟩
      rintro ⟨r', hr', _⟩
      rw [waiting_empty_after_drain (r.reach i) hend] at hr'
      cases hr'
    rcases seg i hw j hj with ⟨m, h1, _, h3⟩ | ⟨hwj, haj⟩
    · exact Or.inl ⟨m, h1, h3⟩
    · rcases hserved with ⟨_, hstep⟩ | ⟨_, hstep⟩
      · rcases ahead_tick (r.reach j) id hwj with h | h
        · left; refine ⟨j + 1, by omega, ?_⟩; rw [hstep]; exact h
        · by_cases hw' : Waiting (run (j + 1)) id
          · right; refine ⟨j + 1, by omega, hw', ?_⟩; rw [hstep]; omega
          · exact Or.inl ⟨j + 1, by omega, hw'⟩
      · left
        refine ⟨j + 1, by omega, ?_⟩
        rw [hstep]
        rintro ⟨r', hr', _⟩
        cases hr'
  intro n
  induction n with
  | zero =>
    intro i hn hw
    rcases core 0 i hn hw with h | ⟨j, _, _, h⟩
    · exact h
    · exact absurd h (Nat.not_lt_zero _)
  | succ n ih =>
    intro i hn hw
    rcases core (n + 1) i hn hw with h | ⟨j, hj, hwj, h⟩
    · exact h
    · obtain ⟨j', hj', hnw⟩ := ih j (by omega) hwj
      exact ⟨j', by omega, hnw⟩

theorem nextReq_mono {s s' : S} (st : Step s s') : s.nextReq ≤ s'.nextReq := by
  cases st <;> first | exact Nat.le_refl _ | exact Nat.le_succ _

/-- **every request is answered**: on every run on which ticks keep being served, a request that is waiting has, at
    some later instant, left the queue — and then it has exactly one answer -/
theorem eventually_answered {c : Nat} {run : Nat → S} (r : IsRun c run) (ts : TicksServed run) (i id : Nat)
    (hw : Waiting (run i) id) :
    ∃ j, i ≤ j ∧ ¬ Waiting (run j) id ∧ ((run j).answered.map (·.1)).count id = 1 := by
  obtain ⟨j, hj, hnw⟩ := eventually_not_waiting r ts id _ i (Nat.le_refl _) hw
  refine ⟨j, hj, hnw, ?_⟩
  have hid : id < (run i).nextReq := waiting_lt_nextReq (r.reach i) id hw
  have hmono : ∀ k, i ≤ k → id < (run k).nextReq := by
    intro k hk
    induction k with
    | zero => have : i = 0 := by omega
              subst this; exact hid
    | succ k ih =>
      by_cases hik : i ≤ k
      · have h1 := ih hik
        have : (run k).nextReq ≤ (run (k + 1)).nextReq := nextReq_mono (r.step k)
        omega
      · have : i = k + 1 := by omega
        subst this; exact hid
  have ex := exactlyOnce (r.reach j) id
  unfold ids at ex
  simp only [List.count_append, hmono j hj, if_true] at ex
  have hz : ((run j).waiting.map (·.id)).count id = 0 := by
    rw [List.count_eq_zero]
    intro hm
    obtain ⟨r', hr', hid'⟩ := List.mem_map.mp hm
    exact hnw ⟨r', hr', hid'⟩
  omega

end RL
