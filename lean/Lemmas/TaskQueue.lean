import Model.TaskQueue
/-! C15: invariants of the task queue protocol `TQ.Step` (Model/TaskQueue.lean), each proved by induction over
    `Reachable` with one case per rule.  Workers, depth (any integer), channel capacity, the set of tasks, which of them
    panic, and the interleaving are universally quantified.  Core Lean only. -/
set_option linter.unusedSimpArgs false
namespace TQ

/-- every task id below `nextId` is in exactly one place -/
def places (s : S) : List Nat := s.inq ++ held s.pc ++ liveBacklog s ++ s.tq ++ s.running ++ s.finished

def Conservation (s : S) : Prop := ∀ id, (places s).count id = if id < s.nextId then 1 else 0

/-- the dispatcher never indexes an empty backlog -/
def IndexSafe (s : S) : Prop :=
  (∀ t, s.pc = .sb t → s.backlog ≠ []) ∧ (s.pc = .sb2 → s.backlog ≠ [])

theorem indexSafe_step (c : Cfg) (s s' : S) (h : IndexSafe s) (st : Step c s s') : IndexSafe s' := by
  cases st <;> simp_all [IndexSafe, doSubmit, doTake, doFinish, doReport, doReady]
  case waitReady t h1 h2 =>
    by_cases hb : s.backlog = [] <;> simp [hb]

theorem indexSafe (c : Cfg) (s : S) (h : Reachable c s) : IndexSafe s := by
  induction h with
  | init => simp [IndexSafe]
  | step s s' _ st ih => exact indexSafe_step c s s' ih st

theorem count_erase_mem (l : List Nat) (t id : Nat) (h : t ∈ l) :
    (l.erase t).count id + (if id = t then 1 else 0) = l.count id := by
  induction l with
  | nil => simp at h
  | cons a l ih =>
    by_cases hat : a = t
    · subst hat
      simp [List.count_cons]
      by_cases hid : id = a
      · subst hid; simp
      · have : ¬ a = id := fun e => hid e.symm
        simp [hid, this]
    · have hne : (a == t) = false := by simpa using hat
      have ht : t ∈ l := by
        rcases List.mem_cons.mp h with h | h
        · exact absurd h.symm hat
        · exact h
      have := ih ht
      simp only [List.erase_cons, hne, List.count_cons]
      by_cases hia : a = id <;> simp [hia] <;> omega

theorem count_drop_succ (l : List Nat) (i b id : Nat) (h : l[i]? = some b) :
    (l.drop i).count id = (if b = id then 1 else 0) + (l.drop (i + 1)).count id := by
  have hi : i < l.length := by
    rcases Nat.lt_or_ge i l.length with h' | h'
    · exact h'
    · have : l[i]? = none := List.getElem?_eq_none h'
      rw [this] at h; cases h
  have hb : l[i] = b := by
    have := List.getElem?_eq_getElem hi
    rw [this] at h; exact Option.some.inj h
  rw [List.drop_eq_getElem_cons hi, hb, List.count_cons]
  by_cases hbi : b = id <;> simp [hbi] <;> omega

theorem conservation_step (c : Cfg) (s s' : S) (h : Conservation s) (st : Step c s s') : Conservation s' := by
  intro id
  have hid := h id
  clear h
  simp only [places, liveBacklog, List.count_append] at hid
  cases st <;> (try dsimp only [doSubmit, doTake, doFinish, doReport, doReady] at *)
  case submit p h1 h2 =>
    simp only [places, liveBacklog, List.count_append, List.count_cons, List.count_nil, doSubmit]
    by_cases e : s.nextId = id
    · subst e; simp at hid ⊢; omega
    · have e' : (s.nextId == id) = false := by simpa using e
      simp [e']
      by_cases e2 : id < s.nextId
      · have : id < s.nextId + 1 := by omega
        simp [e2, this] at hid ⊢; omega
      · have : ¬ id < s.nextId + 1 := by omega
        simp [e2, this] at hid ⊢; omega
  case shutdown h1 =>
    simp only [places, liveBacklog, List.count_append]
    omega
  case take t rest h1 h2 =>
    simp only [places, liveBacklog, List.count_append, List.count_cons, h1, doTake] at hid ⊢
    omega
  case finish t ht =>
    have := count_erase_mem s.running t id ht
    simp only [places, liveBacklog, List.count_append, List.count_cons, doFinish]
    by_cases e : id = t
    · have e' : (t == id) = true := by simp [e]
      simp [e, e'] at this ⊢ hid
      omega
    · have e' : (t == id) = false := by simpa using fun h => e h.symm
      simp [e, e'] at this ⊢
      omega
  case report h1 h2 =>
    simp only [places, liveBacklog, List.count_append, doReport]
    omega
  case recv t rest h1 h2 =>
    simp only [places, liveBacklog, List.count_append, List.count_cons, List.count_nil, h1, h2, held, lb] at hid ⊢
    omega
  case closed h1 h2 h3 =>
    simp only [places, liveBacklog, List.count_append, h1, h2, held, lb, List.drop_zero] at hid ⊢
    omega
  case selReadyEmpty h1 h2 h3 =>
    simp only [places, liveBacklog, List.count_append, doReady]
    omega
  case selReadyBacklog h1 h2 h3 =>
    simp only [places, liveBacklog, List.count_append, h1, held, lb, doReady] at hid ⊢
    omega
  case handoff t h1 h2 =>
    simp only [places, liveBacklog, List.count_append, List.count_cons, List.count_nil, h1, h2.1, held, lb] at hid ⊢
    omega
  case toBacklog t h1 h2 h3 =>
    simp only [places, liveBacklog, List.count_append, List.count_cons, List.count_nil, h1, held, lb] at hid ⊢
    omega
  case toWait t h1 h2 h3 =>
    simp only [places, liveBacklog, List.count_append, List.count_cons, List.count_nil, h1, held, lb] at hid ⊢
    omega
  case waitReady t h1 h2 =>
    by_cases hb : s.backlog = []
    · simp only [places, liveBacklog, List.count_append, List.count_cons, List.count_nil, h1, hb, if_true, held, lb, doReady] at hid ⊢
      omega
    · simp only [places, liveBacklog, List.count_append, List.count_cons, List.count_nil, h1, hb, if_false, held, lb, doReady] at hid ⊢
      omega
  case sendDirect t h1 h2 =>
    simp only [places, liveBacklog, List.count_append, List.count_cons, List.count_nil, h1, held, lb] at hid ⊢
    omega
  case sendBacklog t b rest h1 h2 h3 =>
    simp only [places, liveBacklog, List.count_append, List.count_cons, List.count_nil, h1, h2, held, lb] at hid ⊢
    omega
  case sendBacklog2 b rest h1 h2 h3 =>
    simp only [places, liveBacklog, List.count_append, List.count_cons, List.count_nil, h1, h2, held, lb] at hid ⊢
    omega
  case drainSend i b h1 h2 h3 =>
    have := count_drop_succ s.backlog i b id h2
    simp only [places, liveBacklog, h1, held, lb, List.count_append, List.count_cons, List.count_nil] at hid ⊢
    by_cases e : b = id
    · have e' : (b == id) = true := by simp [e]
      simp [e, e'] at this ⊢ hid; omega
    · have e' : (b == id) = false := by simpa using e
      simp [e, e'] at this ⊢; omega
  case drainReady i h1 h2 h3 =>
    simp only [places, liveBacklog, List.count_append, doReady]
    omega
  case drainDone i h1 h2 =>
    have : s.backlog.drop i = [] := List.drop_eq_nil_of_le h2
    simp only [places, liveBacklog, List.count_append, h1, held, lb, this, List.count_nil] at hid ⊢
    omega
  case finalReady h1 h2 h3 =>
    simp only [places, liveBacklog, List.count_append, doReady]
    omega
  case finalClose h1 h2 =>
    simp only [places, liveBacklog, List.count_append, h1, held, lb] at hid ⊢
    omega
  case signalDone h1 h2 =>
    simp only [places, liveBacklog, List.count_append, h1, held, lb] at hid ⊢
    omega

theorem conservation (c : Cfg) (s : S) (h : Reachable c s) : Conservation s := by
  induction h with
  | init => intro id; simp [places, held, liveBacklog, lb]
  | step s s' _ st ih => exact conservation_step c s s' ih st

/-- never more than `workers` tasks running; the `ready` and `tasks` channels respect their capacity -/
def Bounds (c : Cfg) (s : S) : Prop :=
  s.running.length + s.reporting ≤ c.workers ∧ s.ready ≤ c.workers ∧ s.tq.length ≤ c.workers

theorem bounds_step (c : Cfg) (s s' : S) (h : Bounds c s) (st : Step c s s') : Bounds c s' := by
  obtain ⟨h1, h2, h3⟩ := h
  cases st <;> simp_all [Bounds, doSubmit, doTake, doFinish, doReport, doReady, canHandOff] <;> try omega
  case finish t ht =>
    have : (s.running.erase t).length = s.running.length - 1 := List.length_erase_of_mem ht
    have : 0 < s.running.length := List.length_pos_of_mem ht
    omega

theorem bounds (c : Cfg) (s : S) (h : Reachable c s) : Bounds c s := by
  induction h with
  | init => simp [Bounds]
  | step s s' _ st ih => exact bounds_step c s s' ih st

/-! ### FIFO -/

/-- the pipeline, oldest first -/
def pipeline (s : S) : List Nat := s.started ++ (s.tq ++ (liveBacklog s ++ (held s.pc ++ s.inq)))

/-- **FIFO**: tasks are started in the order in which they were accepted — the stages of the pipeline, read
    from the workers back to the input channel, always spell 0, 1, …, nextId − 1 -/
def Fifo (s : S) : Prop := pipeline s = List.range s.nextId

theorem drop_cons_of_get (l : List Nat) (i b : Nat) (h : l[i]? = some b) : l.drop i = b :: l.drop (i + 1) := by
  have hi : i < l.length := by
    rcases Nat.lt_or_ge i l.length with h' | h'
    · exact h'
    · have : l[i]? = none := List.getElem?_eq_none h'
      rw [this] at h; cases h
  have hb : l[i] = b := by
    have := List.getElem?_eq_getElem hi
    rw [this] at h; exact Option.some.inj h
  rw [List.drop_eq_getElem_cons hi, hb]

/-- the direct-send state is only entered, and stayed in, with an empty backlog -/
def SdEmpty (s : S) : Prop := ∀ t, s.pc = .sd t → s.backlog = []

theorem sdEmpty_step (c : Cfg) (s s' : S) (h : SdEmpty s) (st : Step c s s') : SdEmpty s' := by
  cases st <;> simp_all [SdEmpty, doSubmit, doTake, doFinish, doReport, doReady]
  case waitReady t h1 h2 =>
    by_cases hb : s.backlog = [] <;> simp [hb]

theorem sdEmpty (c : Cfg) (s : S) (h : Reachable c s) : SdEmpty s := by
  induction h with
  | init => simp [SdEmpty]
  | step s s' _ st ih => exact sdEmpty_step c s s' ih st

theorem fifo_step (c : Cfg) (s s' : S) (hsd : SdEmpty s) (h : Fifo s) (st : Step c s s') : Fifo s' := by
  unfold Fifo pipeline liveBacklog at *
  cases st <;> (try dsimp only [doSubmit, doTake, doFinish, doReport, doReady] at *)
  case submit p h1 h2 =>
    simp only [doSubmit, List.range_succ, ← h, List.append_assoc]
  case shutdown h1 => exact h
  case take t rest h1 h2 =>
    simp only [h1] at h
    simp only [doTake, ← h, List.append_assoc, List.cons_append, List.nil_append]
  case finish t ht => exact h
  case report h1 h2 => exact h
  case recv t rest h1 h2 =>
    simp only [h1, h2, held, lb, List.nil_append] at h
    simp only [held, lb, ← h, List.cons_append, List.nil_append]
  case closed h1 h2 h3 =>
    simp only [h1, h2, held, lb] at h
    simp only [held, lb, List.drop_zero, ← h, h2]
  case selReadyEmpty h1 h2 h3 => exact h
  case selReadyBacklog h1 h2 h3 =>
    simp only [h1, held, lb] at h
    simp only [doReady, held, lb, ← h]
  case handoff t h1 h2 =>
    have h2 := h2.1
    simp only [h1, h2, held, lb, List.nil_append] at h
    simp only [held, lb, h2, ← h, List.append_assoc, List.cons_append, List.nil_append]
  case toBacklog t h1 h2 h3 =>
    simp only [h1, held, lb] at h
    simp only [held, lb, ← h, List.append_assoc, List.cons_append, List.nil_append]
  case toWait t h1 h2 h3 =>
    simp only [h1, held, lb] at h
    simp only [held, lb, ← h]
  case waitReady t h1 h2 =>
    simp only [h1, held, lb] at h
    by_cases hb : s.backlog = []
    · simp only [doReady, hb, if_true, held, lb, ← h]
    · simp only [doReady, hb, if_false, held, lb, ← h]
  case sendDirect t h1 h2 =>
    have hb := hsd t h1
    simp only [h1, hb, held, lb, List.nil_append] at h
    simp only [held, lb, hb, ← h, List.append_assoc, List.cons_append, List.nil_append]
  case sendBacklog t b rest h1 h2 h3 =>
    simp only [h1, h2, held, lb] at h
    simp only [held, lb, ← h, List.append_assoc, List.cons_append, List.nil_append]
  case sendBacklog2 b rest h1 h2 h3 =>
    simp only [h1, h2, held, lb] at h
    simp only [held, lb, ← h, List.append_assoc, List.cons_append, List.nil_append]
  case drainSend i b h1 h2 h3 =>
    simp only [h1, held, lb, drop_cons_of_get _ _ _ h2] at h
    simp only [held, lb, ← h, List.append_assoc, List.cons_append, List.nil_append]
  case drainReady i h1 h2 h3 => exact h
  case drainDone i h1 h2 =>
    simp only [h1, held, lb, List.drop_eq_nil_of_le h2] at h
    simp only [held, lb, ← h]
  case finalReady h1 h2 h3 => exact h
  case finalClose h1 h2 =>
    simp only [h1, held, lb] at h
    simp only [held, lb, ← h]
  case signalDone h1 h2 =>
    simp only [h1, held, lb] at h
    simp only [held, lb, ← h]

theorem fifo (c : Cfg) (s : S) (h : Reachable c s) : Fifo s := by
  induction h with
  | init => rfl
  | step s s' hr st ih => exact fifo_step c s s' (sdEmpty c s hr) ih st

/-- corollary: the start order is an initial segment of the submission order, for any number of workers -/
theorem started_prefix (c : Cfg) (s : S) (h : Reachable c s) : s.started <+: List.range s.nextId := by
  have := fifo c s h
  unfold Fifo pipeline at this
  exact ⟨_, this⟩

/-! ### the counter equation and "Shutdown waits for everything" -/

/-- **the counter equation**: what the dispatcher has received and not yet seen reported back is exactly what is
    in flight -/
def Counter (s : S) : Prop :=
  s.received = s.processed + s.ready + s.reporting + s.running.length + s.tq.length
                + (liveBacklog s).length + (held s.pc).length

theorem drop_len (l : List Nat) (i b : Nat) (h : l[i]? = some b) : (l.drop i).length = (l.drop (i + 1)).length + 1 := by
  have hi : i < l.length := by
    rcases Nat.lt_or_ge i l.length with h' | h'
    · exact h'
    · have : l[i]? = none := List.getElem?_eq_none h'
      rw [this] at h; cases h
  simp only [List.length_drop]; omega

theorem counter_step (c : Cfg) (s s' : S) (h : Counter s) (st : Step c s s') : Counter s' := by
  unfold Counter liveBacklog at *
  cases st <;> (try dsimp only [doSubmit, doTake, doFinish, doReport, doReady] at *)
  case submit p h1 h2 => exact h
  case shutdown h1 => exact h
  case take t rest h1 h2 => simp only [h1, List.length_cons, doTake] at h ⊢; omega
  case finish t ht =>
    have := List.length_erase_of_mem ht
    have hpos : 0 < s.running.length := List.length_pos_of_mem ht
    simp only [doFinish, this]; omega
  case report h1 h2 => omega
  case recv t rest h1 h2 => simp only [h1, held, lb, List.length_cons, List.length_nil] at h ⊢; omega
  case closed h1 h2 h3 => simp only [h1, held, lb, List.drop_zero] at h ⊢; exact h
  case selReadyEmpty h1 h2 h3 => omega
  case selReadyBacklog h1 h2 h3 => simp only [h1, held, lb, doReady] at h ⊢; omega
  case handoff t h1 h2 => simp only [h1, held, lb, List.length_append, List.length_cons, List.length_nil] at h ⊢; omega
  case toBacklog t h1 h2 h3 => simp only [h1, held, lb, List.length_append, List.length_cons, List.length_nil] at h ⊢; omega
  case toWait t h1 h2 h3 => simp only [h1, held, lb] at h ⊢; exact h
  case waitReady t h1 h2 =>
    simp only [h1, held, lb] at h
    by_cases hb : s.backlog = []
    · simp only [doReady, hb, if_true, held, lb, List.length_cons, List.length_nil] at h ⊢; omega
    · simp only [doReady, hb, if_false, held, lb, List.length_cons, List.length_nil] at h ⊢; omega
  case sendDirect t h1 h2 => simp only [h1, held, lb, List.length_append, List.length_cons, List.length_nil] at h ⊢; omega
  case sendBacklog t b rest h1 h2 h3 =>
    simp only [h1, h2, held, lb, List.length_append, List.length_cons, List.length_nil] at h ⊢; omega
  case sendBacklog2 b rest h1 h2 h3 =>
    simp only [h1, h2, held, lb, List.length_append, List.length_cons, List.length_nil] at h ⊢; omega
  case drainSend i b h1 h2 h3 =>
    have := drop_len _ _ _ h2
    simp only [h1, held, lb, List.length_append, List.length_cons, List.length_nil] at h ⊢; omega
  case drainReady i h1 h2 h3 => simp only [h1, held, lb, doReady] at h ⊢; omega
  case drainDone i h1 h2 =>
    simp only [h1, held, lb, List.drop_eq_nil_of_le h2, List.length_nil] at h ⊢; exact h
  case finalReady h1 h2 h3 => simp only [h1, held, lb, doReady] at h ⊢; omega
  case finalClose h1 h2 => simp only [h1, held, lb] at h ⊢; exact h
  case signalDone h1 h2 => simp only [h1, held, lb] at h ⊢; exact h

theorem counter (c : Cfg) (s : S) (h : Reachable c s) : Counter s := by
  induction h with
  | init => rfl
  | step s s' _ st ih => exact counter_step c s s' ih st

/-- the dispatcher only closes `tasks` and reports done when the two counters agree, and they stay equal -/
def Quiet (s : S) : Prop := (s.pc = .ds ∨ s.pc = .fin) → s.received = s.processed

theorem quiet (c : Cfg) (s : S) (h : Reachable c s) : Quiet s := by
  induction h with
  | init => intro h; simp at h
  | step s s' _ st ih =>
    cases st <;> simp_all [Quiet, doSubmit, doTake, doFinish, doReport, doReady]
    case waitReady t h1 h2 => by_cases hb : s.backlog = [] <;> simp [hb]

/-- **Shutdown waits for everything**: when the dispatcher signals completion no task is queued, running or
    unreported — with `conservation`, every accepted task has finished -/
theorem shutdown_complete (c : Cfg) (s : S) (h : Reachable c s) (hp : s.pc = .ds ∨ s.pc = .fin) :
    s.running = [] ∧ s.tq = [] ∧ s.reporting = 0 ∧ s.ready = 0 := by
  have hc := counter c s h
  have hq := quiet c s h hp
  unfold Counter at hc
  have : s.running.length = 0 ∧ s.tq.length = 0 ∧ s.reporting = 0 ∧ s.ready = 0 := by omega
  exact ⟨List.eq_nil_of_length_eq_zero this.1, List.eq_nil_of_length_eq_zero this.2.1, this.2.2.1, this.2.2.2⟩

/-- once the input channel has been seen closed it is empty for good (Submit is refused after Shutdown) -/
def Drained (s : S) : Prop :=
  ((∃ i, s.pc = .dr i) ∨ s.pc = .fw ∨ s.pc = .ds ∨ s.pc = .fin) → s.inq = [] ∧ 1 ≤ s.shut

theorem drained (c : Cfg) (s : S) (h : Reachable c s) : Drained s := by
  induction h with
  | init => intro h; simp at h
  | step s s' _ st ih =>
    cases st <;> simp_all [Drained, doSubmit, doTake, doFinish, doReport, doReady]
    all_goals (try omega)
    case waitReady t h1 h2 => by_cases hb : s.backlog = [] <;> simp [hb]

/-- **every accepted task has run to completion exactly once when Shutdown returns** -/
theorem all_finished (c : Cfg) (s : S) (h : Reachable c s) (hp : s.pc = .ds ∨ s.pc = .fin) (id : Nat) :
    s.finished.count id = if id < s.nextId then 1 else 0 := by
  obtain ⟨h1, h2, _, _⟩ := shutdown_complete c s h hp
  have hd := (drained c s h (by rcases hp with hp | hp <;> simp [hp])).1
  have hc := conservation c s h id
  unfold places liveBacklog at hc
  rcases hp with hp | hp <;> simpa [h1, h2, hd, hp, held, lb] using hc

/-! ### deadlock-freedom after Shutdown -/

def T (s : S) : Nat := s.tq.length + s.running.length + s.reporting + s.ready
def owes : PC → Nat | .sd _ | .sb _ | .sb2 => 1 | _ => 0

/-- **Lemma A**: if anything is in flight, a worker can move or a `ready` token is waiting for the dispatcher -/
theorem lemmaA (c : Cfg) (s : S) (hw : 1 ≤ c.workers) (hb : Bounds c s) (hT : 1 ≤ T s) :
    (∃ s', Step c s s') ∨ 0 < s.ready := by
  obtain ⟨b1, b2, b3⟩ := hb
  unfold T at hT
  cases hr : s.running with
  | cons t rest => left; exact ⟨_, Step.finish s t (by rw [hr]; simp)⟩
  | nil =>
    rw [hr] at hT b1
    simp only [List.length_nil] at hT b1
    by_cases hrep : 0 < s.reporting
    · by_cases hrd : s.ready < c.workers
      · left; exact ⟨_, Step.report s hrep hrd⟩
      · right; omega
    · cases hq : s.tq with
      | cons t rest =>
        left; exact ⟨_, Step.take s t rest hq (by rw [hr]; simp; omega)⟩
      | nil => right; rw [hq] at hT; simp at hT; omega

/-- **Invariant K** -/
def K (c : Cfg) (s : S) : Prop := T s + owes s.pc ≤ 3 * c.workers

theorem K_step (c : Cfg) (s s' : S) (hb : Bounds c s) (hb' : Bounds c s') (h : K c s) (st : Step c s s') : K c s' := by
  obtain ⟨b1, b2, b3⟩ := hb
  obtain ⟨b1', b2', b3'⟩ := hb'
  unfold K T at *
  cases st <;> (try dsimp only [doSubmit, doTake, doFinish, doReport, doReady] at *)
  case finish t ht =>
    have := List.length_erase_of_mem ht
    have hpos : 0 < s.running.length := List.length_pos_of_mem ht
    simp only [doFinish, this] at *; omega
  case waitReady t h1 h2 =>
    by_cases hbk : s.backlog = []
    · simp only [doReady, hbk, if_true, h1, owes] at *; omega
    · simp only [doReady, hbk, if_false, h1, owes] at *; omega
  all_goals (simp_all [owes, doSubmit, doTake, doReport, doReady] <;> omega)

theorem K_inv (c : Cfg) (s : S) (h : Reachable c s) : K c s := by
  induction h with
  | init => simp [K, T, owes]
  | step s s' hr st ih => exact K_step c s s' (bounds c s hr) (bounds c s' (Reachable.step s s' hr st)) ih st

/-- outside the owing and draining states a non-empty backlog, and always the bounded-wait state, mean that
    something is in flight -/
def B (s : S) : Prop :=
  ((s.pc = .sel ∨ ∃ t, s.pc = .got t) → s.backlog ≠ [] → 1 ≤ T s) ∧ ((∃ t, s.pc = .wr t) → 1 ≤ T s)

theorem B_step (c : Cfg) (hw : 1 ≤ c.workers) (s s' : S) (h : B s) (st : Step c s s') : B s' := by
  obtain ⟨h1, h2⟩ := h
  unfold B T at *
  cases st <;> (try dsimp only [doSubmit, doTake, doFinish, doReport, doReady] at *)
  case finish t ht =>
    have := List.length_erase_of_mem ht
    have hpos : 0 < s.running.length := List.length_pos_of_mem ht
    simp only [doFinish, this] at *
    constructor
    · intro a b; have := h1 a b; omega
    · intro a; have := h2 a; omega
  case take t rest g1 g2 =>
    simp only [doTake, g1, List.length_cons] at *
    constructor
    · intro a b; have := h1 a b; omega
    · intro a; have := h2 a; omega
  case report g1 g2 =>
    constructor
    · intro a b; have := h1 a b; omega
    · intro a; have := h2 a; omega
  case toWait t g1 g2 g3 =>
    constructor
    · intro a; simp at a
    · intro _
      by_cases hb : s.backlog = []
      · have : ¬ s.tq.length < c.workers := fun x => g2 ⟨hb, x⟩
        (try simp only at *); omega
      · exact h1 (Or.inr ⟨t, g1⟩) hb
  case toBacklog t g1 g2 g3 =>
    constructor
    · intro _ _
      by_cases hb : s.backlog = []
      · have : ¬ s.tq.length < c.workers := fun x => g2 ⟨hb, x⟩
        (try simp only at *); omega
      · exact h1 (Or.inr ⟨t, g1⟩) hb
    · intro a; simp at a
  case waitReady t g1 g2 =>
    constructor
    · intro a; by_cases hb : s.backlog = [] <;> simp [doReady, hb] at a
    · intro a; by_cases hb : s.backlog = [] <;> simp [doReady, hb] at a
  all_goals (simp_all [doSubmit, doReady] <;> omega)

theorem B_inv (c : Cfg) (hw : 1 ≤ c.workers) (s : S) (h : Reachable c s) : B s := by
  induction h with
  | init => simp [B, T]
  | step s s' _ st ih => exact B_step c hw s s' ih st

def ShutInv (s : S) : Prop := s.shut ≤ 2 ∧ (s.shut = 2 → s.pc = .fin)
theorem shutInv (c : Cfg) (s : S) (h : Reachable c s) : ShutInv s := by
  induction h with
  | init => simp [ShutInv]
  | step s s' _ st ih =>
    cases st <;> simp_all [ShutInv, doSubmit, doTake, doFinish, doReport, doReady]
    all_goals (try omega)

/-- with `tasks` full and the dispatcher owing a send, a worker can move (K excludes the all-blocked state) -/
theorem lemmaA' (c : Cfg) (s : S) (hw : 1 ≤ c.workers) (hb : Bounds c s) (hk : K c s) (ho : owes s.pc = 1)
    (hfull : ¬ s.tq.length < c.workers) : ∃ s', Step c s s' := by
  obtain ⟨b1, b2, b3⟩ := hb
  unfold K T at hk
  rw [ho] at hk
  cases hr : s.running with
  | cons t rest => exact ⟨_, Step.finish s t (by rw [hr]; simp)⟩
  | nil =>
    rw [hr] at hk b1
    simp only [List.length_nil] at hk b1
    by_cases hrep : 0 < s.reporting ∧ s.ready < c.workers
    · exact ⟨_, Step.report s hrep.1 hrep.2⟩
    · cases hq : s.tq with
      | nil => rw [hq] at hfull; simp at hfull; omega
      | cons t rest =>
        by_cases hidle : s.running.length + s.reporting < c.workers
        · exact ⟨_, Step.take s t rest hq hidle⟩
        · exfalso
          rw [hr] at hidle
          simp only [List.length_nil, Nat.zero_add] at hidle
          have : ¬ (0 < s.reporting) ∨ ¬ (s.ready < c.workers) := by
            by_cases h0 : 0 < s.reporting
            · right; exact fun h => hrep ⟨h0, h⟩
            · left; exact h0
          omega

/-- **no deadlock after Shutdown**: until the dispatcher has reported completion some step is always enabled -/
theorem progress (c : Cfg) (hw : 1 ≤ c.workers) (s : S) (h : Reachable c s) (hs : 1 ≤ s.shut) (hp : s.pc ≠ .fin) :
    ∃ s', Step c s s' := by
  have hb := bounds c s h
  have hk := K_inv c s h
  have hB := B_inv c hw s h
  have hi := indexSafe c s h
  have hc := counter c s h
  have hsi := shutInv c s h
  cases hpc : s.pc with
  | sel =>
    cases hq : s.inq with
    | nil => exact ⟨_, Step.closed s hpc hq hs⟩
    | cons t rest => exact ⟨_, Step.recv s t rest hpc hq⟩
  | got t =>
    by_cases h1 : canHandOff c s
    · exact ⟨_, Step.handoff s t hpc h1⟩
    · by_cases h2 : roomInBacklog c s
      · exact ⟨_, Step.toBacklog s t hpc h1 h2⟩
      · exact ⟨_, Step.toWait s t hpc h1 h2⟩
  | wr t =>
    rcases lemmaA c s hw hb (hB.2 ⟨t, hpc⟩) with h1 | h1
    · exact h1
    · exact ⟨_, Step.waitReady s t hpc h1⟩
  | sd t =>
    by_cases hf : s.tq.length < c.workers
    · exact ⟨_, Step.sendDirect s t hpc hf⟩
    · exact lemmaA' c s hw hb hk (by rw [hpc]; rfl) hf
  | sb t =>
    by_cases hf : s.tq.length < c.workers
    · cases hbk : s.backlog with
      | nil => exact absurd hbk (hi.1 t hpc)
      | cons b rest => exact ⟨_, Step.sendBacklog s t b rest hpc hbk hf⟩
    · exact lemmaA' c s hw hb hk (by rw [hpc]; rfl) hf
  | sb2 =>
    by_cases hf : s.tq.length < c.workers
    · cases hbk : s.backlog with
      | nil => exact absurd hbk (hi.2 hpc)
      | cons b rest => exact ⟨_, Step.sendBacklog2 s b rest hpc hbk hf⟩
    · exact lemmaA' c s hw hb hk (by rw [hpc]; rfl) hf
  | dr i =>
    by_cases hlen : s.backlog.length ≤ i
    · exact ⟨_, Step.drainDone s i hpc hlen⟩
    · have hi' : i < s.backlog.length := by omega
      by_cases hf : s.tq.length < c.workers
      · exact ⟨_, Step.drainSend s i s.backlog[i] hpc (List.getElem?_eq_getElem hi') hf⟩
      · have hT : 1 ≤ T s := by unfold T; omega
        rcases lemmaA c s hw hb hT with h1 | h1
        · exact h1
        · exact ⟨_, Step.drainReady s i hpc hi' h1⟩
  | fw =>
    by_cases he : s.received = s.processed
    · exact ⟨_, Step.finalClose s hpc he⟩
    · have hT : 1 ≤ T s := by
        unfold Counter liveBacklog at hc
        simp only [hpc, held, lb, List.length_nil] at hc
        unfold T; omega
      rcases lemmaA c s hw hb hT with h1 | h1
      · exact h1
      · exact ⟨_, Step.finalReady s hpc he h1⟩
  | ds =>
    have : s.shut = 1 := by
      have := hsi.2
      by_cases h2 : s.shut = 2
      · have := this h2; rw [hpc] at this; cases this
      · have := hsi.1; omega
    exact ⟨_, Step.signalDone s hpc this⟩
  | fin => exact absurd hpc hp

end TQ
