import Model.NotifierJudge
import Lemmas.NotifierConc
/-! C17: what the linearizability judge accepts as the observation of a `Notify` is a delivery the property allows. -/
namespace NtJ
open Nt NtC

theorem perm_of_nodup_subset_length {l₁ l₂ : List Nat} (hd : l₁.Nodup) (hs : ∀ x ∈ l₁, x ∈ l₂)
    (hl : l₂.length ≤ l₁.length) : l₁.Perm l₂ := by
  induction l₁ generalizing l₂ with
  | nil =>
    cases l₂ with
    | nil => exact .nil
    | cons b l => simp at hl
  | cons a l ih =>
    have ha : a ∈ l₂ := hs a (by simp)
    have hnd := List.nodup_cons.mp hd
    have h2 : l₂.Perm (a :: l₂.erase a) := List.perm_cons_erase ha
    have hsub : ∀ x ∈ l, x ∈ l₂.erase a := by
      intro x hx
      have hne : x ≠ a := fun e => hnd.1 (e ▸ hx)
      exact (List.mem_erase_of_ne hne).mpr (hs x (by simp [hx]))
    have hlen : (l₂.erase a).length ≤ l.length := by
      rw [List.length_erase_of_mem ha]
      simp only [List.length_cons] at hl
      omega
    exact ((ih hnd.2 hsub hlen).cons a).trans h2.symm

theorem handlesOk_sound (tb : List (Nat × Int)) (name : List Nat) (hs : List (Nat × List Nat)) (last : Option Int)
    (seen : List Nat) (h : handlesOk tb name hs last seen = true) :
    (∀ x ∈ hs, x.2 = name ∧ x.1 ∈ keys tb ∧ x.1 ∉ seen) ∧ (hs.map (·.1)).Nodup ∧
    (hs.map (fun x => (assocGet tb x.1).getD 0)).Pairwise (fun a b => a ≥ b) ∧
    (∀ q, last = some q → ∀ x ∈ hs, q ≥ (assocGet tb x.1).getD 0) := by
  induction hs generalizing last seen with
  | nil => exact ⟨fun x hx => (by cases hx), (by simp), (by simp), fun q _ x hx => (by cases hx)⟩
  | cons a rest ih =>
    obtain ⟨t, nm⟩ := a
    unfold handlesOk at h
    cases hg : assocGet tb t with
    | none => rw [hg] at h; cases h
    | some p =>
      rw [hg] at h
      simp only [Bool.and_eq_true, beq_iff_eq, Bool.not_eq_true', List.contains_eq_mem, decide_eq_false_iff_not] at h
      obtain ⟨⟨⟨hnm, hseen⟩, hlast⟩, hrest⟩ := h
      obtain ⟨i1, i2, i3, i4⟩ := ih (some p) (t :: seen) hrest
      have hp : (assocGet tb t).getD 0 = p := by rw [hg]; rfl
      refine ⟨?_, ?_, ?_, ?_⟩
      · intro x hx
        rcases List.mem_cons.mp hx with rfl | hx
        · exact ⟨hnm, (mem_keys_iff tb _).mpr (by simp [hg]), hseen⟩
        · obtain ⟨a, b, c⟩ := i1 x hx
          exact ⟨a, b, fun hc => c (List.mem_cons_of_mem _ hc)⟩
      · simp only [List.map_cons, List.nodup_cons]
        refine ⟨?_, i2⟩
        intro hm
        obtain ⟨x, hx, hxt⟩ := List.mem_map.mp hm
        exact (i1 x hx).2.2 (by simp [hxt])
      · simp only [List.map_cons, List.pairwise_cons]
        refine ⟨?_, i3⟩
        intro b hb
        obtain ⟨x, hx, rfl⟩ := List.mem_map.mp hb
        rw [hp]
        exact i4 p rfl x hx
      · intro q hq x hx
        subst hq
        simp only [decide_eq_true_eq] at hlast
        rcases List.mem_cons.mp hx with rfl | hx
        · rw [hp]; exact hlast
        · exact Int.le_trans (i4 p rfl x hx) hlast

theorem collectTbl_if (s : NSt) (raw : List Nat) :
    (if s.enabled then collectTbl s raw else []) = collectTbl s raw := by
  unfold collectTbl; cases s.enabled <;> rfl

theorem collectTbl_nodup (s : NSt) (raw : List Nat) : (keys (collectTbl s raw)).Nodup := by
  unfold collectTbl
  split
  · exact gather_nodup _ _
  · simp [keys]

/-- **the judge's test for a `Notify`**: if it accepts the observed calls `hs` against the results the two brackets of
    `Notify(raw)` return in state `s`, then the targets called are a permutation of the delivery list of the sequential
    model (each exactly once), every call carried the normalised name, every call's priority is the one the delivery list
    attaches to that target, and the priorities do not increase along the observed order -/
theorem notifyObsOk_sound (s : NSt) (raw : List Nat) (hs : List (Nat × List Nat))
    (h : notifyObsOk s.enabled (collectTbl s raw) raw false hs = true) :
    (hs.map (·.1)).Perm (targetsOf (notify s raw)) ∧
    (∀ x ∈ hs, x.2 = joinDots (normalize raw)) ∧
    (∀ x ∈ hs, ((assocGet (collectTbl s raw) x.1).getD 0, x.1) ∈ notify s raw) ∧
    (hs.map (fun x => (assocGet (collectTbl s raw) x.1).getD 0)).Pairwise (fun a b => a ≥ b) := by
  unfold notifyObsOk at h
  simp only [collectTbl_if, Bool.not_false, Bool.true_and, Bool.and_eq_true, beq_iff_eq] at h
  obtain ⟨hlen, hok⟩ := h
  obtain ⟨i1, i2, i3, _⟩ := handlesOk_sound _ _ hs none [] hok
  have hperm : (notify s raw).Perm ((collectTbl s raw).map (fun tp => (tp.2, tp.1))) := by
    rw [← sortTbl_collectTbl]; exact List.mergeSort_perm _ _
  have hkeys : (targetsOf (notify s raw)).Perm (keys (collectTbl s raw)) := by
    have := hperm.map (fun (x : Int × Nat) => x.2)
    unfold targetsOf keys
    simpa [List.map_map, Function.comp_def] using this
  refine ⟨?_, fun x hx => (i1 x hx).1, ?_, i3⟩
  · refine (perm_of_nodup_subset_length i2 ?_ ?_).trans hkeys.symm
    · intro t ht
      obtain ⟨x, hx, rfl⟩ := List.mem_map.mp ht
      exact (i1 x hx).2.1
    · simp [keys, hlen]
  · intro x hx
    have hk := (i1 x hx).2.1
    rw [mem_keys_iff] at hk
    obtain ⟨p, hp⟩ := Option.isSome_iff_exists.mp hk
    rw [hp, hperm.mem_iff]
    exact List.mem_map.mpr ⟨(x.1, p), mem_of_assocGet _ _ _ hp, rfl⟩

/-- the judge may place the two brackets of a `Notify` at DIFFERENT registry states (`s₁`: the `Enabled()` check, `s₂`: the
    walk; other goroutines' brackets in between): what it accepts is an allowed delivery for the state `sL` of
    `C17.notify_delivers_snapshot` — `s₂`, or `s₁` if the check saw the notifier disabled -/
theorem notifyObsOk_sound_mixed (s₁ s₂ : NSt) (raw : List Nat) (hs : List (Nat × List Nat))
    (h : notifyObsOk s₁.enabled (collectTbl s₂ raw) raw false hs = true) :
    (hs.map (·.1)).Perm (targetsOf (notify (if s₁.enabled then s₂ else s₁) raw)) ∧
    (∀ x ∈ hs, x.2 = joinDots (normalize raw)) ∧
    (∀ x ∈ hs, ((assocGet (collectTbl (if s₁.enabled then s₂ else s₁) raw) x.1).getD 0, x.1) ∈
      notify (if s₁.enabled then s₂ else s₁) raw) ∧
    (hs.map (fun x => (assocGet (collectTbl (if s₁.enabled then s₂ else s₁) raw) x.1).getD 0)).Pairwise (fun a b => a ≥ b) := by
  cases he : s₁.enabled with
  | true =>
    simp only [if_true]
    apply notifyObsOk_sound s₂ raw hs
    rw [he] at h
    unfold notifyObsOk at h ⊢
    simpa only [collectTbl_if, if_true] using h
  | false =>
    rw [he] at h
    unfold notifyObsOk at h
    simp only [Bool.false_eq_true, if_false, Bool.not_false, Bool.true_and, Bool.and_eq_true, beq_iff_eq,
      List.length_nil, List.length_eq_zero_iff] at h
    have hnil : hs = [] := h.1
    subst hnil
    have hn : notify s₁ raw = [] := by simp [notify, he]
    simp [hn, targetsOf]

end NtJ
