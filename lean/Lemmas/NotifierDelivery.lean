import Lemmas.NotifierBatch
/-! C17: the delivery list of `notify` in terms of the lookup relation; panic isolation of the delivery loops. -/
namespace Nt

/-- the targets of a delivery list, in delivery order -/
def targetsOf (d : List (Int × Nat)) : List Nat := d.map (·.2)

theorem targetsOf_delivery_perm (prod : PMap) (n : Name) :
    (targetsOf (delivery prod n)).Perm (keys (gather prod (prefixes n))) := by
  have h := (delivery_perm prod n).map (fun (x : Int × Nat) => x.2)
  unfold targetsOf keys
  simpa [List.map_map, Function.comp_def] using h

theorem mem_delivery (prod : PMap) (n : Name) (p : Int) (t : Nat) :
    (p, t) ∈ delivery prod n ↔ assocGet (gather prod (prefixes n)) t = some p := by
  rw [(delivery_perm prod n).mem_iff]
  simp only [List.mem_map, Prod.mk.injEq]
  constructor
  · rintro ⟨⟨t', p'⟩, hm, h1, h2⟩
    simp only at h1 h2; subst h1; subst h2
    exact assocGet_of_mem _ (gather_nodup prod _) _ _ hm
  · intro h
    exact ⟨(t, p), mem_of_assocGet _ _ _ h, rfl, rfl⟩

/-- who is notified, in terms of the production map (state level; needs the invariant) -/
theorem mem_targets_notify (s : NSt) (h : Inv s) (raw : List Nat) (t : Nat) :
    t ∈ targetsOf (notify s raw) ↔
      s.enabled = true ∧ ∃ pre, pre ≠ [] ∧ pre <+: normalize raw ∧ (lookup s.prod pre t).isSome := by
  unfold notify
  by_cases he : s.enabled = true
  · simp only [he, Bool.not_true, Bool.false_eq_true, if_false, true_and]
    by_cases hn : normalize raw = []
    · simp only [hn, if_true, targetsOf, List.map_nil, List.not_mem_nil, false_iff]
      rintro ⟨pre, h1, h2, _⟩
      exact h1 (List.prefix_nil.mp h2)
    · simp only [hn, if_false]
      rw [(targetsOf_delivery_perm s.prod _).mem_iff]
      exact notify_targets s.prod h.sets _ t
  · have : s.enabled = false := by cases hb : s.enabled <;> simp_all
    simp [this, targetsOf]

theorem nodup_targets_notify (s : NSt) (raw : List Nat) : (targetsOf (notify s raw)).Nodup := by
  unfold notify
  split
  · simp [targetsOf]
  · simp only
    split
    · simp [targetsOf]
    · exact (targetsOf_delivery_perm s.prod _).nodup_iff.mpr (gather_nodup _ _)

theorem sorted_notify (s : NSt) (raw : List Nat) : (notify s raw).Pairwise (fun a b => a.1 ≥ b.1) := by
  unfold notify
  split
  · simp
  · simp only
    split
    · simp
    · exact delivery_sorted _ _

theorem prio_notify (s : NSt) (h : Inv s) (raw : List Nat) (p : Int) (t : Nat) (hm : (p, t) ∈ notify s raw) :
    ∃ pre, pre ≠ [] ∧ pre <+: normalize raw ∧ lookup s.prod pre t = some p ∧
      ∀ pre', pre' <+: normalize raw → pre.length < pre'.length → lookup s.prod pre' t = none := by
  unfold notify at hm
  split at hm
  · cases hm
  · simp only at hm
    split at hm
    · cases hm
    · rw [mem_delivery, gather_get _ h.sets] at hm
      exact best_prefixes_spec _ _ _ _ hm

theorem notify_nil_of_no_targets (s : NSt) (raw : List Nat) (h : ∀ t, t ∉ targetsOf (notify s raw)) : notify s raw = [] := by
  cases hl : notify s raw with
  | nil => rfl
  | cons a l =>
    exfalso
    apply h a.2
    rw [hl]; simp [targetsOf]

/-! ### panics -/
def Event.isCall : Event → Bool
  | .recovered .. => false
  | _ => true

def Event.target : Event → Nat
  | .handle _ t _ _ => t
  | .batchMode _ t _ => t
  | .recovered _ t => t

def calls (evs : List Event) : List Event := evs.filter Event.isCall
def reports (evs : List Event) : Nat := (evs.filter (fun e => !e.isCall)).length

def nobody : Nat → Bool := fun _ => false

theorem deliverAll_nobody (n : Nat) (name : Name) (ds : List (Int × Nat)) :
    deliverAll nobody n name ds = ds.map (fun d => Event.handle n d.2 name d.1) := by
  unfold deliverAll
  induction ds with
  | nil => rfl
  | cons d ds ih => simp [List.flatMap_cons, notifyTarget, nobody, ih]

theorem batchAll_nobody (n : Nat) (b : Bool) (ts : List Nat) :
    batchAll nobody n b ts = ts.map (fun t => Event.batchMode n t b) := by
  unfold batchAll
  induction ts with
  | nil => rfl
  | cons d ds ih => simp [List.flatMap_cons, notifyBatchTarget, nobody, ih]

theorem calls_notifyTarget (pan : Nat → Bool) (n : Nat) (name : Name) (d : Int × Nat) :
    (notifyTarget pan n name d).filter Event.isCall = [Event.handle n d.2 name d.1] ∧
    ((notifyTarget pan n name d).filter (fun e => !e.isCall)).length = if (pan d.2 && reports? n) = true then 1 else 0 := by
  unfold notifyTarget
  by_cases hp : (pan d.2 && reports? n) = true
  · simp [hp, Event.isCall, List.filter_cons]
  · simp [hp, Event.isCall, List.filter_cons]

theorem calls_notifyBatchTarget (pan : Nat → Bool) (n : Nat) (b : Bool) (t : Nat) :
    (notifyBatchTarget pan n b t).filter Event.isCall = [Event.batchMode n t b] ∧
    ((notifyBatchTarget pan n b t).filter (fun e => !e.isCall)).length = if (pan t && reports? n) = true then 1 else 0 := by
  unfold notifyBatchTarget
  by_cases hp : (pan t && reports? n) = true
  · simp [hp, Event.isCall, List.filter_cons]
  · simp [hp, Event.isCall, List.filter_cons]

/-- the calls made do not depend on who panics; the recovery handler (if the notifier has one) gets one report per
    call made to a panicking target -/
theorem calls_deliverAll (pan : Nat → Bool) (n : Nat) (name : Name) (ds : List (Int × Nat)) :
    calls (deliverAll pan n name ds) = deliverAll nobody n name ds ∧
    reports (deliverAll pan n name ds) =
      if reports? n = true then ((deliverAll nobody n name ds).filter (fun e => pan e.target)).length else 0 := by
  rw [deliverAll_nobody]
  unfold deliverAll calls reports
  induction ds with
  | nil => simp
  | cons d ds ih =>
    simp only [List.flatMap_cons, List.filter_append, List.length_append, List.map_cons, List.filter_cons, ih.1, ih.2,
      (calls_notifyTarget pan n name d).1, (calls_notifyTarget pan n name d).2, Event.target]
    by_cases hr : reports? n = true
    · by_cases hp : pan d.2 = true
      · simp [hp, hr]; omega
      · simp [hp, hr]
    · simp [hr]

theorem calls_batchAll (pan : Nat → Bool) (n : Nat) (b : Bool) (ts : List Nat) :
    calls (batchAll pan n b ts) = batchAll nobody n b ts ∧
    reports (batchAll pan n b ts) =
      if reports? n = true then ((batchAll nobody n b ts).filter (fun e => pan e.target)).length else 0 := by
  rw [batchAll_nobody]
  unfold batchAll calls reports
  induction ts with
  | nil => simp
  | cons d ds ih =>
    simp only [List.flatMap_cons, List.filter_append, List.length_append, List.map_cons, List.filter_cons, ih.1, ih.2,
      (calls_notifyBatchTarget pan n b d).1, (calls_notifyBatchTarget pan n b d).2, Event.target]
    by_cases hr : reports? n = true
    · by_cases hp : pan d = true
      · simp [hp, hr]; omega
      · simp [hp, hr]
    · simp [hr]

end Nt
