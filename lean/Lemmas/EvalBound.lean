import Lemmas.EvalTotal
import Lemmas.EvalInfix
/-! C09, robustness of `Evaluate`: every argument text stored in a parsed tree is strictly shorter than the input, so the
    nesting of `EvaluateNew` is bounded by the input length; variable substitution with `$`-free answers terminates.
    Core Lean only. -/
namespace Eval

/-! ### every call node of a parsed tree holds an argument text shorter than the input -/

/-- every argument text in the tree is shorter than `N` -/
def Node.ArgsLt (N : Nat) : Node → Prop
  | .func _ _ args => args.length < N
  | .tree l r _ _ => l.ArgsLt N ∧ r.ArgsLt N
  | _ => True

def St.ArgsLt (N : Nat) (st : St) : Prop := ∀ n ∈ st.opds, n.ArgsLt N

theorem St.ArgsLt_empty (N : Nat) : St.ArgsLt N {} := by
  intro n hn
  simp at hn

theorem processTree_lt (N : Nat) (st st' : St) (hst : st.ArgsLt N) (h : processTree st = .ok st') : st'.ArgsLt N := by
  obtain ⟨opds, ops⟩ := st
  cases ops with
  | nil => simp [processTree] at h
  | cons e rest =>
    rcases opds with _ | ⟨x, _ | ⟨y, t⟩⟩
    · simp [processTree] at h
      subst h
      simp [St.ArgsLt, Node.ArgsLt]
    · simp [processTree] at h
      subst h
      simp [St.ArgsLt] at hst
      simp [St.ArgsLt, Node.ArgsLt, hst]
    · simp [processTree] at h
      subst h
      simp [St.ArgsLt] at hst
      obtain ⟨hx, hy, ht⟩ := hst
      simp [St.ArgsLt, Node.ArgsLt, hx, hy]
      exact ht

theorem reduceWhile_lt (N : Nat) (p : OpEntry → Bool) (fuel : Nat) (st st' : St) (hst : st.ArgsLt N)
    (h : reduceWhile p fuel st = .ok st') : st'.ArgsLt N := by
  induction fuel generalizing st with
  | zero => simp [reduceWhile] at h
  | succ n ih =>
    unfold reduceWhile at h
    cases hops : st.ops with
    | nil => simp [hops] at h; subst h; exact hst
    | cons e rest =>
      simp only [hops] at h
      by_cases hp : p e = true
      · simp only [hp, if_true] at h
        cases hpt : processTree st with
        | ok st'' =>
          simp only [hpt] at h
          exact ih _ (processTree_lt N _ _ hst hpt) h
        | err => simp [hpt] at h
        | panic => simp [hpt] at h
      · simp [hp] at h; subst h; exact hst

theorem pushOperand_lt (N : Nat) (st : St) (un : Option Op) (text : Bytes) (hst : st.ArgsLt N) :
    (pushOperand st un text).ArgsLt N := by
  intro n hn
  simp only [pushOperand, List.mem_cons] at hn
  rcases hn with rfl | hn
  · simp [Node.ArgsLt]
  · exact hst n hn

theorem closeParen_lt (N : Nat) (st st' : St) (hst : st.ArgsLt N) (h : closeParen st = .ok st') : st'.ArgsLt N := by
  unfold closeParen at h
  split at h
  · simp at h
  · simp at h
  · rename_i st1 hrw
    have h1 := reduceWhile_lt N _ _ _ _ hst hrw
    split at h
    · simp at h
    · split at h
      · simp at h
      · split at h
        · injection h with h; subst h; exact h1
        · split at h
          · simp at h
          · rename_i x t hopds
            injection h with h; subst h
            intro n hn
            simp only [List.mem_cons] at hn
            have hx := h1 x (by simp [hopds])
            rcases hn with rfl | hn
            · simp [Node.ArgsLt, hx]
            · exact h1 n (by simp [hopds, hn])

theorem pushBinary_lt (N : Nat) (st st' : St) (op : Op) (un : Option Op) (hst : st.ArgsLt N)
    (h : pushBinary st op un = .ok st') : st'.ArgsLt N := by
  unfold pushBinary at h
  split at h
  · simp at h
  · simp at h
  · rename_i st1 hrw
    injection h with h; subst h
    exact reduceWhile_lt N _ _ _ st1 hst hrw

theorem callFunction_lt (N : Nat) (fns : List Bytes) (st st' : St) (args : Bytes) (hst : st.ArgsLt N)
    (ha : args.length < N) (h : callFunction fns st args = .ok st') : st'.ArgsLt N := by
  unfold callFunction at h
  split at h
  · simp at h
  · rename_i un v rest hopds
    split at h
    · injection h with h; subst h
      intro n hn
      simp only [List.mem_cons] at hn
      rcases hn with rfl | hn
      · simpa [Node.ArgsLt] using ha
      · exact hst n (by simp [hopds, hn])
    · simp at h
  · simp at h

/-- the captured text and what is left add up to what was there -/
theorem captureArgs_length (ops : List Op) (fuel parens : Nat) (pre rest acc args : Bytes) (o : Op) (p r : Bytes)
    (h : captureArgs ops fuel parens pre rest acc = .ok (args, o, p, r)) :
    args.length + r.length = acc.length + rest.length := by
  induction fuel generalizing parens pre rest acc with
  | zero => simp [captureArgs] at h
  | succ n ih =>
    rw [captureArgs_succ] at h
    cases hno : nextOperator ops pre rest with
    | none => simp [hno] at h
    | some q =>
      obtain ⟨sk, o', p', r'⟩ := q
      obtain ⟨_, _, hrest, _, _⟩ := nextOperator_spec _ _ _ _ _ _ _ hno
      simp only [hno] at h
      by_cases hz : parensStep o' parens = 0
      · rw [if_pos hz] at h
        injection h with h
        injection h with h1 h
        injection h with h2 h
        injection h with h3 h4
        subst h1 h4
        simp [hrest]; omega
      · rw [if_neg hz] at h
        cases r' with
        | nil => simp at h
        | cons c t =>
          simp only [] at h
          have := ih _ _ _ _ h
          simp [hrest] at this ⊢
          omega

theorem processOperator_lt (N : Nat) (ops : List Op) (fns : List Bytes) (pre rest : Bytes) (st : St) (op : Op)
    (hv : Bool) (un : Option Op) (p' r' : Bytes) (last : Op) (st' : St) (hst : st.ArgsLt N) (hN : rest.length ≤ N)
    (h : processOperator ops fns pre rest st op hv un = .ok (p', r', last, st')) : st'.ArgsLt N := by
  unfold processOperator at h
  split at h
  · split at h
    · simp at h
    · rename_i c t
      split at h
      · simp at h
      · simp at h
      · rename_i args o p r hca
        have hlen := captureArgs_length _ _ _ _ _ _ _ _ _ _ hca
        obtain ⟨_, _, hrne, _⟩ := captureArgs_spec _ _ _ _ _ _ _ _ _ _ hca
        have hr : 0 < r.length := List.length_pos_iff.mpr hrne
        split at h
        · simp at h
        · simp at h
        · rename_i st1 hcf
          injection h with h
          injection h with _ h
          injection h with _ h
          injection h with _ h
          subst h
          refine callFunction_lt N _ _ _ _ hst ?_ hcf
          simp at hlen hN
          omega
  · split at h
    · simp at h
    · simp at h
    · rename_i st1 hc
      injection h with h
      injection h with _ h
      injection h with _ h
      injection h with _ h
      subst h
      split at hc
      · injection hc with hc; subst hc; exact hst
      · split at hc
        · exact closeParen_lt N _ _ hst hc
        · exact pushBinary_lt N _ _ _ _ hst hc

theorem operatorPhase_cont_lt (N : Nat) (ops : List Op) (fns : List Bytes) (pre rest : Bytes) (op : Op) (st : St)
    (hv : Bool) (un : Option Op) (p' r' : Bytes) (st' : St) (hv' : Bool) (un' : Option Op) (hst : st.ArgsLt N)
    (hN : rest.length ≤ N) (h : operatorPhase ops fns pre rest op st hv un = .cont p' r' st' hv' un') :
    st'.ArgsLt N := by
  unfold operatorPhase at h
  split at h
  · split at h
    · simp at h
    · injection h with h1 h2 h3 h4 h5
      subst h3
      exact hst
  · split at h
    · simp at h
    · simp at h
    · rename_i p r last st'' hpo
      injection h with h1 h2 h3 h4 h5
      subst h3
      exact processOperator_lt N _ _ _ _ _ _ _ _ _ _ _ _ hst hN hpo

theorem operatorPhase_done_lt (N : Nat) (ops : List Op) (fns : List Bytes) (pre rest : Bytes) (op : Op) (st : St)
    (hv : Bool) (un : Option Op) (st' : St)
    (h : operatorPhase ops fns pre rest op st hv un = .done (.ok st')) : st'.ArgsLt N := by
  unfold operatorPhase at h
  split at h
  · split at h <;> simp at h
  · split at h <;> simp at h

theorem scanStep_cont_lt (N : Nat) (ops : List Op) (fns : List Bytes) (pre : Bytes) (c : Nat) (t : Bytes) (st : St)
    (hv : Bool) (un : Option Op) (p' r' : Bytes) (st' : St) (hv' : Bool) (un' : Option Op) (hst : st.ArgsLt N)
    (hN : (c :: t).length ≤ N) (h : scanStep ops fns pre c t st hv un = .cont p' r' st' hv' un') : st'.ArgsLt N := by
  unfold scanStep at h
  split at h
  · split at h <;> simp at h
  · rename_i sk op p r hno
    obtain ⟨_, _, hrest, _, _⟩ := nextOperator_spec _ _ _ _ _ _ _ hno
    have hle : r.length ≤ N := by
      have : r.length ≤ (c :: t).length := by rw [hrest]; simp
      omega
    split at h
    · exact operatorPhase_cont_lt N _ _ _ _ _ _ _ _ _ _ _ _ _ hst hle h
    · split at h
      · simp at h
      · exact operatorPhase_cont_lt N _ _ _ _ _ _ _ _ _ _ _ _ _ (pushOperand_lt N _ _ _ hst) hle h

theorem scanStep_done_lt (N : Nat) (ops : List Op) (fns : List Bytes) (pre : Bytes) (c : Nat) (t : Bytes) (st : St)
    (hv : Bool) (un : Option Op) (st' : St) (hst : st.ArgsLt N)
    (h : scanStep ops fns pre c t st hv un = .done (.ok st')) : st'.ArgsLt N := by
  unfold scanStep at h
  split at h
  · split at h
    · simp at h
    · injection h with h
      injection h with h
      subst h
      exact pushOperand_lt N _ _ _ hst
  · split at h
    · exact operatorPhase_done_lt N _ _ _ _ _ _ _ _ _ h
    · split at h
      · simp at h
      · exact operatorPhase_done_lt N _ _ _ _ _ _ _ _ _ h

theorem parseLoop_lt (N : Nat) (ops : List Op) (fns : List Bytes) (pre rest : Bytes) (st : St) (hv : Bool)
    (un : Option Op) (st' : St) (hst : st.ArgsLt N) (hN : rest.length ≤ N)
    (h : parseLoop ops fns pre rest st hv un = .ok st') : st'.ArgsLt N := by
  induction hn : rest.length using Nat.strongRecOn generalizing pre rest st hv un with
  | ind n ih =>
    cases rest with
    | nil =>
      rw [parseLoop] at h
      injection h with h; subst h; exact hst
    | cons c t =>
      rw [parseLoop] at h
      split at h
      · exact ih t.length (by simp at hn; omega) _ _ _ _ _ hst (by simp at hN; omega) h rfl
      · cases hs : scanStep ops fns pre c t st hv un with
        | done r =>
          simp only [hs] at h
          subst h
          exact scanStep_done_lt N _ _ _ _ _ _ _ _ _ hst hs
        | cont p r st1 hv' un' =>
          simp only [hs] at h
          split at h
          · rename_i hp
            exact ih r.length (by omega) _ _ _ _ _ (scanStep_cont_lt N _ _ _ _ _ _ _ _ _ _ _ _ _ hst hN hs)
              (by omega) h rfl
          · simp at h

theorem finish_lt (N : Nat) (fuel : Nat) (st st' : St) (hst : st.ArgsLt N) (h : finish fuel st = .ok st') :
    st'.ArgsLt N := by
  induction fuel generalizing st with
  | zero => simp [finish] at h
  | succ n ih =>
    unfold finish at h
    cases hops : st.ops with
    | nil => simp [hops] at h; subst h; exact hst
    | cons e rest =>
      simp only [hops] at h
      cases hpt : processTree st with
      | ok st'' =>
        simp only [hpt] at h
        exact ih _ (processTree_lt N _ _ hst hpt) h
      | err => simp [hpt] at h
      | panic => simp [hpt] at h

/-- every argument text in the tree returned for `s` is strictly shorter than `s` -/
theorem parseTop_argsLt (ops : List Op) (fns : List Bytes) (s : Bytes) (n : Node)
    (h : parseTop ops fns s = .ok (some n)) : n.ArgsLt s.length := by
  unfold parseTop at h
  split at h
  · simp at h
  · simp at h
  · rename_i st hp
    split at h
    · simp at h
    · simp at h
    · rename_i st' hf
      have hok := finish_lt s.length _ _ _
        (parseLoop_lt s.length ops fns _ _ _ _ _ _ (St.ArgsLt_empty _) (Nat.le_refl _) hp) hf
      injection h with h
      exact hok n (List.mem_of_mem_head? h)


/-! ### variable substitution with `$`-free answers terminates and does not lengthen the text -/

theorem splitDollar_spec (s b a : Bytes) (h : splitDollar s = some (b, a)) :
    s = b ++ 36 :: a ∧ b.count 36 = 0 := by
  induction s generalizing b with
  | nil => simp [splitDollar] at h
  | cons c t ih =>
    unfold splitDollar at h
    by_cases hc : (c == 36) = true
    · simp only [hc, if_true] at h
      injection h with h
      injection h with h1 h2
      subst h1 h2
      have : c = 36 := by simpa using hc
      simp [this]
    · simp only [hc] at h
      cases hr : splitDollar t with
      | none => simp [hr] at h
      | some q =>
        obtain ⟨b', a'⟩ := q
        simp [hr] at h
        obtain ⟨h1, h2⟩ := h
        subst h1 h2
        obtain ⟨e1, e2⟩ := ih b' hr
        have hc' : ¬ c = 36 := by simpa using hc
        refine ⟨by rw [e1]; simp, ?_⟩
        rw [List.count_cons, e2]
        simp [hc']

theorem isVarChar_dollar (i : Nat) : isVarChar i 36 = false := by
  simp [isVarChar]

theorem varName_spec (i : Nat) (a : Bytes) :
    a = (varName i a).1 ++ (varName i a).2 ∧ (varName i a).1.count 36 = 0 := by
  induction a generalizing i with
  | nil => simp [varName]
  | cons c t ih =>
    unfold varName
    by_cases hc : isVarChar i c = true
    · simp only [hc, if_true]
      obtain ⟨e1, e2⟩ := ih (i + 1)
      have hne : ¬ c = 36 := by
        intro e; subst e; rw [isVarChar_dollar] at hc; exact Bool.noConfusion hc
      refine ⟨by simp [← e1], ?_⟩
      rw [List.count_cons, e2]
      simp [hne]
    · simp [hc]

theorem count_zero_of_not_mem (s : Bytes) (h : (36 : Nat) ∉ s) : s.count 36 = 0 := List.count_eq_zero.mpr h

/-- with answers that contain no `$` and are not longer than `$name`, the loop of `replaceVariables` ends within
    its fuel (one round per `$`) and never lengthens the text -/
theorem replaceVars_bounded (f : Bytes → Bytes) (hd : ∀ n, (36 : Nat) ∉ f n) (hl : ∀ n, (f n).length ≤ n.length + 1)
    (fuel : Nat) (s : Bytes) (hf : s.count 36 < fuel) :
    replaceVars (some f) fuel s ≠ .panic ∧ ∀ r, replaceVars (some f) fuel s = .ok r → r.length ≤ s.length := by
  induction fuel generalizing s with
  | zero => omega
  | succ n ih =>
    unfold replaceVars
    cases hs : splitDollar s with
    | none =>
      refine ⟨by simp, ?_⟩
      intro r hr; simp at hr; subst hr; exact Nat.le_refl _
    | some q =>
      obtain ⟨b, a⟩ := q
      obtain ⟨e1, e2⟩ := splitDollar_spec s b a hs
      obtain ⟨e3, e4⟩ := varName_spec 0 a
      simp only []
      split
      · refine ⟨by simp, ?_⟩; intro r hr; simp at hr
      · split
        · refine ⟨by simp, ?_⟩; intro r hr; simp at hr
        · have hcnt : (b ++ f (varName 0 a).1 ++ (varName 0 a).2).count 36 < n := by
            have h1 : s.count 36 = 1 + (varName 0 a).2.count 36 := by
              rw [e1, List.count_append, e2, List.count_cons]
              conv => lhs; rw [e3]
              rw [List.count_append, e4]
              simp; omega
            rw [List.count_append, List.count_append, e2, count_zero_of_not_mem _ (hd _)]
            omega
          have hlen : (b ++ f (varName 0 a).1 ++ (varName 0 a).2).length ≤ s.length := by
            have h1 : s.length = b.length + 1 + ((varName 0 a).1.length + (varName 0 a).2.length) := by
              rw [e1, List.length_append, List.length_cons]
              conv => lhs; rw [e3]
              rw [List.length_append]; omega
            have := hl (varName 0 a).1
            simp only [List.length_append]
            omega
          obtain ⟨i1, i2⟩ := ih _ hcnt
          refine ⟨i1, ?_⟩
          intro r hr
          have := i2 r hr
          omega

theorem replaceVariables_bounded (resolve : Option (Bytes → Bytes))
    (hres : ∀ f, resolve = some f → (∀ n, (36 : Nat) ∉ f n) ∧ (∀ n, (f n).length ≤ n.length + 1)) (s : Bytes) :
    replaceVariables resolve s ≠ .panic ∧ ∀ r, replaceVariables resolve s = .ok r → r.length ≤ s.length := by
  unfold replaceVariables
  cases resolve with
  | some f =>
    obtain ⟨hd, hl⟩ := hres f rfl
    exact replaceVars_bounded f hd hl _ s (by omega)
  | none =>
    unfold replaceVars
    cases hs : splitDollar s with
    | none =>
      refine ⟨by simp, ?_⟩
      intro r hr; simp at hr; subst hr; exact Nat.le_refl _
    | some q =>
      obtain ⟨b, a⟩ := q
      refine ⟨by simp, ?_⟩
      intro r hr; simp at hr

/-! ### evaluation with a nested evaluator that is only known to be total on shorter texts -/

theorem nextArgGo_fst_length (parens : Int) (args a b : Bytes) (h : nextArgGo parens args = some (a, b)) :
    a.length ≤ args.length := by
  induction args generalizing parens a b with
  | nil => simp [nextArgGo] at h
  | cons c t ih =>
    unfold nextArgGo at h
    split at h
    · cases hr : nextArgGo (parens + 1) t with
      | none => simp [hr] at h
      | some q =>
        obtain ⟨a', b'⟩ := q
        simp [hr] at h
        have := ih _ _ _ hr
        simp [← h.1]
        omega
    · split at h
      · cases hr : nextArgGo (parens - 1) t with
        | none => simp [hr] at h
        | some q =>
          obtain ⟨a', b'⟩ := q
          simp [hr] at h
          have := ih _ _ _ hr
          simp [← h.1]
          omega
      · split at h
        · simp at h
          simp [h.1]
        · cases hr : nextArgGo parens t with
          | none => simp [hr] at h
          | some q =>
            obtain ⟨a', b'⟩ := q
            simp [hr] at h
            have := ih _ _ _ hr
            simp [← h.1]
            omega

theorem nextArg_fst_length (args : Bytes) : (nextArg args).1.length ≤ args.length := by
  unfold nextArg
  cases hr : nextArgGo 0 args with
  | none => simp
  | some q =>
    obtain ⟨a, b⟩ := q
    exact nextArgGo_fst_length _ _ _ _ hr

theorem evalArgs_no_panic_bounded (ev : Bytes → R Bytes) (M : Nat) (hev : ∀ s, s.length ≤ M → ev s ≠ .panic)
    (fuel : Nat) (args : Bytes) (hf : args.length < fuel) (hM : args.length ≤ M) :
    evalArgs ev fuel args ≠ .panic := by
  induction fuel generalizing args with
  | zero => omega
  | succ n ih =>
    unfold evalArgs
    split
    · simp
    · rename_i hne
      have h1 := hev (nextArg args).1 (by have := nextArg_fst_length args; omega)
      have h3 := nextArg_length args hne
      have h2 := ih (nextArg args).2 (by omega) (by omega)
      split
      · simp
      · contradiction
      · split
        · simp
        · contradiction
        · simp

theorem evalNode_no_panic_bounded (ev rv : Bytes → R Bytes) (N : Nat) (hev : ∀ s, s.length < N → ev s ≠ .panic)
    (hrv : ∀ s, rv s ≠ .panic) (hrl : ∀ s r, rv s = .ok r → r.length ≤ s.length) (n : Node)
    (hn : n.OK) (hl : n.ArgsLt N) : evalNode ev rv n ≠ .panic := by
  induction n with
  | nil => simp [evalNode]
  | operand un v =>
    unfold evalNode
    have := hrv v
    split
    · simp
    · contradiction
    · simp
  | func un name args =>
    unfold evalNode
    have := hrv args
    split
    · simp
    · contradiction
    · rename_i s hs
      have hlen := hrl args s hs
      simp only [Node.ArgsLt] at hl
      have := evalArgs_no_panic_bounded ev s.length (fun p hp => hev p (by omega)) (s.length + 1) s (by omega)
        (Nat.le_refl _)
      split
      · simp
      · contradiction
      · simp
  | tree l r op un ihl ihr =>
    simp only [Node.OK] at hn
    simp only [Node.ArgsLt] at hl
    obtain ⟨hnl, hnr, hop⟩ := hn
    have h1 := ihl hnl hl.1
    have h2 := ihr hnr hl.2
    unfold evalNode
    split
    · simp
    · contradiction
    · split
      · simp
      · contradiction
      · split
        · rename_i hc
          simp only [Bool.and_eq_true, Bool.not_eq_true'] at hc
          have hop' := hop (Node.ne_nil_of_isNil_false _ hc.1) (Node.ne_nil_of_isNil_false _ hc.2)
          split
          · contradiction
          · split
            · simp
            · split <;> simp
        · split
          · simp
          · split
            · simp
            · split <;> simp

/-- **`Evaluate` never panics**: with a nesting budget above the input length the model of `Evaluate` (parse, final
    reduction, tree walk, `replaceVariables`, the argument loop of functions and the nested `EvaluateNew`) never
    reaches a Go panic and never runs out of fuel — every nested evaluation is on a strictly shorter text -/
theorem evaluate_no_panic (ops : List Op) (fns : List Bytes) (hne : SymsNonempty ops)
    (resolve : Option (Bytes → Bytes))
    (hres : ∀ f, resolve = some f → (∀ n, (36 : Nat) ∉ f n) ∧ (∀ n, (f n).length ≤ n.length + 1)) :
    ∀ (d : Nat) (s : Bytes), s.length < d → evaluate ops fns resolve d s ≠ .panic := by
  intro d
  induction d with
  | zero => intro s hs; omega
  | succ d ih =>
    intro s hs
    unfold evaluate
    have hp := parseTop_no_panic ops fns hne s
    cases hpt : parseTop ops fns s with
    | err => simp
    | panic => exact absurd hpt hp
    | ok o =>
      cases o with
      | none => simp
      | some top =>
        simp only []
        have := evalNode_no_panic_bounded (evaluate ops fns resolve d) (replaceVariables resolve) s.length
          (fun p hp => ih p (by omega)) (fun x => (replaceVariables_bounded resolve hres x).1)
          (fun x r => (replaceVariables_bounded resolve hres x).2 r) top (parseTop_ok_node ops fns s top hpt)
          (parseTop_argsLt ops fns s top hpt)
        split
        · simp
        · contradiction
        · simp
        · simp

/-! ### no hypothesis on the length of the answers of the resolver

    `evaluate_no_panic` asks that no answer is longer than `$name`.  That is not needed:
    * a text without `$` is left alone by `replaceVariables`, whatever the resolver is, and the tree parsed from it holds
      pieces of that text only (`parseTop_infix`), so the nesting argument goes through as it is
      (`evaluate_no_panic_closed`);
    * for a text with `$` the substituted argument texts hold no `$` (the answers hold none) and are not longer than
      `|s| * (K + 1)` when each of the variables of `s` grows by at most `K` (`evaluate_no_panic_growth`); some `K` always
      exists because `s` has finitely many pieces (`evaluate_terminates`). -/

theorem splitDollar_clean (x : Bytes) (h : (36 : Nat) ∉ x) : splitDollar x = none := by
  induction x with
  | nil => rfl
  | cons c t ih =>
    have hc : (c == 36) = false := by
      have : c ≠ 36 := fun e => h (by simp [e])
      simpa using this
    simp [splitDollar, hc, ih (fun hm => h (by simp [hm]))]

theorem not_mem_of_splitDollar_none (x : Bytes) (h : splitDollar x = none) : (36 : Nat) ∉ x := by
  induction x with
  | nil => simp
  | cons c t ih =>
    unfold splitDollar at h
    by_cases hc : (c == 36) = true
    · simp [hc] at h
    · simp only [hc] at h
      cases hr : splitDollar t with
      | some q => simp [hr] at h
      | none =>
        have hc' : ¬ c = 36 := by simpa using hc
        intro hm
        rcases List.mem_cons.mp hm with e | e
        · exact hc' e.symm
        · exact ih hr e

/-- `replaceVariables` leaves a text without `$` alone — with any resolver, or none -/
theorem replaceVariables_clean (resolve : Option (Bytes → Bytes)) (x : Bytes) (h : (36 : Nat) ∉ x) :
    replaceVariables resolve x = .ok x := by
  unfold replaceVariables
  simp [replaceVars, splitDollar_clean x h]

/-- the first `$` of a text that starts with a `$`-free part -/
theorem splitDollar_clean_append (d t : Bytes) (h : (36 : Nat) ∉ d) :
    splitDollar (d ++ t) = (splitDollar t).map (fun x => (d ++ x.1, x.2)) := by
  induction d with
  | nil => cases hs : splitDollar t <;> simp [hs]
  | cons c r ih =>
    have hc : (c == 36) = false := by
      have : c ≠ 36 := fun e => h (by simp [e])
      simpa using this
    have ih' := ih (fun hm => h (by simp [hm]))
    simp only [List.cons_append, splitDollar, hc, ih']
    cases splitDollar t <;> simp

/-- the loop of `replaceVariables` on `dn ++ td` where `dn` (the part already substituted) holds no `$`: with answers
    that hold no `$` it ends within one round per `$` of `td`, the result holds no `$`, and it is longer than the text
    by at most `K` per `$` when `K` bounds the growth for the names that occur in `td` -/
theorem replaceVars_growth (f : Bytes → Bytes) (hd : ∀ n, (36 : Nat) ∉ f n) (K : Nat) (fuel : Nat) (dn td : Bytes)
    (hdn : (36 : Nat) ∉ dn) (hK : ∀ n, n <:+: td → (f n).length ≤ n.length + 1 + K) (hf : td.count 36 < fuel) :
    replaceVars (some f) fuel (dn ++ td) ≠ .panic ∧
      ∀ r, replaceVars (some f) fuel (dn ++ td) = .ok r →
        (36 : Nat) ∉ r ∧ r.length ≤ dn.length + td.length + td.count 36 * K := by
  induction fuel generalizing dn td with
  | zero => omega
  | succ n ih =>
    unfold replaceVars
    rw [splitDollar_clean_append dn td hdn]
    cases hs : splitDollar td with
    | none =>
      have h36 := not_mem_of_splitDollar_none td hs
      simp only [Option.map_none]
      refine ⟨by simp, ?_⟩
      intro r hr
      injection hr with hr
      subst hr
      refine ⟨?_, ?_⟩
      · simp [hdn, h36]
      · simp
    | some q =>
      obtain ⟨b, a⟩ := q
      obtain ⟨e1, e2⟩ := splitDollar_spec td b a hs
      obtain ⟨e3, e4⟩ := varName_spec 0 a
      simp only [Option.map_some]
      split
      · refine ⟨by simp, ?_⟩; intro r hr; simp at hr
      · split
        · refine ⟨by simp, ?_⟩; intro r hr; simp at hr
        · generalize (varName 0 a).1 = nm at *
          generalize (varName 0 a).2 = rs at *
          subst e3
          subst e1
          have hb : (36 : Nat) ∉ b := List.count_eq_zero.mp e2
          have hcnt : (b ++ 36 :: (nm ++ rs)).count 36 = 1 + rs.count 36 := by
            rw [List.count_append, e2, List.count_cons, List.count_append, e4]
            simp; omega
          have hnm : nm <:+: b ++ 36 :: (nm ++ rs) := ⟨b ++ [36], rs, by simp⟩
          have hrs : rs <:+ b ++ 36 :: (nm ++ rs) := ⟨b ++ 36 :: nm, by simp⟩
          have hdn' : (36 : Nat) ∉ dn ++ b ++ f nm := by simp [hdn, hb, hd nm]
          obtain ⟨i1, i2⟩ := ih (dn ++ b ++ f nm) rs hdn' (fun m hm => hK m (hm.trans hrs.isInfix)) (by omega)
          refine ⟨i1, ?_⟩
          intro r hr
          obtain ⟨j1, j2⟩ := i2 r hr
          refine ⟨j1, ?_⟩
          have hg := hK nm hnm
          rw [hcnt, Nat.add_mul, Nat.one_mul]
          simp only [List.length_append, List.length_cons] at j2 ⊢
          omega

theorem replaceVariables_growth (resolve : Option (Bytes → Bytes)) (K : Nat) (t : Bytes)
    (hres : ∀ f, resolve = some f →
      (∀ n, (36 : Nat) ∉ f n) ∧ (∀ n, n <:+: t → (f n).length ≤ n.length + 1 + K)) :
    replaceVariables resolve t ≠ .panic ∧
      ∀ r, replaceVariables resolve t = .ok r → (36 : Nat) ∉ r ∧ r.length ≤ t.length + t.count 36 * K := by
  unfold replaceVariables
  cases resolve with
  | some f =>
    obtain ⟨hd, hl⟩ := hres f rfl
    have := replaceVars_growth f hd K _ [] t (by simp) hl (by omega : t.count 36 < t.count 36 * 3 + 2 + 1)
    simpa using this
  | none =>
    unfold replaceVars
    cases hs : splitDollar t with
    | none =>
      have h36 := not_mem_of_splitDollar_none t hs
      refine ⟨by simp, ?_⟩
      intro r hr; simp at hr; subst hr
      exact ⟨h36, Nat.le_add_right _ _⟩
    | some q =>
      obtain ⟨b, a⟩ := q
      refine ⟨by simp, ?_⟩
      intro r hr; simp at hr

/-! ### the argument loop on a text without `$` -/

theorem nextArgGo_split (parens : Int) (args a b : Bytes) (h : nextArgGo parens args = some (a, b)) :
    args = a ++ 44 :: b := by
  induction args generalizing parens a b with
  | nil => simp [nextArgGo] at h
  | cons c t ih =>
    unfold nextArgGo at h
    split at h
    · cases hr : nextArgGo (parens + 1) t with
      | none => simp [hr] at h
      | some q =>
        obtain ⟨a', b'⟩ := q
        simp [hr] at h
        obtain ⟨h1, h2⟩ := h
        subst h1 h2
        rw [ih _ _ _ hr]; rfl
    · split at h
      · cases hr : nextArgGo (parens - 1) t with
        | none => simp [hr] at h
        | some q =>
          obtain ⟨a', b'⟩ := q
          simp [hr] at h
          obtain ⟨h1, h2⟩ := h
          subst h1 h2
          rw [ih _ _ _ hr]; rfl
      · split at h
        · rename_i hc
          simp at h hc
          obtain ⟨h1, h2⟩ := h
          subst h1 h2
          simp [hc.1]
        · cases hr : nextArgGo parens t with
          | none => simp [hr] at h
          | some q =>
            obtain ⟨a', b'⟩ := q
            simp [hr] at h
            obtain ⟨h1, h2⟩ := h
            subst h1 h2
            rw [ih _ _ _ hr]; rfl

theorem nextArg_clean (args : Bytes) (h : (36 : Nat) ∉ args) :
    (36 : Nat) ∉ (nextArg args).1 ∧ (36 : Nat) ∉ (nextArg args).2 := by
  unfold nextArg
  cases hr : nextArgGo 0 args with
  | none => simp [h]
  | some q =>
    obtain ⟨a, b⟩ := q
    have e := nextArgGo_split _ _ _ _ hr
    simp only []
    rw [e] at h
    simp at h
    exact h

theorem evalArgs_no_panic_clean (ev : Bytes → R Bytes) (M : Nat)
    (hev : ∀ a, (36 : Nat) ∉ a → a.length ≤ M → ev a ≠ .panic) (fuel : Nat) (args : Bytes)
    (hf : args.length < fuel) (hM : args.length ≤ M) (h36 : (36 : Nat) ∉ args) :
    evalArgs ev fuel args ≠ .panic := by
  induction fuel generalizing args with
  | zero => omega
  | succ n ih =>
    unfold evalArgs
    split
    · simp
    · rename_i hne
      obtain ⟨c1, c2⟩ := nextArg_clean args h36
      have h1 := hev (nextArg args).1 c1 (by have := nextArg_fst_length args; omega)
      have h3 := nextArg_length args hne
      have h2 := ih (nextArg args).2 (by omega) (by omega) c2
      split
      · simp
      · contradiction
      · split
        · simp
        · contradiction
        · simp

/-! ### the tree walk, text by text -/

/-- what the walk needs of the texts of the tree: substitution does not panic, and the argument loop on a substituted
    argument text does not -/
def Node.Safe (ev rv : Bytes → R Bytes) : Node → Prop
  | .nil => True
  | .operand _ v => rv v ≠ .panic
  | .func _ _ args => rv args ≠ .panic ∧ ∀ T, rv args = .ok T → evalArgs ev (T.length + 1) T ≠ .panic
  | .tree l r _ _ => l.Safe ev rv ∧ r.Safe ev rv

theorem Node.safe_of_infix (ev rv : Bytes → R Bytes) (s : Bytes) (N : Nat)
    (hop : ∀ v, v <:+: s → rv v ≠ .panic)
    (hfn : ∀ a, a <:+: s → a.length < N → ∀ T, rv a = .ok T → evalArgs ev (T.length + 1) T ≠ .panic)
    (n : Node) (hi : n.Infix s) (hl : n.ArgsLt N) : n.Safe ev rv := by
  induction n with
  | nil => simp [Node.Safe]
  | operand un v => exact hop v hi
  | func un name args => exact ⟨hop args hi, hfn args hi hl⟩
  | tree l r op un ihl ihr => exact ⟨ihl hi.1 hl.1, ihr hi.2 hl.2⟩

theorem evalNode_no_panic_safe (ev rv : Bytes → R Bytes) (n : Node) (hn : n.OK) (hs : n.Safe ev rv) :
    evalNode ev rv n ≠ .panic := by
  induction n with
  | nil => simp [evalNode]
  | operand un v =>
    unfold evalNode
    have : rv v ≠ .panic := hs
    split
    · simp
    · contradiction
    · simp
  | func un name args =>
    unfold evalNode
    have hs' : rv args ≠ .panic ∧ ∀ T, rv args = .ok T → evalArgs ev (T.length + 1) T ≠ .panic := hs
    have := hs'.1
    split
    · simp
    · contradiction
    · rename_i T hT
      have := hs'.2 T hT
      split
      · simp
      · contradiction
      · simp
  | tree l r op un ihl ihr =>
    simp only [Node.OK] at hn
    obtain ⟨hnl, hnr, hop⟩ := hn
    have hs' : l.Safe ev rv ∧ r.Safe ev rv := hs
    have h1 := ihl hnl hs'.1
    have h2 := ihr hnr hs'.2
    unfold evalNode
    split
    · simp
    · contradiction
    · split
      · simp
      · contradiction
      · split
        · rename_i hc
          simp only [Bool.and_eq_true, Bool.not_eq_true'] at hc
          have hop' := hop (Node.ne_nil_of_isNil_false _ hc.1) (Node.ne_nil_of_isNil_false _ hc.2)
          split
          · contradiction
          · split
            · simp
            · split <;> simp
        · split
          · simp
          · split
            · simp
            · split <;> simp

/-- `evaluate` one level down, given the texts of the parsed tree are safe -/
theorem evaluate_succ_no_panic (ops : List Op) (fns : List Bytes) (hne : SymsNonempty ops)
    (resolve : Option (Bytes → Bytes)) (d : Nat) (s : Bytes)
    (h : ∀ top, parseTop ops fns s = .ok (some top) →
      top.Safe (evaluate ops fns resolve d) (replaceVariables resolve)) :
    evaluate ops fns resolve (d + 1) s ≠ .panic := by
  unfold evaluate
  have hp := parseTop_no_panic ops fns hne s
  cases hpt : parseTop ops fns s with
  | err => simp
  | panic => exact absurd hpt hp
  | ok o =>
    cases o with
    | none => simp
    | some top =>
      simp only []
      have := evalNode_no_panic_safe _ _ top (parseTop_ok_node ops fns s top hpt) (h top hpt)
      split
      · simp
      · contradiction
      · simp
      · simp

/-- **texts without `$`: `Evaluate` never panics, whatever the resolver is** (there is nothing to resolve: the parsed
    tree holds pieces of the text only, so every nested evaluation is on a strictly shorter text without `$`) -/
theorem evaluate_no_panic_closed (ops : List Op) (fns : List Bytes) (hne : SymsNonempty ops)
    (resolve : Option (Bytes → Bytes)) :
    ∀ (d : Nat) (s : Bytes), (36 : Nat) ∉ s → s.length < d → evaluate ops fns resolve d s ≠ .panic := by
  intro d
  induction d with
  | zero => intro s _ hs; omega
  | succ d ih =>
    intro s h36 hs
    apply evaluate_succ_no_panic ops fns hne
    intro top hpt
    refine Node.safe_of_infix _ _ s s.length ?_ ?_ top (parseTop_infix ops fns s top hpt)
      (parseTop_argsLt ops fns s top hpt)
    · intro v hv
      rw [replaceVariables_clean resolve v (fun hm => h36 (hv.subset hm))]
      simp
    · intro a ha hl T hT
      have h36a : (36 : Nat) ∉ a := fun hm => h36 (ha.subset hm)
      rw [replaceVariables_clean resolve a h36a] at hT
      injection hT with hT
      subst hT
      exact evalArgs_no_panic_clean _ a.length (fun x hx hxl => ih x hx (by omega)) _ a (by omega)
        (Nat.le_refl _) h36a

/-- **resolvers whose answers hold no `$`**: when each variable name that occurs in `s` is answered with at most `K`
    bytes more than `$name`, the substituted argument texts are shorter than `|s| * (K + 1) + 1` and hold no `$`, so
    that nesting budget suffices -/
theorem evaluate_no_panic_growth (ops : List Op) (fns : List Bytes) (hne : SymsNonempty ops)
    (resolve : Option (Bytes → Bytes)) (K : Nat) (s : Bytes)
    (hres : ∀ f, resolve = some f →
      (∀ n, (36 : Nat) ∉ f n) ∧ (∀ n, n <:+: s → (f n).length ≤ n.length + 1 + K)) :
    ∀ d, s.length * (K + 1) + 1 < d → evaluate ops fns resolve d s ≠ .panic := by
  intro d hd
  cases d with
  | zero => omega
  | succ d =>
    apply evaluate_succ_no_panic ops fns hne
    intro top hpt
    have hsub : ∀ v, v <:+: s → ∀ f, resolve = some f →
        (∀ n, (36 : Nat) ∉ f n) ∧ (∀ n, n <:+: v → (f n).length ≤ n.length + 1 + K) :=
      fun v hv f hf => ⟨(hres f hf).1, fun n hn => (hres f hf).2 n (hn.trans hv)⟩
    refine Node.safe_of_infix _ _ s s.length ?_ ?_ top (parseTop_infix ops fns s top hpt)
      (parseTop_argsLt ops fns s top hpt)
    · intro v hv
      exact (replaceVariables_growth resolve K v (hsub v hv)).1
    · intro a ha _ T hT
      obtain ⟨hT36, hTl⟩ := (replaceVariables_growth resolve K a (hsub a ha)).2 T hT
      have h1 : a.count 36 * K ≤ a.length * K := Nat.mul_le_mul_right K List.count_le_length
      have h2 : a.length * (K + 1) ≤ s.length * (K + 1) := Nat.mul_le_mul_right (K + 1) ha.length_le
      have h3 : a.length * (K + 1) = a.length * K + a.length := Nat.mul_succ _ _
      exact evalArgs_no_panic_clean _ T.length
        (fun x hx hxl => evaluate_no_panic_closed ops fns hne resolve d x hx (by omega)) _ T (by omega)
        (Nat.le_refl _) hT36

/-- the largest of `g 0, …, g (n-1)` -/
def maxBelow (g : Nat → Nat) : Nat → Nat
  | 0 => 0
  | n + 1 => max (g n) (maxBelow g n)

theorem le_maxBelow (g : Nat → Nat) (n i : Nat) (h : i < n) : g i ≤ maxBelow g n := by
  induction n with
  | zero => omega
  | succ n ih =>
    unfold maxBelow
    by_cases e : i = n
    · subst e; exact Nat.le_max_left _ _
    · exact Nat.le_trans (ih (by omega)) (Nat.le_max_right _ _)

/-- the longest answer of `f` to a contiguous piece of `s` -/
def maxAnswer (f : Bytes → Bytes) (s : Bytes) : Nat :=
  maxBelow (fun i => maxBelow (fun j => (f ((s.drop i).take j)).length) (s.length + 1)) (s.length + 1)

theorem le_maxAnswer (f : Bytes → Bytes) (s n : Bytes) (h : n <:+: s) : (f n).length ≤ maxAnswer f s := by
  obtain ⟨a, b, e⟩ := h
  subst e
  have e1 : ((a ++ n ++ b).drop a.length).take n.length = n := by simp
  have l1 : a.length < (a ++ n ++ b).length + 1 := by simp; omega
  have l2 : n.length < (a ++ n ++ b).length + 1 := by simp; omega
  unfold maxAnswer
  refine Nat.le_trans ?_ (le_maxBelow _ _ a.length l1)
  refine Nat.le_trans ?_ (le_maxBelow _ _ n.length l2)
  rw [e1]
  exact Nat.le_refl _

/-- **termination for every resolver whose answers hold no `$`**: some finite nesting budget always suffices (the
    text has finitely many pieces, so the answers to its variable names have a longest one) -/
theorem evaluate_terminates (ops : List Op) (fns : List Bytes) (hne : SymsNonempty ops)
    (resolve : Option (Bytes → Bytes)) (h36 : ∀ f, resolve = some f → ∀ n, (36 : Nat) ∉ f n) (s : Bytes) :
    ∃ D, ∀ d, D ≤ d → evaluate ops fns resolve d s ≠ .panic := by
  cases resolve with
  | none =>
    refine ⟨s.length * (0 + 1) + 2, fun d hd => ?_⟩
    exact evaluate_no_panic_growth ops fns hne none 0 s (fun f hf => by cases hf) d (by omega)
  | some f =>
    refine ⟨s.length * (maxAnswer f s + 1) + 2, fun d hd => ?_⟩
    refine evaluate_no_panic_growth ops fns hne (some f) (maxAnswer f s) s ?_ d (by omega)
    intro g hg
    injection hg with hg
    subst hg
    refine ⟨h36 f rfl, fun n hn => ?_⟩
    have := le_maxAnswer f s n hn
    omega

end Eval
