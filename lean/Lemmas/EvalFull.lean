import Lemmas.EvalRender
/-! C09, the full expression language of the property: atoms, binary operators, signs, parentheses and function calls
    `f ( a₁ , … , aₙ )` with nested arguments.  `Evaluate ∘ render = bracketed form`.  Core Lean only. -/
namespace Eval

/-! ### texts that the two parenthesis counters pass over -/

/-- balanced for the call capture, not split by `NextArg` at depth ≥ `m`, and without `$` -/
def Txt (m : Int) (s : Bytes) : Prop := Bal s ∧ NA m s ∧ (36 : Nat) ∉ s

theorem txt_nil (m : Int) : Txt m [] := ⟨bal_nil, na_nil m, by simp⟩

theorem txt_append (m : Int) (a b : Bytes) (ha : Txt m a) (hb : Txt m b) : Txt m (a ++ b) :=
  ⟨bal_append a b ha.1 hb.1, na_append m a b ha.2.1 hb.2.1, by
    intro h; rcases List.mem_append.mp h with h | h
    · exact ha.2.2 h
    · exact hb.2.2 h⟩

theorem txt_mono (m m' : Int) (h : m ≤ m') (s : Bytes) (hs : Txt m s) : Txt m' s :=
  ⟨hs.1, na_mono m m' h s hs.2.1, hs.2.2⟩

/-- bytes other than `( ) , $` -/
def Plain (s : Bytes) : Prop := ∀ c ∈ s, c ≠ 40 ∧ c ≠ 41 ∧ c ≠ 44 ∧ c ≠ 36

theorem txt_plain (m : Int) (s : Bytes) (hs : Plain s) : Txt m s :=
  ⟨bal_flat s (fun c hc => ⟨(hs c hc).1, (hs c hc).2.1⟩),
   na_flat m s (fun c hc => ⟨(hs c hc).1, (hs c hc).2.1, (hs c hc).2.2.1⟩),
   fun h => (hs 36 h).2.2.2 rfl⟩

theorem txt_comma : Txt 1 [44] := ⟨bal_flat _ (by simp), na_comma, by simp⟩

theorem txt_paren (m : Int) (s : Bytes) (hs : Txt (m + 1) s) : Txt m (40 :: (s ++ [41])) :=
  ⟨bal_paren s hs.1, na_paren m s hs.2.1, by
    intro h
    simp only [List.mem_cons, List.mem_append, List.not_mem_nil, or_false] at h
    rcases h with h | h | h
    · exact absurd h (by decide)
    · exact hs.2.2 h
    · exact absurd h (by decide)⟩

/-- a Boolean check of `Plain` (decidable on a concrete table) -/
theorem plain_of_all (s : Bytes) (h : s.all (fun c => c != 40 && c != 41 && c != 44 && c != 36) = true) : Plain s := by
  intro c hc
  have := List.all_eq_true.mp h c hc
  simp at this
  exact ⟨this.1.1.1, this.1.1.2, this.1.2, this.2⟩

theorem plain_blank (b : Bytes) (hb : Blank b) : Plain b := by
  intro c hc
  have := hb c hc
  simp [isScanSpace] at this
  rcases this with ((h | h) | h) | h <;> subst h <;> decide

/-! ### rendering without the trailing blanks -/

def renderP (ws : Nat → Bytes) : Nat → List Tok → Bytes
  | _, [] => []
  | k, t :: ts => ws k ++ (t.bytes ++ renderP ws (k + 1) ts)

theorem render_append (ws : Nat → Bytes) (k : Nat) (a b : List Tok) :
    render ws k (a ++ b) = renderP ws k a ++ render ws (k + a.length) b := by
  induction a generalizing k with
  | nil => simp [renderP]
  | cons t ts ih =>
    simp only [List.cons_append, render, renderP, ih, List.append_assoc, List.length_cons]
    rw [show k + 1 + ts.length = k + (ts.length + 1) by omega]

theorem renderP_append (ws : Nat → Bytes) (k : Nat) (a b : List Tok) :
    renderP ws k (a ++ b) = renderP ws k a ++ renderP ws (k + a.length) b := by
  induction a generalizing k with
  | nil => simp [renderP]
  | cons t ts ih =>
    simp only [List.cons_append, renderP, ih, List.append_assoc, List.length_cons]
    rw [show k + 1 + ts.length = k + (ts.length + 1) by omega]

theorem render_eq (ws : Nat → Bytes) (k : Nat) (ts : List Tok) :
    render ws k ts = renderP ws k ts ++ ws (k + ts.length) := by
  have := render_append ws k ts []
  simpa [render] using this

/-! ### side conditions on the operator table for calls -/

/-- the table facts used for the full language -/
structure FullTable (ops : List Op) (lp rp : Op) : Prop extends LexTable ops, ParenTable ops lp rp where
  lpM : lp ∈ ops
  rpM : rp ∈ ops
  /-- an operator symbol other than the parentheses contains none of `( ) , $` -/
  symPlain : ∀ o ∈ ops, o.sym ≠ LP → o.sym ≠ RP → Plain o.sym
  /-- nor does the symbol of a unary operator -/
  unPlain : ∀ o ∈ ops, o.un = true → Plain o.sym

theorem startsOp_of_mem (ops : List Op) (o : Op) (ho : o ∈ ops) (c : Nat) (t : Bytes) (hs : o.sym = c :: t) :
    startsOp ops c = true := by
  unfold startsOp
  rw [List.any_eq_true]
  exact ⟨o, ho, by simp [hs]⟩

/-- an atom contains no parenthesis -/
theorem atom_noParen (ops : List Op) (lp rp : Op) (hF : FullTable ops lp rp) (x : Bytes) (hx : AtomOK ops x) :
    ∀ c ∈ x, c ≠ 40 ∧ c ≠ 41 := by
  intro c hc
  rcases atomScan_mem ops x [] hx.2.2.1 c hc with h | h
  · constructor
    · intro e; subst e
      rw [startsOp_of_mem ops lp hF.lpM 40 [] hF.lpS] at h; exact Bool.noConfusion h
    · intro e; subst e
      rw [startsOp_of_mem ops rp hF.rpM 41 [] hF.rpS] at h; exact Bool.noConfusion h
  · rcases h with h | h <;> subst h <;> decide

theorem atom_plain (ops : List Op) (lp rp : Op) (hF : FullTable ops lp rp) (x : Bytes) (hx : AtomOK ops x)
    (h44 : (44 : Nat) ∉ x) (h36 : (36 : Nat) ∉ x) : Plain x := by
  intro c hc
  obtain ⟨h1, h2⟩ := atom_noParen ops lp rp hF x hx c hc
  exact ⟨h1, h2, fun e => h44 (e ▸ hc), fun e => h36 (e ▸ hc)⟩

/-! ### the text of a rendered expression -/

/-- what the evaluation level needs of the texts inside an expression: no `,` and no `$` in atoms and function names,
    argument texts passable at depth 1 -/
def E.TxtOK : E → Prop
  | .atom _ x => (44 : Nat) ∉ x ∧ (36 : Nat) ∉ x
  | .paren _ e => e.TxtOK
  | .bin _ l r => l.TxtOK ∧ r.TxtOK
  | .call _ f _ args => (44 : Nat) ∉ f ∧ (36 : Nat) ∉ f ∧ Txt 1 args

theorem txt_un (ops : List Op) (lp rp : Op) (hF : FullTable ops lp rp) (ws : Nat → Bytes) (hws : ∀ k, Blank (ws k))
    (u : Option Op) (hu : ∀ v, u = some v → v ∈ ops ∧ v.un = true) (k : Nat) : Txt 0 (renderP ws k (unTok u)) := by
  cases u with
  | none => exact txt_nil 0
  | some v =>
    obtain ⟨hv, hvu⟩ := hu v rfl
    simp only [unTok, renderP, Tok.bytes, List.append_nil]
    exact txt_append 0 _ _ (txt_plain 0 _ (plain_blank _ (hws k))) (txt_plain 0 _ (hF.unPlain v hv hvu))

theorem txt_blank (m : Int) (b : Bytes) (hb : Blank b) : Txt m b := txt_plain m b (plain_blank b hb)

/-- the rendering of a well-formed expression (without the trailing blanks) is a text both counters pass over -/
theorem txt_toks (ops : List Op) (fns : List Bytes) (lp rp : Op) (hF : FullTable ops lp rp) (ws : Nat → Bytes)
    (hws : ∀ k, Blank (ws k)) (e : E) (hw : e.WF lp.prec) (hin : e.In ops fns) (ht : e.TxtOK) (k : Nat) :
    Txt 0 (renderP ws k (e.toks lp rp)) := by
  induction e generalizing k with
  | atom u x =>
    have h1 := txt_un ops lp rp hF ws hws u hin.1 k
    have h2 : Txt 0 x := txt_plain 0 x (atom_plain ops lp rp hF x hin.2 ht.1 ht.2)
    have h3 := txt_blank 0 _ (hws (k + (unTok u).length))
    simpa [E.toks, renderP_append, renderP, Tok.bytes] using txt_append 0 _ _ h1 (txt_append 0 _ _ h3 h2)
  | call u f b args =>
    obtain ⟨hu, hfa, hfn, hb, ha⟩ := hin
    obtain ⟨h44, h36, hta⟩ := ht
    have h1 := txt_un ops lp rp hF ws hws u hu k
    have h2 : Txt 0 f := txt_plain 0 f (atom_plain ops lp rp hF f hfa h44 h36)
    have h3 := txt_blank 0 _ (hws (k + (unTok u).length))
    have h4 := txt_blank 0 b hb
    have h5 : Txt 0 (40 :: (args ++ [41])) := txt_paren 0 args hta
    simpa [E.toks, renderP_append, renderP, Tok.bytes] using
      txt_append 0 _ _ h1 (txt_append 0 _ _ h3 (txt_append 0 _ _ h2 (txt_append 0 _ _ h4 h5)))
  | paren u e ih =>
    obtain ⟨hu, hin'⟩ := hin
    have h1 := txt_un ops lp rp hF ws hws u hu k
    have h2 := txt_blank 0 _ (hws (k + (unTok u).length))
    have h3 := ih hw.2 hin' ht (k + (unTok u).length + 1)
    have h4 := txt_blank 0 _ (hws (k + (unTok u).length + 1 + (e.toks lp rp).length))
    have h5 : Txt 0 (40 :: ((renderP ws (k + (unTok u).length + 1) (e.toks lp rp) ++
        ws (k + (unTok u).length + 1 + (e.toks lp rp).length)) ++ [41])) :=
      txt_paren 0 _ (txt_mono 0 1 (by decide) _ (txt_append 0 _ _ h3 h4))
    have h6 := txt_append 0 _ _ h1 (txt_append 0 _ _ h2 h5)
    simpa [E.toks, renderP_append, renderP, Tok.bytes, hF.lpS, hF.rpS, LP, RP, Nat.add_assoc] using h6
  | bin o l r ihl ihr =>
    obtain ⟨hoL, hoR, _, hwl, hwr, _, _⟩ := hw
    obtain ⟨ho, hl, hr⟩ := hin
    have h1 := ihl hwl hl ht.1 k
    have h2 := txt_blank 0 _ (hws (k + (l.toks lp rp).length))
    have h3 : Txt 0 o.sym := txt_plain 0 _ (hF.symPlain o ho hoL hoR)
    have h4 := ihr hwr hr ht.2 (k + (l.toks lp rp).length + 1)
    have h5 := txt_append 0 _ _ h1 (txt_append 0 _ _ h2 (txt_append 0 _ _ h3 h4))
    simpa [E.toks, renderP_append, renderP, Tok.bytes, Nat.add_assoc] using h5

/-- … and so is the rendering with the trailing blanks -/
theorem txt_render (ops : List Op) (fns : List Bytes) (lp rp : Op) (hF : FullTable ops lp rp) (ws : Nat → Bytes)
    (hws : ∀ k, Blank (ws k)) (e : E) (hw : e.WF lp.prec) (hin : e.In ops fns) (ht : e.TxtOK) (k : Nat) :
    Txt 0 (render ws k (e.toks lp rp)) := by
  rw [render_eq]
  exact txt_append 0 _ _ (txt_toks ops fns lp rp hF ws hws e hw hin ht k) (txt_blank 0 _ (hws _))

theorem toks_ne (lp rp : Op) (e : E) : e.toks lp rp ≠ [] := by
  cases e with
  | atom u x => simp [E.toks]
  | call u f b args => simp [E.toks]
  | paren u e => simp [E.toks]
  | bin o l r => simp [E.toks]

/-- a rendered expression is not the empty text -/
theorem render_ne (ops : List Op) (fns : List Bytes) (hne : SymsNonempty ops) (lp rp : Op) (hlp : lp.sym = LP)
    (ws : Nat → Bytes) (e : E) (hin : e.In ops fns) (k : Nat) (cont : List Tok) :
    render ws k (e.toks lp rp ++ cont) ≠ [] := by
  induction e generalizing k cont with
  | atom u x =>
    have hx := hin.2.1
    cases u with
    | none => simp [E.toks, unTok, render, Tok.bytes, hx]
    | some v => simp [E.toks, unTok, render, Tok.bytes, hx]
  | call u f b args =>
    cases u with
    | none => simp [E.toks, unTok, render, Tok.bytes]
    | some v => simp [E.toks, unTok, render, Tok.bytes]
  | paren u e _ =>
    cases u with
    | none => simp [E.toks, unTok, render, Tok.bytes, hlp, LP]
    | some v => simp [E.toks, unTok, render, Tok.bytes, hlp, LP]
  | bin o l r ihl _ =>
    have := ihl hin.2.1 k ([Tok.sym o] ++ r.toks lp rp ++ cont)
    simpa [E.toks, List.append_assoc] using this


/-- parse level: the rendering of a well-formed expression is balanced (no condition on commas or `$`) -/
theorem bal_un (ops : List Op) (lp rp : Op) (hF : FullTable ops lp rp) (ws : Nat → Bytes) (hws : ∀ k, Blank (ws k))
    (u : Option Op) (hu : ∀ v, u = some v → v ∈ ops ∧ v.un = true) (k : Nat) : Bal (renderP ws k (unTok u)) := by
  cases u with
  | none => exact bal_nil
  | some v =>
    obtain ⟨hv, hvu⟩ := hu v rfl
    simp only [unTok, renderP, Tok.bytes, List.append_nil]
    exact bal_append _ _ (txt_blank 0 _ (hws k)).1 (txt_plain 0 _ (hF.unPlain v hv hvu)).1

theorem bal_toks (ops : List Op) (fns : List Bytes) (lp rp : Op) (hF : FullTable ops lp rp) (ws : Nat → Bytes)
    (hws : ∀ k, Blank (ws k)) (e : E) (hw : e.WF lp.prec) (hin : e.In ops fns) (k : Nat) :
    Bal (renderP ws k (e.toks lp rp)) := by
  induction e generalizing k with
  | atom u x =>
    have h1 := bal_un ops lp rp hF ws hws u hin.1 k
    have h2 : Bal x := bal_flat x (atom_noParen ops lp rp hF x hin.2)
    have h3 := (txt_blank 0 _ (hws (k + (unTok u).length))).1
    simpa [E.toks, renderP_append, renderP, Tok.bytes] using bal_append _ _ h1 (bal_append _ _ h3 h2)
  | call u f b args =>
    obtain ⟨hu, hfa, hfn, hb, ha⟩ := hin
    have h1 := bal_un ops lp rp hF ws hws u hu k
    have h2 : Bal f := bal_flat f (atom_noParen ops lp rp hF f hfa)
    have h3 := (txt_blank 0 _ (hws (k + (unTok u).length))).1
    have h4 := (txt_blank 0 b hb).1
    have h5 : Bal (40 :: (args ++ [41])) := bal_paren args ha
    simpa [E.toks, renderP_append, renderP, Tok.bytes] using
      bal_append _ _ h1 (bal_append _ _ h3 (bal_append _ _ h2 (bal_append _ _ h4 h5)))
  | paren u e ih =>
    obtain ⟨hu, hin'⟩ := hin
    have h1 := bal_un ops lp rp hF ws hws u hu k
    have h2 := (txt_blank 0 _ (hws (k + (unTok u).length))).1
    have h3 := ih hw.2 hin' (k + (unTok u).length + 1)
    have h4 := (txt_blank 0 _ (hws (k + (unTok u).length + 1 + (e.toks lp rp).length))).1
    have h5 : Bal (40 :: ((renderP ws (k + (unTok u).length + 1) (e.toks lp rp) ++
        ws (k + (unTok u).length + 1 + (e.toks lp rp).length)) ++ [41])) :=
      bal_paren _ (bal_append _ _ h3 h4)
    have h6 := bal_append _ _ h1 (bal_append _ _ h2 h5)
    simpa [E.toks, renderP_append, renderP, Tok.bytes, hF.lpS, hF.rpS, LP, RP, Nat.add_assoc] using h6
  | bin o l r ihl ihr =>
    obtain ⟨hoL, hoR, _, hwl, hwr, _, _⟩ := hw
    obtain ⟨ho, hl, hr⟩ := hin
    have h1 := ihl hwl hl k
    have h2 := (txt_blank 0 _ (hws (k + (l.toks lp rp).length))).1
    have h3 : Bal o.sym := (txt_plain 0 _ (hF.symPlain o ho hoL hoR)).1
    have h4 := ihr hwr hr (k + (l.toks lp rp).length + 1)
    have h5 := bal_append _ _ h1 (bal_append _ _ h2 (bal_append _ _ h3 h4))
    simpa [E.toks, renderP_append, renderP, Tok.bytes, Nat.add_assoc] using h5

theorem bal_render (ops : List Op) (fns : List Bytes) (lp rp : Op) (hF : FullTable ops lp rp) (ws : Nat → Bytes)
    (hws : ∀ k, Blank (ws k)) (e : E) (hw : e.WF lp.prec) (hin : e.In ops fns) (k : Nat) :
    Bal (render ws k (e.toks lp rp)) := by
  rw [render_eq]
  exact bal_append _ _ (bal_toks ops fns lp rp hF ws hws e hw hin k) (txt_blank 0 _ (hws _)).1

/-! ### joining and splitting argument texts -/

theorem joinComma_cons (x : Bytes) (l : List Bytes) :
    joinComma (x :: l) = if l = [] then x else x ++ 44 :: joinComma l := by
  cases l with
  | nil => rfl
  | cons y t => simp [joinComma]

theorem bal_joinComma (x : Bytes) (l : List Bytes) (hx : Bal x) (hl : Bal (joinComma l)) : Bal (joinComma (x :: l)) := by
  rw [joinComma_cons]
  split
  · exact hx
  · exact bal_append _ _ hx (bal_append [44] _ (bal_flat _ (by simp)) hl)

theorem txt_joinComma (x : Bytes) (l : List Bytes) (hx : Txt 0 x) (hl : Txt 1 (joinComma l)) :
    Txt 1 (joinComma (x :: l)) := by
  rw [joinComma_cons]
  split
  · exact txt_mono 0 1 (by decide) _ hx
  · exact txt_append 1 _ _ (txt_mono 0 1 (by decide) _ hx) (txt_append 1 [44] _ txt_comma hl)

/-- `NextArg` splits a joined argument list at its first top-level comma: the first argument and the joined rest -/
theorem nextArg_joinComma (x : Bytes) (l : List Bytes) (hx : NA 0 x) :
    nextArg (joinComma (x :: l)) = (x, joinComma l) := by
  rw [joinComma_cons]
  split
  · rename_i h; subst h; exact nextArg_last x hx
  · exact nextArg_comma x _ hx

theorem joinComma_length (x : Bytes) (l : List Bytes) (hx : x ≠ []) :
    (joinComma l).length < (joinComma (x :: l)).length := by
  rw [joinComma_cons]
  split
  · rename_i h; subst h; simpa [joinComma] using List.length_pos_iff.mpr hx
  · simp; omega

/-! ### the full expression language -/

mutual
/-- expressions: atoms (numeric literals, variables), function calls, binary operators, parentheses; a sign may
    precede an atom, a call or a parenthesis -/
inductive X where
  | atom (u : Option Op) (x : Bytes)
  | call (u : Option Op) (f : Bytes) (b : Bytes) (args : XL)   -- `b`: the blanks between the name and `(`
  | bin (o : Op) (l r : X)
  | paren (u : Option Op) (e : X)
/-- argument lists; each argument comes with the blank layout it is written in (`w k` = the blanks before its `k`-th
    token, and after its last one) -/
inductive XL where
  | nil
  | cons (a : X) (w : Nat → Bytes) (t : XL)
end

mutual
/-- the token-level expression: a call becomes one token holding the text between its parentheses -/
def X.toE (lp rp : Op) : X → E
  | .atom u x => .atom u x
  | .call u f b args => .call u f b (joinComma (args.texts lp rp))
  | .bin o l r => .bin o (l.toE lp rp) (r.toE lp rp)
  | .paren u e => .paren u (e.toE lp rp)
/-- the rendered arguments -/
def XL.texts (lp rp : Op) : XL → List Bytes
  | .nil => []
  | .cons a w t => render w 0 ((a.toE lp rp).toks lp rp) :: t.texts lp rp
end

/-- the text of an expression in the layout `ws` (`ws k` = the blanks before the `k`-th top-level token, a call
    counting as one token; the layout inside an argument list is stored with the arguments): sign, atom / name `(`
    arguments joined by `,` `)` / left operator right / `(` inner `)` -/
def X.render (lp rp : Op) (ws : Nat → Bytes) (e : X) : Bytes := Eval.render ws 0 ((e.toE lp rp).toks lp rp)

/-- the expression tree: a call node holds the function name and the raw argument text -/
def X.tree (lp rp : Op) (e : X) : Node := (e.toE lp rp).toTree

def X.minPrec : X → Option Nat
  | .bin o _ _ => some o.prec
  | _ => none

theorem X.toE_minPrec (lp rp : Op) (e : X) : (e.toE lp rp).minPrec = e.minPrec := by
  cases e <;> simp [X.toE, E.minPrec, X.minPrec]

/-- a sign, if present, is a unary operator of the table -/
def optIn (ops : List Op) (u : Option Op) : Prop := ∀ v, u = some v → v ∈ ops ∧ v.un = true

theorem optIn_unOK (ops : List Op) (u : Option Op) (h : optIn ops u) : unOK u := by
  cases u with
  | none => trivial
  | some v => exact (h v rfl).2

mutual
/-- well-formed: operators and signs from the table, atoms and function names lexable, function names defined,
    parentheses written wherever precedence and left associativity require them -/
def X.WF (ops : List Op) (fns : List Bytes) (lpPrec : Nat) : X → Prop
  | .atom u x => optIn ops u ∧ AtomOK ops x
  | .call u f b args => optIn ops u ∧ AtomOK ops f ∧ f ∈ fns ∧ Blank b ∧ args.WF ops fns lpPrec
  | .bin o l r => o ∈ ops ∧ o.sym ≠ LP ∧ o.sym ≠ RP ∧ lpPrec < o.prec ∧ l.WF ops fns lpPrec ∧ r.WF ops fns lpPrec ∧
                  geP l.minPrec o.prec ∧ gtP r.minPrec o.prec
  | .paren u e => optIn ops u ∧ e.WF ops fns lpPrec
def XL.WF (ops : List Op) (fns : List Bytes) (lpPrec : Nat) : XL → Prop
  | .nil => True
  | .cons a w t => a.WF ops fns lpPrec ∧ (∀ k, Blank (w k)) ∧ t.WF ops fns lpPrec
end

mutual
/-- evaluable with symbolic operators: binary operators have `Evaluate`; atoms and function names contain neither
    `,` (which `NextArg` would split at) nor `$` (no variables at this level) -/
def X.Ev : X → Prop
  | .atom _ x => (44 : Nat) ∉ x ∧ (36 : Nat) ∉ x
  | .call _ f _ args => (44 : Nat) ∉ f ∧ (36 : Nat) ∉ f ∧ args.Ev
  | .bin o l r => o.bin = true ∧ l.Ev ∧ r.Ev
  | .paren _ e => e.Ev
def XL.Ev : XL → Prop
  | .nil => True
  | .cons a _ t => a.Ev ∧ t.Ev
end

mutual
/-- the value when every operator brackets its operands and a function `f` yields `f[v₁;…;vₙ]` -/
def X.str : X → Bytes
  | .atom u x => applyUn u x
  | .call u f _ args => applyUn u (f ++ [91] ++ joinSemi args.strs ++ [93])
  | .bin o l r => paren2 o l.str r.str
  | .paren none e => e.str
  | .paren (some v) e => paren1 v e.str
def XL.strs : XL → List Bytes
  | .nil => []
  | .cons a _ t => a.str :: t.strs
end

mutual
/-- nesting depth of calls = number of nested `EvaluateNew` -/
def X.cd : X → Nat
  | .atom _ _ => 0
  | .call _ _ _ args => args.cd + 1
  | .bin _ l r => max l.cd r.cd
  | .paren _ e => e.cd
def XL.cd : XL → Nat
  | .nil => 0
  | .cons a _ t => max a.cd t.cd
end

/-! ### from the full language to the token level -/

mutual
theorem X.toE_ok (ops : List Op) (fns : List Bytes) (lp rp : Op) (hF : FullTable ops lp rp) :
    ∀ e : X, e.WF ops fns lp.prec → (e.toE lp rp).WF lp.prec ∧ (e.toE lp rp).In ops fns
  | .atom u x, hw => by
    simp only [X.WF] at hw
    exact ⟨optIn_unOK ops u hw.1, hw.1, hw.2⟩
  | .call u f b args, hw => by
    simp only [X.WF] at hw
    obtain ⟨hu, hf, hfn, hb, ha⟩ := hw
    exact ⟨optIn_unOK ops u hu, hu, hf, hfn, hb, XL.texts_bal ops fns lp rp hF args ha⟩
  | .bin o l r, hw => by
    simp only [X.WF] at hw
    obtain ⟨ho, hoL, hoR, hp, hl, hr, hgl, hgr⟩ := hw
    have h1 := X.toE_ok ops fns lp rp hF l hl
    have h2 := X.toE_ok ops fns lp rp hF r hr
    simp only [X.toE, E.WF, E.In, X.toE_minPrec]
    exact ⟨⟨hoL, hoR, hp, h1.1, h2.1, hgl, hgr⟩, ho, h1.2, h2.2⟩
  | .paren u e, hw => by
    simp only [X.WF] at hw
    have h1 := X.toE_ok ops fns lp rp hF e hw.2
    exact ⟨⟨optIn_unOK ops u hw.1, h1.1⟩, hw.1, h1.2⟩
theorem XL.texts_bal (ops : List Op) (fns : List Bytes) (lp rp : Op) (hF : FullTable ops lp rp) :
    ∀ l : XL, l.WF ops fns lp.prec → Bal (joinComma (l.texts lp rp))
  | .nil, _ => bal_nil
  | .cons a w t, hw => by
    simp only [XL.WF] at hw
    obtain ⟨ha, hwb, ht⟩ := hw
    have h1 := X.toE_ok ops fns lp rp hF a ha
    simp only [XL.texts]
    exact bal_joinComma _ _ (bal_render ops fns lp rp hF w hwb _ h1.1 h1.2 0) (XL.texts_bal ops fns lp rp hF t ht)
end


/-- **parse ∘ render = tree** for the full language -/
theorem X.parse_render (ops : List Op) (fns : List Bytes) (lp rp : Op) (hF : FullTable ops lp rp) (e : X)
    (hw : e.WF ops fns lp.prec) (ws : Nat → Bytes) (hws : ∀ k, Blank (ws k)) :
    parseTop ops fns (e.render lp rp ws) = .ok (some (e.tree lp rp)) := by
  have h := X.toE_ok ops fns lp rp hF e hw
  exact parseTop_render ops fns hF.toLexTable lp rp hF.lpM hF.rpM hF.toParenTable _ h.1 h.2 ws hws

mutual
theorem X.toE_txt (ops : List Op) (fns : List Bytes) (lp rp : Op) (hF : FullTable ops lp rp) :
    ∀ e : X, e.WF ops fns lp.prec → e.Ev → (e.toE lp rp).TxtOK
  | .atom u x, _, he => by
    simp only [X.Ev] at he
    exact he
  | .call u f b args, hw, he => by
    simp only [X.WF] at hw
    simp only [X.Ev] at he
    exact ⟨he.1, he.2.1, XL.texts_txt ops fns lp rp hF args hw.2.2.2.2 he.2.2⟩
  | .bin o l r, hw, he => by
    simp only [X.WF] at hw
    simp only [X.Ev] at he
    exact ⟨X.toE_txt ops fns lp rp hF l hw.2.2.2.2.1 he.2.1, X.toE_txt ops fns lp rp hF r hw.2.2.2.2.2.1 he.2.2⟩
  | .paren u e, hw, he => by
    simp only [X.WF] at hw
    simp only [X.Ev] at he
    exact X.toE_txt ops fns lp rp hF e hw.2 he
theorem XL.texts_txt (ops : List Op) (fns : List Bytes) (lp rp : Op) (hF : FullTable ops lp rp) :
    ∀ l : XL, l.WF ops fns lp.prec → l.Ev → Txt 1 (joinComma (l.texts lp rp))
  | .nil, _, _ => txt_nil 1
  | .cons a w t, hw, he => by
    simp only [XL.WF] at hw
    simp only [XL.Ev] at he
    obtain ⟨ha, hwb, ht⟩ := hw
    have h1 := X.toE_ok ops fns lp rp hF a ha
    have h2 := X.toE_txt ops fns lp rp hF a ha he.1
    simp only [XL.texts]
    exact txt_joinComma _ _ (txt_render ops fns lp rp hF w hwb _ h1.1 h1.2 h2 0)
      (XL.texts_txt ops fns lp rp hF t ht he.2)
end

theorem X.toTree_isNil (lp rp : Op) (e : X) : (e.toE lp rp).toTree.isNil = false :=
  Eval.toTree_isNil _

/-! ### evaluation: mutual induction over expressions and argument lists -/

mutual
/-- evaluating the tree of an expression (nested calls through `EvaluateNew` = `evaluate … depth`) gives the
    bracketed form -/
theorem X.eval_tree (ops : List Op) (fns : List Bytes) (resolve : Option (Bytes → Bytes)) (lp rp : Op)
    (hF : FullTable ops lp rp) :
    ∀ e : X, e.WF ops fns lp.prec → e.Ev → ∀ depth, e.cd ≤ depth →
      evalNode (evaluate ops fns resolve depth) (replaceVariables resolve) (e.toE lp rp).toTree = .ok (some e.str)
  | .atom u x, _, he, depth, _ => by
    simp only [X.Ev] at he
    simp [X.toE, E.toTree, evalNode, replaceVariables_id resolve x he.2, X.str]
  | .call u f b args, hw, he, depth, hd => by
    simp only [X.WF] at hw
    simp only [X.Ev] at he
    cases depth with
    | zero => simp [X.cd] at hd
    | succ d =>
      have hd' : args.cd ≤ d := by simp only [X.cd] at hd; omega
      have htxt := XL.texts_txt ops fns lp rp hF args hw.2.2.2.2 he.2.2
      have hargs := XL.eval_args ops fns resolve lp rp hF args hw.2.2.2.2 he.2.2 d hd'
        ((joinComma (args.texts lp rp)).length + 1) (Nat.lt_succ_self _)
      simp only [X.toE, E.toTree, evalNode, replaceVariables_id resolve _ htxt.2.2, hargs, X.str]
  | .bin o l r, hw, he, depth, hd => by
    simp only [X.WF] at hw
    simp only [X.Ev] at he
    have hdl : l.cd ≤ depth := by simp only [X.cd] at hd; omega
    have hdr : r.cd ≤ depth := by simp only [X.cd] at hd; omega
    have h1 := X.eval_tree ops fns resolve lp rp hF l hw.2.2.2.2.1 he.2.1 depth hdl
    have h2 := X.eval_tree ops fns resolve lp rp hF r hw.2.2.2.2.2.1 he.2.2 depth hdr
    simp [X.toE, E.toTree, evalNode, h1, h2, X.toTree_isNil, he.1, X.str, applyUn]
  | .paren u e, hw, he, depth, hd => by
    simp only [X.WF] at hw
    simp only [X.Ev] at he
    have h1 := X.eval_tree ops fns resolve lp rp hF e hw.2 he depth (by simpa only [X.cd] using hd)
    cases u with
    | none => simpa [X.toE, E.toTree, wrapN, X.str] using h1
    | some v =>
      have hv : v.un = true := (hw.1 v rfl).2
      simp [X.toE, E.toTree, wrapN, evalNode, h1, X.toTree_isNil, Node.isNil, Option.filter, hv, X.str]
/-- the loop of a function over its argument text (`NextArg`, `EvaluateNew`) yields the values of the arguments -/
theorem XL.eval_args (ops : List Op) (fns : List Bytes) (resolve : Option (Bytes → Bytes)) (lp rp : Op)
    (hF : FullTable ops lp rp) :
    ∀ l : XL, l.WF ops fns lp.prec → l.Ev → ∀ d, l.cd ≤ d → ∀ fuel, (joinComma (l.texts lp rp)).length < fuel →
      evalArgs (evaluate ops fns resolve (d + 1)) fuel (joinComma (l.texts lp rp)) = .ok l.strs
  | .nil, _, _, d, _, fuel, hf => by
    cases fuel with
    | zero => omega
    | succ f => simp [evalArgs, XL.texts, joinComma, XL.strs]
  | .cons a w t, hw, he, d, hd, fuel, hf => by
    simp only [XL.WF] at hw
    simp only [XL.Ev] at he
    obtain ⟨ha, hwb, ht⟩ := hw
    have hda : a.cd ≤ d := by simp only [XL.cd] at hd; omega
    have hdt : t.cd ≤ d := by simp only [XL.cd] at hd; omega
    have h1 := X.toE_ok ops fns lp rp hF a ha
    have h2 := X.toE_txt ops fns lp rp hF a ha he.1
    have hta := txt_render ops fns lp rp hF w hwb _ h1.1 h1.2 h2 0
    have hne : render w 0 ((a.toE lp rp).toks lp rp) ≠ [] := by
      have := render_ne ops fns hF.ne lp rp hF.lpS w _ h1.2 0 []
      simpa using this
    have hsplit := nextArg_joinComma _ (t.texts lp rp) hta.2.1
    have hev : evaluate ops fns resolve (d + 1) (render w 0 ((a.toE lp rp).toks lp rp)) = .ok a.str := by
      simp only [evaluate, parseTop_render ops fns hF.toLexTable lp rp hF.lpM hF.rpM hF.toParenTable _ h1.1 h1.2 w hwb,
        X.eval_tree ops fns resolve lp rp hF a ha he.1 d hda]
    have hlen := joinComma_length _ (t.texts lp rp) hne
    cases fuel with
    | zero => omega
    | succ f =>
      simp only [XL.texts] at hf ⊢
      have hrest := XL.eval_args ops fns resolve lp rp hF t ht he.2 d hdt f (by omega)
      have hne2 : joinComma (render w 0 ((a.toE lp rp).toks lp rp) :: t.texts lp rp) ≠ [] := by
        intro h; rw [h] at hlen; simp at hlen
      simp only [evalArgs, hne2, if_false, hsplit, hev, hrest, XL.strs]
end

/-- **Evaluate ∘ render = bracketed form** for the full language -/
theorem X.evaluate_render (ops : List Op) (fns : List Bytes) (resolve : Option (Bytes → Bytes)) (lp rp : Op)
    (hF : FullTable ops lp rp) (e : X) (hw : e.WF ops fns lp.prec) (he : e.Ev) (ws : Nat → Bytes)
    (hws : ∀ k, Blank (ws k)) (depth : Nat) (hd : e.cd ≤ depth) :
    evaluate ops fns resolve (depth + 1) (e.render lp rp ws) = .ok e.str := by
  simp only [evaluate, X.parse_render ops fns lp rp hF e hw ws hws, X.tree,
    X.eval_tree ops fns resolve lp rp hF e hw he depth hd]


/-- `NextArg`, iterated as the functions do, splits the argument text of a rendered call back into the renderings of
    the arguments -/
theorem XL.splitArgs_texts (ops : List Op) (fns : List Bytes) (lp rp : Op) (hF : FullTable ops lp rp) :
    ∀ l : XL, l.WF ops fns lp.prec → l.Ev → ∀ fuel, (joinComma (l.texts lp rp)).length < fuel →
      splitArgs fuel (joinComma (l.texts lp rp)) = l.texts lp rp
  | .nil, _, _, fuel, hf => by
    cases fuel with
    | zero => omega
    | succ f => simp [splitArgs, XL.texts, joinComma]
  | .cons a w t, hw, he, fuel, hf => by
    simp only [XL.WF] at hw
    simp only [XL.Ev] at he
    obtain ⟨ha, hwb, ht⟩ := hw
    have h1 := X.toE_ok ops fns lp rp hF a ha
    have h2 := X.toE_txt ops fns lp rp hF a ha he.1
    have hta := txt_render ops fns lp rp hF w hwb _ h1.1 h1.2 h2 0
    have hne : render w 0 ((a.toE lp rp).toks lp rp) ≠ [] := by
      have := render_ne ops fns hF.ne lp rp hF.lpS w _ h1.2 0 []
      simpa using this
    have hsplit := nextArg_joinComma _ (t.texts lp rp) hta.2.1
    have hlen := joinComma_length _ (t.texts lp rp) hne
    cases fuel with
    | zero => omega
    | succ f =>
      simp only [XL.texts] at hf ⊢
      have hrest := XL.splitArgs_texts ops fns lp rp hF t ht he.2 f (by omega)
      have hne2 : joinComma (render w 0 ((a.toE lp rp).toks lp rp) :: t.texts lp rp) ≠ [] := by
        intro h; rw [h] at hlen; simp at hlen
      simp only [splitArgs, hne2, if_false, hsplit, hrest]

/-! ### the same expression in another layout -/

mutual
/-- the expression with every blank run stored inside it (before `(` of a call, around the tokens of arguments)
    removed -/
def X.strip : X → X
  | .atom u x => .atom u x
  | .call u f _ args => .call u f [] args.strip
  | .bin o l r => .bin o l.strip r.strip
  | .paren u e => .paren u e.strip
def XL.strip : XL → XL
  | .nil => .nil
  | .cons a _ t => .cons a.strip (fun _ => []) t.strip
end

mutual
theorem X.str_strip : ∀ e : X, e.strip.str = e.str
  | .atom u x => by simp [X.strip]
  | .call u f b args => by simp [X.strip, X.str, XL.strs_strip args]
  | .bin o l r => by simp [X.strip, X.str, X.str_strip l, X.str_strip r]
  | .paren none e => by simp [X.strip, X.str, X.str_strip e]
  | .paren (some v) e => by simp [X.strip, X.str, X.str_strip e]
theorem XL.strs_strip : ∀ l : XL, l.strip.strs = l.strs
  | .nil => by simp [XL.strip]
  | .cons a w t => by simp [XL.strip, XL.strs, X.str_strip a, XL.strs_strip t]
end


/-! ### the nesting of calls is bounded by the length of the text -/

theorem joinComma_length_ge (x : Bytes) (l : List Bytes) :
    x.length ≤ (joinComma (x :: l)).length ∧ (joinComma l).length ≤ (joinComma (x :: l)).length := by
  rw [joinComma_cons]
  split
  · rename_i h; subst h; simp [joinComma]
  · simp; omega

mutual
theorem X.cd_le (lp rp : Op) : ∀ (e : X) (ws : Nat → Bytes) (k : Nat),
    e.cd ≤ (renderP ws k ((e.toE lp rp).toks lp rp)).length
  | .atom u x, ws, k => by simp [X.cd]
  | .call u f b args, ws, k => by
    have h := XL.cd_le lp rp args
    simp only [X.cd, X.toE, E.toks, renderP_append, renderP, Tok.bytes, List.length_append, List.length_cons,
      List.length_nil]
    omega
  | .bin o l r, ws, k => by
    have h1 := X.cd_le lp rp l ws k
    have h2 := X.cd_le lp rp r ws (k + ((l.toE lp rp).toks lp rp).length + 1)
    simp only [X.cd, X.toE, E.toks, renderP_append, renderP, Tok.bytes, List.length_append, List.length_cons,
      List.length_nil, List.append_assoc, List.cons_append, List.nil_append] at h1 h2 ⊢
    simp only [Nat.add_assoc] at h2 ⊢
    omega
  | .paren u e, ws, k => by
    have h1 := X.cd_le lp rp e ws (k + (unTok u).length + 1)
    simp only [X.cd, X.toE, E.toks, renderP_append, renderP, Tok.bytes, List.length_append, List.length_cons,
      List.length_nil, List.append_assoc, List.cons_append, List.nil_append] at h1 ⊢
    simp only [Nat.add_assoc] at h1 ⊢
    omega
theorem XL.cd_le (lp rp : Op) : ∀ l : XL, l.cd ≤ (joinComma (l.texts lp rp)).length
  | .nil => by simp [XL.cd]
  | .cons a w t => by
    have h1 := X.cd_le lp rp a w 0
    have h2 := XL.cd_le lp rp t
    have h3 := joinComma_length_ge (render w 0 ((a.toE lp rp).toks lp rp)) (t.texts lp rp)
    have h4 : (renderP w 0 ((a.toE lp rp).toks lp rp)).length ≤ (render w 0 ((a.toE lp rp).toks lp rp)).length := by
      rw [render_eq]; simp
    simp only [XL.cd, XL.texts]
    omega
end

/-- the nesting depth of calls is at most the length of the rendered text: the budget `len + 1` that `Evaluate` is
    run with by the driver always suffices -/
theorem X.cd_le_render (lp rp : Op) (e : X) (ws : Nat → Bytes) : e.cd ≤ (e.render lp rp ws).length := by
  have h1 := X.cd_le lp rp e ws 0
  unfold X.render
  rw [render_eq]
  simp only [List.length_append]
  omega


/-! ### variables outside call arguments -/

theorem varName_count (i : Nat) (a : Bytes) : (varName i a).1.count 36 = 0 := by
  induction a generalizing i with
  | nil => simp [varName]
  | cons c t ih =>
    unfold varName
    by_cases hc : isVarChar i c = true
    · simp only [hc, if_true]
      have hne : ¬ c = 36 := by
        intro e; subst e; simp [isVarChar] at hc
      rw [List.count_cons, ih (i + 1)]
      simp [hne]
    · simp [hc]

/-- a variable reference `$name` evaluates to the resolver's answer -/
theorem replaceVariables_var (f : Bytes → Bytes) (name : Bytes) (hn : name ≠ []) (hv : varName 0 name = (name, []))
    (h36 : (36 : Nat) ∉ f name) (ht : trimSpace (f name) ≠ []) :
    replaceVariables (some f) (36 :: name) = .ok (f name) := by
  have hc : name.count 36 = 0 := by
    have := (varName_count 0 name)
    rw [hv] at this; exact this
  unfold replaceVariables
  rw [List.count_cons_self, hc]
  simp [replaceVars, splitDollar, hv, hn, ht, splitDollar_none _ h36]

/-- the atom after variable substitution -/
def substAtom (f : Bytes → Bytes) : Bytes → Bytes
  | 36 :: name => f name
  | x => x

/-- the expression with the variables outside call arguments replaced by the resolver's answers -/
def X.subst (f : Bytes → Bytes) : X → X
  | .atom u x => .atom u (substAtom f x)
  | .call u g b args => .call u g b args
  | .bin o l r => .bin o (l.subst f) (r.subst f)
  | .paren u e => .paren u (e.subst f)

/-- evaluable with the resolver `f`: like `X.Ev`, but an atom outside call arguments may be a variable `$name` whose
    answer contains no `$` and is not blank -/
def X.EvV (f : Bytes → Bytes) : X → Prop
  | .atom _ x => ((44 : Nat) ∉ x ∧ (36 : Nat) ∉ x) ∨
      ∃ name, x = 36 :: name ∧ name ≠ [] ∧ varName 0 name = (name, []) ∧ (36 : Nat) ∉ f name ∧ trimSpace (f name) ≠ []
  | .call _ g _ args => (44 : Nat) ∉ g ∧ (36 : Nat) ∉ g ∧ args.Ev
  | .bin o l r => o.bin = true ∧ l.EvV f ∧ r.EvV f
  | .paren _ e => e.EvV f

theorem substAtom_clean (f : Bytes → Bytes) (x : Bytes) (h : (36 : Nat) ∉ x) : substAtom f x = x := by
  unfold substAtom
  split
  · simp at h
  · rfl

theorem X.eval_tree_vars (ops : List Op) (fns : List Bytes) (f : Bytes → Bytes) (lp rp : Op)
    (hF : FullTable ops lp rp) :
    ∀ e : X, e.WF ops fns lp.prec → e.EvV f → ∀ depth, e.cd ≤ depth →
      evalNode (evaluate ops fns (some f) depth) (replaceVariables (some f)) (e.toE lp rp).toTree =
        .ok (some (e.subst f).str)
  | .atom u x, _, he, depth, _ => by
    simp only [X.EvV] at he
    rcases he with he | ⟨name, hx, hn, hv, h36, ht⟩
    · simp [X.toE, E.toTree, evalNode, replaceVariables_id (some f) x he.2, X.str, X.subst, substAtom_clean f x he.2]
    · subst hx
      simp [X.toE, E.toTree, evalNode, replaceVariables_var f name hn hv h36 ht, X.str, X.subst, substAtom]
  | .call u g b args, hw, he, depth, hd => by
    simp only [X.EvV] at he
    exact X.eval_tree ops fns (some f) lp rp hF (.call u g b args) hw (by simpa only [X.Ev] using he) depth hd
  | .bin o l r, hw, he, depth, hd => by
    simp only [X.WF] at hw
    simp only [X.EvV] at he
    have hdl : l.cd ≤ depth := by simp only [X.cd] at hd; omega
    have hdr : r.cd ≤ depth := by simp only [X.cd] at hd; omega
    have h1 := X.eval_tree_vars ops fns f lp rp hF l hw.2.2.2.2.1 he.2.1 depth hdl
    have h2 := X.eval_tree_vars ops fns f lp rp hF r hw.2.2.2.2.2.1 he.2.2 depth hdr
    simp [X.toE, E.toTree, evalNode, h1, h2, X.toTree_isNil, he.1, X.str, applyUn, X.subst]
  | .paren u e, hw, he, depth, hd => by
    simp only [X.WF] at hw
    simp only [X.EvV] at he
    have h1 := X.eval_tree_vars ops fns f lp rp hF e hw.2 he depth (by simpa only [X.cd] using hd)
    cases u with
    | none => simpa [X.toE, E.toTree, wrapN, X.str, X.subst] using h1
    | some v =>
      have hv : v.un = true := (hw.1 v rfl).2
      simp [X.toE, E.toTree, wrapN, evalNode, h1, X.toTree_isNil, Node.isNil, Option.filter, hv, X.str, X.subst]

/-- `Evaluate ∘ render` with variables outside call arguments: the bracketed form of the substituted expression -/
theorem X.evaluate_render_vars (ops : List Op) (fns : List Bytes) (f : Bytes → Bytes) (lp rp : Op)
    (hF : FullTable ops lp rp) (e : X) (hw : e.WF ops fns lp.prec) (he : e.EvV f) (ws : Nat → Bytes)
    (hws : ∀ k, Blank (ws k)) (depth : Nat) (hd : e.cd ≤ depth) :
    evaluate ops fns (some f) (depth + 1) (e.render lp rp ws) = .ok (e.subst f).str := by
  simp only [evaluate, X.parse_render ops fns lp rp hF e hw ws hws, X.tree,
    X.eval_tree_vars ops fns f lp rp hF e hw he depth hd]


/-! ### variables anywhere (statement only: `Props/C09.lean`, `evaluate_render_Statement`) -/

mutual
/-- the expression with every variable, also inside call arguments, replaced by the resolver's answer -/
def X.substAll (f : Bytes → Bytes) : X → X
  | .atom u x => .atom u (substAtom f x)
  | .call u g b args => .call u g b (args.substAll f)
  | .bin o l r => .bin o (l.substAll f) (r.substAll f)
  | .paren u e => .paren u (e.substAll f)
def XL.substAll (f : Bytes → Bytes) : XL → XL
  | .nil => .nil
  | .cons a w t => .cons (a.substAll f) w (t.substAll f)
end

mutual
/-- like `X.Ev`, but every atom may be a variable `$name` that the resolver answers with a literal (an atom without
    `,` and `$`) -/
def X.EvAll (ops : List Op) (f : Bytes → Bytes) : X → Prop
  | .atom _ x => ((44 : Nat) ∉ x ∧ (36 : Nat) ∉ x) ∨
      ∃ name, x = 36 :: name ∧ name ≠ [] ∧ varName 0 name = (name, []) ∧ AtomOK ops (f name) ∧
        (44 : Nat) ∉ f name ∧ (36 : Nat) ∉ f name
  | .call _ g _ args => (44 : Nat) ∉ g ∧ (36 : Nat) ∉ g ∧ args.EvAll ops f
  | .bin o l r => o.bin = true ∧ l.EvAll ops f ∧ r.EvAll ops f
  | .paren _ e => e.EvAll ops f
def XL.EvAll (ops : List Op) (f : Bytes → Bytes) : XL → Prop
  | .nil => True
  | .cons a _ t => a.EvAll ops f ∧ t.EvAll ops f
end

end Eval
