import Lemmas.EvalTotal
/-! C09, function calls: the parenthesis counting of `processFunction` (`captureArgs`) and of `NextArg` (`nextArgGo`)
    on texts whose parentheses are balanced.  Core Lean only. -/
namespace Eval

/-! ### `captureArgs` counts the bytes `(` and `)` and nothing else -/

/-- where the parenthesis counting of `processFunction` stops: the text before the first `)` that brings the depth `d`
    to zero, and the text after it -/
def parenSplit : Nat → Bytes → Option (Bytes × Bytes)
  | _, [] => none
  | d, c :: t =>
    if c = 40 then (parenSplit (d + 1) t).map (fun x => (c :: x.1, x.2))
    else if c = 41 then
      if d ≤ 1 then some ([], t) else (parenSplit (d - 1) t).map (fun x => (c :: x.1, x.2))
    else (parenSplit d t).map (fun x => (c :: x.1, x.2))

/-- the parenthesis entries of the operator table are found at every `(` / `)` byte, whatever precedes or follows -/
structure ParenTable (ops : List Op) (lp rp : Op) : Prop where
  lpS : lp.sym = LP
  rpS : rp.sym = RP
  lpU : lp.un = false
  lp40 : ∀ pre t, firstMatch ops pre (40 :: t) = some lp
  rp41 : ∀ pre t, firstMatch ops pre (41 :: t) = some rp

theorem firstMatch_sym_head (ops : List Op) (hne : SymsNonempty ops) (pre : Bytes) (c : Nat) (t : Bytes) (o : Op)
    (h : firstMatch ops pre (c :: t) = some o) : o.sym.head? = some c := by
  unfold firstMatch at h
  have hmem := List.mem_of_find?_eq_some h
  have hm := List.find?_some h
  have hp := matchAt_prefix o pre (c :: t) (by simpa using hm)
  cases hs : o.sym with
  | nil => exact absurd hs (hne o hmem)
  | cons a s =>
    rw [hs] at hp
    simp [List.isPrefixOf] at hp
    simp [hp.1]

theorem parenSplit_flat (s : Bytes) (hs : ∀ c ∈ s, c ≠ 40 ∧ c ≠ 41) (d : Nat) (r : Bytes) :
    parenSplit d (s ++ r) = (parenSplit d r).map (fun x => (s ++ x.1, x.2)) := by
  induction s with
  | nil => simp
  | cons c t ih =>
    obtain ⟨h1, h2⟩ := hs c (by simp)
    simp only [List.cons_append, parenSplit, h1, h2, if_false, ih (fun x hx => hs x (by simp [hx])), Option.map_map]
    rfl

/-- what `nextOperator` passes over contains no parenthesis, and the operator found is the first match there -/
theorem nextOperator_skipped (ops : List Op) (lp rp : Op) (hP : ParenTable ops lp rp) (pre rest sk : Bytes) (o : Op)
    (p r : Bytes) (h : nextOperator ops pre rest = some (sk, o, p, r)) :
    (∀ c ∈ sk, c ≠ 40 ∧ c ≠ 41) ∧ firstMatch ops p r = some o := by
  induction rest generalizing pre sk with
  | nil => simp [nextOperator] at h
  | cons c t ih =>
    unfold nextOperator at h
    cases hfm : firstMatch ops pre (c :: t) with
    | some o' =>
      simp only [hfm] at h
      injection h with h
      injection h with h1 h
      injection h with h2 h
      injection h with h3 h4
      subst h1 h2 h3 h4
      exact ⟨by simp, hfm⟩
    | none =>
      simp only [hfm] at h
      cases hno : nextOperator ops (c :: pre) t with
      | none => simp [hno] at h
      | some q =>
        obtain ⟨sk', o', p', r'⟩ := q
        simp only [hno] at h
        injection h with h
        injection h with h1 h
        injection h with h2 h
        injection h with h3 h4
        subst h1 h2 h3 h4
        obtain ⟨a, b⟩ := ih _ _ hno
        refine ⟨?_, b⟩
        intro x hx
        rcases List.mem_cons.mp hx with e | e
        · subst e
          constructor
          · intro e; subst e; rw [hP.lp40] at hfm; cases hfm
          · intro e; subst e; rw [hP.rp41] at hfm; cases hfm
        · exact a x e

theorem nextOperator_none_flat (ops : List Op) (lp rp : Op) (hP : ParenTable ops lp rp) (pre rest : Bytes)
    (h : nextOperator ops pre rest = none) : ∀ c ∈ rest, c ≠ 40 ∧ c ≠ 41 := by
  induction rest generalizing pre with
  | nil => simp
  | cons c t ih =>
    unfold nextOperator at h
    cases hfm : firstMatch ops pre (c :: t) with
    | some o' => simp [hfm] at h
    | none =>
      simp only [hfm] at h
      cases hno : nextOperator ops (c :: pre) t with
      | some q => obtain ⟨sk', o', p', r'⟩ := q; simp [hno] at h
      | none =>
        intro x hx
        rcases List.mem_cons.mp hx with e | e
        · subst e
          constructor
          · intro e; subst e; rw [hP.lp40] at hfm; cases hfm
          · intro e; subst e; rw [hP.rp41] at hfm; cases hfm
        · exact ih _ hno x e

/-- **the call capture**: for every text, the loop of `processFunction` stops exactly where counting the bytes `(`
    and `)` says (all other operators found on the way are ignored) -/
theorem captureArgs_parenSplit (ops : List Op) (hne : SymsNonempty ops) (lp rp : Op) (hP : ParenTable ops lp rp)
    (fuel d : Nat) (pre rest acc : Bytes) (hd : 1 ≤ d) (hf : rest.length < fuel) :
    captureArgs ops fuel d pre rest acc =
      (match parenSplit d rest with
       | some (a, r) => .ok (acc ++ a, rp, a.reverse ++ pre, 41 :: r)
       | none => .err) := by
  induction fuel generalizing d pre rest acc with
  | zero => omega
  | succ n ih =>
    rw [captureArgs_succ]
    cases hno : nextOperator ops pre rest with
    | none =>
      have hflat := nextOperator_none_flat ops lp rp hP pre rest hno
      have := parenSplit_flat rest hflat d []
      simp only [List.append_nil, parenSplit, Option.map_none] at this
      simp [this]
    | some q =>
      obtain ⟨sk, o, p, r⟩ := q
      obtain ⟨hmem, _, hrest, hrne, hp⟩ := nextOperator_spec _ _ _ _ _ _ _ hno
      obtain ⟨hflat, hfm⟩ := nextOperator_skipped ops lp rp hP _ _ _ _ _ _ hno
      subst hrest hp
      rw [parenSplit_flat sk hflat d r]
      cases r with
      | nil => exact absurd rfl hrne
      | cons c t =>
        have hlen : t.length < n := by simp at hf; omega
        simp only []
        by_cases h40 : c = 40
        · subst h40
          rw [hP.lp40] at hfm
          injection hfm with hfm; subst hfm
          have hs : parensStep lp d = d + 1 := by simp [parensStep, hP.lpS]
          rw [hs, if_neg (by omega), ih (d + 1) _ t _ (by omega) hlen]
          simp only [parenSplit, if_true]
          cases parenSplit (d + 1) t with
          | none => rfl
          | some x => simp
        · by_cases h41 : c = 41
          · subst h41
            rw [hP.rp41] at hfm
            injection hfm with hfm; subst hfm
            have hRL : (RP == LP) = false := by decide
            have hs : parensStep rp d = d - 1 := by simp [parensStep, hP.rpS, hRL]
            rw [hs]
            by_cases hd1 : d ≤ 1
            · have : d - 1 = 0 := by omega
              rw [if_pos this]
              simp [parenSplit, hd1]
            · rw [if_neg (by omega), ih (d - 1) _ t _ (by omega) hlen]
              simp only [parenSplit, if_neg h40, if_true, if_neg hd1]
              cases parenSplit (d - 1) t with
              | none => rfl
              | some x => simp
          · have hh := firstMatch_sym_head ops hne _ c t o hfm
            have hL : (o.sym == LP) = false := by
              cases hb : o.sym == LP with
              | false => rfl
              | true =>
                have : o.sym = LP := by simpa using hb
                rw [this] at hh; simp [LP] at hh; exact absurd hh.symm h40
            have hR : (o.sym == RP) = false := by
              cases hb : o.sym == RP with
              | false => rfl
              | true =>
                have : o.sym = RP := by simpa using hb
                rw [this] at hh; simp [RP] at hh; exact absurd hh.symm h41
            have hs : parensStep o d = d := by simp [parensStep, hL, hR]
            rw [hs, if_neg (by omega), ih d _ t _ hd hlen]
            simp only [parenSplit, if_neg h40, if_neg h41]
            cases parenSplit d t with
            | none => rfl
            | some x => simp

/-! ### balanced texts -/

/-- the parenthesis counter passes over `s` and comes back to where it was -/
def Bal (s : Bytes) : Prop :=
  ∀ d r, 1 ≤ d → parenSplit d (s ++ r) = (parenSplit d r).map (fun x => (s ++ x.1, x.2))

theorem bal_nil : Bal [] := by intro d r _; simp

theorem bal_flat (s : Bytes) (hs : ∀ c ∈ s, c ≠ 40 ∧ c ≠ 41) : Bal s := fun d r _ => parenSplit_flat s hs d r

theorem bal_append (a b : Bytes) (ha : Bal a) (hb : Bal b) : Bal (a ++ b) := by
  intro d r hd
  rw [List.append_assoc, ha d _ hd, hb d r hd, Option.map_map]
  cases parenSplit d r with
  | none => rfl
  | some x => simp

theorem bal_paren (s : Bytes) (hs : Bal s) : Bal (40 :: (s ++ [41])) := by
  intro d r hd
  have e : (40 :: (s ++ [41])) ++ r = 40 :: (s ++ 41 :: r) := by simp
  rw [e]
  simp only [parenSplit, if_true]
  rw [hs (d + 1) _ (by omega)]
  have h1 : ¬ (41 : Nat) = 40 := by decide
  have h2 : ¬ (d + 1 ≤ 1) := by omega
  simp only [parenSplit, if_neg h1, if_true, if_neg h2, Nat.add_sub_cancel, Option.map_map]
  cases parenSplit d r with
  | none => rfl
  | some x => simp

/-- a balanced text followed by `)` is exactly what the call capture returns -/
theorem bal_close (s : Bytes) (hs : Bal s) (r : Bytes) : parenSplit 1 (s ++ 41 :: r) = some (s, r) := by
  rw [hs 1 _ (Nat.le_refl 1)]
  simp [parenSplit]

/-! ### `NextArg` on balanced texts -/

/-- `NextArg`'s counter, at any depth ≥ `m`, passes over `s` without splitting and comes back to where it was -/
def NA (m : Int) (s : Bytes) : Prop :=
  ∀ (d : Int) r, m ≤ d → nextArgGo d (s ++ r) = (nextArgGo d r).map (fun x => (s ++ x.1, x.2))

theorem na_nil (m : Int) : NA m [] := by intro d r _; simp

theorem na_mono (m m' : Int) (h : m ≤ m') (s : Bytes) (hs : NA m s) : NA m' s :=
  fun d r hd => hs d r (by omega)

theorem na_append (m : Int) (a b : Bytes) (ha : NA m a) (hb : NA m b) : NA m (a ++ b) := by
  intro d r hd
  rw [List.append_assoc, ha d _ hd, hb d r hd, Option.map_map]
  cases nextArgGo d r with
  | none => rfl
  | some x => simp

theorem na_flat (m : Int) (s : Bytes) (hs : ∀ c ∈ s, c ≠ 40 ∧ c ≠ 41 ∧ c ≠ 44) : NA m s := by
  intro d r _
  induction s with
  | nil => simp
  | cons c t ih =>
    obtain ⟨h1, h2, h3⟩ := hs c (by simp)
    have e1 : (c == 40) = false := by simpa using h1
    have e2 : (c == 41) = false := by simpa using h2
    have e3 : (c == 44) = false := by simpa using h3
    simp only [List.cons_append, nextArgGo, e1, e2, e3, Bool.false_and, Bool.false_eq_true, if_false,
      ih (fun x hx => hs x (by simp [hx])), Option.map_map]
    rfl

/-- a comma inside parentheses does not split -/
theorem na_comma : NA 1 [44] := by
  intro d r hd
  have e1 : ((44 : Nat) == 40) = false := by decide
  have e2 : ((44 : Nat) == 41) = false := by decide
  have e3 : (d == 0) = false := by simp; omega
  simp only [List.singleton_append, nextArgGo, e1, e2, e3, Bool.and_false, Bool.false_eq_true, if_false]

theorem na_paren (m : Int) (s : Bytes) (hs : NA (m + 1) s) : NA m (40 :: (s ++ [41])) := by
  intro d r hd
  have e : (40 :: (s ++ [41])) ++ r = 40 :: (s ++ 41 :: r) := by simp
  rw [e]
  have e1 : ((40 : Nat) == 40) = true := by decide
  have e2 : ((41 : Nat) == 40) = false := by decide
  have e3 : ((41 : Nat) == 41) = true := by decide
  simp only [nextArgGo, e1, if_true]
  rw [hs (d + 1) _ (by omega)]
  simp only [nextArgGo, e2, e3, if_true, Bool.false_eq_true, if_false, Int.add_sub_cancel, Option.map_map]
  cases nextArgGo d r with
  | none => rfl
  | some x => simp

/-- `NextArg` of one argument followed by a comma: the argument and the rest -/
theorem nextArg_comma (a b : Bytes) (ha : NA 0 a) : nextArg (a ++ 44 :: b) = (a, b) := by
  unfold nextArg
  rw [ha 0 _ (Int.le_refl 0)]
  simp [nextArgGo]

/-- `NextArg` of the last argument -/
theorem nextArg_last (a : Bytes) (ha : NA 0 a) : nextArg a = (a, []) := by
  unfold nextArg
  have := ha 0 [] (Int.le_refl 0)
  simp only [List.append_nil, nextArgGo, Option.map_none] at this
  rw [this]

end Eval
