import Lemmas.I128Basic
import Lemmas.U128Div
/-! C01 helper lemmas: signed division (`Int128.Div/Mod/DivMod`) from the unsigned specification. -/
namespace I128
open U128 (W Res)

theorem zero_toInt : zero.toInt = 0 := by decide
theorem lessThan_zero (a : I128) : a.lessThan zero = decide (a.toInt < 0) := by
  have := ltHL_eq a zero.hi zero.lo
  rw [mk_eta, zero_toInt] at this; exact this

/-- magnitude used by the signed division: `Neg` if negative, as an unsigned value = |a| (2^127 for `MinInt128`) -/
theorem mag_toNat (a : I128) : ((if a.lessThan zero = true then a.neg else a).toU.toNat : Int) = a.toInt.natAbs := by
  have hr := toInt_range a
  have hlt := a.toU.toNat_lt
  have h1 := toNat_as_int a
  rw [lessThan_zero]
  by_cases h : a.toInt < 0
  · simp only [h, decide_true, if_true]
    rw [neg_toNat]; omega
  · simp only [h, decide_false, if_false, Bool.false_eq_true]
    omega

theorem ofU_toInt (q : U128) : (ofU q).toInt = wrap128 q.toNat := by
  apply toInt_of_toNat
  have := q.toNat_lt
  show ((U128.toNat q : Nat) : Int) = _
  omega

theorem neg_ofU_toInt (q : U128) : (ofU q).neg.toInt = wrap128 (-(q.toNat : Int)) := by
  rw [neg_toInt, ofU_toInt]; unfold wrap128; omega

theorem tdiv_abs (a n : Int) :
    a.tdiv n = if (decide (a < 0) != decide (n < 0)) = true then -((a.natAbs / n.natAbs : Nat) : Int)
      else ((a.natAbs / n.natAbs : Nat) : Int) := by
  rcases Int.natAbs_eq a with ha | ha <;> rcases Int.natAbs_eq n with hn | hn
  all_goals (
    generalize a.natAbs = x at *
    generalize n.natAbs = y at *
    subst ha; subst hn
    simp only [Int.neg_tdiv, Int.tdiv_neg, Int.neg_neg, Int.natAbs_neg, Int.natAbs_natCast, ← Int.ofNat_tdiv])
  all_goals (
    have hq : y = 0 → x / y = 0 := by intro h; rw [h, Nat.div_zero]
    have hq2 : x = 0 → x / y = 0 := by intro h; rw [h, Nat.zero_div]
    generalize x / y = q at *
    split <;> rename_i hc <;> simp only [bne_iff_ne, ne_eq, decide_eq_decide, Bool.not_eq_true] at hc <;> omega)

theorem tmod_abs (a n : Int) :
    a.tmod n = if a < 0 then -((a.natAbs % n.natAbs : Nat) : Int) else ((a.natAbs % n.natAbs : Nat) : Int) := by
  rcases Int.natAbs_eq a with ha | ha <;> rcases Int.natAbs_eq n with hn | hn
  all_goals (
    generalize a.natAbs = x at *
    generalize n.natAbs = y at *
    subst ha; subst hn
    simp only [Int.neg_tmod, Int.tmod_neg, ← Int.ofNat_tmod])
  all_goals (
    have hq2 : x = 0 → x % y = 0 := by intro h; rw [h, Nat.zero_mod]
    generalize x % y = q at *
    split <;> omega)

/-- the full statement of the unsigned division, as a hypothesis of the signed one -/
def UDivModSpec : Prop := ∀ (a n : U128), n.toNat ≠ 0 →
  ∃ q r, a.divMod n = .ok (q, r) ∧ q.toNat = a.toNat / n.toNat ∧ r.toNat = a.toNat % n.toNat

/-- **Int128.DivMod**: quotient truncated toward zero (wrapping only for `MinInt128 / -1`), remainder with the sign of
    the dividend — from the unsigned specification -/
theorem divMod_correct (hU : UDivModSpec) (a n : I128) (h : n.toInt ≠ 0) :
    ∃ q r, a.divMod n = .ok (q, r) ∧ q.toInt = wrap128 (a.toInt.tdiv n.toInt) ∧ r.toInt = a.toInt.tmod n.toInt := by
  have hra := toInt_range a; have hrn := toInt_range n
  have ma := mag_toNat a; have mn := mag_toNat n
  have ma' : (if a.lessThan zero = true then a.neg else a).toU.toNat = a.toInt.natAbs := Int.ofNat.inj ma
  have mn' : (if n.lessThan zero = true then n.neg else n).toU.toNat = n.toInt.natAbs := Int.ofNat.inj mn
  have hn0 : (if n.lessThan zero = true then n.neg else n).toU.toNat ≠ 0 := by omega
  obtain ⟨q, r, e, hq, hr⟩ := hU (if a.lessThan zero = true then a.neg else a).toU
    (if n.lessThan zero = true then n.neg else n).toU hn0
  unfold divMod
  simp only [e]
  refine ⟨_, _, rfl, ?_, ?_⟩
  · rw [tdiv_abs, lessThan_zero, lessThan_zero]
    have hq' : (q.toNat : Int) = ((a.toInt.natAbs / n.toInt.natAbs : Nat) : Int) := by
      rw [hq, ma', mn']
    split
    · rw [neg_ofU_toInt, hq']
    · rw [ofU_toInt, hq']
  · rw [tmod_abs, lessThan_zero]
    have hr' : (r.toNat : Int) = ((a.toInt.natAbs % n.toInt.natAbs : Nat) : Int) := by
      rw [hr, ma', mn']
    have hlt : ((a.toInt.natAbs % n.toInt.natAbs : Nat) : Int) < 2^127 := by
      have h1 : a.toInt.natAbs % n.toInt.natAbs < n.toInt.natAbs := Nat.mod_lt _ (by omega)
      omega
    by_cases ha : a.toInt < 0
    · simp only [ha, decide_true, if_true]
      rw [neg_ofU_toInt, hr']; unfold wrap128; omega
    · simp only [ha, decide_false, if_false, Bool.false_eq_true]
      rw [ofU_toInt, hr']; unfold wrap128; omega

/-- `Int128.Div` (its own copy, through `Uint128.Div`) is the quotient of `Int128.DivMod` -/
theorem div_eq_divMod (a n : I128) : a.div n = (a.divMod n).map Prod.fst := by
  unfold div divMod
  simp only [U128.div_eq_divMod]
  cases (if a.lessThan zero = true then a.neg else a).toU.divMod (if n.lessThan zero = true then n.neg else n).toU with
  | ok v => rfl
  | panic => rfl

/-- `Int128.Mod` is the remainder of `Int128.DivMod` -/
theorem mod_eq_divMod (a n : I128) : a.mod n = (a.divMod n).map Prod.snd := by
  unfold mod
  cases a.divMod n with
  | ok v => rfl
  | panic => rfl
end I128
